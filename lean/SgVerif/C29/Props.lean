import SgVerif.C29.Lemmas
import SgVerif.C29.LemmasBcast
import SgVerif.C29.LemmasPair
import SgVerif.C29.LemmasReduce
import SgVerif.C29.LemmasSpec
import SgVerif.C29.LemmasLr
import SgVerif.C29.LemmasBruck
import SgVerif.C29.LemmasA2aRing
/-
C29 — Every collective algorithm computes the MPI result.  Property theorems.

(A) theorems on the SPEC (Model.lean §Spec), for every communicator size, count, buffers, and every operator that is
    associative (+ commutative where stated);
(B) schedule theorems: the round-based models of allreduce-rdb (incl. its non-power-of-two pre/post phase),
    allgather-ring, bcast binomial_tree (= the default bcast), alltoall pair, alltoall ring, reduce flat_tree, reduce binomial, allgather bruck and
    allreduce lr (ring reduce-scatter + ring allgather; counts that are a positive multiple of the size)
    compute the spec's result for EVERY communicator size, root and rank (`allreduce_rdb_eq_spec`,
    `allgather_ring_eq_spec`, `bcast_binomial_eq_spec`, `alltoall_pair_eq_spec`, `reduce_flat_tree_eq_spec`,
    `reduce_binomial_eq_spec`, `allreduce_lr_eq_spec`, `allgather_bruck_eq_spec`, `alltoall_ring_eq_spec`).  The other selectable algorithms are not modelled: they are tied to the spec by the
    correspondence only.
-/
namespace SgVerif.C29
variable {α : Type}

/-! ## (A) the specification -/

/-- **Any reduction tree equals the left fold.**  For an associative and commutative operator, whatever tree an
algorithm uses (any bracketing, any order of the ranks' contributions — `t.leaves` is any permutation of
`x :: xs`), the value is `x ⊕ xs₀ ⊕ xs₁ ⊕ …`: this is why every algorithm must equal the one reference. -/
theorem reduce_any_tree_eq_fold (op : α → α → α) (hA : ∀ a b c, op (op a b) c = op a (op b c))
    (hC : ∀ a b, op a b = op b a) (t : RTree α) (x : α) (xs : List α) (hp : t.leaves.Perm (x :: xs)) :
    t.eval op = xs.foldl op x := by
  obtain ⟨y, ys, hl, he⟩ := tree_eval_fold op hA t
  rw [he]
  exact fold_perm op hA hC y x ys xs (hl ▸ hp)

/-- the same on whole buffers: MPI reductions are element-wise, and the element-wise operator is associative and
commutative as soon as `op` is; `reduceAll` is the value of every tree over the ranks' buffers -/
theorem reduce_any_tree_eq_reduceAll (op : α → α → α) (hA : ∀ a b c, op (op a b) c = op a (op b c))
    (hC : ∀ a b, op a b = op b a) (t : RTree (List α)) (b : List α) (bs : List (List α)) (hp : t.leaves.Perm (b :: bs)) :
    reduceAll op (b :: bs) = some (t.eval (zipOp op)) := by
  rw [reduce_any_tree_eq_fold (zipOp op) (zipOp_assoc op hA) (zipOp_comm op hC) t b bs hp]
  rfl

/-- a tree that keeps the rank order needs associativity only (what MPI requires for non-commutative operators) -/
theorem reduce_ordered_tree_eq_fold (op : α → α → α) (hA : ∀ a b c, op (op a b) c = op a (op b c))
    (t : RTree α) (x : α) (xs : List α) (hl : t.leaves = x :: xs) : t.eval op = xs.foldl op x := by
  obtain ⟨y, ys, hl', he⟩ := tree_eval_fold op hA t
  rw [hl] at hl'
  cases hl'
  exact he

/-- `allreduce = bcast ∘ reduce`: put the root's reduce result in the root's buffer and broadcast it -/
theorem allreduce_eq_bcast_reduce (op : α → α → α) (root : Nat) (bufs : Bufs α) (res : Res α) (v : List α)
    (hr : reduce op root bufs = some res) (hv : res[root]? = some (some v)) :
    bcast root (bufs.set root v) = allreduce op bufs := by
  unfold reduce at hr
  split at hr
  · rename_i hlt
    cases hra : reduceAll op bufs with
    | none => simp [hra] at hr
    | some w =>
      simp only [hra, Option.map_some, Option.some.injEq] at hr
      subst hr
      rw [onlyAt_getElem? _ _ _ _ hlt] at hv
      simp only [if_true, Option.some.injEq] at hv
      subst hv
      simp [bcast, allreduce, hra, hlt]
  · cases hr

/-- `allgather = bcast ∘ gather` -/
theorem allgather_eq_bcast_gather (root : Nat) (bufs : Bufs α) (res : Res α) (v : List α)
    (hr : gather root bufs = some res) (hv : res[root]? = some (some v)) :
    bcast root (bufs.set root v) = allgather bufs := by
  unfold gather at hr
  split at hr
  · rename_i hlt
    simp only [Option.some.injEq] at hr
    subst hr
    rw [onlyAt_getElem? _ _ _ _ hlt] at hv
    simp only [if_true, Option.some.injEq] at hv
    subst hv
    simp [bcast, allgather, hlt]
  · cases hr

/-- **scan, prefix property**: rank 0 gets its own buffer, rank `r+1` gets (result of rank `r`) ⊕ (buffer of `r+1`),
and the last rank gets the allreduce value -/
theorem scan_zero (op : α → α → α) (b : List α) (bs : Bufs α) (res : Res α) (h : scan op (b :: bs) = some res) :
    res[0]? = some (some b) := by
  simp only [scan, Option.some.injEq] at h
  subst h
  simp [reduceAll]

theorem scan_succ (op : α → α → α) (bufs : Bufs α) (res : Res α) (r : Nat) (x : List α) (h : scan op bufs = some res)
    (hx : bufs[r + 1]? = some x) :
    ∃ p, res[r]? = some (some p) ∧ res[r + 1]? = some (some (zipOp op p x)) := by
  simp only [scan, Option.some.injEq] at h
  subst h
  have hlt : r + 1 < bufs.length := by
    rcases List.getElem?_eq_some_iff.mp hx with ⟨h1, _⟩; exact h1
  cases bufs with
  | nil => simp at hlt
  | cons b bs =>
    have h2 : (b :: bs).take (r + 1 + 1) = (b :: bs).take (r + 1) ++ [x] := by
      rw [List.take_add_one, hx]; rfl
    refine ⟨(bs.take r).foldl (zipOp op) b, ?_, ?_⟩
    · have hr' : r < (b :: bs).length := by omega
      simp only [List.getElem?_map, List.getElem?_range hr', Option.map_some]
      simp [reduceAll]
    · simp only [List.getElem?_map, List.getElem?_range hlt, Option.map_some, h2]
      simp [reduceAll, List.foldl_append]

theorem scan_last_eq_allreduce (op : α → α → α) (bufs : Bufs α) (res : Res α) (h : scan op bufs = some res)
    (hne : bufs ≠ []) : res[bufs.length - 1]? = some (reduceAll op bufs) := by
  simp only [scan, Option.some.injEq] at h
  subst h
  have : 0 < bufs.length := List.length_pos_iff.mpr hne
  simp [show bufs.length - 1 < bufs.length by omega, show bufs.length - 1 + 1 = bufs.length by omega]

/-- exscan is scan shifted by one rank -/
theorem exscan_succ_eq_scan (op : α → α → α) (bufs : Bufs α) (rs re : Res α) (r : Nat) (hs : scan op bufs = some rs)
    (he : exscan op bufs = some re) (hr : r + 1 < bufs.length) : re[r + 1]? = rs[r]? := by
  simp only [scan, exscan, Option.some.injEq] at hs he
  subst hs; subst he
  simp [hr, show r < bufs.length by omega]

/-- **alltoall is the block transpose**: block `j` of the receive buffer of rank `r` is block `r` of the send buffer
of rank `j` -/
theorem transposeN_getElem? {β : Type} (n : Nat) (m : List (List β)) (r : Nat) (hr : r < n) :
    (transposeN n m)[r]? = some (m.filterMap (·[r]?)) := by
  induction n generalizing m r with
  | zero => omega
  | succ n ih =>
    cases r with
    | zero =>
      simp only [transposeN, List.getElem?_cons_zero, Option.some.injEq]
      congr 1; funext l; cases l <;> simp
    | succ r =>
      simp only [transposeN, List.getElem?_cons_succ]
      rw [ih _ _ (by omega), List.filterMap_map]
      congr 2; funext l; cases l <;> simp

theorem alltoall_block (c : Nat) (bufs : Bufs α) (res : Res α) (r : Nat) (hr : r < bufs.length)
    (h : alltoall c bufs = some res) :
    res[r]? = some (some ((bufs.filterMap fun b => (chunks c bufs.length b)[r]?).flatten)) := by
  unfold alltoall at h
  split at h
  · simp only [Option.some.injEq] at h
    subst h
    simp [transposeN_getElem? _ _ _ hr, List.filterMap_map, Function.comp_def]
  · cases h

theorem filterMap_col {β : Type} (m : List (List β)) (r j : Nat) (hrow : ∀ row ∈ m, r < row.length) :
    (m.filterMap (·[r]?))[j]? = (m[j]?).bind (·[r]?) := by
  induction m generalizing j with
  | nil => simp
  | cons row m ih =>
    have hr : r < row.length := hrow row (by simp)
    have hm : ∀ row' ∈ m, r < row'.length := fun row' h => hrow row' (by simp [h])
    rw [List.filterMap_cons, List.getElem?_eq_getElem hr]
    cases j with
    | zero => simp [List.getElem?_eq_getElem hr]
    | succ j => simp [ih j hm]

/-- entry `(r, j)` of the transpose is entry `(j, r)` of the matrix (all rows long enough): with `alltoall_block`,
`alltoall = transpose` of the block matrix; applying it twice gives the matrix back entry by entry -/
theorem transpose_entry {β : Type} (n : Nat) (m : List (List β)) (r j : Nat) (hr : r < n)
    (hrow : ∀ row ∈ m, r < row.length) :
    ((transposeN n m)[r]?).bind (·[j]?) = (m[j]?).bind (·[r]?) := by
  rw [transposeN_getElem? n m r hr]
  simp only [Option.bind_some]
  exact filterMap_col m r j hrow

/-! ### algebra of the specifications -/

/-- **reduce_scatter = scatterv ∘ reduce**: reduce to `root`, put the result in the root's buffer and scatter it with
the counts `cnts` at consecutive displacements -/
theorem reduce_scatter_eq_scatter_reduce (op : α → α → α) (root : Nat) (cnts : List Nat) (bufs : Bufs α) (res : Res α)
    (v : List α) (hr : reduce op root bufs = some res) (hv : res[root]? = some (some v)) :
    scatterv root cnts (offsets 0 cnts) (bufs.set root v) = reduceScatter op cnts bufs := by
  unfold reduce at hr
  split at hr
  · rename_i hlt
    cases hra : reduceAll op bufs with
    | none => simp [hra] at hr
    | some w =>
      simp only [hra, Option.map_some, Option.some.injEq] at hr
      subst hr
      rw [onlyAt_getElem? _ _ _ _ hlt] at hv
      simp only [if_true, Option.some.injEq] at hv
      subst hv
      unfold scatterv reduceScatter
      simp [hra, hlt, offsets_length]
  · cases hr

/-- **reduce_scatter_block = scatter ∘ reduce** (all buffers of `np * c` cells) -/
theorem reduce_scatter_block_eq_scatter_reduce (op : α → α → α) (root c : Nat) (bufs : Bufs α) (res : Res α)
    (v : List α) (hlen : ∀ b ∈ bufs, b.length = bufs.length * c) (hr : reduce op root bufs = some res)
    (hv : res[root]? = some (some v)) :
    scatter root c (bufs.set root v) = reduceScatter op (List.replicate bufs.length c) bufs := by
  unfold reduce at hr
  split at hr
  · rename_i hlt
    cases hra : reduceAll op bufs with
    | none => simp [hra] at hr
    | some w =>
      simp only [hra, Option.map_some, Option.some.injEq] at hr
      subst hr
      rw [onlyAt_getElem? _ _ _ _ hlt] at hv
      simp only [if_true, Option.some.injEq] at hv
      subst hv
      have hwl : w.length = bufs.length * c := by
        cases bufs with
        | nil => simp [reduceAll] at hra
        | cons b bs =>
          simp only [reduceAll, Option.some.injEq] at hra
          subst hra
          exact foldl_zipOp_length op _ b bs (hlen b (by simp)) (fun x hx => hlen x (by simp [hx]))
      have hsl := slices_replicate c bufs.length 0 w (by omega)
      unfold scatter reduceScatter
      simp [hra, hlt, hwl, hsl]
  · cases hr

theorem transposeN_rows {β : Type} (n : Nat) (m : List (List β)) (hrow : ∀ row ∈ m, row.length = n) :
    ∀ row ∈ transposeN n m, row.length = m.length := by
  intro row hmem
  obtain ⟨r, hr, hget⟩ := List.getElem_of_mem hmem
  rw [transposeN_length] at hr
  have h1 := transposeN_getElem? n m r hr
  rw [List.getElem?_eq_getElem (by rw [transposeN_length]; exact hr), hget] at h1
  rw [Option.some.inj h1]
  exact filterMap_col_length m r (fun row' h' => by rw [hrow row' h']; exact hr)

/-- **the transpose is an involution, as a list equality** (square matrix of `n` rows of `n` entries) -/
theorem transposeN_involutive {β : Type} (n : Nat) (m : List (List β)) (hm : m.length = n)
    (hrow : ∀ row ∈ m, row.length = n) : transposeN n (transposeN n m) = m := by
  have hT := transposeN_rows n m hrow
  rw [hm] at hT
  have hTT := transposeN_rows n (transposeN n m) hT
  rw [transposeN_length] at hTT
  apply matrix_ext n n _ _ (transposeN_length _ _) hm hTT hrow
  intro r j hr hj
  rw [transpose_entry n (transposeN n m) r j hr (fun row h => by rw [hT row h]; exact hr),
    transpose_entry n m j r hj (fun row h => by rw [hrow row h]; exact hj)]

/-- **alltoall ∘ alltoall = id**: sending the received buffers back returns every rank's original send buffer -/
theorem alltoall_involutive (c : Nat) (bufs : Bufs α) (res : Res α) (h : alltoall c bufs = some res) :
    alltoall c (res.map (·.getD [])) = some (bufs.map some) := by
  unfold alltoall at h
  split at h
  · rename_i hall
    simp only [Option.some.injEq] at h
    have hlen : ∀ b ∈ bufs, b.length = bufs.length * c := by
      intro b hb; simpa using List.all_eq_true.mp hall b hb
    have hM : (bufs.map (chunks c bufs.length)).length = bufs.length := by simp
    have hMrow : ∀ row ∈ bufs.map (chunks c bufs.length), row.length = bufs.length := by
      intro row hrow
      obtain ⟨b, _, rfl⟩ := List.mem_map.mp hrow
      exact chunks_length _ _ _
    have hTrow := transposeN_rows bufs.length _ hMrow
    rw [hM] at hTrow
    -- every block of the transposed matrix has `c` cells
    have hblk : ∀ row ∈ transposeN bufs.length (bufs.map (chunks c bufs.length)), ∀ x ∈ row, x.length = c := by
      intro row hmem x hx
      obtain ⟨r, hr, hget⟩ := List.getElem_of_mem hmem
      rw [transposeN_length] at hr
      have h1 := transposeN_getElem? bufs.length (bufs.map (chunks c bufs.length)) r hr
      rw [List.getElem?_eq_getElem (by rw [transposeN_length]; exact hr), hget] at h1
      rw [Option.some.inj h1] at hx
      obtain ⟨row', hrow', hx'⟩ := filterMap_col_mem _ r x hx
      obtain ⟨b, hb, rfl⟩ := List.mem_map.mp hrow'
      exact chunks_mem_length c bufs.length b (hlen b hb) x hx'
    have hres : res.map (·.getD []) = (transposeN bufs.length (bufs.map (chunks c bufs.length))).map List.flatten := by
      rw [← h, List.map_map]; rfl
    rw [hres]
    have hB : ((transposeN bufs.length (bufs.map (chunks c bufs.length))).map List.flatten).length = bufs.length := by
      rw [List.length_map, transposeN_length]
    have hall' : (((transposeN bufs.length (bufs.map (chunks c bufs.length))).map List.flatten).all
        fun b => decide (b.length = ((transposeN bufs.length (bufs.map (chunks c bufs.length))).map List.flatten).length * c))
        = true := by
      rw [hB]
      apply List.all_eq_true.mpr
      intro b hb
      obtain ⟨row, hrow, rfl⟩ := List.mem_map.mp hb
      rw [flatten_length_const c row (hblk row hrow), hTrow row hrow]
      simp
    unfold alltoall
    rw [if_pos hall', hB]
    have hch : ((transposeN bufs.length (bufs.map (chunks c bufs.length))).map List.flatten).map (chunks c bufs.length)
        = transposeN bufs.length (bufs.map (chunks c bufs.length)) := by
      rw [List.map_map]
      conv => rhs; rw [← List.map_id (transposeN bufs.length (bufs.map (chunks c bufs.length)))]
      apply List.map_congr_left
      intro row hrow
      exact chunks_flatten c bufs.length row (hTrow row hrow) (hblk row hrow)
    rw [hch, transposeN_involutive bufs.length _ hM hMrow, List.map_map]
    congr 1
    apply List.map_congr_left
    intro b hb
    simp only [Function.comp]
    rw [flatten_chunks c bufs.length b (by rw [hlen b hb]; exact Nat.le_refl _)]
  · cases h

/-- **gather ∘ scatter = id** on the root's buffer -/
theorem gather_scatter_inverse (root c : Nat) (bufs : Bufs α) (res : Res α) (h : scatter root c bufs = some res) :
    ∃ b, bufs[root]? = some b ∧ gather root (res.map (·.getD [])) = some (onlyAt bufs.length root b) := by
  unfold scatter at h
  cases hb : bufs[root]? with
  | none => simp [hb] at h
  | some b =>
    have hroot : root < bufs.length := (List.getElem?_eq_some_iff.mp hb).1
    simp only [hb] at h
    split at h
    · rename_i hl
      simp only [Option.some.injEq] at h
      refine ⟨b, rfl, ?_⟩
      have : res.map (·.getD []) = chunks c bufs.length b := by
        rw [← h, List.map_map]
        conv => rhs; rw [← List.map_id (chunks c bufs.length b)]
        apply List.map_congr_left
        intro x _; rfl
      rw [this]
      unfold gather
      rw [chunks_length, if_pos hroot, flatten_chunks c bufs.length b (by omega)]
    · cases h

/-- **scatter ∘ gather = id** on buffers of `c` cells -/
theorem scatter_gather_inverse (root c : Nat) (bufs : Bufs α) (res : Res α) (v : List α) (hc : ∀ b ∈ bufs, b.length = c)
    (hg : gather root bufs = some res) (hv : res[root]? = some (some v)) :
    scatter root c (bufs.set root v) = some (bufs.map some) := by
  unfold gather at hg
  split at hg
  · rename_i hlt
    simp only [Option.some.injEq] at hg
    subst hg
    rw [onlyAt_getElem? _ _ _ _ hlt] at hv
    simp only [if_true, Option.some.injEq] at hv
    subst hv
    unfold scatter
    simp [hlt, flatten_length_const c bufs hc, chunks_flatten c bufs.length bufs rfl hc]
  · cases hg

/-- **any count, including 0 and counts below the communicator size**: the reduction of buffers of `c` cells has `c`
cells (nothing in the spec or in the theorems of this file depends on `c ≥ np`) -/
theorem reduce_count (op : α → α → α) (c : Nat) (bufs : Bufs α) (v : List α) (hb : ∀ b ∈ bufs, b.length = c)
    (h : reduceAll op bufs = some v) : v.length = c := by
  cases bufs with
  | nil => simp [reduceAll] at h
  | cons b bs =>
    simp only [reduceAll, Option.some.injEq] at h
    subst h
    exact foldl_zipOp_length op c b bs (hb b (by simp)) (fun x hx => hb x (by simp [hx]))

/-- count 0: every rank of a non-empty communicator gets the empty buffer from an allreduce -/
theorem allreduce_count_zero (op : α → α → α) (bufs : Bufs α) (hne : bufs ≠ []) (hb : ∀ b ∈ bufs, b.length = 0) :
    allreduce op bufs = some (everywhere bufs.length []) := by
  cases hra : reduceAll op bufs with
  | none => cases bufs with
    | nil => exact absurd rfl hne
    | cons b bs => simp [reduceAll] at hra
  | some v =>
    have := reduce_count op 0 bufs v hb hra
    have hv : v = [] := List.eq_nil_of_length_eq_zero this
    simp [allreduce, hra, hv]

/-- non-vacuity: 3 ranks, 1 cell per block: transpose twice; counts 0 -/
example : alltoall 1 [[1, 2, 3], [4, 5, 6], [7, 8, 9]] = some [some [1, 4, 7], some [2, 5, 8], some [3, 6, 9]] ∧
    alltoall 1 [[1, 4, 7], [2, 5, 8], [3, 6, 9]] = some [some [1, 2, 3], some [4, 5, 6], some [7, 8, 9]] := by decide
example : allreduce (· + ·) [([] : List Int), [], []] = some [some [], some [], some []] := by decide
/-- non-vacuity: reduce_scatter of 3 ranks with counts 2,0,1 (a zero count, total 3 = np) -/
example : reduceScatter (· + ·) [2, 0, 1] [[1, 2, 3], [10, 20, 30], [100, 200, 300]]
    = some [some [111, 222], some [], some [333]] ∧
    reduce (· + ·) 1 [[1, 2, 3], [10, 20, 30], [100, 200, 300]] = some [none, some [111, 222, 333], none] := by decide
example : scatter 1 2 [[], [1, 2, 3, 4, 5, 6], []] = some [some [1, 2], some [3, 4], some [5, 6]] ∧
    gather 1 [[1, 2], [3, 4], [5, 6]] = some [none, some [1, 2, 3, 4, 5, 6], none] := by decide

/-! ## (B) schedules -/

/-- **allreduce recursive doubling = the spec, for every communicator size** (power of two or not: the pre/post phase
of allreduce-rdb.cpp is part of the model) and every rank, for any ASSOCIATIVE operator: the schedule keeps the rank
order, commutativity is not needed.  `x r` = send buffer of rank `r`. -/
theorem allreduce_rdb_eq_spec (op : α → α → α) (hA : ∀ a b c, op (op a b) c = op a (op b c)) (x : Nat → List α)
    (np r : Nat) (hnp : 1 ≤ np) (hr : r < np) :
    some (allreduceRdb (zipOp op) x np r) = reduceAll op ((List.range np).map x) := by
  have hP1 : 2 ^ np.log2 ≤ np := Nat.log2_self_le (by omega)
  have hP2 : np < 2 ^ (np.log2 + 1) := Nat.lt_log2_self
  rw [Nat.pow_succ] at hP2
  have hPpos : 0 < 2 ^ np.log2 := Nat.pos_of_ne_zero (by simp)
  obtain ⟨n, rfl⟩ : ∃ n, np = n + 1 := ⟨np - 1, by omega⟩
  rw [reduceAll_range]
  congr 1
  have key : ∀ nr, nr < 2 ^ (n + 1).log2 →
      rdbVal (zipOp op) (rdbPre (zipOp op) x (n + 1 - 2 ^ (n + 1).log2)) (n + 1).log2 nr = segFold (zipOp op) x 0 n := by
    intro nr hnr
    rw [rdbVal_eq_segFold (zipOp op) (zipOp_assoc op hA), Nat.mod_eq_of_lt hnr, Nat.sub_self,
      segFold_rdbPre (zipOp op) (zipOp_assoc op hA)]
    have h1 : ¬ (2 ^ (n + 1).log2 - 1 < n + 1 - 2 ^ (n + 1).log2) := by omega
    simp only [h1, if_false]
    congr 1; omega
  unfold allreduceRdb pof2le
  simp only
  split
  · exact key _ (by omega)
  · exact key _ (by omega)

/-- **allgather ring = the spec, for every communicator size and rank**: after the `np-1` rounds every slot of the
receive buffer of `rank` holds the block of the corresponding rank (every posted receive is matched by the send the
schedule pairs it with: the `(src + i) % np = rank` test of the model never fails). -/
theorem allgather_ring_eq_spec (bufs : Bufs α) (rank : Nat) (hr : rank < bufs.length) :
    allgatherRing bufs rank = bufs.map some := by
  unfold allgatherRing
  rw [List.getElem?_eq_getElem hr]
  simp only
  apply List.ext_getElem?
  intro s
  by_cases hs : s < bufs.length
  · rw [ringRounds_get bufs rank (bufs.length - 1) _ hr (by omega) (by simp [setSlot]) s hs]
    simp only [List.getElem?_map, List.getElem?_eq_getElem hs, Option.map_some]
    by_cases hd : 1 ≤ ringDist bufs.length rank s ∧ ringDist bufs.length rank s ≤ bufs.length - 1
    · rw [if_pos hd]
    · rw [if_neg hd]
      have hsr : s = rank := by unfold ringDist at hd; split at hd <;> omega
      subst hsr
      simp [setSlot, hs]
  · have h1 : (ringRounds bufs rank (bufs.length - 1) (setSlot (List.replicate bufs.length none) rank bufs[rank])).length
        = bufs.length := by rw [ringRounds_length]; simp [setSlot]
    rw [List.getElem?_eq_none (by omega), List.getElem?_eq_none (by simp; omega)]

/-- **binomial-tree broadcast (bcast-binomial-tree.cpp, also `bcast__default`) = the spec, for every communicator size
and every root**: after the rounds at masks `2^(K-1) … 1` every rank holds the root's buffer.  (Every posted receive is
matched by the send of the model's `sendsAt` test, which is proved to succeed: `sendsAt_parent`.) -/
theorem bcast_binomial_eq_spec (bufs : Bufs α) (root : Nat) (hroot : root < bufs.length) :
    some (bcastBinomial bufs.length root bufs[root]) = bcast root bufs := by
  unfold bcast bcastBinomial
  rw [List.getElem?_eq_getElem hroot, bcastBinomialRel_eq]
  simp only [Option.map_some, Option.some.injEq, everywhere]
  apply List.map_congr_left
  intro r hr
  have hrn : r < bufs.length := List.mem_range.mp hr
  rw [getD_map_range]
  split <;> omega

/-- the same, rank by rank -/
theorem bcast_binomial_rank (np root rank : Nat) (v : α) (hroot : root < np) (hr : rank < np) :
    (bcastBinomial np root v)[rank]? = some (some v) := by
  unfold bcastBinomial
  rw [bcastBinomialRel_eq]
  simp only [List.getElem?_map, List.getElem?_range hr, Option.map_some]
  rw [getD_map_range]
  split <;> omega

/-- non-vacuity: 6 ranks, root 4 -/
example : bcastBinomial 6 4 'x' = List.replicate 6 (some 'x') := by decide

/-- **pairwise-exchange alltoall (alltoall-pair.cpp) = the spec, for every power-of-two communicator size** (the code
refuses the other sizes, and so does the model: `alltoall_pair_refuses`), every rank, every block size: the slots
received by `rank` are block `rank` of every rank's send buffer, i.e. `rank`'s receive buffer of `MPI_Alltoall`. -/
theorem alltoall_pair_eq_spec (c : Nat) (bufs : Bufs α) (res : Res α) (rank : Nat) (hp : isPow2 bufs.length = true)
    (hr : rank < bufs.length) (h : alltoall c bufs = some res) :
    ((alltoallPair (bufs.map (chunks c bufs.length)) rank).bind allSome).map (fun row => some row.flatten) = res[rank]? := by
  rw [alltoall_block c bufs res rank hr h]
  have hrow : ∀ row ∈ bufs.map (chunks c bufs.length), rank < row.length := by
    intro row hrow
    obtain ⟨b, _, rfl⟩ := List.mem_map.mp hrow
    rw [chunks_length]; exact hr
  have hb := alltoallPair_blocks (bufs.map (chunks c bufs.length)) rank (by simpa using hp) hrow (by simpa using hr)
  rw [hb, Option.bind_some, allSome_map_some]
  simp [List.filterMap_map, Function.comp_def]

theorem alltoall_pair_refuses (blocks : List (List (List α))) (rank : Nat) (hp : isPow2 blocks.length = false) :
    alltoallPair blocks rank = none := by
  simp [alltoallPair, hp]

/-- non-vacuity: 4 ranks, 1 cell per block; and a refused size -/
example : alltoallPair [[[1], [2], [3], [4]], [[5], [6], [7], [8]], [[9], [10], [11], [12]], [[13], [14], [15], [16]]] 2
    = some [some [3], some [7], some [11], some [15]] := by decide
example : alltoallPair [[[1], [2], [3]], [[4], [5], [6]], [[7], [8], [9]]] 1 = none := by decide

/-- **ring alltoall (alltoall-ring.cpp) = the spec, for EVERY communicator size** (the pairwise exchange above only
exists for powers of two), every rank, every block size: in round `i` rank `r` receives from `(r - i) % np` the block
that this rank sends to `((r - i) + i) % np = r`. -/
theorem alltoall_ring_eq_spec (c : Nat) (bufs : Bufs α) (res : Res α) (rank : Nat) (hr : rank < bufs.length)
    (h : alltoall c bufs = some res) :
    (allSome (alltoallRing (bufs.map (chunks c bufs.length)) rank)).map (fun row => some row.flatten) = res[rank]? := by
  rw [alltoall_block c bufs res rank hr h]
  have hrow : ∀ row ∈ bufs.map (chunks c bufs.length), rank < row.length := by
    intro row hrow
    obtain ⟨b, _, rfl⟩ := List.mem_map.mp hrow
    rw [chunks_length]; exact hr
  rw [alltoallRing_blocks (bufs.map (chunks c bufs.length)) rank hrow (by simpa using hr), allSome_map_some]
  simp [List.filterMap_map, Function.comp_def]

/-- non-vacuity: 3 ranks (not a power of two), 1 cell per block -/
example : alltoallRing [[[1], [2], [3]], [[4], [5], [6]], [[7], [8], [9]]] 1 = [some [2], some [5], some [8]] := by decide

/-- **flat-tree reduce (reduce-flat-tree.cpp) = the spec, for every communicator size and root**: the root computes
`x₀ ⊕ (x₁ ⊕ (… ⊕ x_{np-1}))`; associativity only. -/
theorem reduce_flat_tree_eq_spec (op : α → α → α) (hA : ∀ a b c, op (op a b) c = op a (op b c)) (x : Nat → List α)
    (np root : Nat) (hnp : 1 ≤ np) (hroot : root < np) :
    some (onlyAt np root (reduceFlatTree (zipOp op) x np)) = reduce op root ((List.range np).map x) := by
  obtain ⟨n, rfl⟩ : ∃ n, np = n + 1 := ⟨np - 1, by omega⟩
  unfold reduce
  simp only [List.length_map, List.length_range, hroot, if_true]
  rw [reduceAll_range, reduceFlatTree_eq (zipOp op) (zipOp_assoc op hA)]
  rfl

/-- non-vacuity: 5 ranks, `-`-free associative operator `+` -/
example : reduceFlatTree (zipOp (· + ·)) (fun r => [(r : Int), 1]) 5 = [10, 5] := by decide

/-- **binomial-tree reduce (reduce-binomial.cpp) = the spec, for every communicator size and root.**
`comm` is the operator's `is_commutative()` flag: when it is set the tree is rooted at `root` and the code applies
`received ⊕ mine` (the result is the fold of a rotation of the ranks, with swapped operands: commutativity needed and
assumed — `hC`); when it is not set the tree is rooted at rank 0, the code applies `mine ⊕ received`, and associativity
alone gives the rank-order fold. -/
theorem reduce_binomial_eq_spec (op : α → α → α) (hA : ∀ a b c, op (op a b) c = op a (op b c)) (comm : Bool)
    (hC : comm = true → ∀ a b, op a b = op b a) (x : Nat → List α) (np root : Nat) (hnp : 1 ≤ np) (hroot : root < np) :
    some (onlyAt np root (reduceBinomial (zipOp op) comm x np root)) = reduce op root ((List.range np).map x) := by
  obtain ⟨n, rfl⟩ : ∃ n, np = n + 1 := ⟨np - 1, by omega⟩
  unfold reduce
  simp only [List.length_map, List.length_range, hroot, if_true]
  have hK := log2up_spec (n + 1)
  have hbin : reduceBinomial (zipOp op) comm x (n + 1) root =
      segFold (zipOp op) (fun d => x ((d + (if comm = true then root else 0)) % (n + 1))) 0 n := by
    unfold reduceBinomial
    simp only
    rw [binVal_eq_segFold (zipOp op) (zipOp_assoc op hA) comm
      (fun h => zipOp_comm op (hC h)) _ (n + 1) (log2up (n + 1)) 0 (Nat.zero_mod _) (by omega)]
    congr 1; omega
  rw [hbin]
  cases comm with
  | false =>
    have : segFold (zipOp op) (fun d => x ((d + (if false = true then root else 0)) % (n + 1))) 0 n
        = segFold (zipOp op) x 0 n := by
      apply segFold_congr
      intro i _ hi
      simp only [Bool.false_eq_true, if_false, Nat.add_zero]
      rw [Nat.mod_eq_of_lt (by omega)]
    rw [this, reduceAll_range]; rfl
  | true =>
    simp only [if_true]
    have h1 := reduceAll_range op (fun d => x ((d + root) % (n + 1))) n
    have hperm : ((List.range (n + 1)).map fun d => x ((d + root) % (n + 1))).Perm ((List.range (n + 1)).map x) := by
      have := (rot_perm (n + 1) root hroot).map x
      simpa [List.map_map, Function.comp_def] using this
    rw [← reduceAll_perm op hA (hC rfl) _ _ hperm, h1]; rfl

/-- non-vacuity: 6 ranks (not a power of two), root 4, both branches -/
example : reduceBinomial (zipOp (· + ·)) true (fun r => [(r : Int), 1]) 6 4 = [15, 6] := by decide
example : reduceBinomial (zipOp (· ++ ·)) false (fun r => [[r]]) 6 4 = [[0, 1, 2, 3, 4, 5]] := by decide

/-- **logical-ring allreduce (allreduce-lr.cpp: ring reduce-scatter + ring allgather) = the spec, for every
communicator size and rank**, when the count is a positive multiple of the size (otherwise the code calls other
algorithms: redbcast for `rcount < size`, the selector's allreduce on the remainder — not modelled).  `x r b` = block `b`
(of `c` cells) of the send buffer of rank `r`.  The ring accumulates every block in the order `r, r-1, …` (cyclically):
commutativity is needed, as the source says ("assume commutative and associative reduce operator"). -/
theorem allreduce_lr_eq_spec (op : α → α → α) (hA : ∀ a b c, op (op a b) c = op a (op b c)) (hC : ∀ a b, op a b = op b a)
    (x : Nat → Nat → List α) (np c : Nat) (hnp : 1 ≤ np) (hlen : ∀ r b, r < np → b < np → (x r b).length = c)
    (rank : Nat) (hr : rank < np) :
    (allSome ((List.range np).map (allreduceLr (zipOp op) x np rank))).map List.flatten
      = reduceAll op ((List.range np).map fun r => ((List.range np).map (x r)).flatten) := by
  obtain ⟨n, rfl⟩ : ∃ n, np = n + 1 := ⟨np - 1, by omega⟩
  have hl : (List.range (n + 1)).map (allreduceLr (zipOp op) x (n + 1) rank)
      = ((List.range (n + 1)).map fun b => lrTotal (zipOp op) x (n + 1) b).map some := by
    rw [List.map_map]
    apply List.map_congr_left
    intro b hb
    exact allreduceLr_get (zipOp op) x (n + 1) hnp rank b hr (List.mem_range.mp hb)
  rw [hl, allSome_map_some, Option.map_some, reduceAll_range]
  obtain ⟨h1, _⟩ := segFold_blocks op (n + 1) c x n (fun r b hr' hb => hlen r b (by omega) hb)
  rw [h1]
  congr 2
  apply List.map_congr_left
  intro b hb
  have h2 := lrTotal_eq_reduceAll op hA hC x n b (List.mem_range.mp hb)
  rw [reduceAll_range] at h2
  exact Option.some.inj h2

/-- non-vacuity: 3 ranks, 3 blocks of 2 cells -/
example : (allSome ((List.range 3).map (allreduceLr (zipOp (· + ·)) (fun r b => [(10 * r + b : Int), 1]) 3 1))).map List.flatten
    = some [30, 3, 33, 3, 36, 3] := by decide

/-- **Bruck allgather (allgather-bruck.cpp) = the spec, for every communicator size (power of two or not: the
remainder round is part of the model) and every rank**: after the doubling rounds, the remainder round and the final
local rotation, slot `i` of the receive buffer holds the block of rank `i`. -/
theorem allgather_bruck_eq_spec (bufs : Bufs α) (rank : Nat) (hr : rank < bufs.length) :
    allgatherBruck (fun r => bufs.getD r []) bufs.length rank = bufs.map some := by
  rw [allgatherBruck_eq _ _ _ hr]
  apply List.ext_getElem?
  intro i
  by_cases hi : i < bufs.length
  · simp [hi, List.getD_eq_getElem?_getD]
  · simp [hi]

/-- non-vacuity: 6 ranks (not a power of two) -/
example : allgatherBruck (fun r => [r]) 6 4 = [some [0], some [1], some [2], some [3], some [4], some [5]] := by decide

/-- non-vacuity: 5 ranks -/
example : allgatherRing [[1], [2], [3], [4], [5]] 3 = [some [1], some [2], some [3], some [4], some [5]] := by decide

/-- the model writes `newrank ^ mask` arithmetically; finite sanity check (enumeration, not a proof for all sizes) -/
example : ∀ nr < 64, ∀ k < 6, rdbPartner nr k = nr ^^^ 2 ^ k := by decide

/-- non-vacuity: 6 ranks (not a power of two), `+` on Int -/
example : allreduceRdb (zipOp (· + ·)) (fun r => [(r : Int), 10 * r]) 6 3 = [15, 150] := by decide

end SgVerif.C29
