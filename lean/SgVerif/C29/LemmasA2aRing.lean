import SgVerif.C29.Model
import SgVerif.C29.LemmasPair
/-
C29 helper lemmas for the ring alltoall schedule (core only).
-/
namespace SgVerif.C29
variable {β : Type}

theorem ring_sub1 (np a j : Nat) (ha : a < np) (hj : j ≤ np) :
    (a + np - j) % np = if j ≤ a then a - j else a + np - j := by
  by_cases h : j ≤ a
  · rw [if_pos h]
    have : a + np - j = (a - j) + np := by omega
    rw [this, Nat.add_mod_right, Nat.mod_eq_of_lt (by omega)]
  · rw [if_neg h, Nat.mod_eq_of_lt (by omega)]

theorem ring_back (np a j : Nat) (ha : a < np) (hj : j < np) : ((a + np - j) % np + j) % np = a := by
  rw [ring_sub1 np a j ha (by omega)]
  split
  · rw [show a - j + j = a by omega, Nat.mod_eq_of_lt ha]
  · rw [show a + np - j + j = a + np by omega, Nat.add_mod_right, Nat.mod_eq_of_lt ha]

theorem a2aRingRounds_length (blocks : List (List β)) (rank k : Nat) (slots : List (Option β)) :
    (a2aRingRounds blocks rank k slots).length = slots.length := by
  induction k with
  | zero => rfl
  | succ k ih =>
    simp only [a2aRingRounds]
    split
    · split <;> simp [ih]
    · exact ih

/-- after the rounds `0 … k-1`, slot `s` of `rank` is filled iff its ring distance to `rank` is below `k` -/
theorem a2aRingRounds_get (blocks : List (List β)) (rank k : Nat) (slots : List (Option β))
    (hrow : ∀ row ∈ blocks, rank < row.length) (hr : rank < blocks.length) (hk : k ≤ blocks.length)
    (hl : slots.length = blocks.length) (s : Nat) (hs : s < blocks.length) :
    (a2aRingRounds blocks rank k slots)[s]? =
      if (if s ≤ rank then rank - s else rank + blocks.length - s) < k then some ((blocks.getD s [])[rank]?)
      else slots[s]? := by
  induction k with
  | zero => simp [a2aRingRounds]
  | succ k ih =>
    have ih := ih (by omega)
    have hsrc := ring_sub1 blocks.length rank k hr (by omega)
    have hsrcb : (rank + blocks.length - k) % blocks.length < blocks.length := Nat.mod_lt _ (by omega)
    have hgetD : blocks.getD ((rank + blocks.length - k) % blocks.length) [] = blocks[(rank + blocks.length - k) % blocks.length] := by
      simp [List.getD_eq_getElem?_getD, hsrcb]
    have hrk : rank < (blocks[(rank + blocks.length - k) % blocks.length]).length := hrow _ (List.getElem_mem hsrcb)
    simp only [a2aRingRounds, ring_back blocks.length rank k hr (by omega), if_true, hgetD]
    rw [List.getElem?_eq_getElem hrk]
    simp only [List.getElem?_set, a2aRingRounds_length, hl, hsrcb, if_true]
    by_cases he : (rank + blocks.length - k) % blocks.length = s
    · rw [if_pos he]
      have hd : (if s ≤ rank then rank - s else rank + blocks.length - s) < k + 1 := by
        rw [← he, hsrc]; split <;> split <;> omega
      rw [if_pos hd]
      subst he
      rw [hgetD, List.getElem?_eq_getElem hrk]
    · rw [if_neg he, ih]
      have hne : (if s ≤ rank then rank - s else rank + blocks.length - s) ≠ k := by
        intro h; apply he; rw [hsrc]
        split at h <;> split <;> omega
      have : ((if s ≤ rank then rank - s else rank + blocks.length - s) < k + 1) ↔
          ((if s ≤ rank then rank - s else rank + blocks.length - s) < k) := by omega
      simp only [this]

/-- the whole ring exchange, on blocks: `rank` ends with column `rank` of the block matrix — for every size -/
theorem alltoallRing_blocks (blocks : List (List β)) (rank : Nat) (hrow : ∀ row ∈ blocks, rank < row.length)
    (hr : rank < blocks.length) : alltoallRing blocks rank = (blocks.filterMap (·[rank]?)).map some := by
  unfold alltoallRing
  apply List.ext_getElem?
  intro s
  by_cases hs : s < blocks.length
  · rw [a2aRingRounds_get blocks rank blocks.length _ hrow hr (Nat.le_refl _) (by simp) s hs]
    have hlt : (if s ≤ rank then rank - s else rank + blocks.length - s) < blocks.length := by split <;> omega
    rw [if_pos hlt, List.getElem?_map, filterMap_col' blocks rank s hrow]
    simp [List.getD_eq_getElem?_getD, hs]
    have : rank < (blocks[s]).length := hrow _ (List.getElem_mem hs)
    simp [this]
  · have h1 : (a2aRingRounds blocks rank blocks.length (List.replicate blocks.length none)).length = blocks.length := by
      rw [a2aRingRounds_length]; simp
    rw [List.getElem?_eq_none (by omega), List.getElem?_eq_none]
    simp [filterMap_col_length blocks rank hrow]; omega

end SgVerif.C29
