import SgVerif.C29.Model
/-
C29 helper lemmas for the binomial-tree broadcast schedule (core only).
-/
namespace SgVerif.C29
variable {α : Type}

/-! ### the first loop of bcast-binomial-tree.cpp: `recvMask` stops at the lowest set bit of the relative rank -/

theorem mod_two_pow_succ (rr j : Nat) : rr % 2 ^ (j + 1) = rr % 2 ^ j + 2 ^ j * (rr / 2 ^ j % 2) := by
  rw [Nat.pow_succ]; exact Nat.mod_mul

/-- if bit `i` is the lowest set bit of `d` then `d` is a multiple of `2^i` -/
theorem lowbit_mod (d i : Nat) (h : d % 2 ^ (i + 1) = 2 ^ i) : d % 2 ^ i = 0 := by
  have hm := mod_two_pow_succ d i
  have hlt := Nat.mod_lt d (Nat.two_pow_pos i)
  have hb : d / 2 ^ i % 2 < 2 := Nat.mod_lt _ (by omega)
  rcases Nat.lt_or_ge (d / 2 ^ i % 2) 1 with h0 | h1
  · have : d / 2 ^ i % 2 = 0 := by omega
    rw [this] at hm; omega
  · have : d / 2 ^ i % 2 = 1 := by omega
    rw [this] at hm; omega

theorem recvMask_spec (fuel j rr np : Nat) (hrr : rr % 2 ^ j = 0) (hf : np ≤ 2 ^ (j + fuel)) :
    (∃ i, j ≤ i ∧ recvMask fuel rr np (2 ^ j) = (2 ^ i, true) ∧ 2 ^ i < np ∧ rr % 2 ^ (i + 1) = 2 ^ i) ∨
    (∃ i, j ≤ i ∧ recvMask fuel rr np (2 ^ j) = (2 ^ i, false) ∧ np ≤ 2 ^ i ∧ rr % 2 ^ i = 0) := by
  induction fuel generalizing j with
  | zero => exact Or.inr ⟨j, Nat.le_refl _, rfl, hf, hrr⟩
  | succ fuel ih =>
    have hm := mod_two_pow_succ rr j
    unfold recvMask
    by_cases h1 : 2 ^ j < np
    · rw [if_pos h1]
      by_cases h2 : rr / 2 ^ j % 2 = 1
      · rw [if_pos h2]
        refine Or.inl ⟨j, Nat.le_refl _, rfl, h1, ?_⟩
        rw [hm, hrr, h2]; omega
      · rw [if_neg h2]
        have h0 : rr / 2 ^ j % 2 = 0 := by omega
        have hrr' : rr % 2 ^ (j + 1) = 0 := by rw [hm, hrr, h0]; omega
        have hf' : np ≤ 2 ^ (j + 1 + fuel) := by
          have : j + 1 + fuel = j + (fuel + 1) := by omega
          rw [this]; exact hf
        rw [← Nat.pow_succ]
        rcases ih (j + 1) hrr' hf' with ⟨i, hi, h⟩ | ⟨i, hi, h⟩
        · exact Or.inl ⟨i, by omega, h⟩
        · exact Or.inr ⟨i, by omega, h⟩
    · rw [if_neg h1]
      exact Or.inr ⟨j, Nat.le_refl _, rfl, by omega, hrr⟩

/-- a non-root relative rank receives at its lowest set bit -/
theorem recvMask_pos (np d : Nat) (hd : 0 < d) (hdn : d < np) :
    ∃ i, recvMask (np + 1) d np 1 = (2 ^ i, true) ∧ 2 ^ i < np ∧ d % 2 ^ (i + 1) = 2 ^ i := by
  have hf : np ≤ 2 ^ (0 + (np + 1)) := by
    have := @Nat.lt_two_pow_self (np + 1); rw [Nat.zero_add]; omega
  rcases recvMask_spec (np + 1) 0 d np (by simp [Nat.mod_one]) hf with ⟨i, _, h1, h2, h3⟩ | ⟨i, _, _, h2, h3⟩
  · exact ⟨i, by simpa using h1, h2, h3⟩
  · exfalso
    have : d % 2 ^ i = d := Nat.mod_eq_of_lt (by omega)
    omega

/-- the root (relative rank 0) receives nothing and leaves the loop at the first power of two `≥ np` -/
theorem recvMask_zero (np : Nat) : ∃ i, recvMask (np + 1) 0 np 1 = (2 ^ i, false) ∧ np ≤ 2 ^ i := by
  have hf : np ≤ 2 ^ (0 + (np + 1)) := by
    have := @Nat.lt_two_pow_self (np + 1); rw [Nat.zero_add]; omega
  rcases recvMask_spec (np + 1) 0 0 np (by simp) hf with ⟨i, _, _, _, h3⟩ | ⟨i, _, h1, h2, _⟩
  · exfalso
    have := Nat.two_pow_pos i
    simp at h3
    omega
  · exact ⟨i, by simpa using h1, h2⟩

/-- the sender `d - 2^k` of a rank whose lowest set bit is `k` does send at mask `2^k` -/
theorem sendsAt_parent (np d k : Nat) (hdn : d < np) (hbit : d % 2 ^ (k + 1) = 2 ^ k) :
    sendsAt (d - 2 ^ k) np (2 ^ k) = true := by
  have hpos := Nat.two_pow_pos k
  have hge : 2 ^ k ≤ d := by
    have := Nat.mod_le d (2 ^ (k + 1)); omega
  have he : (d - 2 ^ k) % 2 ^ (k + 1) = 0 := by
    have h1 := Nat.div_add_mod d (2 ^ (k + 1))
    rw [hbit] at h1
    have h2 : d - 2 ^ k = 2 ^ (k + 1) * (d / 2 ^ (k + 1)) := by omega
    rw [h2, Nat.mul_mod_right]
  unfold sendsAt
  simp only [Bool.and_eq_true, decide_eq_true_eq]
  refine ⟨?_, by omega⟩
  by_cases h0 : d - 2 ^ k = 0
  · obtain ⟨i, h1, h2⟩ := recvMask_zero np
    rw [h0, h1]; simp only; omega
  · obtain ⟨i, h1, _, h3⟩ := recvMask_pos np (d - 2 ^ k) (by omega) (by omega)
    rw [h1]; simp only
    by_cases hik : k < i
    · exact Nat.pow_lt_pow_right (by omega) hik
    · exfalso
      have hdvd : 2 ^ (i + 1) ∣ 2 ^ (k + 1) := Nat.pow_dvd_pow 2 (by omega)
      have := Nat.mod_mod_of_dvd (d - 2 ^ k) hdvd
      rw [he, Nat.zero_mod, h3] at this
      have := Nat.two_pow_pos i
      omega

theorem getD_map_range {β : Type} (n e : Nat) (f : Nat → Option β) (he : e < n) :
    ((List.range n).map f).getD e none = f e := by
  simp [List.getD_eq_getElem?_getD, he]

/-- state of the broadcast when the rounds at masks `≥ 2^j` are done: exactly the multiples of `2^j` hold the data -/
def bcastInv (np j : Nat) (v : α) : List (Option α) :=
  (List.range np).map fun d => if d % 2 ^ j = 0 then some v else none

theorem bcastRound_inv (np k : Nat) (v : α) : bcastRound np (2 ^ k) (bcastInv np (k + 1) v) = bcastInv np k v := by
  unfold bcastRound bcastInv
  apply List.map_congr_left
  intro d hd
  have hdn : d < np := List.mem_range.mp hd
  have hpos := Nat.two_pow_pos k
  have hm := mod_two_pow_succ d k
  by_cases h0 : d = 0
  · subst h0
    obtain ⟨i, h1, _⟩ := recvMask_zero np
    rw [h1]
    simp only
    rw [getD_map_range _ _ _ hdn]
    simp
  · obtain ⟨i, h1, h2, h3⟩ := recvMask_pos np d (by omega) hdn
    rw [h1]
    simp only
    by_cases hik : i = k
    · subst hik
      have hge : 2 ^ i ≤ d := by have := Nat.mod_le d (2 ^ (i + 1)); omega
      have hs := sendsAt_parent np d i hdn h3
      have hc : (2 ^ i = 2 ^ i ∧ 2 ^ i ≤ d ∧ sendsAt (d - 2 ^ i) np (2 ^ i) = true) := ⟨rfl, hge, hs⟩
      rw [if_pos hc, getD_map_range _ _ _ (by omega)]
      have he : (d - 2 ^ i) % 2 ^ (i + 1) = 0 := by
        have h1 := Nat.div_add_mod d (2 ^ (i + 1))
        rw [h3] at h1
        have h2 : d - 2 ^ i = 2 ^ (i + 1) * (d / 2 ^ (i + 1)) := by omega
        rw [h2, Nat.mul_mod_right]
      have hd0 : d % 2 ^ i = 0 := lowbit_mod d i h3
      rw [if_pos he, if_pos hd0]
    · have hne : ¬ (2 ^ i = 2 ^ k ∧ 2 ^ k ≤ d ∧ sendsAt (d - 2 ^ k) np (2 ^ k) = true) := by
        intro ⟨h, _⟩
        exact hik ((Nat.pow_right_inj (by omega)).mp h)
      rw [if_neg hne, getD_map_range _ _ _ hdn]
      by_cases hlt : i < k
      · -- the lowest set bit is below `k`: `d` is a multiple of neither `2^k` nor `2^(k+1)`
        have hdvd : 2 ^ (i + 1) ∣ 2 ^ k := Nat.pow_dvd_pow 2 (by omega)
        have hdvd' : 2 ^ (i + 1) ∣ 2 ^ (k + 1) := Nat.pow_dvd_pow 2 (by omega)
        have e1 := Nat.mod_mod_of_dvd d hdvd
        have e2 := Nat.mod_mod_of_dvd d hdvd'
        have hi := Nat.two_pow_pos i
        have n1 : ¬ d % 2 ^ k = 0 := by intro h; rw [h, Nat.zero_mod, h3] at e1; omega
        have n2 : ¬ d % 2 ^ (k + 1) = 0 := by intro h; rw [h, Nat.zero_mod, h3] at e2; omega
        rw [if_neg n1, if_neg n2]
      · -- the lowest set bit is above `k`: `d` is a multiple of both
        have hdvd : 2 ^ (k + 1) ∣ 2 ^ i := Nat.pow_dvd_pow 2 (by omega)
        have hi0 : d % 2 ^ i = 0 := lowbit_mod d i h3
        have e1 := Nat.mod_mod_of_dvd d hdvd
        rw [hi0, Nat.zero_mod] at e1
        have p1 : d % 2 ^ (k + 1) = 0 := e1.symm
        have p2 : d % 2 ^ k = 0 := by
          have hdk : 2 ^ k ∣ 2 ^ i := Nat.pow_dvd_pow 2 (by omega)
          have e2 := Nat.mod_mod_of_dvd d hdk
          rw [hi0, Nat.zero_mod] at e2
          exact e2.symm
        rw [if_pos p1, if_pos p2]

theorem bcastRounds_inv (np k : Nat) (v : α) : bcastRounds np k (bcastInv np k v) = bcastInv np 0 v := by
  induction k with
  | zero => rfl
  | succ k ih => rw [bcastRounds, bcastRound_inv, ih]

theorem log2up_spec (np : Nat) : np ≤ 2 ^ log2up np := by
  unfold log2up
  have hex : ∃ x, x ∈ List.range (np + 1) ∧ decide (np ≤ 2 ^ x) = true :=
    ⟨np, List.mem_range.mpr (by omega), by simpa using Nat.le_of_lt Nat.lt_two_pow_self⟩
  have hlt := List.findIdx_lt_length_of_exists hex
  have h := @List.findIdx_getElem _ (fun k => decide (np ≤ 2 ^ k)) (List.range (np + 1)) hlt
  rw [List.getElem_range] at h
  simpa using h

theorem bcastBinomialRel_eq (np : Nat) (v : α) : bcastBinomialRel np v = (List.range np).map fun _ => some v := by
  unfold bcastBinomialRel
  have hinit : ((List.range np).map fun d => if d = 0 then some v else none) = bcastInv np (log2up np) v := by
    unfold bcastInv
    apply List.map_congr_left
    intro d hd
    have hdn : d < np := List.mem_range.mp hd
    have := log2up_spec np
    rw [Nat.mod_eq_of_lt (by omega)]
  rw [hinit, bcastRounds_inv]
  unfold bcastInv
  apply List.map_congr_left
  intro d _
  simp [Nat.mod_one]

end SgVerif.C29
