import SgVerif.C29.Model
/-
C29 helper lemmas for the pairwise-exchange alltoall schedule (core only).
-/
namespace SgVerif.C29
variable {α : Type}

theorem xor_cancel_right (a b : Nat) : (a ^^^ b) ^^^ b = a := by
  rw [Nat.xor_assoc, Nat.xor_self, Nat.xor_zero]

theorem xor_cancel_left (a b : Nat) : a ^^^ (a ^^^ b) = b := by
  rw [← Nat.xor_assoc, Nat.xor_self, Nat.zero_xor]

/-- the test of alltoall-pair.cpp accepts exactly the powers of two -/
theorem isPow2_iff (n : Nat) : isPow2 n = true ↔ ∃ k, n = 2 ^ k := by
  unfold isPow2
  constructor
  · intro h
    simp only [Bool.and_eq_true, bne_iff_ne, ne_eq, beq_iff_eq] at h
    exact (Nat.and_sub_one_eq_zero_iff_isPowerOfTwo h.1).mp h.2
  · intro ⟨k, hk⟩
    have hne : n ≠ 0 := by have := Nat.two_pow_pos k; omega
    simp only [Bool.and_eq_true, bne_iff_ne, ne_eq, beq_iff_eq]
    exact ⟨hne, (Nat.and_sub_one_eq_zero_iff_isPowerOfTwo hne).mpr ⟨k, hk⟩⟩

theorem pairRounds_length (blocks : List (List (List α))) (rank k : Nat) (slots : List (Option (List α))) :
    (pairRounds blocks rank k slots).length = slots.length := by
  induction k with
  | zero => rfl
  | succ k ih =>
    simp only [pairRounds]
    split
    · split <;> simp [ih]
    · exact ih

/-- after the rounds `0 … k-1`, slot `s` of `rank` is filled iff `rank ^ s < k` (the round in which `s` is the partner) -/
theorem pairRounds_get (n : Nat) (blocks : List (List (List α))) (rank k : Nat) (slots : List (Option (List α)))
    (hlen : blocks.length = 2 ^ n) (hrow : ∀ row ∈ blocks, rank < row.length) (hr : rank < 2 ^ n) (hk : k ≤ 2 ^ n)
    (hl : slots.length = 2 ^ n) (s : Nat) (hs : s < 2 ^ n) :
    (pairRounds blocks rank k slots)[s]? =
      if rank ^^^ s < k then some ((blocks.getD s [])[rank]?) else slots[s]? := by
  induction k with
  | zero => simp [pairRounds]
  | succ k ih =>
    have ih := ih (by omega)
    have hsrc : rank ^^^ k < 2 ^ n := Nat.xor_lt_two_pow hr (by omega)
    have hsrcb : rank ^^^ k < blocks.length := by omega
    have hgetD : blocks.getD (rank ^^^ k) [] = blocks[rank ^^^ k] := by
      simp [List.getD_eq_getElem?_getD, hsrcb]
    have hrk : rank < (blocks[rank ^^^ k]).length := hrow _ (List.getElem_mem hsrcb)
    simp only [pairRounds, xor_cancel_right, if_true, hgetD]
    rw [List.getElem?_eq_getElem hrk]
    simp only [List.getElem?_set, pairRounds_length, hl, hsrc, if_true]
    by_cases he : rank ^^^ k = s
    · subst he
      rw [if_pos rfl, xor_cancel_left, if_pos (by omega), hgetD, List.getElem?_eq_getElem hrk]
    · rw [if_neg he, ih]
      have hne : rank ^^^ s ≠ k := by
        intro h; apply he; rw [← h, xor_cancel_left]
      have : (rank ^^^ s < k + 1) ↔ (rank ^^^ s < k) := by omega
      simp only [this]

theorem chunks_length (c n : Nat) (l : List α) : (chunks c n l).length = n := by
  induction n generalizing l with
  | zero => rfl
  | succ n ih => simp [chunks, ih]

theorem allSome_map_some {β : Type} (l : List β) : allSome (l.map some) = some l := by
  induction l with
  | nil => rfl
  | cons x l ih => simp [allSome, ih]

/-- column `r` of a matrix whose rows are all longer than `r` -/
theorem filterMap_col' {β : Type} (m : List (List β)) (r j : Nat) (hrow : ∀ row ∈ m, r < row.length) :
    (m.filterMap (·[r]?))[j]? = (m[j]?).bind (·[r]?) := by
  induction m generalizing j with
  | nil => simp
  | cons row m ih =>
    have hr : r < row.length := hrow row (by simp)
    have hm : ∀ row' ∈ m, r < row'.length := fun row' h => hrow row' (by simp [h])
    rw [List.filterMap_cons, List.getElem?_eq_getElem hr]
    cases j with
    | zero => simp [List.getElem?_eq_getElem hr]
    | succ j => simp [ih j hm]

theorem filterMap_col_length {β : Type} (m : List (List β)) (r : Nat) (hrow : ∀ row ∈ m, r < row.length) :
    (m.filterMap (·[r]?)).length = m.length := by
  induction m with
  | nil => rfl
  | cons row m ih =>
    have hr : r < row.length := hrow row (by simp)
    have hm : ∀ row' ∈ m, r < row'.length := fun row' h => hrow row' (by simp [h])
    rw [List.filterMap_cons, List.getElem?_eq_getElem hr]
    simp [ih hm]

/-- the whole pairwise exchange, on blocks: `rank` ends with column `rank` of the block matrix -/
theorem alltoallPair_blocks (blocks : List (List (List α))) (rank : Nat) (hp : isPow2 blocks.length = true)
    (hrow : ∀ row ∈ blocks, rank < row.length) (hr : rank < blocks.length) :
    alltoallPair blocks rank = some ((blocks.filterMap (·[rank]?)).map some) := by
  obtain ⟨n, hn⟩ := (isPow2_iff _).mp hp
  unfold alltoallPair
  simp only [hp, if_true, Option.some.injEq]
  apply List.ext_getElem?
  intro s
  by_cases hs : s < 2 ^ n
  · rw [pairRounds_get n blocks rank blocks.length _ hn hrow (by omega) (by omega) (by simp [hn]) s hs]
    have hlt : rank ^^^ s < blocks.length := by rw [hn]; exact Nat.xor_lt_two_pow (by omega) hs
    rw [if_pos hlt, List.getElem?_map, filterMap_col' blocks rank s hrow]
    have hsb : s < blocks.length := by omega
    simp [List.getD_eq_getElem?_getD, hsb]
    have : rank < (blocks[s]).length := hrow _ (List.getElem_mem hsb)
    simp [this]
  · have h1 : (pairRounds blocks rank blocks.length (List.replicate blocks.length none)).length = blocks.length := by
      rw [pairRounds_length]; simp
    rw [List.getElem?_eq_none (by omega), List.getElem?_eq_none]
    simp [filterMap_col_length blocks rank hrow]; omega

end SgVerif.C29
