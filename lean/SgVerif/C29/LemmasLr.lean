import SgVerif.C29.Lemmas
import SgVerif.C29.LemmasReduce
/-
C29 helper lemmas for the logical-ring allreduce schedule (core only).
-/
namespace SgVerif.C29
variable {α β : Type}

/-- the block arithmetic of allreduce-lr.cpp: `(a - j + 2*size) % size` for `a < size`, `j ≤ size` -/
theorem ring_sub (np a j : Nat) (ha : a < np) (hj : j ≤ np) :
    (a + 2 * np - j) % np = if j ≤ a then a - j else a + np - j := by
  by_cases h : j ≤ a
  · rw [if_pos h]
    have : a + 2 * np - j = (a - j) + np + np := by omega
    rw [this, Nat.add_mod_right, Nat.add_mod_right, Nat.mod_eq_of_lt (by omega)]
  · rw [if_neg h]
    have : a + 2 * np - j = (a + np - j) + np := by omega
    rw [this, Nat.add_mod_right, Nat.mod_eq_of_lt (by omega)]

theorem ring_pred (np r : Nat) (hr : r < np) :
    (r + np - 1) % np = (if 1 ≤ r then r - 1 else np - 1) ∧ ((r + np - 1) % np + 1) % np = r ∧ (r + np - 1) % np < np := by
  by_cases h : 1 ≤ r
  · have e : r + np - 1 = (r - 1) + np := by omega
    have hm : (r + np - 1) % np = r - 1 := by rw [e, Nat.add_mod_right, Nat.mod_eq_of_lt (by omega)]
    rw [hm, if_pos h]
    refine ⟨rfl, ?_, by omega⟩
    rw [show r - 1 + 1 = r by omega, Nat.mod_eq_of_lt hr]
  · have h0 : r = 0 := by omega
    subst h0
    have hm : (0 + np - 1) % np = np - 1 := by rw [Nat.zero_add]; exact Nat.mod_eq_of_lt (by omega)
    rw [hm, if_neg h]
    refine ⟨rfl, ?_, by omega⟩
    rw [show np - 1 + 1 = np by omega, Nat.mod_self]

/-- value accumulated along the ring: `x r b ⊕ (x (r-1) b ⊕ (… ⊕ x (r-j) b))` (ranks modulo `np`) -/
def lrChain (op : β → β → β) (x : Nat → Nat → β) (np : Nat) : Nat → Nat → Nat → β
  | 0, r, b => x r b
  | j+1, r, b => op (x r b) (lrChain op x np j ((r + np - 1) % np) b)

/-- reduce-scatter phase: after `k` rounds rank `r` holds in block `r - 1 - k` the chain of `k + 1` contributions -/
theorem lr_rs_inv (op : β → β → β) (x : Nat → Nat → β) (np k : Nat) (hk : k + 1 ≤ np) (r : Nat) (hr : r < np) :
    lrIter (lrRsRound op x np) k (lrInit x np) r ((r + 2 * np - (1 + k)) % np)
      = some (lrChain op x np k r ((r + 2 * np - (1 + k)) % np)) := by
  induction k generalizing r with
  | zero =>
    simp only [lrIter, lrInit, lrChain]
    have : (r + 2 * np - (1 + 0)) % np = (r + np - 1) % np := by
      have : r + 2 * np - (1 + 0) = (r + np - 1) + np := by omega
      rw [this, Nat.add_mod_right]
    rw [this, if_pos rfl]
  | succ k ih =>
    obtain ⟨hp1, hp2, hp3⟩ := ring_pred np r hr
    have ihp := ih (by omega) ((r + np - 1) % np) hp3
    have hb : ((r + np - 1) % np + 2 * np - (1 + k)) % np = (r + 2 * np - (1 + (k + 1))) % np := by
      rw [ring_sub np _ (1 + k) hp3 (by omega), ring_sub np r (1 + (k + 1)) hr (by omega), hp1]
      split <;> split <;> split <;> omega
    simp only [lrIter, lrRsRound]
    have hc : (r + 2 * np - (1 + (k + 1))) % np = (r + 2 * np - (2 + k)) % np ∧ ((r + np - 1) % np + 1) % np = r := by
      refine ⟨?_, hp2⟩
      congr 1; omega
    rw [if_pos hc]
    rw [hb] at ihp
    have hb' : ((r + np - 1) % np + 2 * np - (1 + k)) % np = (r + 2 * np - (1 + (k + 1))) % np := hb
    rw [hb', ihp]
    rfl

/-- value of the fully reduced block `b` (computed on rank `b`) -/
def lrTotal (op : β → β → β) (x : Nat → Nat → β) (np b : Nat) : β := lrChain op x np (np - 1) b b

theorem lr_rs_final (op : β → β → β) (x : Nat → Nat → β) (np : Nat) (hnp : 1 ≤ np) (r : Nat) (hr : r < np) :
    lrIter (lrRsRound op x np) (np - 1) (lrInit x np) r r = some (lrTotal op x np r) := by
  have h := lr_rs_inv op x np (np - 1) (by omega) r hr
  have hb : (r + 2 * np - (1 + (np - 1))) % np = r := by
    rw [ring_sub np r _ hr (by omega)]; split <;> omega
  rw [hb] at h
  exact h

/-- allgather phase: after `k` rounds rank `r` holds the final blocks `r, r-1, …, r-k` -/
theorem lr_ag_inv (st : LrState β) (tot : Nat → β) (np k : Nat) (hk : k + 1 ≤ np)
    (h0 : ∀ r, r < np → st r r = some (tot r)) (r : Nat) (hr : r < np) (j : Nat) (hj : j ≤ k) :
    lrIter (lrAgRound np) k st r ((r + 2 * np - j) % np) = some (tot ((r + 2 * np - j) % np)) := by
  induction k generalizing r j with
  | zero =>
    have : j = 0 := by omega
    subst this
    have hb : (r + 2 * np - 0) % np = r := by rw [ring_sub np r 0 hr (by omega)]; simp
    rw [hb]; exact h0 r hr
  | succ k ih =>
    obtain ⟨hp1, hp2, hp3⟩ := ring_pred np r hr
    simp only [lrIter, lrAgRound]
    by_cases hjk : j = k + 1
    · subst hjk
      have hc : (r + 2 * np - (k + 1)) % np = (r + 2 * np - (1 + k)) % np ∧ ((r + np - 1) % np + 1) % np = r := by
        refine ⟨?_, hp2⟩
        congr 1; omega
      rw [if_pos hc]
      have ihp := ih (by omega) ((r + np - 1) % np) hp3 k (Nat.le_refl _)
      have hb : ((r + np - 1) % np + 2 * np - k) % np = (r + 2 * np - (k + 1)) % np := by
        rw [ring_sub np _ k hp3 (by omega), ring_sub np r (k + 1) hr (by omega), hp1]
        split <;> split <;> split <;> omega
      rw [hb] at ihp
      rw [hb]; exact ihp
    · have hne : ¬ ((r + 2 * np - j) % np = (r + 2 * np - (1 + k)) % np ∧ ((r + np - 1) % np + 1) % np = r) := by
        intro ⟨h, _⟩
        rw [ring_sub np r j hr (by omega), ring_sub np r (1 + k) hr (by omega)] at h
        split at h <;> split at h <;> omega
      rw [if_neg hne]
      exact ih (by omega) r hr j (by omega)

/-- the whole schedule: every rank ends with every block fully reduced -/
theorem allreduceLr_get (op : β → β → β) (x : Nat → Nat → β) (np : Nat) (hnp : 1 ≤ np) (r b : Nat) (hr : r < np)
    (hb : b < np) : allreduceLr op x np r b = some (lrTotal op x np b) := by
  unfold allreduceLr
  have h := lr_ag_inv (lrIter (lrRsRound op x np) (np - 1) (lrInit x np)) (lrTotal op x np) np (np - 1) (by omega)
    (fun r hr => lr_rs_final op x np hnp r hr) r hr (if b ≤ r then r - b else r + np - b) (by split <;> omega)
  have hbk : (r + 2 * np - (if b ≤ r then r - b else r + np - b)) % np = b := by
    rw [ring_sub np r _ hr (by split <;> omega)]
    split <;> split <;> omega
  rw [hbk] at h
  exact h

/-- with a commutative operator the chain is the ascending fold over a rotation of the ranks -/
theorem lrChain_eq_segFold (op : β → β → β) (hC : ∀ a b, op a b = op b a) (x : Nat → Nat → β) (np j r b : Nat)
    (hr : r < np) (hj : j < np) :
    lrChain op x np j r b = segFold op (fun t => x ((r + 2 * np - j + t) % np) b) 0 j := by
  induction j generalizing r with
  | zero =>
    simp only [lrChain, segFold]
    have : (r + 2 * np - 0 + 0) % np = r := by
      have : r + 2 * np - 0 + 0 = r + np + np := by omega
      rw [this, Nat.add_mod_right, Nat.add_mod_right, Nat.mod_eq_of_lt hr]
    rw [this]
  | succ j ih =>
    obtain ⟨hp1, _, hp3⟩ := ring_pred np r hr
    rw [lrChain, ih ((r + np - 1) % np) hp3 (by omega), segFold_zero_succ, hC]
    have hlast : (r + 2 * np - (j + 1) + (j + 1)) % np = r := by
      have : r + 2 * np - (j + 1) + (j + 1) = r + np + np := by omega
      rw [this, Nat.add_mod_right, Nat.add_mod_right, Nat.mod_eq_of_lt hr]
    rw [hlast]
    congr 1
    apply segFold_congr
    intro t _ ht
    congr 1
    rw [hp1]
    split
    · have : r - 1 + 2 * np - j + t = r + 2 * np - (j + 1) + t := by omega
      rw [this]
    · have : np - 1 + 2 * np - j + t = (r + 2 * np - (j + 1) + t) + np := by omega
      rw [this, Nat.add_mod_right]

/-- the element-wise operator on concatenations of blocks of equal shapes -/
theorem zipOp_flatten_map (op : α → α → α) (nb : Nat) (f g : Nat → List α) (h : ∀ b, b < nb → (f b).length = (g b).length) :
    zipOp op ((List.range nb).map f).flatten ((List.range nb).map g).flatten
      = ((List.range nb).map fun b => zipOp op (f b) (g b)).flatten := by
  induction nb generalizing f g with
  | zero => simp [zipOp]
  | succ n ih =>
    rw [List.range_succ_eq_map]
    simp only [List.map_cons, List.flatten_cons, List.map_map]
    unfold zipOp
    rw [List.zipWith_append (h 0 (by omega))]
    congr 1
    exact ih (f ∘ Nat.succ) (g ∘ Nat.succ) (fun b hb => h (b + 1) (by omega))

theorem segFold_blocks (op : α → α → α) (nb c : Nat) (X : Nat → Nat → List α) (n : Nat)
    (hlen : ∀ r b, r ≤ n → b < nb → (X r b).length = c) :
    segFold (zipOp op) (fun r => ((List.range nb).map (X r)).flatten) 0 n
      = ((List.range nb).map fun b => segFold (zipOp op) (fun r => X r b) 0 n).flatten ∧
    ∀ b, b < nb → (segFold (zipOp op) (fun r => X r b) 0 n).length = c := by
  induction n with
  | zero => exact ⟨rfl, fun b hb => hlen 0 b (Nat.le_refl _) hb⟩
  | succ n ih =>
    obtain ⟨ih1, ih2⟩ := ih (fun r b hr hb => hlen r b (by omega) hb)
    refine ⟨?_, ?_⟩
    · rw [segFold_zero_succ, ih1, zipOp_flatten_map op nb _ _ (fun b hb => by rw [ih2 b hb, hlen (n + 1) b (Nat.le_refl _) hb])]
      congr 1
      apply List.map_congr_left
      intro b _
      rw [segFold_zero_succ]
    · intro b hb
      rw [segFold_zero_succ, zipOp_length, ih2 b hb, hlen (n + 1) b (Nat.le_refl _) hb, Nat.min_self]

/-- the fully reduced block = the MPI reduction of the block over the ranks (associative + commutative operator) -/
theorem lrTotal_eq_reduceAll (op : α → α → α) (hA : ∀ a b c, op (op a b) c = op a (op b c)) (hC : ∀ a b, op a b = op b a)
    (x : Nat → Nat → List α) (n b : Nat) (hb : b < n + 1) :
    some (lrTotal (zipOp op) x (n + 1) b) = reduceAll op ((List.range (n + 1)).map fun r => x r b) := by
  unfold lrTotal
  rw [lrChain_eq_segFold (zipOp op) (zipOp_comm op hC) x (n + 1) (n + 1 - 1) b b hb (by omega)]
  simp only [Nat.add_sub_cancel]
  have hfun : (fun t => x ((b + 2 * (n + 1) - n + t) % (n + 1)) b)
      = (fun t => x ((t + (b + 1) % (n + 1)) % (n + 1)) b) := by
    funext t
    have : (b + 2 * (n + 1) - n + t) % (n + 1) = (t + (b + 1) % (n + 1)) % (n + 1) := by
      rw [Nat.add_mod_mod]
      have : b + 2 * (n + 1) - n + t = (t + (b + 1)) + (n + 1) := by omega
      rw [this, Nat.add_mod_right]
    rw [this]
  rw [hfun, ← reduceAll_range op (fun t => x ((t + (b + 1) % (n + 1)) % (n + 1)) b) n]
  apply reduceAll_perm op hA hC
  have := (rot_perm (n + 1) ((b + 1) % (n + 1)) (Nat.mod_lt _ (by omega))).map (fun r => x r b)
  simpa [List.map_map, Function.comp_def] using this

end SgVerif.C29
