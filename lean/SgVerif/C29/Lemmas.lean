import SgVerif.C29.Model
/-
C29 helper lemmas (core only).
-/
namespace SgVerif.C29
variable {α : Type}

/-! ### folds of an associative operator -/

theorem foldl_assoc (op : α → α → α) (hA : ∀ a b c, op (op a b) c = op a (op b c)) (a b : α) (ys : List α) :
    op a (ys.foldl op b) = ys.foldl op (op a b) := by
  induction ys generalizing b with
  | nil => rfl
  | cons y ys ih => simp only [List.foldl_cons]; rw [ih, hA]

/-- the fold of a non-empty list, as an `Option` fold from `none` (so that permutations can be handled by
`List.Perm.foldl_eq'`) -/
def optStep (op : α → α → α) (acc : Option α) (a : α) : Option α :=
  match acc with
  | none => some a
  | some b => some (op b a)

theorem foldl_optStep_some (op : α → α → α) (x : α) (xs : List α) :
    xs.foldl (optStep op) (some x) = some (xs.foldl op x) := by
  induction xs generalizing x with
  | nil => rfl
  | cons y ys ih => simp only [List.foldl_cons, optStep]; exact ih _

theorem optStep_right_comm (op : α → α → α) (hA : ∀ a b c, op (op a b) c = op a (op b c)) (hC : ∀ a b, op a b = op b a)
    (z : Option α) (x y : α) : optStep op (optStep op z x) y = optStep op (optStep op z y) x := by
  cases z with
  | none => simp only [optStep]; rw [hC]
  | some b => simp only [optStep]; rw [hA, hA, hC x y]

theorem fold_perm (op : α → α → α) (hA : ∀ a b c, op (op a b) c = op a (op b c)) (hC : ∀ a b, op a b = op b a)
    (x y : α) (xs ys : List α) (hp : (x :: xs).Perm (y :: ys)) : xs.foldl op x = ys.foldl op y := by
  have h := List.Perm.foldl_eq' (f := optStep op) hp (fun a _ b _ z => optStep_right_comm op hA hC z a b) none
  simp only [List.foldl_cons, optStep, foldl_optStep_some] at h
  exact Option.some.inj h

/-- a tree evaluates to the fold of its leaves, in order (associativity only) -/
theorem tree_eval_fold (op : α → α → α) (hA : ∀ a b c, op (op a b) c = op a (op b c)) (t : RTree α) :
    ∃ y ys, t.leaves = y :: ys ∧ t.eval op = ys.foldl op y := by
  induction t with
  | leaf x => exact ⟨x, [], rfl, rfl⟩
  | node l r ihl ihr =>
    obtain ⟨a, as, hl, el⟩ := ihl
    obtain ⟨b, bs, hr, er⟩ := ihr
    refine ⟨a, as ++ b :: bs, by simp [RTree.leaves, hl, hr], ?_⟩
    simp only [RTree.eval, el, er, List.foldl_append, List.foldl_cons]
    exact foldl_assoc op hA _ _ _

/-! ### element-wise operators inherit associativity and commutativity -/

theorem zipOp_assoc (op : α → α → α) (hA : ∀ a b c, op (op a b) c = op a (op b c)) (a b c : List α) :
    zipOp op (zipOp op a b) c = zipOp op a (zipOp op b c) := by
  unfold zipOp
  induction a generalizing b c with
  | nil => simp
  | cons x a ih =>
    cases b with
    | nil => simp
    | cons y b =>
      cases c with
      | nil => simp
      | cons z c => simp [hA, ih]

theorem zipOp_comm (op : α → α → α) (hC : ∀ a b, op a b = op b a) (a b : List α) : zipOp op a b = zipOp op b a := by
  unfold zipOp
  induction a generalizing b with
  | nil => cases b <;> simp
  | cons x a ih =>
    cases b with
    | nil => simp
    | cons y b => simp [hC x y, ih]

theorem zipOp_length (op : α → α → α) (a b : List α) : (zipOp op a b).length = min a.length b.length := by
  simp [zipOp]

theorem foldl_zipOp_length (op : α → α → α) (c : Nat) (b : List α) (bs : List (List α)) (hb : b.length = c)
    (h : ∀ x ∈ bs, x.length = c) : (bs.foldl (zipOp op) b).length = c := by
  induction bs generalizing b with
  | nil => exact hb
  | cons x bs ih =>
    simp only [List.foldl_cons]
    apply ih
    · rw [zipOp_length, hb, h x (by simp)]; exact Nat.min_self c
    · intro y hy; exact h y (by simp [hy])

/-! ### `everywhere` / `onlyAt` -/

theorem everywhere_getElem? (n : Nat) (v : List α) (r : Nat) (h : r < n) : (everywhere n v)[r]? = some (some v) := by
  simp [everywhere, h]

theorem onlyAt_getElem? (n root : Nat) (v : List α) (r : Nat) (h : r < n) :
    (onlyAt n root v)[r]? = some (if r = root then some v else none) := by
  simp [onlyAt, h]

/-! ### segment folds (used by the recursive-doubling schedule) -/

/-- `g lo ⊕ g (lo+1) ⊕ … ⊕ g (lo+n)` (n+1 terms), left-nested -/
def segFold (op : α → α → α) (g : Nat → α) (lo : Nat) : Nat → α
  | 0 => g lo
  | n+1 => op (segFold op g lo n) (g (lo + n + 1))

theorem segFold_append (op : α → α → α) (hA : ∀ a b c, op (op a b) c = op a (op b c)) (g : Nat → α) (lo a b : Nat) :
    segFold op g lo (a + b + 1) = op (segFold op g lo a) (segFold op g (lo + a + 1) b) := by
  induction b with
  | zero => rfl
  | succ b ih =>
    have : a + (b + 1) + 1 = (a + b + 1) + 1 := by omega
    rw [this, segFold, ih, segFold, hA]
    congr 2
    have : lo + (a + b + 1) + 1 = lo + a + 1 + b + 1 := by omega
    rw [this]

theorem segFold_eq_foldl (op : α → α → α) (g : Nat → α) (lo n : Nat) :
    segFold op g lo n = ((List.range n).map fun i => g (lo + i + 1)).foldl op (g lo) := by
  induction n with
  | zero => rfl
  | succ n ih => simp [segFold, ih, List.range_succ, List.foldl_append]

end SgVerif.C29

namespace SgVerif.C29
variable {α : Type}

/-! ### recursive doubling keeps the rank order: after `k` rounds new rank `nr` holds the ordered fold of its block -/

theorem rdbVal_eq_segFold (op : α → α → α) (hA : ∀ a b c, op (op a b) c = op a (op b c)) (g : Nat → α) (k nr : Nat) :
    rdbVal op g k nr = segFold op g (nr - nr % 2 ^ k) (2 ^ k - 1) := by
  induction k generalizing nr with
  | zero => simp [rdbVal, segFold, Nat.mod_one]
  | succ k ih =>
    have hB : 0 < 2 ^ k := Nat.pos_of_ne_zero (by simp)
    have hdm := Nat.div_add_mod nr (2 ^ k)
    have hmod : nr % (2 ^ k * 2) = nr % 2 ^ k + 2 ^ k * (nr / 2 ^ k % 2) := Nat.mod_mul
    have hlt := Nat.mod_lt nr hB
    rw [Nat.pow_succ]
    simp only [rdbVal, rdbPartner]
    by_cases hbit : nr / 2 ^ k % 2 = 1
    · -- bit k set: partner = nr - 2^k, lower block first
      have hq : 1 ≤ nr / 2 ^ k := Nat.pos_of_ne_zero (by intro h0; rw [h0] at hbit; simp at hbit)
      have hge : 2 ^ k * 1 ≤ 2 ^ k * (nr / 2 ^ k) := Nat.mul_le_mul_left _ hq
      have hpm : (nr - 2 ^ k) % 2 ^ k = nr % 2 ^ k := by
        have : nr = (nr - 2 ^ k) + 2 ^ k := by omega
        conv => rhs; rw [this, Nat.add_mod_right]
      simp only [hbit, if_true]
      have hp : nr - 2 ^ k < nr := by omega
      simp only [hp, if_true]
      rw [ih (nr - 2 ^ k), ih nr, hpm, hmod, hbit]
      have e1 : nr - 2 ^ k - nr % 2 ^ k = (nr - (nr % 2 ^ k + 2 ^ k * 1)) := by omega
      have e2 : nr - nr % 2 ^ k = (nr - (nr % 2 ^ k + 2 ^ k * 1)) + (2 ^ k - 1) + 1 := by omega
      have e3 : 2 ^ k * 2 - 1 = (2 ^ k - 1) + (2 ^ k - 1) + 1 := by omega
      rw [e1, e3, segFold_append op hA, ← e2]
    · have hbit0 : nr / 2 ^ k % 2 = 0 := by omega
      have hpm : (nr + 2 ^ k) % 2 ^ k = nr % 2 ^ k := Nat.add_mod_right _ _
      simp only [hbit, if_false]
      have hp : ¬ (nr + 2 ^ k < nr) := by omega
      simp only [hp, if_false]
      rw [ih (nr + 2 ^ k), ih nr, hpm, hmod, hbit0]
      have e1 : nr + 2 ^ k - nr % 2 ^ k = (nr - nr % 2 ^ k) + (2 ^ k - 1) + 1 := by omega
      have e3 : 2 ^ k * 2 - 1 = (2 ^ k - 1) + (2 ^ k - 1) + 1 := by omega
      have e4 : nr - (nr % 2 ^ k + 2 ^ k * 0) = nr - nr % 2 ^ k := by omega
      rw [e1, e3, segFold_append op hA, e4]

end SgVerif.C29

namespace SgVerif.C29
variable {α : Type}

/-- the pre-phase only brackets neighbours: folding the `g` values = folding the `x` values -/
theorem segFold_rdbPre (op : α → α → α) (hA : ∀ a b c, op (op a b) c = op a (op b c)) (x : Nat → α) (rem t : Nat) :
    segFold op (rdbPre op x rem) 0 t = segFold op x 0 (if t < rem then 2 * t + 1 else t + rem) := by
  induction t with
  | zero =>
    by_cases h : 0 < rem
    · simp [segFold, rdbPre, h]
    · have : rem = 0 := by omega
      subst this
      simp [segFold, rdbPre]
  | succ t ih =>
    have step : ∀ (f : Nat → α) (n : Nat), segFold op f 0 (n + 1) = op (segFold op f 0 n) (f (n + 1)) := by
      intro f n; simp [segFold]
    rw [step, ih]
    by_cases h1 : t + 1 < rem
    · have h0 : t < rem := by omega
      simp only [h0, h1, if_true, rdbPre]
      have e : 2 * (t + 1) + 1 = (2 * t + 1) + 1 + 1 := by omega
      have e1 : 2 * (t + 1) = 2 * t + 1 + 1 := by omega
      rw [e, e1]
      generalize 2 * t + 1 = n
      rw [step, step, hA]
    · simp only [h1, if_false, rdbPre]
      by_cases h0 : t < rem
      · simp only [h0, if_true]
        have e : t + 1 + rem = (2 * t + 1) + 1 := by omega
        rw [e]
        generalize 2 * t + 1 = n
        rw [step]
      · simp only [h0, if_false]
        have e : t + 1 + rem = (t + rem) + 1 := by omega
        rw [e]
        generalize t + rem = n
        rw [step]

theorem reduceAll_range (op : α → α → α) (x : Nat → List α) (n : Nat) :
    reduceAll op ((List.range (n + 1)).map x) = some (segFold (zipOp op) x 0 n) := by
  rw [segFold_eq_foldl, List.range_succ_eq_map]
  simp [reduceAll, List.map_map, Function.comp_def, Nat.add_comm]

end SgVerif.C29

namespace SgVerif.C29
variable {α : Type}

/-! ### ring allgather -/

/-- ring distance from `s` to `rank` (number of the round in which `rank` receives the block of `s`) -/
def ringDist (np rank s : Nat) : Nat := if s ≤ rank then rank - s else rank + np - s

theorem ring_src (np rank i : Nat) (hr : rank < np) (hi1 : 1 ≤ i) (hi : i < np) :
    (rank + np - i) % np = (if i ≤ rank then rank - i else rank + np - i) ∧
    ((rank + np - i) % np + i) % np = rank ∧ (rank + np - i) % np < np ∧
    ringDist np rank ((rank + np - i) % np) = i := by
  by_cases h : i ≤ rank
  · have e : rank + np - i = (rank - i) + np := by omega
    have hm : (rank + np - i) % np = rank - i := by
      rw [e, Nat.add_mod_right, Nat.mod_eq_of_lt (by omega)]
    refine ⟨by simp [h, hm], ?_, by rw [hm]; omega, ?_⟩
    · rw [hm, show rank - i + i = rank by omega, Nat.mod_eq_of_lt hr]
    · rw [hm]; unfold ringDist; split <;> omega
  · have hm : (rank + np - i) % np = rank + np - i := Nat.mod_eq_of_lt (by omega)
    refine ⟨by simp [h, hm], ?_, by rw [hm]; omega, ?_⟩
    · rw [hm, show rank + np - i + i = rank + np by omega, Nat.add_mod_right, Nat.mod_eq_of_lt hr]
    · rw [hm]; unfold ringDist; split <;> omega

theorem ringRounds_length (bufs : Bufs α) (rank k : Nat) (slots : List (Option (List α))) :
    (ringRounds bufs rank k slots).length = slots.length := by
  induction k with
  | zero => rfl
  | succ k ih =>
    simp only [ringRounds]
    split
    · split <;> simp [setSlot, ih]
    · exact ih

theorem ringRounds_get (bufs : Bufs α) (rank k : Nat) (slots : List (Option (List α))) (hr : rank < bufs.length)
    (hk : k < bufs.length) (hl : slots.length = bufs.length) (s : Nat) (hs : s < bufs.length) :
    (ringRounds bufs rank k slots)[s]? =
      if 1 ≤ ringDist bufs.length rank s ∧ ringDist bufs.length rank s ≤ k then some (bufs[s]?) else slots[s]? := by
  induction k with
  | zero =>
    simp only [ringRounds]
    have : ¬ (1 ≤ ringDist bufs.length rank s ∧ ringDist bufs.length rank s ≤ 0) := by omega
    rw [if_neg this]
  | succ k ih =>
    have ih := ih (by omega)
    obtain ⟨_, h2, h3, h4⟩ := ring_src bufs.length rank (k + 1) hr (by omega) hk
    simp only [ringRounds, h2, if_true]
    rw [List.getElem?_eq_getElem h3]
    simp only [setSlot, List.getElem?_set, ringRounds_length, hl, h3, if_true]
    by_cases hsrc : (rank + bufs.length - (k + 1)) % bufs.length = s
    · subst hsrc
      simp only [if_true, h4]
      have : (1 ≤ k + 1 ∧ k + 1 ≤ k + 1) := by omega
      simp [this, List.getElem?_eq_getElem h3]
    · simp only [hsrc, if_false, ih]
      have hne : ringDist bufs.length rank s ≠ k + 1 := by
        intro hd
        apply hsrc
        -- distance k+1 determines the source
        unfold ringDist at hd h4
        split at hd <;> split at h4 <;> omega
      have : (1 ≤ ringDist bufs.length rank s ∧ ringDist bufs.length rank s ≤ k + 1) ↔
             (1 ≤ ringDist bufs.length rank s ∧ ringDist bufs.length rank s ≤ k) := by omega
      simp only [this]

end SgVerif.C29
