import SgVerif.C29.Model
import SgVerif.C29.Gen
import SgVerif.Common.Proto
open SgVerif.Proto
/-
C29 driver.  One line per case:
  <coll> <algo> <np> <root> <count> <type> <op> <nb> => <rank 0 tokens> | <rank 1 tokens> | …
The driver rebuilds the pattern-filled send buffers (same closed formulas as props/C29/harness.c), evaluates the
SPEC of the collective (Model.lean) and compares every rank's receive buffer.  A wrong buffer is a violation of the
property itself (MONFAIL).  For the algorithms whose schedule is modelled (`hasSchedule`), the schedule model is evaluated too
and must agree with the implementation (DISAGREE otherwise: the schedule model no longer mirrors the code).
-/
namespace SgVerif.C29

structure Dom (α : Type) where
  op : α → α → α
  gen : Nat → Nat → α         -- rank, cell index
  sent : α
  flat : α → List Int

def SENT : Int := -7777
def UP : Int := 9973

def ptab : List Int := [1, 2, -1, 3, 1, -2]

/-- operator kinds (decoded once per case: the closures below must not compare strings per element) -/
inductive OpK where
  | mov | sum | prod | max | min | bxor | user
  deriving DecidableEq

def OpK.ofString : String → Option OpK
  | "mov" => some .mov | "sum" => some .sum | "prod" => some .prod | "max" => some .max
  | "min" => some .min | "bxor" => some .bxor | "user" => some .user | _ => none

def valOf : OpK → Nat → Nat → Int
  | .mov, r, i => (r * 100000 + i : Nat)
  | .prod, r, i => ptab.getD ((r * 5 + i * 3) % 6) 0
  | .bxor, r, i => (((r + 1) * 2654435 + i * 40503) % 1073741824 : Nat)
  | .user, r, i => ((r * 131 + i * 17 + 5) % 9973 : Nat)
  | _, r, i => (((r * 131 + i * 17 + 5) % 2001 : Nat) : Int) - 1000

def uop (x y : Int) : Int := ((x + 1) * (y + 1) + UP - 1) % UP

def opOf : OpK → Int → Int → Int
  | .sum, a, b => a + b
  | .prod, a, b => a * b
  | .max, a, b => if a < b then b else a
  | .min, a, b => if a < b then a else b
  | .bxor, a, b => ((a.toNat ^^^ b.toNat : Nat) : Int)
  | .user, a, b => uop a b
  | .mov, _, b => b

/-- MPI_MAXLOC (MPI-3.1 §5.9.4): the larger value; on equal values the smaller index -/
def maxloc (a b : Int × Int) : Int × Int :=
  if a.1 < b.1 then b else if a.1 = b.1 then (if a.2 < b.2 then a else b) else a

def domInt (op : OpK) (vec : Bool) : Dom Int :=
  { op := opOf op, gen := valOf op, sent := SENT,
    flat := if vec then fun x => [x, SENT] else fun x => [x] }

def domLoc : Dom (Int × Int) :=
  { op := maxloc, gen := fun r i => ((((r * 3 + i * 5) % 4 : Nat) : Int), (((r * 7 + i * 3) % 11 : Nat) : Int)),
    sent := (SENT, SENT), flat := fun x => [x.1, x.2] }

def vcnt (c j : Nat) : Nat := if c = 0 then 0 else (j * 5 + c) % (c + 1)
def avcnt (c r j : Nat) : Nat := if c = 0 then 0 else (r * 3 + j * 5 + c) % (c + 1)

/-- 64-bit wrap-around polynomial hash (same in harness.c) -/
def hashToks (l : List Int) : UInt64 :=
  l.foldl (fun h v => h * 1000003 + UInt64.ofNat (v + 1099511627776).toNat) 0

def renderRank {α : Type} (D : Dom α) : Option (List α) → List String
  | none => ["-"]
  | some l =>
    let toks := l.flatMap D.flat
    if toks.isEmpty then ["."]
    else if toks.length > 48 then [s!"#{toks.length}", toString (hashToks toks)]
    else toks.map toString

def splitBar : List String → List (List String)
  | [] => [[]]
  | t :: ts =>
    match splitBar ts with
    | [] => [[t]]
    | g :: gs => if t = "|" then [] :: g :: gs else (t :: g) :: gs

def pat {α : Type} (D : Dom α) (r n : Nat) : List α := (List.range n).map (D.gen r)

/-- displacement with one gap item after each block: cells -/
def gapDispls (m : Nat) (cnts : List Nat) : List Nat := offsets 0 (cnts.map fun c => (c + 1) * m)

/-- expected result of the collective; `m` = cells per item (2 for the vector type) -/
def expected {α : Type} (D : Dom α) (coll : String) (np root c m : Nat) : Option (Res α) :=
  let C := c * m
  let ranks := List.range np
  match coll with
  | "bcast" => bcast root (ranks.map fun r => pat D r C)
  | "reduce" => reduce D.op root (ranks.map fun r => pat D r C)
  | "allreduce" => allreduce D.op (ranks.map fun r => pat D r C)
  | "scan" => scan D.op (ranks.map fun r => pat D r C)
  | "exscan" => exscan D.op (ranks.map fun r => pat D r C)
  | "gather" => gather root (ranks.map fun r => pat D r C)
  | "allgather" => allgather (ranks.map fun r => pat D r C)
  | "scatter" => scatter root C (ranks.map fun r => pat D r (np * C))
  | "alltoall" => alltoall C (ranks.map fun r => pat D r (np * C))
  | "gatherv" | "allgatherv" =>
    let cnts := ranks.map (vcnt c)
    let tot := (cnts.map (· + 1)).sum * m
    let init := List.replicate tot D.sent
    let bufs := ranks.map fun r => pat D r (vcnt c r * m)
    if coll = "gatherv" then gatherv root init (gapDispls m cnts) bufs else allgatherv init (gapDispls m cnts) bufs
  | "scatterv" =>
    let cnts := ranks.map (vcnt c)
    let tot := (cnts.map (· + 1)).sum * m
    scatterv root (cnts.map (· * m)) (gapDispls m cnts) (ranks.map fun r => pat D r tot)
  | "alltoallv" | "alltoallw" =>
    let scnt := ranks.map fun r => ranks.map fun j => avcnt c r j
    let rcnt := ranks.map fun r => ranks.map fun j => avcnt c j r
    let sdsp := scnt.map (gapDispls m)
    let rdsp := rcnt.map (gapDispls m)
    let bufs := (ranks.zip scnt).map fun (r, cs) => pat D r ((cs.map (· + 1)).sum * m)
    let inits := rcnt.map fun cs => List.replicate ((cs.map (· + 1)).sum * m) D.sent
    alltoallv inits rdsp (scnt.map (·.map (· * m))) sdsp bufs
  | "reduce_scatter" =>
    let cnts := ranks.map (vcnt c)
    reduceScatter D.op (cnts.map (· * m)) (ranks.map fun r => pat D r (cnts.sum * m))
  | "reduce_scatter_block" =>
    reduceScatter D.op (ranks.map fun _ => C) (ranks.map fun r => pat D r (np * C))
  | _ => none

/-- schedule models (only for the modelled algorithms); result in the same shape as the spec -/
def schedule {α : Type} (D : Dom α) (coll algo : String) (np root c m : Nat) : Option (Res α) :=
  let C := c * m
  let ranks := List.range np
  match coll, algo with
  | "bcast", "binomial_tree" | "bcast", "default" =>      -- bcast__default calls bcast__binomial_tree
    if root < np then some (bcastBinomial np root (pat D root C)) else none
  | "reduce", "flat_tree" =>
    if root < np then some (onlyAt np root (reduceFlatTree (zipOp D.op) (fun r => pat D r C) np)) else none
  | "reduce", "binomial" =>       -- every operator of the grid is created commutative (harness.c: MPI_Op_create(…, 1, …))
    if root < np then some (onlyAt np root (reduceBinomial (zipOp D.op) true (fun r => pat D r C) np root)) else none
  | "allreduce", "rdb" =>
    if np = 0 then none else
    let x := fun r => pat D r C
    some (ranks.map fun r => some (allreduceRdb (zipOp D.op) x np r))
  | "allgather", "ring" =>
    let bufs := ranks.map fun r => pat D r C
    some (ranks.map fun r => (allSome (allgatherRing bufs r)).map List.flatten)
  | "allgather", "bruck" =>
    some (ranks.map fun r => (allSome (allgatherBruck (fun q => pat D q C) np r)).map List.flatten)
  | "allreduce", "lr" =>          -- only for counts that are a positive multiple of np (see `hasSchedule`)
    if np = 0 then none else
    let blk := C / np
    let blocks := ranks.map fun r => chunks blk np (pat D r C)
    let x := fun r b => (blocks.getD r []).getD b []
    some (ranks.map fun r => (allSome (ranks.map (allreduceLr (zipOp D.op) x np r))).map List.flatten)
  | "alltoall", "ring" =>
    let blocks := ranks.map fun r => chunks C np (pat D r (np * C))
    some (ranks.map fun r => (allSome (alltoallRing blocks r)).map List.flatten)
  | "alltoall", "pair" =>
    let blocks := ranks.map fun r => chunks C np (pat D r (np * C))
    allSome (ranks.map fun r => (alltoallPair blocks r).map fun slots => (allSome slots).map List.flatten)
  | _, _ => none

/-- is the schedule model of this (collective, algorithm) applicable to the case?  (`nb` = the non-blocking `MPI_I…`
variant, which never runs the selected algorithm) -/
def hasSchedule (coll algo : String) (nb : Bool) (np c : Nat) : Bool :=
  !nb && ((coll, algo) ∈ [("bcast", "binomial_tree"), ("bcast", "default"), ("allreduce", "rdb"), ("allgather", "ring"),
    ("allgather", "bruck"), ("alltoall", "pair"), ("alltoall", "ring"), ("reduce", "flat_tree"), ("reduce", "binomial")] ||
    -- allreduce-lr.cpp hands counts < np and the remainder of counts that np does not divide to other algorithms
    ((coll, algo) == ("allreduce", "lr") && np != 0 && c >= np && c % np == 0))

def firstDiff : Nat → List (List String) → List (List String) → Option (Nat × List String × List String)
  | _, [], [] => none
  | r, e :: es, i :: is => if e = i then firstDiff (r + 1) es is else some (r, e, i)
  | r, e :: _, [] => some (r, e, ["<missing>"])
  | r, [], i :: _ => some (r, ["<none>"], i)

def judgeWith {α : Type} (D : Dom α) (coll algo : String) (nb : Bool) (np root c m : Nat) (impl : List (List String)) :
    Verdict :=
  match expected D coll np root c m with
  | none => .bad
  | some res =>
    let exp := res.map (renderRank D)
    match firstDiff 0 exp impl with
    | some (r, e, i) =>
      .monfail s!"rank {r}: receive buffer differs from the MPI result: expected [{" ".intercalate (e.take 24)}] got [{" ".intercalate (i.take 24)}]"
    | none =>
      if hasSchedule coll algo nb np c then
        match schedule D coll algo np root c m with
        | none => .disagree "schedule-model-refuses"
        | some sres => if sres.map (renderRank D) = impl then .ok else .disagree "schedule-model-differs"
      else .ok

def parseFrac (s : String) : Option (Int × Nat) :=
  match s.splitOn "/" with
  | [n, d] => match n.toInt?, d.toNat? with
    | some n, some d => if d = 0 then none else some (n, d)
    | _, _ => none
  | _ => none

def judgeBarrier (impl : List (List String)) : Verdict :=
  let ps := impl.map fun toks => match toks with
    | [a, b] => match parseFrac a, parseFrac b with
      | some x, some y => some (x, y)
      | _, _ => none
    | _ => none
  match allSome ps with
  | none => .monfail s!"barrier: bad answer {impl}"
  | some l =>
    if barrierOk (l.map (·.1)) (l.map (·.2)) then .ok
    else .monfail "barrier: a rank left the barrier before the last rank entered it"

def judge (q a : List String) : Verdict :=
  match q with
  | ["algos", coll] =>           -- the library's `--help-coll` listing against the table translated from smpi_coll.cpp
    match Gen.algos.lookup coll with
    | some l => cmpAns l a
    | none => .disagree "collective-not-in-translated-table"
  | ["algocount"] => cmpAns [toString Gen.algos.length] a
  | [coll, algo, np, root, c, ty, op, nb] =>
    match np.toNat?, root.toNat?, c.toNat? with
    | some np, some root, some c =>
      let impl := splitBar a
      if coll = "barrier" then
        if impl.length = np then judgeBarrier impl else .monfail "barrier: missing ranks"
      else
      if (Gen.algos.any fun (cl, l) => cl = coll ∧ ¬ l.contains algo) ∧ algo ≠ "default" then .bad else
      let m := if ty = "vec" then 2 else 1
      let nb := nb != "0"
      if op = "maxloc" then judgeWith domLoc coll algo nb np root c m impl
      else match OpK.ofString op with
        | some k => judgeWith (domInt k (ty = "vec")) coll algo nb np root c m impl
        | none => .bad
    | _, _, _ => .bad
  | _ => .bad

end SgVerif.C29

def main : IO Unit := SgVerif.Proto.run SgVerif.C29.judge
