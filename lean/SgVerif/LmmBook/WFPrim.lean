import SgVerif.LmmBook.WF
/-
`WFl` through the primitive moves (`moveToEn`, `moveToDis`), the indexed loop lemma for `forElems`, and through
`enable_var` / `disable_var`.  Everything is stated as "if the result did not fail then …".  Core-only.
-/
namespace SgVerif.LmmBook

/-- `WFl` only reads `loc` at existing slots -/
theorem WFl.congr' {s : Sys} {loc loc' : Loc} (h : WFl s loc)
    (he : ∀ v j, j < (s.vars v).cn.length → loc' v j = loc v j) : WFl s loc' := by
  have lt : ∀ {v j c}, (s.vars v).cn[j]? = some c → j < (s.vars v).cn.length := by
    intro v j c hj
    have := List.getElem?_eq_some_iff.mp hj
    exact this.1
  refine ⟨?_, ?_, h.enK, h.disK, ?_, ?_⟩
  · intro c e hm; have := h.enA c e hm; exact ⟨this.1, by rw [he _ _ (lt this.1)]; exact this.2⟩
  · intro c e hm; have := h.disA c e hm; exact ⟨this.1, by rw [he _ _ (lt this.1)]; exact this.2⟩
  · intro v j c hj hl; rw [he _ _ (lt hj)] at hl; exact h.enD v j c hj hl
  · intro v j c hj hl; rw [he _ _ (lt hj)] at hl; exact h.disD v j c hj hl

/-- indexed loop lemma: `Q i` holds before the iteration on slot `i` of the fixed array `L` -/
theorem forElems_ind {f : Sys → Nat → Nat → Nat → Sys} (v : Nat) (L : List Nat) (Q : Nat → Sys → Prop)
    (hst : ∀ s c v i, (f s c v i).failed = false → s.failed = false)
    (hstep : ∀ s c i, L[i]? = some c → Q i s → (f s c v i).failed = false → Q (i+1) (f s c v i)) :
    ∀ (l : List Nat) (i : Nat) (s : Sys), (∃ pre, L = pre ++ l ∧ pre.length = i) → Q i s →
      (forElems f v i l s).failed = false → Q L.length (forElems f v i l s) := by
  intro l
  induction l with
  | nil =>
    intro i s ⟨pre, hL, hlen⟩ hq _
    simp only [forElems]
    have : L.length = i := by rw [hL]; simp [hlen]
    rw [this]; exact hq
  | cons c rest ih =>
    intro i s ⟨pre, hL, hlen⟩ hq hnf
    simp only [forElems] at hnf ⊢
    have hfs : (f s c v i).failed = false := forElems_sticky hst v _ _ _ hnf
    have hLi : L[i]? = some c := by
      rw [hL, List.getElem?_append_right (by omega)]
      simp [hlen]
    refine ih (i+1) _ ⟨pre ++ [c], by rw [hL]; simp, by simp [hlen]⟩ (hstep s c i hLi hq hfs) hnf

theorem forElems_ind0 {f : Sys → Nat → Nat → Nat → Sys} (v : Nat) (L : List Nat) (Q : Nat → Sys → Prop)
    (hst : ∀ s c v i, (f s c v i).failed = false → s.failed = false)
    (hstep : ∀ s c i, L[i]? = some c → Q i s → (f s c v i).failed = false → Q (i+1) (f s c v i))
    (s : Sys) (h0 : Q 0 s) (hnf : (forElems f v 0 L s).failed = false) : Q L.length (forElems f v 0 L s) :=
  forElems_ind v L Q hst hstep L 0 s ⟨[], by simp, rfl⟩ h0 hnf

/-! ### `moveToEn` -/

def Cnst.movedEn (k : Cnst) (v i : Nat) (e : Entry) : Cnst :=
  { k with dis := k.dis.eraseP (isRef v i), en := e :: k.en, cur := k.cur + conc k.policy e.w }

def Cnst.movedDis (k : Cnst) (v i : Nat) (e : Entry) : Cnst :=
  { k with en := k.en.eraseP (isRef v i), dis := k.dis ++ [e], cur := k.cur - conc k.policy e.w }

theorem moveToEn_inv (s : Sys) (c v i : Nat) (h : (moveToEn s c v i).failed = false) :
    ∃ e, (s.cnsts c).dis.find? (isRef v i) = some e ∧
      moveToEn s c v i = s.setC c ((s.cnsts c).movedEn v i e) ∧
      (∀ lim, (s.cnsts c).limit = some lim → (s.cnsts c).cur + conc (s.cnsts c).policy e.w ≤ lim) := by
  unfold moveToEn at h ⊢
  simp only at h ⊢
  cases hf : (s.cnsts c).dis.find? (isRef v i) with
  | none => rw [hf] at h; simp [Sys.fail] at h
  | some e =>
    rw [hf] at h
    simp only at h ⊢
    refine ⟨e, rfl, ?_, ?_⟩
    · split
      · rename_i lim hl
        split
        · rename_i hlt; rw [hl] at h; simp only [hlt, if_true] at h; simp [Sys.fail] at h
        · rfl
      · rfl
    · intro lim hl
      rw [hl] at h
      simp only at h
      split at h
      · simp [Sys.fail] at h
      · omega

theorem moveToEn_vars (s : Sys) (c v i : Nat) : (moveToEn s c v i).vars = s.vars := by
  unfold moveToEn
  simp only
  split
  · rfl
  · split
    · split <;> rfl
    · rfl

theorem WFl_moveToEn {s : Sys} {loc : Loc} (h : WFl s loc) (c v i : Nat) (hcn : (s.vars v).cn[i]? = some c)
    (hl : loc v i = some false) (hnf : (moveToEn s c v i).failed = false) :
    WFl (moveToEn s c v i) (loc.upd v i (some true)) := by
  obtain ⟨e, he, heq, _⟩ := moveToEn_inv s c v i hnf
  rw [heq]
  have hem := List.mem_of_find?_eq_some he
  have her := List.find?_some he
  apply WFl_relocate h c v i _ (some true) hcn
  · intro x hx hr
    rcases List.mem_cons.mp hx with h1 | h1
    · rw [h1, her] at hr; exact Bool.noConfusion hr
    · exact h1
  · intro x hx _; exact List.mem_cons_of_mem _ hx
  · intro _ _ _; rfl
  · intro _; exact ⟨e, List.mem_cons_self, her⟩
  · show List.Pairwise KeyNe (e :: (s.cnsts c).en)
    rw [List.pairwise_cons]
    refine ⟨?_, h.enK c⟩
    intro x hx hk
    have hxa := (h.enA c x hx).2
    have her' := (isRef_iff v i e).mp her
    rw [← hk.1, ← hk.2, her'.1, her'.2, hl] at hxa
    exact Bool.noConfusion (Option.some.inj hxa)
  · intro x hx _; exact List.mem_of_mem_eraseP hx
  · intro x hx hr; exact (List.mem_eraseP_of_neg (by rw [hr]; exact Bool.false_ne_true)).mpr hx
  · intro x hx hr
    have := not_isRef_of_mem_eraseP v i _ (h.disK c) x hx
    rw [this] at hr; exact Bool.noConfusion hr
  · intro hh; exact Bool.noConfusion (Option.some.inj hh)
  · exact List.Pairwise.sublist List.eraseP_sublist (h.disK c)

/-! ### `moveToDis` -/

theorem moveToDis_inv (s : Sys) (c v i : Nat) (h : (moveToDis s c v i).failed = false) :
    ∃ e, (s.cnsts c).en.find? (isRef v i) = some e ∧ conc (s.cnsts c).policy e.w ≤ (s.cnsts c).cur ∧
      moveToDis s c v i = s.setC c ((s.cnsts c).movedDis v i e) := by
  unfold moveToDis at h ⊢
  simp only at h ⊢
  cases hf : (s.cnsts c).en.find? (isRef v i) with
  | none => rw [hf] at h; simp [Sys.fail] at h
  | some e =>
    rw [hf] at h
    simp only at h ⊢
    by_cases hlt : (s.cnsts c).cur < conc (s.cnsts c).policy e.w
    · simp only [hlt, if_true] at h; simp [Sys.fail] at h
    · simp only [hlt, if_false]
      exact ⟨e, rfl, by omega, rfl⟩

theorem moveToDis_vars (s : Sys) (c v i : Nat) : (moveToDis s c v i).vars = s.vars := by
  unfold moveToDis
  simp only
  split
  · rfl
  · split <;> rfl

theorem WFl_moveToDis {s : Sys} {loc : Loc} (h : WFl s loc) (c v i : Nat) (hcn : (s.vars v).cn[i]? = some c)
    (hl : loc v i = some true) (hnf : (moveToDis s c v i).failed = false) :
    WFl (moveToDis s c v i) (loc.upd v i (some false)) := by
  obtain ⟨e, he, _, heq⟩ := moveToDis_inv s c v i hnf
  rw [heq]
  have hem := List.mem_of_find?_eq_some he
  have her := List.find?_some he
  apply WFl_relocate h c v i _ (some false) hcn
  · intro x hx _; exact List.mem_of_mem_eraseP hx
  · intro x hx hr; exact (List.mem_eraseP_of_neg (by rw [hr]; exact Bool.false_ne_true)).mpr hx
  · intro x hx hr
    have := not_isRef_of_mem_eraseP v i _ (h.enK c) x hx
    rw [this] at hr; exact Bool.noConfusion hr
  · intro hh; exact Bool.noConfusion (Option.some.inj hh)
  · exact List.Pairwise.sublist List.eraseP_sublist (h.enK c)
  · intro x hx hr
    rcases List.mem_append.mp hx with h1 | h1
    · exact h1
    · rw [List.mem_singleton.mp h1, her] at hr; exact Bool.noConfusion hr
  · intro x hx _; exact List.mem_append_left _ hx
  · intro _ _ _; rfl
  · intro _; exact ⟨e, List.mem_append_right _ (List.mem_singleton.mpr rfl), her⟩
  · show List.Pairwise KeyNe ((s.cnsts c).dis ++ [e])
    rw [List.pairwise_append]
    refine ⟨h.disK c, List.pairwise_singleton _ _, ?_⟩
    intro x hx y hy hk
    rw [List.mem_singleton.mp hy] at hk
    have hxa := (h.disA c x hx).2
    have her' := (isRef_iff v i e).mp her
    rw [hk.1, hk.2, her'.1, her'.2, hl] at hxa
    exact Bool.noConfusion (Option.some.inj hxa)

/-! ### the loops of `enable_var` / `disable_var` -/

/-- slots `< i` of `v` relocated to `b`, the rest as in `loc` -/
def Loc.upto (loc : Loc) (v i : Nat) (b : Option Bool) : Loc := fun u j => if u = v ∧ j < i then b else loc u j

theorem Loc.upto_zero (loc : Loc) (v : Nat) (b : Option Bool) (u j : Nat) : loc.upto v 0 b u j = loc u j := by
  simp [Loc.upto]

theorem Loc.upto_succ (loc : Loc) (v i : Nat) (b : Option Bool) (u j : Nat) :
    loc.upto v (i+1) b u j = (loc.upto v i b).upd v i b u j := by
  simp only [Loc.upto, Loc.upd]
  by_cases h1 : u = v
  · by_cases h2 : j = i
    · simp [h1, h2]
    · by_cases h3 : j < i
      · have : j < i + 1 := by omega
        simp [h1, h2, h3, this]
      · have : ¬ j < i + 1 := by omega
        simp [h1, h2, h3, this]
  · simp [h1]

theorem WFl_forElems_moveToEn {s : Sys} {loc : Loc} (v : Nat) (h : WFl s loc)
    (hl : ∀ j, j < (s.vars v).cn.length → loc v j = some false)
    (hnf : (forElems moveToEn v 0 (s.vars v).cn s).failed = false) :
    WFl (forElems moveToEn v 0 (s.vars v).cn s) (loc.upto v (s.vars v).cn.length (some true)) ∧
    (forElems moveToEn v 0 (s.vars v).cn s).vars = s.vars := by
  have := forElems_ind0 (f := moveToEn) v (s.vars v).cn
    (fun i st => WFl st (loc.upto v i (some true)) ∧ st.vars = s.vars) moveToEn_sticky ?_ s
    ⟨h.congr (Loc.upto_zero loc v _), rfl⟩ hnf
  · exact this
  · intro st c i hi ⟨hw, hv⟩ hnf'
    refine ⟨?_, by rw [moveToEn_vars, hv]⟩
    have hlt : i < (s.vars v).cn.length := (List.getElem?_eq_some_iff.mp hi).1
    have := WFl_moveToEn hw c v i (by rw [hv]; exact hi) (by simp only [Loc.upto]; simp; exact hl i hlt) hnf'
    exact this.congr (Loc.upto_succ loc v i _)

theorem WFl_forElems_moveToDis {s : Sys} {loc : Loc} (v : Nat) (h : WFl s loc)
    (hl : ∀ j, j < (s.vars v).cn.length → loc v j = some true)
    (hnf : (forElems moveToDis v 0 (s.vars v).cn s).failed = false) :
    WFl (forElems moveToDis v 0 (s.vars v).cn s) (loc.upto v (s.vars v).cn.length (some false)) ∧
    (forElems moveToDis v 0 (s.vars v).cn s).vars = s.vars := by
  have := forElems_ind0 (f := moveToDis) v (s.vars v).cn
    (fun i st => WFl st (loc.upto v i (some false)) ∧ st.vars = s.vars) moveToDis_sticky ?_ s
    ⟨h.congr (Loc.upto_zero loc v _), rfl⟩ hnf
  · exact this
  · intro st c i hi ⟨hw, hv⟩ hnf'
    refine ⟨?_, by rw [moveToDis_vars, hv]⟩
    have hlt : i < (s.vars v).cn.length := (List.getElem?_eq_some_iff.mp hi).1
    have := WFl_moveToDis hw c v i (by rw [hv]; exact hi) (by simp only [Loc.upto]; simp; exact hl i hlt) hnf'
    exact this.congr (Loc.upto_succ loc v i _)

/-- all slots of `v` relocated to `b` -/
def Loc.all (loc : Loc) (v : Nat) (b : Option Bool) : Loc := fun u j => if u = v then b else loc u j

/-- what `enable_var` does to the variables: `v` gets its staged penalty, and only marks change otherwise -/
structure EnVars (s s' : Sys) (v : Nat) : Prop where
  cn : ∀ u, (s'.vars u).cn = (s.vars u).cn
  alive : ∀ u, (s'.vars u).alive = (s.vars u).alive
  penv : (s'.vars v).pen = (s.vars v).staged
  stagedv : (s'.vars v).staged = 0
  pen : ∀ u, u ≠ v → (s'.vars u).pen = (s.vars u).pen
  staged : ∀ u, u ≠ v → (s'.vars u).staged = (s.vars u).staged
  bound : ∀ u, (s'.vars u).bound = (s.vars u).bound
  nv : s'.nv = s.nv
  nc : s'.nc = s.nc

theorem enableVar_vars (s : Sys) (v : Nat) : EnVars s (enableVar s v) v := by
  unfold enableVar
  simp only
  generalize hs2 : varsetFront (s.setV v { s.vars v with pen := (s.vars v).staged, staged := 0 }) v = s2
  have hv2 : s2.vars = fun i => if i = v then { s.vars v with pen := (s.vars v).staged, staged := 0 } else s.vars i := by
    rw [← hs2]; rfl
  have hn2 : s2.nv = s.nv ∧ s2.nc = s.nc := by rw [← hs2]; exact ⟨rfl, rfl⟩
  have hloop : ∀ (l : List Nat) (i : Nat) (st : Sys), (forElems moveToEn v i l st).vars = st.vars ∧
      (forElems moveToEn v i l st).nv = st.nv ∧ (forElems moveToEn v i l st).nc = st.nc := by
    intro l
    induction l with
    | nil => intro i st; exact ⟨rfl, rfl, rfl⟩
    | cons c rest ih =>
      intro i st
      simp only [forElems]
      have a := ih (i+1) (moveToEn st c v i)
      have b : (moveToEn st c v i).nv = st.nv ∧ (moveToEn st c v i).nc = st.nc := by
        unfold moveToEn; simp only
        split
        · exact ⟨rfl, rfl⟩
        · split
          · split <;> exact ⟨rfl, rfl⟩
          · exact ⟨rfl, rfl⟩
      exact ⟨a.1.trans (moveToEn_vars _ _ _ _), a.2.1.trans b.1, a.2.2.trans b.2⟩
  have hm := umcsFromVar_markOnly (forElems moveToEn v 0 (s.vars v).cn s2) v
  have hl := hloop (s.vars v).cn 0 s2
  have hvars : ∀ u, { ((umcsFromVar (forElems moveToEn v 0 (s.vars v).cn s2) v).vars u) with visited := 0 }
      = { (if u = v then { s.vars v with pen := (s.vars v).staged, staged := 0 } else s.vars u) with visited := 0 } := by
    intro u
    rw [hm.vars u, hl.1, hv2]
  refine ⟨?_, ?_, ?_, ?_, ?_, ?_, ?_, by rw [hm.nv, hl.2.1, hn2.1], by rw [hm.nc, hl.2.2, hn2.2]⟩
  · intro u; have := congrArg Var.cn (hvars u); simp only at this; rw [this]; split
    · rename_i h; rw [h]
    · rfl
  · intro u; have := congrArg Var.alive (hvars u); simp only at this; rw [this]; split
    · rename_i h; rw [h]
    · rfl
  · have := congrArg Var.pen (hvars v); simpa using this
  · have := congrArg Var.staged (hvars v); simpa using this
  · intro u hu; have := congrArg Var.pen (hvars u); simpa [hu] using this
  · intro u hu; have := congrArg Var.staged (hvars u); simpa [hu] using this
  · intro u; have := congrArg Var.bound (hvars u); simp only at this; rw [this]; split
    · rename_i h; rw [h]
    · rfl

theorem WFl_enableVar {s : Sys} {loc : Loc} (v : Nat) (h : WFl s loc)
    (hl : ∀ j, j < (s.vars v).cn.length → loc v j = some false)
    (hnf : (enableVar s v).failed = false) : WFl (enableVar s v) (loc.all v (some true)) := by
  unfold enableVar at hnf ⊢
  simp only at hnf ⊢
  generalize hs2 : varsetFront (s.setV v { s.vars v with pen := (s.vars v).staged, staged := 0 }) v = s2 at hnf ⊢
  have hcn2 : ∀ u, (s2.vars u).cn = (s.vars u).cn := by
    intro u; rw [← hs2]; simp only [varsetFront, setV_vars]; split
    · rename_i hu; rw [hu]
    · rfl
  have hw2 : WFl s2 loc := h.frame (by rw [← hs2]; rfl) hcn2
  have hnf3 := umcsFromVar_sticky _ _ hnf
  have hcnv : (s2.vars v).cn = (s.vars v).cn := hcn2 v
  rw [← hcnv] at hnf3 ⊢
  have := WFl_forElems_moveToEn v hw2 (by rw [hcnv]; exact hl) hnf3
  refine (this.1.markOnly (umcsFromVar_markOnly _ _)).congr' ?_
  intro u j hj
  have hcnm := (umcsFromVar_markOnly (forElems moveToEn v 0 (s2.vars v).cn s2) v).cn u
  rw [hcnm, this.2] at hj
  simp only [Loc.all, Loc.upto]
  by_cases hu : u = v
  · subst hu; simp [hj]
  · simp [hu]

end SgVerif.LmmBook
