import SgVerif.LmmBook.WFExpand
/-
`WF` through every public operation and every history.  Core-only.
-/
namespace SgVerif.LmmBook

/-- two variables equal up to the `visited_` mark -/
def VEq (a b : Var) : Prop := { a with visited := 0 } = { b with visited := 0 }

theorem VEq.cn {a b : Var} (h : VEq a b) : a.cn = b.cn := by
  have h2 := congrArg Var.cn h
  exact h2
theorem VEq.alive {a b : Var} (h : VEq a b) : a.alive = b.alive := by
  have h2 := congrArg Var.alive h
  exact h2
theorem VEq.pen {a b : Var} (h : VEq a b) : a.pen = b.pen := by
  have h2 := congrArg Var.pen h
  exact h2
theorem VEq.staged {a b : Var} (h : VEq a b) : a.staged = b.staged := by
  have h2 := congrArg Var.staged h
  exact h2
theorem VEq.bound {a b : Var} (h : VEq a b) : a.bound = b.bound := by
  have h2 := congrArg Var.bound h
  exact h2

/-- only fields outside the element lists changed, and the variables only in their marks -/
theorem WF.frame' {s s' : Sys} (h : WF s)
    (hc : ∀ c, (s'.cnsts c).en = (s.cnsts c).en ∧ (s'.cnsts c).dis = (s.cnsts c).dis)
    (hv : ∀ u, VEq (s'.vars u) (s.vars u)) (hnv : s.nv ≤ s'.nv) (hnc : s.nc ≤ s'.nc) : WF s' := by
  have hl := h.wfl
  have hstd : ∀ u j, stdLoc s' u j = stdLoc s u j := by intro u j; simp only [stdLoc, (hv u).pen]
  apply WF.of
  · refine ⟨?_, ?_, ?_, ?_, ?_, ?_⟩
    · intro c e he; rw [(hc c).1] at he; rw [(hv _).cn, hstd]; exact hl.enA c e he
    · intro c e he; rw [(hc c).2] at he; rw [(hv _).cn, hstd]; exact hl.disA c e he
    · intro c; rw [(hc c).1]; exact hl.enK c
    · intro c; rw [(hc c).2]; exact hl.disK c
    · intro u j c hj hl'; rw [(hv _).cn] at hj; rw [hstd] at hl'; rw [(hc c).1]; exact hl.enD u j c hj hl'
    · intro u j c hj hl'; rw [(hv _).cn] at hj; rw [hstd] at hl'; rw [(hc c).2]; exact hl.disD u j c hj hl'
  · refine ⟨?_, ?_, ?_, ?_⟩
    · intro u hu; rw [(hv u).cn]; rw [(hv u).alive] at hu; exact h.so.dead u hu
    · intro u hu; rw [(hv u).alive] at hu; exact Nat.lt_of_lt_of_le (h.so.lt u hu) hnv
    · intro u c hc'; rw [(hv u).cn] at hc'; exact Nat.lt_of_lt_of_le (h.so.cnlt u c hc') hnc
    · intro u hu; rw [(hv u).pen]; rw [(hv u).staged] at hu; exact h.so.st u hu

/-- one variable changes in its penalty (without crossing 0), staged penalty, bound or mark -/
theorem WF.setV {s : Sys} (h : WF s) (v : Nat) (x : Var) (hcn : x.cn = (s.vars v).cn)
    (hal : x.alive = (s.vars v).alive) (hpen : x.pen ≠ 0 ↔ (s.vars v).pen ≠ 0) (hst : x.staged ≠ 0 → x.pen = 0) :
    WF (s.setV v x) := by
  have hl := h.wfl
  have hcn' : ∀ u, ((s.setV v x).vars u).cn = (s.vars u).cn := by
    intro u; simp only [setV_vars]; split
    · rename_i hu; rw [hu]; exact hcn
    · rfl
  have hstd : ∀ u j, stdLoc (s.setV v x) u j = stdLoc s u j := by
    intro u j
    simp only [stdLoc, setV_vars]
    split
    · rename_i hu; subst hu; simp only [hpen]
    · rfl
  apply WF.of
  · exact (hl.frame (s' := s.setV v x) rfl hcn').congr hstd
  · refine ⟨?_, ?_, ?_, ?_⟩
    · intro u hu
      rw [hcn']
      simp only [setV_vars] at hu
      by_cases hne : u = v
      · subst hne; simp only [if_true] at hu; rw [hal] at hu; exact h.so.dead u hu
      · simp only [hne, if_false] at hu; exact h.so.dead u hu
    · intro u hu
      simp only [setV_vars] at hu
      by_cases hne : u = v
      · subst hne; simp only [if_true] at hu; rw [hal] at hu; exact h.so.lt u hu
      · simp only [hne, if_false] at hu; exact h.so.lt u hu
    · intro u c hc; rw [hcn'] at hc; exact h.so.cnlt u c hc
    · intro u hu
      simp only [setV_vars] at hu ⊢
      by_cases hne : u = v
      · subst hne; simp only [if_true] at hu ⊢; exact hst hu
      · simp only [hne, if_false] at hu ⊢; exact h.so.st u hu

/-! ### the overflow path of `expand` -/

/-- `disable_var(var); for (elem : var->cnsts_) on_disabled_var(elem.constraint); var->staged_sharing_penalty_ = penalty` -/
def stageBack (s : Sys) (v : Nat) : Sys :=
  let penalty := (s.vars v).pen
  let s := disableVar s v
  let s := (s.vars v).cn.foldl onDisabledVar s
  s.setV v { s.vars v with staged := penalty }

/-- a variable that is neither enabled nor staged stays so through `on_disabled_var` -/
theorem onDisabledVar_idle (s : Sys) (c v : Nat) (h : (s.vars v).pen = 0 ∧ (s.vars v).staged = 0) :
    ((onDisabledVar s c).vars v).pen = 0 ∧ ((onDisabledVar s c).vars v).staged = 0 := by
  refine onDisabledVar_all (P := fun s => (s.vars v).pen = 0 ∧ (s.vars v).staged = 0) ?_ (fun _ h => h) s c h
  intro s w hs
  have hv := enableVar_vars s w
  by_cases hw : v = w
  · subst hw; exact ⟨by rw [hv.penv]; exact hs.2, hv.stagedv⟩
  · exact ⟨by rw [hv.pen v hw]; exact hs.1, by rw [hv.staged v hw]; exact hs.2⟩

theorem foldl_onDisabledVar_idle (v : Nat) : ∀ (l : List Nat) (s : Sys),
    ((s.vars v).pen = 0 ∧ (s.vars v).staged = 0) →
    (((l.foldl onDisabledVar s).vars v).pen = 0 ∧ ((l.foldl onDisabledVar s).vars v).staged = 0) := by
  intro l
  induction l with
  | nil => intro s h; exact h
  | cons c rest ih => intro s h; simp only [List.foldl_cons]; exact ih _ (onDisabledVar_idle s c v h)

theorem WF_foldl_onDisabledVar (l : List Nat) (s : Sys) (h : WF s) (hnf : (l.foldl onDisabledVar s).failed = false) :
    WF (l.foldl onDisabledVar s) := WFX_foldl_onDisabledVar l s h hnf

theorem WF_stageBack {s : Sys} (v : Nat) (h : WF s) (hpen : (s.vars v).pen ≠ 0)
    (hnf : (stageBack s v).failed = false) : WF (stageBack s v) := by
  unfold stageBack at hnf ⊢
  simp only at hnf ⊢
  have hnf2 : (((disableVar s v).vars v).cn.foldl onDisabledVar (disableVar s v)).failed = false := hnf
  have hnf1 := foldl_sticky onDisabledVar_sticky _ _ hnf2
  have h1 := WF_disableVar v h hpen hnf1
  have hv1 := disableVar_vars s v hnf1
  have h2 := WF_foldl_onDisabledVar _ _ h1 hnf2
  have hidle := foldl_onDisabledVar_idle v ((disableVar s v).vars v).cn (disableVar s v) ⟨hv1.penv, hv1.stagedv⟩
  refine WF.setV h2 v _ ?_ ?_ ?_ ?_
  · rfl
  · rfl
  · exact Iff.rfl
  · intro _; exact hidle.1

theorem WF_expandTail {s : Sys} (c v w' : Nat) (h : WF s) (hnf : (expandTail s c v w').failed = false) :
    WF (expandTail s c v w') := by
  unfold expandTail at hnf ⊢
  simp only at hnf ⊢
  generalize hs1 : (if (s.vars v).pen ≠ 0 then _ else s) = s1 at hnf ⊢
  have hnf1 : s1.failed = false := by
    split at hnf
    · split at hnf
      · exact umcs_sticky _ _ (umcsFromVar_sticky _ _ hnf)
      · exact umcs_sticky _ _ hnf
    · exact hnf
  have h1 : WF s1 := by
    rw [← hs1] at hnf1 ⊢
    split
    · rename_i hp
      rw [if_pos hp] at hnf1
      split
      · exact h
      · split
        · rename_i hlt
          rename_i lim hl
          rw [hl] at hnf1
          simp only [hlt, if_true] at hnf1
          exact WF_stageBack v h hp hnf1
        · exact h
    · exact h
  split
  · split
    · exact (h1.markOnly (umcs_markOnly _ _)).markOnly (umcsFromVar_markOnly _ _)
    · exact h1.markOnly (umcs_markOnly _ _)
  · exact h1

/-! ### `expand` -/

theorem idx_of_some {l : List Nat} {c i : Nat} {f : Bool} (h : (if f then none else l.idxOf? c) = some i) :
    l[i]? = some c := by
  split at h
  · cases h
  · obtain ⟨hlt, heq, _⟩ := List.idxOf?_eq_some_iff.mp h
    rw [List.getElem?_eq_getElem hlt, heq]

theorem WF_modflag {s : Sys} (h : WF s) (b : Bool) : WF { s with modflag := b } :=
  h.frame' (fun _ => ⟨rfl, rfl⟩) (fun _ => rfl) (Nat.le_refl _) (Nat.le_refl _)

theorem WF_makeActive {s : Sys} (h : WF s) (c : Nat) : WF (makeActive s c) := by
  unfold makeActive
  split
  · exact h
  · exact h.frame' (fun _ => ⟨rfl, rfl⟩) (fun _ => rfl) (Nat.le_refl _) (Nat.le_refl _)

theorem WF_expand {s : Sys} (c v w : Nat) (f : Bool) (h : WF s) (hc : c < s.nc) (hal : (s.vars v).alive = true)
    (hnf : (expand s c v w f).failed = false) : WF (expand s c v w f) := by
  unfold expand at hnf ⊢
  simp only at hnf ⊢
  have h0 : WF { s with modflag := true } := WF_modflag h true
  split
  · rename_i i hi
    have hcn : (s.vars v).cn[i]? = some c := idx_of_some hi
    rw [hi] at hnf
    simp only at hnf
    split
    · rename_i hp
      rw [if_pos hp] at hnf
      split
      · rename_i he; rw [he] at hnf; simp [Sys.fail] at hnf
      · rename_i e he
        rw [he] at hnf
        simp only at hnf
        split
        · rename_i hlt; simp only [hlt, if_true] at hnf; simp [Sys.fail] at hnf
        · rename_i hlt
          simp only [hlt, if_false] at hnf
          apply WF_expandTail _ _ _ _ hnf
          exact WF_setW h0 c v i _ hcn (Or.inr ⟨rfl, _, e, he, rfl⟩)
    · rename_i hp
      rw [if_neg hp] at hnf
      split
      · rename_i he; rw [he] at hnf; simp [Sys.fail] at hnf
      · rename_i e he
        rw [he] at hnf
        simp only at hnf
        apply WF_expandTail _ _ _ _ hnf
        exact WF_setW h0 c v i _ hcn (Or.inl ⟨rfl, _, e, he, rfl⟩)
  · rename_i hi
    rw [hi] at hnf
    simp only at hnf
    apply WF_expandTail _ _ _ _ hnf
    have hcr := WF_create h0 c v w ((s.cnsts c).cur + conc (s.cnsts c).policy w) hal hc
    split
    · apply WF_makeActive
      exact hcr
    · exact hcr

/-! ### the other operations -/

theorem WF_updatePenalty {s : Sys} (v p : Nat) (h : WF s) (hnf : (updatePenalty s v p).failed = false) :
    WF (updatePenalty s v p) := by
  unfold updatePenalty at hnf ⊢
  simp only at hnf ⊢
  have h0 : WF { s with modflag := true } := WF_modflag h true
  split
  · exact h
  · rename_i hne
    rw [if_neg hne] at hnf
    split
    · rename_i hc
      rw [if_pos hc] at hnf
      have h1 : WF (({ s with modflag := true } : Sys).setV v { s.vars v with staged := p }) := by
        refine WF.setV h0 v _ ?_ ?_ ?_ ?_
        · rfl
        · rfl
        · exact Iff.rfl
        · intro _; exact hc.2
      split
      · exact h1
      · rename_i hms
        rw [if_neg hms] at hnf
        apply WFX_enableVar v h1 _ hnf
        simp only [setV_vars, if_true]
        omega
    · rename_i hc
      rw [if_neg hc] at hnf
      split
      · rename_i hc2
        rw [if_pos hc2] at hnf
        have hpen : (({ s with modflag := true } : Sys).vars v).pen ≠ 0 := by
          show (s.vars v).pen ≠ 0
          omega
        split
        · rename_i hfix
          rw [if_pos hfix] at hnf
          have hnf1 := foldl_sticky onDisabledVar_sticky _ _ hnf
          exact WF_foldl_onDisabledVar _ _ (WF_disableVar v h0 hpen hnf1) hnf
        · rename_i hfix
          rw [if_neg hfix] at hnf
          exact WF_disableVar v h0 hpen hnf
      · rename_i hc2
        apply WF.markOnly _ (umcsFromVar_markOnly _ _)
        refine WF.setV h0 v _ ?_ ?_ ?_ ?_
        · rfl
        · rfl
        · show p ≠ 0 ↔ (s.vars v).pen ≠ 0
          omega
        · intro hs
          have := h.so.st v hs
          exfalso
          omega

theorem WF_updateVarBound {s : Sys} (v : Nat) (b : Int) (h : WF s) : WF (updateVarBound s v b) := by
  unfold updateVarBound
  simp only
  apply WF.markOnly _ (foldl_umcs_markOnly _ _)
  refine WF.setV (WF_modflag h true) v _ ?_ ?_ ?_ ?_
  · rfl
  · rfl
  · exact Iff.rfl
  · exact h.so.st v

theorem WF_updateCnstBound {s : Sys} (c : Nat) (b : Int) (h : WF s) : WF (updateCnstBound s c b) := by
  unfold updateCnstBound
  simp only
  have h1 : WF (umcs { s with modflag := true } c) := (WF_modflag h true).markOnly (umcs_markOnly _ _)
  refine h1.frame' ?_ (fun _ => rfl) (Nat.le_refl _) (Nat.le_refl _)
  intro c'
  simp only [setC_cnsts]
  split
  · rename_i hc; rw [hc]; exact ⟨rfl, rfl⟩
  · exact ⟨rfl, rfl⟩

theorem WF_solveOp {s : Sys} (h : WF s) : WF (solveOp s) := by
  unfold solveOp
  split
  · exact h
  · simp only
    split
    · unfold removeAllModified
      simp only
      refine h.frame' ?_ ?_ ?_ ?_
      · intro c; split <;> split <;> exact ⟨rfl, rfl⟩
      · intro u
        split <;> split
        all_goals first
          | rfl
          | (simp only [resetVisited, VEq]; split <;> rfl)
      · split <;> split <;> exact Nat.le_refl _
      · split <;> split <;> exact Nat.le_refl _
    · exact WF_modflag h false

theorem vnew_vars (s : Sys) (p : Nat) (b : Int) (u : Nat) :
    (vnew s p b).vars u =
      if u = s.nv then { alive := true, pen := p, staged := 0, bound := b, cn := [], visited := (s.counter + U32 - 1) % U32 }
      else s.vars u := rfl

theorem WF_vnew {s : Sys} (p : Nat) (b : Int) (h : WF s) : WF (vnew s p b) := by
  have hdead : (s.vars s.nv).alive = false := by
    cases ha : (s.vars s.nv).alive with
    | false => rfl
    | true => exact absurd (h.so.lt _ ha) (Nat.lt_irrefl _)
  have hcn0 : (s.vars s.nv).cn = [] := h.so.dead _ hdead
  have hl := h.wfl
  have hcn' : ∀ u, ((vnew s p b).vars u).cn = (s.vars u).cn := by
    intro u; rw [vnew_vars]; split
    · rename_i hu; rw [hu, hcn0]
    · rfl
  apply WF.of
  · refine (hl.frame (s' := vnew s p b) rfl hcn').congr' ?_
    intro u j hj
    rw [hcn'] at hj
    simp only [stdLoc, vnew_vars]
    split
    · rename_i hu; rw [hu, hcn0] at hj; exact absurd hj (Nat.not_lt_zero _)
    · rfl
  · refine ⟨?_, ?_, ?_, ?_⟩
    · intro u hu
      rw [hcn']
      rw [vnew_vars] at hu
      by_cases hne : u = s.nv
      · rw [hne]; exact hcn0
      · simp only [hne, if_false] at hu; exact h.so.dead u hu
    · intro u hu
      rw [vnew_vars] at hu
      show u < s.nv + 1
      by_cases hne : u = s.nv
      · omega
      · simp only [hne, if_false] at hu; have := h.so.lt u hu; omega
    · intro u c hc; rw [hcn'] at hc; exact h.so.cnlt u c hc
    · intro u hu
      rw [vnew_vars] at hu ⊢
      by_cases hne : u = s.nv
      · simp only [hne, if_true] at hu; exact absurd rfl hu
      · simp only [hne, if_false] at hu ⊢; exact h.so.st u hu

theorem WF_cnew {s : Sys} (b : Int) (l : Option Nat) (p : Policy) (h : WF s) : WF (cnew s b l p) := by
  have hl := h.wfl
  have hen : (s.cnsts s.nc).en = [] := by
    apply List.eq_nil_iff_forall_not_mem.mpr
    intro e he
    have := (hl.enA _ e he).1
    have hm : s.nc ∈ (s.vars e.var).cn := List.mem_iff_getElem?.mpr ⟨_, this⟩
    exact absurd (h.so.cnlt _ _ hm) (Nat.lt_irrefl _)
  have hdis : (s.cnsts s.nc).dis = [] := by
    apply List.eq_nil_iff_forall_not_mem.mpr
    intro e he
    have := (hl.disA _ e he).1
    have hm : s.nc ∈ (s.vars e.var).cn := List.mem_iff_getElem?.mpr ⟨_, this⟩
    exact absurd (h.so.cnlt _ _ hm) (Nat.lt_irrefl _)
  unfold cnew
  refine h.frame' ?_ (fun _ => rfl) (Nat.le_refl _) (Nat.le_succ _)
  intro c
  simp only [setC_cnsts]
  split
  · rename_i hc; rw [hc, hen, hdis]; exact ⟨rfl, rfl⟩
  · exact ⟨rfl, rfl⟩

/-! ### `step` and `run` -/

theorem step_sticky (s : Sys) (op : Op) : (step s op).failed = false → s.failed = false := by
  intro h
  cases hf : s.failed with
  | false => rfl
  | true => unfold step at h; simp [hf] at h

theorem WF_step {s : Sys} (op : Op) (h : WF s) (hnf : (step s op).failed = false) : WF (step s op) := by
  unfold step at hnf ⊢
  split
  · exact h
  · rename_i hv
    simp only [hv] at hnf
    have hvalid : op.valid s = true := by
      cases hh : op.valid s with
      | true => rfl
      | false => simp [hh] at hv
    cases op with
    | cnew b l p => exact WF_cnew b l p h
    | vnew p b => exact WF_vnew p b h
    | expand c v w f =>
      simp only [Op.valid, liveC, liveV, Bool.and_eq_true, decide_eq_true_eq] at hvalid
      exact WF_expand c v w f h hvalid.1 hvalid.2.2 hnf
    | vfree v => exact WF_varFree v h hnf
    | vbound v b => exact WF_updateVarBound v b h
    | vpen v p => exact WF_updatePenalty v p h hnf
    | cbound c b => exact WF_updateCnstBound c b h
    | solve => exact WF_solveOp h

/-- generic: an invariant of non-failed states that every non-failing step preserves holds after every history
that did not fail -/
theorem run_inv {Q : Sys → Prop} (hstep : ∀ s op, Q s → (step s op).failed = false → Q (step s op)) :
    ∀ (hist : List Op) (s : Sys), Q s → (run s hist).failed = false → Q (run s hist) := by
  intro hist
  induction hist with
  | nil => intro s h _; exact h
  | cons op rest ih =>
    intro s h hnf
    unfold run at hnf ⊢
    simp only [List.foldl_cons] at hnf ⊢
    have hnf1 : (step s op).failed = false := by
      have : ∀ (l : List Op) (s : Sys), (l.foldl step s).failed = false → s.failed = false := by
        intro l
        induction l with
        | nil => intro s h; exact h
        | cons o r ih2 => intro s h; simp only [List.foldl_cons] at h; exact step_sticky _ _ (ih2 _ h)
      exact this _ _ hnf
    exact ih _ (hstep s op h hnf1) hnf

theorem WF_init (cfg : Cfg) (sel : Bool) : WF (init cfg sel) := by
  apply WF.of
  · refine ⟨?_, ?_, ?_, ?_, ?_, ?_⟩
    · intro c e he; simp [init] at he
    · intro c e he; simp [init] at he
    · intro c; simp [init]
    · intro c; simp [init]
    · intro v j c hj; simp [init] at hj
    · intro v j c hj; simp [init] at hj
  · refine ⟨?_, ?_, ?_, ?_⟩
    · intro v _; rfl
    · intro v hv; simp [init] at hv
    · intro v c hc; simp [init] at hc
    · intro v hv; simp [init] at hv

/-- **well-formedness over all histories**: after ANY history of public operations (force_creation included, any
configuration) in which no assertion fired, the element lists are well-formed -/
theorem run_WF (cfg : Cfg) (sel : Bool) (hist : List Op) (hnf : (run (init cfg sel) hist).failed = false) :
    WF (run (init cfg sel) hist) :=
  run_inv (Q := WF) (fun _ op h hn => WF_step op h hn) hist _ (WF_init cfg sel) hnf

end SgVerif.LmmBook
