import SgVerif.LmmBook.Model
import SgVerif.Common.Proto
/-
Replay of harness lines on the bookkeeping model (shared by drv_C17 and drv_C18).

Harness line:   `<op tokens> => <dump tokens>`       (props/_shared/lmmbook/harness.cpp documents both)
dump tokens:    F0|F1  n<nv>,<nc>  k<counter>  m<modified_>  VS<v;..>  A<c;..>  M<c;..>
                C<id>|<cur>|<limit or ->|<slack or inf>|<v.i.w;..enabled>|<v.i.w;..disabled>      per constraint
                V<id>|<pen>|<staged>|<visited>|<c;..>   or   V<id>|x  (freed)                      per variable
                X<id>|<value selective>|<value fresh>   (C17 only, after a solve; rationals n/d)
-/
open SgVerif.Proto
namespace SgVerif.LmmBook

def joinNat (sep : String) (l : List Nat) : String := sep.intercalate (l.map toString)

def renderEntries (l : List Entry) : String := ";".intercalate (l.map fun e => s!"{e.var}.{e.idx}.{e.w}")

def renderC (s : Sys) (c : Nat) : String :=
  let k := s.cnsts c
  let lim := match k.limit with | none => "-" | some l => toString l
  let sl := match slack k with | none => "inf" | some x => toString x
  s!"C{c}|{k.cur}|{lim}|{sl}|{renderEntries k.en}|{renderEntries k.dis}"

def renderV (s : Sys) (v : Nat) : String :=
  let x := s.vars v
  if x.alive then s!"V{v}|{x.pen}|{x.staged}|{x.visited}|{joinNat ";" x.cn}" else s!"V{v}|x"

def render (s : Sys) : List String :=
  if s.failed then ["F1"] else
  ["F0", s!"n{s.nv},{s.nc}", s!"k{s.counter}", s!"m{if s.modflag then 1 else 0}",
   "VS" ++ joinNat ";" s.varset, "A" ++ joinNat ";" s.active, "M" ++ joinNat ";" s.modified]
  ++ (List.range s.nc).map (renderC s) ++ (List.range s.nv).map (renderV s)

/-- rebuild the two maps from arrays: same function on the ids in use, but lookups no longer walk the chain of
closures built by `setC`/`setV` (driver speed only) -/
def compact (s : Sys) : Sys :=
  let va := Array.ofFn (n := s.nv) (fun i => s.vars i.val)
  let ca := Array.ofFn (n := s.nc) (fun i => s.cnsts i.val)
  { s with vars := fun i => va.getD i {}, cnsts := fun i => ca.getD i {} }

def parsePolicy : String → Option Policy
  | "S" => some .shared | "F" => some .fatpipe | "W" => some .wifi | _ => none

def parseLimit (t : String) : Option (Option Nat) :=
  if t = "-1" then some none else t.toNat?.map some

def parseOp : List String → Option Op
  | ["cnew", b, l, p] => do return .cnew (← b.toInt?) (← parseLimit l) (← parsePolicy p)
  | ["vnew", p, b] => do return .vnew (← p.toNat?) (← b.toInt?)
  | ["expand", c, v, w, f] => do return .expand (← c.toNat?) (← v.toNat?) (← w.toNat?) (f == "1")
  | ["vfree", v] => do return .vfree (← v.toNat?)
  | ["vbound", v, b] => do return .vbound (← v.toNat?) (← b.toInt?)
  | ["vpen", v, p] => do return .vpen (← v.toNat?) (← p.toNat?)
  | ["cbound", c, b] => do return .cbound (← c.toNat?) (← b.toInt?)
  | ["solve"] => some .solve
  | _ => none

def parseCfg (t : String) : Option Cfg :=
  match t.toList with
  | [a, b, c] => some ⟨a == '1', b == '1', c == '1'⟩
  | _ => none

/-! ### observations parsed back from the implementation's dump (for the monitors) -/

structure ObsC where
  id : Nat
  cur : Nat
  lim : Option Nat
  enW : List Nat           -- weights of the enabled elements
  deriving Repr

structure ObsV where
  id : Nat
  alive : Bool
  pen : Nat
  staged : Nat
  cn : List Nat
  deriving Repr

def splitNats (t : String) (sep : String) : Option (List Nat) :=
  if t.isEmpty then some [] else (t.splitOn sep).mapM String.toNat?

def parseEntryW (t : String) : Option Nat :=
  match t.splitOn "." with
  | [_, _, w] => w.toNat?
  | _ => none

def parseObsC (t : String) : Option ObsC :=
  match (t.drop 1).toString.splitOn "|" with
  | [id, cur, lim, _sl, en, _dis] => do
    let ws ← if en.isEmpty then some [] else (en.splitOn ";").mapM parseEntryW
    let lim ← if lim = "-" then some none else lim.toNat?.map some
    return { id := ← id.toNat?, cur := ← cur.toNat?, lim := lim, enW := ws }
  | _ => none

def parseObsV (t : String) : Option ObsV :=
  match (t.drop 1).toString.splitOn "|" with
  | [id, "x"] => do return { id := ← id.toNat?, alive := false, pen := 0, staged := 0, cn := [] }
  | [id, pen, staged, _vis, cn] => do
    return { id := ← id.toNat?, alive := true, pen := ← pen.toNat?, staged := ← staged.toNat?, cn := ← splitNats cn ";" }
  | _ => none

def obsOf (a : List String) : List ObsC × List ObsV :=
  (a.filterMap (fun t => if t.startsWith "C" then parseObsC t else none),
   a.filterMap (fun t => if t.startsWith "V" && !t.startsWith "VS" then parseObsV t else none))

/-- C18 monitor, clause 1 and 2, on the implementation's observation: the counter equals the sum of
`get_concurrency` over the enabled elements, and never exceeds the limit.  `pol` gives the sharing policy chosen
at creation (an input, not a behaviour). -/
def monCounters (pol : Nat → Policy) (cs : List ObsC) : Option String :=
  cs.findSome? fun c =>
    let sum := (c.enW.map (conc (pol c.id))).sum
    if c.cur ≠ sum then some s!"concurrency_current_ of constraint {c.id} is {c.cur}, the enabled elements count {sum}"
    else match c.lim with
      | some l => if l < c.cur then some s!"constraint {c.id} has concurrency {c.cur} above its limit {l}" else none
      | none => none

/-- C18 monitor, clause 3: staged variables (staged penalty > 0) all of whose constraints have a free slot -/
def starving (cs : List ObsC) (vs : List ObsV) : List Nat :=
  (vs.filter fun v => v.alive && decide (0 < v.staged) &&
      !(v.cn.any fun c => cs.any fun k => k.id == c && (match k.lim with | some l => decide (l ≤ k.cur) | none => false))).map (·.id)

/-! ### C17: closure of the modified set (evaluated on the model state, used to classify) -/

def closedB (s : Sys) : Bool :=
  s.modified.all fun c => (s.cnsts c).en.all fun e => (s.vars e.var).cn.all fun c2 => c2 ∈ s.modified

/-- values `n/d`, compared with relative tolerance 1e-9 (absolute 1e-12), on integers -/
def parseFrac (t : String) : Option (Int × Nat) :=
  match t.splitOn "/" with
  | [n, d] => do
    let d ← d.toNat?
    if d = 0 then none else return (← n.toInt?, d)
  | [n] => n.toInt?.map (·, 1)
  | _ => none

def closeEnough (a b : Int × Nat) : Bool :=
  let (n1, d1) := a
  let (n2, d2) := b
  let x := n1 * d2
  let y := n2 * d1
  let diff := (x - y).natAbs
  let scale := max (max x.natAbs y.natAbs) ((d1 * d2) / 1000)
  decide (diff * 1000000000 ≤ scale)

def parseX (t : String) : Option (Nat × (Int × Nat) × (Int × Nat)) :=
  match (t.drop 1).toString.splitOn "|" with
  | [id, a, b] => do return (← id.toNat?, ← parseFrac a, ← parseFrac b)
  | _ => none

end SgVerif.LmmBook

namespace SgVerif.LmmBook
open SgVerif.Proto

structure DrvState where
  s : Sys := init Cfg.current false
  starv : List Nat := []          -- C18: variables already reported as starving in this case
  cause : Option String := none   -- C17: why the model's modified set stopped being closed since the last solve
  taint : Option String := none   -- C17: key of the first value mismatch of this case (stale values persist afterwards)

def hasDup : List Nat → Bool
  | [] => false
  | c :: l => l.contains c || hasDup l

/-- classification key of a new starvation (C18), from the operation that produced it -/
def starveKey (pre : Sys) (op : Option Op) (vs : List Nat) : String :=
  -- a system that holds a force_creation duplicate (a variable attached twice to one constraint) is in the class of the
  -- registered finding whatever operation exposes the starvation (the theorem `staged_implies_some_full` excludes
  -- exactly the histories with a forced expand): test this first, the repaired suspend path second
  let dup := vs.any (fun v => hasDup (pre.vars v).cn) || (List.range pre.nv).any (fun v => hasDup (pre.vars v).cn)
  match op with
  | some (.expand _ _ _ true) => "force-creation-duplicate"
  | _ =>
    if dup then "force-creation-duplicate" else
    match op with
    | some (.vpen v 0) => if 0 < (pre.vars v).pen then "suspend-no-reexamine" else "unclassified"
    | _ => "unclassified"

/-- classification of a closure break of the model's modified set (C17) -/
def staleMark (s : Sys) (v : Nat) : Bool :=
  (s.vars v).alive && (s.vars v).visited == s.counter && !((s.vars v).cn.all fun c => c ∈ s.modified)

/-- the same state with the stale marks (marks equal to the counter on variables whose constraints are not all in
the modified set) replaced by a value different from the counter -/
def sanitize (s : Sys) : Sys :=
  { s with vars := fun v => if staleMark s v then { s.vars v with visited := (s.counter + U32 - 1) % U32 } else s.vars v }

def closureCause (pre : Sys) (op : Op) : String :=
  let alt := step { pre with cfg := { pre.cfg with fixFromVar := true } } op
  if (List.range pre.nv).any (staleMark pre) && closedB (step (sanitize pre) op) then "visited-counter-zero"
  else if closedB alt then "modified-set-not-closed-when-cnst-already-marked"
  else "unclassified"

/-- one harness line.  `c17 = false`: monitors of C18 (counters, limits, starvation); `c17 = true`: monitor of C17
(selective values = fresh values). -/
def judge (c17 : Bool) (st : DrvState) (q a : List String) : DrvState × Verdict :=
  let pre := st.s
  let parsed : Option (Sys × Option Op × Bool) :=
    match q with
    | ["new", sel, cfg] => (parseCfg cfg).map fun cfg => (init cfg (sel == "1"), none, true)
    | ["setctr", n] => n.toNat?.map fun n => ({ pre with counter := n % U32 }, none, false)
    | _ => (parseOp q).bind fun op => if op.valid pre || pre.failed then some (step pre op, some op, false) else none
  match parsed with
  | none => (st, .bad)
  | some (s', op, fresh) =>
    let s' := compact s'
    let xs := a.filter (·.startsWith "X")
    let a' := a.filter (fun t => !t.startsWith "X")
    let model := render s'
    let (cs, vs) := obsOf a'
    let starvNow := starving cs vs
    let newStarv := starvNow.filter (fun v => !(if fresh then [] else st.starv).contains v)
    -- C17 bookkeeping: remember the first closure break of the interval; a solve (or a new case) clears it
    let cause :=
      if fresh then none else
      match op with
      | some .solve => if pre.modflag then none else st.cause
      | some o => if st.cause.isNone && closedB pre && !closedB s' then some (closureCause pre o) else st.cause
      | none => st.cause
    let st' : DrvState := { s := s', starv := starvNow, cause := cause, taint := if fresh then none else st.taint }
    if a' = ["F1"] then (st', cmpAns model a') else
    if !c17 then
      match monCounters (fun c => (s'.cnsts c).policy) cs with
      | some r => (st', .monfail s!"key=counter {r}")
      | none =>
        if !newStarv.isEmpty then
          (st', .monfail s!"key={starveKey pre op newStarv} staged variable(s) {newStarv} have a free slot on every constraint they use")
        else (st', cmpAns model a')
    else
      let bad := xs.filterMap fun t => match parseX t with
        | some (id, x, y) => if closeEnough x y then none else some s!"v{id}:{t}"
        | none => some s!"unparsable:{t}"
      if !bad.isEmpty then
        let key := match st.cause, st'.taint with
          | some k, _ => k
          | none, some k => k          -- values left stale by the earlier mismatch of this case
          | none, none => "unclassified"
        ({ st' with taint := some key }, .monfail s!"key={key} selective update and a fresh system disagree on {bad}")
      else (st', cmpAns model a')

end SgVerif.LmmBook
