import SgVerif.LmmBook.Frame
/-
`failed` is sticky: no internal function of the bookkeeping model ever resets it.  Hence "the result did not
fail" implies "no intermediate state failed", which is how all invariants of the form `failed = false → …` are
carried through sequences and loops.  Core-only.
-/
namespace SgVerif.LmmBook

theorem fail_failed (s : Sys) : s.fail.failed = true := rfl
@[simp] theorem setC_failed (s : Sys) (c : Nat) (x : Cnst) : (s.setC c x).failed = s.failed := rfl
@[simp] theorem setV_failed (s : Sys) (v : Nat) (x : Var) : (s.setV v x).failed = s.failed := rfl

theorem forElems_sticky {f : Sys → Nat → Nat → Nat → Sys}
    (hf : ∀ s c v i, (f s c v i).failed = false → s.failed = false) (v : Nat) :
    ∀ (l : List Nat) (i : Nat) (s : Sys), (forElems f v i l s).failed = false → s.failed = false := by
  intro l
  induction l with
  | nil => intro i s h; simpa [forElems] using h
  | cons c rest ih => intro i s h; simp only [forElems] at h; exact hf _ c v i (ih _ _ h)

theorem foldl_sticky {α : Type} {f : Sys → α → Sys} (hf : ∀ s a, (f s a).failed = false → s.failed = false) :
    ∀ (l : List α) (s : Sys), (l.foldl f s).failed = false → s.failed = false := by
  intro l
  induction l with
  | nil => intro s h; simpa using h
  | cons a rest ih => intro s h; simp only [List.foldl_cons] at h; exact hf _ a (ih _ h)

theorem umcsInner_sticky {recur : Sys → Nat → Sys} (hr : ∀ s c, (recur s c).failed = false → s.failed = false)
    (c v : Nat) : ∀ (l : List Nat) (s : Sys), (umcsInner recur c v l s).failed = false → s.failed = false := by
  intro l
  induction l with
  | nil => intro s h; simpa [umcsInner] using h
  | cons c2 rest ih =>
    intro s h
    simp only [umcsInner] at h
    split at h
    · exact h
    · split at h
      · have h1 := hr _ c2 (ih _ h); exact h1
      · exact ih _ h

theorem umcsEntries_sticky {recur : Sys → Nat → Sys} (hr : ∀ s c, (recur s c).failed = false → s.failed = false)
    (c : Nat) : ∀ (l : List Entry) (s : Sys), (umcsEntries recur c l s).failed = false → s.failed = false := by
  intro l
  induction l with
  | nil => intro s h; simpa [umcsEntries] using h
  | cons e rest ih =>
    intro s h
    simp only [umcsEntries] at h
    have h1 := ih _ h
    have h2 : (umcsInner recur c e.var (s.vars e.var).cn s).failed = false := h1
    exact umcsInner_sticky hr c e.var _ s h2

theorem umcsRec_sticky : ∀ (n : Nat) (s : Sys) (c : Nat), (umcsRec n s c).failed = false → s.failed = false := by
  intro n
  induction n with
  | zero => intro s c h; simp [umcsRec, Sys.fail] at h
  | succ n ih => intro s c h; simp only [umcsRec] at h; exact umcsEntries_sticky ih c _ s h

theorem umcs_sticky (s : Sys) (c : Nat) : (umcs s c).failed = false → s.failed = false := by
  intro h
  simp only [umcs] at h
  split at h
  · have := umcsRec_sticky _ _ c h; exact this
  · exact h

theorem umcsFromVar_sticky (s : Sys) (v : Nat) : (umcsFromVar s v).failed = false → s.failed = false := by
  intro h
  simp only [umcsFromVar] at h
  split at h
  · exact h
  · split at h
    · exact foldl_sticky umcs_sticky _ s h
    · split at h
      · exact umcs_sticky s _ h
      · exact h

theorem moveToEn_sticky (s : Sys) (c v i : Nat) : (moveToEn s c v i).failed = false → s.failed = false := by
  intro h
  simp only [moveToEn] at h
  split at h
  · simp [Sys.fail] at h
  · split at h
    · split at h
      · simp [Sys.fail] at h
      · exact h
    · exact h

theorem moveToDis_sticky (s : Sys) (c v i : Nat) : (moveToDis s c v i).failed = false → s.failed = false := by
  intro h
  simp only [moveToDis] at h
  split at h
  · simp [Sys.fail] at h
  · split at h
    · simp [Sys.fail] at h
    · exact h

theorem enableVar_sticky (s : Sys) (v : Nat) : (enableVar s v).failed = false → s.failed = false := by
  intro h
  simp only [enableVar] at h
  have h1 := umcsFromVar_sticky _ v h
  have := forElems_sticky moveToEn_sticky v _ _ _ h1
  exact this

theorem disableVar_sticky (s : Sys) (v : Nat) : (disableVar s v).failed = false → s.failed = false := by
  intro h
  simp only [disableVar] at h
  split at h
  · simp [Sys.fail] at h
  · have h1 : (forElems moveToDis v 0 (umcsFromVar (varsetBack s v) v |>.vars v).cn (umcsFromVar (varsetBack s v) v)).failed = false := h
    have h2 := forElems_sticky moveToDis_sticky v _ _ _ h1
    have := umcsFromVar_sticky _ v h2
    exact this

/-- the list `on_disabled_var` continues with (see `odvWalk`) -/
def odvAfter (en : Bool) (e : Entry) (after : List Entry) : List Entry :=
  match after with
  | [] => []
  | nx :: _ => if en && nx.var == e.var then [] else if en then after.filter (fun y => y.var != e.var) else after

/-- the part of one iteration of `on_disabled_var` after the `can_enable`/`enable_var` -/
def odvRest (c n : Nat) (after' : List Entry) (s1 : Sys) : Sys :=
  match (s1.cnsts c).limit with
  | none => s1
  | some lim =>
    if lim < (s1.cnsts c).cur then s1.fail
    else if (s1.cnsts c).cur = lim then s1
    else odvWalk c n after' s1

theorem odvWalk_cons (c n : Nat) (e : Entry) (after : List Entry) (s : Sys) :
    odvWalk c (n+1) (e :: after) s
      = odvRest c n (odvAfter (canEnable s e.var) e after) (if canEnable s e.var then enableVar s e.var else s) := rfl

theorem odvWalk_sticky (c : Nat) : ∀ (n : Nat) (l : List Entry) (s : Sys),
    (odvWalk c n l s).failed = false → s.failed = false := by
  intro n
  induction n with
  | zero => intro l s h; simpa [odvWalk] using h
  | succ n ih =>
    intro l s h
    cases l with
    | nil => simpa [odvWalk] using h
    | cons e after =>
      rw [odvWalk_cons] at h
      have h1 : (if canEnable s e.var then enableVar s e.var else s).failed = false := by
        generalize (if canEnable s e.var then enableVar s e.var else s) = s1 at h
        unfold odvRest at h
        split at h
        · exact h
        · split at h
          · simp [Sys.fail] at h
          · split at h
            · exact h
            · exact ih _ _ h
      split at h1
      · exact enableVar_sticky s _ h1
      · exact h1

theorem odvRest_sticky (c n : Nat) (l : List Entry) (s1 : Sys) :
    (odvRest c n l s1).failed = false → s1.failed = false := by
  intro h
  unfold odvRest at h
  split at h
  · exact h
  · split at h
    · simp [Sys.fail] at h
    · split at h
      · exact h
      · exact odvWalk_sticky _ _ _ _ h

theorem onDisabledVar_sticky (s : Sys) (c : Nat) : (onDisabledVar s c).failed = false → s.failed = false := by
  intro h
  simp only [onDisabledVar] at h
  split at h
  · exact h
  · exact odvWalk_sticky c _ _ s h

theorem makeActive_failed (s : Sys) (c : Nat) : (makeActive s c).failed = s.failed := by
  unfold makeActive; split <;> rfl

theorem expandTail_sticky (s : Sys) (c v w' : Nat) : (expandTail s c v w').failed = false → s.failed = false := by
  intro h
  unfold expandTail at h
  simp only at h
  generalize hs1 : (if (s.vars v).pen ≠ 0 then _ else s) = s1 at h
  have h1 : s1.failed = false := by
    split at h
    · split at h
      · exact umcs_sticky _ _ (umcsFromVar_sticky _ _ h)
      · exact umcs_sticky _ _ h
    · exact h
  rw [← hs1] at h1
  split at h1
  · split at h1
    · exact h1
    · split at h1
      · have h2 : (List.foldl onDisabledVar (disableVar s v) ((disableVar s v).vars v).cn).failed = false := h1
        exact disableVar_sticky _ _ (foldl_sticky onDisabledVar_sticky _ _ h2)
      · exact h1
  · exact h1

theorem freeElem_sticky (s : Sys) (c v i : Nat) : (freeElem s c v i).failed = false → s.failed = false := by
  intro h
  unfold freeElem at h
  simp only at h
  split at h
  · split at h
    · simp [Sys.fail] at h
    · split at h
      · exact h
      · have := onDisabledVar_sticky _ _ h; exact this
  · split at h
    · exact h
    · have := onDisabledVar_sticky _ _ h; exact this
  · simp [Sys.fail] at h

end SgVerif.LmmBook
