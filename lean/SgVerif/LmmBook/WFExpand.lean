import SgVerif.LmmBook.WFStep
/-
`WF` through `expand` (reuse of an element, creation of an element, the overflow path
`disable_var` → `on_disabled_var` → stage), `update_variable_penalty`, the bound setters, `solve`,
`variable_new`, `constraint_new`; then through `step` and `run`.  Core-only.
-/
namespace SgVerif.LmmBook

theorem WF.markOnly {s s' : Sys} (h : WF s) (hm : MarkOnly s s') : WF s' := WFX.markOnly h hm

/-- only fields outside the element lists and the variables changed -/
theorem WF.frame {s s' : Sys} (h : WF s) (hc : ∀ c, (s'.cnsts c).en = (s.cnsts c).en ∧ (s'.cnsts c).dis = (s.cnsts c).dis)
    (hv : s'.vars = s.vars) (hd : Dims s s') : WF s' := by
  have hl := h.wfl
  apply WF.of
  · refine ⟨?_, ?_, ?_, ?_, ?_, ?_⟩
    · intro c e he; rw [(hc c).1] at he; rw [hv]; have := hl.enA c e he; exact ⟨this.1, by simpa [stdLoc, hv] using this.2⟩
    · intro c e he; rw [(hc c).2] at he; rw [hv]; have := hl.disA c e he; exact ⟨this.1, by simpa [stdLoc, hv] using this.2⟩
    · intro c; rw [(hc c).1]; exact hl.enK c
    · intro c; rw [(hc c).2]; exact hl.disK c
    · intro u j c hj hl'; rw [hv] at hj; rw [(hc c).1]; exact hl.enD u j c hj (by simpa [stdLoc, hv] using hl')
    · intro u j c hj hl'; rw [hv] at hj; rw [(hc c).2]; exact hl.disD u j c hj (by simpa [stdLoc, hv] using hl')
  · exact h.so.frame hd (fun u => by rw [hv]) (fun u => by rw [hv]) (fun u hu => by rw [hv] at hu ⊢; exact h.so.st u hu)

/-! ### `setW` -/

theorem mem_setW_sub (v i w : Nat) : ∀ (l : List Entry) (x : Entry), x ∈ setW v i w l → isRef v i x = false → x ∈ l := by
  intro l
  induction l with
  | nil => intro x hx; simp [setW] at hx
  | cons y rest ih =>
    intro x hx hr
    simp only [setW] at hx
    split at hx
    · rename_i hy
      rcases List.mem_cons.mp hx with h1 | h1
      · exfalso
        have : isRef v i x = true := by rw [h1]; simpa [isRef] using hy
        rw [this] at hr; exact Bool.noConfusion hr
      · exact List.mem_cons_of_mem _ h1
    · rcases List.mem_cons.mp hx with h1 | h1
      · rw [h1]; exact List.mem_cons_self
      · exact List.mem_cons_of_mem _ (ih x h1 hr)

theorem mem_setW_sup (v i w : Nat) : ∀ (l : List Entry) (x : Entry), x ∈ l → isRef v i x = false → x ∈ setW v i w l := by
  intro l
  induction l with
  | nil => intro x hx; simp at hx
  | cons y rest ih =>
    intro x hx hr
    simp only [setW]
    split
    · rename_i hy
      rcases List.mem_cons.mp hx with h1 | h1
      · rw [h1] at hr; rw [hr] at hy; exact Bool.noConfusion hy
      · exact List.mem_cons_of_mem _ h1
    · rcases List.mem_cons.mp hx with h1 | h1
      · rw [h1]; exact List.mem_cons_self
      · exact List.mem_cons_of_mem _ (ih x h1 hr)

theorem mem_setW_key (v i w : Nat) : ∀ (l : List Entry) (a : Entry), a ∈ setW v i w l →
    ∃ a' ∈ l, a'.var = a.var ∧ a'.idx = a.idx := by
  intro l
  induction l with
  | nil => intro a ha; simp [setW] at ha
  | cons y rest ih =>
    intro a ha
    simp only [setW] at ha
    split at ha
    · rcases List.mem_cons.mp ha with h1 | h1
      · exact ⟨y, List.mem_cons_self, by rw [h1], by rw [h1]⟩
      · exact ⟨a, List.mem_cons_of_mem _ h1, rfl, rfl⟩
    · rcases List.mem_cons.mp ha with h1 | h1
      · exact ⟨y, List.mem_cons_self, by rw [h1], by rw [h1]⟩
      · obtain ⟨a', ha', hk⟩ := ih a h1
        exact ⟨a', List.mem_cons_of_mem _ ha', hk⟩

theorem setW_pairwise (v i w : Nat) : ∀ (l : List Entry), l.Pairwise KeyNe → (setW v i w l).Pairwise KeyNe := by
  intro l
  induction l with
  | nil => intro _; simp [setW]
  | cons y rest ih =>
    intro hp
    rw [List.pairwise_cons] at hp
    simp only [setW]
    split
    · rw [List.pairwise_cons]
      exact ⟨fun a ha => hp.1 a ha, hp.2⟩
    · rw [List.pairwise_cons]
      refine ⟨?_, ih hp.2⟩
      intro a ha hk
      obtain ⟨a', ha', hk'⟩ := mem_setW_key v i w rest a ha
      exact hp.1 a' ha' ⟨hk.1.trans hk'.1.symm, hk.2.trans hk'.2.symm⟩

theorem setW_ex (v i w : Nat) : ∀ (l : List Entry) (e : Entry), l.find? (isRef v i) = some e →
    ∃ x ∈ setW v i w l, isRef v i x = true := by
  intro l
  induction l with
  | nil => intro e h; simp at h
  | cons y rest ih =>
    intro e h
    simp only [setW]
    by_cases hy : isRef v i y = true
    · simp only [hy, if_true]
      exact ⟨{ y with w := w }, List.mem_cons_self, by simpa [isRef] using hy⟩
    · have hy' : isRef v i y = false := by simpa using hy
      simp only [List.find?_cons, hy'] at h
      simp only [hy', Bool.false_eq_true, if_false]
      obtain ⟨x, hx, hr⟩ := ih e h
      exact ⟨x, List.mem_cons_of_mem _ hx, hr⟩

/-- reuse of an element in `expand` (either list): the weight of element `(v, i)` changes, nothing else -/
theorem WF_setW {s : Sys} (h : WF s) (c v i : Nat) (k : Cnst) (hcn : (s.vars v).cn[i]? = some c)
    (hk : (k.en = (s.cnsts c).en ∧ ∃ w e, (s.cnsts c).dis.find? (isRef v i) = some e ∧ k.dis = setW v i w (s.cnsts c).dis) ∨
          (k.dis = (s.cnsts c).dis ∧ ∃ w e, (s.cnsts c).en.find? (isRef v i) = some e ∧ k.en = setW v i w (s.cnsts c).en)) :
    WF (s.setC c k) := by
  have hl := h.wfl
  refine WF.of ?_ ?_
  case refine_2 => exact h.so.frame ⟨rfl, rfl, rfl, rfl⟩ (fun _ => rfl) (fun _ => rfl) h.so.st
  rcases hk with ⟨hen, w, e, he, hdis⟩ | ⟨hdis, w, e, he, hen⟩
  · have hem := List.mem_of_find?_eq_some he
    have her := (isRef_iff v i e).mp (List.find?_some he)
    have hloc : stdLoc s v i = some false := by
      have := (hl.disA c e hem).2; rw [her.1, her.2] at this; exact this
    have := WFl_relocate hl c v i k (some false) hcn
      (by intro x hx _; rw [hen] at hx; exact hx)
      (by intro x hx _; rw [hen]; exact hx)
      (by intro x hx hr
          rw [hen] at hx
          have hr' := (isRef_iff v i x).mp hr
          have := (hl.enA c x hx).2
          rw [hr'.1, hr'.2, hloc] at this
          exact Bool.noConfusion (Option.some.inj this))
      (by intro hh; cases hh)
      (by rw [hen]; exact hl.enK c)
      (by intro x hx hr; rw [hdis] at hx; exact mem_setW_sub v i w _ x hx hr)
      (by intro x hx hr; rw [hdis]; exact mem_setW_sup v i w _ x hx hr)
      (by intro _ _ _; rfl)
      (by intro _; rw [hdis]; exact setW_ex v i w _ e he)
      (by rw [hdis]; exact setW_pairwise v i w _ (hl.disK c))
    refine this.congr ?_
    intro u j
    simp only [Loc.upd]
    split
    · rename_i hk; rw [hk.1, hk.2]; exact hloc
    · rfl
  · have hem := List.mem_of_find?_eq_some he
    have her := (isRef_iff v i e).mp (List.find?_some he)
    have hloc : stdLoc s v i = some true := by
      have := (hl.enA c e hem).2; rw [her.1, her.2] at this; exact this
    have := WFl_relocate hl c v i k (some true) hcn
      (by intro x hx hr; rw [hen] at hx; exact mem_setW_sub v i w _ x hx hr)
      (by intro x hx hr; rw [hen]; exact mem_setW_sup v i w _ x hx hr)
      (by intro _ _ _; rfl)
      (by intro _; rw [hen]; exact setW_ex v i w _ e he)
      (by rw [hen]; exact setW_pairwise v i w _ (hl.enK c))
      (by intro x hx _; rw [hdis] at hx; exact hx)
      (by intro x hx _; rw [hdis]; exact hx)
      (by intro x hx hr
          rw [hdis] at hx
          have hr' := (isRef_iff v i x).mp hr
          have := (hl.disA c x hx).2
          rw [hr'.1, hr'.2, hloc] at this
          exact Bool.noConfusion (Option.some.inj this))
      (by intro hh; cases hh)
      (by rw [hdis]; exact hl.disK c)
    refine this.congr ?_
    intro u j
    simp only [Loc.upd]
    split
    · rename_i hk; rw [hk.1, hk.2]; exact hloc
    · rfl

/-! ### creation of an element -/

theorem WFl_append {s : Sys} {loc : Loc} (h : WFl s loc) (v c : Nat) :
    WFl (s.setV v { s.vars v with cn := (s.vars v).cn ++ [c] }) (loc.upd v (s.vars v).cn.length none) := by
  have hcn : ∀ u j c', (s.vars u).cn[j]? = some c' →
      ((s.setV v { s.vars v with cn := (s.vars v).cn ++ [c] }).vars u).cn[j]? = some c' ∧
      loc.upd v (s.vars v).cn.length none u j = loc u j := by
    intro u j c' hj
    have hlt := (List.getElem?_eq_some_iff.mp hj).1
    simp only [setV_vars, Loc.upd]
    constructor
    · split
      · rename_i hu; subst hu; simp only; rw [List.getElem?_append_left hlt]; exact hj
      · exact hj
    · split
      · rename_i hk; rw [hk.1, hk.2] at hlt; exact absurd hlt (Nat.lt_irrefl _)
      · rfl
  have hback : ∀ u j c', ((s.setV v { s.vars v with cn := (s.vars v).cn ++ [c] }).vars u).cn[j]? = some c' →
      loc.upd v (s.vars v).cn.length none u j ≠ none → (s.vars u).cn[j]? = some c' := by
    intro u j c' hj hne
    simp only [setV_vars] at hj
    by_cases hu : u = v
    · subst hu
      simp only [if_true] at hj
      by_cases hjl : j < (s.vars u).cn.length
      · rw [List.getElem?_append_left hjl] at hj; exact hj
      · have hlt := (List.getElem?_eq_some_iff.mp hj).1
        simp only [List.length_append, List.length_singleton] at hlt
        have : j = (s.vars u).cn.length := by omega
        exfalso; apply hne; simp [Loc.upd, this]
    · simp only [hu, if_false] at hj; exact hj
  refine ⟨?_, ?_, h.enK, h.disK, ?_, ?_⟩
  · intro c' e he
    have := h.enA c' e he
    have h2 := hcn _ _ _ this.1
    exact ⟨h2.1, by rw [h2.2]; exact this.2⟩
  · intro c' e he
    have := h.disA c' e he
    have h2 := hcn _ _ _ this.1
    exact ⟨h2.1, by rw [h2.2]; exact this.2⟩
  · intro u j c' hj hl
    have hj' := hback u j c' hj (by rw [hl]; intro hh; cases hh)
    rw [(hcn u j c' hj').2] at hl
    exact h.enD u j c' hj' hl
  · intro u j c' hj hl
    have hj' := hback u j c' hj (by rw [hl]; intro hh; cases hh)
    rw [(hcn u j c' hj').2] at hl
    exact h.disD u j c' hj' hl

/-- `expand_create_elem`: a new element `(v, len)` of weight `w` on constraint `c`, linked according to the penalty -/
theorem WF_create {s : Sys} (h : WF s) (c v w cur' : Nat) (hal : (s.vars v).alive = true) (hc : c < s.nc) :
    WF (if (s.vars v).pen ≠ 0
        then (s.setV v { s.vars v with cn := (s.vars v).cn ++ [c] }).setC c
               { s.cnsts c with en := ⟨v, (s.vars v).cn.length, w⟩ :: (s.cnsts c).en, cur := cur' }
        else (s.setV v { s.vars v with cn := (s.vars v).cn ++ [c] }).setC c
               { s.cnsts c with dis := (s.cnsts c).dis ++ [⟨v, (s.vars v).cn.length, w⟩] }) := by
  have hl1 := WFl_append h.wfl v c
  have hcn1 : ((s.setV v { s.vars v with cn := (s.vars v).cn ++ [c] }).vars v).cn[(s.vars v).cn.length]? = some c := by
    simp [setV_vars]
  have hso : SO (s.setV v { s.vars v with cn := (s.vars v).cn ++ [c] }) := by
    refine ⟨?_, ?_, ?_, ?_⟩
    · intro u hu
      simp only [setV_vars] at hu ⊢
      by_cases hne : u = v
      · subst hne; simp only [if_true] at hu; rw [hal] at hu; exact Bool.noConfusion hu
      · simp only [hne, if_false] at hu ⊢; exact h.so.dead u hu
    · intro u hu
      simp only [setV_vars] at hu
      by_cases hne : u = v
      · subst hne; exact h.so.lt u hal
      · simp only [hne, if_false] at hu; exact h.so.lt u hu
    · intro u c' hc'
      simp only [setV_vars] at hc'
      by_cases hne : u = v
      · subst hne
        simp only [if_true, List.mem_append, List.mem_singleton] at hc'
        rcases hc' with h1 | h1
        · exact h.so.cnlt u c' h1
        · rw [h1]; exact hc
      · simp only [hne, if_false] at hc'; exact h.so.cnlt u c' hc'
    · intro u hu
      simp only [setV_vars] at hu ⊢
      by_cases hne : u = v
      · subst hne; simp only [if_true] at hu ⊢; exact h.so.st u hu
      · simp only [hne, if_false] at hu ⊢; exact h.so.st u hu
  have hnone : (stdLoc s).upd v (s.vars v).cn.length none v (s.vars v).cn.length = none := by simp [Loc.upd]
  have hstd : ∀ (s' : Sys), (∀ u, (s'.vars u).pen = (s.vars u).pen) → ∀ b, b = decide ((s.vars v).pen ≠ 0) → ∀ u j,
      stdLoc s' u j = ((stdLoc s).upd v (s.vars v).cn.length none).upd v (s.vars v).cn.length (some b) u j := by
    intro s' hp b hb u j
    simp only [Loc.upd, stdLoc, hp]
    split
    · rename_i hk; rw [hk.1, hb]
    · rfl
  have hpen1 : ∀ (k : Cnst) u, (((s.setV v { s.vars v with cn := (s.vars v).cn ++ [c] }).setC c k).vars u).pen = (s.vars u).pen := by
    intro k u
    simp only [setC_vars, setV_vars]
    split
    · rename_i hu; rw [hu]
    · rfl
  split
  · rename_i hp
    refine WF.of ?_ ?_
    case refine_2 => exact hso.frame ⟨rfl, rfl, rfl, rfl⟩ (fun _ => rfl) (fun _ => rfl) hso.st
    have := WFl_relocate hl1 c v (s.vars v).cn.length
      { s.cnsts c with en := ⟨v, (s.vars v).cn.length, w⟩ :: (s.cnsts c).en, cur := cur' } (some true) hcn1
      (by intro x hx hr
          rcases List.mem_cons.mp hx with h1 | h1
          · rw [h1] at hr; simp [isRef] at hr
          · exact h1)
      (by intro x hx _; exact List.mem_cons_of_mem _ hx)
      (by intro _ _ _; rfl)
      (by intro _; exact ⟨_, List.mem_cons_self, by simp [isRef]⟩)
      (by show List.Pairwise KeyNe (_ :: (s.cnsts c).en)
          rw [List.pairwise_cons]
          refine ⟨?_, hl1.enK c⟩
          intro x hx hk
          have := (hl1.enA c x hx).2
          rw [← hk.1, ← hk.2, hnone] at this
          cases this)
      (by intro x hx _; exact hx)
      (by intro x hx _; exact hx)
      (by intro x hx hr
          have hr' := (isRef_iff _ _ x).mp hr
          have := (hl1.disA c x hx).2
          rw [hr'.1, hr'.2, hnone] at this
          cases this)
      (by intro hh; cases hh)
      (hl1.disK c)
    exact this.congr (hstd _ (hpen1 _) true (by simp [hp]))
  · rename_i hp
    refine WF.of ?_ ?_
    case refine_2 => exact hso.frame ⟨rfl, rfl, rfl, rfl⟩ (fun _ => rfl) (fun _ => rfl) hso.st
    have := WFl_relocate hl1 c v (s.vars v).cn.length
      { s.cnsts c with dis := (s.cnsts c).dis ++ [⟨v, (s.vars v).cn.length, w⟩] } (some false) hcn1
      (by intro x hx _; exact hx)
      (by intro x hx _; exact hx)
      (by intro x hx hr
          have hr' := (isRef_iff _ _ x).mp hr
          have := (hl1.enA c x hx).2
          rw [hr'.1, hr'.2, hnone] at this
          cases this)
      (by intro hh; cases hh)
      (hl1.enK c)
      (by intro x hx hr
          rcases List.mem_append.mp hx with h1 | h1
          · exact h1
          · rw [List.mem_singleton.mp h1] at hr; simp [isRef] at hr)
      (by intro x hx _; exact List.mem_append_left _ hx)
      (by intro _ _ _; rfl)
      (by intro _; exact ⟨_, List.mem_append_right _ (List.mem_singleton.mpr rfl), by simp [isRef]⟩)
      (by show List.Pairwise KeyNe ((s.cnsts c).dis ++ [_])
          rw [List.pairwise_append]
          refine ⟨hl1.disK c, List.pairwise_singleton _ _, ?_⟩
          intro x hx y hy hk
          rw [List.mem_singleton.mp hy] at hk
          have := (hl1.disA c x hx).2
          rw [hk.1, hk.2, hnone] at this
          cases this)
    exact this.congr (hstd _ (hpen1 _) false (by simp at hp; simp [hp]))

end SgVerif.LmmBook
