import SgVerif.LmmBook.WFPrim
/-
The well-formedness invariant `WF` of a quiescent state, its partially-freed variant `WFX s v i` (inside the loop
of `var_free(v)`: the elements `< i` of `v` are already erased), and their preservation by `enable_var`,
`disable_var`, `on_disabled_var`.  Core-only.
-/
namespace SgVerif.LmmBook

/-- in a quiescent state an element is in the enabled list iff its variable has a positive penalty -/
def stdLoc (s : Sys) : Loc := fun u _ => some (decide ((s.vars u).pen ≠ 0))

/-- state-only clauses -/
structure SO (s : Sys) : Prop where
  dead : ∀ v, (s.vars v).alive = false → (s.vars v).cn = []
  lt : ∀ v, (s.vars v).alive = true → v < s.nv
  cnlt : ∀ v c, c ∈ (s.vars v).cn → c < s.nc
  st : ∀ v, (s.vars v).staged ≠ 0 → (s.vars v).pen = 0

structure WFX (s : Sys) (v i : Nat) : Prop where
  l : WFl s ((stdLoc s).upto v i none)
  so : SO s
  le : i ≤ (s.vars v).cn.length

/-- **element-list well-formedness**: every element `(v, i)` of every variable is linked exactly once, in the
enabled list of `cnsts_[i].constraint` when `sharing_penalty_ > 0` and in its disabled list otherwise; the lists
contain nothing else; a staged variable is disabled; freed variables have no element -/
def WF (s : Sys) : Prop := WFX s 0 0

theorem WF.wfl {s : Sys} (h : WF s) : WFl s (stdLoc s) := h.l.congr (fun u j => by simp [Loc.upto])

theorem WF.of {s : Sys} (h : WFl s (stdLoc s)) (so : SO s) : WF s :=
  ⟨h.congr (fun u j => by simp [Loc.upto]), so, Nat.zero_le _⟩

/-! ### dimensions and configuration never change inside the internal functions -/

def Dims (s s' : Sys) : Prop := s'.nv = s.nv ∧ s'.nc = s.nc ∧ s'.cfg = s.cfg ∧ s'.sel = s.sel

theorem Dims.refl (s : Sys) : Dims s s := ⟨rfl, rfl, rfl, rfl⟩
theorem Dims.trans {a b c : Sys} (h1 : Dims a b) (h2 : Dims b c) : Dims a c :=
  ⟨h2.1.trans h1.1, h2.2.1.trans h1.2.1, h2.2.2.1.trans h1.2.2.1, h2.2.2.2.trans h1.2.2.2⟩
theorem Dims.of_markOnly {s s' : Sys} (h : MarkOnly s s') : Dims s s' := ⟨h.nv, h.nc, h.cfg, h.sel⟩

theorem moveToEn_dims (s : Sys) (c v i : Nat) : Dims s (moveToEn s c v i) := by
  unfold moveToEn; simp only
  split
  · exact ⟨rfl, rfl, rfl, rfl⟩
  · split
    · split <;> exact ⟨rfl, rfl, rfl, rfl⟩
    · exact ⟨rfl, rfl, rfl, rfl⟩

theorem moveToDis_dims (s : Sys) (c v i : Nat) : Dims s (moveToDis s c v i) := by
  unfold moveToDis; simp only
  split
  · exact ⟨rfl, rfl, rfl, rfl⟩
  · split <;> exact ⟨rfl, rfl, rfl, rfl⟩

theorem forElems_dims {f : Sys → Nat → Nat → Nat → Sys} (hf : ∀ s c v i, Dims s (f s c v i)) (v : Nat) :
    ∀ (l : List Nat) (i : Nat) (s : Sys), Dims s (forElems f v i l s) := by
  intro l
  induction l with
  | nil => intro i s; exact Dims.refl s
  | cons c rest ih => intro i s; simp only [forElems]; exact (hf s c v i).trans (ih _ _)

theorem foldl_dims {α : Type} {f : Sys → α → Sys} (hf : ∀ s a, Dims s (f s a)) :
    ∀ (l : List α) (s : Sys), Dims s (l.foldl f s) := by
  intro l
  induction l with
  | nil => intro s; exact Dims.refl s
  | cons a rest ih => intro s; simp only [List.foldl_cons]; exact (hf s a).trans (ih _)

theorem enableVar_dims (s : Sys) (v : Nat) : Dims s (enableVar s v) := by
  have := enableVar_vars s v
  exact ⟨this.nv, this.nc, by
    unfold enableVar; simp only
    rw [(umcsFromVar_markOnly _ _).cfg]
    exact (forElems_dims moveToEn_dims v _ _ _).2.2.1, by
    unfold enableVar; simp only
    rw [(umcsFromVar_markOnly _ _).sel]
    exact (forElems_dims moveToEn_dims v _ _ _).2.2.2⟩

/-! ### generic induction over the walk of `on_disabled_var` -/

theorem odvWalk_ind {P : Sys → Prop}
    (hen : ∀ s w, canEnable s w = true → P s → (enableVar s w).failed = false → P (enableVar s w)) (c : Nat) :
    ∀ (n : Nat) (l : List Entry) (s : Sys), P s → (odvWalk c n l s).failed = false → P (odvWalk c n l s) := by
  intro n
  induction n with
  | zero => intro l s h _; simpa [odvWalk] using h
  | succ n ih =>
    intro l s h hnf
    cases l with
    | nil => simpa [odvWalk] using h
    | cons e after =>
      rw [odvWalk_cons] at hnf ⊢
      generalize odvAfter (canEnable s e.var) e after = after' at hnf ⊢
      have hs1nf := odvRest_sticky _ _ _ _ hnf
      have h1 : P (if canEnable s e.var then enableVar s e.var else s) := by
        split
        · rename_i hc; simp only [hc, if_true] at hs1nf; exact hen s e.var hc h hs1nf
        · exact h
      clear hs1nf
      generalize (if canEnable s e.var then enableVar s e.var else s) = s1 at hnf h1 ⊢
      unfold odvRest at hnf ⊢
      split
      · exact h1
      · split
        · rename_i hlt; rename_i lim hl; rw [hl] at hnf; simp only [hlt, if_true] at hnf; simp [Sys.fail] at hnf
        · split
          · exact h1
          · rename_i h2 h3; rename_i lim hl
            rw [hl] at hnf
            simp only [h2, h3, if_false] at hnf
            exact ih _ _ h1 hnf

theorem onDisabledVar_ind {P : Sys → Prop}
    (hen : ∀ s w, canEnable s w = true → P s → (enableVar s w).failed = false → P (enableVar s w))
    (s : Sys) (c : Nat) (h : P s) (hnf : (onDisabledVar s c).failed = false) : P (onDisabledVar s c) := by
  unfold onDisabledVar at hnf ⊢
  split
  · exact h
  · rename_i l hl
    rw [hl] at hnf
    exact odvWalk_ind hen c _ _ s h hnf

theorem onDisabledVar_dims (s : Sys) (c : Nat) : Dims s (onDisabledVar s c) := by
  unfold onDisabledVar
  split
  · exact Dims.refl s
  · -- no need for the failure hypothesis: plain induction
    have : ∀ (n : Nat) (l : List Entry) (s : Sys), Dims s (odvWalk c n l s) := by
      intro n
      induction n with
      | zero => intro l s; simp only [odvWalk]; exact Dims.refl s
      | succ n ih =>
        intro l s
        cases l with
        | nil => simp only [odvWalk]; exact Dims.refl s
        | cons e after =>
          rw [odvWalk_cons]
          have h1 : Dims s (if canEnable s e.var then enableVar s e.var else s) := by
            split
            · exact enableVar_dims s _
            · exact Dims.refl s
          generalize (if canEnable s e.var then enableVar s e.var else s) = s1 at h1 ⊢
          unfold odvRest
          split
          · exact h1
          · split
            · exact h1.trans ⟨rfl, rfl, rfl, rfl⟩
            · split
              · exact h1
              · exact h1.trans (ih _ _)
    exact this _ _ s

/-! ### `SO` -/

theorem SO.frame {s s' : Sys} (h : SO s) (hd : Dims s s') (hcn : ∀ u, (s'.vars u).cn = (s.vars u).cn)
    (hal : ∀ u, (s'.vars u).alive = (s.vars u).alive)
    (hst : ∀ u, (s'.vars u).staged ≠ 0 → (s'.vars u).pen = 0) : SO s' := by
  refine ⟨?_, ?_, ?_, hst⟩
  · intro u hu; rw [hcn]; rw [hal] at hu; exact h.dead u hu
  · intro u hu; rw [hd.1]; rw [hal] at hu; exact h.lt u hu
  · intro u c hc; rw [hd.2.1]; rw [hcn] at hc; exact h.cnlt u c hc

theorem SO.markOnly {s s' : Sys} (h : SO s) (hm : MarkOnly s s') : SO s' :=
  h.frame (Dims.of_markOnly hm) hm.cn hm.alive (fun u hu => by rw [hm.pen]; rw [hm.staged] at hu; exact h.st u hu)

theorem WFX.markOnly {s s' : Sys} {v i : Nat} (h : WFX s v i) (hm : MarkOnly s s') : WFX s' v i := by
  refine ⟨(h.l.markOnly hm).congr ?_, h.so.markOnly hm, by rw [hm.cn]; exact h.le⟩
  intro u j
  simp only [Loc.upto, stdLoc, hm.pen]

/-! ### `enable_var` -/

/-- `enable_var(w)` on a variable whose element 0 is not linked in the disabled list fails -/
theorem enableVar_fails {s : Sys} {loc : Loc} (w : Nat) (h : WFl s loc) (hlen : 0 < (s.vars w).cn.length)
    (hl : loc w 0 = none) : (enableVar s w).failed = true := by
  cases hf : (enableVar s w).failed with
  | true => rfl
  | false =>
    exfalso
    unfold enableVar at hf
    simp only at hf
    have h3 := umcsFromVar_sticky _ _ hf
    cases hcn : (s.vars w).cn with
    | nil => rw [hcn] at hlen; exact Nat.lt_irrefl _ hlen
    | cons c0 rest =>
      rw [hcn] at h3
      simp only [forElems] at h3
      have h4 := forElems_sticky moveToEn_sticky w _ _ _ h3
      obtain ⟨e, he, _, _⟩ := moveToEn_inv _ c0 w 0 h4
      have hem : e ∈ (s.cnsts c0).dis := List.mem_of_find?_eq_some he
      have her := (isRef_iff w 0 e).mp (List.find?_some he)
      have := (h.disA c0 e hem).2
      rw [her.1, her.2, hl] at this
      cases this

theorem WFX_enableVar {s : Sys} {v i : Nat} (w : Nat) (h : WFX s v i) (hst : (s.vars w).staged ≠ 0)
    (hnf : (enableVar s w).failed = false) : WFX (enableVar s w) v i := by
  have hpen : (s.vars w).pen = 0 := h.so.st w hst
  have hv := enableVar_vars s w
  -- the case "w is the partially freed variable" is impossible: enable_var would fail
  have hcase : w ≠ v ∨ i = 0 := by
    by_cases hw : w = v
    · by_cases hi : i = 0
      · exact Or.inr hi
      · exfalso
        have hf := enableVar_fails w h.l (by rw [hw]; have := h.le; omega)
          (by simp only [Loc.upto]; rw [if_pos ⟨hw, by omega⟩])
        rw [hf] at hnf; exact Bool.noConfusion hnf
    · exact Or.inl hw
  refine ⟨?_, ?_, by rw [hv.cn]; exact h.le⟩
  · have := WFl_enableVar w h.l ?_ hnf
    · refine this.congr ?_
      intro u j
      simp only [Loc.all, Loc.upto, stdLoc]
      by_cases hu : u = w
      · subst hu
        have hp : ((enableVar s u).vars u).pen ≠ 0 := by rw [hv.penv]; exact hst
        rcases hcase with hc | hc
        · simp [hc, hp]
        · simp [hc, hp]
      · simp only [hu, if_false, hv.pen u hu]
    · intro j _
      simp only [Loc.upto, stdLoc, hpen]
      rcases hcase with hc | hc
      · simp [hc]
      · simp [hc]
  · refine h.so.frame (enableVar_dims s w) hv.cn hv.alive ?_
    intro u hu
    by_cases huw : u = w
    · subst huw; exact absurd hv.stagedv hu
    · rw [hv.pen u huw]; rw [hv.staged u huw] at hu; exact h.so.st u hu

theorem canEnable_staged {s : Sys} {w : Nat} (h : canEnable s w = true) : (s.vars w).staged ≠ 0 := by
  unfold canEnable at h
  rw [Bool.and_eq_true, decide_eq_true_eq] at h
  omega

theorem WFX_onDisabledVar {s : Sys} {v i : Nat} (c : Nat) (h : WFX s v i)
    (hnf : (onDisabledVar s c).failed = false) : WFX (onDisabledVar s c) v i :=
  onDisabledVar_ind (P := fun s => WFX s v i)
    (fun s w hc hs hn => WFX_enableVar w hs (canEnable_staged hc) hn) s c h hnf

theorem WFX_foldl_onDisabledVar {v i : Nat} : ∀ (l : List Nat) (s : Sys), WFX s v i →
    (l.foldl onDisabledVar s).failed = false → WFX (l.foldl onDisabledVar s) v i := by
  intro l
  induction l with
  | nil => intro s h _; exact h
  | cons c rest ih =>
    intro s h hnf
    simp only [List.foldl_cons] at hnf ⊢
    exact ih _ (WFX_onDisabledVar c h (foldl_sticky onDisabledVar_sticky _ _ hnf)) hnf

/-! ### `disable_var` -/

structure DisVars (s s' : Sys) (v : Nat) : Prop where
  cn : ∀ u, (s'.vars u).cn = (s.vars u).cn
  alive : ∀ u, (s'.vars u).alive = (s.vars u).alive
  penv : (s'.vars v).pen = 0
  stagedv : (s'.vars v).staged = 0
  pen : ∀ u, u ≠ v → (s'.vars u).pen = (s.vars u).pen
  staged : ∀ u, u ≠ v → (s'.vars u).staged = (s.vars u).staged
  bound : ∀ u, (s'.vars u).bound = (s.vars u).bound

theorem forElems_moveToDis_vars (v : Nat) : ∀ (l : List Nat) (i : Nat) (st : Sys),
    (forElems moveToDis v i l st).vars = st.vars := by
  intro l
  induction l with
  | nil => intro i st; rfl
  | cons c rest ih => intro i st; simp only [forElems]; rw [ih, moveToDis_vars]

theorem disableVar_staged {s : Sys} {v : Nat} (hnf : (disableVar s v).failed = false) : (s.vars v).staged = 0 := by
  unfold disableVar at hnf
  split at hnf
  · simp [Sys.fail] at hnf
  · rename_i h; simpa using h

/-- `disable_var` when the assertion on the staged penalty passes -/
def disableVarBody (s : Sys) (v : Nat) : Sys :=
  (forElems moveToDis v 0 ((umcsFromVar (varsetBack s v) v).vars v).cn (umcsFromVar (varsetBack s v) v)).setV v
    { (forElems moveToDis v 0 ((umcsFromVar (varsetBack s v) v).vars v).cn (umcsFromVar (varsetBack s v) v)).vars v
      with pen := 0, staged := 0 }

theorem disableVar_eq (s : Sys) (v : Nat) (h : (s.vars v).staged = 0) : disableVar s v = disableVarBody s v := by
  unfold disableVar disableVarBody
  simp [h]

theorem disableVar_dims (s : Sys) (v : Nat) : Dims s (disableVar s v) := by
  by_cases hs : (s.vars v).staged = 0
  · rw [disableVar_eq s v hs]
    have h1 : Dims s (umcsFromVar (varsetBack s v) v) :=
      Dims.trans (b := varsetBack s v) ⟨rfl, rfl, rfl, rfl⟩ (Dims.of_markOnly (umcsFromVar_markOnly _ _))
    have h2 := forElems_dims moveToDis_dims v ((umcsFromVar (varsetBack s v) v).vars v).cn 0 (umcsFromVar (varsetBack s v) v)
    exact (h1.trans h2).trans ⟨rfl, rfl, rfl, rfl⟩
  · unfold disableVar
    simp only [ne_eq, hs, not_false_eq_true, if_true]
    exact ⟨rfl, rfl, rfl, rfl⟩

theorem disableVar_vars (s : Sys) (v : Nat) (hnf : (disableVar s v).failed = false) :
    DisVars s (disableVar s v) v := by
  have hs0 := disableVar_staged hnf
  rw [disableVar_eq s v hs0]
  unfold disableVarBody
  generalize hs2 : umcsFromVar (varsetBack s v) v = s2
  have hm : MarkOnly (varsetBack s v) s2 := by rw [← hs2]; exact umcsFromVar_markOnly _ _
  have hv3 := forElems_moveToDis_vars v (s2.vars v).cn 0 s2
  refine ⟨?_, ?_, ?_, ?_, ?_, ?_, ?_⟩
  · intro u; simp only [setV_vars, hv3]; split
    · rename_i hu; subst hu; exact hm.cn u
    · exact hm.cn u
  · intro u; simp only [setV_vars, hv3]; split
    · rename_i hu; subst hu; exact hm.alive u
    · exact hm.alive u
  · simp only [setV_vars, if_true]
  · simp only [setV_vars, if_true]
  · intro u hu; simp only [setV_vars, hu, if_false, hv3]; exact hm.pen u
  · intro u hu; simp only [setV_vars, hu, if_false, hv3]; exact hm.staged u
  · intro u; simp only [setV_vars, hv3]; split
    · rename_i hu; subst hu; have := congrArg Var.bound (hm.vars u); exact this
    · have := congrArg Var.bound (hm.vars u); exact this

theorem WF_disableVar {s : Sys} (v : Nat) (h : WF s) (hpen : (s.vars v).pen ≠ 0)
    (hnf : (disableVar s v).failed = false) : WF (disableVar s v) := by
  have hv := disableVar_vars s v hnf
  have hd := disableVar_dims s v
  have hs0 := disableVar_staged hnf
  have heq := disableVar_eq s v hs0
  unfold disableVarBody at heq
  generalize hs2 : umcsFromVar (varsetBack s v) v = s2 at heq
  have hm : MarkOnly (varsetBack s v) s2 := by rw [← hs2]; exact umcsFromVar_markOnly _ _
  have hw2 : WFl s2 (stdLoc s) := (h.wfl.frame (s' := varsetBack s v) rfl (fun _ => rfl)).markOnly hm
  have hcn2 : (s2.vars v).cn = (s.vars v).cn := hm.cn v
  have hnf3 : (forElems moveToDis v 0 (s2.vars v).cn s2).failed = false := by rw [heq] at hnf; exact hnf
  have hl := WFl_forElems_moveToDis v hw2 (by intro j _; simp [stdLoc, hpen]) hnf3
  apply WF.of
  · have hw : WFl (disableVar s v) ((stdLoc s).upto v (s2.vars v).cn.length (some false)) := by
      rw [heq]
      refine hl.1.frame rfl ?_
      intro u; simp only [setV_vars]; split
      · rename_i hu; subst hu; rfl
      · rfl
    refine hw.congr' ?_
    intro u j hj
    rw [hv.cn] at hj
    simp only [Loc.upto, stdLoc]
    by_cases hu : u = v
    · subst hu
      rw [hv.penv]
      rw [← hcn2] at hj
      simp [hj]
    · simp only [hu, false_and, if_false, hv.pen u hu]
  · exact h.so.frame hd hv.cn hv.alive (by
      intro u hu
      by_cases huv : u = v
      · subst huv; exact hv.penv
      · rw [hv.pen u huv]; rw [hv.staged u huv] at hu; exact h.so.st u hu)

end SgVerif.LmmBook
