/-
Shared model of the *bookkeeping* of `simgrid::kernel::lmm::System` (src/kernel/lmm/System.cpp / System.hpp):
which elements are enabled / disabled / staged, the concurrency counters, the active and modified constraint
sets, the `visited_` marks and `visited_counter_`.  Used by C18 (concurrency limits) and C17 (selective update).
The solver arithmetic (`MaxMin::maxmin_solve`) is NOT here (that is C15/C16's model); `solve` below is only the
part of `System::solve` that decides what is re-solved and resets the modified set.

Conventions
* Objects are numbered in creation order (`Variable*` / `Constraint*` become `Nat` ids); `vars`/`cnsts` are total
  maps, ids `≥ nv` / `≥ nc` are unused slots.  An operation on an id that is not a live object is a dangling
  pointer in C++ (undefined behaviour): `step` ignores it (`Op.valid`).
* Weights and penalties are in **quarter units** (`w = 4` is the C++ `1.0`).  The bookkeeping only tests
  `w >= 1`, `w > 0`, `p > 0`, `p == q` and computes `w + w'` / `max w w'`, all exact on multiples of 1/4.
* The intrusive lists keep their order: `en` = `enabled_element_set_` (push_front), `dis` =
  `disabled_element_set_` (push_back), `varset` = `variable_set`, `active`/`modified` (push_back).
  An `Entry` is an `Element`: it sits in exactly one of the two lists of its constraint and carries its
  weight; `(var, idx)` is its position in `Variable::cnsts_`.
* `failed = true`: an `xbt_assert` of the code fired (the program aborts), or the code would touch an unlinked
  hook (undefined behaviour).  Once set, nothing else happens.
* `Cfg` switches the three repairs proposed in props/C17 and props/C18 (`proposed_fix.diff`); `Cfg.current` is
  the code as it is in /repo now.
-/
namespace SgVerif.LmmBook

def U32 : Nat := 4294967296

inductive Policy where
  | shared | fatpipe | wifi
  deriving DecidableEq, Repr, Inhabited

structure Entry where
  var : Nat
  idx : Nat
  w : Nat
  deriving DecidableEq, Repr, Inhabited

structure Cnst where
  limit : Option Nat := none      -- concurrency_limit_ ; negative in C++ = none
  policy : Policy := .shared
  cur : Nat := 0                  -- concurrency_current_
  en : List Entry := []
  dis : List Entry := []
  bound : Int := 0
  deriving Inhabited

structure Var where
  alive : Bool := false
  pen : Nat := 0                  -- sharing_penalty_
  staged : Nat := 0               -- staged_sharing_penalty_
  bound : Int := -1
  cn : List Nat := []             -- cnsts_[i].constraint
  visited : Nat := 0              -- visited_ (unsigned)
  deriving Inhabited

structure Cfg where
  /-- `update_variable_penalty(var, 0)` calls `on_disabled_var` on the constraints of `var` after `disable_var` -/
  fixSuspend : Bool
  /-- `update_modified_cnst_set_from_variable` marks every constraint of the variable (not only `cnsts_[0]`), and
  `expand` also calls it -/
  fixFromVar : Bool
  /-- `remove_all_modified_cnst_set` skips the counter value 0 (resets the marks when the counter wraps to 0) -/
  fixWrap : Bool
  deriving DecidableEq, Repr

def Cfg.current : Cfg := ⟨false, false, false⟩
def Cfg.fixed : Cfg := ⟨true, true, true⟩

structure Sys where
  cfg : Cfg
  sel : Bool                      -- selective_update_active
  nv : Nat := 0
  nc : Nat := 0
  vars : Nat → Var := fun _ => {}
  cnsts : Nat → Cnst := fun _ => {}
  varset : List Nat := []
  active : List Nat := []
  modified : List Nat := []
  counter : Nat := 1              -- visited_counter_ (unsigned, starts at 1)
  modflag : Bool := false         -- modified_
  failed : Bool := false

def init (cfg : Cfg) (sel : Bool) : Sys := { cfg := cfg, sel := sel }

def Sys.setC (s : Sys) (c : Nat) (x : Cnst) : Sys := { s with cnsts := fun i => if i = c then x else s.cnsts i }
def Sys.setV (s : Sys) (v : Nat) (x : Var) : Sys := { s with vars := fun i => if i = v then x else s.vars i }
def Sys.fail (s : Sys) : Sys := { s with failed := true }

/-- `Element::get_concurrency`: WIFI → 1, else `consumption_weight >= 1 ? 1 : 0` -/
def conc (p : Policy) (w : Nat) : Nat := if p = .wifi then 1 else if 4 ≤ w then 1 else 0

def sumConc (p : Policy) : List Entry → Nat
  | [] => 0
  | e :: l => conc p e.w + sumConc p l

def isRef (v i : Nat) (e : Entry) : Bool := e.var == v && e.idx == i

/-- `Constraint::get_concurrency_slack`; `none` = INT_MAX (no limit) -/
def slack (k : Cnst) : Option Int := k.limit.map (fun l => (l : Int) - (k.cur : Int))

/-- `Variable::get_min_concurrency_slack` with its early return at 0; `none` = INT_MAX -/
def minSlackGo (s : Sys) : List Nat → Option Int → Option Int
  | [], acc => acc
  | c :: rest, acc =>
    match slack (s.cnsts c) with
    | none => minSlackGo s rest acc
    | some sl =>
      let less := match acc with
        | none => true
        | some m => decide (sl < m)
      if less then (if sl = 0 then some 0 else minSlackGo s rest (some sl)) else minSlackGo s rest acc

def minSlack (s : Sys) (v : Nat) : Option Int := minSlackGo s (s.vars v).cn none

def slackPos : Option Int → Bool
  | none => true
  | some m => decide (0 < m)

/-- `Variable::can_enable` -/
def canEnable (s : Sys) (v : Nat) : Bool := decide (0 < (s.vars v).staged) && slackPos (minSlack s v)

def makeActive (s : Sys) (c : Nat) : Sys := if c ∈ s.active then s else { s with active := s.active ++ [c] }
def makeInactive (s : Sys) (c : Nat) : Sys := { s with active := s.active.erase c, modified := s.modified.erase c }

/-! ### modified constraint set -/

/-- inner loop of `update_modified_cnst_set_rec`: `for (elem2 : var->cnsts_) { if (var->visited_ == visited_counter_)
break; if (elem2.constraint != cnst && !linked) { push_back; rec } }` -/
def umcsInner (recur : Sys → Nat → Sys) (c v : Nat) : List Nat → Sys → Sys
  | [], s => s
  | c2 :: rest, s =>
    if (s.vars v).visited = s.counter then s
    else
      let s := if c2 ≠ c ∧ c2 ∉ s.modified then recur { s with modified := s.modified ++ [c2] } c2 else s
      umcsInner recur c v rest s

/-- outer loop over `cnst->enabled_element_set_`; afterwards `var->visited_ = visited_counter_` -/
def umcsEntries (recur : Sys → Nat → Sys) (c : Nat) : List Entry → Sys → Sys
  | [], s => s
  | e :: rest, s =>
    let s := umcsInner recur c e.var (s.vars e.var).cn s
    umcsEntries recur c rest (s.setV e.var { s.vars e.var with visited := s.counter })

/-- `update_modified_cnst_set_rec`; the recursion depth is bounded by the number of constraints (each nested call
is for a constraint just pushed), `fuel` makes this structural; running out of fuel is reported as `failed` -/
def umcsRec : Nat → Sys → Nat → Sys
  | 0, s, _ => s.fail
  | n+1, s, c => umcsEntries (umcsRec n) c (s.cnsts c).en s

/-- `update_modified_cnst_set` -/
def umcs (s : Sys) (c : Nat) : Sys :=
  if s.sel ∧ c ∉ s.modified then umcsRec (s.nc + 1) { s with modified := s.modified ++ [c] } c else s

/-- `update_modified_cnst_set_from_variable` -/
def umcsFromVar (s : Sys) (v : Nat) : Sys :=
  let x := s.vars v
  if !s.sel || x.cn.isEmpty || x.pen = 0 then s
  else if s.cfg.fixFromVar then x.cn.foldl umcs s
  else match x.cn with
    | c :: _ => umcs s c
    | [] => s

/-- `remove_all_modified_cnst_set` -/
def resetVisited (s : Sys) : Sys :=
  { s with vars := fun i => if i ∈ s.varset then { s.vars i with visited := 0 } else s.vars i }

def removeAllModified (s : Sys) : Sys :=
  let ctr := (s.counter + 1) % U32
  let s := { s with counter := ctr }
  let s :=
    if s.cfg.fixWrap then (if ctr = 0 then resetVisited { s with counter := 1 } else s)
    else (if ctr = 1 then resetVisited s else s)
  { s with modified := [] }

/-! ### enabling / disabling -/

/-- run `f s c v i` for every element `i` (constraint `c`) of `var->cnsts_`, in order -/
def forElems (f : Sys → Nat → Nat → Nat → Sys) (v : Nat) : Nat → List Nat → Sys → Sys
  | _, [], s => s
  | i, c :: rest, s => forElems f v (i+1) rest (f s c v i)

def varsetFront (s : Sys) (v : Nat) : Sys := { s with varset := v :: s.varset.erase v }
def varsetBack (s : Sys) (v : Nat) : Sys := { s with varset := s.varset.erase v ++ [v] }

/-- one iteration of `enable_var`'s loop: erase from disabled, push_front to enabled, `increase_concurrency()` -/
def moveToEn (s : Sys) (c v i : Nat) : Sys :=
  let k := s.cnsts c
  match k.dis.find? (isRef v i) with
  | none => s.fail                       -- intrusive_erase of an element that is not linked
  | some e =>
    let cur := k.cur + conc k.policy e.w
    let s := s.setC c { k with dis := k.dis.eraseP (isRef v i), en := e :: k.en, cur := cur }
    match k.limit with
    | some lim => if lim < cur then s.fail else s   -- xbt_assert "Concurrency limit overflow!"
    | none => s

def enableVar (s : Sys) (v : Nat) : Sys :=
  let x := s.vars v
  let s := s.setV v { x with pen := x.staged, staged := 0 }
  let s := varsetFront s v
  let s := forElems moveToEn v 0 x.cn s
  umcsFromVar s v

/-- one iteration of `disable_var`'s loop: erase from enabled, push_back to disabled, `decrease_concurrency()` -/
def moveToDis (s : Sys) (c v i : Nat) : Sys :=
  let k := s.cnsts c
  match k.en.find? (isRef v i) with
  | none => s.fail
  | some e =>
    if k.cur < conc k.policy e.w then s.fail      -- xbt_assert in decrease_concurrency
    else s.setC c { k with en := k.en.eraseP (isRef v i), dis := k.dis ++ [e], cur := k.cur - conc k.policy e.w }

def disableVar (s : Sys) (v : Nat) : Sys :=
  if (s.vars v).staged ≠ 0 then s.fail else       -- xbt_assert "Staged penalty should have been cleared"
  let s := varsetBack s v
  let s := umcsFromVar s v
  let s := forElems moveToDis v 0 (s.vars v).cn s
  s.setV v { s.vars v with pen := 0, staged := 0 }

/-- loop of `on_disabled_var` over `disabled_element_set_`.  The C++ chases `nextelem` pointers in a list that
`enable_var` edits; here `after` is the list of the still-linked elements behind `e`:
* `enable_var(e.var)` unlinks every element of `e.var` (they leave `after`);
* if the element right behind `e` belonged to `e.var` too (only with `force_creation` duplicates) the saved
  `nextelem` is unlinked, the next iteration finds `is_linked()` false, does nothing, and the loop ends;
* `n` is `numelem`. -/
def odvWalk (c : Nat) : Nat → List Entry → Sys → Sys
  | 0, _, s => s
  | _, [], s => s
  | n+1, e :: after, s =>
    let en := canEnable s e.var
    let s1 := if en then enableVar s e.var else s
    let k := s1.cnsts c
    match k.limit with
    | none => s1
    | some lim =>
      if lim < k.cur then s1.fail                 -- xbt_assert "Concurrency overflow!"
      else if k.cur = lim then s1
      else
        let after' := match after with
          | [] => []
          | nx :: _ => if en && nx.var == e.var then [] else if en then after.filter (fun y => y.var != e.var) else after
        odvWalk c n after' s1

/-- `on_disabled_var` -/
def onDisabledVar (s : Sys) (c : Nat) : Sys :=
  match (s.cnsts c).limit with
  | none => s
  | some _ => odvWalk c (s.cnsts c).dis.length (s.cnsts c).dis s

/-! ### public operations -/

def addW (p : Policy) (old w : Nat) : Nat := if p = .fatpipe then max old w else old + w

/-- change the weight of the element `(v, i)` (the first one found: there is only one) -/
def setW (v i w : Nat) : List Entry → List Entry
  | [] => []
  | y :: l => if isRef v i y then { y with w := w } :: l else y :: setW v i w l

/-- second half of `expand`: the element is in place and, for an enabled variable, `increase_concurrency(false)`
has been applied (`expand` below groups the `decrease_concurrency` before `expand_add_to_elem` and this increase in
one update of the counter; nothing observes the state in between).  Here: the overflow test
`cnst->get_concurrency_slack() < 0`, then the update of the modified set. -/
def expandTail (s : Sys) (c v w' : Nat) : Sys :=
  let s :=
    if (s.vars v).pen ≠ 0 then
      let k := s.cnsts c
      match k.limit with
      | none => s
      | some lim =>
        if lim < k.cur then                        -- get_concurrency_slack() < 0
          let penalty := (s.vars v).pen
          let s := disableVar s v
          let s := (s.vars v).cn.foldl onDisabledVar s
          s.setV v { s.vars v with staged := penalty }
        else s
    else s
  if 0 < w' ∨ 0 < (s.vars v).pen then
    let s := umcs s c
    if s.cfg.fixFromVar then umcsFromVar s v else s
  else s

/-- `System::expand` -/
def expand (s : Sys) (c v w : Nat) (force : Bool) : Sys :=
  let s := { s with modflag := true }
  let x := s.vars v
  let k := s.cnsts c
  match (if force then none else x.cn.idxOf? c) with
  | some i =>
    -- reuse the element: decrease_concurrency (if enabled), expand_add_to_elem, increase_concurrency(false)
    if x.pen ≠ 0 then
      match k.en.find? (isRef v i) with
      | none => s.fail
      | some e =>
        if k.cur < conc k.policy e.w then s.fail else     -- xbt_assert in decrease_concurrency
        let w' := addW k.policy e.w w
        expandTail (s.setC c { k with cur := k.cur - conc k.policy e.w + conc k.policy w', en := setW v i w' k.en }) c v w'
    else
      match k.dis.find? (isRef v i) with
      | none => s.fail
      | some e =>
        let w' := addW k.policy e.w w
        expandTail (s.setC c { k with dis := setW v i w' k.dis }) c v w'
  | none =>
    -- expand_create_elem (+ increase_concurrency(false) for an enabled variable)
    let e : Entry := ⟨v, x.cn.length, w⟩
    let s := s.setV v { x with cn := x.cn ++ [c] }
    let s := if x.pen ≠ 0 then s.setC c { k with en := e :: k.en, cur := k.cur + conc k.policy w }
             else s.setC c { k with dis := k.dis ++ [e] }
    let s := if 0 < w ∨ 0 < x.pen then makeActive s c else s
    expandTail s c v w

/-- one iteration of `var_free`'s loop -/
def freeElem (s : Sys) (c v i : Nat) : Sys :=
  let k := s.cnsts c
  let enabled := decide (0 < (s.vars v).pen)
  match enabled, k.en.find? (isRef v i), k.dis.find? (isRef v i) with
  | true, some e, _ =>
    if k.cur < conc k.policy e.w then s.fail else
    let k := { k with cur := k.cur - conc k.policy e.w, en := k.en.eraseP (isRef v i) }
    let s := s.setC c k
    if k.en.isEmpty && k.dis.isEmpty then makeInactive s c else onDisabledVar s c
  | false, none, some _ =>
    let k := { k with dis := k.dis.eraseP (isRef v i) }
    let s := s.setC c k
    if k.en.isEmpty && k.dis.isEmpty then makeInactive s c else onDisabledVar s c
  | _, _, _ => s.fail    -- element linked in the wrong list / in none (check_concurrency's "Variable inconsistency")

/-- `variable_free` = `remove_variable` + `var_free` -/
def varFree (s : Sys) (v : Nat) : Sys :=
  let s := { s with varset := s.varset.erase v, modflag := true }
  let s := umcsFromVar s v
  let s := forElems freeElem v 0 (s.vars v).cn s
  s.setV v { s.vars v with alive := false, cn := [] }

/-- `update_variable_penalty` -/
def updatePenalty (s : Sys) (v p : Nat) : Sys :=
  let x := s.vars v
  if p = x.pen then s else
  let s := { s with modflag := true }
  if 0 < p ∧ x.pen = 0 then
    let s := s.setV v { x with staged := p }
    if minSlack s v = some 0 then s else enableVar s v
  else if p = 0 ∧ 0 < x.pen then
    let s := disableVar s v
    if s.cfg.fixSuspend then x.cn.foldl onDisabledVar s else s
  else
    umcsFromVar (s.setV v { x with pen := p }) v

/-- `update_variable_bound` -/
def updateVarBound (s : Sys) (v : Nat) (b : Int) : Sys :=
  let s := { s with modflag := true }
  let s := s.setV v { s.vars v with bound := b }
  (s.vars v).cn.foldl umcs s

/-- `update_constraint_bound` -/
def updateCnstBound (s : Sys) (c : Nat) (b : Int) : Sys :=
  let s := { s with modflag := true }
  let s := umcs s c
  s.setC c { s.cnsts c with bound := b }

/-- bookkeeping part of `System::solve`: nothing when `modified_` is false; otherwise (after `do_solve`, which
reads `modified_constraint_set` when selective and `active_constraint_set` otherwise) clear the flag and, when
selective, `remove_all_modified_cnst_set` -/
def solveOp (s : Sys) : Sys :=
  if !s.modflag then s else
  let s := { s with modflag := false }
  if s.sel then removeAllModified s else s

inductive Op where
  | cnew (bound : Int) (limit : Option Nat) (policy : Policy)   -- constraint_new + set_concurrency_limit + policy
  | vnew (pen : Nat) (bound : Int)
  | expand (c v w : Nat) (force : Bool)
  | vfree (v : Nat)
  | vbound (v : Nat) (b : Int)
  | vpen (v p : Nat)
  | cbound (c : Nat) (b : Int)
  | solve
  deriving Repr, DecidableEq

def liveV (s : Sys) (v : Nat) : Bool := decide (v < s.nv) && (s.vars v).alive
def liveC (s : Sys) (c : Nat) : Bool := decide (c < s.nc)

def Op.valid (s : Sys) : Op → Bool
  | .cnew _ _ _ => true
  | .vnew _ _ => true
  | .expand c v _ _ => liveC s c && liveV s v
  | .vfree v => liveV s v
  | .vbound v _ => liveV s v
  | .vpen v _ => liveV s v
  | .cbound c _ => liveC s c
  | .solve => true

def cnew (s : Sys) (b : Int) (limit : Option Nat) (p : Policy) : Sys :=
  { s.setC s.nc { limit := limit, policy := p, bound := b } with nc := s.nc + 1 }

/-- `variable_new`: `visited_ = visited_counter_ - 1` (unsigned), push_front if penalty > 0 else push_back -/
def vnew (s : Sys) (p : Nat) (b : Int) : Sys :=
  let s' := s.setV s.nv { alive := true, pen := p, staged := 0, bound := b, cn := [], visited := (s.counter + U32 - 1) % U32 }
  { s' with nv := s.nv + 1, varset := if 0 < p then s.nv :: s.varset else s.varset ++ [s.nv] }

def step (s : Sys) (op : Op) : Sys :=
  if s.failed || !op.valid s then s else
  match op with
  | .cnew b l p => cnew s b l p
  | .vnew p b => vnew s p b
  | .expand c v w f => expand s c v w f
  | .vfree v => varFree s v
  | .vbound v b => updateVarBound s v b
  | .vpen v p => updatePenalty s v p
  | .cbound c b => updateCnstBound s c b
  | .solve => solveOp s

def run (s : Sys) (h : List Op) : Sys := h.foldl step s

/-- histories that never use `force_creation` (that flag exists for ptask_L07 only) -/
def Op.noForce : Op → Bool
  | .expand _ _ _ f => !f
  | _ => true

end SgVerif.LmmBook
