import SgVerif.LmmBook.Sticky
/-
Well-formedness of the two element lists of every constraint (`enabled_element_set_`, `disabled_element_set_`)
with respect to the variables' `cnsts_` arrays.  `WFl s loc`: `loc v i` says where the element `(v, i)` (the
`i`-th element of variable `v`) is expected to be linked: `some true` = enabled list of its constraint, `some
false` = disabled list, `none` = nowhere (already erased by `var_free`).  In a quiescent state `loc` is `stdLoc`
(enabled list iff `sharing_penalty_ > 0`); inside the loops of `enable_var` / `disable_var` / `var_free` it is the
partially updated map.  Every primitive move is "relocate one key" (`WFl_relocate`).  Core-only.
-/
namespace SgVerif.LmmBook

/-- two elements are different elements (different variable or different slot of `cnsts_`) -/
def KeyNe (a b : Entry) : Prop := ¬(a.var = b.var ∧ a.idx = b.idx)

abbrev Loc := Nat → Nat → Option Bool

def Loc.upd (loc : Loc) (v i : Nat) (b : Option Bool) : Loc := fun u j => if u = v ∧ j = i then b else loc u j

theorem isRef_iff (v i : Nat) (e : Entry) : isRef v i e = true ↔ e.var = v ∧ e.idx = i := by
  simp [isRef]

structure WFl (s : Sys) (loc : Loc) : Prop where
  enA : ∀ c e, e ∈ (s.cnsts c).en → (s.vars e.var).cn[e.idx]? = some c ∧ loc e.var e.idx = some true
  disA : ∀ c e, e ∈ (s.cnsts c).dis → (s.vars e.var).cn[e.idx]? = some c ∧ loc e.var e.idx = some false
  enK : ∀ c, (s.cnsts c).en.Pairwise KeyNe
  disK : ∀ c, (s.cnsts c).dis.Pairwise KeyNe
  enD : ∀ v j c, (s.vars v).cn[j]? = some c → loc v j = some true → ∃ e ∈ (s.cnsts c).en, isRef v j e = true
  disD : ∀ v j c, (s.vars v).cn[j]? = some c → loc v j = some false → ∃ e ∈ (s.cnsts c).dis, isRef v j e = true

theorem WFl.congr {s : Sys} {loc loc' : Loc} (h : WFl s loc) (he : ∀ v j, loc' v j = loc v j) : WFl s loc' := by
  have : loc' = loc := by funext v j; exact he v j
  rw [this]; exact h

/-- the state changed only outside `cnsts` and the `cn` fields -/
theorem WFl.frame {s s' : Sys} {loc : Loc} (h : WFl s loc) (hc : s'.cnsts = s.cnsts)
    (hv : ∀ v, (s'.vars v).cn = (s.vars v).cn) : WFl s' loc := by
  refine ⟨?_, ?_, ?_, ?_, ?_, ?_⟩
  · intro c e he; rw [hc] at he; rw [hv]; exact h.enA c e he
  · intro c e he; rw [hc] at he; rw [hv]; exact h.disA c e he
  · intro c; rw [hc]; exact h.enK c
  · intro c; rw [hc]; exact h.disK c
  · intro v j c hj hl; rw [hv] at hj; rw [hc]; exact h.enD v j c hj hl
  · intro v j c hj hl; rw [hv] at hj; rw [hc]; exact h.disD v j c hj hl

theorem WFl.markOnly {s s' : Sys} {loc : Loc} (h : WFl s loc) (hm : MarkOnly s s') : WFl s' loc :=
  h.frame hm.cnsts (fun v => hm.cn v)

/-- uniqueness of keys: after erasing the first element with key `(v, i)` none is left -/
theorem not_isRef_of_mem_eraseP (v i : Nat) : ∀ (l : List Entry), l.Pairwise KeyNe →
    ∀ x, x ∈ l.eraseP (isRef v i) → isRef v i x = false := by
  intro l
  induction l with
  | nil => intro _ x hx; simp at hx
  | cons y rest ih =>
    intro hp x hx
    rw [List.pairwise_cons] at hp
    by_cases hy : isRef v i y = true
    · simp only [List.eraseP_cons, hy] at hx
      have hk := hp.1 x hx
      have hy' := (isRef_iff v i y).mp hy
      cases hxr : isRef v i x with
      | false => rfl
      | true =>
        have hx' := (isRef_iff v i x).mp hxr
        exact absurd ⟨hy'.1.trans hx'.1.symm, hy'.2.trans hx'.2.symm⟩ hk
    · have hy' : isRef v i y = false := by simpa using hy
      simp only [List.eraseP_cons, hy'] at hx
      rcases List.mem_cons.mp hx with h | h
      · rw [h]; exact hy'
      · exact ih hp.2 x h

/-- the element `(v, i)`, linked in constraint `c`, is relinked: constraint `c` gets the lists of `k`, which differ
from the old ones at most in the elements with key `(v, i)`; `b'` is the new location. -/
theorem WFl_relocate {s : Sys} {loc : Loc} (h : WFl s loc) (c v i : Nat) (k : Cnst) (b' : Option Bool)
    (hcn : (s.vars v).cn[i]? = some c)
    (enSub : ∀ x ∈ k.en, isRef v i x = false → x ∈ (s.cnsts c).en)
    (enSup : ∀ x ∈ (s.cnsts c).en, isRef v i x = false → x ∈ k.en)
    (enKey : ∀ x ∈ k.en, isRef v i x = true → b' = some true)
    (enEx : b' = some true → ∃ x ∈ k.en, isRef v i x = true)
    (enK : k.en.Pairwise KeyNe)
    (disSub : ∀ x ∈ k.dis, isRef v i x = false → x ∈ (s.cnsts c).dis)
    (disSup : ∀ x ∈ (s.cnsts c).dis, isRef v i x = false → x ∈ k.dis)
    (disKey : ∀ x ∈ k.dis, isRef v i x = true → b' = some false)
    (disEx : b' = some false → ∃ x ∈ k.dis, isRef v i x = true)
    (disK : k.dis.Pairwise KeyNe) :
    WFl (s.setC c k) (loc.upd v i b') := by
  have updNe : ∀ u j, ¬(u = v ∧ j = i) → loc.upd v i b' u j = loc u j := by
    intro u j hne; simp only [Loc.upd, hne, if_false]
  have updEq : loc.upd v i b' v i = b' := by simp [Loc.upd]
  -- an element of another constraint never has the key (v, i)
  have other : ∀ c' (x : Entry), c' ≠ c → (s.vars x.var).cn[x.idx]? = some c' → ¬(x.var = v ∧ x.idx = i) := by
    intro c' x hne hx ⟨h1, h2⟩
    rw [h1, h2, hcn] at hx
    exact hne (Option.some.inj hx).symm
  refine ⟨?_, ?_, ?_, ?_, ?_, ?_⟩
  · intro c' e he
    simp only [setC_cnsts, setC_vars] at he ⊢
    by_cases hc : c' = c
    · subst hc
      simp only [if_true] at he
      cases hr : isRef v i e with
      | true =>
        have hr' := (isRef_iff v i e).mp hr
        refine ⟨by rw [hr'.1, hr'.2]; exact hcn, ?_⟩
        rw [hr'.1, hr'.2, updEq]; exact enKey e he hr
      | false =>
        have := h.enA c' e (enSub e he hr)
        refine ⟨this.1, ?_⟩
        rw [updNe]; exact this.2
        intro hk; rw [(isRef_iff v i e).mpr hk] at hr; exact Bool.noConfusion hr
    · simp only [hc, if_false] at he
      have := h.enA c' e he
      refine ⟨this.1, ?_⟩
      rw [updNe _ _ (other c' e hc this.1)]; exact this.2
  · intro c' e he
    simp only [setC_cnsts, setC_vars] at he ⊢
    by_cases hc : c' = c
    · subst hc
      simp only [if_true] at he
      cases hr : isRef v i e with
      | true =>
        have hr' := (isRef_iff v i e).mp hr
        refine ⟨by rw [hr'.1, hr'.2]; exact hcn, ?_⟩
        rw [hr'.1, hr'.2, updEq]; exact disKey e he hr
      | false =>
        have := h.disA c' e (disSub e he hr)
        refine ⟨this.1, ?_⟩
        rw [updNe]; exact this.2
        intro hk; rw [(isRef_iff v i e).mpr hk] at hr; exact Bool.noConfusion hr
    · simp only [hc, if_false] at he
      have := h.disA c' e he
      refine ⟨this.1, ?_⟩
      rw [updNe _ _ (other c' e hc this.1)]; exact this.2
  · intro c'
    simp only [setC_cnsts]
    split
    · exact enK
    · exact h.enK c'
  · intro c'
    simp only [setC_cnsts]
    split
    · exact disK
    · exact h.disK c'
  · intro u j c' hj hl
    simp only [setC_cnsts, setC_vars] at hj ⊢
    by_cases hk : u = v ∧ j = i
    · obtain ⟨rfl, rfl⟩ := hk
      rw [hcn] at hj
      have hcc : c = c' := Option.some.inj hj
      subst hcc
      rw [updEq] at hl
      simp only [if_true]
      exact enEx hl
    · rw [updNe _ _ hk] at hl
      obtain ⟨e, he, hr⟩ := h.enD u j c' hj hl
      refine ⟨e, ?_, hr⟩
      split
      · rename_i hcc; subst hcc
        apply enSup e he
        cases hr2 : isRef v i e with
        | false => rfl
        | true =>
          have a := (isRef_iff _ _ e).mp hr
          have b := (isRef_iff _ _ e).mp hr2
          exact absurd ⟨a.1.symm.trans b.1, a.2.symm.trans b.2⟩ hk
      · exact he
  · intro u j c' hj hl
    simp only [setC_cnsts, setC_vars] at hj ⊢
    by_cases hk : u = v ∧ j = i
    · obtain ⟨rfl, rfl⟩ := hk
      rw [hcn] at hj
      have hcc : c = c' := Option.some.inj hj
      subst hcc
      rw [updEq] at hl
      simp only [if_true]
      exact disEx hl
    · rw [updNe _ _ hk] at hl
      obtain ⟨e, he, hr⟩ := h.disD u j c' hj hl
      refine ⟨e, ?_, hr⟩
      split
      · rename_i hcc; subst hcc
        apply disSup e he
        cases hr2 : isRef v i e with
        | false => rfl
        | true =>
          have a := (isRef_iff _ _ e).mp hr
          have b := (isRef_iff _ _ e).mp hr2
          exact absurd ⟨a.1.symm.trans b.1, a.2.symm.trans b.2⟩ hk
      · exact he

end SgVerif.LmmBook
