import SgVerif.LmmBook.WFOps
/-
`WF` through every public operation (`step`) and every history (`run`), under "no assertion fired".  Core-only.
-/
namespace SgVerif.LmmBook

theorem WF.toX {s : Sys} (h : WF s) (v : Nat) : WFX s v 0 :=
  ⟨h.l.congr (fun u j => by simp [Loc.upto]), h.so, Nat.zero_le _⟩

theorem WFX.toWF {s : Sys} {v : Nat} (h : WFX s v 0) : WF s :=
  ⟨h.l.congr (fun u j => by simp [Loc.upto]), h.so, Nat.zero_le _⟩

/-! ### unconditional induction over the walk (for frame facts) -/

theorem odvWalk_all {P : Sys → Prop} (hen : ∀ s w, P s → P (enableVar s w)) (hfail : ∀ s, P s → P s.fail) (c : Nat) :
    ∀ (n : Nat) (l : List Entry) (s : Sys), P s → P (odvWalk c n l s) := by
  intro n
  induction n with
  | zero => intro l s h; simpa [odvWalk] using h
  | succ n ih =>
    intro l s h
    cases l with
    | nil => simpa [odvWalk] using h
    | cons e after =>
      rw [odvWalk_cons]
      have h1 : P (if canEnable s e.var then enableVar s e.var else s) := by
        split
        · exact hen _ _ h
        · exact h
      generalize (if canEnable s e.var then enableVar s e.var else s) = s1 at h1 ⊢
      unfold odvRest
      split
      · exact h1
      · split
        · exact hfail _ h1
        · split
          · exact h1
          · exact ih _ _ h1

theorem onDisabledVar_all {P : Sys → Prop} (hen : ∀ s w, P s → P (enableVar s w)) (hfail : ∀ s, P s → P s.fail)
    (s : Sys) (c : Nat) (h : P s) : P (onDisabledVar s c) := by
  unfold onDisabledVar
  split
  · exact h
  · exact odvWalk_all hen hfail c _ _ s h

/-- `cn` and `alive` of every variable are the same -/
def CnSame (s s' : Sys) : Prop := ∀ u, (s'.vars u).cn = (s.vars u).cn ∧ (s'.vars u).alive = (s.vars u).alive

theorem CnSame.refl (s : Sys) : CnSame s s := fun _ => ⟨rfl, rfl⟩
theorem CnSame.trans {a b c : Sys} (h1 : CnSame a b) (h2 : CnSame b c) : CnSame a c :=
  fun u => ⟨(h2 u).1.trans (h1 u).1, (h2 u).2.trans (h1 u).2⟩

theorem enableVar_cnSame (s : Sys) (w : Nat) : CnSame s (enableVar s w) :=
  fun u => ⟨(enableVar_vars s w).cn u, (enableVar_vars s w).alive u⟩

theorem onDisabledVar_cnSame (s : Sys) (c : Nat) : CnSame s (onDisabledVar s c) :=
  onDisabledVar_all (P := fun s' => CnSame s s') (fun s' w h => h.trans (enableVar_cnSame s' w)) (fun _ h => h) s c
    (CnSame.refl s)

/-! ### `var_free` -/

def Cnst.freedEn (k : Cnst) (v i : Nat) (e : Entry) : Cnst :=
  { k with cur := k.cur - conc k.policy e.w, en := k.en.eraseP (isRef v i) }

def Cnst.freedDis (k : Cnst) (v i : Nat) : Cnst := { k with dis := k.dis.eraseP (isRef v i) }

/-- the end of one iteration of `var_free`: `make_constraint_inactive` or `on_disabled_var` -/
def freeTail (s : Sys) (c : Nat) : Sys :=
  if (s.cnsts c).en.isEmpty && (s.cnsts c).dis.isEmpty then makeInactive s c else onDisabledVar s c

theorem freeElem_en (s : Sys) (c v i : Nat) (e : Entry) (hp : 0 < (s.vars v).pen)
    (he : (s.cnsts c).en.find? (isRef v i) = some e) (hc : conc (s.cnsts c).policy e.w ≤ (s.cnsts c).cur) :
    freeElem s c v i = freeTail (s.setC c ((s.cnsts c).freedEn v i e)) c := by
  have hlt : ¬ (s.cnsts c).cur < conc (s.cnsts c).policy e.w := by omega
  unfold freeElem
  simp only [hp, decide_true, he, hlt, if_false, freeTail, Cnst.freedEn, setC_cnsts, if_true]

theorem freeElem_dis (s : Sys) (c v i : Nat) (e : Entry) (hp : (s.vars v).pen = 0)
    (hen : (s.cnsts c).en.find? (isRef v i) = none) (he : (s.cnsts c).dis.find? (isRef v i) = some e) :
    freeElem s c v i = freeTail (s.setC c ((s.cnsts c).freedDis v i)) c := by
  unfold freeElem
  simp only [hp, Nat.lt_irrefl, decide_false, hen, he, freeTail, Cnst.freedDis, setC_cnsts, if_true]

theorem freeElem_inv (s : Sys) (c v i : Nat) (h : (freeElem s c v i).failed = false) :
    (0 < (s.vars v).pen ∧ ∃ e, (s.cnsts c).en.find? (isRef v i) = some e ∧
        conc (s.cnsts c).policy e.w ≤ (s.cnsts c).cur ∧
        freeElem s c v i = freeTail (s.setC c ((s.cnsts c).freedEn v i e)) c) ∨
    ((s.vars v).pen = 0 ∧ (s.cnsts c).en.find? (isRef v i) = none ∧ ∃ e, (s.cnsts c).dis.find? (isRef v i) = some e ∧
        freeElem s c v i = freeTail (s.setC c ((s.cnsts c).freedDis v i)) c) := by
  by_cases hp : 0 < (s.vars v).pen
  · cases he : (s.cnsts c).en.find? (isRef v i) with
    | none =>
      exfalso
      unfold freeElem at h
      simp [hp, he, Sys.fail] at h
    | some e =>
      by_cases hc : conc (s.cnsts c).policy e.w ≤ (s.cnsts c).cur
      · exact Or.inl ⟨hp, e, rfl, hc, freeElem_en s c v i e hp he hc⟩
      · exfalso
        have hlt : (s.cnsts c).cur < conc (s.cnsts c).policy e.w := by omega
        unfold freeElem at h
        simp [hp, he, hlt, Sys.fail] at h
  · have hp0 : (s.vars v).pen = 0 := by omega
    cases hen : (s.cnsts c).en.find? (isRef v i) with
    | some e =>
      exfalso
      unfold freeElem at h
      simp [hp0, hen, Sys.fail] at h
    | none =>
      cases he : (s.cnsts c).dis.find? (isRef v i) with
      | none =>
        exfalso
        unfold freeElem at h
        simp [hp0, hen, he, Sys.fail] at h
      | some e => exact Or.inr ⟨hp0, rfl, e, rfl, freeElem_dis s c v i e hp0 hen he⟩

theorem makeInactive_cnsts (s : Sys) (c : Nat) : (makeInactive s c).cnsts = s.cnsts := rfl
theorem makeInactive_vars (s : Sys) (c : Nat) : (makeInactive s c).vars = s.vars := rfl

theorem WFX_freeTail {s : Sys} {v i : Nat} (c : Nat) (h : WFX s v i) (hnf : (freeTail s c).failed = false) :
    WFX (freeTail s c) v i := by
  unfold freeTail at hnf ⊢
  split
  · exact ⟨h.l.frame rfl (fun _ => rfl), h.so.frame ⟨rfl, rfl, rfl, rfl⟩ (fun _ => rfl) (fun _ => rfl) h.so.st, h.le⟩
  · rename_i hc; simp only [hc] at hnf
    exact WFX_onDisabledVar c h hnf

theorem freeTail_sticky (s : Sys) (c : Nat) : (freeTail s c).failed = false → s.failed = false := by
  intro h
  unfold freeTail at h
  split at h
  · exact h
  · exact onDisabledVar_sticky _ _ h

theorem freeTail_cnSame (s : Sys) (c : Nat) : CnSame s (freeTail s c) := by
  unfold freeTail
  split
  · exact CnSame.refl s
  · exact onDisabledVar_cnSame s c

theorem freeElem_cnSame (s : Sys) (c v i : Nat) : CnSame s (freeElem s c v i) := by
  by_cases h : (freeElem s c v i).failed = false
  · rcases freeElem_inv s c v i h with ⟨_, e, _, _, heq⟩ | ⟨_, _, e, _, heq⟩
    · rw [heq]; exact CnSame.trans (b := s.setC c _) (CnSame.refl s) (freeTail_cnSame _ c)
    · rw [heq]; exact CnSame.trans (b := s.setC c _) (CnSame.refl s) (freeTail_cnSame _ c)
  · -- a failing iteration: the state is `s.fail` or went through the same tail
    unfold freeElem
    simp only
    split
    · split
      · exact CnSame.refl s
      · split
        · exact CnSame.refl s
        · exact CnSame.trans (b := s.setC c _) (CnSame.refl s) (onDisabledVar_cnSame _ c)
    · split
      · exact CnSame.refl s
      · exact CnSame.trans (b := s.setC c _) (CnSame.refl s) (onDisabledVar_cnSame _ c)
    · exact CnSame.refl s

theorem upto_succ_none (s : Sys) (v i : Nat) (u j : Nat) :
    (stdLoc s).upto v (i+1) none u j = ((stdLoc s).upto v i none).upd v i none u j := by
  simp only [Loc.upto, Loc.upd, stdLoc]
  by_cases hu : u = v
  · by_cases hj : j = i
    · simp [hu, hj]
    · by_cases hj2 : j < i
      · have : j < i + 1 := by omega
        simp [hu, hj, hj2, this]
      · have : ¬ j < i + 1 := by omega
        simp [hu, hj, hj2, this]
  · simp [hu]

/-- state after erasing the enabled element `(v, i)` in `var_free` (before the tail) -/
theorem WFX_freedEn {s : Sys} {v i : Nat} (c : Nat) (e : Entry) (h : WFX s v i) (hcn : (s.vars v).cn[i]? = some c)
    (hp : (s.vars v).pen ≠ 0) : WFX (s.setC c ((s.cnsts c).freedEn v i e)) v (i+1) := by
  have hlt : i < (s.vars v).cn.length := (List.getElem?_eq_some_iff.mp hcn).1
  have hLt : (stdLoc s).upto v i none v i = some true := by simp [Loc.upto, stdLoc, hp]
  have hw : WFl (s.setC c ((s.cnsts c).freedEn v i e)) (((stdLoc s).upto v i none).upd v i none) := by
    apply WFl_relocate h.l c v i _ none hcn
    · intro x hx _; exact List.mem_of_mem_eraseP hx
    · intro x hx hr; exact (List.mem_eraseP_of_neg (by rw [hr]; exact Bool.false_ne_true)).mpr hx
    · intro x hx hr
      have := not_isRef_of_mem_eraseP v i _ (h.l.enK c) x hx
      rw [this] at hr; exact Bool.noConfusion hr
    · intro hh; cases hh
    · exact List.Pairwise.sublist List.eraseP_sublist (h.l.enK c)
    · intro x hx _; exact hx
    · intro x hx _; exact hx
    · intro x hx hr
      have hr' := (isRef_iff v i x).mp hr
      have := (h.l.disA c x hx).2
      rw [hr'.1, hr'.2, hLt] at this
      exact Bool.noConfusion (Option.some.inj this)
    · intro hh; cases hh
    · exact h.l.disK c
  exact ⟨hw.congr (upto_succ_none s v i), h.so.frame ⟨rfl, rfl, rfl, rfl⟩ (fun _ => rfl) (fun _ => rfl) h.so.st, hlt⟩

theorem WFX_freedDis {s : Sys} {v i : Nat} (c : Nat) (h : WFX s v i) (hcn : (s.vars v).cn[i]? = some c)
    (hp : (s.vars v).pen = 0) : WFX (s.setC c ((s.cnsts c).freedDis v i)) v (i+1) := by
  have hlt : i < (s.vars v).cn.length := (List.getElem?_eq_some_iff.mp hcn).1
  have hLt : (stdLoc s).upto v i none v i = some false := by simp [Loc.upto, stdLoc, hp]
  have hw : WFl (s.setC c ((s.cnsts c).freedDis v i)) (((stdLoc s).upto v i none).upd v i none) := by
    apply WFl_relocate h.l c v i _ none hcn
    · intro x hx _; exact hx
    · intro x hx _; exact hx
    · intro x hx hr
      have hr' := (isRef_iff v i x).mp hr
      have := (h.l.enA c x hx).2
      rw [hr'.1, hr'.2, hLt] at this
      exact Bool.noConfusion (Option.some.inj this)
    · intro hh; cases hh
    · exact h.l.enK c
    · intro x hx _; exact List.mem_of_mem_eraseP hx
    · intro x hx hr; exact (List.mem_eraseP_of_neg (by rw [hr]; exact Bool.false_ne_true)).mpr hx
    · intro x hx hr
      have := not_isRef_of_mem_eraseP v i _ (h.l.disK c) x hx
      rw [this] at hr; exact Bool.noConfusion hr
    · intro hh; cases hh
    · exact List.Pairwise.sublist List.eraseP_sublist (h.l.disK c)
  exact ⟨hw.congr (upto_succ_none s v i), h.so.frame ⟨rfl, rfl, rfl, rfl⟩ (fun _ => rfl) (fun _ => rfl) h.so.st, hlt⟩

theorem WFX_freeElem {s : Sys} {v i : Nat} (c : Nat) (h : WFX s v i) (hcn : (s.vars v).cn[i]? = some c)
    (hnf : (freeElem s c v i).failed = false) : WFX (freeElem s c v i) v (i+1) := by
  rcases freeElem_inv s c v i hnf with ⟨hp, e, he, _, heq⟩ | ⟨hp, hen, e, he, heq⟩
  · rw [heq] at hnf ⊢
    exact WFX_freeTail c (WFX_freedEn c e h hcn (by omega)) hnf
  · rw [heq] at hnf ⊢
    exact WFX_freeTail c (WFX_freedDis c h hcn hp) hnf

/-- the loop of `var_free` -/
theorem WFX_forElems_freeElem {s : Sys} (v : Nat) (h : WFX s v 0)
    (hnf : (forElems freeElem v 0 (s.vars v).cn s).failed = false) :
    WFX (forElems freeElem v 0 (s.vars v).cn s) v (s.vars v).cn.length ∧
    CnSame s (forElems freeElem v 0 (s.vars v).cn s) := by
  have := forElems_ind0 (f := freeElem) v (s.vars v).cn
    (fun i st => WFX st v i ∧ CnSame s st) freeElem_sticky ?_ s ⟨h, CnSame.refl s⟩ hnf
  · exact this
  · intro st c i hi ⟨hw, hc⟩ hnf'
    exact ⟨WFX_freeElem c hw (by rw [(hc v).1]; exact hi) hnf', hc.trans (freeElem_cnSame st c v i)⟩

theorem WF_kill {s : Sys} {v : Nat} (h : WFX s v (s.vars v).cn.length) :
    WF (s.setV v { s.vars v with alive := false, cn := [] }) := by
  have notv : ∀ {c : Nat} {e : Entry} {b : Bool}, (s.vars e.var).cn[e.idx]? = some c →
      (stdLoc s).upto v (s.vars v).cn.length none e.var e.idx = some b → e.var ≠ v := by
    intro c e b h1 h2 hv
    have hlt := (List.getElem?_eq_some_iff.mp h1).1
    simp only [Loc.upto] at h2
    rw [if_pos ⟨hv, by rw [← hv]; exact hlt⟩] at h2
    cases h2
  have locne : ∀ u j, u ≠ v → (stdLoc s).upto v (s.vars v).cn.length none u j = stdLoc s u j := by
    intro u j hu; simp [Loc.upto, hu]
  have hstd : ∀ u j, stdLoc (s.setV v { s.vars v with alive := false, cn := [] }) u j = stdLoc s u j := by
    intro u j
    simp only [stdLoc, setV_vars]
    split
    · rename_i hu; rw [hu]
    · rfl
  apply WF.of
  · refine ⟨?_, ?_, h.l.enK, h.l.disK, ?_, ?_⟩
    · intro c e he
      have := h.l.enA c e he
      have hne := notv this.1 this.2
      simp only [setV_vars, setV_cnsts, hne, if_false]
      exact ⟨this.1, by rw [hstd, ← locne _ _ hne]; exact this.2⟩
    · intro c e he
      have := h.l.disA c e he
      have hne := notv this.1 this.2
      simp only [setV_vars, setV_cnsts, hne, if_false]
      exact ⟨this.1, by rw [hstd, ← locne _ _ hne]; exact this.2⟩
    · intro u j c hj hl
      simp only [setV_vars] at hj
      by_cases hu : u = v
      · simp [hu] at hj
      · simp only [hu, if_false] at hj
        rw [hstd, ← locne _ _ hu] at hl
        exact h.l.enD u j c hj hl
    · intro u j c hj hl
      simp only [setV_vars] at hj
      by_cases hu : u = v
      · simp [hu] at hj
      · simp only [hu, if_false] at hj
        rw [hstd, ← locne _ _ hu] at hl
        exact h.l.disD u j c hj hl
  · refine ⟨?_, ?_, ?_, ?_⟩
    · intro u hu
      simp only [setV_vars] at hu ⊢
      split
      · rfl
      · rename_i hne; simp only [hne, if_false] at hu; exact h.so.dead u hu
    · intro u hu
      simp only [setV_vars] at hu
      by_cases hne : u = v
      · simp [hne] at hu
      · simp only [hne, if_false] at hu; exact h.so.lt u hu
    · intro u c hc
      simp only [setV_vars] at hc
      by_cases hne : u = v
      · simp [hne] at hc
      · simp only [hne, if_false] at hc; exact h.so.cnlt u c hc
    · intro u hu
      simp only [setV_vars] at hu ⊢
      by_cases hne : u = v
      · subst hne; simp only [if_true] at hu ⊢; exact h.so.st u hu
      · simp only [hne, if_false] at hu ⊢; exact h.so.st u hu

theorem WF_varFree {s : Sys} (v : Nat) (h : WF s) (hnf : (varFree s v).failed = false) : WF (varFree s v) := by
  unfold varFree at hnf ⊢
  simp only at hnf ⊢
  generalize hs1 : umcsFromVar { s with varset := s.varset.erase v, modflag := true } v = s1 at hnf ⊢
  have hm : MarkOnly { s with varset := s.varset.erase v, modflag := true } s1 := by
    rw [← hs1]; exact umcsFromVar_markOnly _ _
  have h0 : WFX { s with varset := s.varset.erase v, modflag := true } v 0 :=
    ⟨(h.toX v).l.frame rfl (fun _ => rfl), h.so.frame ⟨rfl, rfl, rfl, rfl⟩ (fun _ => rfl) (fun _ => rfl) h.so.st,
     Nat.zero_le _⟩
  have h1 : WFX s1 v 0 := h0.markOnly hm
  have hnf2 : (forElems freeElem v 0 (s1.vars v).cn s1).failed = false := hnf
  have hl := WFX_forElems_freeElem v h1 hnf2
  have hcn : ((forElems freeElem v 0 (s1.vars v).cn s1).vars v).cn = (s1.vars v).cn := (hl.2 v).1
  have := WF_kill (s := forElems freeElem v 0 (s1.vars v).cn s1) (v := v) (by rw [hcn]; exact hl.1)
  exact this

end SgVerif.LmmBook
