import SgVerif.LmmBook.WFRun
/-
Inversion of `expand`: when no assertion fires it is `expandTail` applied to one of three explicit states
(element reused in the enabled list, reused in the disabled list, created).  Core-only.
-/
namespace SgVerif.LmmBook

/-- `expand` on an enabled variable that already has element `i` on `c` (weight `e.w` before) -/
def reuseEn (s : Sys) (c v i w : Nat) (e : Entry) : Sys :=
  ({ s with modflag := true } : Sys).setC c
    { s.cnsts c with cur := (s.cnsts c).cur - conc (s.cnsts c).policy e.w + conc (s.cnsts c).policy (addW (s.cnsts c).policy e.w w),
                     en := setW v i (addW (s.cnsts c).policy e.w w) (s.cnsts c).en }

/-- `expand` on a disabled variable that already has element `i` on `c` -/
def reuseDis (s : Sys) (c v i w : Nat) (e : Entry) : Sys :=
  ({ s with modflag := true } : Sys).setC c
    { s.cnsts c with dis := setW v i (addW (s.cnsts c).policy e.w w) (s.cnsts c).dis }

/-- the constraint `c` after `expand_create_elem` for variable `v` -/
def createdCnst (s : Sys) (c v w : Nat) : Cnst :=
  if (s.vars v).pen ≠ 0
  then { s.cnsts c with en := ⟨v, (s.vars v).cn.length, w⟩ :: (s.cnsts c).en, cur := (s.cnsts c).cur + conc (s.cnsts c).policy w }
  else { s.cnsts c with dis := (s.cnsts c).dis ++ [⟨v, (s.vars v).cn.length, w⟩] }

/-- `expand_create_elem` (+ `make_constraint_active`) -/
def createElem (s : Sys) (c v w : Nat) : Sys :=
  let s1 := (({ s with modflag := true } : Sys).setV v { s.vars v with cn := (s.vars v).cn ++ [c] }).setC c (createdCnst s c v w)
  if 0 < w ∨ 0 < (s.vars v).pen then makeActive s1 c else s1

theorem createElem_cnsts (s : Sys) (c v w : Nat) :
    (createElem s c v w).cnsts = fun c' => if c' = c then createdCnst s c v w else s.cnsts c' := by
  unfold createElem
  simp only
  split
  · unfold makeActive; split <;> rfl
  · rfl

theorem createElem_vars (s : Sys) (c v w : Nat) :
    (createElem s c v w).vars = fun u => if u = v then { s.vars v with cn := (s.vars v).cn ++ [c] } else s.vars u := by
  unfold createElem
  simp only
  split
  · unfold makeActive; split <;> rfl
  · rfl

theorem createElem_dims (s : Sys) (c v w : Nat) : Dims s (createElem s c v w) := by
  unfold createElem
  simp only
  split
  · unfold makeActive; split <;> exact ⟨rfl, rfl, rfl, rfl⟩
  · exact ⟨rfl, rfl, rfl, rfl⟩

theorem createElem_failed (s : Sys) (c v w : Nat) : (createElem s c v w).failed = s.failed := by
  unfold createElem
  simp only
  split
  · unfold makeActive; split <;> rfl
  · rfl

inductive ExpandCase (s : Sys) (c v w : Nat) (f : Bool) : Prop where
  | reuseEn (i : Nat) (e : Entry) (hcn : (s.vars v).cn[i]? = some c) (hp : (s.vars v).pen ≠ 0)
      (he : (s.cnsts c).en.find? (isRef v i) = some e) (hle : conc (s.cnsts c).policy e.w ≤ (s.cnsts c).cur)
      (heq : expand s c v w f = expandTail (reuseEn s c v i w e) c v (addW (s.cnsts c).policy e.w w))
  | reuseDis (i : Nat) (e : Entry) (hcn : (s.vars v).cn[i]? = some c) (hp : (s.vars v).pen = 0)
      (he : (s.cnsts c).dis.find? (isRef v i) = some e)
      (heq : expand s c v w f = expandTail (reuseDis s c v i w e) c v (addW (s.cnsts c).policy e.w w))
  | create (hno : f = false → c ∉ (s.vars v).cn) (heq : expand s c v w f = expandTail (createElem s c v w) c v w)

theorem expand_inv (s : Sys) (c v w : Nat) (f : Bool) (hnf : (expand s c v w f).failed = false) : ExpandCase s c v w f := by
  cases hi : (if f then none else (s.vars v).cn.idxOf? c) with
  | some i =>
    have hcn : (s.vars v).cn[i]? = some c := idx_of_some hi
    by_cases hp : (s.vars v).pen ≠ 0
    · cases he : (s.cnsts c).en.find? (isRef v i) with
      | none => exfalso; unfold expand at hnf; simp [hi, hp, he, Sys.fail] at hnf
      | some e =>
        by_cases hle : conc (s.cnsts c).policy e.w ≤ (s.cnsts c).cur
        · refine .reuseEn i e hcn hp he hle ?_
          have hlt : ¬ (s.cnsts c).cur < conc (s.cnsts c).policy e.w := by omega
          unfold expand reuseEn
          simp only [hi, hp, he, hlt, if_true, if_false, ne_eq, not_false_eq_true]
        · exfalso
          have hlt : (s.cnsts c).cur < conc (s.cnsts c).policy e.w := by omega
          unfold expand at hnf
          simp [hi, hp, he, hlt, Sys.fail] at hnf
    · have hp0 : (s.vars v).pen = 0 := by omega
      cases he : (s.cnsts c).dis.find? (isRef v i) with
      | none => exfalso; unfold expand at hnf; simp [hi, hp0, he, Sys.fail] at hnf
      | some e =>
        refine .reuseDis i e hcn hp0 he ?_
        unfold expand reuseDis
        simp only [hi, hp0, he, ne_eq, not_true_eq_false, if_false]
  | none =>
    refine .create ?_ ?_
    · intro hf
      rw [hf] at hi
      simp only [Bool.false_eq_true, if_false] at hi
      exact List.idxOf?_eq_none_iff.mp hi
    · unfold expand createElem createdCnst
      simp only [hi]
      split <;> split <;> first | rfl | (rename_i h1 h2; exact absurd h1 h2)

end SgVerif.LmmBook
