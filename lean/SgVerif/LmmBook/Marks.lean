import SgVerif.LmmBook.WFRun
/-
The marks invariant (`visited_` vs `visited_counter_`) through EVERY operation, for the repaired
`remove_all_modified_cnst_set` (`fixWrap`): the counter stays in `[1, 2^32)`, no live variable carries a mark above
the counter, and every live variable is in `variable_set` (which is what the wrap-around reset iterates over).
Unconditional (no "no assertion fired" hypothesis).  Core-only.
-/
namespace SgVerif.LmmBook

/-- marks invariant -/
structure MK (s : Sys) : Prop where
  lo : 1 ≤ s.counter
  hi : s.counter < U32
  le : ∀ v, (s.vars v).alive = true → (s.vars v).visited ≤ s.counter
  vs : ∀ v, (s.vars v).alive = true → v ∈ s.varset

/-- `s'` differs from `s` only in fields that the marks invariant does not read -/
structure MKFrame (s s' : Sys) : Prop where
  cfg : s'.cfg = s.cfg
  sel : s'.sel = s.sel
  counter : s'.counter = s.counter
  varset : ∀ v, v ∈ s.varset → v ∈ s'.varset
  alive : ∀ v, (s'.vars v).alive = (s.vars v).alive
  visited : ∀ v, (s'.vars v).visited = (s.vars v).visited ∨ (s'.vars v).visited = s.counter

theorem MKFrame.refl (s : Sys) : MKFrame s s := ⟨rfl, rfl, rfl, fun _ h => h, fun _ => rfl, fun _ => Or.inl rfl⟩

theorem MKFrame.trans {a b c : Sys} (h1 : MKFrame a b) (h2 : MKFrame b c) : MKFrame a c := by
  refine ⟨h2.cfg.trans h1.cfg, h2.sel.trans h1.sel, h2.counter.trans h1.counter, fun v h => h2.varset v (h1.varset v h),
    fun v => (h2.alive v).trans (h1.alive v), ?_⟩
  intro v
  rcases h2.visited v with h | h
  · rcases h1.visited v with h' | h'
    · exact Or.inl (h.trans h')
    · exact Or.inr (h.trans h')
  · exact Or.inr (h.trans h1.counter)

theorem MK.frame {s s' : Sys} (h : MK s) (f : MKFrame s s') : MK s' := by
  refine ⟨by rw [f.counter]; exact h.lo, by rw [f.counter]; exact h.hi, ?_, ?_⟩
  · intro v hv
    rw [f.alive] at hv
    rw [f.counter]
    rcases f.visited v with h1 | h1
    · rw [h1]; exact h.le v hv
    · rw [h1]; exact Nat.le_refl _
  · intro v hv; rw [f.alive] at hv; exact f.varset v (h.vs v hv)

/-- frame for a change that keeps `vars`, `counter`, `varset` -/
theorem MKFrame.of_eq {s s' : Sys} (hv : s'.vars = s.vars) (hc : s'.counter = s.counter) (hs : s'.varset = s.varset)
    (hg : s'.cfg = s.cfg := by rfl) (hl : s'.sel = s.sel := by rfl) :
    MKFrame s s' := ⟨hg, hl, hc, fun v h => by rw [hs]; exact h, fun v => by rw [hv], fun v => Or.inl (by rw [hv])⟩

/-! ### the modified-set functions -/

theorem mkf_push (s : Sys) (c : Nat) : MKFrame s { s with modified := s.modified ++ [c] } := MKFrame.of_eq rfl rfl rfl
theorem mkf_fail (s : Sys) : MKFrame s s.fail := MKFrame.of_eq rfl rfl rfl
theorem mkf_setC (s : Sys) (c : Nat) (k : Cnst) : MKFrame s (s.setC c k) := MKFrame.of_eq rfl rfl rfl

theorem mkf_setVisited (s : Sys) (v : Nat) : MKFrame s (s.setV v { s.vars v with visited := s.counter }) := by
  refine ⟨rfl, rfl, rfl, fun _ h => h, ?_, ?_⟩
  · intro u; simp only [setV_vars]; split
    · rename_i hu; rw [hu]
    · rfl
  · intro u; simp only [setV_vars]; split
    · exact Or.inr rfl
    · exact Or.inl rfl

theorem umcsInner_mkf {recur : Sys → Nat → Sys} (hr : ∀ s c, MKFrame s (recur s c)) (c v : Nat) :
    ∀ (l : List Nat) (s : Sys), MKFrame s (umcsInner recur c v l s) := by
  intro l
  induction l with
  | nil => intro s; exact MKFrame.refl s
  | cons c2 rest ih =>
    intro s
    simp only [umcsInner]
    split
    · exact MKFrame.refl s
    · split
      · exact ((mkf_push s c2).trans (hr _ _)).trans (ih _)
      · exact ih _

theorem umcsEntries_mkf {recur : Sys → Nat → Sys} (hr : ∀ s c, MKFrame s (recur s c)) (c : Nat) :
    ∀ (l : List Entry) (s : Sys), MKFrame s (umcsEntries recur c l s) := by
  intro l
  induction l with
  | nil => intro s; exact MKFrame.refl s
  | cons e rest ih =>
    intro s
    simp only [umcsEntries]
    exact ((umcsInner_mkf hr c e.var _ s).trans (mkf_setVisited _ _)).trans (ih _)

theorem umcsRec_mkf : ∀ (n : Nat) (s : Sys) (c : Nat), MKFrame s (umcsRec n s c) := by
  intro n
  induction n with
  | zero => intro s c; exact mkf_fail s
  | succ n ih => intro s c; simp only [umcsRec]; exact umcsEntries_mkf ih c _ s

theorem umcs_mkf (s : Sys) (c : Nat) : MKFrame s (umcs s c) := by
  unfold umcs
  split
  · exact (mkf_push s c).trans (umcsRec_mkf _ _ _)
  · exact MKFrame.refl s

theorem foldl_mkf {α : Type} {f : Sys → α → Sys} (hf : ∀ s a, MKFrame s (f s a)) :
    ∀ (l : List α) (s : Sys), MKFrame s (l.foldl f s) := by
  intro l
  induction l with
  | nil => intro s; exact MKFrame.refl s
  | cons a rest ih => intro s; simp only [List.foldl_cons]; exact (hf s a).trans (ih _)

theorem umcsFromVar_mkf (s : Sys) (v : Nat) : MKFrame s (umcsFromVar s v) := by
  unfold umcsFromVar
  simp only
  split
  · exact MKFrame.refl s
  · split
    · exact foldl_mkf umcs_mkf _ s
    · split
      · exact umcs_mkf s _
      · exact MKFrame.refl s

/-! ### enabling / disabling -/

theorem forElems_mkf {f : Sys → Nat → Nat → Nat → Sys} (hf : ∀ s c v i, MKFrame s (f s c v i)) (v : Nat) :
    ∀ (l : List Nat) (i : Nat) (s : Sys), MKFrame s (forElems f v i l s) := by
  intro l
  induction l with
  | nil => intro i s; exact MKFrame.refl s
  | cons c rest ih => intro i s; simp only [forElems]; exact (hf s c v i).trans (ih _ _)

theorem moveToEn_mkf (s : Sys) (c v i : Nat) : MKFrame s (moveToEn s c v i) := by
  unfold moveToEn; simp only
  split
  · exact mkf_fail s
  · split
    · split
      · exact (mkf_setC s c _).trans (mkf_fail _)
      · exact mkf_setC s c _
    · exact mkf_setC s c _

theorem moveToDis_mkf (s : Sys) (c v i : Nat) : MKFrame s (moveToDis s c v i) := by
  unfold moveToDis; simp only
  split
  · exact mkf_fail s
  · split
    · exact mkf_fail s
    · exact mkf_setC s c _

/-- a `setV` that keeps `alive` and `visited` -/
theorem mkf_setV (s : Sys) (v : Nat) (x : Var) (ha : x.alive = (s.vars v).alive) (hv : x.visited = (s.vars v).visited) :
    MKFrame s (s.setV v x) := by
  refine ⟨rfl, rfl, rfl, fun _ h => h, ?_, ?_⟩
  · intro u; simp only [setV_vars]; split
    · rename_i hu; rw [hu]; exact ha
    · rfl
  · intro u; left; simp only [setV_vars]; split
    · rename_i hu; rw [hu]; exact hv
    · rfl

theorem mkf_varsetFront (s : Sys) (v : Nat) : MKFrame s (varsetFront s v) := by
  refine ⟨rfl, rfl, rfl, ?_, fun _ => rfl, fun _ => Or.inl rfl⟩
  intro u hu
  show u ∈ v :: s.varset.erase v
  by_cases h : u = v
  · rw [h]; exact List.mem_cons_self
  · exact List.mem_cons_of_mem _ ((List.mem_erase_of_ne h).mpr hu)

theorem mkf_varsetBack (s : Sys) (v : Nat) : MKFrame s (varsetBack s v) := by
  refine ⟨rfl, rfl, rfl, ?_, fun _ => rfl, fun _ => Or.inl rfl⟩
  intro u hu
  show u ∈ s.varset.erase v ++ [v]
  by_cases h : u = v
  · rw [h]; exact List.mem_append_right _ (List.mem_singleton.mpr rfl)
  · exact List.mem_append_left _ ((List.mem_erase_of_ne h).mpr hu)

theorem enableVar_mkf (s : Sys) (v : Nat) : MKFrame s (enableVar s v) := by
  unfold enableVar
  simp only
  refine MKFrame.trans ?_ (umcsFromVar_mkf _ v)
  refine MKFrame.trans ?_ (forElems_mkf moveToEn_mkf v _ _ _)
  refine MKFrame.trans ?_ (mkf_varsetFront _ v)
  exact mkf_setV s v _ rfl rfl

theorem disableVar_mkf (s : Sys) (v : Nat) : MKFrame s (disableVar s v) := by
  unfold disableVar
  split
  · exact mkf_fail s
  · simp only
    refine MKFrame.trans ?_ (mkf_setV _ v _ rfl rfl)
    refine MKFrame.trans ?_ (forElems_mkf moveToDis_mkf v _ _ _)
    refine MKFrame.trans ?_ (umcsFromVar_mkf _ v)
    exact mkf_varsetBack s v

theorem onDisabledVar_mkf (s : Sys) (c : Nat) : MKFrame s (onDisabledVar s c) :=
  onDisabledVar_all (P := fun s' => MKFrame s s') (fun s' w h => h.trans (enableVar_mkf s' w))
    (fun s' h => h.trans (mkf_fail s')) s c (MKFrame.refl s)

/-! ### public operations -/

theorem expandTail_mkf (s : Sys) (c v w' : Nat) : MKFrame s (expandTail s c v w') := by
  unfold expandTail
  simp only
  generalize hs1 : (if (s.vars v).pen ≠ 0 then _ else s) = s1
  have h1 : MKFrame s s1 := by
    rw [← hs1]
    split
    · split
      · exact MKFrame.refl s
      · split
        · refine MKFrame.trans ?_ (mkf_setV _ v _ rfl rfl)
          refine MKFrame.trans ?_ (foldl_mkf onDisabledVar_mkf _ _)
          exact disableVar_mkf s v
        · exact MKFrame.refl s
    · exact MKFrame.refl s
  split
  · split
    · refine MKFrame.trans ?_ (umcsFromVar_mkf _ _)
      exact h1.trans (umcs_mkf _ _)
    · exact h1.trans (umcs_mkf _ _)
  · exact h1

theorem mkf_modflag (s : Sys) (b : Bool) : MKFrame s { s with modflag := b } := MKFrame.of_eq rfl rfl rfl

theorem mkf_makeActive (s : Sys) (c : Nat) : MKFrame s (makeActive s c) := by
  unfold makeActive; split
  · exact MKFrame.refl s
  · exact MKFrame.of_eq rfl rfl rfl

theorem mkf_makeInactive (s : Sys) (c : Nat) : MKFrame s (makeInactive s c) := MKFrame.of_eq rfl rfl rfl

theorem expand_mkf (s : Sys) (c v w : Nat) (f : Bool) : MKFrame s (expand s c v w f) := by
  unfold expand
  simp only
  have h0 := mkf_modflag s true
  split
  · split
    · split
      · exact h0.trans (mkf_fail _)
      · split
        · exact h0.trans (mkf_fail _)
        · refine MKFrame.trans ?_ (expandTail_mkf _ _ _ _)
          exact h0.trans (mkf_setC _ c _)
    · split
      · exact h0.trans (mkf_fail _)
      · refine MKFrame.trans ?_ (expandTail_mkf _ _ _ _)
        exact h0.trans (mkf_setC _ c _)
  · refine MKFrame.trans ?_ (expandTail_mkf _ _ _ _)
    have h1 : MKFrame s (({ s with modflag := true } : Sys).setV v { s.vars v with cn := (s.vars v).cn ++ [c] }) :=
      h0.trans (mkf_setV _ v _ rfl rfl)
    split
    · refine MKFrame.trans ?_ (mkf_makeActive _ c)
      split
      · exact h1.trans (mkf_setC _ c _)
      · exact h1.trans (mkf_setC _ c _)
    · split
      · exact h1.trans (mkf_setC _ c _)
      · exact h1.trans (mkf_setC _ c _)

theorem freeElem_mkf (s : Sys) (c v i : Nat) : MKFrame s (freeElem s c v i) := by
  unfold freeElem
  simp only
  split
  · split
    · exact mkf_fail s
    · split
      · refine MKFrame.trans ?_ (mkf_makeInactive _ c)
        exact mkf_setC s c _
      · refine MKFrame.trans ?_ (onDisabledVar_mkf _ c)
        exact mkf_setC s c _
  · split
    · refine MKFrame.trans ?_ (mkf_makeInactive _ c)
      exact mkf_setC s c _
    · refine MKFrame.trans ?_ (onDisabledVar_mkf _ c)
      exact mkf_setC s c _
  · exact mkf_fail s

theorem updatePenalty_mkf (s : Sys) (v p : Nat) : MKFrame s (updatePenalty s v p) := by
  unfold updatePenalty
  simp only
  have h0 := mkf_modflag s true
  split
  · exact MKFrame.refl s
  · split
    · have h1 : MKFrame s (({ s with modflag := true } : Sys).setV v { s.vars v with staged := p }) :=
        h0.trans (mkf_setV _ v _ rfl rfl)
      split
      · exact h1
      · exact h1.trans (enableVar_mkf _ v)
    · split
      · split
        · refine MKFrame.trans ?_ (foldl_mkf onDisabledVar_mkf _ _)
          exact h0.trans (disableVar_mkf _ v)
        · exact h0.trans (disableVar_mkf _ v)
      · refine MKFrame.trans ?_ (umcsFromVar_mkf _ v)
        exact h0.trans (mkf_setV _ v _ rfl rfl)

/-- `variable_free` removes `v` from `variable_set`; all other live variables stay -/
theorem MK_varFree {s : Sys} (v : Nat) (h : MK s) : MK (varFree s v) := by
  unfold varFree
  simp only
  -- the invariant for all variables but `v`, which is what survives the removal from `variable_set`
  let Q : Sys → Prop := fun st => 1 ≤ st.counter ∧ st.counter < U32 ∧
    (∀ u, u ≠ v → (st.vars u).alive = true → (st.vars u).visited ≤ st.counter ∧ u ∈ st.varset)
  have hQ0 : Q { s with varset := s.varset.erase v, modflag := true } := by
    refine ⟨h.lo, h.hi, ?_⟩
    intro u hu ha
    exact ⟨h.le u ha, (List.mem_erase_of_ne hu).mpr (h.vs u ha)⟩
  have hQf : ∀ st st', Q st → MKFrame st st' → Q st' := by
    intro st st' ⟨a, b, c⟩ f
    refine ⟨by rw [f.counter]; exact a, by rw [f.counter]; exact b, ?_⟩
    intro u hu ha
    rw [f.alive] at ha
    have := c u hu ha
    refine ⟨?_, f.varset u this.2⟩
    rw [f.counter]
    rcases f.visited u with h1 | h1
    · rw [h1]; exact this.1
    · rw [h1]; exact Nat.le_refl _
  have hQ2 := hQf _ _ hQ0 ((umcsFromVar_mkf { s with varset := s.varset.erase v, modflag := true } v).trans
    (forElems_mkf freeElem_mkf v ((umcsFromVar { s with varset := s.varset.erase v, modflag := true } v).vars v).cn 0 _))
  obtain ⟨a, b, c⟩ := hQ2
  refine ⟨a, b, ?_, ?_⟩
  · intro u ha
    simp only [setV_vars] at ha ⊢
    by_cases hu : u = v
    · simp [hu] at ha
    · simp only [hu, if_false] at ha ⊢; exact (c u hu ha).1
  · intro u ha
    simp only [setV_vars] at ha
    by_cases hu : u = v
    · simp [hu] at ha
    · simp only [hu, if_false] at ha; exact (c u hu ha).2

theorem MK_vnew {s : Sys} (p : Nat) (b : Int) (h : MK s) : MK (vnew s p b) := by
  have hlo := h.lo
  have hhi := h.hi
  refine ⟨h.lo, h.hi, ?_, ?_⟩
  · intro u ha
    rw [vnew_vars] at ha ⊢
    show _ ≤ s.counter
    split
    · simp only
      have : (s.counter + U32 - 1) % U32 = s.counter - 1 := by
        have e : s.counter + U32 - 1 = (s.counter - 1) + U32 := by omega
        rw [e, Nat.add_mod_right]
        exact Nat.mod_eq_of_lt (by omega)
      rw [this]; omega
    · rename_i hu; rw [if_neg hu] at ha; exact h.le u ha
  · intro u ha
    rw [vnew_vars] at ha
    show u ∈ (if 0 < p then s.nv :: s.varset else s.varset ++ [s.nv])
    by_cases hu : u = s.nv
    · rw [hu]; split
      · exact List.mem_cons_self
      · exact List.mem_append_right _ (List.mem_singleton.mpr rfl)
    · rw [if_neg hu] at ha
      have := h.vs u ha
      split
      · exact List.mem_cons_of_mem _ this
      · exact List.mem_append_left _ this

/-- the step for `solve`: the repaired `remove_all_modified_cnst_set` -/
theorem MK_removeAllModified {s : Sys} (hfix : s.cfg.fixWrap = true) (h : MK s) : MK (removeAllModified s) := by
  have hlo := h.lo
  have hhi := h.hi
  unfold removeAllModified
  simp only [hfix, if_true]
  by_cases hw : (s.counter + 1) % U32 = 0
  · simp only [hw, if_true, resetVisited]
    refine ⟨Nat.le_refl _, (by show (1 : Nat) < U32; decide), ?_, ?_⟩
    · intro v ha
      have ha' : (s.vars v).alive = true := by
        simp only at ha
        split at ha
        · exact ha
        · exact ha
      simp only [h.vs v ha', if_true]
      exact Nat.zero_le _
    · intro v ha
      have ha' : (s.vars v).alive = true := by
        simp only at ha
        split at ha
        · exact ha
        · exact ha
      exact h.vs v ha'
  · simp only [hw, if_false]
    have hlt : s.counter + 1 < U32 := by
      have : s.counter + 1 ≤ U32 := hhi
      rcases Nat.lt_or_ge (s.counter + 1) U32 with h1 | h1
      · exact h1
      · exfalso; apply hw
        have : s.counter + 1 = U32 := Nat.le_antisymm this h1
        rw [this]; exact Nat.mod_self _
    have hmod : (s.counter + 1) % U32 = s.counter + 1 := Nat.mod_eq_of_lt hlt
    refine ⟨by show 1 ≤ (s.counter + 1) % U32; rw [hmod]; omega, by show (s.counter + 1) % U32 < U32; rw [hmod]; exact hlt, ?_, ?_⟩
    · intro v ha
      show (s.vars v).visited ≤ (s.counter + 1) % U32
      rw [hmod]
      have := h.le v ha
      omega
    · intro v ha; exact h.vs v ha

/-- after the repaired `remove_all_modified_cnst_set` no live variable carries the (new) counter value as its mark:
every live variable looks "not yet visited" to the next `update_modified_cnst_set_rec` — also across the 2^32 wrap -/
theorem MK_removeAllModified_fresh {s : Sys} (hfix : s.cfg.fixWrap = true) (h : MK s) (v : Nat)
    (ha : ((removeAllModified s).vars v).alive = true) :
    ((removeAllModified s).vars v).visited ≠ (removeAllModified s).counter := by
  have hlo := h.lo
  have hhi := h.hi
  unfold removeAllModified at ha ⊢
  simp only [hfix, if_true] at ha ⊢
  by_cases hw : (s.counter + 1) % U32 = 0
  · simp only [hw, if_true, resetVisited] at ha ⊢
    have ha' : (s.vars v).alive = true := by
      split at ha
      · exact ha
      · exact ha
    simp only [h.vs v ha', if_true]
    decide
  · simp only [hw, if_false] at ha ⊢
    have hlt : s.counter + 1 < U32 := by
      rcases Nat.lt_or_ge (s.counter + 1) U32 with h1 | h1
      · exact h1
      · exfalso; apply hw
        have : s.counter + 1 = U32 := Nat.le_antisymm hhi h1
        rw [this]; exact Nat.mod_self _
    have hmod : (s.counter + 1) % U32 = s.counter + 1 := Nat.mod_eq_of_lt hlt
    show (s.vars v).visited ≠ (s.counter + 1) % U32
    rw [hmod]
    have := h.le v ha
    omega

theorem MK_step {s : Sys} (op : Op) (hfix : s.cfg.fixWrap = true) (h : MK s) : MK (step s op) := by
  unfold step
  split
  · exact h
  · cases op with
    | cnew b l p => exact h.frame (s' := cnew s b l p) (MKFrame.of_eq rfl rfl rfl)
    | vnew p b => exact MK_vnew p b h
    | expand c v w f => exact h.frame (expand_mkf s c v w f)
    | vfree v => exact MK_varFree v h
    | vbound v b =>
      show MK (updateVarBound s v b)
      unfold updateVarBound
      simp only
      apply h.frame
      refine MKFrame.trans ?_ (foldl_mkf umcs_mkf _ _)
      exact (mkf_modflag s true).trans (mkf_setV _ v _ rfl rfl)
    | vpen v p => exact h.frame (updatePenalty_mkf s v p)
    | cbound c b =>
      show MK (updateCnstBound s c b)
      unfold updateCnstBound
      simp only
      apply h.frame
      refine MKFrame.trans ?_ (mkf_setC _ c _)
      exact (mkf_modflag s true).trans (umcs_mkf _ c)
    | solve =>
      show MK (solveOp s)
      unfold solveOp
      split
      · exact h
      · simp only
        split
        · exact MK_removeAllModified (s := { s with modflag := false }) hfix (h.frame (mkf_modflag s false))
        · exact h.frame (mkf_modflag s false)

theorem MK_init (cfg : Cfg) (sel : Bool) : MK (init cfg sel) :=
  ⟨Nat.le_refl _, (by show (1 : Nat) < U32; decide), fun v hv => by simp [init] at hv, fun v hv => by simp [init] at hv⟩

theorem varFree_cfg (s : Sys) (v : Nat) : (varFree s v).cfg = s.cfg := by
  unfold varFree
  simp only
  exact ((umcsFromVar_mkf { s with varset := s.varset.erase v, modflag := true } v).trans
    (forElems_mkf freeElem_mkf v ((umcsFromVar { s with varset := s.varset.erase v, modflag := true } v).vars v).cn 0 _)).cfg

theorem step_cfg_all (s : Sys) (op : Op) : (step s op).cfg = s.cfg := by
  unfold step
  split
  · rfl
  · cases op with
    | cnew b l p => rfl
    | vnew p b => rfl
    | expand c v w f => exact (expand_mkf s c v w f).cfg
    | vfree v => exact varFree_cfg s v
    | vbound v b =>
      show (updateVarBound s v b).cfg = s.cfg
      unfold updateVarBound
      exact (foldl_mkf umcs_mkf _ _).cfg
    | vpen v p => exact (updatePenalty_mkf s v p).cfg
    | cbound c b =>
      show (updateCnstBound s c b).cfg = s.cfg
      unfold updateCnstBound
      exact (umcs_mkf _ c).cfg
    | solve =>
      show (solveOp s).cfg = s.cfg
      unfold solveOp
      split
      · rfl
      · simp only
        split
        · unfold removeAllModified
          simp only
          split <;> split <;> rfl
        · rfl

theorem step_sel_all (s : Sys) (op : Op) : (step s op).sel = s.sel := by
  unfold step
  split
  · rfl
  · cases op with
    | cnew b l p => rfl
    | vnew p b => rfl
    | expand c v w f => exact (expand_mkf s c v w f).sel
    | vfree v =>
      show (varFree s v).sel = s.sel
      unfold varFree
      simp only
      exact ((umcsFromVar_mkf { s with varset := s.varset.erase v, modflag := true } v).trans
        (forElems_mkf freeElem_mkf v ((umcsFromVar { s with varset := s.varset.erase v, modflag := true } v).vars v).cn 0 _)).sel
    | vbound v b =>
      show (updateVarBound s v b).sel = s.sel
      unfold updateVarBound
      exact (foldl_mkf umcs_mkf _ _).sel
    | vpen v p => exact (updatePenalty_mkf s v p).sel
    | cbound c b =>
      show (updateCnstBound s c b).sel = s.sel
      unfold updateCnstBound
      exact (umcs_mkf _ c).sel
    | solve =>
      show (solveOp s).sel = s.sel
      unfold solveOp
      split
      · rfl
      · simp only
        split
        · unfold removeAllModified
          simp only
          split <;> split <;> rfl
        · rfl

theorem run_sel : ∀ (hist : List Op) (s : Sys), (run s hist).sel = s.sel := by
  intro hist
  induction hist with
  | nil => intro s; rfl
  | cons op rest ih =>
    intro s
    unfold run
    simp only [List.foldl_cons]
    exact (ih (step s op)).trans (step_sel_all s op)

theorem run_append_one (s : Sys) (h : List Op) (op : Op) : run s (h ++ [op]) = step (run s h) op := by
  unfold run
  rw [List.foldl_append]
  rfl

theorem step_solve_eff (s : Sys) (hnf : s.failed = false) (hm : s.modflag = true) (hsel : s.sel = true) :
    step s .solve = removeAllModified { s with modflag := false } := by
  unfold step solveOp
  simp [hnf, hm, hsel, Op.valid]

theorem run_cfg : ∀ (hist : List Op) (s : Sys), (run s hist).cfg = s.cfg := by
  intro hist
  induction hist with
  | nil => intro s; rfl
  | cons op rest ih =>
    intro s
    unfold run
    simp only [List.foldl_cons]
    exact (ih (step s op)).trans (step_cfg_all s op)

/-- **marks invariant over all histories** (repaired `remove_all_modified_cnst_set`) -/
theorem run_MK : ∀ (hist : List Op) (s : Sys), s.cfg.fixWrap = true → MK s → MK (run s hist) := by
  intro hist
  induction hist with
  | nil => intro s _ h; exact h
  | cons op rest ih =>
    intro s hfix h
    unfold run
    simp only [List.foldl_cons]
    exact ih (step s op) (by rw [step_cfg_all]; exact hfix) (MK_step op hfix h)

end SgVerif.LmmBook
