import SgVerif.LmmBook.Model
/-
Frame lemmas: what each internal function of the bookkeeping model leaves unchanged, and the generic
"a loop preserves what its body preserves" lemmas.  Core-only.
-/
namespace SgVerif.LmmBook

@[simp] theorem setC_cnsts (s : Sys) (c : Nat) (x : Cnst) (i : Nat) :
    (s.setC c x).cnsts i = if i = c then x else s.cnsts i := rfl
@[simp] theorem setC_vars (s : Sys) (c : Nat) (x : Cnst) : (s.setC c x).vars = s.vars := rfl
@[simp] theorem setV_vars (s : Sys) (v : Nat) (x : Var) (i : Nat) :
    (s.setV v x).vars i = if i = v then x else s.vars i := rfl
@[simp] theorem setV_cnsts (s : Sys) (v : Nat) (x : Var) : (s.setV v x).cnsts = s.cnsts := rfl
@[simp] theorem fail_cnsts (s : Sys) : s.fail.cnsts = s.cnsts := rfl
@[simp] theorem fail_vars (s : Sys) : s.fail.vars = s.vars := rfl

/-- generic loop lemma for `forElems` -/
theorem forElems_inv {P : Sys → Prop} {f : Sys → Nat → Nat → Nat → Sys}
    (hf : ∀ s c v i, P s → P (f s c v i)) (v : Nat) :
    ∀ (l : List Nat) (i : Nat) (s : Sys), P s → P (forElems f v i l s) := by
  intro l
  induction l with
  | nil => intro i s h; simpa [forElems] using h
  | cons c rest ih => intro i s h; simp only [forElems]; exact ih _ _ (hf _ _ _ _ h)

theorem foldl_inv {α : Type} {P : Sys → Prop} {f : Sys → α → Sys} (hf : ∀ s a, P s → P (f s a)) :
    ∀ (l : List α) (s : Sys), P s → P (l.foldl f s) := by
  intro l
  induction l with
  | nil => intro s h; simpa using h
  | cons a rest ih => intro s h; simp only [List.foldl_cons]; exact ih _ (hf _ _ h)

/-! ### the modified-set functions only touch `modified`, the `visited` marks and `failed` -/

/-- `s'` differs from `s` at most in `modified`, `failed`, and the `visited` field of variables -/
structure MarkOnly (s s' : Sys) : Prop where
  cnsts : s'.cnsts = s.cnsts
  cfg : s'.cfg = s.cfg
  sel : s'.sel = s.sel
  nv : s'.nv = s.nv
  nc : s'.nc = s.nc
  varset : s'.varset = s.varset
  active : s'.active = s.active
  counter : s'.counter = s.counter
  modflag : s'.modflag = s.modflag
  vars : ∀ v, { s'.vars v with visited := 0 } = { s.vars v with visited := 0 }

theorem MarkOnly.refl (s : Sys) : MarkOnly s s := ⟨rfl, rfl, rfl, rfl, rfl, rfl, rfl, rfl, rfl, fun _ => rfl⟩

theorem MarkOnly.trans {a b c : Sys} (h1 : MarkOnly a b) (h2 : MarkOnly b c) : MarkOnly a c :=
  ⟨h2.cnsts.trans h1.cnsts, h2.cfg.trans h1.cfg, h2.sel.trans h1.sel, h2.nv.trans h1.nv, h2.nc.trans h1.nc,
   h2.varset.trans h1.varset, h2.active.trans h1.active, h2.counter.trans h1.counter, h2.modflag.trans h1.modflag,
   fun v => (h2.vars v).trans (h1.vars v)⟩

theorem MarkOnly.pen {s s' : Sys} (h : MarkOnly s s') (v : Nat) : (s'.vars v).pen = (s.vars v).pen := by
  have := congrArg Var.pen (h.vars v); exact this
theorem MarkOnly.staged {s s' : Sys} (h : MarkOnly s s') (v : Nat) : (s'.vars v).staged = (s.vars v).staged := by
  have := congrArg Var.staged (h.vars v); exact this
theorem MarkOnly.cn {s s' : Sys} (h : MarkOnly s s') (v : Nat) : (s'.vars v).cn = (s.vars v).cn := by
  have := congrArg Var.cn (h.vars v); exact this
theorem MarkOnly.alive {s s' : Sys} (h : MarkOnly s s') (v : Nat) : (s'.vars v).alive = (s.vars v).alive := by
  have := congrArg Var.alive (h.vars v); exact this

theorem markOnly_fail (s : Sys) : MarkOnly s s.fail := ⟨rfl, rfl, rfl, rfl, rfl, rfl, rfl, rfl, rfl, fun _ => rfl⟩

theorem markOnly_push (s : Sys) (c : Nat) : MarkOnly s { s with modified := s.modified ++ [c] } :=
  ⟨rfl, rfl, rfl, rfl, rfl, rfl, rfl, rfl, rfl, fun _ => rfl⟩

theorem markOnly_setVisited (s : Sys) (v n : Nat) : MarkOnly s (s.setV v { s.vars v with visited := n }) := by
  refine ⟨rfl, rfl, rfl, rfl, rfl, rfl, rfl, rfl, rfl, fun i => ?_⟩
  simp only [setV_vars]
  split
  · subst_vars; rfl
  · rfl

theorem umcsInner_markOnly {recur : Sys → Nat → Sys} (hr : ∀ s c, MarkOnly s (recur s c)) (c v : Nat) :
    ∀ (l : List Nat) (s : Sys), MarkOnly s (umcsInner recur c v l s) := by
  intro l
  induction l with
  | nil => intro s; exact MarkOnly.refl s
  | cons c2 rest ih =>
    intro s
    simp only [umcsInner]
    split
    · exact MarkOnly.refl s
    · split
      · exact ((markOnly_push s c2).trans (hr _ _)).trans (ih _)
      · exact ih _

theorem umcsEntries_markOnly {recur : Sys → Nat → Sys} (hr : ∀ s c, MarkOnly s (recur s c)) (c : Nat) :
    ∀ (l : List Entry) (s : Sys), MarkOnly s (umcsEntries recur c l s) := by
  intro l
  induction l with
  | nil => intro s; exact MarkOnly.refl s
  | cons e rest ih =>
    intro s
    simp only [umcsEntries]
    exact ((umcsInner_markOnly hr c e.var _ s).trans (markOnly_setVisited _ _ _)).trans (ih _)

theorem umcsRec_markOnly : ∀ (n : Nat) (s : Sys) (c : Nat), MarkOnly s (umcsRec n s c) := by
  intro n
  induction n with
  | zero => intro s c; exact markOnly_fail s
  | succ n ih => intro s c; simp only [umcsRec]; exact umcsEntries_markOnly ih c _ s

theorem umcs_markOnly (s : Sys) (c : Nat) : MarkOnly s (umcs s c) := by
  unfold umcs
  split
  · exact (markOnly_push s c).trans (umcsRec_markOnly _ _ _)
  · exact MarkOnly.refl s

theorem foldl_umcs_markOnly : ∀ (l : List Nat) (s : Sys), MarkOnly s (l.foldl umcs s) := by
  intro l
  induction l with
  | nil => intro s; exact MarkOnly.refl s
  | cons c rest ih => intro s; simp only [List.foldl_cons]; exact (umcs_markOnly s c).trans (ih _)

theorem umcsFromVar_markOnly (s : Sys) (v : Nat) : MarkOnly s (umcsFromVar s v) := by
  unfold umcsFromVar
  simp only
  split
  · exact MarkOnly.refl s
  · split
    · exact foldl_umcs_markOnly _ s
    · split
      · exact umcs_markOnly s _
      · exact MarkOnly.refl s

end SgVerif.LmmBook
