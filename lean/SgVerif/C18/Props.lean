import SgVerif.LmmBook.Model
namespace SgVerif.C18
open SgVerif.LmmBook
theorem placeholder : True := trivial
end SgVerif.C18
