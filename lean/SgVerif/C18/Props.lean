import SgVerif.C18.Lemmas
/-
C18 — Concurrency limits are enforced without starvation.  Property theorems over the bookkeeping model
`SgVerif.LmmBook` (src/kernel/lmm/System.cpp).  `run (init cfg sel) h` is the state after the history `h` of public
operations; `cfg` selects the code as it is (`Cfg.current`) or with the proposed repairs (`Cfg.fixed`).
-/
namespace SgVerif.C18
open SgVerif.LmmBook

/-- **conc_counter_exact** (full strength): after ANY history of public operations (any length, any limits, any
weights, any policy, `force_creation` included, selective update on or off, current or repaired code), the counter
`concurrency_current_` of EVERY constraint equals the sum of `Element::get_concurrency()` over its enabled elements.
(Also on the branch where an `xbt_assert` fires: `failed` only records the abort.) -/
theorem conc_counter_exact (cfg : Cfg) (sel : Bool) (h : List Op) (c : Nat) :
    ((run (init cfg sel) h).cnsts c).cur
      = sumConc ((run (init cfg sel) h).cnsts c).policy ((run (init cfg sel) h).cnsts c).en :=
  run_CE _ h (init_CE cfg sel) c

/-- a constraint with a limit and no free slot: `get_concurrency_slack() <= 0` -/
def Full (s : Sys) (c : Nat) : Prop := ∃ l, (s.cnsts c).limit = some l ∧ l ≤ (s.cnsts c).cur

instance (s : Sys) (c : Nat) : Decidable (Full s c) := by
  unfold Full
  cases h : (s.cnsts c).limit with
  | none => exact isFalse (by simp)
  | some l => exact if h2 : l ≤ (s.cnsts c).cur then isTrue ⟨l, rfl, h2⟩ else isFalse (by simp; exact Nat.lt_of_not_le h2)

/-- a live variable that wants to run (`staged_sharing_penalty_ > 0`), is held back, and none of the constraints it
uses is full: it waits although every resource it uses has room -/
def Starving (s : Sys) (v : Nat) : Prop :=
  (s.vars v).alive = true ∧ 0 < (s.vars v).staged ∧ ∀ c ∈ (s.vars v).cn, ¬ Full s c

instance (s : Sys) (v : Nat) : Decidable (Starving s v) := by unfold Starving; exact inferInstance

/-
**staged_implies_some_full / no_starvation_step** — full-strength statement (NOT proved here, and FALSE on the
current code, see the counterexample below):

  theorem staged_implies_some_full (sel : Bool) (h : List Op) (hf : ∀ op ∈ h, op.noForce = true) (v : Nat) :
      ¬ Starving (run (init Cfg.fixed sel) h) v

i.e. with `update_variable_penalty(var, 0)` repaired (props/C18/proposed_fix.diff), after every public operation of
every history without `force_creation`, every staged variable uses a constraint with `get_concurrency_slack() = 0`.
What is established instead:
  * `staged_implies_some_full_counterexample`: the current code violates it (replayed on the library, finding
    `suspend-no-reexamine`);
  * `staged_ok_fixed_on_witness`: the repaired model does not, on the same history;
  * `force_creation_counterexample`: with `force_creation` duplicates it is false even on the repaired code;
  * `can_enable_iff`: the decision `Variable::can_enable` taken by `on_disabled_var` is exactly "staged and every
    constraint of the variable has a free slot" — the step-level fact the invariant rests on;
  * the monitor `starving` (Replay.lean) is evaluated on the implementation after every operation of every
    generated history, and model = patched library on all of them (NOTES.md).
The invariant proof (well-formedness of the two element lists + the walk of `on_disabled_var`) is left open.
-/

/-- limit 1; v0 enabled, v1 staged behind it; `update_variable_penalty(v0, 0)` (suspend) -/
def suspendWitness : List Op :=
  [.cnew 40 (some 1) .shared, .vnew 4 (-1), .expand 0 0 4 false, .vnew 4 (-1), .expand 0 1 4 false, .vpen 0 0]

/-- **counterexample on the current code**: after the suspend the constraint has a free slot (`cur = 0 < 1`), v1 is
still staged, no assertion fired: v1 starves.  Replayed on libsimgrid by props/C18/corpus.txt (W1). -/
theorem staged_implies_some_full_counterexample :
    Starving (run (init Cfg.current true) suspendWitness) 1 ∧ (run (init Cfg.current true) suspendWitness).failed = false := by
  decide

/-- with the repair the same history enables v1 -/
theorem staged_ok_fixed_on_witness :
    ¬ Starving (run (init Cfg.fixed true) suspendWitness) 1 ∧ ((run (init Cfg.fixed true) suspendWitness).vars 1).pen = 4 := by
  decide

/-- `expand(c, v, 1, force_creation = true)` on a constraint of limit 1 that v already uses: v is staged while the
constraint has a free slot (v would need two).  Holds for the repaired code as well (finding
`force-creation-duplicate`, only reachable through the ptask_L07 flag). -/
theorem force_creation_counterexample :
    Starving (run (init Cfg.fixed true)
      [.cnew 40 (some 1) .shared, .vnew 4 (-1), .expand 0 0 4 false, .expand 0 0 4 true]) 0 := by
  decide

theorem slackPos_none : slackPos none = true := rfl
theorem slackPos_some (m : Int) : slackPos (some m) = true ↔ 0 < m := by simp [slackPos]

/-- `Variable::get_min_concurrency_slack() > 0` (with its early return) says exactly that every constraint of the
variable has a positive slack -/
theorem minSlackGo_pos (s : Sys) : ∀ (l : List Nat) (acc : Option Int),
    slackPos (minSlackGo s l acc) = true ↔ (slackPos acc = true ∧ ∀ c ∈ l, slackPos (slack (s.cnsts c)) = true) := by
  intro l
  induction l with
  | nil => intro acc; simp [minSlackGo]
  | cons c rest ih =>
    intro acc
    simp only [minSlackGo, List.mem_cons, forall_eq_or_imp]
    cases hs : slack (s.cnsts c) with
    | none =>
      simp only [slackPos_none, true_and]
      exact ih acc
    | some sl =>
      cases acc with
      | none =>
        simp only [if_true, slackPos_none, true_and, slackPos_some]
        by_cases h0 : sl = 0
        · simp [h0, slackPos_some]
        · simp only [h0, if_false]
          rw [ih, slackPos_some]
      | some m =>
        simp only [slackPos_some]
        by_cases hlt : sl < m
        · simp only [hlt, decide_true, if_true]
          by_cases h0 : sl = 0
          · simp [h0, slackPos_some]
          · simp only [h0, if_false]
            rw [ih, slackPos_some]
            constructor
            · intro ⟨h1, h2⟩; exact ⟨by omega, h1, h2⟩
            · intro ⟨_, h1, h2⟩; exact ⟨h1, h2⟩
        · simp only [hlt, decide_false, Bool.false_eq_true, if_false]
          rw [ih, slackPos_some]
          constructor
          · intro ⟨h1, h2⟩; exact ⟨h1, by omega, h2⟩
          · intro ⟨h1, _, h2⟩; exact ⟨h1, h2⟩

/-- **can_enable_iff**: `on_disabled_var` enables a variable exactly when it is staged and every constraint it uses
has a free slot (for every state: no hypothesis) -/
theorem can_enable_iff (s : Sys) (v : Nat) :
    canEnable s v = true ↔ (0 < (s.vars v).staged ∧ ∀ c ∈ (s.vars v).cn, slackPos (slack (s.cnsts c)) = true) := by
  unfold canEnable minSlack
  rw [Bool.and_eq_true, minSlackGo_pos, decide_eq_true_eq]
  simp [slackPos_none]

/-! ### non-vacuity: concrete histories exercising staging, un-staging by `variable_free`, weights below 1 -/

/-- a staged variable is enabled by `variable_free` of the variable that held the slot; no assertion fires -/
example :
    let s := run (init Cfg.current false)
      [.cnew 40 (some 1) .shared, .vnew 4 (-1), .expand 0 0 4 false, .vnew 8 (-1), .expand 0 1 4 false, .vfree 0]
    s.failed = false ∧ (s.vars 1).pen = 8 ∧ (s.vars 1).staged = 0 ∧ (s.cnsts 0).cur = 1 := by decide

/-- an element of weight 1/2 does not count; growing it to 1 by a second `expand` makes it count and stages the
variable when the constraint is full -/
example :
    let s := run (init Cfg.current true)
      [.cnew 40 (some 1) .shared, .vnew 4 (-1), .expand 0 0 4 false, .vnew 4 (-1), .expand 0 1 2 false, .expand 0 1 2 false]
    s.failed = false ∧ (s.vars 1).pen = 0 ∧ (s.vars 1).staged = 4 ∧ (s.cnsts 0).cur = 1 ∧ Full s 0 := by decide

end SgVerif.C18
