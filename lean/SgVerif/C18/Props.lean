import SgVerif.C18.NoStarve5
/-
C18 — Concurrency limits are enforced without starvation.  Property theorems over the bookkeeping model
`SgVerif.LmmBook` (src/kernel/lmm/System.cpp).  `run (init cfg sel) h` is the state after the history `h` of public
operations; `cfg` selects the code as it is (`Cfg.current`) or with the proposed repairs (`Cfg.fixed`).
-/
namespace SgVerif.C18
open SgVerif.LmmBook

/-- **conc_counter_exact** (full strength): after ANY history of public operations (any length, any limits, any
weights, any policy, `force_creation` included, selective update on or off, current or repaired code), the counter
`concurrency_current_` of EVERY constraint equals the sum of `Element::get_concurrency()` over its enabled elements.
(Also on the branch where an `xbt_assert` fires: `failed` only records the abort.) -/
theorem conc_counter_exact (cfg : Cfg) (sel : Bool) (h : List Op) (c : Nat) :
    ((run (init cfg sel) h).cnsts c).cur
      = sumConc ((run (init cfg sel) h).cnsts c).policy ((run (init cfg sel) h).cnsts c).en :=
  run_CE _ h (init_CE cfg sel) c

/-- **conc_le_limit** (full strength): after ANY history of public operations (any length, limits, weights, policies,
`force_creation` included, selective on/off, current or repaired code) in which no `xbt_assert` fired
(`failed = false`: a fired assertion aborts the program, there is no state to speak of), EVERY constraint with a
concurrency limit has `concurrency_current_ ≤ concurrency_limit_`.  With `conc_counter_exact`: the number of enabled
elements counting towards the limit never exceeds it.  The heart is the loop lemma `disableVar_gives_back`
(C18/Bounded.lean): on the overflow path of `expand`, `disable_var` gives back exactly the slot `expand` took. -/
theorem conc_le_limit (cfg : Cfg) (sel : Bool) (h : List Op) (hnf : (run (init cfg sel) h).failed = false)
    (c l : Nat) (hl : ((run (init cfg sel) h).cnsts c).limit = some l) :
    ((run (init cfg sel) h).cnsts c).cur ≤ l ∧
    sumConc ((run (init cfg sel) h).cnsts c).policy ((run (init cfg sel) h).cnsts c).en ≤ l := by
  have h1 := run_BD cfg sel h hnf c l hl
  exact ⟨h1, by rw [← conc_counter_exact]; exact h1⟩

/-- **element lists are well-formed** (full strength, all histories incl. `force_creation`, no assertion fired): every
element `(v, i)` of every variable is linked exactly once — in the enabled list of its constraint iff the variable's
penalty is positive, else in the disabled list —, the lists contain nothing else, a staged variable is disabled.
(`check_concurrency`'s "Variable inconsistency" assertions.) -/
theorem lists_well_formed (cfg : Cfg) (sel : Bool) (h : List Op) (hnf : (run (init cfg sel) h).failed = false) :
    WF (run (init cfg sel) h) := run_WF cfg sel h hnf

/-- **staged_implies_some_full** (full strength for the repaired code): with `update_variable_penalty(var, 0)` repaired
(`fixSuspend`; the other two switches are free), after EVERY public operation of EVERY history without
`force_creation` in which no assertion fired, NO live staged variable starves: it uses at least one constraint with
`get_concurrency_slack() ≤ 0`.  The exclusion of `force_creation` is necessary (`force_creation_counterexample`,
registered finding `force-creation-duplicate`), and so is the repair (`staged_implies_some_full_counterexample`).
Proof: invariant `Inv` (C18/NoStarve*.lean) = element-list well-formedness + no duplicate constraint per variable +
no starvation; the walk lemma `odvWalk_sat` of `on_disabled_var`. -/
theorem staged_implies_some_full (cfg : Cfg) (hfix : cfg.fixSuspend = true) (sel : Bool) (h : List Op)
    (hf : ∀ op ∈ h, op.noForce = true) (hnf : (run (init cfg sel) h).failed = false) (v : Nat) :
    ¬ Starving (run (init cfg sel) h) v := by
  intro ⟨hal, hst, hno⟩
  rcases (Inv_run h _ hf (Inv_init cfg sel hfix) hnf).ns v hal with h0 | ⟨c, hc, hfull⟩
  · omega
  · exact hno c hc hfull

/-- **no_starvation_step** (full strength, repaired code): from ANY state (reachable or not) that is well-formed, has
no variable with two elements on one constraint, and in which no staged variable starves, one more public operation
(not `force_creation`) that fires no assertion leaves no staged variable starving — and re-establishes the
hypotheses. -/
theorem no_starvation_step (s : Sys) (op : Op) (hfix : s.cfg.fixSuspend = true) (hwf : WF s) (hnd : ND s)
    (hns : ∀ v, ¬ Starving s v) (hno : op.noForce = true) (hnf : (step s op).failed = false) :
    (∀ v, ¬ Starving (step s op) v) ∧ WF (step s op) ∧ ND (step s op) := by
  have hNS : NS s := by
    intro w hw
    by_cases hst : (s.vars w).staged = 0
    · exact Or.inl hst
    · right
      apply Classical.byContradiction
      intro hh
      exact hns w ⟨hw, by omega, fun c hc hf => hh ⟨c, hc, hf⟩⟩
  have hi := Inv_step op hno ⟨hwf, hnd, hNS, hfix⟩ hnf
  refine ⟨?_, hi.wf, hi.nd⟩
  intro v ⟨hal, hst, hno'⟩
  rcases hi.ns v hal with h0 | ⟨c, hc, hfull⟩
  · omega
  · exact hno' c hc hfull

/-- limit 1; v0 enabled, v1 staged behind it; `update_variable_penalty(v0, 0)` (suspend) -/
def suspendWitness : List Op :=
  [.cnew 40 (some 1) .shared, .vnew 4 (-1), .expand 0 0 4 false, .vnew 4 (-1), .expand 0 1 4 false, .vpen 0 0]

/-- **counterexample on the current code**: after the suspend the constraint has a free slot (`cur = 0 < 1`), v1 is
still staged, no assertion fired: v1 starves.  Replayed on libsimgrid by props/C18/corpus.txt (W1). -/
theorem staged_implies_some_full_counterexample :
    Starving (run (init Cfg.current true) suspendWitness) 1 ∧ (run (init Cfg.current true) suspendWitness).failed = false := by
  decide

/-- with the repair the same history enables v1 -/
theorem staged_ok_fixed_on_witness :
    ¬ Starving (run (init Cfg.fixed true) suspendWitness) 1 ∧ ((run (init Cfg.fixed true) suspendWitness).vars 1).pen = 4 := by
  decide

/-- `expand(c, v, 1, force_creation = true)` on a constraint of limit 1 that v already uses: v is staged while the
constraint has a free slot (v would need two).  Holds for the repaired code as well (finding
`force-creation-duplicate`, only reachable through the ptask_L07 flag). -/
theorem force_creation_counterexample :
    Starving (run (init Cfg.fixed true)
      [.cnew 40 (some 1) .shared, .vnew 4 (-1), .expand 0 0 4 false, .expand 0 0 4 true]) 0 := by
  decide

theorem slackPos_none : slackPos none = true := rfl
theorem slackPos_some (m : Int) : slackPos (some m) = true ↔ 0 < m := slackPos_some' m

/-- `Variable::get_min_concurrency_slack() > 0` (with its early return) says exactly that every constraint of the
variable has a positive slack -/
theorem minSlackGo_pos (s : Sys) : ∀ (l : List Nat) (acc : Option Int),
    slackPos (minSlackGo s l acc) = true ↔ (slackPos acc = true ∧ ∀ c ∈ l, slackPos (slack (s.cnsts c)) = true) :=
  minSlackGo_pos' s

/-- **can_enable_iff**: `on_disabled_var` enables a variable exactly when it is staged and every constraint it uses
has a free slot (for every state: no hypothesis) -/
theorem can_enable_iff (s : Sys) (v : Nat) :
    canEnable s v = true ↔ (0 < (s.vars v).staged ∧ ∀ c ∈ (s.vars v).cn, slackPos (slack (s.cnsts c)) = true) :=
  can_enable_iff' s v

/-! ### non-vacuity: concrete histories exercising staging, un-staging by `variable_free`, weights below 1 -/

/-- a staged variable is enabled by `variable_free` of the variable that held the slot; no assertion fires -/
example :
    let s := run (init Cfg.current false)
      [.cnew 40 (some 1) .shared, .vnew 4 (-1), .expand 0 0 4 false, .vnew 8 (-1), .expand 0 1 4 false, .vfree 0]
    s.failed = false ∧ (s.vars 1).pen = 8 ∧ (s.vars 1).staged = 0 ∧ (s.cnsts 0).cur = 1 := by decide

/-- an element of weight 1/2 does not count; growing it to 1 by a second `expand` makes it count and stages the
variable when the constraint is full -/
example :
    let s := run (init Cfg.current true)
      [.cnew 40 (some 1) .shared, .vnew 4 (-1), .expand 0 0 4 false, .vnew 4 (-1), .expand 0 1 2 false, .expand 0 1 2 false]
    s.failed = false ∧ (s.vars 1).pen = 0 ∧ (s.vars 1).staged = 4 ∧ (s.cnsts 0).cur = 1 ∧ Full s 0 := by decide

/-- non-vacuity of `staged_implies_some_full` / `conc_le_limit`: the suspend history on the repaired code has no
`force_creation`, fires no assertion, and reaches the limit -/
example : (∀ op ∈ suspendWitness, op.noForce = true) ∧ (run (init Cfg.fixed true) suspendWitness).failed = false ∧
    ((run (init Cfg.fixed true) suspendWitness).cnsts 0).limit = some 1 ∧ ((run (init Cfg.fixed true) suspendWitness).cnsts 0).cur = 1 := by
  decide

/-- non-vacuity of `no_starvation_step`: the state before the suspend satisfies the hypotheses (v1 is staged behind v0
on a full constraint), and the suspend is a non-failing step -/
example :
    let s := run (init Cfg.fixed true) (suspendWitness.take 5)
    s.cfg.fixSuspend = true ∧ WF s ∧ ND s ∧ (∀ v, ¬ Starving s v) ∧ (s.vars 1).staged = 4 ∧ Full s 0 ∧
    (step s (.vpen 0 0)).failed = false := by
  have hnf : (run (init Cfg.fixed true) (suspendWitness.take 5)).failed = false := by decide
  have hi := Inv_run (suspendWitness.take 5) _ (by decide) (Inv_init Cfg.fixed true rfl) hnf
  refine ⟨by decide, hi.wf, hi.nd, ?_, by decide, by decide, by decide⟩
  exact staged_implies_some_full Cfg.fixed rfl true _ (by decide) hnf

end SgVerif.C18
