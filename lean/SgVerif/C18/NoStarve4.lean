import SgVerif.C18.NoStarve3
/-
C18 helper lemmas, part 7: the configuration is constant; `ND` through every operation without `force_creation`;
the combined invariant through `step` and `run`.  Core-only.
-/
namespace SgVerif.C18
open SgVerif.LmmBook

/-! ### frames: `cfg` and `cn` -/

theorem stageBack_frame {s : Sys} (v : Nat) (hnf : (stageBack s v).failed = false) :
    Dims s (stageBack s v) ∧ ∀ u, ((stageBack s v).vars u).cn = (s.vars u).cn := by
  unfold stageBack at hnf ⊢
  simp only at hnf ⊢
  have hnf2 : (((disableVar s v).vars v).cn.foldl onDisabledVar (disableVar s v)).failed = false := hnf
  have hnf1 := foldl_sticky onDisabledVar_sticky _ _ hnf2
  have hv1 := disableVar_vars s v hnf1
  have hd2 := foldl_dims onDisabledVar_dims ((disableVar s v).vars v).cn (disableVar s v)
  have hc2 : ∀ u, ((((disableVar s v).vars v).cn.foldl onDisabledVar (disableVar s v)).vars u).cn = ((disableVar s v).vars u).cn := by
    intro u
    exact (foldl_inv (P := fun s' => CnSame (disableVar s v) s') (fun s' c h => h.trans (onDisabledVar_cnSame s' c)) _ _
      (CnSame.refl _) u).1
  refine ⟨((disableVar_dims s v).trans hd2).trans ⟨rfl, rfl, rfl, rfl⟩, ?_⟩
  intro u
  simp only [setV_vars]
  split
  · rename_i hu; subst hu; simp only; rw [hc2, hv1.cn]
  · rw [hc2, hv1.cn]

theorem expandTail_frame {s : Sys} (c v w' : Nat) (hnf : (expandTail s c v w').failed = false) :
    Dims s (expandTail s c v w') ∧ ∀ u, ((expandTail s c v w').vars u).cn = (s.vars u).cn := by
  unfold expandTail at hnf ⊢
  simp only at hnf ⊢
  generalize hs1 : (if (s.vars v).pen ≠ 0 then _ else s) = s1 at hnf ⊢
  have hnf1 : s1.failed = false := by
    split at hnf
    · split at hnf
      · exact umcs_sticky _ _ (umcsFromVar_sticky _ _ hnf)
      · exact umcs_sticky _ _ hnf
    · exact hnf
  have h1 : Dims s s1 ∧ ∀ u, (s1.vars u).cn = (s.vars u).cn := by
    rw [← hs1] at hnf1 ⊢
    split
    · rename_i hp
      rw [if_pos hp] at hnf1
      split
      · exact ⟨Dims.refl s, fun _ => rfl⟩
      · rename_i lim hl
        split
        · rename_i hlt
          rw [hl] at hnf1
          simp only [hlt, if_true] at hnf1
          exact stageBack_frame v hnf1
        · exact ⟨Dims.refl s, fun _ => rfl⟩
    · exact ⟨Dims.refl s, fun _ => rfl⟩
  split
  · split
    · have m := (umcs_markOnly s1 c).trans (umcsFromVar_markOnly _ v)
      exact ⟨h1.1.trans (Dims.of_markOnly m), fun u => by rw [m.cn]; exact h1.2 u⟩
    · have m := umcs_markOnly s1 c
      exact ⟨h1.1.trans (Dims.of_markOnly m), fun u => by rw [m.cn]; exact h1.2 u⟩
  · exact h1

theorem freeElem_dims (s : Sys) (c v i : Nat) : Dims s (freeElem s c v i) := by
  unfold freeElem
  simp only
  split
  · split
    · exact ⟨rfl, rfl, rfl, rfl⟩
    · split
      · exact ⟨rfl, rfl, rfl, rfl⟩
      · exact Dims.trans (b := s.setC c _) ⟨rfl, rfl, rfl, rfl⟩ (onDisabledVar_dims _ c)
  · split
    · exact ⟨rfl, rfl, rfl, rfl⟩
    · exact Dims.trans (b := s.setC c _) ⟨rfl, rfl, rfl, rfl⟩ (onDisabledVar_dims _ c)
  · exact ⟨rfl, rfl, rfl, rfl⟩

theorem step_cfg (s : Sys) (op : Op) (hnf : (step s op).failed = false) : (step s op).cfg = s.cfg := by
  unfold step at hnf ⊢
  split
  · rfl
  · rename_i hv
    simp only [hv] at hnf
    cases op with
    | cnew b l p => rfl
    | vnew p b => rfl
    | expand c v w f =>
      show (expand s c v w f).cfg = s.cfg
      have hnf' : (expand s c v w f).failed = false := hnf
      rcases expand_inv s c v w f hnf' with ⟨i, e, _, _, _, _, heq⟩ | ⟨i, e, _, _, _, heq⟩ | ⟨_, heq⟩
      · rw [heq] at hnf' ⊢; exact (expandTail_frame _ _ _ hnf').1.2.2.1
      · rw [heq] at hnf' ⊢; exact (expandTail_frame _ _ _ hnf').1.2.2.1
      · rw [heq] at hnf' ⊢; exact ((expandTail_frame _ _ _ hnf').1.2.2.1).trans (createElem_dims s c v w).2.2.1
    | vfree v =>
      show (varFree s v).cfg = s.cfg
      unfold varFree
      simp only
      have m := umcsFromVar_markOnly { s with varset := s.varset.erase v, modflag := true } v
      have d := forElems_dims freeElem_dims v ((umcsFromVar { s with varset := s.varset.erase v, modflag := true } v).vars v).cn 0
        (umcsFromVar { s with varset := s.varset.erase v, modflag := true } v)
      exact d.2.2.1.trans m.cfg
    | vbound v b =>
      show (updateVarBound s v b).cfg = s.cfg
      unfold updateVarBound
      exact (foldl_umcs_markOnly _ _).cfg
    | vpen v p =>
      show (updatePenalty s v p).cfg = s.cfg
      unfold updatePenalty
      simp only
      split
      · rfl
      · split
        · split
          · rfl
          · exact (enableVar_dims _ v).2.2.1
        · split
          · split
            · exact ((disableVar_dims _ v).trans (foldl_dims onDisabledVar_dims _ _)).2.2.1
            · exact (disableVar_dims _ v).2.2.1
          · exact (umcsFromVar_markOnly _ _).cfg
    | cbound c b =>
      show (updateCnstBound s c b).cfg = s.cfg
      unfold updateCnstBound
      exact (umcs_markOnly _ _).cfg
    | solve =>
      show (solveOp s).cfg = s.cfg
      unfold solveOp
      split
      · rfl
      · simp only
        split
        · unfold removeAllModified
          simp only
          split <;> split <;> rfl
        · rfl

/-! ### `ND` -/

theorem ND_step {s : Sys} (op : Op) (hno : op.noForce = true) (h : ND s) (hnf : (step s op).failed = false) :
    ND (step s op) := by
  unfold step at hnf ⊢
  split
  · exact h
  · rename_i hv
    simp only [hv] at hnf
    cases op with
    | cnew b l p => exact ND_cnSame (s' := cnew s b l p) h (fun _ => rfl)
    | vnew p b =>
      show ND (vnew s p b)
      intro u
      rw [vnew_vars]
      split
      · exact List.nodup_nil
      · exact h u
    | expand c v w f =>
      show ND (expand s c v w f)
      have hnf' : (expand s c v w f).failed = false := hnf
      have hf : f = false := by simpa [Op.noForce] using hno
      rcases expand_inv s c v w f hnf' with ⟨i, e, _, _, _, _, heq⟩ | ⟨i, e, _, _, _, heq⟩ | ⟨hnot, heq⟩
      · rw [heq] at hnf' ⊢
        exact ND_cnSame (s := reuseEn s c v i w e) (ND_cnSame h (fun _ => rfl)) (expandTail_frame _ _ _ hnf').2
      · rw [heq] at hnf' ⊢
        exact ND_cnSame (s := reuseDis s c v i w e) (ND_cnSame h (fun _ => rfl)) (expandTail_frame _ _ _ hnf').2
      · rw [heq] at hnf' ⊢
        refine ND_cnSame (s := createElem s c v w) ?_ (expandTail_frame _ _ _ hnf').2
        intro u
        rw [createElem_vars]; simp only
        split
        · simp only
          rw [List.nodup_append]
          refine ⟨h v, by simp, ?_⟩
          intro a ha b hb hab
          rw [List.mem_singleton.mp hb] at hab
          rw [hab] at ha
          exact hnot hf ha
        · exact h u
    | vfree v =>
      show ND (varFree s v)
      unfold varFree
      simp only
      have m := umcsFromVar_markOnly { s with varset := s.varset.erase v, modflag := true } v
      have hc := forElems_inv (P := fun s' => CnSame (umcsFromVar { s with varset := s.varset.erase v, modflag := true } v) s')
        (fun s' c v i hh => hh.trans (freeElem_cnSame s' c v i)) v
        ((umcsFromVar { s with varset := s.varset.erase v, modflag := true } v).vars v).cn 0 _ (CnSame.refl _)
      intro u
      simp only [setV_vars]
      split
      · exact List.nodup_nil
      · rw [(hc u).1, m.cn]; exact h u
    | vbound v b =>
      show ND (updateVarBound s v b)
      unfold updateVarBound
      simp only
      refine ND_cnSame h ?_
      intro u
      rw [(foldl_umcs_markOnly _ _).cn]
      simp only [setV_vars]
      split
      · rename_i hu; rw [hu]
      · rfl
    | vpen v p =>
      show ND (updatePenalty s v p)
      have hnf' : (updatePenalty s v p).failed = false := hnf
      unfold updatePenalty at hnf' ⊢
      simp only at hnf' ⊢
      split
      · exact h
      · rename_i hne
        rw [if_neg hne] at hnf'
        split
        · rename_i hc
          rw [if_pos hc] at hnf'
          have h1 : ND (({ s with modflag := true } : Sys).setV v { s.vars v with staged := p }) := by
            refine ND_cnSame h ?_
            intro u; simp only [setV_vars]; split
            · rename_i hu; rw [hu]
            · rfl
          split
          · exact h1
          · exact ND_cnSame h1 (enableVar_vars _ v).cn
        · rename_i hc
          rw [if_neg hc] at hnf'
          split
          · rename_i hc2
            rw [if_pos hc2] at hnf'
            have h0 : ND { s with modflag := true } := ND_cnSame h (fun _ => rfl)
            split
            · rename_i hfix
              rw [if_pos hfix] at hnf'
              have hnf1 := foldl_sticky onDisabledVar_sticky _ _ hnf'
              have h1 : ND (disableVar { s with modflag := true } v) := ND_cnSame h0 (disableVar_vars _ v hnf1).cn
              exact foldl_inv (P := ND) (fun s' c hh => ND_onDisabledVar c hh) _ _ h1
            · rename_i hfix
              rw [if_neg hfix] at hnf'
              exact ND_cnSame h0 (disableVar_vars _ v hnf').cn
          · refine ND_cnSame h ?_
            intro u
            rw [(umcsFromVar_markOnly _ _).cn]
            simp only [setV_vars]
            split
            · rename_i hu; rw [hu]
            · rfl
    | cbound c b => exact ND_cnSame (s' := updateCnstBound s c b) h (fun u => by
        show ((umcs { s with modflag := true } c).vars u).cn = (s.vars u).cn
        rw [(umcs_markOnly _ _).cn])
    | solve =>
      show ND (solveOp s)
      unfold solveOp
      split
      · exact h
      · simp only
        split
        · unfold removeAllModified
          simp only
          refine ND_cnSame h ?_
          intro u
          split <;> split
          all_goals first
            | rfl
            | (simp only [resetVisited]; split <;> rfl)
        · exact ND_cnSame h (fun _ => rfl)

end SgVerif.C18
