import SgVerif.C18.NoStarve2
/-
C18 helper lemmas, part 6: `NS` through `variable_free`, `update_variable_penalty` and the rest; `cfg` is constant;
`ND` through every operation without `force_creation`; `step` and `run`.  Core-only.
-/
namespace SgVerif.C18
open SgVerif.LmmBook

/-! ### `variable_free` -/

theorem NSP_lower {s : Sys} {x : Option Nat} (c : Nat) (k : Cnst) (h : NSP s [] x) (hk : k.limit = (s.cnsts c).limit) :
    NSP (s.setC c k) [c] x := by
  intro w hw hx
  rcases h w hw hx with h1 | ⟨c', _, hp, _⟩
  · rcases h1 with h1 | ⟨c', hc', l, hl, hle⟩
    · exact Or.inl (Or.inl h1)
    · by_cases hcc : c' = c
      · subst hcc
        refine Or.inr ⟨c', hc', List.mem_singleton.mpr rfl, ?_⟩
        simp only [setC_cnsts, if_true, hk, hl]
        intro hh; cases hh
      · refine Or.inl (Or.inr ⟨c', hc', l, ?_, ?_⟩)
        · simp only [setC_cnsts, hcc, if_false]; exact hl
        · simp only [setC_cnsts, hcc, if_false]; exact hle
  · simp at hp

theorem NSP_freeTail {s : Sys} {v i : Nat} (c : Nat) (hwf : WFX s v i) (hnd : ND s) (h : NSP s [c] (some v))
    (hnf : (freeTail s c).failed = false) : NSP (freeTail s c) [] (some v) := by
  have hdis : ∀ w, (s.vars w).alive = true → some w ≠ some v → (s.vars w).staged ≠ 0 → c ∈ (s.vars w).cn →
      ∃ e ∈ (s.cnsts c).dis, e.var = w := by
    intro w _ hx hst hc
    exact hdis_of_WFX hwf w c (Or.inl (fun hh => hx (by rw [hh]))) hst hc
  unfold freeTail at hnf ⊢
  split
  · rename_i hemp
    rw [Bool.and_eq_true] at hemp
    have hd : (s.cnsts c).dis = [] := List.isEmpty_iff.mp hemp.2
    intro w hw hx
    have hw' : (s.vars w).alive = true := hw
    rcases h w hw' hx with h1 | ⟨c', hc', hp, _⟩
    · exact Or.inl (Sat_frame (s := s) rfl rfl h1)
    · have hcc : c' = c := List.mem_singleton.mp hp
      subst hcc
      by_cases hst : (s.vars w).staged = 0
      · exact Or.inl (Or.inl hst)
      · obtain ⟨e, he, _⟩ := hdis w hw' hx hst hc'
        rw [hd] at he; simp at he
  · rename_i hemp
    simp only [hemp] at hnf
    exact NSP_onDisabledVar c h hdis (dis_vars_nodup hwf.l hnd c) hnf

theorem ND_freeTail {s : Sys} (c : Nat) (h : ND s) : ND (freeTail s c) :=
  ND_cnSame h (fun u => (freeTail_cnSame s c u).1)

theorem NSP_freeElem {s : Sys} {v i : Nat} (c : Nat) (hwf : WFX s v i) (hnd : ND s) (h : NSP s [] (some v))
    (hcn : (s.vars v).cn[i]? = some c) (hnf : (freeElem s c v i).failed = false) :
    NSP (freeElem s c v i) [] (some v) := by
  rcases freeElem_inv s c v i hnf with ⟨hp, e, he, _, heq⟩ | ⟨hp, hen, e, he, heq⟩
  · rw [heq] at hnf ⊢
    exact NSP_freeTail c (WFX_freedEn c e hwf hcn (by omega)) (ND_cnSame hnd (fun _ => rfl)) (NSP_lower c _ h rfl) hnf
  · rw [heq] at hnf ⊢
    exact NSP_freeTail c (WFX_freedDis c hwf hcn hp) (ND_cnSame hnd (fun _ => rfl)) (NSP_lower c _ h rfl) hnf

theorem NS_varFree {s : Sys} (v : Nat) (hwf : WF s) (hnd : ND s) (h : NS s) (hnf : (varFree s v).failed = false) :
    NS (varFree s v) := by
  unfold varFree at hnf ⊢
  simp only at hnf ⊢
  generalize hs1 : umcsFromVar { s with varset := s.varset.erase v, modflag := true } v = s1 at hnf ⊢
  have hm : MarkOnly { s with varset := s.varset.erase v, modflag := true } s1 := by
    rw [← hs1]; exact umcsFromVar_markOnly _ _
  have h0 : WFX { s with varset := s.varset.erase v, modflag := true } v 0 :=
    ⟨(hwf.toX v).l.frame rfl (fun _ => rfl), hwf.so.frame ⟨rfl, rfl, rfl, rfl⟩ (fun _ => rfl) (fun _ => rfl) hwf.so.st,
     Nat.zero_le _⟩
  have hwf1 : WFX s1 v 0 := h0.markOnly hm
  have hnd1 : ND s1 := ND_cnSame hnd hm.cn
  have hns1 : NS s1 := NS_markOnly (s := { s with varset := s.varset.erase v, modflag := true })
    (fun w hw => Sat_frame (s := s) rfl rfl (h w hw)) hm
  have hnf2 : (forElems freeElem v 0 (s1.vars v).cn s1).failed = false := hnf
  have hloop := forElems_ind0 (f := freeElem) v (s1.vars v).cn
    (fun i st => WFX st v i ∧ ND st ∧ NSP st [] (some v) ∧ CnSame s1 st) freeElem_sticky ?_ s1
    ⟨hwf1, hnd1, hns1.toNSP [] (some v), CnSame.refl s1⟩ hnf2
  · obtain ⟨_, _, hp, hc⟩ := hloop
    generalize forElems freeElem v 0 (s1.vars v).cn s1 = s3 at hp hc ⊢
    intro w hw
    by_cases hwv : w = v
    · subst hwv; simp [setV_vars] at hw
    · have hvw : (s3.setV v { s3.vars v with alive := false, cn := [] }).vars w = s3.vars w := by
        simp only [setV_vars, hwv, if_false]
      rw [hvw] at hw
      rcases hp w hw (fun hh => hwv (Option.some.inj hh)) with h1 | ⟨_, _, hp', _⟩
      · exact Sat_frame (s := s3) rfl hvw h1
      · simp at hp'
  · intro st c i hi ⟨hw, hn, hp, hc⟩ hnf'
    have hcn : (st.vars v).cn[i]? = some c := by rw [(hc v).1]; exact hi
    exact ⟨WFX_freeElem c hw hcn hnf', ND_cnSame hn (fun u => (freeElem_cnSame st c v i u).1),
      NSP_freeElem c hw hn hp hcn hnf', hc.trans (freeElem_cnSame st c v i)⟩

/-! ### `update_variable_penalty` -/

theorem minSlackGo_zero (s : Sys) : ∀ (l : List Nat) (acc : Option Int), minSlackGo s l acc = some 0 →
    acc = some 0 ∨ ∃ c ∈ l, slack (s.cnsts c) = some 0 := by
  intro l
  induction l with
  | nil => intro acc h; exact Or.inl h
  | cons c rest ih =>
    intro acc h
    simp only [minSlackGo] at h
    cases hs : slack (s.cnsts c) with
    | none =>
      rw [hs] at h
      rcases ih acc h with h1 | ⟨c', hc', h2⟩
      · exact Or.inl h1
      · exact Or.inr ⟨c', List.mem_cons_of_mem _ hc', h2⟩
    | some sl =>
      rw [hs] at h
      simp only at h
      have key : ∀ (less : Bool), (if less = true then (if sl = 0 then some 0 else minSlackGo s rest (some sl))
          else minSlackGo s rest acc) = some 0 → acc = some 0 ∨ ∃ c_1, c_1 ∈ c :: rest ∧ slack (s.cnsts c_1) = some 0 := by
        intro less hh
        cases less with
        | true =>
          simp only [if_true] at hh
          by_cases h0 : sl = 0
          · exact Or.inr ⟨c, List.mem_cons_self, by rw [hs, h0]⟩
          · rw [if_neg h0] at hh
            rcases ih _ hh with h1 | ⟨c', hc', h2⟩
            · exact absurd (Option.some.inj h1) h0
            · exact Or.inr ⟨c', List.mem_cons_of_mem _ hc', h2⟩
        | false =>
          simp only [Bool.false_eq_true, if_false] at hh
          rcases ih acc hh with h1 | ⟨c', hc', h2⟩
          · exact Or.inl h1
          · exact Or.inr ⟨c', List.mem_cons_of_mem _ hc', h2⟩
      exact key _ h

theorem full_of_slack_zero {s : Sys} {c : Nat} (h : slack (s.cnsts c) = some 0) : Full s c := by
  apply full_of_not_slackPos
  rw [h]
  decide

theorem NS_updatePenalty {s : Sys} (v p : Nat) (hwf : WF s) (hnd : ND s) (h : NS s) (hfix : s.cfg.fixSuspend = true)
    (hnf : (updatePenalty s v p).failed = false) : NS (updatePenalty s v p) := by
  unfold updatePenalty at hnf ⊢
  simp only at hnf ⊢
  have h0 : NS { s with modflag := true } := fun w hw => Sat_frame (s := s) rfl rfl (h w hw)
  have hwf0 : WF { s with modflag := true } := WF_modflag hwf true
  split
  · exact h
  · rename_i hne
    rw [if_neg hne] at hnf
    split
    · rename_i hc
      rw [if_pos hc] at hnf
      -- everybody but `v` is unaffected by the new staged penalty of `v`
      have hothers : ∀ w, w ≠ v → Sat s w →
          Sat (({ s with modflag := true } : Sys).setV v { s.vars v with staged := p }) w := by
        intro w hwv hs
        exact Sat_frame (s := s) rfl (by simp only [setV_vars, hwv, if_false]) hs
      split
      · rename_i hms
        intro w hw
        by_cases hwv : w = v
        · subst hwv
          unfold minSlack at hms
          rcases minSlackGo_zero _ _ _ hms with h1 | ⟨c, hc', h2⟩
          · cases h1
          · right
            exact ⟨c, hc', full_of_slack_zero h2⟩
        · have hw' : (s.vars w).alive = true := by simpa [setV_vars, hwv] using hw
          exact hothers w hwv (h w hw')
      · rename_i hms
        rw [if_neg hms] at hnf
        have hg := Grow_enableVar v hnf
        have hv := enableVar_vars (({ s with modflag := true } : Sys).setV v { s.vars v with staged := p }) v
        intro w hw
        by_cases hwv : w = v
        · subst hwv; exact Or.inl hv.stagedv
        · rw [hv.alive] at hw
          have hw' : (s.vars w).alive = true := by simpa [setV_vars, hwv] using hw
          exact hg.sat (hothers w hwv (h w hw'))
    · rename_i hc
      rw [if_neg hc] at hnf
      split
      · rename_i hc2
        rw [if_pos hc2] at hnf
        have hpen : (({ s with modflag := true } : Sys).vars v).pen ≠ 0 := by
          show (s.vars v).pen ≠ 0
          omega
        have hcfg : (disableVar { s with modflag := true } v).cfg.fixSuspend = true := by
          rw [(disableVar_dims _ v).2.2.1]; exact hfix
        rw [if_pos hcfg] at hnf ⊢
        have hnf1 := foldl_sticky onDisabledVar_sticky _ _ hnf
        have hv1 := disableVar_vars _ v hnf1
        have hwf1 := WF_disableVar v hwf0 hpen hnf1
        have hnd0 : ND { s with modflag := true } := ND_cnSame hnd (fun _ => rfl)
        have hnd1 : ND (disableVar { s with modflag := true } v) := ND_cnSame hnd0 hv1.cn
        have hp1 := NSP_disableVar v h0 hnd0 hnf1
        apply NSP.toNS
        apply NSP_foldl_onDisabledVar _ _ hwf1 hnd1 _ hnf
        rw [List.append_nil]
        exact hp1
      · rename_i hc2
        apply NS_markOnly _ (umcsFromVar_markOnly _ _)
        intro w hw
        have hw' : (s.vars w).alive = true := by
          simp only [setV_vars] at hw
          split at hw
          · rename_i hwv; rw [hwv]; exact hw
          · exact hw
        rcases h w hw' with h1 | ⟨c, hc', hf⟩
        · left
          simp only [setV_vars]
          split
          · rename_i hwv; rw [hwv] at h1; exact h1
          · exact h1
        · right
          refine ⟨c, ?_, hf⟩
          simp only [setV_vars]
          split
          · rename_i hwv; rw [hwv] at hc'; exact hc'
          · exact hc'

end SgVerif.C18
