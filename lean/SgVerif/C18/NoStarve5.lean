import SgVerif.C18.NoStarve4
/-
C18 helper lemmas, part 8: `NS` through `step` and `run` (repaired `update_variable_penalty`, no
`force_creation`).  Core-only.
-/
namespace SgVerif.C18
open SgVerif.LmmBook

/-- `Sat` only reads `staged`, `cn` of the variable and `limit`, `cur` of the constraints -/
theorem Sat_frame' {s s' : Sys} {w : Nat} (hl : ∀ c, (s'.cnsts c).limit = (s.cnsts c).limit)
    (hcur : ∀ c, (s'.cnsts c).cur = (s.cnsts c).cur) (hcn : (s'.vars w).cn = (s.vars w).cn)
    (hst : (s'.vars w).staged = (s.vars w).staged) (h : Sat s w) : Sat s' w := by
  rcases h with h | ⟨c, hc, l, hl', hle⟩
  · left; rw [hst]; exact h
  · right; exact ⟨c, by rw [hcn]; exact hc, l, by rw [hl]; exact hl', by rw [hcur]; exact hle⟩

theorem NS_step {s : Sys} (op : Op) (hno : op.noForce = true) (hfix : s.cfg.fixSuspend = true) (hwf : WF s)
    (hnd : ND s) (h : NS s) (hnf : (step s op).failed = false) : NS (step s op) := by
  unfold step at hnf ⊢
  split
  · exact h
  · rename_i hv
    simp only [hv] at hnf
    have hvalid : op.valid s = true := by
      cases hh : op.valid s with
      | true => rfl
      | false => simp [hh] at hv
    cases op with
    | cnew b l p =>
      show NS (cnew s b l p)
      intro w hw
      have hw' : (s.vars w).alive = true := hw
      rcases h w hw' with h1 | ⟨c, hc, l', hl', hle⟩
      · exact Or.inl h1
      · have hne : c ≠ s.nc := Nat.ne_of_lt (hwf.so.cnlt w c hc)
        refine Or.inr ⟨c, hc, l', ?_, ?_⟩
        · show ((s.setC s.nc _).cnsts c).limit = some l'
          simp only [setC_cnsts, hne, if_false]; exact hl'
        · show l' ≤ ((s.setC s.nc _).cnsts c).cur
          simp only [setC_cnsts, hne, if_false]; exact hle
    | vnew p b =>
      show NS (vnew s p b)
      intro w hw
      rw [vnew_vars] at hw
      by_cases hwn : w = s.nv
      · left; rw [vnew_vars, if_pos hwn]
      · rw [if_neg hwn] at hw
        exact Sat_frame' (s := s) (fun _ => rfl) (fun _ => rfl) (by rw [vnew_vars, if_neg hwn])
          (by rw [vnew_vars, if_neg hwn]) (h w hw)
    | expand c v w f =>
      have hf : f = false := by simpa [Op.noForce] using hno
      subst hf
      simp only [Op.valid, liveC, liveV, Bool.and_eq_true, decide_eq_true_eq] at hvalid
      exact NS_expand c v w hwf hnd h hvalid.1 hvalid.2.2 hnf
    | vfree v => exact NS_varFree v hwf hnd h hnf
    | vbound v b =>
      show NS (updateVarBound s v b)
      unfold updateVarBound
      simp only
      apply NS_markOnly _ (foldl_umcs_markOnly _ _)
      intro w hw
      have hw' : (s.vars w).alive = true := by
        simp only [setV_vars] at hw
        split at hw
        · rename_i hwv; rw [hwv]; exact hw
        · exact hw
      refine Sat_frame' (s := s) (fun _ => rfl) (fun _ => rfl) ?_ ?_ (h w hw')
      · simp only [setV_vars]; split
        · rename_i hwv; rw [hwv]
        · rfl
      · simp only [setV_vars]; split
        · rename_i hwv; rw [hwv]
        · rfl
    | vpen v p => exact NS_updatePenalty v p hwf hnd h hfix hnf
    | cbound c b =>
      show NS (updateCnstBound s c b)
      unfold updateCnstBound
      simp only
      have m := umcs_markOnly { s with modflag := true } c
      intro w hw
      have hw' : (s.vars w).alive = true := by rw [← m.alive]; exact hw
      refine Sat_frame' (s := s) ?_ ?_ (m.cn w) (m.staged w) (h w hw')
      · intro c'; simp only [setC_cnsts]; split
        · rename_i hcc; rw [hcc, m.cnsts]
        · rw [m.cnsts]
      · intro c'; simp only [setC_cnsts]; split
        · rename_i hcc; rw [hcc, m.cnsts]
        · rw [m.cnsts]
    | solve =>
      show NS (solveOp s)
      unfold solveOp
      split
      · exact h
      · simp only
        split
        · unfold removeAllModified
          simp only
          have key : ∀ s' : Sys, s'.cnsts = s.cnsts → (∀ u, VEq (s'.vars u) (s.vars u)) → NS s' := by
            intro s' hc hv w hw
            rw [(hv w).alive] at hw
            exact Sat_frame' (fun _ => by rw [hc]) (fun _ => by rw [hc]) (hv w).cn (hv w).staged (h w hw)
          apply key
          · split <;> split <;> rfl
          · intro u
            split <;> split
            all_goals first
              | rfl
              | (simp only [resetVisited, VEq]; split <;> rfl)
        · intro w hw; exact Sat_frame (s := s) rfl rfl (h w hw)

/-- the combined invariant of the repaired code on histories without `force_creation` -/
structure Inv (s : Sys) : Prop where
  wf : WF s
  nd : ND s
  ns : NS s
  fix : s.cfg.fixSuspend = true

theorem Inv_step {s : Sys} (op : Op) (hno : op.noForce = true) (h : Inv s) (hnf : (step s op).failed = false) :
    Inv (step s op) :=
  ⟨WF_step op h.wf hnf, ND_step op hno h.nd hnf, NS_step op hno h.fix h.wf h.nd h.ns hnf,
   by rw [step_cfg s op hnf]; exact h.fix⟩

theorem Inv_init (cfg : Cfg) (sel : Bool) (hfix : cfg.fixSuspend = true) : Inv (init cfg sel) :=
  ⟨WF_init cfg sel, fun _ => List.nodup_nil, fun w hw => by simp [init] at hw, hfix⟩

theorem Inv_run : ∀ (hist : List Op) (s : Sys), (∀ op ∈ hist, op.noForce = true) → Inv s →
    (run s hist).failed = false → Inv (run s hist) := by
  intro hist
  induction hist with
  | nil => intro s _ h _; exact h
  | cons op rest ih =>
    intro s hno h hnf
    unfold run at hnf ⊢
    simp only [List.foldl_cons] at hnf ⊢
    have hnf1 : (step s op).failed = false := by
      have : ∀ (l : List Op) (s : Sys), (l.foldl step s).failed = false → s.failed = false := by
        intro l
        induction l with
        | nil => intro s h; exact h
        | cons o r ih2 => intro s h; simp only [List.foldl_cons] at h; exact step_sticky _ _ (ih2 _ h)
      exact this _ _ hnf
    exact ih _ (fun o ho => hno o (List.mem_cons_of_mem _ ho)) (Inv_step op (hno op List.mem_cons_self) h hnf1) hnf

end SgVerif.C18
