import SgVerif.LmmBook.ExpandInv
import SgVerif.C18.Lemmas
/-
C18 helper lemmas, part 2: `concurrency_current_ ≤ concurrency_limit_` (`BD`) through every operation, under "no
assertion fired".  The only place where the counter may exceed the limit is inside `expand`, between
`increase_concurrency(false)` and the `disable_var` of the overflow path: the loop lemma `disableVar_gives_back`
shows that `disable_var` takes back exactly the slot `expand` just took.  Core-only.
-/
namespace SgVerif.C18
open SgVerif.LmmBook

/-- every constraint with a limit has `concurrency_current_ ≤ concurrency_limit_` -/
def BD (s : Sys) : Prop := ∀ c lim, (s.cnsts c).limit = some lim → (s.cnsts c).cur ≤ lim

/-- `BD` except that constraint `c` may be one above its limit -/
def BDx (s : Sys) (c : Nat) : Prop :=
  ∀ c' lim, (s.cnsts c').limit = some lim → (s.cnsts c').cur ≤ lim + (if c' = c then 1 else 0)

theorem BD.toBDx {s : Sys} (h : BD s) (c : Nat) : BDx s c := fun c' lim hl => Nat.le_trans (h c' lim hl) (Nat.le_add_right _ _)

theorem conc_le_one (p : Policy) (w : Nat) : conc p w ≤ 1 := by
  unfold conc; split
  · exact Nat.le_refl _
  · split <;> omega

theorem BD_cnsts {s s' : Sys} (h : BD s) (hc : s'.cnsts = s.cnsts) : BD s' := by
  intro c lim hl; rw [hc] at hl ⊢; exact h c lim hl

theorem BD_markOnly {s s' : Sys} (h : BD s) (hm : MarkOnly s s') : BD s' := BD_cnsts h hm.cnsts

theorem BD_setC {s : Sys} (h : BD s) (c : Nat) (k : Cnst) (hk : ∀ lim, k.limit = some lim → k.cur ≤ lim) : BD (s.setC c k) := by
  intro c' lim hl
  simp only [setC_cnsts] at hl ⊢
  split
  · rename_i hc; simp only [hc, if_true] at hl; exact hk lim hl
  · rename_i hc; simp only [hc, if_false] at hl; exact h c' lim hl

theorem foldl_ind {α : Type} {f : Sys → α → Sys} {Q : Sys → Prop}
    (hst : ∀ s a, (f s a).failed = false → s.failed = false)
    (hstep : ∀ s a, Q s → (f s a).failed = false → Q (f s a)) :
    ∀ (l : List α) (s : Sys), Q s → (l.foldl f s).failed = false → Q (l.foldl f s) := by
  intro l
  induction l with
  | nil => intro s h _; exact h
  | cons a rest ih =>
    intro s h hnf
    simp only [List.foldl_cons] at hnf ⊢
    exact ih _ (hstep s a h (foldl_sticky hst _ _ hnf)) hnf

/-! ### enabling -/

theorem BD_moveToEn {s : Sys} (c v i : Nat) (h : BD s) (hnf : (moveToEn s c v i).failed = false) : BD (moveToEn s c v i) := by
  obtain ⟨e, _, heq, hle⟩ := moveToEn_inv s c v i hnf
  rw [heq]
  exact BD_setC h c _ (fun lim hl => hle lim hl)

theorem BD_enableVar {s : Sys} (v : Nat) (h : BD s) (hnf : (enableVar s v).failed = false) : BD (enableVar s v) := by
  unfold enableVar at hnf ⊢
  simp only at hnf ⊢
  apply BD_markOnly _ (umcsFromVar_markOnly _ _)
  have hnf3 := umcsFromVar_sticky _ _ hnf
  exact forElems_ind0 (f := moveToEn) v _ (fun _ st => BD st) moveToEn_sticky
    (fun st c i _ hq hn => BD_moveToEn c v i hq hn) _ (BD_cnsts h rfl) hnf3

theorem BD_onDisabledVar {s : Sys} (c : Nat) (h : BD s) (hnf : (onDisabledVar s c).failed = false) : BD (onDisabledVar s c) :=
  onDisabledVar_ind (P := BD) (fun s w _ hs hn => BD_enableVar w hs hn) s c h hnf

theorem BD_foldl_onDisabledVar (l : List Nat) (s : Sys) (h : BD s) (hnf : (l.foldl onDisabledVar s).failed = false) :
    BD (l.foldl onDisabledVar s) :=
  foldl_ind (Q := BD) onDisabledVar_sticky (fun s c hs hn => BD_onDisabledVar c hs hn) l s h hnf

/-! ### disabling: the counter only decreases; and the loop lemma -/

theorem find?_eraseP_ne {p q : Entry → Bool} (hpq : ∀ x, q x = true → p x = false) :
    ∀ (l : List Entry), (l.eraseP q).find? p = l.find? p := by
  intro l
  induction l with
  | nil => rfl
  | cons y rest ih =>
    by_cases hq : q y = true
    · simp [List.eraseP_cons, hq, List.find?_cons, hpq y hq]
    · have hq' : q y = false := by simpa using hq
      simp [List.eraseP_cons, hq', List.find?_cons, ih]

theorem isRef_ne_idx (v i t : Nat) (hne : i ≠ t) (x : Entry) (h : isRef v i x = true) : isRef v t x = false := by
  have := (isRef_iff v i x).mp h
  cases hr : isRef v t x with
  | false => rfl
  | true => have h2 := (isRef_iff v t x).mp hr; exact absurd (this.2.symm.trans h2.2) hne

/-- state inside the loop of `disable_var(v)` on the overflow path of `expand` on constraint `c`: before slot `t`
(the element that made `c` overflow, which counts 1) the element is still in the enabled list of `c` and `c` is at
most one above its limit; after slot `t` every constraint is within its limit -/
def GiveBack (s : Sys) (c v t : Nat) (e : Entry) (i : Nat) : Prop :=
  if i ≤ t then BDx s c ∧ (s.cnsts c).en.find? (isRef v t) = some e ∧ conc (s.cnsts c).policy e.w = 1 else BD s

theorem GiveBack_moveToDis {s : Sys} {c v t : Nat} {e : Entry} {i : Nat} (c' : Nat) (h : GiveBack s c v t e i)
    (hci : i = t → c' = c) (hnf : (moveToDis s c' v i).failed = false) : GiveBack (moveToDis s c' v i) c v t e (i+1) := by
  obtain ⟨e', he', hle, heq⟩ := moveToDis_inv s c' v i hnf
  rw [heq]
  unfold GiveBack at h ⊢
  by_cases hit : i ≤ t
  · rw [if_pos hit] at h
    obtain ⟨hb, hf, hc1⟩ := h
    by_cases hlt : i + 1 ≤ t
    · rw [if_pos hlt]
      refine ⟨?_, ?_, ?_⟩
      · intro c'' lim hl
        simp only [setC_cnsts] at hl ⊢
        split
        · rename_i hcc
          subst hcc
          simp only [if_true] at hl
          have := hb c'' lim hl
          simp only [Cnst.movedDis]
          omega
        · rename_i hcc; simp only [hcc, if_false] at hl; exact hb c'' lim hl
      · simp only [setC_cnsts]
        split
        · rename_i hcc
          simp only [Cnst.movedDis]
          rw [find?_eraseP_ne (isRef_ne_idx v i t (by omega)), ← hcc]
          exact hf
        · exact hf
      · simp only [setC_cnsts]
        split
        · rename_i hcc; simp only [Cnst.movedDis]; rw [← hcc]; exact hc1
        · exact hc1
    · have hit' : i = t := by omega
      have hcc := hci hit'
      subst hcc
      subst hit'
      rw [if_neg hlt]
      rw [hf] at he'
      have hee : e = e' := Option.some.inj he'
      subst hee
      intro c'' lim hl
      simp only [setC_cnsts] at hl ⊢
      split
      · rename_i hcc
        simp only [hcc, if_true] at hl
        have := hb c' lim hl
        simp only [if_true] at this
        simp only [Cnst.movedDis] at hl ⊢
        omega
      · rename_i hcc
        simp only [hcc, if_false] at hl
        have := hb c'' lim hl
        simp only [hcc, if_false] at this
        exact this
  · rw [if_neg hit] at h
    have hlt : ¬ i + 1 ≤ t := by omega
    rw [if_neg hlt]
    apply BD_setC h
    intro lim hl
    have := h c' lim hl
    simp only [Cnst.movedDis]
    omega

/-- **the loop lemma**: `disable_var(v)` gives back the slot that `expand` took on `c` -/
theorem disableVar_gives_back {s : Sys} {c v t : Nat} {e : Entry} (hb : BDx s c)
    (hcn : (s.vars v).cn[t]? = some c) (hf : (s.cnsts c).en.find? (isRef v t) = some e)
    (hc1 : conc (s.cnsts c).policy e.w = 1) (hnf : (disableVar s v).failed = false) : BD (disableVar s v) := by
  have hs0 := disableVar_staged hnf
  rw [disableVar_eq s v hs0] at hnf ⊢
  unfold disableVarBody at hnf ⊢
  generalize hs2 : umcsFromVar (varsetBack s v) v = s2 at hnf ⊢
  have hm : MarkOnly (varsetBack s v) s2 := by rw [← hs2]; exact umcsFromVar_markOnly _ _
  have hcn2 : (s2.vars v).cn = (s.vars v).cn := hm.cn v
  have hc2 : s2.cnsts = s.cnsts := hm.cnsts
  have hnf3 : (forElems moveToDis v 0 (s2.vars v).cn s2).failed = false := hnf
  have h0 : GiveBack s2 c v t e 0 := by
    unfold GiveBack
    rw [if_pos (Nat.zero_le _)]
    refine ⟨?_, by rw [hc2]; exact hf, by rw [hc2]; exact hc1⟩
    intro c' lim hl; rw [hc2] at hl ⊢; exact hb c' lim hl
  have hlt : t < (s2.vars v).cn.length := by rw [hcn2]; exact (List.getElem?_eq_some_iff.mp hcn).1
  have := forElems_ind0 (f := moveToDis) v (s2.vars v).cn (fun i st => GiveBack st c v t e i) moveToDis_sticky
    (fun st c' i hi hq hn => GiveBack_moveToDis c' hq (by
      intro hit
      rw [hit, hcn2, hcn] at hi
      exact (Option.some.inj hi).symm) hn) s2 h0 hnf3
  unfold GiveBack at this
  rw [if_neg (by omega)] at this
  exact BD_cnsts this rfl

theorem BD_moveToDis {s : Sys} (c v i : Nat) (h : BD s) (hnf : (moveToDis s c v i).failed = false) : BD (moveToDis s c v i) := by
  obtain ⟨e, _, _, heq⟩ := moveToDis_inv s c v i hnf
  rw [heq]
  apply BD_setC h
  intro lim hl
  have := h c lim hl
  simp only [Cnst.movedDis]
  omega

theorem BD_disableVar {s : Sys} (v : Nat) (h : BD s) (hnf : (disableVar s v).failed = false) : BD (disableVar s v) := by
  have hs0 := disableVar_staged hnf
  rw [disableVar_eq s v hs0] at hnf ⊢
  unfold disableVarBody at hnf ⊢
  have hnf3 : (forElems moveToDis v 0 ((umcsFromVar (varsetBack s v) v).vars v).cn (umcsFromVar (varsetBack s v) v)).failed = false := hnf
  have := forElems_ind0 (f := moveToDis) v _ (fun _ st => BD st) moveToDis_sticky
    (fun st c i _ hq hn => BD_moveToDis c v i hq hn) _
    (BD_markOnly (BD_cnsts (s' := varsetBack s v) h rfl) (umcsFromVar_markOnly _ _)) hnf3
  exact BD_cnsts this rfl

/-! ### `expand` -/

theorem BD_of_BDx {s : Sys} {c : Nat} (hb : BDx s c)
    (hno : ∀ lim, (s.cnsts c).limit = some lim → ¬ lim < (s.cnsts c).cur) : BD s := by
  intro c' lim hl
  have := hb c' lim hl
  by_cases hc : c' = c
  · subst hc; have := hno lim hl; omega
  · simp only [hc, if_false] at this; exact this

theorem BD_stageBack {s : Sys} {c v t : Nat} {e : Entry} (hb : BDx s c)
    (hcn : (s.vars v).cn[t]? = some c) (hf : (s.cnsts c).en.find? (isRef v t) = some e)
    (hc1 : conc (s.cnsts c).policy e.w = 1) (hnf : (stageBack s v).failed = false) : BD (stageBack s v) := by
  unfold stageBack at hnf ⊢
  simp only at hnf ⊢
  have hnf2 : (((disableVar s v).vars v).cn.foldl onDisabledVar (disableVar s v)).failed = false := hnf
  have hnf1 := foldl_sticky onDisabledVar_sticky _ _ hnf2
  have h1 := disableVar_gives_back hb hcn hf hc1 hnf1
  exact BD_cnsts (BD_foldl_onDisabledVar _ _ h1 hnf2) rfl

theorem BD_expandTail {s : Sys} (c v w' : Nat) (hb : BDx s c)
    (hov : ∀ lim, (s.cnsts c).limit = some lim → lim < (s.cnsts c).cur → (s.vars v).pen ≠ 0 ∧
      ∃ t e, (s.vars v).cn[t]? = some c ∧ (s.cnsts c).en.find? (isRef v t) = some e ∧ conc (s.cnsts c).policy e.w = 1)
    (hnf : (expandTail s c v w').failed = false) : BD (expandTail s c v w') := by
  unfold expandTail at hnf ⊢
  simp only at hnf ⊢
  generalize hs1 : (if (s.vars v).pen ≠ 0 then _ else s) = s1 at hnf ⊢
  have hnf1 : s1.failed = false := by
    split at hnf
    · split at hnf
      · exact umcs_sticky _ _ (umcsFromVar_sticky _ _ hnf)
      · exact umcs_sticky _ _ hnf
    · exact hnf
  have h1 : BD s1 := by
    rw [← hs1] at hnf1 ⊢
    split
    · rename_i hp
      rw [if_pos hp] at hnf1
      split
      · rename_i hl
        exact BD_of_BDx hb (fun lim hl' => by rw [hl] at hl'; cases hl')
      · rename_i lim hl
        split
        · rename_i hlt
          rw [hl] at hnf1
          simp only [hlt, if_true] at hnf1
          obtain ⟨_, t, e, hcn, hf, hc1⟩ := hov lim hl hlt
          exact BD_stageBack hb hcn hf hc1 hnf1
        · rename_i hlt
          exact BD_of_BDx hb (fun lim' hl' => by rw [hl] at hl'; cases hl'; exact hlt)
    · rename_i hp
      apply BD_of_BDx hb
      intro lim hl hlt
      exact hp (hov lim hl hlt).1
  split
  · split
    · exact BD_markOnly (BD_markOnly h1 (umcs_markOnly _ _)) (umcsFromVar_markOnly _ _)
    · exact BD_markOnly h1 (umcs_markOnly _ _)
  · exact h1

theorem find?_setW (v i w' : Nat) : ∀ (l : List Entry) (e : Entry), l.find? (isRef v i) = some e →
    (setW v i w' l).find? (isRef v i) = some { e with w := w' } := by
  intro l
  induction l with
  | nil => intro e h; simp at h
  | cons y rest ih =>
    intro e h
    by_cases hy : isRef v i y = true
    · simp only [List.find?_cons, hy] at h
      cases h
      have : isRef v i { y with w := w' } = true := by simpa [isRef] using hy
      simp only [setW, hy, if_true, List.find?_cons, this]
    · have hy' : isRef v i y = false := by simpa using hy
      simp only [List.find?_cons, hy'] at h
      simp only [setW, hy', Bool.false_eq_true, if_false, List.find?_cons]
      exact ih e h

theorem reuseEn_cnsts (s : Sys) (c v i w : Nat) (e : Entry) (c' : Nat) :
    (reuseEn s c v i w e).cnsts c' = if c' = c then
      { s.cnsts c with cur := (s.cnsts c).cur - conc (s.cnsts c).policy e.w + conc (s.cnsts c).policy (addW (s.cnsts c).policy e.w w),
                       en := setW v i (addW (s.cnsts c).policy e.w w) (s.cnsts c).en }
      else s.cnsts c' := rfl

theorem BD_expand {s : Sys} (c v w : Nat) (f : Bool) (h : BD s) (hnf : (expand s c v w f).failed = false) :
    BD (expand s c v w f) := by
  rcases expand_inv s c v w f hnf with ⟨i, e, hcn, hp, he, hle, heq⟩ | ⟨i, e, hcn, hp, he, heq⟩ | ⟨_, heq⟩
  · rw [heq] at hnf ⊢
    have hc1 := conc_le_one (s.cnsts c).policy (addW (s.cnsts c).policy e.w w)
    apply BD_expandTail _ _ _ _ _ hnf
    · intro c' lim hl
      rw [reuseEn_cnsts] at hl ⊢
      split
      · rename_i hcc
        simp only [hcc, if_true] at hl ⊢
        have := h c lim hl
        omega
      · rename_i hcc; simp only [hcc, if_false] at hl; have := h c' lim hl; omega
    · intro lim hl hlt
      rw [reuseEn_cnsts] at hl hlt ⊢
      simp only [if_true] at hl hlt ⊢
      refine ⟨hp, i, { e with w := addW (s.cnsts c).policy e.w w }, hcn, find?_setW v i _ _ e he, ?_⟩
      have := h c lim hl
      simp only
      omega
  · rw [heq] at hnf ⊢
    have hb : BD (reuseDis s c v i w e) := BD_setC (BD_cnsts h rfl) c _ (fun lim hl => h c lim hl)
    apply BD_expandTail _ _ _ (hb.toBDx c) _ hnf
    intro lim hl hlt
    exact absurd (hb c lim hl) (by omega)
  · rw [heq] at hnf ⊢
    have hc1 := conc_le_one (s.cnsts c).policy w
    apply BD_expandTail _ _ _ _ _ hnf
    · intro c' lim hl
      rw [createElem_cnsts] at hl ⊢
      simp only at hl ⊢
      split
      · rename_i hcc
        simp only [hcc, if_true] at hl ⊢
        unfold createdCnst at hl ⊢
        split
        · rename_i hp; rw [if_pos hp] at hl; have := h c lim hl; simp only; omega
        · rename_i hp; rw [if_neg hp] at hl; have := h c lim hl; simp only; omega
      · rename_i hcc; simp only [hcc, if_false] at hl; have := h c' lim hl; omega
    · intro lim hl hlt
      rw [createElem_cnsts] at hl hlt ⊢
      rw [createElem_vars]
      simp only [if_true] at hl hlt ⊢
      unfold createdCnst at hl hlt ⊢
      by_cases hp : (s.vars v).pen ≠ 0
      · rw [if_pos hp] at hl hlt ⊢
        have := h c lim hl
        simp only at hlt
        refine ⟨hp, (s.vars v).cn.length, ⟨v, (s.vars v).cn.length, w⟩, by simp, by simp [isRef], ?_⟩
        simp only
        omega
      · rw [if_neg hp] at hl hlt
        have := h c lim hl
        simp only at hlt
        omega

/-! ### the other operations -/

theorem BD_modflag {s : Sys} (h : BD s) (b : Bool) : BD { s with modflag := b } := BD_cnsts h rfl
theorem BD_setV {s : Sys} (h : BD s) (v : Nat) (x : Var) : BD (s.setV v x) := BD_cnsts h rfl

theorem BD_freeTail {s : Sys} (c : Nat) (h : BD s) (hnf : (freeTail s c).failed = false) : BD (freeTail s c) := by
  unfold freeTail at hnf ⊢
  split
  · exact BD_cnsts h rfl
  · rename_i hc; simp only [hc] at hnf; exact BD_onDisabledVar c h hnf

theorem BD_freeElem {s : Sys} (c v i : Nat) (h : BD s) (hnf : (freeElem s c v i).failed = false) : BD (freeElem s c v i) := by
  rcases freeElem_inv s c v i hnf with ⟨_, e, _, _, heq⟩ | ⟨_, _, e, _, heq⟩
  · rw [heq] at hnf ⊢
    apply BD_freeTail c _ hnf
    apply BD_setC h
    intro lim hl
    have := h c lim hl
    simp only [Cnst.freedEn]
    omega
  · rw [heq] at hnf ⊢
    apply BD_freeTail c _ hnf
    exact BD_setC h c _ (fun lim hl => h c lim hl)

theorem BD_varFree {s : Sys} (v : Nat) (h : BD s) (hnf : (varFree s v).failed = false) : BD (varFree s v) := by
  unfold varFree at hnf ⊢
  simp only at hnf ⊢
  have hnf2 : (forElems freeElem v 0 ((umcsFromVar { s with varset := s.varset.erase v, modflag := true } v).vars v).cn
      (umcsFromVar { s with varset := s.varset.erase v, modflag := true } v)).failed = false := hnf
  have := forElems_ind0 (f := freeElem) v _ (fun _ st => BD st) freeElem_sticky
    (fun st c i _ hq hn => BD_freeElem c v i hq hn) _
    (BD_markOnly (BD_cnsts (s' := { s with varset := s.varset.erase v, modflag := true }) h rfl) (umcsFromVar_markOnly _ _)) hnf2
  exact BD_cnsts this rfl

theorem BD_updatePenalty {s : Sys} (v p : Nat) (h : BD s) (hnf : (updatePenalty s v p).failed = false) :
    BD (updatePenalty s v p) := by
  unfold updatePenalty at hnf ⊢
  simp only at hnf ⊢
  have h0 : BD { s with modflag := true } := BD_cnsts h rfl
  split
  · exact h
  · rename_i hne
    rw [if_neg hne] at hnf
    split
    · rename_i hc
      rw [if_pos hc] at hnf
      split
      · exact BD_cnsts h rfl
      · rename_i hms
        rw [if_neg hms] at hnf
        exact BD_enableVar v (BD_cnsts h rfl) hnf
    · rename_i hc
      rw [if_neg hc] at hnf
      split
      · rename_i hc2
        rw [if_pos hc2] at hnf
        split
        · rename_i hfix
          rw [if_pos hfix] at hnf
          have hnf1 := foldl_sticky onDisabledVar_sticky _ _ hnf
          exact BD_foldl_onDisabledVar _ _ (BD_disableVar v h0 hnf1) hnf
        · rename_i hfix
          rw [if_neg hfix] at hnf
          exact BD_disableVar v h0 hnf
      · exact BD_markOnly (BD_setV (BD_modflag h true) v _) (umcsFromVar_markOnly _ _)

theorem BD_step {s : Sys} (op : Op) (h : BD s) (hnf : (step s op).failed = false) : BD (step s op) := by
  unfold step at hnf ⊢
  split
  · exact h
  · rename_i hv
    simp only [hv] at hnf
    cases op with
    | cnew b l p =>
      show BD (cnew s b l p)
      unfold cnew
      refine BD_cnsts (s := s.setC s.nc _) ?_ rfl
      apply BD_setC h
      intro lim _; exact Nat.zero_le _
    | vnew p b => exact BD_cnsts (s' := vnew s p b) h rfl
    | expand c v w f => exact BD_expand c v w f h hnf
    | vfree v => exact BD_varFree v h hnf
    | vbound v b =>
      show BD (updateVarBound s v b)
      unfold updateVarBound
      exact BD_markOnly (BD_setV (BD_modflag h true) v _) (foldl_umcs_markOnly _ _)
    | vpen v p => exact BD_updatePenalty v p h hnf
    | cbound c b =>
      show BD (updateCnstBound s c b)
      unfold updateCnstBound
      simp only
      have h1 : BD (umcs { s with modflag := true } c) := BD_markOnly (BD_modflag h true) (umcs_markOnly _ _)
      exact BD_setC h1 c _ (fun lim hl => h1 c lim hl)
    | solve =>
      show BD (solveOp s)
      unfold solveOp
      split
      · exact h
      · simp only
        split
        · unfold removeAllModified
          simp only
          refine BD_cnsts h ?_
          split <;> split <;> rfl
        · exact BD_modflag h false

theorem BD_init (cfg : Cfg) (sel : Bool) : BD (init cfg sel) := by
  intro c lim hl; simp [init] at hl

theorem run_BD (cfg : Cfg) (sel : Bool) (hist : List Op) (hnf : (run (init cfg sel) hist).failed = false) :
    BD (run (init cfg sel) hist) :=
  run_inv (Q := BD) (fun _ op h hn => BD_step op h hn) hist _ (BD_init cfg sel) hnf

end SgVerif.C18
