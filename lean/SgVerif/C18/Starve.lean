import SgVerif.C18.Bounded
/-
C18 helper lemmas, part 3: no starvation.  `Full`, `Starving`, the monotonicity relation `Grow` (what `enable_var`
and hence `on_disabled_var` may do: counters only increase, staged penalties only drop to 0), and the walk lemma of
`on_disabled_var`.  Core-only.
-/
namespace SgVerif.C18
open SgVerif.LmmBook

/-- a constraint with a limit and no free slot: `get_concurrency_slack() <= 0` -/
def Full (s : Sys) (c : Nat) : Prop := ∃ l, (s.cnsts c).limit = some l ∧ l ≤ (s.cnsts c).cur

instance (s : Sys) (c : Nat) : Decidable (Full s c) := by
  unfold Full
  cases h : (s.cnsts c).limit with
  | none => exact isFalse (by simp)
  | some l => exact if h2 : l ≤ (s.cnsts c).cur then isTrue ⟨l, rfl, h2⟩ else isFalse (by simp; exact Nat.lt_of_not_le h2)

/-- a live variable that wants to run (`staged_sharing_penalty_ > 0`), is held back, and none of the constraints it
uses is full: it waits although every resource it uses has room -/
def Starving (s : Sys) (v : Nat) : Prop :=
  (s.vars v).alive = true ∧ 0 < (s.vars v).staged ∧ ∀ c ∈ (s.vars v).cn, ¬ Full s c

instance (s : Sys) (v : Nat) : Decidable (Starving s v) := by unfold Starving; exact inferInstance

theorem slackPos_none' : slackPos none = true := rfl
theorem slackPos_some' (m : Int) : slackPos (some m) = true ↔ 0 < m := by simp [slackPos]

theorem minSlackGo_pos' (s : Sys) : ∀ (l : List Nat) (acc : Option Int),
    slackPos (minSlackGo s l acc) = true ↔ (slackPos acc = true ∧ ∀ c ∈ l, slackPos (slack (s.cnsts c)) = true) := by
  intro l
  induction l with
  | nil => intro acc; simp [minSlackGo]
  | cons c rest ih =>
    intro acc
    simp only [minSlackGo, List.mem_cons, forall_eq_or_imp]
    cases hs : slack (s.cnsts c) with
    | none =>
      simp only [slackPos_none', true_and]
      exact ih acc
    | some sl =>
      cases acc with
      | none =>
        simp only [if_true, slackPos_none', true_and, slackPos_some']
        by_cases h0 : sl = 0
        · simp [h0, slackPos_some']
        · simp only [h0, if_false]
          rw [ih, slackPos_some']
      | some m =>
        simp only [slackPos_some']
        by_cases hlt : sl < m
        · simp only [hlt, decide_true, if_true]
          by_cases h0 : sl = 0
          · simp [h0, slackPos_some']
          · simp only [h0, if_false]
            rw [ih, slackPos_some']
            constructor
            · intro ⟨h1, h2⟩; exact ⟨by omega, h1, h2⟩
            · intro ⟨_, h1, h2⟩; exact ⟨h1, h2⟩
        · simp only [hlt, decide_false, Bool.false_eq_true, if_false]
          rw [ih, slackPos_some']
          constructor
          · intro ⟨h1, h2⟩; exact ⟨h1, by omega, h2⟩
          · intro ⟨h1, _, h2⟩; exact ⟨h1, h2⟩

theorem can_enable_iff' (s : Sys) (v : Nat) :
    canEnable s v = true ↔ (0 < (s.vars v).staged ∧ ∀ c ∈ (s.vars v).cn, slackPos (slack (s.cnsts c)) = true) := by
  unfold canEnable minSlack
  rw [Bool.and_eq_true, minSlackGo_pos', decide_eq_true_eq]
  simp [slackPos_none']

theorem full_of_not_slackPos {s : Sys} {c : Nat} (h : slackPos (slack (s.cnsts c)) ≠ true) : Full s c := by
  unfold slack at h
  cases hl : (s.cnsts c).limit with
  | none => rw [hl] at h; exact absurd rfl h
  | some l =>
    rw [hl] at h
    have h2 : slackPos (some ((l : Int) - ((s.cnsts c).cur : Int))) ≠ true := h
    rw [Ne, slackPos_some'] at h2
    exact ⟨l, hl, by omega⟩

theorem slackPos_of_not_full {s : Sys} {c : Nat} (h : ¬ Full s c) : slackPos (slack (s.cnsts c)) = true := by
  cases hh : slackPos (slack (s.cnsts c)) with
  | true => rfl
  | false => exact absurd (full_of_not_slackPos (by rw [hh]; exact Bool.false_ne_true)) h

/-- variable `w` is not starving (regardless of `alive`) -/
def Sat (s : Sys) (w : Nat) : Prop := (s.vars w).staged = 0 ∨ ∃ c ∈ (s.vars w).cn, Full s c

theorem sat_of_not_canEnable {s : Sys} {w : Nat} (h : canEnable s w ≠ true) : Sat s w := by
  rw [Ne, can_enable_iff'] at h
  by_cases hs : (s.vars w).staged = 0
  · exact Or.inl hs
  · right
    apply Classical.byContradiction
    intro hno
    apply h
    refine ⟨by omega, ?_⟩
    intro c hc
    apply slackPos_of_not_full
    intro hf
    exact hno ⟨c, hc, hf⟩

/-! ### monotone changes -/

structure Grow (s s' : Sys) : Prop where
  limit : ∀ c, (s'.cnsts c).limit = (s.cnsts c).limit
  cur : ∀ c, (s.cnsts c).cur ≤ (s'.cnsts c).cur
  cn : ∀ u, ∀ c ∈ (s.vars u).cn, c ∈ (s'.vars u).cn
  alive : ∀ u, (s'.vars u).alive = (s.vars u).alive
  staged : ∀ u, (s'.vars u).staged = (s.vars u).staged ∨ (s'.vars u).staged = 0

theorem Grow.refl (s : Sys) : Grow s s := ⟨fun _ => rfl, fun _ => Nat.le_refl _, fun _ _ h => h, fun _ => rfl, fun _ => Or.inl rfl⟩

theorem Grow.trans {a b c : Sys} (h1 : Grow a b) (h2 : Grow b c) : Grow a c := by
  refine ⟨fun k => (h2.limit k).trans (h1.limit k), fun k => Nat.le_trans (h1.cur k) (h2.cur k),
    fun u k hk => h2.cn u k (h1.cn u k hk), fun u => (h2.alive u).trans (h1.alive u), ?_⟩
  intro u
  rcases h2.staged u with h | h
  · rcases h1.staged u with h' | h'
    · exact Or.inl (h.trans h')
    · exact Or.inr (h.trans h')
  · exact Or.inr h

theorem Grow.full {s s' : Sys} (h : Grow s s') {c : Nat} (hf : Full s c) : Full s' c := by
  obtain ⟨l, hl, hle⟩ := hf
  exact ⟨l, by rw [h.limit]; exact hl, Nat.le_trans hle (h.cur c)⟩

theorem Grow.sat {s s' : Sys} (h : Grow s s') {w : Nat} (hs : Sat s w) : Sat s' w := by
  rcases hs with hs | ⟨c, hc, hf⟩
  · left
    rcases h.staged w with h' | h'
    · rw [h']; exact hs
    · exact h'
  · exact Or.inr ⟨c, h.cn w c hc, h.full hf⟩

theorem Grow.of_markOnly {s s' : Sys} (h : MarkOnly s s') : Grow s s' :=
  ⟨fun c => by rw [h.cnsts], fun c => by rw [h.cnsts]; exact Nat.le_refl _, fun u c hc => by rw [h.cn]; exact hc,
   fun u => h.alive u, fun u => Or.inl (h.staged u)⟩

theorem Grow_moveToEn {s : Sys} (c v i : Nat) (hnf : (moveToEn s c v i).failed = false) : Grow s (moveToEn s c v i) := by
  obtain ⟨e, _, heq, _⟩ := moveToEn_inv s c v i hnf
  rw [heq]
  refine ⟨?_, ?_, fun _ _ h => h, fun _ => rfl, fun _ => Or.inl rfl⟩
  · intro c'; simp only [setC_cnsts]; split
    · rename_i hc; rw [hc]; rfl
    · rfl
  · intro c'; simp only [setC_cnsts]; split
    · rename_i hc; rw [hc]; simp only [Cnst.movedEn]; omega
    · exact Nat.le_refl _

theorem Grow_enableVar {s : Sys} (v : Nat) (hnf : (enableVar s v).failed = false) : Grow s (enableVar s v) := by
  have hv := enableVar_vars s v
  have hg : ∀ c, ((enableVar s v).cnsts c).limit = (s.cnsts c).limit ∧ (s.cnsts c).cur ≤ ((enableVar s v).cnsts c).cur := by
    unfold enableVar at hnf ⊢
    simp only at hnf ⊢
    have hnf3 := umcsFromVar_sticky _ _ hnf
    have := forElems_ind0 (f := moveToEn) v (s.vars v).cn
      (fun _ st => ∀ c, (st.cnsts c).limit = (s.cnsts c).limit ∧ (s.cnsts c).cur ≤ (st.cnsts c).cur) moveToEn_sticky
      (fun st c i _ hq hn => by
        have hg := Grow_moveToEn c v i hn
        intro c'
        exact ⟨(hg.limit c').trans (hq c').1, Nat.le_trans (hq c').2 (hg.cur c')⟩)
      (varsetFront (s.setV v { s.vars v with pen := (s.vars v).staged, staged := 0 }) v)
      (fun c => ⟨rfl, Nat.le_refl _⟩) hnf3
    intro c
    rw [(umcsFromVar_markOnly _ _).cnsts]
    exact this c
  refine ⟨fun c => (hg c).1, fun c => (hg c).2, fun u c hc => by rw [hv.cn]; exact hc, hv.alive, ?_⟩
  intro u
  by_cases hu : u = v
  · rw [hu]; exact Or.inr hv.stagedv
  · exact Or.inl (hv.staged u hu)

theorem Grow_odvWalk {s : Sys} (c n : Nat) (l : List Entry) (hnf : (odvWalk c n l s).failed = false) :
    Grow s (odvWalk c n l s) :=
  odvWalk_ind (P := fun s' => Grow s s') (fun s' w _ hs hn => hs.trans (Grow_enableVar w hn)) c n l s (Grow.refl s) hnf

theorem Grow_onDisabledVar {s : Sys} (c : Nat) (hnf : (onDisabledVar s c).failed = false) : Grow s (onDisabledVar s c) :=
  onDisabledVar_ind (P := fun s' => Grow s s') (fun s' w _ hs hn => hs.trans (Grow_enableVar w hn)) s c (Grow.refl s) hnf

/-! ### the walk of `on_disabled_var` -/

theorem odvAfter_nodup (en : Bool) (e : Entry) (after : List Entry) (h : e.var ∉ after.map (·.var)) :
    odvAfter en e after = after := by
  unfold odvAfter
  cases after with
  | nil => rfl
  | cons nx rest =>
    simp only
    have hnx : (nx.var == e.var) = false := by
      cases hh : nx.var == e.var with
      | false => rfl
      | true =>
        exfalso; apply h
        have : nx.var = e.var := by simpa using hh
        rw [← this]; simp
    rw [hnx, Bool.and_false]
    simp only [Bool.false_eq_true, if_false]
    split
    · apply List.filter_eq_self.mpr
      intro a ha
      cases hh : a.var != e.var with
      | true => rfl
      | false =>
        exfalso; apply h
        have : a.var = e.var := by simpa using hh
        rw [← this]; exact List.mem_map.mpr ⟨a, ha, rfl⟩
    · rfl

/-- **walk lemma**: after `on_disabled_var`'s loop over a list of elements of pairwise different variables, either the
constraint is full or every variable of the list is satisfied (was enabled, or is not staged, or uses a full
constraint) -/
theorem odvWalk_sat (c lim : Nat) : ∀ (n : Nat) (l : List Entry) (s : Sys), (s.cnsts c).limit = some lim →
    l.length ≤ n → (l.map (·.var)).Nodup → (odvWalk c n l s).failed = false →
    Full (odvWalk c n l s) c ∨ ∀ e ∈ l, Sat (odvWalk c n l s) e.var := by
  intro n
  induction n with
  | zero =>
    intro l s _ hlen _ _
    have : l = [] := List.eq_nil_of_length_eq_zero (by omega)
    rw [this]; right; intro e he; simp at he
  | succ n ih =>
    intro l s hlim hlen hnd hnf
    cases l with
    | nil => right; intro e he; simp at he
    | cons e after =>
      simp only [List.map_cons, List.nodup_cons] at hnd
      have hgrow := Grow_odvWalk c (n+1) (e :: after) hnf
      rw [odvWalk_cons] at hnf hgrow ⊢
      rw [odvAfter_nodup _ _ _ hnd.1] at hnf hgrow ⊢
      have hs1nf := odvRest_sticky _ _ _ _ hnf
      have hsat1 : Sat (if canEnable s e.var then enableVar s e.var else s) e.var ∧
          Grow s (if canEnable s e.var then enableVar s e.var else s) := by
        split
        · rename_i hc
          rw [if_pos hc] at hs1nf
          exact ⟨Or.inl (enableVar_vars s e.var).stagedv, Grow_enableVar _ hs1nf⟩
        · rename_i hc; exact ⟨sat_of_not_canEnable hc, Grow.refl s⟩
      generalize (if canEnable s e.var then enableVar s e.var else s) = s1 at hnf hgrow hs1nf hsat1 ⊢
      have hlim1 : (s1.cnsts c).limit = some lim := by rw [hsat1.2.limit]; exact hlim
      unfold odvRest at hnf hgrow ⊢
      rw [hlim1] at hnf hgrow ⊢
      simp only at hnf hgrow ⊢
      by_cases hlt : lim < (s1.cnsts c).cur
      · rw [if_pos hlt] at hnf; simp [Sys.fail] at hnf
      · rw [if_neg hlt] at hnf hgrow ⊢
        by_cases heq : (s1.cnsts c).cur = lim
        · rw [if_pos heq]
          left; exact ⟨lim, hlim1, by omega⟩
        · rw [if_neg heq] at hnf hgrow ⊢
          have hlen' : after.length ≤ n := by simp only [List.length_cons] at hlen; omega
          have hg1 := Grow_odvWalk c n after hnf
          rcases ih after s1 hlim1 hlen' hnd.2 hnf with h | h
          · exact Or.inl h
          · right
            intro e' he'
            rcases List.mem_cons.mp he' with h1 | h1
            · rw [h1]; exact hg1.sat hsat1.1
            · exact h e' h1

theorem onDisabledVar_sat {s : Sys} (c lim : Nat) (hlim : (s.cnsts c).limit = some lim)
    (hnd : ((s.cnsts c).dis.map (·.var)).Nodup) (hnf : (onDisabledVar s c).failed = false) :
    Full (onDisabledVar s c) c ∨ ∀ e ∈ (s.cnsts c).dis, Sat (onDisabledVar s c) e.var := by
  unfold onDisabledVar at hnf ⊢
  rw [hlim] at hnf ⊢
  simp only at hnf ⊢
  exact odvWalk_sat c lim _ _ s hlim (Nat.le_refl _) hnd hnf

end SgVerif.C18
