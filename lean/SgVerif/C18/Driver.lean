import SgVerif.LmmBook.Replay
/- drv_C18: replays harness lines on the bookkeeping model; monitors: counter exact, counter ≤ limit, no starvation -/
def main : IO Unit := SgVerif.Proto.runS ({} : SgVerif.LmmBook.DrvState) (SgVerif.LmmBook.judge false)
