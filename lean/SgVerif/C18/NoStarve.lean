import SgVerif.C18.Starve
/-
C18 helper lemmas, part 4: the no-starvation invariant `NS` through every operation of the repaired code
(`fixSuspend`), for histories without `force_creation` (`ND`: no variable uses a constraint twice).  Core-only.
-/
namespace SgVerif.C18
open SgVerif.LmmBook

/-- no variable has two elements on the same constraint (true without `force_creation`) -/
def ND (s : Sys) : Prop := ∀ v, (s.vars v).cn.Nodup

/-- `w` is satisfied, or it uses a constraint (with a limit) of the pending list `P` that `on_disabled_var` is about
to examine -/
def SatP (s : Sys) (P : List Nat) (w : Nat) : Prop :=
  Sat s w ∨ ∃ c ∈ (s.vars w).cn, c ∈ P ∧ (s.cnsts c).limit ≠ none

def NSP (s : Sys) (P : List Nat) (x : Option Nat) : Prop :=
  ∀ w, (s.vars w).alive = true → some w ≠ x → SatP s P w

/-- **no live staged variable starves** -/
def NS (s : Sys) : Prop := ∀ w, (s.vars w).alive = true → Sat s w

theorem NS.toNSP {s : Sys} (h : NS s) (P : List Nat) (x : Option Nat) : NSP s P x := fun w hw _ => Or.inl (h w hw)

theorem NSP.toNS {s : Sys} (h : NSP s [] none) : NS s := by
  intro w hw
  rcases h w hw (by intro hh; cases hh) with h1 | ⟨c, _, hc, _⟩
  · exact h1
  · simp at hc

theorem NSP.grow {s s' : Sys} {P : List Nat} {x : Option Nat} (h : NSP s P x) (hg : Grow s s') : NSP s' P x := by
  intro w hw hx
  rw [hg.alive] at hw
  rcases h w hw hx with h1 | ⟨c, hc, hp, hl⟩
  · exact Or.inl (hg.sat h1)
  · exact Or.inr ⟨c, hg.cn w c hc, hp, by rw [hg.limit]; exact hl⟩

theorem NSP.mono {s : Sys} {P P' : List Nat} {x : Option Nat} (h : NSP s P x) (hsub : ∀ c ∈ P, c ∈ P') : NSP s P' x := by
  intro w hw hx
  rcases h w hw hx with h1 | ⟨c, hc, hp, hl⟩
  · exact Or.inl h1
  · exact Or.inr ⟨c, hc, hsub c hp, hl⟩

theorem dis_vars_nodup {s : Sys} {loc : Loc} (h : WFl s loc) (hnd : ND s) (c : Nat) :
    ((s.cnsts c).dis.map (·.var)).Nodup := by
  rw [List.nodup_iff_pairwise_ne, List.pairwise_map]
  refine List.Pairwise.imp_of_mem ?_ (h.disK c)
  intro a b ha hb hk hv
  apply hk
  refine ⟨hv, ?_⟩
  have h1 := (h.disA c a ha).1
  have h2 := (h.disA c b hb).1
  rw [hv] at h1
  have hlt := (List.getElem?_eq_some_iff.mp h1).1
  exact (List.getElem?_inj hlt (hnd b.var)).mp (h1.trans h2.symm)

theorem hdis_of_WFX {s : Sys} {v i : Nat} (h : WFX s v i) (w c : Nat) (hw : w ≠ v ∨ i = 0)
    (hst : (s.vars w).staged ≠ 0) (hc : c ∈ (s.vars w).cn) : ∃ e ∈ (s.cnsts c).dis, e.var = w := by
  obtain ⟨j, hj⟩ := List.mem_iff_getElem?.mp hc
  have hpen := h.so.st w hst
  have hloc : (stdLoc s).upto v i none w j = some false := by
    simp only [Loc.upto, stdLoc, hpen]
    rcases hw with hw | hw
    · simp [hw]
    · simp [hw]
  obtain ⟨e, he, hr⟩ := h.l.disD w j c hj hloc
  exact ⟨e, he, ((isRef_iff w j e).mp hr).1⟩

/-- one call of `on_disabled_var(c)` discharges the pending constraint `c` -/
theorem NSP_onDisabledVar {s : Sys} {P : List Nat} {x : Option Nat} (c : Nat) (h : NSP s (c :: P) x)
    (hdis : ∀ w, (s.vars w).alive = true → some w ≠ x → (s.vars w).staged ≠ 0 → c ∈ (s.vars w).cn →
      ∃ e ∈ (s.cnsts c).dis, e.var = w)
    (hnd : ((s.cnsts c).dis.map (·.var)).Nodup) (hnf : (onDisabledVar s c).failed = false) :
    NSP (onDisabledVar s c) P x := by
  have hg := Grow_onDisabledVar c hnf
  intro w hw hx
  have hw0 : (s.vars w).alive = true := by rw [← hg.alive]; exact hw
  rcases h w hw0 hx with h1 | ⟨c', hc', hp, hl⟩
  · exact Or.inl (hg.sat h1)
  · rcases List.mem_cons.mp hp with hcc | hcc
    · subst hcc
      by_cases hst : (s.vars w).staged = 0
      · exact Or.inl (hg.sat (Or.inl hst))
      · cases hlim : (s.cnsts c').limit with
        | none => exact absurd hlim hl
        | some lim =>
          obtain ⟨e, he, hev⟩ := hdis w hw0 hx hst hc'
          rcases onDisabledVar_sat c' lim hlim hnd hnf with hf | hs
          · exact Or.inl (Or.inr ⟨c', hg.cn w c' hc', hf⟩)
          · have := hs e he; rw [hev] at this; exact Or.inl this
    · exact Or.inr ⟨c', hg.cn w c' hc', hcc, by rw [hg.limit]; exact hl⟩

theorem ND_cnSame {s s' : Sys} (h : ND s) (hc : ∀ u, (s'.vars u).cn = (s.vars u).cn) : ND s' :=
  fun v => by rw [hc]; exact h v

theorem ND_onDisabledVar {s : Sys} (c : Nat) (h : ND s) : ND (onDisabledVar s c) :=
  ND_cnSame h (fun u => (onDisabledVar_cnSame s c u).1)

/-- the loop `for (elem : var->cnsts_) on_disabled_var(elem.constraint)` discharges a whole pending list -/
theorem NSP_foldl_onDisabledVar {P : List Nat} : ∀ (l : List Nat) (s : Sys), WF s → ND s → NSP s (l ++ P) none →
    (l.foldl onDisabledVar s).failed = false → NSP (l.foldl onDisabledVar s) P none := by
  intro l
  induction l with
  | nil => intro s _ _ h _; exact h
  | cons c rest ih =>
    intro s hwf hnd h hnf
    simp only [List.foldl_cons] at hnf ⊢
    have hnf1 := foldl_sticky onDisabledVar_sticky _ _ hnf
    apply ih _ (WFX_onDisabledVar c hwf hnf1) (ND_onDisabledVar c hnd) _ hnf
    apply NSP_onDisabledVar c h _ (dis_vars_nodup hwf.l hnd c) hnf1
    intro w _ _ hst hc
    exact hdis_of_WFX hwf w c (Or.inr rfl) hst hc

theorem Grow_foldl_onDisabledVar : ∀ (l : List Nat) (s : Sys), (l.foldl onDisabledVar s).failed = false →
    Grow s (l.foldl onDisabledVar s) := by
  intro l
  induction l with
  | nil => intro s _; exact Grow.refl s
  | cons c rest ih =>
    intro s hnf
    simp only [List.foldl_cons] at hnf ⊢
    exact (Grow_onDisabledVar c (foldl_sticky onDisabledVar_sticky _ _ hnf)).trans (ih _ hnf)

/-! ### `disable_var` -/

/-- `disable_var(v)` touches only the constraints of `v`, never a limit, and lowers a counter by at most the number
of elements `v` has on the constraint (here: one, `ND`) -/
theorem disableVar_cnsts {s : Sys} (v : Nat) (hnd : ND s) (hnf : (disableVar s v).failed = false) (c : Nat) :
    ((disableVar s v).cnsts c).limit = (s.cnsts c).limit ∧
    (c ∉ (s.vars v).cn → (disableVar s v).cnsts c = s.cnsts c) ∧
    (s.cnsts c).cur ≤ ((disableVar s v).cnsts c).cur + 1 := by
  have hs0 := disableVar_staged hnf
  rw [disableVar_eq s v hs0] at hnf ⊢
  unfold disableVarBody at hnf ⊢
  generalize hs2 : umcsFromVar (varsetBack s v) v = s2 at hnf ⊢
  have hm : MarkOnly (varsetBack s v) s2 := by rw [← hs2]; exact umcsFromVar_markOnly _ _
  have hcn2 : (s2.vars v).cn = (s.vars v).cn := hm.cn v
  have hc2 : s2.cnsts = s.cnsts := hm.cnsts
  have hnf3 : (forElems moveToDis v 0 (s2.vars v).cn s2).failed = false := hnf
  have := forElems_ind0 (f := moveToDis) v (s2.vars v).cn
    (fun i st => (st.cnsts c).limit = (s.cnsts c).limit ∧ (c ∉ (s.vars v).cn → st.cnsts c = s.cnsts c) ∧
      (s.cnsts c).cur ≤ (st.cnsts c).cur + (if ∃ j, j < i ∧ (s.vars v).cn[j]? = some c then 1 else 0))
    moveToDis_sticky ?_ s2 ⟨by rw [hc2], fun _ => by rw [hc2], by rw [hc2]; omega⟩ hnf3
  · refine ⟨this.1, this.2.1, ?_⟩
    have h3 := this.2.2
    show (s.cnsts c).cur ≤ ((forElems moveToDis v 0 (s2.vars v).cn s2).cnsts c).cur + 1
    split at h3 <;> omega
  · intro st c' i hi ⟨h1, h2, h3⟩ hn
    rw [hcn2] at hi
    obtain ⟨e, _, hle, heq⟩ := moveToDis_inv st c' v i hn
    rw [heq]
    simp only [setC_cnsts]
    by_cases hcc : c = c'
    · subst hcc
      simp only [if_true]
      refine ⟨h1, fun hno => absurd (List.mem_iff_getElem?.mpr ⟨i, hi⟩) hno, ?_⟩
      -- no earlier slot is on `c` (ND)
      have hnone : ¬ ∃ j, j < i ∧ (s.vars v).cn[j]? = some c := by
        intro ⟨j, hj, hjc⟩
        have hlt := (List.getElem?_eq_some_iff.mp hjc).1
        have := (List.getElem?_inj hlt (hnd v)).mp (hjc.trans hi.symm)
        omega
      have hsome : ∃ j, j < i + 1 ∧ (s.vars v).cn[j]? = some c := ⟨i, by omega, hi⟩
      rw [if_neg hnone] at h3
      rw [if_pos hsome]
      have := conc_le_one (st.cnsts c).policy e.w
      simp only [Cnst.movedDis]
      omega
    · simp only [hcc, if_false]
      refine ⟨h1, h2, ?_⟩
      have hiff : (∃ j, j < i + 1 ∧ (s.vars v).cn[j]? = some c) ↔ (∃ j, j < i ∧ (s.vars v).cn[j]? = some c) := by
        constructor
        · intro ⟨j, hj, hjc⟩
          refine ⟨j, ?_, hjc⟩
          by_cases hji : j = i
          · rw [hji, hi] at hjc; exact absurd (Option.some.inj hjc).symm hcc
          · omega
        · intro ⟨j, hj, hjc⟩; exact ⟨j, by omega, hjc⟩
      by_cases hex : ∃ j, j < i ∧ (s.vars v).cn[j]? = some c
      · rw [if_pos hex] at h3; rw [if_pos (hiff.mpr hex)]; exact h3
      · rw [if_neg hex] at h3; rw [if_neg (fun hh => hex (hiff.mp hh))]; exact h3

/-- after `disable_var(v)` only variables using a constraint of `v` may have lost their full constraint -/
theorem NSP_disableVar {s : Sys} (v : Nat) (h : NS s) (hnd : ND s) (hnf : (disableVar s v).failed = false) :
    NSP (disableVar s v) (s.vars v).cn none := by
  have hv := disableVar_vars s v hnf
  intro w hw _
  rw [hv.alive] at hw
  by_cases hwv : w = v
  · subst hwv; exact Or.inl (Or.inl hv.stagedv)
  · rcases h w hw with h1 | ⟨c, hc, l, hl, hle⟩
    · exact Or.inl (Or.inl (by rw [hv.staged w hwv]; exact h1))
    · have hcs := disableVar_cnsts v hnd hnf c
      by_cases hcv : c ∈ (s.vars v).cn
      · exact Or.inr ⟨c, by rw [hv.cn]; exact hc, hcv, by rw [hcs.1, hl]; intro hh; cases hh⟩
      · exact Or.inl (Or.inr ⟨c, by rw [hv.cn]; exact hc, l, by rw [hcs.2.1 hcv]; exact hl, by rw [hcs.2.1 hcv]; exact hle⟩)

end SgVerif.C18
