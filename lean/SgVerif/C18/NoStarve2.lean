import SgVerif.C18.NoStarve
/-
C18 helper lemmas, part 5: `NS` through `expand`, `variable_free`, `update_variable_penalty` and the rest, then
`step` and `run`.  Core-only.
-/
namespace SgVerif.C18
open SgVerif.LmmBook

theorem Sat_frame {s s' : Sys} {w : Nat} (hc : s'.cnsts = s.cnsts) (hv : s'.vars w = s.vars w) (h : Sat s w) : Sat s' w := by
  rcases h with h | ⟨c, hc', l, hl, hle⟩
  · left; rw [hv]; exact h
  · right; exact ⟨c, by rw [hv]; exact hc', l, by rw [hc]; exact hl, by rw [hc]; exact hle⟩

theorem NS_grow {s s' : Sys} (h : NS s) (hg : Grow s s') : NS s' :=
  fun w hw => hg.sat (h w (by rw [← hg.alive]; exact hw))

theorem NS_markOnly {s s' : Sys} (h : NS s) (hm : MarkOnly s s') : NS s' := NS_grow h (Grow.of_markOnly hm)

/-! ### the overflow path of `expand` -/

theorem NS_stageBack {s : Sys} (c v lim : Nat) (hwf : WF s) (hnd : ND s) (h : NS s) (hpen : (s.vars v).pen ≠ 0)
    (hc : c ∈ (s.vars v).cn) (hlim : (s.cnsts c).limit = some lim) (hlt : lim < (s.cnsts c).cur)
    (hnf : (stageBack s v).failed = false) : NS (stageBack s v) := by
  unfold stageBack at hnf ⊢
  simp only at hnf ⊢
  have hnf2 : (((disableVar s v).vars v).cn.foldl onDisabledVar (disableVar s v)).failed = false := hnf
  have hnf1 := foldl_sticky onDisabledVar_sticky _ _ hnf2
  have hv1 := disableVar_vars s v hnf1
  have hwf1 := WF_disableVar v hwf hpen hnf1
  have hnd1 : ND (disableVar s v) := ND_cnSame hnd hv1.cn
  have hp1 := NSP_disableVar v h hnd hnf1
  have hcs := disableVar_cnsts v hnd hnf1 c
  have hfull1 : Full (disableVar s v) c := ⟨lim, by rw [hcs.1]; exact hlim, by have := hcs.2.2; omega⟩
  have hp2 : NSP (((disableVar s v).vars v).cn.foldl onDisabledVar (disableVar s v)) [] none := by
    apply NSP_foldl_onDisabledVar _ _ hwf1 hnd1 _ hnf2
    rw [List.append_nil, hv1.cn]
    exact hp1
  have hg2 := Grow_foldl_onDisabledVar _ _ hnf2
  have hfull2 := hg2.full hfull1
  have hns2 := hp2.toNS
  generalize ((disableVar s v).vars v).cn.foldl onDisabledVar (disableVar s v) = s2 at hg2 hfull2 hns2 ⊢
  intro w hw
  by_cases hwv : w = v
  · subst hwv
    right
    refine ⟨c, ?_, hfull2⟩
    simp only [setV_vars, if_true]
    apply hg2.cn w c
    rw [hv1.cn]; exact hc
  · have hvw : (s2.setV v { s2.vars v with staged := (s.vars v).pen }).vars w = s2.vars w := by
      simp only [setV_vars, hwv, if_false]
    rw [hvw] at hw
    exact Sat_frame (s := s2) rfl hvw (hns2 w hw)

theorem NS_expandTail {s : Sys} (c v w' : Nat) (hwf : WF s) (hnd : ND s) (h : NS s) (hc : c ∈ (s.vars v).cn)
    (hnf : (expandTail s c v w').failed = false) : NS (expandTail s c v w') := by
  unfold expandTail at hnf ⊢
  simp only at hnf ⊢
  generalize hs1 : (if (s.vars v).pen ≠ 0 then _ else s) = s1 at hnf ⊢
  have hnf1 : s1.failed = false := by
    split at hnf
    · split at hnf
      · exact umcs_sticky _ _ (umcsFromVar_sticky _ _ hnf)
      · exact umcs_sticky _ _ hnf
    · exact hnf
  have h1 : NS s1 := by
    rw [← hs1] at hnf1 ⊢
    split
    · rename_i hp
      rw [if_pos hp] at hnf1
      split
      · exact h
      · rename_i lim hl
        split
        · rename_i hlt
          rw [hl] at hnf1
          simp only [hlt, if_true] at hnf1
          exact NS_stageBack c v lim hwf hnd h hp hc hl hlt hnf1
        · exact h
    · exact h
  split
  · split
    · exact NS_markOnly (NS_markOnly h1 (umcs_markOnly _ _)) (umcsFromVar_markOnly _ _)
    · exact NS_markOnly h1 (umcs_markOnly _ _)
  · exact h1

/-! ### `expand` -/

theorem conc_mono (p : Policy) {w w' : Nat} (h : w ≤ w') : conc p w ≤ conc p w' := by
  unfold conc
  split
  · exact Nat.le_refl _
  · split <;> split <;> omega

theorem le_addW (p : Policy) (old w : Nat) : old ≤ addW p old w := by
  unfold addW; split <;> omega

theorem WF_createElem {s : Sys} (c v w : Nat) (h : WF s) (hc : c < s.nc) (hal : (s.vars v).alive = true) :
    WF (createElem s c v w) := by
  have hcr := WF_create (WF_modflag h true) c v w ((s.cnsts c).cur + conc (s.cnsts c).policy w) hal hc
  unfold createElem createdCnst
  simp only
  split
  · apply WF_makeActive
    split
    · rename_i hp; rw [if_pos hp] at hcr; exact hcr
    · rename_i hp; rw [if_neg hp] at hcr; exact hcr
  · split
    · rename_i hp; rw [if_pos hp] at hcr; exact hcr
    · rename_i hp; rw [if_neg hp] at hcr; exact hcr

theorem Grow_createElem (s : Sys) (c v w : Nat) : Grow s (createElem s c v w) := by
  refine ⟨?_, ?_, ?_, ?_, ?_⟩
  · intro c'
    rw [createElem_cnsts]; simp only
    split
    · rename_i hcc; rw [hcc]; unfold createdCnst; split <;> rfl
    · rfl
  · intro c'
    rw [createElem_cnsts]; simp only
    split
    · rename_i hcc; rw [hcc]; unfold createdCnst; split
      · simp only; omega
      · exact Nat.le_refl _
    · exact Nat.le_refl _
  · intro u c' hc'
    rw [createElem_vars]; simp only
    split
    · rename_i hu; rw [hu] at hc'; exact List.mem_append_left _ hc'
    · exact hc'
  · intro u
    rw [createElem_vars]; simp only
    split
    · rename_i hu; rw [hu]
    · rfl
  · intro u
    left
    rw [createElem_vars]; simp only
    split
    · rename_i hu; rw [hu]
    · rfl

theorem NS_expand {s : Sys} (c v w : Nat) (hwf : WF s) (hnd : ND s) (h : NS s) (hc : c < s.nc)
    (hal : (s.vars v).alive = true) (hnf : (expand s c v w false).failed = false) : NS (expand s c v w false) := by
  rcases expand_inv s c v w false hnf with ⟨i, e, hcn, hp, he, hle, heq⟩ | ⟨i, e, hcn, hp, he, heq⟩ | ⟨hno, heq⟩
  · rw [heq] at hnf ⊢
    have hmem : c ∈ (s.vars v).cn := List.mem_iff_getElem?.mpr ⟨i, hcn⟩
    have hwf1 : WF (reuseEn s c v i w e) := WF_setW (WF_modflag hwf true) c v i _ hcn (Or.inr ⟨rfl, _, e, he, rfl⟩)
    have hg : Grow s (reuseEn s c v i w e) := by
      refine ⟨?_, ?_, fun _ _ hh => hh, fun _ => rfl, fun _ => Or.inl rfl⟩
      · intro c'; rw [reuseEn_cnsts]; split
        · rename_i hcc; rw [hcc]
        · rfl
      · intro c'; rw [reuseEn_cnsts]; split
        · rename_i hcc; rw [hcc]
          have := conc_mono (s.cnsts c).policy (le_addW (s.cnsts c).policy e.w w)
          simp only; omega
        · exact Nat.le_refl _
    exact NS_expandTail c v _ hwf1 (ND_cnSame hnd (fun _ => rfl)) (NS_grow h hg) hmem hnf
  · rw [heq] at hnf ⊢
    have hmem : c ∈ (s.vars v).cn := List.mem_iff_getElem?.mpr ⟨i, hcn⟩
    have hwf1 : WF (reuseDis s c v i w e) := WF_setW (WF_modflag hwf true) c v i _ hcn (Or.inl ⟨rfl, _, e, he, rfl⟩)
    have hg : Grow s (reuseDis s c v i w e) := by
      refine ⟨?_, ?_, fun _ _ hh => hh, fun _ => rfl, fun _ => Or.inl rfl⟩
      · intro c'; unfold reuseDis; simp only [setC_cnsts]; split
        · rename_i hcc; rw [hcc]
        · rfl
      · intro c'; unfold reuseDis; simp only [setC_cnsts]; split
        · rename_i hcc; rw [hcc]; exact Nat.le_refl _
        · exact Nat.le_refl _
    exact NS_expandTail c v _ hwf1 (ND_cnSame hnd (fun _ => rfl)) (NS_grow h hg) hmem hnf
  · rw [heq] at hnf ⊢
    have hwf1 := WF_createElem c v w hwf hc hal
    have hnd1 : ND (createElem s c v w) := by
      intro u
      rw [createElem_vars]; simp only
      split
      · simp only
        rw [List.nodup_append]
        refine ⟨hnd v, by simp, ?_⟩
        intro a ha b hb hab
        rw [List.mem_singleton.mp hb] at hab
        rw [hab] at ha
        exact hno rfl ha
      · exact hnd u
    have hmem : c ∈ ((createElem s c v w).vars v).cn := by
      rw [createElem_vars]; simp
    exact NS_expandTail c v _ hwf1 hnd1 (NS_grow h (Grow_createElem s c v w)) hmem hnf

end SgVerif.C18
