import SgVerif.LmmBook.Frame
/-
C18 helper lemmas, part 1: the counter invariant `CE` (concurrency_current_ = Σ get_concurrency over the enabled
elements) is preserved by every internal function — unconditionally, also on the branches where an assertion fires
(`fail` only sets the flag).
-/
namespace SgVerif.C18
open SgVerif.LmmBook

/-- `concurrency_current_` of every constraint is the sum of `get_concurrency()` over its enabled elements -/
def CE (s : Sys) : Prop := ∀ c, (s.cnsts c).cur = sumConc (s.cnsts c).policy (s.cnsts c).en

theorem sumConc_eraseP (pol : Policy) (p : Entry → Bool) :
    ∀ (l : List Entry) (e : Entry), l.find? p = some e → sumConc pol (l.eraseP p) + conc pol e.w = sumConc pol l := by
  intro l
  induction l with
  | nil => intro e h; simp at h
  | cons y rest ih =>
    intro e h
    by_cases hy : p y = true
    · simp only [List.find?_cons, hy] at h
      cases h
      simp [hy, sumConc]
      omega
    · have hy' : p y = false := by simpa using hy
      simp only [List.find?_cons, hy'] at h
      have := ih e h
      simp [hy', sumConc]
      omega

theorem sumConc_setW (pol : Policy) (v i w' : Nat) :
    ∀ (l : List Entry) (e : Entry), l.find? (isRef v i) = some e →
      sumConc pol (setW v i w' l) + conc pol e.w = sumConc pol l + conc pol w' := by
  intro l
  induction l with
  | nil => intro e h; simp at h
  | cons y rest ih =>
    intro e h
    by_cases hy : isRef v i y = true
    · simp only [List.find?_cons, hy] at h
      cases h
      simp only [setW, hy, if_true, sumConc]
      omega
    · have hy' : isRef v i y = false := by simpa using hy
      simp only [List.find?_cons, hy'] at h
      have := ih e h
      simp only [setW, hy', Bool.false_eq_true, if_false, sumConc]
      omega

theorem CE_setC {s : Sys} (h : CE s) (c : Nat) (k : Cnst) (hk : k.cur = sumConc k.policy k.en) : CE (s.setC c k) := by
  intro c'
  simp only [setC_cnsts]
  split
  · exact hk
  · exact h c'

theorem CE_cnsts {s s' : Sys} (h : s'.cnsts = s.cnsts) (hs : CE s) : CE s' := by
  intro c; rw [h]; exact hs c

theorem CE_markOnly {s s' : Sys} (h : MarkOnly s s') (hs : CE s) : CE s' := CE_cnsts h.cnsts hs

theorem CE_fail {s : Sys} (h : CE s) : CE s.fail := CE_cnsts rfl h

theorem moveToEn_CE (s : Sys) (c v i : Nat) (h : CE s) : CE (moveToEn s c v i) := by
  unfold moveToEn
  simp only
  split
  · exact CE_fail h
  · rename_i e he
    split
    · split
      · apply CE_fail
        apply CE_setC h
        simp only [sumConc]
        have := h c
        omega
      · apply CE_setC h
        simp only [sumConc]
        have := h c
        omega
    · apply CE_setC h
      simp only [sumConc]
      have := h c
      omega

theorem moveToDis_CE (s : Sys) (c v i : Nat) (h : CE s) : CE (moveToDis s c v i) := by
  unfold moveToDis
  simp only
  split
  · exact CE_fail h
  · rename_i e he
    split
    · exact CE_fail h
    · apply CE_setC h
      simp only
      have := h c
      have := sumConc_eraseP (s.cnsts c).policy (isRef v i) _ e he
      omega

theorem enableVar_CE (s : Sys) (v : Nat) (h : CE s) : CE (enableVar s v) := by
  unfold enableVar
  simp only
  apply CE_markOnly (umcsFromVar_markOnly _ _)
  apply forElems_inv (P := CE) moveToEn_CE
  exact CE_cnsts rfl h

theorem disableVar_CE (s : Sys) (v : Nat) (h : CE s) : CE (disableVar s v) := by
  unfold disableVar
  split
  · exact CE_fail h
  · simp only
    refine CE_cnsts (s := forElems moveToDis v 0 _ _) rfl ?_
    apply forElems_inv (P := CE) moveToDis_CE
    apply CE_markOnly (umcsFromVar_markOnly _ _)
    exact CE_cnsts rfl h

/-- generic: `on_disabled_var`'s loop preserves whatever `enable_var` and `fail` preserve -/
theorem odvWalk_inv {P : Sys → Prop} (hen : ∀ s v, P s → P (enableVar s v)) (hfail : ∀ s, P s → P s.fail) (c : Nat) :
    ∀ (n : Nat) (l : List Entry) (s : Sys), P s → P (odvWalk c n l s) := by
  intro n
  induction n with
  | zero => intro l s h; simpa [odvWalk] using h
  | succ n ih =>
    intro l s h
    cases l with
    | nil => simpa [odvWalk] using h
    | cons e after =>
      by_cases hc : canEnable s e.var = true
      · simp only [odvWalk, hc, if_true]
        have h1 := hen s e.var h
        split
        · exact h1
        · split
          · exact hfail _ h1
          · split
            · exact h1
            · exact ih _ _ h1
      · have hc' : canEnable s e.var = false := by simpa using hc
        simp only [odvWalk, hc', Bool.false_eq_true, if_false]
        split
        · exact h
        · split
          · exact hfail _ h
          · split
            · exact h
            · exact ih _ _ h

theorem onDisabledVar_inv {P : Sys → Prop} (hen : ∀ s v, P s → P (enableVar s v)) (hfail : ∀ s, P s → P s.fail)
    (s : Sys) (c : Nat) (h : P s) : P (onDisabledVar s c) := by
  unfold onDisabledVar
  split
  · exact h
  · exact odvWalk_inv hen hfail _ _ _ _ h

theorem onDisabledVar_CE (s : Sys) (c : Nat) (h : CE s) : CE (onDisabledVar s c) :=
  onDisabledVar_inv enableVar_CE (fun _ => CE_fail) s c h

theorem makeActive_CE (s : Sys) (c : Nat) (h : CE s) : CE (makeActive s c) := by
  unfold makeActive; split <;> exact CE_cnsts rfl h

theorem expandTail_CE (s : Sys) (c v w' : Nat) (h : CE s) : CE (expandTail s c v w') := by
  unfold expandTail
  simp only
  generalize hs1 : (if (s.vars v).pen ≠ 0 then _ else s) = s1
  have h1 : CE s1 := by
    rw [← hs1]
    split
    · split
      · exact h
      · split
        · refine CE_cnsts (s := List.foldl onDisabledVar _ _) rfl ?_
          exact foldl_inv (P := CE) onDisabledVar_CE _ _ (disableVar_CE _ _ h)
        · exact h
    · exact h
  split
  · split
    · exact CE_markOnly (umcsFromVar_markOnly _ _) (CE_markOnly (umcs_markOnly _ _) h1)
    · exact CE_markOnly (umcs_markOnly _ _) h1
  · exact h1

theorem expand_CE (s : Sys) (c v w : Nat) (f : Bool) (h : CE s) : CE (expand s c v w f) := by
  unfold expand
  simp only
  have h0 : CE { s with modflag := true } := CE_cnsts rfl h
  split
  · -- reuse
    split
    · split
      · exact CE_fail h0
      · rename_i e he
        split
        · exact CE_fail h0
        · apply expandTail_CE
          apply CE_setC h0
          simp only
          have := h c
          have := sumConc_setW (s.cnsts c).policy v _ (addW (s.cnsts c).policy e.w w) _ e he
          omega
    · split
      · exact CE_fail h0
      · apply expandTail_CE
        apply CE_setC h0
        exact h c
  · -- create
    apply expandTail_CE
    split
    · apply makeActive_CE
      split
      · apply CE_setC (CE_cnsts rfl h)
        simp only [sumConc]
        have := h c
        omega
      · apply CE_setC (CE_cnsts rfl h)
        exact h c
    · split
      · apply CE_setC (CE_cnsts rfl h)
        simp only [sumConc]
        have := h c
        omega
      · apply CE_setC (CE_cnsts rfl h)
        exact h c

theorem makeInactive_CE (s : Sys) (c : Nat) (h : CE s) : CE (makeInactive s c) := CE_cnsts rfl h

theorem freeElem_CE (s : Sys) (c v i : Nat) (h : CE s) : CE (freeElem s c v i) := by
  unfold freeElem
  simp only
  split
  · rename_i e h1 he
    split
    · exact CE_fail h
    · have := h c
      have := sumConc_eraseP (s.cnsts c).policy (isRef v i) _ e he
      split
      · apply makeInactive_CE
        apply CE_setC h
        simp only
        omega
      · apply onDisabledVar_CE
        apply CE_setC h
        simp only
        omega
  · split
    · apply makeInactive_CE
      apply CE_setC h
      exact h c
    · apply onDisabledVar_CE
      apply CE_setC h
      exact h c
  · exact CE_fail h

theorem varFree_CE (s : Sys) (v : Nat) (h : CE s) : CE (varFree s v) := by
  unfold varFree
  simp only
  refine CE_cnsts (s := forElems freeElem v 0 _ _) rfl ?_
  apply forElems_inv (P := CE) freeElem_CE
  apply CE_markOnly (umcsFromVar_markOnly _ _)
  exact CE_cnsts rfl h

theorem updatePenalty_CE (s : Sys) (v p : Nat) (h : CE s) : CE (updatePenalty s v p) := by
  unfold updatePenalty
  simp only
  split
  · exact h
  · split
    · split
      · exact CE_cnsts rfl h
      · exact enableVar_CE _ _ (CE_cnsts rfl h)
    · split
      · have hd : CE (disableVar { s with modflag := true } v) := disableVar_CE _ _ (CE_cnsts rfl h)
        split
        · exact foldl_inv (P := CE) onDisabledVar_CE _ _ hd
        · exact hd
      · exact CE_markOnly (umcsFromVar_markOnly _ _) (CE_cnsts rfl h)

theorem updateVarBound_CE (s : Sys) (v : Nat) (b : Int) (h : CE s) : CE (updateVarBound s v b) := by
  unfold updateVarBound
  simp only
  exact CE_markOnly (foldl_umcs_markOnly _ _) (CE_cnsts rfl h)

theorem updateCnstBound_CE (s : Sys) (c : Nat) (b : Int) (h : CE s) : CE (updateCnstBound s c b) := by
  unfold updateCnstBound
  simp only
  have h1 : CE (umcs { s with modflag := true } c) := CE_markOnly (umcs_markOnly _ _) (CE_cnsts rfl h)
  apply CE_setC h1
  exact h1 c

theorem solveOp_CE (s : Sys) (h : CE s) : CE (solveOp s) := by
  unfold solveOp
  split
  · exact h
  · simp only
    split
    · unfold removeAllModified
      simp only
      refine CE_cnsts ?_ h
      split <;> split <;> rfl
    · exact CE_cnsts rfl h

theorem cnew_CE (s : Sys) (b : Int) (l : Option Nat) (p : Policy) (h : CE s) : CE (cnew s b l p) := by
  unfold cnew
  refine CE_cnsts (s := s.setC s.nc _) rfl ?_
  apply CE_setC h
  rfl

theorem vnew_CE (s : Sys) (p : Nat) (b : Int) (h : CE s) : CE (vnew s p b) := CE_cnsts rfl h

theorem step_CE (s : Sys) (op : Op) (h : CE s) : CE (step s op) := by
  unfold step
  split
  · exact h
  · cases op with
    | cnew b l p => exact cnew_CE _ _ _ _ h
    | vnew p b => exact vnew_CE _ _ _ h
    | expand c v w f => exact expand_CE _ _ _ _ _ h
    | vfree v => exact varFree_CE _ _ h
    | vbound v b => exact updateVarBound_CE _ _ _ h
    | vpen v p => exact updatePenalty_CE _ _ _ h
    | cbound c b => exact updateCnstBound_CE _ _ _ h
    | solve => exact solveOp_CE _ h

theorem run_CE (s : Sys) (hist : List Op) (h : CE s) : CE (run s hist) := by
  unfold run
  exact foldl_inv (P := CE) step_CE _ _ h

theorem init_CE (cfg : Cfg) (sel : Bool) : CE (init cfg sel) := by
  intro c; rfl

end SgVerif.C18
