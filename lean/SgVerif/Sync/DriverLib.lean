/-
Trace-acceptance driver shared by C04 C05 C06 C07 (compiled; core only).

Input (canonicalised by props/_shared/sync/synclib.py from the harness log; clocks and durations are integer
ticks of 2^-20 s, exact because the generators only use dyadic values):
  prog <n|m> <nactors>        start of a program; n = normal run, m = one trace explored by simgrid-mc
  mutex k rec | sem k cap | cond k | bar k n
  c <clock> <a> <op> <args..>   actor a is about to call op       (a = actor index)
  r <clock> <a> <op> <res..>    op returned with res
  x <clock> <a>                 actor a terminated
  e <a>                         (m only) the checker executes actor a's pending simcall
  end finish|deadlock|abort|partial
The driver does not predict the schedule: it replays the observed order of kernel-level events on the object model
(`World.step`) and accepts a `r` line only if the model says that operation has completed, with that result, at
that simulated date.  Verdict per line: ok | DISAGREE | MONFAIL | BADLINE  (see Common/Proto.lean).
Timers: "timeout fires for actor a" is an input event of the model; the driver feeds it when the observed clock
reaches the deadline (for a zero timeout: at the first line after a point where every actor was blocked).
-/
import SgVerif.Sync.Model
import SgVerif.Common.Proto
open SgVerif.Proto
namespace SgVerif.Sync

inductive AStat where
  | run                                   -- runnable (not in a call)
  | blocked (op : String)                 -- in a call the model has not completed
  | ready (op : String) (res : List String) (clock : Nat)  -- the model completed the call: a `r` line is due
  | sleep (till : Nat)
  | done
  deriving Repr, Inhabited

inductive Micro where
  | ev (e : Ev)
  deriving Repr

structure Timer where
  actor : Aid
  isSem : Bool
  obj : Nat
  deadline : Nat
  solved : Bool        -- a point where every actor was blocked occurred since the timer was armed
  deriving Repr

structure DS where
  w : World
  mc : Bool := false
  nact : Nat := 0
  stat : Aid → AStat := fun _ => .run
  pend : Aid → List Ev := fun _ => []       -- (m) remaining simcalls of the current S4U call
  pres : Aid → List String := fun _ => []   -- (m) result tokens accumulated for the current call
  timers : List Timer := []
  callClock : Aid → Nat := fun _ => 0
  callTau : Aid → Option Nat := fun _ => none
  asserted : Bool := false
  -- trace monitors (computed from the observed lines only)
  held : Nat → Aid → Nat := fun _ _ => 0
  semCap : Nat → Nat := fun _ => 0
  semGrants : Nat → Nat := fun _ => 0
  semRel : Nat → Nat := fun _ => 0
  barArr : Nat → Nat := fun _ => 0
  barRet : Nat → Nat := fun _ => 0
  barTrue : Nat → Nat := fun _ => 0
  barN : Nat → Nat := fun _ => 0

def initWorld : World :=
  { mutexes := fun _ => { recursive := false }, sems := fun _ => { value := 0 }, conds := fun _ => {},
    bars := fun _ => { expected := 1 }, hgrant := fun _ => false }

def DS.init : DS := { w := initWorld }

def upd2 (f : Nat → Nat → Nat) (i j v : Nat) : Nat → Nat → Nat := fun i' j' => if i' = i ∧ j' = j then v else f i' j'

def allBelow (n : Nat) (p : Nat → Bool) : Bool := (List.range n).all p

def quiescent (s : DS) : Bool :=
  allBelow s.nact fun a => match s.stat a with
    | .blocked _ => true | .sleep _ => true | .done => true | _ => false

def markSolved (s : DS) : DS :=
  if quiescent s then { s with timers := s.timers.map fun t => { t with solved := true } } else s

def resTokens (op : String) (a : Aid) (r : Res) : List String :=
  match op, r with
  | "try", .flag b => [if b then "1" else "0"]
  | "alock", .flag b => [if b then "1" else "0"]
  | "bar", .flag b => [if b then "1" else "0"]
  | "acqt", .flag b => [if b then "timeout" else "ok"]
  | "wait", .flag _ => ["ok", toString a]
  | "waitfor", .flag b => [if b then "timeout" else "ok", toString a]
  | _, _ => []

/-- record the completions the model produced at simulated date `clock` -/
def deliver (s : DS) (clock : Nat) : Outs → Except String DS
  | [] => .ok s
  | (a, r) :: rest =>
    match s.stat a with
    | .blocked op =>
      deliver { s with stat := upd s.stat a (.ready op (resTokens op a r) clock),
                       timers := s.timers.filter (fun t => t.actor ≠ a) } clock rest
    | _ => .error s!"model completes an operation of actor {a} which is not in a blocking call"

def applyEv (s : DS) (clock : Nat) (e : Ev) : Except String DS :=
  match s.w.step e with
  | .error .assertNotOwner => .ok { s with asserted := true }
  | .error e => .error s!"model error {repr e}"
  | .ok (w, outs) => deliver { s with w := w } clock outs

/-- fire the timers that are due at `clock` (deadline order, then arming order) -/
def fireDue (s : DS) (clock : Nat) : Nat → Except String DS
  | 0 => .ok s
  | fuel + 1 =>
    let due := s.timers.filter (fun t => t.deadline ≤ clock ∧ t.solved)
    match due with
    | [] => .ok s
    | t0 :: rest =>
      let t := rest.foldl (fun m t => if t.deadline < m.deadline then t else m) t0
      let s1 := { s with timers := s.timers.filter (fun u => u.actor ≠ t.actor) }
      let e := if t.isSem then Ev.semTimeout t.actor t.obj else Ev.condTimeout t.actor t.obj
      match applyEv s1 t.deadline e with
      | .error m => .error m
      | .ok s2 => fireDue s2 clock fuel

def nat? (s : String) : Option Nat := s.toNat?

/-- the kernel-level events of one S4U call: normal mode = one simcall; MC mode = the split sequence -/
def eventsOf (mc : Bool) (a : Aid) (op : String) (args : List Nat) : Option (List Ev) :=
  match op, args with
  | "lock", [m] => some (if mc then [.lockAsync a m, .mutexWait a m] else [.lock a m])
  | "alock", [m] => some [.lockAsync a m]
  | "mwait", [m] => some [.mutexWait a m]
  | "try", [m] => some [.tryLock a m]
  | "unlock", [m] => some [.unlock a m]
  | "acq", [k] => some (if mc then [.semAsync a k, .semWait a k false] else [.acquire a k false])
  | "acqt", [k, _] => some (if mc then [.semAsync a k, .semWait a k true] else [.acquire a k true])
  | "rel", [k] => some [.release a k]
  | "wait", [c, m] => some (if mc then [.condAsync a c m, .condWaitMC a c m, .mutexWait a m] else [.condWait a c m false])
  | "waitfor", [c, m, _] => some (if mc then [] else [.condWait a c m true])
  | "sig", [c] => some [.signal a c]
  | "bcast", [c] => some [.broadcast a c]
  | "bar", [b] => some (if mc then [.barAsync a b, .barWaitMC a b] else [.barWait a b])
  | _, _ => none

def fail (s : DS) (m : String) : DS × Verdict := (s, .disagree m)

def okv (s : DS) : DS × Verdict := (markSolved s, .ok)

/-- trace monitor updates at a `c` line -/
def monCall (s : DS) (a : Aid) (op : String) (args : List Nat) : DS :=
  match op, args with
  | "unlock", [m] => { s with held := upd2 s.held m a (s.held m a - 1) }
  | "wait", [_, m] => { s with held := upd2 s.held m a (s.held m a - 1) }
  | "waitfor", [_, m, _] => { s with held := upd2 s.held m a (s.held m a - 1) }
  | "rel", [k] => { s with semRel := upd s.semRel k (s.semRel k + 1) }
  | "bar", [b] => { s with barArr := upd s.barArr b (s.barArr b + 1) }
  | _, _ => s

def othersHold (s : DS) (m : Nat) (a : Aid) : Bool :=
  (List.range s.nact).any fun b => b ≠ a ∧ s.held m b > 0

/-- trace monitor at a `r` line: the property's own predicate on what the implementation returned -/
def monRet (s : DS) (clock : Nat) (a : Aid) (op : String) (args : List Nat) (res : List String) : DS × Option String :=
  let acquired (m : Nat) : DS × Option String :=
    let s1 := { s with held := upd2 s.held m a (s.held m a + 1) }
    if othersHold s m a then
      (s1, some s!"mutual exclusion: actor {a} obtained mutex {m} while another actor holds it")
    else (s1, none)
  match op, args, res with
  | "lock", [m], _ => acquired m
  | "mwait", [m], _ => acquired m
  | "try", [m], ["1"] => acquired m
  | "wait", [_, m], [_, o] =>
    if o ≠ toString a then (s, some s!"cond wait of actor {a} returned while mutex {m} is owned by {o}") else acquired m
  | "waitfor", [_, m, tau], [r, o] =>
    if o ≠ toString a then (s, some s!"cond wait_for of actor {a} returned while mutex {m} is owned by {o}")
    else if r = "timeout" ∧ clock < s.callClock a + tau then
      (s, some s!"wait_for of actor {a} reported a timeout before its deadline")
    else acquired m
  | "acq", [k], _ =>
    let g := s.semGrants k + 1
    let s1 := { s with semGrants := upd s.semGrants k g }
    if g > s.semCap k + s.semRel k then (s1, some s!"semaphore {k}: {g} grants > capacity {s.semCap k} + releases {s.semRel k}")
    else (s1, none)
  | "acqt", [k, tau], ["ok"] =>
    let g := s.semGrants k + 1
    let s1 := { s with semGrants := upd s.semGrants k g }
    if g > s.semCap k + s.semRel k then (s1, some s!"semaphore {k}: {g} grants > capacity {s.semCap k} + releases {s.semRel k}")
    else if clock > s.callClock a + tau then (s1, some s!"acquire_timeout of actor {a} succeeded after its deadline")
    else (s1, none)
  | "acqt", [_, tau], ["timeout"] =>
    if clock ≠ s.callClock a + tau then (s, some s!"acquire_timeout of actor {a} timed out at {clock}, not at call + timeout = {s.callClock a + tau}")
    else (s, none)
  | "bar", [b], [f] =>
    let r := s.barRet b + 1
    let t := s.barTrue b + (if f = "1" then 1 else 0)
    let s1 := { s with barRet := upd s.barRet b r, barTrue := upd s.barTrue b t }
    let n := s.barN b
    if n = 0 then (s1, none)
    else if r > n * (s.barArr b / n) then
      (s1, some s!"barrier {b} (n={n}): {r} waits returned after only {s.barArr b} arrivals")
    else if t > s.barArr b / n then (s1, some s!"barrier {b} (n={n}): more than one 'last' in a group")
    else (s1, none)
  | _, _, _ => (s, none)

def barLastOk (s : DS) : Option String :=
  (List.range 8).findSome? fun b =>
    let n := s.barN b
    if n > 0 ∧ s.barRet b = s.barArr b ∧ s.barArr b % n = 0 ∧ s.barTrue b ≠ s.barArr b / n then
      some s!"barrier {b} (n={n}): {s.barArr b / n} complete groups but {s.barTrue b} waits returned true"
    else none

def judge (s : DS) (q _a : List String) : DS × Verdict :=
  match q with
  | ["prog", mode, n] =>
    match nat? n with
    | some n => ({ DS.init with mc := (mode = "m"), nact := n }, .ok)
    | none => (s, .bad)
  | ["mutex", k, r] =>
    match nat? k with
    | some k => ({ s with w := { s.w with mutexes := upd s.w.mutexes k { recursive := (r = "1") } } }, .ok)
    | none => (s, .bad)
  | ["sem", k, c] =>
    match nat? k, nat? c with
    | some k, some c => ({ s with w := { s.w with sems := upd s.w.sems k { value := c } }, semCap := upd s.semCap k c }, .ok)
    | _, _ => (s, .bad)
  | ["cond", _] => (s, .ok)
  | ["bar", k, n] =>
    match nat? k, nat? n with
    | some k, some n => ({ s with w := { s.w with bars := upd s.w.bars k { expected := n } }, barN := upd s.barN k n }, .ok)
    | _, _ => (s, .bad)
  | "c" :: clock :: a :: op :: args =>
    match nat? clock, nat? a, args.mapM nat? with
    | some clock, some a, some args =>
      -- after the assertion the process is dead; calls already logged by actors of the same scheduling round are
      -- never handled
      if s.asserted then (s, .ok) else
      match fireDue s clock (s.timers.length + 1) with
      | .error m => fail s m
      | .ok s =>
      match s.stat a with
      | .run =>
        let s := monCall { s with callClock := upd s.callClock a clock } a op args
        if op = "sleep" then
          match args with
          | [d] => okv { s with stat := upd s.stat a (.sleep (clock + d)) }
          | _ => (s, .bad)
        else if op = "owner" then
          match args with
          | [m] =>
            let o := match (s.w.mutexes m).owner with | some o => toString o | none => "-1"
            okv { s with stat := upd s.stat a (.ready op [o] clock) }
          | _ => (s, .bad)
        else if op = "cap" then
          match args with
          | [k] => okv { s with stat := upd s.stat a (.ready op [toString (s.w.sems k).value] clock) }
          | _ => (s, .bad)
        else
          match eventsOf s.mc a op args with
          | none => (s, .bad)
          | some evs =>
            let s := { s with stat := upd s.stat a (.blocked op) }
            if s.mc then okv { s with pend := upd s.pend a evs, pres := upd s.pres a [] }
            else
              -- arm the timer first so that a completion at this very event cancels it
              let s := match op, args with
                | "acqt", [k, tau] => { s with timers := s.timers ++ [{ actor := a, isSem := true, obj := k, deadline := clock + tau, solved := false }] }
                | "waitfor", [c, _, tau] => { s with timers := s.timers ++ [{ actor := a, isSem := false, obj := c, deadline := clock + tau, solved := false }] }
                | _, _ => s
              match evs with
              | [e] =>
                match applyEv s clock e with
                | .error m => fail s m
                | .ok s => okv s
              | _ => (s, .bad)
      | st => fail s s!"actor {a} calls while the model has it in state {repr st}"
    | _, _, _ => (s, .bad)
  | "r" :: clock :: a :: op :: res =>
    match nat? clock, nat? a with
    | some clock, some a =>
      -- (after the assertion, actors of the same round still log the returns of calls completed earlier)
      match fireDue s clock (s.timers.length + 1) with
      | .error m => fail s m
      | .ok s =>
      match s.stat a with
      | .sleep u =>
        if op = "sleep" ∧ clock = u then okv { s with stat := upd s.stat a .run }
        else (s, .monfail s!"sleep of actor {a} ended at {clock}, expected {u}")
      | .ready op' res' clk =>
        let s1 := { s with stat := upd s.stat a .run }
        if op ≠ op' then fail s1 s!"return of {op} but the pending call is {op'}"
        else if res ≠ res' then fail s1 s!"{op'} returns {res'}"
        else if clock ≠ clk then fail s1 s!"{op'} completes at date {clk}, observed {clock}"
        else
          -- args of the call are needed by the monitors: recover them from the timers/callTau? they are re-sent by python
          okv s1
      | .blocked op' => fail s s!"{op'} of actor {a} has not completed in the model (still blocked)"
      | st => fail s s!"actor {a} returns from {op} while in state {repr st}"
    | _, _ => (s, .bad)
  | ["x", _, a] =>
    match nat? a with
    | some a =>
      match s.stat a with
      | .run => okv { s with stat := upd s.stat a .done }
      | st => fail s s!"actor {a} exits while in state {repr st}"
    | none => (s, .bad)
  | ["e", a] =>
    match nat? a with
    | some a =>
      match s.pend a, s.stat a with
      | e :: rest, .blocked op =>
        (match s.w.step e with
        | .error .assertNotOwner => ({ s with asserted := true }, .ok)
        | .error err => fail s s!"the checker executed {repr e}: model error {repr err}"
        | .ok (w, outs) =>
          let s := { s with w := w, pend := upd s.pend a rest }
          -- under the checker only the issuer's own simcall is answered by an executed transition
          match outs with
          | [(b, r)] =>
            if b ≠ a then fail s s!"executing {repr e} answered actor {b}" else
            let toks := match e, r with
              | .condWaitMC .., .flag t => [if t then "timeout" else "ok", toString a]
              | .tryLock .., .flag t => [if t then "1" else "0"]
              | .barWaitMC .., .flag t => [if t then "1" else "0"]
              | _, _ => []
            let acc := s.pres a ++ toks
            if rest.isEmpty then ({ s with stat := upd s.stat a (.ready op acc 0), pres := upd s.pres a [] }, .ok)
            else ({ s with pres := upd s.pres a acc }, .ok)
          | [] => fail s s!"the checker executed {repr e} of actor {a}, which is not enabled in the model"
          | _ => fail s s!"executing {repr e} answered several actors")
      | _, st => fail s s!"the checker executed actor {a} which has no pending simcall in the model (state {repr st})"
    | none => (s, .bad)
  | ["end", how] =>
    let blocked := (List.range s.nact).filter fun a => match s.stat a with | .blocked _ => true | _ => false
    let ready := (List.range s.nact).filter fun a => match s.stat a with | .ready .. => true | _ => false
    let alldone := allBelow s.nact fun a => match s.stat a with | .done => true | _ => false
    match how with
    | "abort" =>
      if s.asserted then (s, .ok) else fail s "the process aborted but the model raised no assertion"
    | "finish" =>
      if s.asserted then fail s "the model raised the unlock assertion but the run finished" else
      if ¬ alldone then fail s s!"run finished; model: blocked {blocked}, completed-but-not-returned {ready}" else
      (match barLastOk s with | some m => (s, .monfail m) | none => (s, .ok))
    | "deadlock" =>
      if s.asserted then fail s "the model raised the unlock assertion but the run went on" else
      if ¬ ready.isEmpty then (s, .monfail s!"lost wake-up: the operations of actors {ready} completed but never returned")
      else if blocked.isEmpty then fail s "deadlock reported but the model has no blocked actor"
      else if ¬ s.timers.isEmpty then fail s "deadlock reported while a timeout is armed"
      else (s, .ok)
    | "partial" => (match barLastOk s with | some m => (s, .monfail m) | none => (s, .ok))
    | _ => (s, .bad)
  | _ => (s, .bad)

/-- `r` lines carry the call's arguments after a `|` so that the trace monitors are evaluated on them:
`r <clock> <a> <op> <res..> | <args..>` -/
def judge' (s : DS) (q a : List String) : DS × Verdict :=
  match q with
  | "r" :: clock :: act :: op :: rest =>
    let res := rest.takeWhile (· ≠ "|")
    let args := (rest.dropWhile (· ≠ "|")).drop 1
    match nat? clock, nat? act, args.mapM nat? with
    | some clk, some ai, some args =>
      let (s1, v) := judge s ("r" :: clock :: act :: op :: res) a
      -- the monitor is evaluated on the implementation's answer whatever the model says
      let (s2, m) := monRet s1 clk ai op args res
      match m, v with
      | some msg, _ => (s2, .monfail msg)
      | none, v => (s2, v)
    | _, _, _ => (s, .bad)
  | _ => judge s q a

def driverMain : IO Unit := SgVerif.Proto.runS DS.init judge'

end SgVerif.Sync
