/-
Shared executable model of SimGrid's synchronisation objects (properties C04 C05 C06 C07).

Transliteration of  /repo/src/kernel/activity/{MutexImpl,SemaphoreImpl,ConditionVariableImpl,BarrierImpl}.cpp
and of the way /repo/src/s4u/s4u_{Mutex,Semaphore,ConditionVariable,Barrier}.cpp compose them into simcalls
(single-simcall path of normal runs, split *_ASYNC_LOCK + *_WAIT path of the model checker).

Representation choices (each is exact, not an abstraction):
* an acquisition object that sits in `ongoing_acquisitions_` is a record in `queue`; `granted_` of such a record is
  false; an acquisition that left the queue (or never entered it) is granted.  The acquisition an actor obtained from
  an `*_async` call and has not yet waited on (split path) is remembered by `World.hgrant` (its `granted_` flag).
* `waited` = "the issuer's simcall is registered on this acquisition", i.e. `acq ∈ issuer->waiting_synchros_`
  (`ActivityImpl::register_simcall` / `unregister_first_simcall`), which is what `unlock/release/signal/acquire_async`
  test with `std::find(synchros.begin(), synchros.end(), acq)` before calling `finish()`.
* `timed` = a timeout action (`model_action_`) is attached to the acquisition.
No Mathlib import: this file is compiled into the drivers.
-/
namespace SgVerif.Sync

abbrev Aid := Nat

/-- what a simcall returns to its issuer when it is answered -/
inductive Res where
  | unit
  | flag (b : Bool)   -- try_lock result / "timed out" / barrier "was last" / is_granted of an async acquisition
  deriving DecidableEq, Repr, Inhabited

inductive Err where
  | assertNotOwner     -- xbt_assert(issuer == owner_) in MutexImpl::unlock / ConditionVariableImpl::acquire_async
  | noTimer            -- "timeout fires" for an actor that has no armed timer (ill-formed input of the model)
  | illFormed          -- an event that no S4U program can issue (e.g. a blocked actor calling)
  deriving DecidableEq, Repr

abbrev Outs := List (Aid × Res)

/-! ## Mutex  (MutexImpl.cpp) -/

structure MAcq where
  issuer : Aid
  depth  : Int := 1        -- MutexAcquisitionImpl::recursive_depth_
  waited : Bool := false
  res    : Res := .unit    -- what the registered simcall returns (a cond wait re-locking returns its timeout flag)
  deriving DecidableEq, Repr

structure Mutex where
  recursive : Bool
  owner : Option Aid := none      -- owner_
  depth : Int := 0                -- recursive_depth
  queue : List MAcq := []         -- ongoing_acquisitions_
  deriving DecidableEq, Repr

/-- `for (auto acq : ongoing_acquisitions_) if (acq->get_issuer() == issuer) { acq->recursive_depth_++; return acq; }` -/
def bumpFirst (a : Aid) : List MAcq → List MAcq
  | [] => []
  | x :: xs => if x.issuer = a then { x with depth := x.depth + 1 } :: xs else x :: bumpFirst a xs

/-- MutexImpl::lock_async; the Bool is `is_granted()` of the returned acquisition. -/
def Mutex.lockAsync (m : Mutex) (a : Aid) : Mutex × Bool :=
  if m.recursive then
    if m.owner = some a then ({ m with depth := m.depth + 1 }, true)
    else if m.owner = none then ({ m with owner := some a, depth := 1 }, true)
    else if m.queue.any (fun q => q.issuer = a) then ({ m with queue := bumpFirst a m.queue }, false)
    else ({ m with queue := m.queue ++ [{ issuer := a }] }, false)
  else
    if m.owner = none then ({ m with owner := some a, depth := 1 }, true)
    else ({ m with queue := m.queue ++ [{ issuer := a }] }, false)

/-- register the issuer's simcall on its (most recent) queued acquisition -/
def markLast (a : Aid) (r : Res) : List MAcq → List MAcq
  | [] => []
  | x :: xs =>
    if xs.any (fun q => q.issuer = a) then x :: markLast a r xs
    else if x.issuer = a then { x with waited := true, res := r } :: xs else x :: xs

/-- MutexAcquisitionImpl::wait_for(issuer, -1): `register_simcall; if (granted_) finish();`.
`granted` = `is_granted()` of the acquisition being waited on: what `lock_async` returned for it, or true once `unlock()`
handed the mutex to it (an acquisition is granted iff it left / never entered `ongoing_acquisitions_`, see `isGranted`).
Returns the result delivered now, if any.  (Before the repair of finding `mutex-relock-by-owner-returns` the test was
`mutex_->get_owner() == issuer_`: `Mutex.waitForPre` below.) -/
def Mutex.waitFor (m : Mutex) (a : Aid) (r : Res) (granted : Bool) : Mutex × Option Res :=
  if granted then (m, some r)
  else ({ m with queue := markLast a r m.queue }, none)

/-- `is_granted()` of the acquisition that actor `a` holds on `m` and has not waited on yet (split path): granted iff it
is not (or no longer) in `ongoing_acquisitions_`. -/
def Mutex.isGranted (m : Mutex) (a : Aid) : Bool := !(m.queue.any (fun q => q.issuer = a))

/-- MutexImpl::try_lock -/
def Mutex.tryLock (m : Mutex) (a : Aid) : Mutex × Bool :=
  if m.owner = some a ∧ m.recursive then ({ m with depth := m.depth + 1 }, true)
  else if m.owner ≠ none then (m, false)
  else ({ m with owner := some a, depth := 1 }, true)

/-- MutexImpl::unlock; the second component is the acquisition finished by the hand-off (blocked new owner). -/
def Mutex.unlock (m : Mutex) (a : Aid) : Except Err (Mutex × Option (Aid × Res)) :=
  if m.owner ≠ some a then .error .assertNotOwner
  else
    let d := if m.recursive then m.depth - 1 else m.depth
    if m.recursive ∧ d > 0 then .ok ({ m with depth := d }, none)
    else match m.queue with
      | acq :: rest =>
        .ok ({ m with owner := some acq.issuer, depth := acq.depth, queue := rest },
             if acq.waited then some (acq.issuer, acq.res) else none)
      | [] => .ok ({ m with owner := none, depth := d }, none)

/-- `lock_async(issuer)->wait_for(issuer, -1)` in one simcall (Mutex::lock outside MC; the re-lock of a cond wait) -/
def Mutex.lock (m : Mutex) (a : Aid) (r : Res) : Mutex × Option Res :=
  (m.lockAsync a).1.waitFor a r (m.lockAsync a).2

/-! ### the code BEFORE the repair of finding `mutex-relock-by-owner-returns` (props/C14/fix_series/01-mutex-relock.patch)

NOT the current code and used by no driver; kept for the regression statements (C04 `relock_pre_fix_returns`, C14
`single_simcall_is_atomic_split_prefix_counterexample`).  `MutexAcquisitionImpl::wait_for` tested
`mutex_->get_owner() == issuer_` instead of `granted_`.  The two variants differ only when the owner of a NON-recursive
mutex locks it again: the acquisition is queued, not granted — the old code returned at once (leaving a stale acquisition
at the head of the queue), the repaired code blocks (as under the model checker, whose MUTEX_WAIT is enabled iff
`is_granted()`). -/

def Mutex.waitForPre (m : Mutex) (a : Aid) (r : Res) : Mutex × Option Res :=
  if m.owner = some a then (m, some r)
  else ({ m with queue := markLast a r m.queue }, none)

def Mutex.lockPre (m : Mutex) (a : Aid) (r : Res) : Mutex × Option Res :=
  (m.lockAsync a).1.waitForPre a r

/-! ## Semaphore  (SemaphoreImpl.cpp) -/

structure SAcq where
  issuer : Aid
  waited : Bool := false
  timed  : Bool := false
  deriving DecidableEq, Repr

structure Sem where
  value : Nat                 -- value_ (unsigned int; wrap-around at 2^32 is not modelled)
  queue : List SAcq := []
  deriving DecidableEq, Repr

/-- SemaphoreImpl::acquire_async; Bool = granted_ -/
def Sem.acquireAsync (s : Sem) (a : Aid) : Sem × Bool :=
  if s.value > 0 then ({ s with value := s.value - 1 }, true)
  else ({ s with queue := s.queue ++ [{ issuer := a }] }, false)

def markS (a : Aid) (timed : Bool) : List SAcq → List SAcq
  | [] => []
  | x :: xs => if x.issuer = a then { x with waited := true, timed := timed } :: xs else x :: markS a timed xs

/-- SemAcquisitionImpl::finish(): is a timeout reported?  `hasTimer` = model_action_ != nullptr,
`fired` = its state is FINISHED. -/
def semFinish (hasTimer fired granted : Bool) : Bool :=
  if hasTimer then (if fired then (if granted then false else true) else false) else false

/-- SemAcquisitionImpl::wait_for(issuer, timeout) on an acquisition whose `granted_` is `granted`;
`timed` = (timeout >= 0). -/
def Sem.waitFor (s : Sem) (a : Aid) (granted timed : Bool) : Sem × Option Res :=
  if granted then (s, some (.flag (semFinish false false true)))
  else ({ s with queue := markS a timed s.queue }, none)

/-- SemaphoreImpl::release: the popped acquisition, if any (it becomes granted). -/
def Sem.release (s : Sem) : Sem × Option SAcq :=
  match s.queue with
  | acq :: rest => ({ s with queue := rest }, some acq)
  | [] => ({ s with value := s.value + 1 }, none)

def eraseS (a : Aid) : List SAcq → List SAcq
  | [] => []
  | x :: xs => if x.issuer = a then xs else x :: eraseS a xs

/-- the timeout action of `a`'s acquisition finishes: finish() with FINISHED and not granted → cancel(), result true -/
def Sem.timeout (s : Sem) (a : Aid) : Except Err (Sem × Res) :=
  if s.queue.any (fun q => q.issuer = a ∧ q.waited ∧ q.timed) then
    .ok ({ s with queue := eraseS a s.queue }, .flag (semFinish true true false))
  else .error .noTimer

/-! ## Barrier  (BarrierImpl.cpp) -/

structure BAcq where
  issuer : Aid
  waited : Bool := false
  deriving DecidableEq, Repr

structure Bar where
  expected : Nat              -- expected_actors_ (unsigned int)
  queue : List BAcq := []
  deriving DecidableEq, Repr

/-- `expected_actors_ - 1` in unsigned int arithmetic -/
def Bar.threshold (b : Bar) : Nat := (b.expected + 4294967295) % 4294967296

/-- BarrierImpl::acquire_async: (new state, granted_ of the new acquisition, acquisitions released — all of the queue,
in queue order). -/
def Bar.acquireAsync (b : Bar) (a : Aid) : Bar × Bool × List BAcq :=
  if b.queue.length < b.threshold then ({ b with queue := b.queue ++ [{ issuer := a }] }, false, [])
  else ({ b with queue := [] }, true, b.queue)

/-- BarrierImpl::was_last -/
def Bar.wasLast (b : Bar) : Bool := b.queue.isEmpty

def markB (a : Aid) : List BAcq → List BAcq
  | [] => []
  | x :: xs => if x.issuer = a then { x with waited := true } :: xs else x :: markB a xs

/-- BarrierAcquisitionImpl::wait_for -/
def Bar.waitFor (b : Bar) (a : Aid) (granted : Bool) : Bar × Bool :=
  if granted then (b, true) else ({ b with queue := markB a b.queue }, false)

/-! ## Condition variable  (ConditionVariableImpl.cpp) -/

structure CAcq where
  issuer : Aid
  mutex  : Nat
  waited : Bool := false
  timed  : Bool := false
  deriving DecidableEq, Repr

structure Cond where
  queue : List CAcq := []
  deriving DecidableEq, Repr

def markC (a : Aid) (timed : Bool) : List CAcq → List CAcq
  | [] => []
  | x :: xs => if x.issuer = a then { x with waited := true, timed := timed } :: xs else x :: markC a timed xs

def eraseC (a : Aid) : List CAcq → List CAcq
  | [] => []
  | x :: xs => if x.issuer = a then xs else x :: eraseC a xs

/-! ## The world: any number of objects and actors -/

def upd {β : Type} (f : Nat → β) (i : Nat) (v : β) : Nat → β := fun j => if j = i then v else f j

structure World where
  mutexes : Nat → Mutex
  sems : Nat → Sem
  conds : Nat → Cond
  bars : Nat → Bar
  hgrant : Aid → Bool       -- granted_ of the acquisition obtained from the last *_async call (split path)
  hlast : Aid → Bool := fun _ => false   -- `was_last` local of Barrier::wait (split path): read in the BARRIER_ASYNC_LOCK simcall

inductive Ev where
  -- mutex
  | lock (a : Aid) (m : Nat)            -- Mutex::lock, one simcall
  | lockAsync (a : Aid) (m : Nat)       -- MUTEX_ASYNC_LOCK
  | mutexWait (a : Aid) (m : Nat)       -- MUTEX_WAIT
  | tryLock (a : Aid) (m : Nat)
  | unlock (a : Aid) (m : Nat)
  -- semaphore
  | acquire (a : Aid) (s : Nat) (timed : Bool)    -- Semaphore::acquire_timeout, one simcall
  | semAsync (a : Aid) (s : Nat)                  -- SEM_ASYNC_LOCK
  | semWait (a : Aid) (s : Nat) (timed : Bool)    -- SEM_WAIT
  | release (a : Aid) (s : Nat)
  | semTimeout (a : Aid) (s : Nat)                -- the timeout action of a's acquisition on s finishes
  -- condition variable
  | condWait (a : Aid) (c m : Nat) (timed : Bool) -- do_wait, one simcall (CONDVAR_NOMC)
  | condAsync (a : Aid) (c m : Nat)               -- CONDVAR_ASYNC_LOCK
  | condWaitMC (a : Aid) (c m : Nat)              -- CONDVAR_WAIT without timeout (wait_for, then mutex lock_async)
  | signal (a : Aid) (c : Nat)
  | broadcast (a : Aid) (c : Nat)
  | condTimeout (a : Aid) (c : Nat)               -- the timeout action of a's wait on c finishes
  -- barrier
  | barWait (a : Aid) (b : Nat)                   -- Barrier::wait, one simcall
  | barAsync (a : Aid) (b : Nat)                  -- BARRIER_ASYNC_LOCK
  | barWaitMC (a : Aid) (b : Nat)                 -- BARRIER_WAIT
  deriving Repr

def optOut (a : Aid) : Option Res → Outs
  | some r => [(a, r)]
  | none => []

/-- ConditionVariableImpl::acquire_async: assert the issuer owns the mutex, unlock it, enqueue. -/
def condAcquireAsync (w : World) (a : Aid) (c m : Nat) : Except Err (World × Outs) :=
  match (w.mutexes m).unlock a with
  | .error e => .error e
  | .ok (mu, fin) =>
    .ok ({ w with mutexes := upd w.mutexes m mu,
                  conds := upd w.conds c { queue := (w.conds c).queue ++ [{ issuer := a, mutex := m }] } },
         match fin with | some o => [o] | none => [])

/-- ConditionVariableAcquisitionImpl::finish() on the CONDVAR_NOMC path for an acquisition of `a` on mutex `m`:
`observer->get_mutex()->lock_async(issuer)->wait_for(issuer, -1)`; the simcall result is `timedOut`. -/
def condRelock (w : World) (a : Aid) (m : Nat) (timedOut : Bool) : World × Outs :=
  let (mu, r) := (w.mutexes m).lock a (.flag timedOut)
  ({ w with mutexes := upd w.mutexes m mu }, optOut a r)

/-- ConditionVariableImpl::signal -/
def condSignal (w : World) (c : Nat) : World × Outs :=
  match (w.conds c).queue with
  | [] => (w, [])
  | acq :: rest =>
    let w1 := { w with conds := upd w.conds c { queue := rest } }
    if acq.waited then condRelock w1 acq.issuer acq.mutex false
    else ({ w1 with hgrant := upd w1.hgrant acq.issuer true }, [])

/-- ConditionVariableImpl::broadcast: `while (not ongoing_acquisitions_.empty()) signal();` -/
def condBroadcastN : Nat → World → Nat → World × Outs
  | 0, w, _ => (w, [])
  | n + 1, w, c =>
    if (w.conds c).queue.isEmpty then (w, [])
    else
      let (w1, o1) := condSignal w c
      let (w2, o2) := condBroadcastN n w1 c
      (w2, o1 ++ o2)

def condBroadcast (w : World) (c : Nat) : World × Outs := condBroadcastN (w.conds c).queue.length w c

/-- the timeout action of `a`'s wait on `c` finishes: finish() with FINISHED and not granted → cancel(); the simcall
result becomes true; then the mutex is re-locked -/
def condTimeoutStep (w : World) (a : Aid) (c : Nat) : Except Err (World × Outs) :=
  match (w.conds c).queue.find? (fun q => q.issuer = a ∧ q.waited ∧ q.timed) with
  | none => .error .noTimer
  | some acq =>
    let w1 := { w with conds := upd w.conds c { queue := eraseC a (w.conds c).queue } }
    .ok (condRelock w1 a acq.mutex true)

def grantUnwaitedB (h : Aid → Bool) : List BAcq → (Aid → Bool)
  | [] => h
  | x :: xs => grantUnwaitedB (if x.waited then h else upd h x.issuer true) xs

/-- BARRIER_ASYNC_LOCK (split path of Barrier::wait), given the result `r` of acquire_async = (barrier, granted_,
released acquisitions): `was_last = pimpl_->was_last()` is read inside the same simcall.  A waiter released here was
queued by its own acquire_async, so its own `was_last` local is false (C07 `acquireAsync_queued_not_last`): `.flag false`.
(`r` is a parameter so that facts about this step are proved for every `r`, without unfolding `acquireAsync`, whose 2^32
literals do not reduce symbolically.) -/
def barAsyncStepR (w : World) (a : Aid) (b : Nat) (r : Bar × Bool × List BAcq) : World × Outs :=
  ({ w with bars := upd w.bars b r.1, hgrant := upd (grantUnwaitedB w.hgrant r.2.2) a r.2.1,
            hlast := upd w.hlast a r.1.wasLast },
   ((r.2.2.filter (·.waited)).map (fun q => (q.issuer, Res.flag false))) ++ [(a, .unit)])

def barAsyncStep (w : World) (a : Aid) (b : Nat) : World × Outs := barAsyncStepR w a b ((w.bars b).acquireAsync a)

/-- BARRIER_WAIT (split path): wait_for on the acquisition, then `return was_last;` (before the fix of
`barrier-last-flag-mc` the never-set result of the BARRIER_WAIT observer was returned: always false) -/
def barWaitMCStep (w : World) (a : Aid) (b : Nat) : World × Outs :=
  let r := (w.bars b).waitFor a (w.hgrant a)
  ({ w with bars := upd w.bars b r.1 }, if r.2 then [(a, .flag (w.hlast a))] else [])

/-- Barrier::wait in ONE simcall (path of normal runs), given the result `r` of acquire_async = (barrier, granted_,
released acquisitions): then `wait_for`, and `observer.set_result(p->get_barrier()->was_last())` evaluated right after.
(`r` is a parameter for the same reason as in `barAsyncStepR`: facts about this step are proved for every `r`, without
unfolding `acquireAsync`, whose 2^32 literals do not reduce symbolically.) -/
def barWaitStepR (w : World) (a : Aid) (b : Nat) (r : Bar × Bool × List BAcq) : World × Outs :=
  ({ w with bars := upd w.bars b (r.1.waitFor a r.2.1).1, hgrant := grantUnwaitedB w.hgrant r.2.2 },
   ((r.2.2.filter (·.waited)).map (fun q => (q.issuer, Res.flag false))) ++
     (if (r.1.waitFor a r.2.1).2 then [(a, .flag (r.1.waitFor a r.2.1).1.wasLast)] else []))

/-- One kernel-level event.  Outputs: the simcalls answered by this event, in the order the kernel answers them. -/
def World.step (w : World) : Ev → Except Err (World × Outs)
  | .lock a m =>
    let (mu, r) := (w.mutexes m).lock a .unit
    .ok ({ w with mutexes := upd w.mutexes m mu }, optOut a r)
  | .lockAsync a m =>
    let (mu, g) := (w.mutexes m).lockAsync a
    .ok ({ w with mutexes := upd w.mutexes m mu }, [(a, .flag g)])
  | .mutexWait a m =>
    let (mu, r) := (w.mutexes m).waitFor a .unit ((w.mutexes m).isGranted a)
    .ok ({ w with mutexes := upd w.mutexes m mu }, optOut a r)
  | .tryLock a m =>
    let (mu, b) := (w.mutexes m).tryLock a
    .ok ({ w with mutexes := upd w.mutexes m mu }, [(a, .flag b)])
  | .unlock a m =>
    match (w.mutexes m).unlock a with
    | .error e => .error e
    | .ok (mu, fin) =>
      -- the hand-off answers the blocked new owner first, then simcall_answered answers the unlocker
      .ok ({ w with mutexes := upd w.mutexes m mu }, (match fin with | some o => [o] | none => []) ++ [(a, .unit)])
  | .acquire a s timed =>
    let (s1, g) := (w.sems s).acquireAsync a
    let (s2, r) := s1.waitFor a g timed
    .ok ({ w with sems := upd w.sems s s2 }, optOut a r)
  | .semAsync a s =>
    let (s1, g) := (w.sems s).acquireAsync a
    .ok ({ w with sems := upd w.sems s s1, hgrant := upd w.hgrant a g }, [(a, .unit)])
  | .semWait a s timed =>
    let (s1, r) := (w.sems s).waitFor a (w.hgrant a) timed
    .ok ({ w with sems := upd w.sems s s1 }, optOut a r)
  | .release a s =>
    let (s1, popped) := (w.sems s).release
    match popped with
    | some acq =>
      if acq.waited then
        -- finish(): a timer, if any, is still running (not FINISHED): no timeout reported
        .ok ({ w with sems := upd w.sems s s1 }, [(acq.issuer, .flag (semFinish acq.timed false true)), (a, .unit)])
      else .ok ({ w with sems := upd w.sems s s1, hgrant := upd w.hgrant acq.issuer true }, [(a, .unit)])
    | none => .ok ({ w with sems := upd w.sems s s1 }, [(a, .unit)])
  | .semTimeout a s =>
    match (w.sems s).timeout a with
    | .error e => .error e
    | .ok (s1, r) => .ok ({ w with sems := upd w.sems s s1 }, [(a, r)])
  | .condWait a c m timed =>
    match condAcquireAsync w a c m with
    | .error e => .error e
    | .ok (w1, o) =>
      -- wait_for: never granted at creation; register, arm the timer when timeout >= 0
      .ok ({ w1 with conds := upd w1.conds c { queue := markC a timed (w1.conds c).queue } }, o)
  | .condAsync a c m =>
    match condAcquireAsync w a c m with
    | .error e => .error e
    | .ok (w1, o) => .ok ({ w1 with hgrant := upd w1.hgrant a false }, o ++ [(a, .unit)])
  | .condWaitMC a _c m =>
    -- executed by the checker only when enabled (granted): wait_for → finish() → answer; then lock_async on the mutex
    if w.hgrant a then
      let (mu, _) := (w.mutexes m).lockAsync a
      .ok ({ w with mutexes := upd w.mutexes m mu }, [(a, .flag false)])
    else .error .illFormed
  | .signal a c =>
    let (w1, o) := condSignal w c
    .ok (w1, o ++ [(a, .unit)])
  | .broadcast a c =>
    let (w1, o) := condBroadcast w c
    .ok (w1, o ++ [(a, .unit)])
  | .condTimeout a c => condTimeoutStep w a c
  | .barWait a b => .ok (barWaitStepR w a b ((w.bars b).acquireAsync a))
  | .barAsync a b => .ok (barAsyncStep w a b)
  | .barWaitMC a b => .ok (barWaitMCStep w a b)

/-- A whole history of kernel-level events; stops at the first assertion failure. -/
def World.run (w : World) : List Ev → Except Err (World × Outs)
  | [] => .ok (w, [])
  | e :: es =>
    match w.step e with
    | .error err => .error err
    | .ok (w1, o1) =>
      match w1.run es with
      | .error err => .error err
      | .ok (w2, o2) => .ok (w2, o1 ++ o2)

end SgVerif.Sync
