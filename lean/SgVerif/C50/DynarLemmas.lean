import SgVerif.C50.Dynar
/-
C50 — lemmas for the dynar refinement proof: what each low-level routine does to the abstraction.
-/
namespace SgVerif.C50

theorem expand_mem (d : Dynar) (nb : Nat) : (expand d nb).mem = d.mem := by
  unfold expand; split <;> rfl

theorem expand_used (d : Dynar) (nb : Nat) : (expand d nb).used = d.used := by
  unfold expand; split <;> rfl

theorem expand_size (d : Dynar) (nb : Nat) : nb ≤ (expand d nb).size ∧ d.size ≤ (expand d nb).size := by
  unfold expand
  split
  · simp only; split <;> omega
  · omega

theorem abs_length (d : Dynar) : (abs d).length = d.used := by simp [abs]

theorem abs_getElem (d : Dynar) (j : Nat) (h : j < (abs d).length) : (abs d)[j] = (d.mem j).getD 0 := by
  simp [abs]

theorem cells_of_inv (d : Dynar) (h : Inv d) : cells d = some (abs d) := by
  unfold cells
  have : (List.range d.used).all (fun i => (d.mem i).isSome) = true := by
    simp only [List.all_eq_true, List.mem_range]
    exact h.2.2
  simp [this]

theorem toI32_small (n : Nat) (h : n < 2147483648) : toI32 n = (n : Int) := by
  unfold toI32
  have : n % 4294967296 = n := Nat.mod_eq_of_lt (by omega)
  simp only [this]
  split
  · rfl
  · omega

theorem inbound_iff (d : Dynar) (idx : Nat) : inbound d idx = true ↔ idx < d.used := by
  unfold inbound
  simp

/-- `xbt_dynar_remove_at` refuses (assertion) every index outside `0 … used-1`, whatever its value -/
theorem removeAt_refused (d : Dynar) (idx : Int) (h : idx < 0 ∨ (d.used : Int) ≤ idx) :
    removeAt d idx = (.abort, d) := by
  unfold removeAt
  by_cases hneg : idx < 0
  · simp only [hneg, if_true]
  · have : inbound d idx.toNat = false := by
      cases hb : inbound d idx.toNat with
      | false => rfl
      | true => have := (inbound_iff d _).mp hb; omega
    simp only [hneg, if_false, this, Bool.not_false, if_true]

/-- `xbt_dynar_insert_at` refuses (assertion) every index outside `0 … used`, whatever its value -/
theorem insertAt_refused (d : Dynar) (idx : Int) (x : Elem) (h : idx < 0 ∨ (d.used : Int) < idx) :
    insertAt d idx x = (.abort, d) := by
  unfold insertAt
  by_cases hneg : idx < 0
  · simp only [hneg, if_true]
  · have : idx.toNat > d.used := by omega
    simp only [hneg, if_false, this, if_true]

/-- the insertion (expand, shift right, store) is `List.insertIdx` on the abstraction, for `0 ≤ idx ≤ used` -/
theorem insertAt_refines (d : Dynar) (hinv : Inv d) (idx : Int) (x : Elem) (h0 : 0 ≤ idx) (h1 : idx ≤ d.used)
    (hcap : d.used + 1 < 2147483648) :
    (insertAt d idx x).1 = .unit ∧ abs (insertAt d idx x).2 = (abs d).insertIdx idx.toNat x ∧ Inv (insertAt d idx x).2 := by
  obtain ⟨hsz, hlt, hinit⟩ := hinv
  have hneg : ¬ idx < 0 := by omega
  have hi : idx.toNat ≤ d.used := by omega
  have hi' : ¬ idx.toNat > d.used := by omega
  have hsize := expand_size d (d.used + 1)
  have hisz : idx.toNat < (expand d (d.used + 1)).size := by omega
  unfold insertAt
  simp only [hneg, if_false, hi', hisz, if_true, expand_mem]
  refine ⟨trivial, ?_, ?_⟩
  · apply List.ext_getElem
    · simp [abs, List.length_insertIdx, hi]
    · intro j hj1 hj2
      simp only [abs, List.length_map, List.length_range] at hj1
      rw [List.getElem_insertIdx]
      simp only [abs, List.getElem_map, List.getElem_range, store]
      by_cases hji : j = idx.toNat
      · subst hji; simp
      · simp only [hji, if_false, dite_false]
        by_cases hlt' : j < idx.toNat
        · simp only [hlt', dite_true]
          split
          · simp only [memmove]
            have : ¬ (idx.toNat + 1 ≤ j ∧ j < idx.toNat + 1 + (d.used - idx.toNat)) := by omega
            simp [this]
          · rfl
        · simp only [hlt', dite_false]
          have hiu : idx.toNat < d.used := by omega
          simp only [hiu, if_true, memmove]
          have : idx.toNat + 1 ≤ j ∧ j < idx.toNat + 1 + (d.used - idx.toNat) := by omega
          simp only [this, and_self, if_true]
          have e : idx.toNat + (j - (idx.toNat + 1)) = j - 1 := by omega
          rw [e]
  · refine ⟨by simp only; omega, by simp only; omega, ?_⟩
    intro j hj
    simp only at hj
    simp only [store]
    by_cases hji : j = idx.toNat
    · simp [hji]
    · simp only [hji, if_false]
      split
      · simp only [memmove]
        split
        · apply hinit; omega
        · apply hinit; omega
      · apply hinit; omega

/-- the removal (copy out, shift left) is `List.eraseIdx` on the abstraction, for `0 ≤ idx < used` -/
theorem removeAt_refines (d : Dynar) (hinv : Inv d) (i : Nat) (hi : i < d.used) :
    ∃ v, (abs d)[i]? = some v ∧ (removeAt d (i : Int)).1 = .val v ∧
      abs (removeAt d (i : Int)).2 = (abs d).eraseIdx i ∧ Inv (removeAt d (i : Int)).2 := by
  have hin : inbound d i = true := (inbound_iff d i).mpr hi
  have hneg : ¬ (i : Int) < 0 := by omega
  obtain ⟨hsz, hlt, hinit⟩ := hinv
  have hsome := hinit i hi
  obtain ⟨v, hv⟩ := Option.isSome_iff_exists.mp hsome
  refine ⟨v, ?_, ?_⟩
  · have : i < (abs d).length := by rw [abs_length]; exact hi
    rw [List.getElem?_eq_getElem this, abs_getElem, hv]; rfl
  · unfold removeAt
    simp only [hneg, Int.toNat_natCast, hin, Bool.not_true, Bool.false_eq_true, if_false, hv]
    refine ⟨trivial, ?_, ?_⟩
    · apply List.ext_getElem
      · simp [abs, List.length_eraseIdx, hi]
      · intro j hj1 hj2
        simp only [abs, List.length_map, List.length_range] at hj1
        rw [List.getElem_eraseIdx]
        simp only [abs, List.getElem_map, List.getElem_range]
        by_cases hlt' : j < i
        · simp only [hlt', dite_true]
          split
          · have : ¬ (i ≤ j ∧ j < i + (d.used - 1 - i)) := by omega
            simp only [memmove, this, if_false]
          · rfl
        · simp only [hlt', dite_false]
          have hnb : d.used - 1 - i > 0 := by omega
          have : i ≤ j ∧ j < i + (d.used - 1 - i) := by omega
          simp only [hnb, if_true, memmove, this, and_self]
          have e : i + 1 + (j - i) = j + 1 := by omega
          rw [e]
    · refine ⟨by simp only; omega, by simp only; omega, ?_⟩
      intro j hj
      simp only at hj
      split
      · simp only [memmove]
        split
        · apply hinit; omega
        · apply hinit; omega
      · apply hinit; omega

theorem toI32_pred (n : Nat) (h : n < 2147483648) :
    toI32 (n + 18446744073709551615) = (n : Int) - 1 := by
  unfold toI32
  by_cases h0 : n = 0
  · subst h0; decide
  · have : (n + 18446744073709551615) % 4294967296 = n - 1 := by omega
    simp only [this]
    split <;> omega

theorem setAt_refines (d : Dynar) (hinv : Inv d) (idx : Nat) (x : Elem) (hcap : idx + 1 < 2147483648) :
    (setAt d idx x).1 = .unit ∧
    abs (setAt d idx x).2 =
      (if idx < d.used then (abs d).set idx x else abs d ++ List.replicate (idx - d.used) 0 ++ [x]) ∧
    Inv (setAt d idx x).2 := by
  obtain ⟨hsz, hlt, hinit⟩ := hinv
  unfold setAt
  by_cases hlt' : idx < d.used
  · have : ¬ idx ≥ d.used := by omega
    simp only [this, if_false, hlt', if_true]
    refine ⟨trivial, ?_, ⟨hsz, hlt, ?_⟩⟩
    · apply List.ext_getElem
      · simp [abs]
      · intro j hj1 hj2
        simp only [abs, List.length_map, List.length_range] at hj1
        rw [List.getElem_set]
        simp only [abs, List.getElem_map, List.getElem_range, store]
        by_cases hji : j = idx
        · subst hji; simp
        · have : ¬ idx = j := fun h => hji h.symm
          simp [hji, this]
    · intro j hj
      simp only [store]
      split
      · rfl
      · exact hinit j hj
  · have hge : idx ≥ d.used := by omega
    have hsize := expand_size d (idx + 1)
    simp only [hge, if_true, hlt', if_false, expand_mem]
    refine ⟨trivial, ?_, ⟨by simp only; omega, by simp only; omega, ?_⟩⟩
    · apply List.ext_getElem
      · simp [abs]; omega
      · intro j hj1 hj2
        simp only [abs, List.length_map, List.length_range] at hj1
        simp only [abs, List.getElem_map, List.getElem_range, store]
        rw [List.getElem_append]
        simp only [List.length_append, List.length_map, List.length_range, List.length_replicate]
        by_cases hji : j = idx
        · subst hji
          have : ¬ j < d.used + (j - d.used) := by omega
          simp [this]
        · have h1 : j < d.used + (idx - d.used) := by omega
          simp only [hji, if_false, h1, dite_true]
          rw [List.getElem_append]
          simp only [List.length_map, List.length_range]
          by_cases hju : j < d.used
          · have : ¬ (d.used ≤ j ∧ j < idx) := by omega
            simp [hju, this]
          · have : d.used ≤ j ∧ j < idx := by omega
            simp [hju, this]
    · intro j hj
      simp only at hj
      simp only [store]
      split
      · rfl
      · split
        · rfl
        · apply hinit; omega

theorem abs_pred (d : Dynar) : abs { d with used := d.used - 1 } = (abs d).dropLast := by
  apply List.ext_getElem
  · simp [abs]
  · intro j hj1 hj2
    rw [List.getElem_dropLast]
    simp [abs]

theorem sort_refines (d : Dynar) (s : List Elem) (hs : s.length = d.used) :
    abs { d with mem := fun j => if h : j < s.length then some s[j] else d.mem j } = s := by
  apply List.ext_getElem
  · simp [abs, hs]
  · intro j hj1 hj2
    simp only [abs, List.getElem_map, List.getElem_range, hj2, dite_true, Option.getD_some]

end SgVerif.C50
