import SgVerif.C50.Model
import SgVerif.Common.Proto
open SgVerif.Proto
namespace SgVerif.C50

/-- driver state: the implementation model and the specification run side by side -/
structure St where
  d : Dynar
  l : List Elem
  t : Dict
  m : List (Key × Int)       -- specification of the dict: association list, insertion order irrelevant

def St.init : St := ⟨Dynar.new, [], Dict.new, []⟩

def showRes : Res → List String
  | .unit => ["unit"]
  | .val v => ["val", toString v]
  | .bool b => ["bool", if b then "1" else "0"]
  | .nat n => ["nat", toString n]
  | .list l => "list" :: l.map toString
  | .abort => ["abort"]
  | .ub => ["ub"]

def parseOp : List String → Option Op
  | ["push", x] => x.toInt?.map .push
  | ["pop"] => some .pop
  | ["popPtr"] => some .popPtr
  | ["unshift", x] => x.toInt?.map .unshift
  | ["shift"] => some .shift
  | ["insertAt", i, x] => match i.toInt?, x.toInt? with
    | some i, some x => some (.insertAt i x)
    | _, _ => none
  | ["removeAt", i] => i.toInt?.map .removeAt
  | ["get", i] => i.toNat?.map .get
  | ["set", i, x] => match i.toNat?, x.toInt? with
    | some i, some x => some (.set i x)
    | _, _ => none
  | ["length"] => some .length
  | ["isEmpty"] => some .isEmpty
  | ["reset"] => some .reset
  | ["member", x] => x.toInt?.map .member
  | ["sort"] => some .sort
  | ["foreach"] => some .foreach
  | _ => none

def specSet (m : List (Key × Int)) (k : Key) (v : Int) : List (Key × Int) :=
  if m.any (·.1 == k) then m.map (fun p => if p.1 == k then (k, v) else p) else m ++ [(k, v)]

/-- canonical form of a dump: sorted by key -/
def sortKV (l : List (Key × Int)) : List (Key × Int) := l.mergeSort (fun a b => a.1 ≤ b.1)

def showKV (l : List (Key × Int)) : List String := l.flatMap (fun p => [p.1, toString p.2])

def parseKV : List String → Option (List (Key × Int))
  | [] => some []
  | [_] => none
  | k :: v :: t => match v.toInt?, parseKV t with
    | some v, some r => some ((k, v) :: r)
    | _, _ => none

def judge (s : St) (q a : List String) : St × Verdict :=
  match q with
  | ["D", "new"] => ({ s with d := Dynar.new, l := [] }, cmpAns ["unit"] a)
  | "D" :: opq =>
    -- a leading "!" marks a call executed in a forked child: the parent state is not advanced
    let (forked, opq) := match opq with
      | "!" :: r => (true, r)
      | r => (false, r)
    match parseOp opq with
    | none => (s, .bad)
    | some op =>
      let (rm, d') := cstep s.d op
      let (rs, l') := sstep s.l op
      let s' := if forked then s else { s with d := d', l := l' }
      let impl := if forked then (match a with | "ret" :: r => r | r => r) else a
      -- monitor: the implementation must answer what the list answers (bounds violations must abort)
      if impl ≠ showRes rs then (s', .monfail s!"list specification answers {showRes rs}, implementation {a}")
      else if rm == .ub then (s', .ok)       -- (unreachable when the monitor holds: the specification never answers ub)
      else (s', cmpAns (showRes rm) impl)
  | ["T", "new"] => ({ s with t := Dict.new, m := [] }, cmpAns ["unit"] a)
  | ["T", "set", k, v] =>
    match v.toInt? with
    | none => (s, .bad)
    | some v => ({ s with t := dset djb2 s.t k v, m := specSet s.m k v }, cmpAns ["unit"] a)
  | ["T", "get", k] =>
    let spec := match s.m.lookup k with | some v => ["val", toString v] | none => ["null"]
    let model := match dget djb2 s.t k with | some v => ["val", toString v] | none => ["null"]
    if a ≠ spec then (s, .monfail s!"map specification answers {spec}, implementation {a}") else (s, cmpAns model a)
  | ["T", "remove", k] =>
    let spec := if s.m.any (·.1 == k) then ["unit"] else ["throw"]
    let m' := s.m.filter (fun p => !(p.1 == k))
    match dremove djb2 s.t k with
    | some t' =>
      if a ≠ spec then ({ s with t := t', m := m' }, .monfail s!"map specification answers {spec}, implementation {a}")
      else ({ s with t := t', m := m' }, cmpAns ["unit"] a)
    | none =>
      if a ≠ spec then (s, .monfail s!"map specification answers {spec}, implementation {a}") else (s, cmpAns ["throw"] a)
  | ["T", "length"] =>
    let spec := ["nat", toString s.m.length]
    if a ≠ spec then (s, .monfail s!"map specification answers {spec}, implementation {a}")
    else (s, cmpAns ["nat", toString s.t.count] a)
  | ["T", "dump"] =>
    -- answer: `kv k1 v1 k2 v2 …` in cursor order, then `fill f size s`
    match a with
    | "kv" :: rest =>
      let (kvs, tail) := rest.span (· ≠ "|")
      match parseKV kvs with
      | none => (s, .bad)
      | some impl =>
        -- monitor: every key exactly once, same bindings as the map
        if sortKV impl ≠ sortKV s.m then (s, .monfail s!"iteration yields {showKV (sortKV impl)}, the map holds {showKV (sortKV s.m)}")
        else
          let model := (dforeach s.t).map (fun e => (e.key, e.val))
          let mtail := ["|", "fill", toString s.t.fill, "size", toString s.t.tableSize]
          if model = impl ∧ tail = mtail then (s, .ok)
          else (s, .disagree (" ".intercalate ("kv" :: showKV model ++ mtail)))
    | _ => (s, .bad)
  | _ => (s, .bad)

end SgVerif.C50

def main : IO Unit := SgVerif.Proto.runS SgVerif.C50.St.init SgVerif.C50.judge
