/-
C50 — executable model of src/xbt/dict.cpp, dict_elm.c, dict_cursor.c: a hash table of chained buckets with
`table_size` used as a bit mask, the `fill` counter and the doubling `xbt_dict_rehash`, for an arbitrary hash
function `h : Key → Nat` (the code uses djb2; the theorems are for every `h`).  Core-only.
-/
namespace SgVerif.C50

abbrev Key := String

/-- `s_xbt_dictelm_t`: key, hash_code, content (chained through the bucket list) -/
structure Elm where
  key : Key
  hash : Nat
  val : Int
  deriving Repr, DecidableEq

/-- `s_xbt_dict_t`; `cell i` is the chain `table[i]`, head first -/
structure Dict where
  tableSize : Nat                 -- the mask: number of cells - 1
  cell : Nat → List Elm
  count : Nat
  fill : Nat

/-- `xbt_dict_new_homogeneous`: 128 cells (`table_size = 127`), empty -/
def Dict.new : Dict := ⟨127, fun _ => [], 0, 0⟩

def setCell (c : Nat → List Elm) (i : Nat) (l : List Elm) : Nat → List Elm :=
  fun j => if j = i then l else c j

/-- the test of the chain walks: `hash_code == current->hash_code && key_len == current->key_len && !memcmp(…)` -/
def hit (hc : Nat) (k : Key) (e : Elm) : Bool := e.hash == hc && e.key == k

/-- `xbt_dict_rehash`: double the table; every element of cell `i < oldsize` whose `hash & newmask` is not `i` is
unlinked and pushed at the *head* of the twin cell `i + oldsize` (so the twin holds them in reverse order); `fill`
is incremented when a twin becomes non-empty and decremented when a cell becomes empty. -/
def rehash (d : Dict) : Dict :=
  let oldsize := d.tableSize + 1
  let newmask := oldsize * 2 - 1
  let stay (i : Nat) : List Elm := (d.cell i).filter (fun e => e.hash &&& newmask == i)
  let moved (i : Nat) : List Elm := ((d.cell i).filter (fun e => !(e.hash &&& newmask == i))).reverse
  let fillUp := ((List.range oldsize).filter (fun i => !(moved i).isEmpty)).length
  let fillDown := ((List.range oldsize).filter (fun i => !(d.cell i).isEmpty && (stay i).isEmpty)).length
  { tableSize := newmask,
    cell := fun j => if j < oldsize then stay j else if j < 2 * oldsize then moved (j - oldsize) else [],
    count := d.count,
    fill := d.fill + fillUp - fillDown }

/-- overwrite the content of the first element that hit -/
def replFirst (hc : Nat) (k : Key) (v : Int) : List Elm → List Elm
  | [] => []
  | e :: t => if hit hc k e then { e with val := v } :: t else e :: replFirst hc k v t

/-- unlink the first element that hit -/
def unlinkFirst (hc : Nat) (k : Key) : List Elm → List Elm
  | [] => []
  | e :: t => if hit hc k e then t else e :: unlinkFirst hc k t

/-- `xbt_dict_set_ext(dict, key, strlen(key), data)` -/
def dset (h : Key → Nat) (d : Dict) (k : Key) (v : Int) : Dict :=
  let hc := h k
  let i := hc &&& d.tableSize
  let chain := d.cell i
  if chain.any (hit hc k) then
    -- there is already an element with the same key: overwrite its content (first match of the walk)
    { d with cell := setCell d.cell i (replFirst hc k v chain) }
  else if chain.isEmpty then
    -- dict->table[…] = current; fill++; if (fill * 100 / (table_size + 1) > MAX_FILL_PERCENT) rehash
    let d1 := { d with cell := setCell d.cell i [⟨k, hc, v⟩], count := d.count + 1, fill := d.fill + 1 }
    if (d1.fill * 100) / (d1.tableSize + 1) > 80 then rehash d1 else d1
  else
    -- previous->next = current  (appended at the end of the chain, no fill change, no rehash)
    { d with cell := setCell d.cell i (chain ++ [⟨k, hc, v⟩]), count := d.count + 1 }

/-- `xbt_dict_get_or_null(_ext)`: content of the first element of the chain that hit -/
def dget (h : Key → Nat) (d : Dict) (k : Key) : Option Int :=
  ((d.cell (h k &&& d.tableSize)).find? (hit (h k) k)).map (·.val)

/-- `xbt_dict_remove_ext`; `none` = `throw std::out_of_range` (nothing changed) -/
def dremove (h : Key → Nat) (d : Dict) (k : Key) : Option Dict :=
  let hc := h k
  let i := hc &&& d.tableSize
  let chain := d.cell i
  if chain.any (hit hc k) then
    let chain' := unlinkFirst hc k chain
    some { d with cell := setCell d.cell i chain',
                  fill := if chain'.isEmpty then d.fill - 1 else d.fill,
                  count := d.count - 1 }
  else none

/-- `xbt_dict_foreach`: `cursor_first` then `cursor_step` until exhaustion visits cell 0, 1, …, table_size, each
chain from its head -/
def dforeach (d : Dict) : List Elm := (List.range (d.tableSize + 1)).flatMap d.cell

/-! ## specification: an association map -/

/-- the abstraction: the set of stored entries, as the list the cursor yields -/
def entries (d : Dict) : List Elm := dforeach d

/-- the abstract map: value bound to `k` -/
def amap (d : Dict) (k : Key) : Option Int := ((entries d).find? (fun e => e.key == k)).map (·.val)

end SgVerif.C50
