import SgVerif.C50.Dict
/-
C50 — lemmas for the dict refinement proof (for an arbitrary hash function `h`).
-/
namespace SgVerif.C50

/-- distinct keys along a chain -/
def KeysDistinct (l : List Elm) : Prop := l.Pairwise (fun a b => a.key ≠ b.key)

/-- representation invariant of the hash table -/
def DInv (h : Key → Nat) (d : Dict) : Prop :=
  (∃ p, d.tableSize + 1 = 2 ^ p) ∧
  (∀ i e, e ∈ d.cell i → i ≤ d.tableSize ∧ e.hash = h e.key ∧ e.hash &&& d.tableSize = i) ∧
  (∀ i, KeysDistinct (d.cell i))

/-- the abstract map as a relation: key `k` is bound to `v` -/
def Bound (d : Dict) (k : Key) (v : Int) : Prop := ∃ i e, e ∈ d.cell i ∧ e.key = k ∧ e.val = v

theorem hit_iff (hc : Nat) (k : Key) (e : Elm) : hit hc k e = true ↔ e.hash = hc ∧ e.key = k := by
  simp [hit]

theorem unique_of_distinct (l : List Elm) (hd : KeysDistinct l) (a b : Elm) (ha : a ∈ l) (hb : b ∈ l)
    (hk : a.key = b.key) : a = b := by
  induction l with
  | nil => cases ha
  | cons x t ih =>
    unfold KeysDistinct at hd
    rw [List.pairwise_cons] at hd
    obtain ⟨hx, ht⟩ := hd
    simp only [List.mem_cons] at ha hb
    rcases ha with rfl | ha <;> rcases hb with rfl | hb
    · rfl
    · exact absurd hk (hx b hb)
    · exact absurd hk.symm (hx a ha)
    · exact ih ht ha hb

/-- `x mod 2n` is `x mod n` or `x mod n + n` -/
theorem mod_double (x n : Nat) (hn : 0 < n) : x % (2 * n) = x % n ∨ x % (2 * n) = x % n + n := by
  have hx := Nat.mod_add_div x n
  have hr : x % n < n := Nat.mod_lt x hn
  have hq := Nat.mod_add_div (x / n) 2
  have a1 : (2 * n) * (x / n / 2) = 2 * (n * (x / n / 2)) := Nat.mul_assoc 2 n _
  rcases Nat.mod_two_eq_zero_or_one (x / n) with h0 | h1
  · left
    have hxn : x / n = 2 * (x / n / 2) := by omega
    have a2 : n * (x / n) = 2 * (n * (x / n / 2)) := by
      conv => lhs; rw [hxn]
      exact Nat.mul_left_comm n 2 _
    have e : x = x % n + (2 * n) * (x / n / 2) := by omega
    have e2 : x % (2 * n) = (x % n) % (2 * n) := by
      conv => lhs; rw [e]
      rw [Nat.add_mul_mod_self_left]
    rw [e2, Nat.mod_eq_of_lt (by omega)]
  · right
    have hxn : x / n = 2 * (x / n / 2) + 1 := by omega
    have a2 : n * (x / n) = 2 * (n * (x / n / 2)) + n := by
      conv => lhs; rw [hxn]
      rw [Nat.mul_add, Nat.mul_one, Nat.mul_left_comm n 2 _]
    have e : x = (x % n + n) + (2 * n) * (x / n / 2) := by omega
    have e2 : x % (2 * n) = (x % n + n) % (2 * n) := by
      conv => lhs; rw [e]
      rw [Nat.add_mul_mod_self_left]
    rw [e2, Nat.mod_eq_of_lt (by omega)]

/-- with masks of the form 2^p - 1: doubling the table sends an element of cell `i` to `i` or to `i + oldsize` -/
theorem mask_double (x ts p : Nat) (hp : ts + 1 = 2 ^ p) :
    x &&& ((ts + 1) * 2 - 1) = (x &&& ts) ∨ x &&& ((ts + 1) * 2 - 1) = (x &&& ts) + (ts + 1) := by
  have e1 : ts = 2 ^ p - 1 := by omega
  have e2 : (ts + 1) * 2 - 1 = 2 ^ (p + 1) - 1 := by rw [hp, Nat.pow_succ]
  rw [e2, Nat.and_two_pow_sub_one_eq_mod]
  conv => lhs; rhs; rw [e1, Nat.and_two_pow_sub_one_eq_mod]
  conv => rhs; rhs; lhs; rw [e1, Nat.and_two_pow_sub_one_eq_mod]
  have hpos : 0 < 2 ^ p := Nat.pos_of_ne_zero (by rw [← hp]; omega)
  have := mod_double x (2 ^ p) hpos
  rw [Nat.pow_succ, Nat.mul_comm (2 ^ p) 2, hp]
  exact this

/-- under the invariant, an entry with key `k` can only be in the cell `h k &&& table_size`, with hash `h k` -/
theorem entry_cell (h : Key → Nat) (d : Dict) (hinv : DInv h d) (i : Nat) (e : Elm) (he : e ∈ d.cell i) :
    i = h e.key &&& d.tableSize ∧ hit (h e.key) e.key e = true := by
  obtain ⟨_, h2, _⟩ := hinv
  obtain ⟨_, hh, hc⟩ := h2 i e he
  exact ⟨by rw [← hh, hc], (hit_iff _ _ _).mpr ⟨hh, rfl⟩⟩

/-- **lookup**: `xbt_dict_get_or_null` returns `v` iff the map binds `k` to `v` -/
theorem dget_refines (h : Key → Nat) (d : Dict) (hinv : DInv h d) (k : Key) (v : Int) :
    dget h d k = some v ↔ Bound d k v := by
  unfold dget Bound
  constructor
  · intro hg
    cases hf : (d.cell (h k &&& d.tableSize)).find? (hit (h k) k) with
    | none => rw [hf] at hg; cases hg
    | some e =>
      rw [hf] at hg
      simp only [Option.map_some, Option.some.injEq] at hg
      have hm := List.mem_of_find?_eq_some hf
      have hp := (hit_iff _ _ _).mp (List.find?_some hf)
      exact ⟨_, e, hm, hp.2, hg⟩
  · rintro ⟨i, e, he, hk, hv⟩
    obtain ⟨hi, hh⟩ := entry_cell h d hinv i e he
    rw [hk] at hi hh
    subst hi
    have hs : ((d.cell (h k &&& d.tableSize)).find? (hit (h k) k)).isSome = true :=
      List.find?_isSome.mpr ⟨e, he, hh⟩
    cases hf : (d.cell (h k &&& d.tableSize)).find? (hit (h k) k) with
    | none => rw [hf] at hs; cases hs
    | some e' =>
      have hm := List.mem_of_find?_eq_some hf
      have hp := (hit_iff _ _ _).mp (List.find?_some hf)
      have : e' = e := unique_of_distinct _ (hinv.2.2 _) e' e hm he (by rw [hp.2, hk])
      subst this
      simp [hv]

/-- **rehash** keeps the invariant (for the doubled mask) and the bindings -/
theorem rehash_refines (h : Key → Nat) (d : Dict) (hinv : DInv h d) :
    DInv h (rehash d) ∧ ∀ k v, Bound (rehash d) k v ↔ Bound d k v := by
  obtain ⟨⟨p, hp⟩, h2, h3⟩ := hinv
  have hcell : ∀ j e, e ∈ (rehash d).cell j →
      (j < d.tableSize + 1 ∧ e ∈ d.cell j ∧ e.hash &&& ((d.tableSize + 1) * 2 - 1) = j) ∨
      (d.tableSize + 1 ≤ j ∧ j < 2 * (d.tableSize + 1) ∧ e ∈ d.cell (j - (d.tableSize + 1)) ∧
        e.hash &&& ((d.tableSize + 1) * 2 - 1) ≠ j - (d.tableSize + 1)) := by
    intro j e he
    simp only [rehash] at he
    split at he
    · rename_i hj
      simp only [List.mem_filter, beq_iff_eq] at he
      exact Or.inl ⟨hj, he.1, he.2⟩
    · split at he
      · rename_i hj1 hj2
        simp only [List.mem_reverse, List.mem_filter, Bool.not_eq_eq_eq_not, Bool.not_true, beq_eq_false_iff_ne,
          ne_eq] at he
        exact Or.inr ⟨by omega, hj2, he.1, he.2⟩
      · cases he
  refine ⟨⟨⟨p + 1, ?_⟩, ?_, ?_⟩, ?_⟩
  · simp only [rehash]; rw [Nat.pow_succ, ← hp]; omega
  · intro j e he
    have hts : (rehash d).tableSize = (d.tableSize + 1) * 2 - 1 := rfl
    rw [hts]
    rcases hcell j e he with ⟨hj, hm, hm2⟩ | ⟨hj1, hj2, hm, hm2⟩
    · exact ⟨by omega, (h2 j e hm).2.1, hm2⟩
    · obtain ⟨_, hh, hc⟩ := h2 _ e hm
      refine ⟨by omega, hh, ?_⟩
      rcases mask_double e.hash d.tableSize p hp with hd | hd
      · rw [hd, hc] at hm2; exact absurd rfl hm2
      · rw [hd, hc]; omega
  · intro j
    simp only [rehash]
    split
    · exact (h3 j).filter _
    · split
      · unfold KeysDistinct
        rw [List.pairwise_reverse]
        exact ((h3 _).filter _).imp (fun hab => fun hba => hab hba.symm)
      · exact List.Pairwise.nil
  · intro k v
    constructor
    · rintro ⟨j, e, he, hk, hv⟩
      rcases hcell j e he with ⟨_, hm, _⟩ | ⟨_, _, hm, _⟩
      · exact ⟨_, e, hm, hk, hv⟩
      · exact ⟨_, e, hm, hk, hv⟩
    · rintro ⟨i, e, he, hk, hv⟩
      have hi := (h2 i e he).1
      by_cases hs : e.hash &&& ((d.tableSize + 1) * 2 - 1) = i
      · refine ⟨i, e, ?_, hk, hv⟩
        simp only [rehash]
        have : i < d.tableSize + 1 := by omega
        simp only [this, if_true, List.mem_filter, beq_iff_eq]
        exact ⟨he, hs⟩
      · refine ⟨i + (d.tableSize + 1), e, ?_, hk, hv⟩
        simp only [rehash]
        have h1 : ¬ i + (d.tableSize + 1) < d.tableSize + 1 := by omega
        have h2' : i + (d.tableSize + 1) < 2 * (d.tableSize + 1) := by omega
        simp only [h1, if_false, h2', if_true, List.mem_reverse, List.mem_filter, Nat.add_sub_cancel,
          Bool.not_eq_eq_eq_not, Bool.not_true, beq_eq_false_iff_ne, ne_eq]
        exact ⟨he, hs⟩

/-! ### chain surgery -/

theorem replFirst_eq_map (hc : Nat) (k : Key) (v : Int) (l : List Elm) (hd : KeysDistinct l)
    (hk : ∀ e ∈ l, hit hc k e = true ↔ e.key = k) :
    replFirst hc k v l = l.map (fun e => if e.key = k then { e with val := v } else e) := by
  induction l with
  | nil => rfl
  | cons x t ih =>
    unfold KeysDistinct at hd
    rw [List.pairwise_cons] at hd
    obtain ⟨hx, ht⟩ := hd
    have hkt : ∀ e ∈ t, hit hc k e = true ↔ e.key = k := fun e he => hk e (List.mem_cons_of_mem _ he)
    simp only [replFirst, List.map_cons]
    by_cases hh : hit hc k x = true
    · have hxk : x.key = k := (hk x (List.mem_cons_self)).mp hh
      simp only [hh, if_true, hxk]
      congr 1
      -- no other element of the chain has key k
      have : ∀ e ∈ t, (if e.key = k then { e with val := v } else e) = e := by
        intro e he
        have : e.key ≠ k := fun hek => hx e he (by rw [hxk, hek])
        simp [this]
      rw [List.map_congr_left this, List.map_id']
    · have hxk : ¬ x.key = k := fun hxk => hh ((hk x (List.mem_cons_self)).mpr hxk)
      simp only [hh, Bool.false_eq_true, if_false, hxk]
      rw [ih ht hkt]

theorem unlinkFirst_eq_filter (hc : Nat) (k : Key) (l : List Elm) (hd : KeysDistinct l)
    (hk : ∀ e ∈ l, hit hc k e = true ↔ e.key = k) :
    unlinkFirst hc k l = l.filter (fun e => !(e.key == k)) := by
  induction l with
  | nil => rfl
  | cons x t ih =>
    unfold KeysDistinct at hd
    rw [List.pairwise_cons] at hd
    obtain ⟨hx, ht⟩ := hd
    have hkt : ∀ e ∈ t, hit hc k e = true ↔ e.key = k := fun e he => hk e (List.mem_cons_of_mem _ he)
    simp only [unlinkFirst]
    by_cases hh : hit hc k x = true
    · have hxk : x.key = k := (hk x (List.mem_cons_self)).mp hh
      simp only [hh, if_true]
      have hf : (x :: t).filter (fun e => !(e.key == k)) = t.filter (fun e => !(e.key == k)) := by
        simp [hxk]
      rw [hf]
      symm
      rw [List.filter_eq_self]
      intro e he
      have : e.key ≠ k := fun hek => hx e he (by rw [hxk, hek])
      simp [this]
    · have hxk : ¬ x.key = k := fun hxk => hh ((hk x (List.mem_cons_self)).mpr hxk)
      simp only [hh, Bool.false_eq_true, if_false]
      rw [ih ht hkt]
      simp [hxk]

theorem hit_iff_key (h : Key → Nat) (d : Dict) (hinv : DInv h d) (k : Key) (i : Nat) :
    ∀ e ∈ d.cell i, hit (h k) k e = true ↔ e.key = k := by
  intro e he
  obtain ⟨_, hh, _⟩ := hinv.2.1 i e he
  rw [hit_iff]
  constructor
  · exact fun h => h.2
  · intro hk; exact ⟨by rw [hh, hk], hk⟩

theorem mem_setCell (c : Nat → List Elm) (i : Nat) (l : List Elm) (j : Nat) (e : Elm) :
    e ∈ setCell c i l j ↔ (j = i ∧ e ∈ l) ∨ (j ≠ i ∧ e ∈ c j) := by
  unfold setCell
  by_cases h : j = i <;> simp [h]

/-- no entry with key `k` anywhere when the chain of its cell has no hit -/
theorem no_binding_of_no_hit (h : Key → Nat) (d : Dict) (hinv : DInv h d) (k : Key)
    (hno : (d.cell (h k &&& d.tableSize)).any (hit (h k) k) = false) : ∀ v, ¬ Bound d k v := by
  rintro v ⟨i, e, he, hk, _⟩
  obtain ⟨hi, hh⟩ := entry_cell h d hinv i e he
  rw [hk] at hi hh
  subst hi
  have : (d.cell (h k &&& d.tableSize)).any (hit (h k) k) = true := List.any_eq_true.mpr ⟨e, he, hh⟩
  rw [hno] at this; cases this

end SgVerif.C50
