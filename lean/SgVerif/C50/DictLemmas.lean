import SgVerif.C50.Dict
/-
C50 — lemmas for the dict refinement proof (for an arbitrary hash function `h`).
-/
namespace SgVerif.C50

/-- distinct keys along a chain -/
def KeysDistinct (l : List Elm) : Prop := l.Pairwise (fun a b => a.key ≠ b.key)

/-- representation invariant of the hash table -/
def DInv (h : Key → Nat) (d : Dict) : Prop :=
  (∃ p, d.tableSize + 1 = 2 ^ p) ∧
  (∀ i e, e ∈ d.cell i → i ≤ d.tableSize ∧ e.hash = h e.key ∧ e.hash &&& d.tableSize = i) ∧
  (∀ i, KeysDistinct (d.cell i))

/-- the abstract map as a relation: key `k` is bound to `v` -/
def Bound (d : Dict) (k : Key) (v : Int) : Prop := ∃ i e, e ∈ d.cell i ∧ e.key = k ∧ e.val = v

theorem hit_iff (hc : Nat) (k : Key) (e : Elm) : hit hc k e = true ↔ e.hash = hc ∧ e.key = k := by
  simp [hit]

theorem unique_of_distinct (l : List Elm) (hd : KeysDistinct l) (a b : Elm) (ha : a ∈ l) (hb : b ∈ l)
    (hk : a.key = b.key) : a = b := by
  induction l with
  | nil => cases ha
  | cons x t ih =>
    unfold KeysDistinct at hd
    rw [List.pairwise_cons] at hd
    obtain ⟨hx, ht⟩ := hd
    simp only [List.mem_cons] at ha hb
    rcases ha with rfl | ha <;> rcases hb with rfl | hb
    · rfl
    · exact absurd hk (hx b hb)
    · exact absurd hk.symm (hx a ha)
    · exact ih ht ha hb

/-- `x mod 2n` is `x mod n` or `x mod n + n` -/
theorem mod_double (x n : Nat) (hn : 0 < n) : x % (2 * n) = x % n ∨ x % (2 * n) = x % n + n := by
  have hx := Nat.mod_add_div x n
  have hr : x % n < n := Nat.mod_lt x hn
  have hq := Nat.mod_add_div (x / n) 2
  have a1 : (2 * n) * (x / n / 2) = 2 * (n * (x / n / 2)) := Nat.mul_assoc 2 n _
  rcases Nat.mod_two_eq_zero_or_one (x / n) with h0 | h1
  · left
    have hxn : x / n = 2 * (x / n / 2) := by omega
    have a2 : n * (x / n) = 2 * (n * (x / n / 2)) := by
      conv => lhs; rw [hxn]
      exact Nat.mul_left_comm n 2 _
    have e : x = x % n + (2 * n) * (x / n / 2) := by omega
    have e2 : x % (2 * n) = (x % n) % (2 * n) := by
      conv => lhs; rw [e]
      rw [Nat.add_mul_mod_self_left]
    rw [e2, Nat.mod_eq_of_lt (by omega)]
  · right
    have hxn : x / n = 2 * (x / n / 2) + 1 := by omega
    have a2 : n * (x / n) = 2 * (n * (x / n / 2)) + n := by
      conv => lhs; rw [hxn]
      rw [Nat.mul_add, Nat.mul_one, Nat.mul_left_comm n 2 _]
    have e : x = (x % n + n) + (2 * n) * (x / n / 2) := by omega
    have e2 : x % (2 * n) = (x % n + n) % (2 * n) := by
      conv => lhs; rw [e]
      rw [Nat.add_mul_mod_self_left]
    rw [e2, Nat.mod_eq_of_lt (by omega)]

/-- with masks of the form 2^p - 1: doubling the table sends an element of cell `i` to `i` or to `i + oldsize` -/
theorem mask_double (x ts p : Nat) (hp : ts + 1 = 2 ^ p) :
    x &&& ((ts + 1) * 2 - 1) = (x &&& ts) ∨ x &&& ((ts + 1) * 2 - 1) = (x &&& ts) + (ts + 1) := by
  have e1 : ts = 2 ^ p - 1 := by omega
  have e2 : (ts + 1) * 2 - 1 = 2 ^ (p + 1) - 1 := by rw [hp, Nat.pow_succ]
  rw [e2, Nat.and_two_pow_sub_one_eq_mod]
  conv => lhs; rhs; rw [e1, Nat.and_two_pow_sub_one_eq_mod]
  conv => rhs; rhs; lhs; rw [e1, Nat.and_two_pow_sub_one_eq_mod]
  have hpos : 0 < 2 ^ p := Nat.pos_of_ne_zero (by rw [← hp]; omega)
  have := mod_double x (2 ^ p) hpos
  rw [Nat.pow_succ, Nat.mul_comm (2 ^ p) 2, hp]
  exact this

/-- under the invariant, an entry with key `k` can only be in the cell `h k &&& table_size`, with hash `h k` -/
theorem entry_cell (h : Key → Nat) (d : Dict) (hinv : DInv h d) (i : Nat) (e : Elm) (he : e ∈ d.cell i) :
    i = h e.key &&& d.tableSize ∧ hit (h e.key) e.key e = true := by
  obtain ⟨_, h2, _⟩ := hinv
  obtain ⟨_, hh, hc⟩ := h2 i e he
  exact ⟨by rw [← hh, hc], (hit_iff _ _ _).mpr ⟨hh, rfl⟩⟩

/-- **lookup**: `xbt_dict_get_or_null` returns `v` iff the map binds `k` to `v` -/
theorem dget_refines (h : Key → Nat) (d : Dict) (hinv : DInv h d) (k : Key) (v : Int) :
    dget h d k = some v ↔ Bound d k v := by
  unfold dget Bound
  constructor
  · intro hg
    cases hf : (d.cell (h k &&& d.tableSize)).find? (hit (h k) k) with
    | none => rw [hf] at hg; cases hg
    | some e =>
      rw [hf] at hg
      simp only [Option.map_some, Option.some.injEq] at hg
      have hm := List.mem_of_find?_eq_some hf
      have hp := (hit_iff _ _ _).mp (List.find?_some hf)
      exact ⟨_, e, hm, hp.2, hg⟩
  · rintro ⟨i, e, he, hk, hv⟩
    obtain ⟨hi, hh⟩ := entry_cell h d hinv i e he
    rw [hk] at hi hh
    subst hi
    have hs : ((d.cell (h k &&& d.tableSize)).find? (hit (h k) k)).isSome = true :=
      List.find?_isSome.mpr ⟨e, he, hh⟩
    cases hf : (d.cell (h k &&& d.tableSize)).find? (hit (h k) k) with
    | none => rw [hf] at hs; cases hs
    | some e' =>
      have hm := List.mem_of_find?_eq_some hf
      have hp := (hit_iff _ _ _).mp (List.find?_some hf)
      have : e' = e := unique_of_distinct _ (hinv.2.2 _) e' e hm he (by rw [hp.2, hk])
      subst this
      simp [hv]

/-- **rehash** keeps the invariant (for the doubled mask) and the bindings -/
theorem rehash_refines (h : Key → Nat) (d : Dict) (hinv : DInv h d) :
    DInv h (rehash d) ∧ ∀ k v, Bound (rehash d) k v ↔ Bound d k v := by
  obtain ⟨⟨p, hp⟩, h2, h3⟩ := hinv
  have hcell : ∀ j e, e ∈ (rehash d).cell j →
      (j < d.tableSize + 1 ∧ e ∈ d.cell j ∧ e.hash &&& ((d.tableSize + 1) * 2 - 1) = j) ∨
      (d.tableSize + 1 ≤ j ∧ j < 2 * (d.tableSize + 1) ∧ e ∈ d.cell (j - (d.tableSize + 1)) ∧
        e.hash &&& ((d.tableSize + 1) * 2 - 1) ≠ j - (d.tableSize + 1)) := by
    intro j e he
    simp only [rehash] at he
    split at he
    · rename_i hj
      simp only [List.mem_filter, beq_iff_eq] at he
      exact Or.inl ⟨hj, he.1, he.2⟩
    · split at he
      · rename_i hj1 hj2
        simp only [List.mem_reverse, List.mem_filter, Bool.not_eq_eq_eq_not, Bool.not_true, beq_eq_false_iff_ne,
          ne_eq] at he
        exact Or.inr ⟨by omega, hj2, he.1, he.2⟩
      · cases he
  refine ⟨⟨⟨p + 1, ?_⟩, ?_, ?_⟩, ?_⟩
  · simp only [rehash]; rw [Nat.pow_succ, ← hp]; omega
  · intro j e he
    have hts : (rehash d).tableSize = (d.tableSize + 1) * 2 - 1 := rfl
    rw [hts]
    rcases hcell j e he with ⟨hj, hm, hm2⟩ | ⟨hj1, hj2, hm, hm2⟩
    · exact ⟨by omega, (h2 j e hm).2.1, hm2⟩
    · obtain ⟨_, hh, hc⟩ := h2 _ e hm
      refine ⟨by omega, hh, ?_⟩
      rcases mask_double e.hash d.tableSize p hp with hd | hd
      · rw [hd, hc] at hm2; exact absurd rfl hm2
      · rw [hd, hc]; omega
  · intro j
    simp only [rehash]
    split
    · exact (h3 j).filter _
    · split
      · unfold KeysDistinct
        rw [List.pairwise_reverse]
        exact ((h3 _).filter _).imp (fun hab => fun hba => hab hba.symm)
      · exact List.Pairwise.nil
  · intro k v
    constructor
    · rintro ⟨j, e, he, hk, hv⟩
      rcases hcell j e he with ⟨_, hm, _⟩ | ⟨_, _, hm, _⟩
      · exact ⟨_, e, hm, hk, hv⟩
      · exact ⟨_, e, hm, hk, hv⟩
    · rintro ⟨i, e, he, hk, hv⟩
      have hi := (h2 i e he).1
      by_cases hs : e.hash &&& ((d.tableSize + 1) * 2 - 1) = i
      · refine ⟨i, e, ?_, hk, hv⟩
        simp only [rehash]
        have : i < d.tableSize + 1 := by omega
        simp only [this, if_true, List.mem_filter, beq_iff_eq]
        exact ⟨he, hs⟩
      · refine ⟨i + (d.tableSize + 1), e, ?_, hk, hv⟩
        simp only [rehash]
        have h1 : ¬ i + (d.tableSize + 1) < d.tableSize + 1 := by omega
        have h2' : i + (d.tableSize + 1) < 2 * (d.tableSize + 1) := by omega
        simp only [h1, if_false, h2', if_true, List.mem_reverse, List.mem_filter, Nat.add_sub_cancel,
          Bool.not_eq_eq_eq_not, Bool.not_true, beq_eq_false_iff_ne, ne_eq]
        exact ⟨he, hs⟩

/-! ### chain surgery -/

theorem replFirst_eq_map (hc : Nat) (k : Key) (v : Int) (l : List Elm) (hd : KeysDistinct l)
    (hk : ∀ e ∈ l, hit hc k e = true ↔ e.key = k) :
    replFirst hc k v l = l.map (fun e => if e.key = k then { e with val := v } else e) := by
  induction l with
  | nil => rfl
  | cons x t ih =>
    unfold KeysDistinct at hd
    rw [List.pairwise_cons] at hd
    obtain ⟨hx, ht⟩ := hd
    have hkt : ∀ e ∈ t, hit hc k e = true ↔ e.key = k := fun e he => hk e (List.mem_cons_of_mem _ he)
    simp only [replFirst, List.map_cons]
    by_cases hh : hit hc k x = true
    · have hxk : x.key = k := (hk x (List.mem_cons_self)).mp hh
      simp only [hh, if_true, hxk]
      congr 1
      -- no other element of the chain has key k
      have : ∀ e ∈ t, (if e.key = k then { e with val := v } else e) = e := by
        intro e he
        have : e.key ≠ k := fun hek => hx e he (by rw [hxk, hek])
        simp [this]
      rw [List.map_congr_left this, List.map_id']
    · have hxk : ¬ x.key = k := fun hxk => hh ((hk x (List.mem_cons_self)).mpr hxk)
      simp only [hh, Bool.false_eq_true, if_false, hxk]
      rw [ih ht hkt]

theorem unlinkFirst_eq_filter (hc : Nat) (k : Key) (l : List Elm) (hd : KeysDistinct l)
    (hk : ∀ e ∈ l, hit hc k e = true ↔ e.key = k) :
    unlinkFirst hc k l = l.filter (fun e => !(e.key == k)) := by
  induction l with
  | nil => rfl
  | cons x t ih =>
    unfold KeysDistinct at hd
    rw [List.pairwise_cons] at hd
    obtain ⟨hx, ht⟩ := hd
    have hkt : ∀ e ∈ t, hit hc k e = true ↔ e.key = k := fun e he => hk e (List.mem_cons_of_mem _ he)
    simp only [unlinkFirst]
    by_cases hh : hit hc k x = true
    · have hxk : x.key = k := (hk x (List.mem_cons_self)).mp hh
      simp only [hh, if_true]
      have hf : (x :: t).filter (fun e => !(e.key == k)) = t.filter (fun e => !(e.key == k)) := by
        simp [hxk]
      rw [hf]
      symm
      rw [List.filter_eq_self]
      intro e he
      have : e.key ≠ k := fun hek => hx e he (by rw [hxk, hek])
      simp [this]
    · have hxk : ¬ x.key = k := fun hxk => hh ((hk x (List.mem_cons_self)).mpr hxk)
      simp only [hh, Bool.false_eq_true, if_false]
      rw [ih ht hkt]
      simp [hxk]

theorem hit_iff_key (h : Key → Nat) (d : Dict) (hinv : DInv h d) (k : Key) (i : Nat) :
    ∀ e ∈ d.cell i, hit (h k) k e = true ↔ e.key = k := by
  intro e he
  obtain ⟨_, hh, _⟩ := hinv.2.1 i e he
  rw [hit_iff]
  constructor
  · exact fun h => h.2
  · intro hk; exact ⟨by rw [hh, hk], hk⟩

theorem mem_setCell (c : Nat → List Elm) (i : Nat) (l : List Elm) (j : Nat) (e : Elm) :
    e ∈ setCell c i l j ↔ (j = i ∧ e ∈ l) ∨ (j ≠ i ∧ e ∈ c j) := by
  unfold setCell
  by_cases h : j = i <;> simp [h]

/-- no entry with key `k` anywhere when the chain of its cell has no hit -/
theorem no_binding_of_no_hit (h : Key → Nat) (d : Dict) (hinv : DInv h d) (k : Key)
    (hno : (d.cell (h k &&& d.tableSize)).any (hit (h k) k) = false) : ∀ v, ¬ Bound d k v := by
  rintro v ⟨i, e, he, hk, _⟩
  obtain ⟨hi, hh⟩ := entry_cell h d hinv i e he
  rw [hk] at hi hh
  subst hi
  have : (d.cell (h k &&& d.tableSize)).any (hit (h k) k) = true := List.any_eq_true.mpr ⟨e, he, hh⟩
  rw [hno] at this; cases this

/-! ### the counters `count` (`xbt_dict_length`) and `fill` -/

/-- number of indices `i < n` with `p i` -/
def cnt (p : Nat → Bool) (n : Nat) : Nat := ((List.range n).filter p).length

/-- number of elements stored in the cells `0 … n-1` -/
def cellTotal (c : Nat → List Elm) (n : Nat) : Nat := ((List.range n).flatMap c).length

theorem cnt_zero (p : Nat → Bool) : cnt p 0 = 0 := rfl

theorem cnt_succ (p : Nat → Bool) (n : Nat) : cnt p (n + 1) = cnt p n + (if p n then 1 else 0) := by
  unfold cnt
  rw [List.range_succ, List.filter_append, List.length_append]
  cases hp : p n <;> simp [List.filter, hp]

theorem cellTotal_zero (c : Nat → List Elm) : cellTotal c 0 = 0 := rfl

theorem cellTotal_succ (c : Nat → List Elm) (n : Nat) : cellTotal c (n + 1) = cellTotal c n + (c n).length := by
  unfold cellTotal
  rw [List.range_succ, List.flatMap_append, List.length_append]
  simp

theorem cnt_congr (p q : Nat → Bool) (n : Nat) (hpq : ∀ j, j < n → p j = q j) : cnt p n = cnt q n := by
  induction n with
  | zero => rfl
  | succ n ih =>
    rw [cnt_succ, cnt_succ, ih (fun j hj => hpq j (by omega)), hpq n (by omega)]

theorem cellTotal_congr (c c' : Nat → List Elm) (n : Nat) (hcc : ∀ j, j < n → c j = c' j) :
    cellTotal c n = cellTotal c' n := by
  induction n with
  | zero => rfl
  | succ n ih =>
    rw [cellTotal_succ, cellTotal_succ, ih (fun j hj => hcc j (by omega)), hcc n (by omega)]

theorem cnt_le (p : Nat → Bool) (n : Nat) : cnt p n ≤ n := by
  induction n with
  | zero => exact Nat.le_refl _
  | succ n ih => rw [cnt_succ]; split <;> omega

/-- splitting the index range `0 … n+m-1` at `n` -/
theorem cnt_add (p : Nat → Bool) (n m : Nat) : cnt p (n + m) = cnt p n + cnt (fun j => p (n + j)) m := by
  induction m with
  | zero => rfl
  | succ m ih => rw [← Nat.add_assoc, cnt_succ, cnt_succ, ih]; omega

theorem cellTotal_add (c : Nat → List Elm) (n m : Nat) :
    cellTotal c (n + m) = cellTotal c n + cellTotal (fun j => c (n + j)) m := by
  induction m with
  | zero => rfl
  | succ m ih => rw [← Nat.add_assoc, cellTotal_succ, cellTotal_succ, ih]; omega

/-- pointwise partition of a predicate -/
theorem cnt_partition (p q r : Nat → Bool) (n : Nat)
    (hp : ∀ j, j < n → (if p j then 1 else 0) + (if q j then 1 else 0) = (if r j then 1 else 0)) :
    cnt p n + cnt q n = cnt r n := by
  induction n with
  | zero => rfl
  | succ n ih =>
    have := ih (fun j hj => hp j (by omega))
    have := hp n (by omega)
    rw [cnt_succ, cnt_succ, cnt_succ]; omega

theorem cellTotal_partition (a b c : Nat → List Elm) (n : Nat)
    (hp : ∀ j, j < n → (a j).length + (b j).length = (c j).length) :
    cellTotal a n + cellTotal b n = cellTotal c n := by
  induction n with
  | zero => rfl
  | succ n ih =>
    have := ih (fun j hj => hp j (by omega))
    have := hp n (by omega)
    rw [cellTotal_succ, cellTotal_succ, cellTotal_succ]; omega

/-- a positive count has a witness -/
theorem cnt_pos_of (p : Nat → Bool) (n i : Nat) (hi : i < n) (hpi : p i = true) : 0 < cnt p n := by
  induction n with
  | zero => omega
  | succ n ih =>
    rw [cnt_succ]
    by_cases hin : i = n
    · subst hin; simp [hpi]
    · have := ih (by omega); omega

theorem cellTotal_ge (c : Nat → List Elm) (n i : Nat) (hi : i < n) : (c i).length ≤ cellTotal c n := by
  induction n with
  | zero => omega
  | succ n ih =>
    rw [cellTotal_succ]
    by_cases hin : i = n
    · subst hin; omega
    · have := ih (by omega); omega

/-- writing one cell: the total changes by the difference of the chain lengths -/
theorem cellTotal_setCell (c : Nat → List Elm) (i : Nat) (l : List Elm) (n : Nat) (hi : i < n) :
    cellTotal (setCell c i l) n + (c i).length = cellTotal c n + l.length := by
  induction n with
  | zero => omega
  | succ n ih =>
    rw [cellTotal_succ, cellTotal_succ]
    by_cases hin : i = n
    · subst hin
      have h1 : cellTotal (setCell c i l) i = cellTotal c i :=
        cellTotal_congr _ _ _ (fun j hj => by simp [setCell]; intro h; omega)
      have h2 : setCell c i l i = l := by simp [setCell]
      rw [h1, h2]; omega
    · have h2 : setCell c i l n = c n := by
        simp only [setCell]; rw [if_neg (fun h => hin h.symm)]
      have := ih (by omega)
      rw [h2]; omega

/-- writing one cell: the number of non-empty cells changes by the difference of the emptiness bits -/
theorem cnt_setCell (c : Nat → List Elm) (i : Nat) (l : List Elm) (n : Nat) (hi : i < n) :
    cnt (fun j => !(setCell c i l j).isEmpty) n + (if (c i).isEmpty then 0 else 1) =
      cnt (fun j => !(c j).isEmpty) n + (if l.isEmpty then 0 else 1) := by
  induction n with
  | zero => omega
  | succ n ih =>
    rw [cnt_succ, cnt_succ]
    by_cases hin : i = n
    · subst hin
      have h1 : cnt (fun j => !(setCell c i l j).isEmpty) i = cnt (fun j => !(c j).isEmpty) i :=
        cnt_congr _ _ _ (fun j hj => by
          have : setCell c i l j = c j := by simp only [setCell]; rw [if_neg (by omega)]
          simp only [this])
      have h2 : setCell c i l i = l := by simp [setCell]
      rw [h1, h2]
      cases (c i).isEmpty <;> cases l.isEmpty <;> simp <;> omega
    · have h2 : setCell c i l n = c n := by
        simp only [setCell]; rw [if_neg (fun h => hin h.symm)]
      have := ih (by omega)
      rw [h2]; omega

/-- the number of non-empty cells of the table -/
def nonEmptyCells (d : Dict) : Nat :=
  ((List.range (d.tableSize + 1)).filter (fun i => !(d.cell i).isEmpty)).length

/-- counter invariant: `count` is the number of stored elements, `fill` the number of non-empty cells -/
def CInv (d : Dict) : Prop := d.count = (entries d).length ∧ d.fill = nonEmptyCells d

instance (d : Dict) : Decidable (CInv d) := inferInstanceAs (Decidable (_ ∧ _))

theorem entries_length (d : Dict) : (entries d).length = cellTotal d.cell (d.tableSize + 1) := rfl

theorem nonEmptyCells_eq (d : Dict) : nonEmptyCells d = cnt (fun i => !(d.cell i).isEmpty) (d.tableSize + 1) := rfl

theorem cinv_iff (d : Dict) : CInv d ↔
    d.count = cellTotal d.cell (d.tableSize + 1) ∧ d.fill = cnt (fun i => !(d.cell i).isEmpty) (d.tableSize + 1) :=
  Iff.rfl

theorem replFirst_length (hc : Nat) (k : Key) (v : Int) (l : List Elm) : (replFirst hc k v l).length = l.length := by
  induction l with
  | nil => rfl
  | cons e t ih => simp only [replFirst]; split <;> simp [ih]

theorem unlinkFirst_length (hc : Nat) (k : Key) (l : List Elm) (hany : l.any (hit hc k) = true) :
    (unlinkFirst hc k l).length + 1 = l.length := by
  induction l with
  | nil => simp at hany
  | cons e t ih =>
    simp only [unlinkFirst]
    by_cases hh : hit hc k e = true
    · simp [hh]
    · have : t.any (hit hc k) = true := by simpa [hh] using hany
      simp [hh, ih this]

/-- the two halves of the doubled table -/
def stayC (d : Dict) (i : Nat) : List Elm :=
  (d.cell i).filter (fun e => e.hash &&& ((d.tableSize + 1) * 2 - 1) == i)
def movedC (d : Dict) (i : Nat) : List Elm :=
  ((d.cell i).filter (fun e => !(e.hash &&& ((d.tableSize + 1) * 2 - 1) == i))).reverse

theorem rehash_cell (d : Dict) (j : Nat) : (rehash d).cell j =
    if j < d.tableSize + 1 then stayC d j else if j < 2 * (d.tableSize + 1) then movedC d (j - (d.tableSize + 1))
    else [] := rfl

theorem rehash_fill (d : Dict) : (rehash d).fill =
    d.fill + cnt (fun i => !(movedC d i).isEmpty) (d.tableSize + 1)
      - cnt (fun i => !(d.cell i).isEmpty && (stayC d i).isEmpty) (d.tableSize + 1) := rfl

theorem rehash_count (d : Dict) : (rehash d).count = d.count := rfl

theorem rehash_tableSize (d : Dict) : (rehash d).tableSize + 1 = (d.tableSize + 1) + (d.tableSize + 1) := by
  simp only [rehash]; omega

theorem stay_moved_length (d : Dict) (i : Nat) : (stayC d i).length + (movedC d i).length = (d.cell i).length := by
  unfold stayC movedC
  rw [List.length_reverse]
  generalize d.cell i = l
  induction l with
  | nil => rfl
  | cons e t ih =>
    simp only [List.filter_cons]
    split <;> simp_all <;> omega

/-- **rehash** keeps the counter invariant: `count` unchanged = number of elements of the doubled table;
`fill + fillUp - fillDown` (truncated subtraction) = number of non-empty cells of the doubled table -/
theorem rehash_cinv (d : Dict) (hc : CInv d) : CInv (rehash d) := by
  rw [cinv_iff] at hc ⊢
  obtain ⟨h1, h2⟩ := hc
  have hlo : ∀ j, j < d.tableSize + 1 → (rehash d).cell j = stayC d j := by
    intro j hj; rw [rehash_cell, if_pos hj]
  have hhi : ∀ j, j < d.tableSize + 1 → (rehash d).cell (d.tableSize + 1 + j) = movedC d j := by
    intro j hj
    rw [rehash_cell, if_neg (by omega), if_pos (by omega)]
    congr 1; omega
  refine ⟨?_, ?_⟩
  · rw [rehash_count, rehash_tableSize, cellTotal_add, h1,
      cellTotal_congr _ _ _ hlo, cellTotal_congr _ _ _ hhi]
    exact (cellTotal_partition _ _ _ _ (fun j _ => stay_moved_length d j)).symm
  · have e1 : cnt (fun i => !((rehash d).cell i).isEmpty) ((d.tableSize + 1) + (d.tableSize + 1)) =
        cnt (fun i => !(stayC d i).isEmpty) (d.tableSize + 1) + cnt (fun i => !(movedC d i).isEmpty) (d.tableSize + 1) := by
      rw [cnt_add,
        cnt_congr (fun i => !((rehash d).cell i).isEmpty) (fun i => !(stayC d i).isEmpty) _
          (fun j hj => by simp only [hlo j hj]),
        cnt_congr (fun j => !((rehash d).cell (d.tableSize + 1 + j)).isEmpty) (fun i => !(movedC d i).isEmpty) _
          (fun j hj => by simp only [hhi j hj])]
    rw [rehash_fill, rehash_tableSize, e1, h2]
    have hpart := cnt_partition (fun i => !(stayC d i).isEmpty)
      (fun i => !(d.cell i).isEmpty && (stayC d i).isEmpty) (fun i => !(d.cell i).isEmpty) (d.tableSize + 1)
      (fun j _ => by
        have hs : (d.cell j).isEmpty = true → (stayC d j).isEmpty = true := by
          intro he; unfold stayC; rw [List.isEmpty_iff] at he; rw [he]; rfl
        cases h3 : (d.cell j).isEmpty <;> cases h4 : (stayC d j).isEmpty <;> simp_all)
    omega

theorem isEmpty_eq_of_length_eq {α : Type} (l l' : List α) (hl : l.length = l'.length) : l.isEmpty = l'.isEmpty := by
  cases l <;> cases l' <;> simp_all

theorem isEmpty_false_of_length_pos {α : Type} (l : List α) (hl : 0 < l.length) : l.isEmpty = false := by
  cases l with
  | nil => simp at hl
  | cons _ _ => rfl

theorem and_mask_lt (x ts : Nat) : x &&& ts < ts + 1 := Nat.lt_succ_of_le Nat.and_le_right

/-- **set** keeps the counter invariant (every hash function, every state; the rehash test runs on the already
updated dict) -/
theorem dset_cinv (h : Key → Nat) (d : Dict) (hc : CInv d) (k : Key) (v : Int) : CInv (dset h d k v) := by
  rw [cinv_iff] at hc
  obtain ⟨h1, h2⟩ := hc
  have hi := and_mask_lt (h k) d.tableSize
  unfold dset
  simp only
  split
  · -- replace: same chain length, same emptiness
    rw [cinv_iff]
    have t := cellTotal_setCell d.cell (h k &&& d.tableSize)
      (replFirst (h k) k v (d.cell (h k &&& d.tableSize))) _ hi
    have f := cnt_setCell d.cell (h k &&& d.tableSize)
      (replFirst (h k) k v (d.cell (h k &&& d.tableSize))) _ hi
    rw [replFirst_length] at t
    have he : (replFirst (h k) k v (d.cell (h k &&& d.tableSize))).isEmpty = (d.cell (h k &&& d.tableSize)).isEmpty :=
      isEmpty_eq_of_length_eq _ _ (replFirst_length _ _ _ _)
    rw [he] at f
    refine ⟨?_, ?_⟩
    · dsimp only
      omega
    · dsimp only
      omega
  · split
    · -- new cell: count + 1, fill + 1, then the rehash test on the updated dict
      rename_i hemp
      have hd1 : CInv { d with cell := setCell d.cell (h k &&& d.tableSize) [⟨k, h k, v⟩],
                               count := d.count + 1, fill := d.fill + 1 } := by
        rw [cinv_iff]
        have t := cellTotal_setCell d.cell (h k &&& d.tableSize) [⟨k, h k, v⟩] _ hi
        have f := cnt_setCell d.cell (h k &&& d.tableSize) [⟨k, h k, v⟩] _ hi
        rw [List.isEmpty_iff] at hemp
        rw [hemp] at t f
        simp only [List.length_nil, List.length_cons, List.isEmpty_nil, List.isEmpty_cons, if_true,
          Bool.false_eq_true, if_false] at t f
        refine ⟨?_, ?_⟩
        · dsimp only
          omega
        · dsimp only
          omega
      split
      · exact rehash_cinv _ hd1
      · exact hd1
    · -- appended at the end of a non-empty chain: count + 1, fill unchanged
      rename_i hemp
      rw [cinv_iff]
      have t := cellTotal_setCell d.cell (h k &&& d.tableSize)
        (d.cell (h k &&& d.tableSize) ++ [⟨k, h k, v⟩]) _ hi
      have f := cnt_setCell d.cell (h k &&& d.tableSize)
        (d.cell (h k &&& d.tableSize) ++ [⟨k, h k, v⟩]) _ hi
      have he : (d.cell (h k &&& d.tableSize) ++ [(⟨k, h k, v⟩ : Elm)]).isEmpty = false := by simp
      have hemp' : (d.cell (h k &&& d.tableSize)).isEmpty = false := by
        cases hb : (d.cell (h k &&& d.tableSize)).isEmpty with
        | true => exact absurd hb hemp
        | false => rfl
      rw [he, hemp'] at f
      rw [List.length_append] at t
      simp only [List.length_cons, List.length_nil, Bool.false_eq_true, if_false] at t f
      refine ⟨?_, ?_⟩
      · dsimp only
        omega
      · dsimp only
        omega

/-- **remove** keeps the counter invariant; the two truncated decrements are exact: the removed element exists,
so `count ≥ 1`, and when its cell becomes empty that cell was counted in `fill`, so `fill ≥ 1` -/
theorem dremove_cinv (h : Key → Nat) (d : Dict) (hc : CInv d) (k : Key) (d' : Dict)
    (hr : dremove h d k = some d') :
    CInv d' ∧ d'.count + 1 = d.count ∧
    (d'.fill + (if (d'.cell (h k &&& d.tableSize)).isEmpty then 1 else 0) = d.fill) := by
  rw [cinv_iff] at hc
  obtain ⟨h1, h2⟩ := hc
  have hi := and_mask_lt (h k) d.tableSize
  unfold dremove at hr
  simp only at hr
  split at hr
  · rename_i hany
    simp only [Option.some.injEq] at hr
    subst hr
    have hl := unlinkFirst_length (h k) k _ hany
    have t := cellTotal_setCell d.cell (h k &&& d.tableSize)
      (unlinkFirst (h k) k (d.cell (h k &&& d.tableSize))) _ hi
    have f := cnt_setCell d.cell (h k &&& d.tableSize)
      (unlinkFirst (h k) k (d.cell (h k &&& d.tableSize))) _ hi
    have hne : (d.cell (h k &&& d.tableSize)).isEmpty = false := isEmpty_false_of_length_pos _ (by omega)
    rw [hne] at f
    simp only [Bool.false_eq_true, if_false] at f
    have hsame : setCell d.cell (h k &&& d.tableSize) (unlinkFirst (h k) k (d.cell (h k &&& d.tableSize)))
        (h k &&& d.tableSize) = unlinkFirst (h k) k (d.cell (h k &&& d.tableSize)) := by simp [setCell]
    rw [cinv_iff]
    simp only [hsame]
    cases hb : (unlinkFirst (h k) k (d.cell (h k &&& d.tableSize))).isEmpty
    · rw [hb] at f
      simp only [Bool.false_eq_true, if_false] at f ⊢
      omega
    · rw [hb] at f
      simp only [if_true] at f ⊢
      omega
  · cases hr

/-! ### `count` is the size of the abstract map -/

theorem mem_entries (h : Key → Nat) (d : Dict) (hinv : DInv h d) (e : Elm) : e ∈ entries d ↔ ∃ i, e ∈ d.cell i := by
  unfold entries dforeach
  rw [List.mem_flatMap]
  constructor
  · rintro ⟨i, _, he⟩; exact ⟨i, he⟩
  · rintro ⟨i, he⟩
    exact ⟨i, List.mem_range.mpr (by have := (hinv.2.1 i e he).1; omega), he⟩

/-- under `DInv` the stored elements have pairwise distinct keys (across all cells) -/
theorem entries_keys_distinct (h : Key → Nat) (d : Dict) (hinv : DInv h d) : KeysDistinct (entries d) := by
  unfold entries dforeach KeysDistinct
  rw [List.pairwise_flatMap]
  refine ⟨fun i _ => hinv.2.2 i, ?_⟩
  refine List.pairwise_lt_range.imp ?_
  intro i j hij x hx y hy hk
  obtain ⟨hi, _⟩ := entry_cell h d hinv i x hx
  obtain ⟨hj, _⟩ := entry_cell h d hinv j y hy
  rw [hk] at hi
  omega

theorem entries_keys_nodup (h : Key → Nat) (d : Dict) (hinv : DInv h d) : ((entries d).map (·.key)).Nodup := by
  rw [List.nodup_iff_pairwise_ne, List.pairwise_map]
  exact entries_keys_distinct h d hinv

theorem mem_entries_keys (h : Key → Nat) (d : Dict) (hinv : DInv h d) (k : Key) :
    k ∈ (entries d).map (·.key) ↔ ∃ v, Bound d k v := by
  rw [List.mem_map]
  constructor
  · rintro ⟨e, he, hk⟩
    obtain ⟨i, hi⟩ := (mem_entries h d hinv e).mp he
    exact ⟨e.val, i, e, hi, hk, rfl⟩
  · rintro ⟨v, i, e, he, hk, _⟩
    exact ⟨e, (mem_entries h d hinv e).mpr ⟨i, he⟩, hk⟩

/-- the executable abstract map `amap` (first entry with key `k` in cursor order) is the relation `Bound` -/
theorem amap_refines (h : Key → Nat) (d : Dict) (hinv : DInv h d) (k : Key) (v : Int) :
    amap d k = some v ↔ Bound d k v := by
  unfold amap
  constructor
  · intro hg
    cases hf : (entries d).find? (fun e => e.key == k) with
    | none => rw [hf] at hg; cases hg
    | some e =>
      rw [hf] at hg
      simp only [Option.map_some, Option.some.injEq] at hg
      obtain ⟨i, hi⟩ := (mem_entries h d hinv e).mp (List.mem_of_find?_eq_some hf)
      have hk : e.key = k := by simpa using List.find?_some hf
      exact ⟨i, e, hi, hk, hg⟩
  · rintro ⟨i, e, he, hk, hv⟩
    have hme : e ∈ entries d := (mem_entries h d hinv e).mpr ⟨i, he⟩
    have hs : ((entries d).find? (fun e => e.key == k)).isSome = true :=
      List.find?_isSome.mpr ⟨e, hme, by simp [hk]⟩
    cases hf : (entries d).find? (fun e => e.key == k) with
    | none => rw [hf] at hs; cases hs
    | some e' =>
      have hm := List.mem_of_find?_eq_some hf
      have hk' : e'.key = k := by simpa using List.find?_some hf
      have : e' = e := unique_of_distinct _ (entries_keys_distinct h d hinv) e' e hm hme (by rw [hk', hk])
      subst this
      simp [hv]

/-- two duplicate-free enumerations of the same set have the same length -/
theorem length_eq_of_nodup_of_mem_iff {α : Type} (l₁ l₂ : List α) (h₁ : l₁.Nodup) (h₂ : l₂.Nodup)
    (hm : ∀ a, a ∈ l₁ ↔ a ∈ l₂) : l₁.length = l₂.length :=
  Nat.le_antisymm (h₁.length_le_of_subset (fun a ha => (hm a).mp ha))
    (h₂.length_le_of_subset (fun a ha => (hm a).mpr ha))

/-- `dget` is `some` exactly when the chain walk hits -/
theorem dget_isSome (h : Key → Nat) (d : Dict) (k : Key) :
    (dget h d k).isSome = (d.cell (h k &&& d.tableSize)).any (hit (h k) k) := by
  unfold dget
  rw [Option.isSome_map]
  generalize d.cell (h k &&& d.tableSize) = l
  induction l with
  | nil => rfl
  | cons e t ih =>
    simp only [List.find?_cons, List.any_cons]
    cases hit (h k) k e <;> simp [ih]

/-- `xbt_dict_length` after a `set`: one more exactly when the key was absent (whether or not the table is rehashed) -/
theorem dset_count (h : Key → Nat) (d : Dict) (k : Key) (v : Int) :
    (dset h d k v).count = if (dget h d k).isSome then d.count else d.count + 1 := by
  rw [dget_isSome]
  unfold dset
  simp only
  split
  · rfl
  · split
    · split
      · rfl
      · rfl
    · rfl

end SgVerif.C50
