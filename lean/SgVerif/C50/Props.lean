import SgVerif.C50.DynarLemmas
/-
C50 — Legacy xbt containers behave like their models.  Property theorems (nothing else in this file).
Part 1: xbt_dynar refines a `List` — forward simulation for every public operation and, by induction, for every
operation sequence (no bound on lengths, contents or capacities).
-/
namespace SgVerif.C50

/-- **One call**: from any state satisfying the representation invariant, every public operation (within `opOk`)
returns what the list specification returns — including `abort` exactly on the bounds violations — and leaves a
state whose abstraction is the specification's new list, and the invariant holds again.  The proof is about the index
arithmetic as written (`expand`, `memmove`, the `int` casts). -/
theorem dynar_step_refines (d : Dynar) (hinv : Inv d) (op : Op) (hop : opOk d op) :
    (cstep d op).1 = (sstep (abs d) op).1 ∧ abs (cstep d op).2 = (sstep (abs d) op).2 ∧ Inv (cstep d op).2 := by
  have hlen := abs_length d
  cases op with
  | push x =>
    simp only [opOk] at hop
    obtain ⟨h1, h2, h3⟩ := insertAt_refines d hinv (d.used : Int) x (by omega) (by omega) hop
    simp only [cstep, sstep]
    refine ⟨h1, ?_, h3⟩
    rw [h2, Int.toNat_natCast, ← hlen, List.insertIdx_length_self]
  | unshift x =>
    simp only [opOk] at hop
    obtain ⟨h1, h2, h3⟩ := insertAt_refines d hinv 0 x (by omega) (by omega) hop
    simp only [cstep, sstep]
    refine ⟨h1, ?_, h3⟩
    rw [h2]; simp
  | insertAt idx x =>
    simp only [opOk] at hop
    simp only [cstep, sstep]
    by_cases hneg : idx < 0
    · simp only [insertAt, hneg, if_true, true_or]
      exact ⟨trivial, trivial, hinv⟩
    · obtain ⟨h1, h2, h3⟩ := insertAt_refines d hinv idx x (by omega) hop.2 hop.1
      have : ¬ (idx < 0 ∨ idx > ((abs d).length : Int)) := by rw [hlen]; omega
      simp only [this, if_false]
      exact ⟨h1, h2, h3⟩
  | pop =>
    simp only [cstep, sstep]
    rw [toI32_pred d.used hinv.2.1, List.getLast?_eq_getElem?, hlen]
    by_cases h0 : d.used = 0
    · have hin : inbound d ((d.used : Int) - 1) = false := by
        cases h : inbound d ((d.used : Int) - 1) with
        | false => rfl
        | true => have := (inbound_iff d hinv _).mp h; omega
      have hnone : (abs d)[d.used - 1]? = none := List.getElem?_eq_none (by omega)
      simp only [removeAt, hin, Bool.not_false, if_true, hnone]
      exact ⟨trivial, trivial, hinv⟩
    · have e : (d.used : Int) - 1 = ((d.used - 1 : Nat) : Int) := by omega
      rw [e]
      obtain ⟨v, hv, h1, h2, h3⟩ := removeAt_refines d hinv (d.used - 1) (by omega)
      simp only [hv]
      refine ⟨h1, ?_, h3⟩
      rw [h2, List.eraseIdx_eq_dropLast (by omega)]
  | popPtr =>
    simp only [cstep, sstep]
    rw [List.getLast?_eq_getElem?, hlen]
    by_cases h0 : d.used = 0
    · have hnone : (abs d)[d.used - 1]? = none := List.getElem?_eq_none (by omega)
      simp only [h0, if_true]
      simp only [h0] at hnone
      simp only [hnone]
      exact ⟨trivial, trivial, hinv⟩
    · obtain ⟨hsz, hlt, hinit⟩ := hinv
      obtain ⟨v, hv⟩ := Option.isSome_iff_exists.mp (hinit (d.used - 1) (by omega))
      have hget : (abs d)[d.used - 1]? = some v := by
        have : d.used - 1 < (abs d).length := by omega
        rw [List.getElem?_eq_getElem this, abs_getElem, hv]; rfl
      simp only [h0, if_false, hv, hget]
      refine ⟨trivial, abs_pred d, ⟨by simp only; omega, by simp only; omega, ?_⟩⟩
      intro j hj
      simp only at hj
      exact hinit j (by omega)
  | shift =>
    simp only [cstep, sstep]
    by_cases h0 : d.used = 0
    · have hin : inbound d 0 = false := by
        cases h : inbound d 0 with
        | false => rfl
        | true => have := (inbound_iff d hinv _).mp h; omega
      have hnil : abs d = [] := List.eq_nil_of_length_eq_zero (by omega)
      simp only [removeAt, hin, Bool.not_false, if_true, hnil]
      exact ⟨trivial, trivial, hinv⟩
    · obtain ⟨v, hv, h1, h2, h3⟩ := removeAt_refines d hinv 0 (by omega)
      simp only [Int.natCast_zero] at h1 h2 h3
      cases hl : abs d with
      | nil => rw [hl] at hlen; simp at hlen; omega
      | cons a t =>
        rw [hl] at hv h2
        simp only [List.getElem?_cons_zero, Option.some.injEq] at hv
        subst hv
        simp only
        exact ⟨h1, by rw [h2]; simp, h3⟩
  | removeAt idx =>
    simp only [cstep, sstep]
    by_cases hneg : idx < 0
    · have hin : inbound d idx = false := by
        cases h : inbound d idx with
        | false => rfl
        | true => have := (inbound_iff d hinv _).mp h; omega
      simp only [removeAt, hin, Bool.not_false, if_true, hneg]
      exact ⟨trivial, trivial, hinv⟩
    · simp only [hneg, if_false]
      by_cases hu : idx < d.used
      · obtain ⟨i, rfl⟩ : ∃ i : Nat, idx = (i : Int) := ⟨idx.toNat, by omega⟩
        obtain ⟨v, hv, h1, h2, h3⟩ := removeAt_refines d hinv i (by omega)
        simp only [Int.toNat_natCast, hv]
        exact ⟨h1, h2, h3⟩
      · have hin : inbound d idx = false := by
          cases h : inbound d idx with
          | false => rfl
          | true => have := (inbound_iff d hinv _).mp h; omega
        have hnone : (abs d)[idx.toNat]? = none := List.getElem?_eq_none (by omega)
        simp only [removeAt, hin, Bool.not_false, if_true, hnone]
        exact ⟨trivial, trivial, hinv⟩
  | get idx =>
    simp only [opOk] at hop
    simp only [cstep, sstep]
    rw [toI32_small idx hop]
    by_cases hu : idx < d.used
    · have hin : inbound d (idx : Int) = true := (inbound_iff d hinv _).mpr ⟨by omega, by omega⟩
      obtain ⟨hsz, hlt, hinit⟩ := hinv
      obtain ⟨v, hv⟩ := Option.isSome_iff_exists.mp (hinit idx hu)
      have hget : (abs d)[idx]? = some v := by
        have : idx < (abs d).length := by omega
        rw [List.getElem?_eq_getElem this, abs_getElem, hv]; rfl
      have : ¬ idx ≥ d.size := by omega
      simp only [hin, Bool.not_true, Bool.false_eq_true, if_false, this, hv, hget]
      exact ⟨trivial, trivial, hsz, hlt, hinit⟩
    · have hin : inbound d (idx : Int) = false := by
        cases h : inbound d (idx : Int) with
        | false => rfl
        | true => have := (inbound_iff d hinv _).mp h; omega
      have hnone : (abs d)[idx]? = none := List.getElem?_eq_none (by omega)
      simp only [hin, Bool.not_false, if_true, hnone]
      exact ⟨trivial, trivial, hinv⟩
  | set idx x =>
    simp only [opOk] at hop
    obtain ⟨h1, h2, h3⟩ := setAt_refines d hinv idx x hop
    simp only [cstep, sstep]
    rw [hlen]
    by_cases hlt : idx < d.used
    · simp only [hlt, if_true] at h2 ⊢
      exact ⟨h1, h2, h3⟩
    · simp only [hlt, if_false] at h2 ⊢
      exact ⟨h1, h2, h3⟩
  | length => simp only [cstep, sstep, hlen]; exact ⟨trivial, trivial, hinv⟩
  | isEmpty =>
    simp only [cstep, sstep]
    refine ⟨?_, trivial, hinv⟩
    congr 1
    cases hl : abs d with
    | nil => rw [hl] at hlen; simp at hlen; simp [← hlen]
    | cons a t => rw [hl] at hlen; simp at hlen; simp [← hlen]
  | reset =>
    simp only [cstep, sstep]
    refine ⟨trivial, by simp [abs], ⟨by simp, by simp, by intro j hj; simp at hj⟩⟩
  | member x =>
    simp only [cstep, sstep, cells_of_inv d hinv]
    exact ⟨trivial, trivial, hinv⟩
  | sort =>
    simp only [cstep, sstep]
    by_cases h0 : d.size = 0
    · have hu : d.used = 0 := by have := hinv.1; omega
      have hnil : abs d = [] := List.eq_nil_of_length_eq_zero (by omega)
      simp only [h0, if_true, hnil, List.mergeSort_nil]
      exact ⟨trivial, trivial, hinv⟩
    · simp only [h0, if_false, cells_of_inv d hinv]
      have hs : ((abs d).mergeSort intLe).length = d.used := by rw [List.length_mergeSort, hlen]
      refine ⟨trivial, sort_refines d _ hs, ⟨hinv.1, hinv.2.1, ?_⟩⟩
      intro j hj
      simp only at hj
      have : j < ((abs d).mergeSort intLe).length := by omega
      simp only [this, dite_true, Option.isSome_some]
  | foreach =>
    simp only [cstep, sstep, cells_of_inv d hinv]
    exact ⟨trivial, trivial, hinv⟩

/-- every call of the sequence is within `opOk` in the state where it is issued -/
def runOk (d : Dynar) : List Op → Prop
  | [] => True
  | op :: ops => opOk d op ∧ runOk (cstep d op).2 ops

/-- **All operation sequences** (any length): the results returned along the run are those of the list, and the
final abstraction is the final list. -/
theorem dynar_refines_list_partial (d : Dynar) (hinv : Inv d) (ops : List Op) (hok : runOk d ops) :
    (runC d ops).1 = (runS (abs d) ops).1 ∧ abs (runC d ops).2 = (runS (abs d) ops).2 ∧ Inv (runC d ops).2 := by
  induction ops generalizing d with
  | nil => exact ⟨rfl, rfl, hinv⟩
  | cons op ops ih =>
    obtain ⟨h1, h2, h3⟩ := dynar_step_refines d hinv op hok.1
    obtain ⟨i1, i2, i3⟩ := ih (cstep d op).2 h3 hok.2
    simp only [runC, runS]
    rw [← h2]
    exact ⟨by rw [h1, i1], i2, i3⟩

/-- … in particular from a fresh dynar -/
theorem dynar_new_refines_nil : Inv Dynar.new ∧ abs Dynar.new = [] := by
  refine ⟨⟨by simp [Dynar.new], by simp [Dynar.new], ?_⟩, rfl⟩
  intro i hi; simp [Dynar.new] at hi

/-
**Full statement** (false on the current code): `dynar_refines_list` = the theorem above with `runOk` replaced by
"`used` stays below 2^31" only, i.e. *including* `insertAt idx` with `idx > used` and `get idx` with `idx ≥ 2^31`,
for which the list specification answers `abort`.  The two excluded classes are exactly the two counterexamples:
-/

/-- `xbt_dynar_insert_at` past the end is not refused: on a fresh dynar `insert_at(1, 7)` returns normally, `used`
becomes 1 and cell 0 — now the only element — was never written (the specification aborts). -/
theorem dynar_insert_past_end_counterexample :
    (cstep Dynar.new (.insertAt 1 7)).1 = .unit ∧ (sstep [] (.insertAt 1 7)).1 = .abort ∧
    (cstep Dynar.new (.insertAt 1 7)).2.used = 1 ∧ cells (cstep Dynar.new (.insertAt 1 7)).2 = none := by decide

/-- … and further away it writes outside the allocation: `insert_at(3, 7)` on a fresh dynar (capacity 2) -/
theorem dynar_insert_past_end_counterexample_overflow :
    (cstep Dynar.new (.insertAt 3 7)).1 = .ub ∧ (sstep [] (.insertAt 3 7)).1 = .abort := by decide

/-- the bound check of `xbt_dynar_get_cpy` sees `(int)idx`: with one element, index 2^32 passes it and the read is
outside the allocation (the specification aborts) -/
theorem dynar_index_truncated_counterexample :
    (cstep (cstep Dynar.new (.push 5)).2 (.get 4294967296)).1 = .ub ∧ (sstep [5] (.get 4294967296)).1 = .abort := by decide

/-! ### non-vacuity -/
instance (d : Dynar) (op : Op) : Decidable (opOk d op) := by
  cases op <;> simp only [opOk] <;> infer_instance

def decRunOk : (d : Dynar) → (ops : List Op) → Decidable (runOk d ops)
  | _, [] => isTrue trivial
  | d, op :: ops =>
    have := decRunOk (cstep d op).2 ops
    by simp only [runOk]; infer_instance

instance (d : Dynar) (ops : List Op) : Decidable (runOk d ops) := decRunOk d ops

example : runOk Dynar.new [.push 1, .unshift 2, .insertAt 1 3, .set 5 9, .removeAt 0, .pop, .sort, .get 1, .foreach] := by
  decide
example : (runC Dynar.new [.push 1, .unshift 2, .insertAt 1 3, .set 5 9, .removeAt 0, .foreach, .pop, .get 7]).1
    = [.unit, .unit, .unit, .unit, .val 2, .list [3, 1, 0, 0, 9], .val 9, .abort] := by decide

end SgVerif.C50
