import SgVerif.C50.DynarLemmas
import SgVerif.C50.DictLemmas
import SgVerif.C50.Model
/-
C50 — Legacy xbt containers behave like their models.  Property theorems (nothing else in this file).
Part 1: xbt_dynar refines a `List` — forward simulation for every public operation and, by induction, for every
operation sequence (no bound on lengths, contents or capacities).
-/
namespace SgVerif.C50

/-- **One call**: from any state satisfying the representation invariant, every public operation, with any
arguments (`opOk` only keeps the length below 2^31, the range of the `int` positions), returns what the list
specification returns — including `abort` exactly on the bounds violations, whatever the value of the offending
index — and leaves a state whose abstraction is the specification's new list, and the invariant holds again.  The proof
is about the index arithmetic as written (`expand`, `memmove`, the `int` conversions). -/
theorem dynar_step_refines (d : Dynar) (hinv : Inv d) (op : Op) (hop : opOk d op) :
    (cstep d op).1 = (sstep (abs d) op).1 ∧ abs (cstep d op).2 = (sstep (abs d) op).2 ∧ Inv (cstep d op).2 := by
  have hlen := abs_length d
  cases op with
  | push x =>
    simp only [opOk] at hop
    obtain ⟨h1, h2, h3⟩ := insertAt_refines d hinv (d.used : Int) x (by omega) (by omega) hop
    simp only [cstep, sstep]
    rw [toI32_small d.used hinv.2.1]
    refine ⟨h1, ?_, h3⟩
    rw [h2, Int.toNat_natCast, ← hlen, List.insertIdx_length_self]
  | unshift x =>
    simp only [opOk] at hop
    obtain ⟨h1, h2, h3⟩ := insertAt_refines d hinv 0 x (by omega) (by omega) hop
    simp only [cstep, sstep]
    refine ⟨h1, ?_, h3⟩
    rw [h2]; simp
  | insertAt idx x =>
    simp only [opOk] at hop
    simp only [cstep, sstep]
    by_cases hout : idx < 0 ∨ (d.used : Int) < idx
    · -- refused by the implementation (`_sanity_check_idx` / `_check_sloppy_inbound_idx`) and by the specification
      have : idx < 0 ∨ idx > ((abs d).length : Int) := by rw [hlen]; omega
      simp only [insertAt_refused d idx x hout, this, if_true]
      exact ⟨trivial, trivial, hinv⟩
    · obtain ⟨h1, h2, h3⟩ := insertAt_refines d hinv idx x (by omega) (by omega) hop
      have : ¬ (idx < 0 ∨ idx > ((abs d).length : Int)) := by rw [hlen]; omega
      simp only [this, if_false]
      exact ⟨h1, h2, h3⟩
  | pop =>
    simp only [cstep, sstep]
    rw [toI32_pred d.used hinv.2.1, List.getLast?_eq_getElem?, hlen]
    by_cases h0 : d.used = 0
    · have hnone : (abs d)[d.used - 1]? = none := List.getElem?_eq_none (by omega)
      simp only [removeAt_refused d ((d.used : Int) - 1) (Or.inl (by omega)), hnone]
      exact ⟨trivial, trivial, hinv⟩
    · have e : (d.used : Int) - 1 = ((d.used - 1 : Nat) : Int) := by omega
      rw [e]
      obtain ⟨v, hv, h1, h2, h3⟩ := removeAt_refines d hinv (d.used - 1) (by omega)
      simp only [hv]
      refine ⟨h1, ?_, h3⟩
      rw [h2, List.eraseIdx_eq_dropLast (by omega)]
  | popPtr =>
    simp only [cstep, sstep]
    rw [List.getLast?_eq_getElem?, hlen]
    by_cases h0 : d.used = 0
    · have hnone : (abs d)[d.used - 1]? = none := List.getElem?_eq_none (by omega)
      simp only [h0, if_true]
      simp only [h0] at hnone
      simp only [hnone]
      exact ⟨trivial, trivial, hinv⟩
    · obtain ⟨hsz, hlt, hinit⟩ := hinv
      obtain ⟨v, hv⟩ := Option.isSome_iff_exists.mp (hinit (d.used - 1) (by omega))
      have hget : (abs d)[d.used - 1]? = some v := by
        have : d.used - 1 < (abs d).length := by omega
        rw [List.getElem?_eq_getElem this, abs_getElem, hv]; rfl
      simp only [h0, if_false, hv, hget]
      refine ⟨trivial, abs_pred d, ⟨by simp only; omega, by simp only; omega, ?_⟩⟩
      intro j hj
      simp only at hj
      exact hinit j (by omega)
  | shift =>
    simp only [cstep, sstep]
    by_cases h0 : d.used = 0
    · have hnil : abs d = [] := List.eq_nil_of_length_eq_zero (by omega)
      simp only [removeAt_refused d 0 (Or.inr (by omega)), hnil]
      exact ⟨trivial, trivial, hinv⟩
    · obtain ⟨v, hv, h1, h2, h3⟩ := removeAt_refines d hinv 0 (by omega)
      simp only [Int.natCast_zero] at h1 h2 h3
      cases hl : abs d with
      | nil => rw [hl] at hlen; simp at hlen; omega
      | cons a t =>
        rw [hl] at hv h2
        simp only [List.getElem?_cons_zero, Option.some.injEq] at hv
        subst hv
        simp only
        exact ⟨h1, by rw [h2]; simp, h3⟩
  | removeAt idx =>
    simp only [cstep, sstep]
    by_cases hneg : idx < 0
    · simp only [removeAt_refused d idx (Or.inl hneg), hneg, if_true]
      exact ⟨trivial, trivial, hinv⟩
    · simp only [hneg, if_false]
      by_cases hu : idx < d.used
      · obtain ⟨i, rfl⟩ : ∃ i : Nat, idx = (i : Int) := ⟨idx.toNat, by omega⟩
        obtain ⟨v, hv, h1, h2, h3⟩ := removeAt_refines d hinv i (by omega)
        simp only [Int.toNat_natCast, hv]
        exact ⟨h1, h2, h3⟩
      · have hnone : (abs d)[idx.toNat]? = none := List.getElem?_eq_none (by omega)
        simp only [removeAt_refused d idx (Or.inr (by omega)), hnone]
        exact ⟨trivial, trivial, hinv⟩
  | get idx =>
    simp only [cstep, sstep]
    by_cases hu : idx < d.used
    · have hin : inbound d idx = true := (inbound_iff d _).mpr hu
      obtain ⟨hsz, hlt, hinit⟩ := hinv
      obtain ⟨v, hv⟩ := Option.isSome_iff_exists.mp (hinit idx hu)
      have hget : (abs d)[idx]? = some v := by
        have : idx < (abs d).length := by omega
        rw [List.getElem?_eq_getElem this, abs_getElem, hv]; rfl
      have : ¬ idx ≥ d.size := by omega
      simp only [hin, Bool.not_true, Bool.false_eq_true, if_false, this, hv, hget]
      exact ⟨trivial, trivial, hsz, hlt, hinit⟩
    · have hin : inbound d idx = false := by
        cases h : inbound d idx with
        | false => rfl
        | true => have := (inbound_iff d _).mp h; omega
      have hnone : (abs d)[idx]? = none := List.getElem?_eq_none (by omega)
      simp only [hin, Bool.not_false, if_true, hnone]
      exact ⟨trivial, trivial, hinv⟩
  | set idx x =>
    simp only [opOk] at hop
    obtain ⟨h1, h2, h3⟩ := setAt_refines d hinv idx x hop
    simp only [cstep, sstep]
    rw [hlen]
    by_cases hlt : idx < d.used
    · simp only [hlt, if_true] at h2 ⊢
      exact ⟨h1, h2, h3⟩
    · simp only [hlt, if_false] at h2 ⊢
      exact ⟨h1, h2, h3⟩
  | length => simp only [cstep, sstep, hlen]; exact ⟨trivial, trivial, hinv⟩
  | isEmpty =>
    simp only [cstep, sstep]
    refine ⟨?_, trivial, hinv⟩
    congr 1
    cases hl : abs d with
    | nil => rw [hl] at hlen; simp at hlen; simp [← hlen]
    | cons a t => rw [hl] at hlen; simp at hlen; simp [← hlen]
  | reset =>
    simp only [cstep, sstep]
    refine ⟨trivial, by simp [abs], ⟨by simp, by simp, by intro j hj; simp at hj⟩⟩
  | member x =>
    simp only [cstep, sstep, cells_of_inv d hinv]
    exact ⟨trivial, trivial, hinv⟩
  | sort =>
    simp only [cstep, sstep]
    by_cases h0 : d.size = 0
    · have hu : d.used = 0 := by have := hinv.1; omega
      have hnil : abs d = [] := List.eq_nil_of_length_eq_zero (by omega)
      simp only [h0, if_true, hnil, List.mergeSort_nil]
      exact ⟨trivial, trivial, hinv⟩
    · simp only [h0, if_false, cells_of_inv d hinv]
      have hs : ((abs d).mergeSort intLe).length = d.used := by rw [List.length_mergeSort, hlen]
      refine ⟨trivial, sort_refines d _ hs, ⟨hinv.1, hinv.2.1, ?_⟩⟩
      intro j hj
      simp only at hj
      have : j < ((abs d).mergeSort intLe).length := by omega
      simp only [this, dite_true, Option.isSome_some]
  | foreach =>
    simp only [cstep, sstep, cells_of_inv d hinv]
    exact ⟨trivial, trivial, hinv⟩

/-- the dynar stays shorter than 2^31 elements along the run (`opOk` in the state where each call is issued) -/
def runOk (d : Dynar) : List Op → Prop
  | [] => True
  | op :: ops => opOk d op ∧ runOk (cstep d op).2 ops

/-- **All operation sequences** (any length, any arguments — including every out-of-range index, which must be refused
by an assertion): the results returned along the run are those of the list, and the final abstraction is the final
list.  Full strength since the fixes of props/C50/fix_series (it used to be `dynar_refines_list_partial`, excluding
`insertAt idx > used` and `get idx ≥ 2^31`). -/
theorem dynar_refines_list (d : Dynar) (hinv : Inv d) (ops : List Op) (hok : runOk d ops) :
    (runC d ops).1 = (runS (abs d) ops).1 ∧ abs (runC d ops).2 = (runS (abs d) ops).2 ∧ Inv (runC d ops).2 := by
  induction ops generalizing d with
  | nil => exact ⟨rfl, rfl, hinv⟩
  | cons op ops ih =>
    obtain ⟨h1, h2, h3⟩ := dynar_step_refines d hinv op hok.1
    obtain ⟨i1, i2, i3⟩ := ih (cstep d op).2 h3 hok.2
    simp only [runC, runS]
    rw [← h2]
    exact ⟨by rw [h1, i1], i2, i3⟩

/-- … in particular from a fresh dynar -/
theorem dynar_new_refines_nil : Inv Dynar.new ∧ abs Dynar.new = [] := by
  refine ⟨⟨by simp [Dynar.new], by simp [Dynar.new], ?_⟩, rfl⟩
  intro i hi; simp [Dynar.new] at hi

/-!
### Regression: the code before the fixes (`insertAtOld`, `getOld` in Dynar.lean)
These are the two classes the theorem above had to exclude (keys `dynar-insert-past-end-unchecked`,
`dynar-index-truncated-to-int`).  Each witness is stated for the old code, and the same call on the current model
is shown to be refused.
-/

/-- old `xbt_dynar_insert_at` past the end was not refused: on a fresh dynar `insert_at(1, 7)` returned normally, `used`
became 1 and cell 0 — then the only element — was never written (the specification aborts; so does the fixed code). -/
theorem dynar_insert_past_end_prefix_regression :
    (insertAtOld Dynar.new 1 7).1 = .unit ∧ (sstep [] (.insertAt 1 7)).1 = .abort ∧
    (insertAtOld Dynar.new 1 7).2.used = 1 ∧ cells (insertAtOld Dynar.new 1 7).2 = none ∧
    (cstep Dynar.new (.insertAt 1 7)).1 = .abort := by decide

/-- … and further away it wrote outside the allocation: `insert_at(3, 7)` on a fresh dynar (capacity 2) -/
theorem dynar_insert_past_end_prefix_regression_overflow :
    (insertAtOld Dynar.new 3 7).1 = .ub ∧ (sstep [] (.insertAt 3 7)).1 = .abort ∧
    (cstep Dynar.new (.insertAt 3 7)).1 = .abort := by decide

/-- the old bound check of `xbt_dynar_get_cpy` saw `(int)idx`: with one element, index 2^32 passed it and the read was
outside the allocation (the specification aborts; so does the fixed code) -/
theorem dynar_index_truncated_prefix_regression :
    (getOld (cstep Dynar.new (.push 5)).2 4294967296).1 = .ub ∧ (sstep [5] (.get 4294967296)).1 = .abort ∧
    (cstep (cstep Dynar.new (.push 5)).2 (.get 4294967296)).1 = .abort := by decide

/-! ### non-vacuity -/
instance (d : Dynar) (op : Op) : Decidable (opOk d op) := by
  cases op <;> simp only [opOk] <;> infer_instance

def decRunOk : (d : Dynar) → (ops : List Op) → Decidable (runOk d ops)
  | _, [] => isTrue trivial
  | d, op :: ops =>
    have := decRunOk (cstep d op).2 ops
    by simp only [runOk]; infer_instance

instance (d : Dynar) (ops : List Op) : Decidable (runOk d ops) := decRunOk d ops

example : runOk Dynar.new [.push 1, .unshift 2, .insertAt 1 3, .set 5 9, .removeAt 0, .pop,
    .insertAt 40 1, .get 4294967296, .get 18446744073709551615, .removeAt (-1), .insertAt (-2147483648) 0,
    .sort, .get 1, .foreach] := by
  decide
example : (runC Dynar.new [.push 1, .unshift 2, .insertAt 1 3, .set 5 9, .removeAt 0, .foreach, .pop, .get 7,
      .insertAt 5 3, .get 4294967296, .foreach]).1
    = [.unit, .unit, .unit, .unit, .val 2, .list [3, 1, 0, 0, 9], .val 9, .abort,
       .abort, .abort, .list [3, 1, 0, 0]] := by decide

/-!
Part 2: xbt_dict refines an association map, **for every hash function `h`**.  The abstract map is the relation
`Bound d k v` ("k is bound to v"); `DInv` is the representation invariant (table size a power of two, every element
sits in the cell its hash selects under the current mask, keys distinct along a chain).  `CInv` is the counter
invariant (`count` = number of stored elements, `fill` = number of non-empty cells); it is kept by set / remove /
rehash from every state (`dict_counters_*`), and with `DInv` + the refinement relation it makes `count` the size of
the specification map (`dict_count_size_of_inv`).  `dict_refines_assoc` (∀ h, ∀ histories) is the FULL statement:
get, cursor, `xbt_dict_length`/`is_empty` and `fill`; `dict_refines_assoc_partial` is its former, weaker form.
-/

/-- a fresh dict satisfies the invariant and binds nothing -/
theorem dict_new_refines (h : Key → Nat) : DInv h Dict.new ∧ ∀ k v, ¬ Bound Dict.new k v := by
  refine ⟨⟨⟨7, by decide⟩, ?_, ?_⟩, ?_⟩
  · intro i e he; simp [Dict.new] at he
  · intro i; simp [Dict.new, KeysDistinct]
  · rintro k v ⟨i, e, he, _⟩; simp [Dict.new] at he

/-- **get**: `xbt_dict_get_or_null` answers exactly the abstract map (∀ h, ∀ states) -/
theorem dict_get_refines (h : Key → Nat) (d : Dict) (hinv : DInv h d) (k : Key) (v : Int) :
    dget h d k = some v ↔ Bound d k v := dget_refines h d hinv k v

/-- **set** (insert, replace, with or without rehash): the invariant is kept and the new map is the old one
updated at `k` (∀ h, ∀ states) -/
theorem dict_set_refines (h : Key → Nat) (d : Dict) (hinv : DInv h d) (k : Key) (v : Int) :
    DInv h (dset h d k v) ∧
    ∀ k' v', Bound (dset h d k v) k' v' ↔ (if k' = k then v' = v else Bound d k' v') := by
  have hkey := hit_iff_key h d hinv k (h k &&& d.tableSize)
  have hdist := hinv.2.2 (h k &&& d.tableSize)
  obtain ⟨hp, h2, h3⟩ := hinv
  unfold dset
  simp only
  by_cases hany : (d.cell (h k &&& d.tableSize)).any (hit (h k) k) = true
  · -- replace
    simp only [hany, if_true]
    rw [replFirst_eq_map _ _ _ _ hdist hkey]
    obtain ⟨e0, he0, hh0⟩ := List.any_eq_true.mp hany
    have hk0 : e0.key = k := (hkey e0 he0).mp hh0
    refine ⟨⟨hp, ?_, ?_⟩, ?_⟩
    · intro j e he
      rw [mem_setCell] at he
      rcases he with ⟨rfl, he⟩ | ⟨_, he⟩
      · simp only [List.mem_map] at he
        obtain ⟨e1, he1, rfl⟩ := he
        have := h2 _ e1 he1
        split <;> exact this
      · exact h2 j e he
    · intro j
      by_cases hj : j = h k &&& d.tableSize
      · simp only [setCell, hj, if_true]
        unfold KeysDistinct
        rw [List.pairwise_map]
        refine hdist.imp ?_
        intro a b hab
        split <;> split <;> exact hab
      · simp only [setCell, hj, if_false]
        exact h3 j
    · intro k' v'
      constructor
      · rintro ⟨j, e, he, hk, hv⟩
        rw [mem_setCell] at he
        rcases he with ⟨rfl, he⟩ | ⟨hj, he⟩
        · simp only [List.mem_map] at he
          obtain ⟨e1, he1, rfl⟩ := he
          by_cases h1 : e1.key = k
          · simp only [h1, if_true] at hk hv
            simp [← hk, hv.symm]
          · simp only [h1, if_false] at hk hv
            have : ¬ k' = k := by rw [← hk]; exact h1
            simp only [this, if_false]
            exact ⟨_, e1, he1, hk, hv⟩
        · have hne : ¬ k' = k := by
            intro hkk
            have := (h2 j e he).2
            apply hj
            rw [← this.2, this.1, hk, hkk]
          simp only [hne, if_false]
          exact ⟨j, e, he, hk, hv⟩
      · intro hr
        by_cases hkk : k' = k
        · simp only [hkk, if_true] at hr
          subst hr; subst hkk
          refine ⟨h k' &&& d.tableSize, { e0 with val := v' }, ?_, hk0, rfl⟩
          rw [mem_setCell]
          left
          refine ⟨rfl, ?_⟩
          simp only [List.mem_map]
          exact ⟨e0, he0, by simp [hk0]⟩
        · simp only [hkk, if_false] at hr
          obtain ⟨j, e, he, hk, hv⟩ := hr
          refine ⟨j, e, ?_, hk, hv⟩
          rw [mem_setCell]
          by_cases hj : j = h k &&& d.tableSize
          · left
            subst hj
            refine ⟨rfl, ?_⟩
            simp only [List.mem_map]
            have : ¬ e.key = k := by rw [hk]; exact hkk
            exact ⟨e, he, by simp [this]⟩
          · right; exact ⟨hj, he⟩
  · -- insertion of a new element
    have hany' : (d.cell (h k &&& d.tableSize)).any (hit (h k) k) = false := by
      cases hb : (d.cell (h k &&& d.tableSize)).any (hit (h k) k) with
      | true => exact absurd hb hany
      | false => rfl
    have hnob := no_binding_of_no_hit h d ⟨hp, h2, h3⟩ k hany'
    simp only [hany', Bool.false_eq_true, if_false]
    -- what both insertion branches share: the new chain is the old one plus the new element at its end
    have key : ∀ (d' : Dict), d'.tableSize = d.tableSize →
        d'.cell = setCell d.cell (h k &&& d.tableSize) (d.cell (h k &&& d.tableSize) ++ [⟨k, h k, v⟩]) →
        DInv h d' ∧ ∀ k' v', Bound d' k' v' ↔ (if k' = k then v' = v else Bound d k' v') := by
      intro d' hts hcell
      refine ⟨⟨by rw [hts]; exact hp, ?_, ?_⟩, ?_⟩
      · intro j e he
        rw [hcell, mem_setCell] at he
        rw [hts]
        rcases he with ⟨rfl, he⟩ | ⟨_, he⟩
        · rw [List.mem_append] at he
          rcases he with he | he
          · exact h2 _ e he
          · simp only [List.mem_singleton] at he
            subst he
            exact ⟨Nat.and_le_right, rfl, rfl⟩
        · exact h2 j e he
      · intro j
        rw [hcell]
        by_cases hj : j = h k &&& d.tableSize
        · simp only [setCell, hj, if_true]
          unfold KeysDistinct
          rw [List.pairwise_append]
          refine ⟨hdist, List.pairwise_singleton _ _, ?_⟩
          intro a ha b hb
          simp only [List.mem_singleton] at hb
          subst hb
          intro hak
          have : hit (h k) k a = true := (hkey a ha).mpr hak
          have : (d.cell (h k &&& d.tableSize)).any (hit (h k) k) = true := List.any_eq_true.mpr ⟨a, ha, this⟩
          rw [hany'] at this; cases this
        · simp only [setCell, hj, if_false]
          exact h3 j
      · intro k' v'
        constructor
        · rintro ⟨j, e, he, hk, hv⟩
          rw [hcell, mem_setCell] at he
          rcases he with ⟨rfl, he⟩ | ⟨hj, he⟩
          · rw [List.mem_append] at he
            rcases he with he | he
            · have hne : ¬ k' = k := by
                intro hkk; exact hnob v' ⟨_, e, he, by rw [hk, hkk], hv⟩
              simp only [hne, if_false]
              exact ⟨_, e, he, hk, hv⟩
            · simp only [List.mem_singleton] at he
              subst he
              simp only at hk hv
              simp [← hk, hv.symm]
          · have hne : ¬ k' = k := by
              intro hkk; exact hnob v' ⟨_, e, he, by rw [hk, hkk], hv⟩
            simp only [hne, if_false]
            exact ⟨j, e, he, hk, hv⟩
        · intro hr
          by_cases hkk : k' = k
          · simp only [hkk, if_true] at hr
            subst hr; subst hkk
            refine ⟨h k' &&& d.tableSize, ⟨k', h k', v'⟩, ?_, rfl, rfl⟩
            rw [hcell, mem_setCell]
            left
            exact ⟨rfl, by simp⟩
          · simp only [hkk, if_false] at hr
            obtain ⟨j, e, he, hk, hv⟩ := hr
            refine ⟨j, e, ?_, hk, hv⟩
            rw [hcell, mem_setCell]
            by_cases hj : j = h k &&& d.tableSize
            · left; subst hj; exact ⟨rfl, by simp [he]⟩
            · right; exact ⟨hj, he⟩
    by_cases hemp : (d.cell (h k &&& d.tableSize)).isEmpty = true
    · simp only [hemp, if_true]
      have hnil : d.cell (h k &&& d.tableSize) = [] := List.isEmpty_iff.mp hemp
      have hd1 := key { d with cell := setCell d.cell (h k &&& d.tableSize) [⟨k, h k, v⟩], count := d.count + 1,
                               fill := d.fill + 1 } rfl (by simp [hnil])
      split
      · obtain ⟨hr1, hr2⟩ := rehash_refines h _ hd1.1
        exact ⟨hr1, fun k' v' => (hr2 k' v').trans (hd1.2 k' v')⟩
      · exact hd1
    · simp only [hemp, Bool.false_eq_true, if_false]
      exact key _ rfl rfl

/-- **remove**: throws exactly when the key is unbound (and then changes nothing); otherwise the invariant is kept
and exactly the binding of `k` disappears (∀ h, ∀ states) -/
theorem dict_remove_refines (h : Key → Nat) (d : Dict) (hinv : DInv h d) (k : Key) :
    (dremove h d k = none ↔ ∀ v, ¬ Bound d k v) ∧
    ∀ d', dremove h d k = some d' →
      DInv h d' ∧ ∀ k' v', Bound d' k' v' ↔ (k' ≠ k ∧ Bound d k' v') := by
  have hkey := hit_iff_key h d hinv k (h k &&& d.tableSize)
  have hdist := hinv.2.2 (h k &&& d.tableSize)
  unfold dremove
  simp only
  by_cases hany : (d.cell (h k &&& d.tableSize)).any (hit (h k) k) = true
  · simp only [hany, if_true]
    obtain ⟨e0, he0, hh0⟩ := List.any_eq_true.mp hany
    have hk0 : e0.key = k := (hkey e0 he0).mp hh0
    obtain ⟨hp, h2, h3⟩ := hinv
    refine ⟨⟨fun hn => (by cases hn), fun hn => absurd ⟨_, e0, he0, hk0, rfl⟩ (hn e0.val)⟩, ?_⟩
    intro d' hd'
    simp only [Option.some.injEq] at hd'
    subst hd'
    rw [unlinkFirst_eq_filter _ _ _ hdist hkey]
    refine ⟨⟨hp, ?_, ?_⟩, ?_⟩
    · intro j e he
      rw [mem_setCell] at he
      rcases he with ⟨rfl, he⟩ | ⟨_, he⟩
      · exact h2 _ e (List.mem_filter.mp he).1
      · exact h2 j e he
    · intro j
      by_cases hj : j = h k &&& d.tableSize
      · simp only [setCell, hj, if_true]
        exact hdist.filter _
      · simp only [setCell, hj, if_false]
        exact h3 j
    · intro k' v'
      constructor
      · rintro ⟨j, e, he, hk, hv⟩
        rw [mem_setCell] at he
        rcases he with ⟨rfl, he⟩ | ⟨hj, he⟩
        · rw [List.mem_filter] at he
          have : e.key ≠ k := by simpa using he.2
          exact ⟨by rw [← hk]; exact this, _, e, he.1, hk, hv⟩
        · refine ⟨?_, j, e, he, hk, hv⟩
          intro hkk
          have := (h2 j e he).2
          apply hj
          rw [← this.2, this.1, hk, hkk]
      · rintro ⟨hne, j, e, he, hk, hv⟩
        refine ⟨j, e, ?_, hk, hv⟩
        rw [mem_setCell]
        by_cases hj : j = h k &&& d.tableSize
        · left; subst hj
          refine ⟨rfl, List.mem_filter.mpr ⟨he, ?_⟩⟩
          have : ¬ e.key = k := by rw [hk]; exact hne
          simp [this]
        · right; exact ⟨hj, he⟩
  · have hany' : (d.cell (h k &&& d.tableSize)).any (hit (h k) k) = false := by
      cases hb : (d.cell (h k &&& d.tableSize)).any (hit (h k) k) with
      | true => exact absurd hb hany
      | false => rfl
    simp only [hany', Bool.false_eq_true, if_false]
    exact ⟨⟨fun _ => no_binding_of_no_hit h d hinv k hany', fun _ => trivial⟩, fun d' hd' => by cases hd'⟩

/-- **iteration**: the cursor visits exactly the bindings of the map, each key once (∀ h, ∀ states): `e` is yielded
iff it is stored, and two yielded entries with the same key are the same entry of the same cell. -/
theorem dict_foreach_refines (h : Key → Nat) (d : Dict) (hinv : DInv h d) :
    (∀ e, e ∈ dforeach d ↔ ∃ i, e ∈ d.cell i) ∧
    (∀ k v, (∃ e ∈ dforeach d, e.key = k ∧ e.val = v) ↔ Bound d k v) ∧
    (∀ i j a b, a ∈ d.cell i → b ∈ d.cell j → a.key = b.key → i = j ∧ a = b) := by
  have hmem : ∀ e, e ∈ dforeach d ↔ ∃ i, e ∈ d.cell i := by
    intro e
    unfold dforeach
    rw [List.mem_flatMap]
    constructor
    · rintro ⟨i, _, he⟩; exact ⟨i, he⟩
    · rintro ⟨i, he⟩
      exact ⟨i, List.mem_range.mpr (by have := (hinv.2.1 i e he).1; omega), he⟩
  refine ⟨hmem, ?_, ?_⟩
  · intro k v
    constructor
    · rintro ⟨e, he, hk, hv⟩
      obtain ⟨i, hi⟩ := (hmem e).mp he
      exact ⟨i, e, hi, hk, hv⟩
    · rintro ⟨i, e, he, hk, hv⟩
      exact ⟨e, (hmem e).mpr ⟨i, he⟩, hk, hv⟩
  · intro i j a b ha hb hk
    obtain ⟨hi, _⟩ := entry_cell h d hinv i a ha
    obtain ⟨hj, _⟩ := entry_cell h d hinv j b hb
    have hij : i = j := by rw [hi, hj, hk]
    subst hij
    exact ⟨rfl, unique_of_distinct _ (hinv.2.2 i) a b ha hb hk⟩

/-! ### all operation sequences -/

inductive DOp where
  | set (k : Key) (v : Int)
  | remove (k : Key)
  deriving Repr

/-- the implementation: a failed `remove` throws and changes nothing -/
def dstep (h : Key → Nat) (d : Dict) : DOp → Dict
  | .set k v => dset h d k v
  | .remove k => match dremove h d k with
    | some d' => d'
    | none => d

/-- the specification: a finite map as a function -/
def mstep (m : Key → Option Int) : DOp → (Key → Option Int)
  | .set k v => fun k' => if k' = k then some v else m k'
  | .remove k => fun k' => if k' = k then none else m k'

/-- the refinement relation -/
def Rel (d : Dict) (m : Key → Option Int) : Prop := ∀ k v, Bound d k v ↔ m k = some v

theorem dstep_refines (h : Key → Nat) (d : Dict) (m : Key → Option Int) (hinv : DInv h d) (hrel : Rel d m) (op : DOp) :
    DInv h (dstep h d op) ∧ Rel (dstep h d op) (mstep m op) := by
  cases op with
  | set k v =>
    obtain ⟨h1, h2⟩ := dict_set_refines h d hinv k v
    refine ⟨h1, ?_⟩
    intro k' v'
    simp only [dstep, mstep]
    rw [h2 k' v']
    by_cases hk : k' = k
    · simp only [hk, if_true, Option.some.injEq]; exact eq_comm
    · simp only [hk, if_false]; exact hrel k' v'
  | remove k =>
    obtain ⟨h1, h2⟩ := dict_remove_refines h d hinv k
    simp only [dstep, mstep]
    cases hr : dremove h d k with
    | some d' =>
      obtain ⟨i1, i2⟩ := h2 d' hr
      refine ⟨i1, ?_⟩
      intro k' v'
      simp only
      rw [i2 k' v']
      by_cases hk : k' = k
      · simp [hk]
      · simp only [hk, if_false, ne_eq, not_false_eq_true, true_and]; exact hrel k' v'
    | none =>
      refine ⟨hinv, ?_⟩
      have hn := h1.mp hr
      intro k' v'
      simp only
      by_cases hk : k' = k
      · subst hk
        simp only [if_true]
        constructor
        · intro hb; exact absurd hb (hn v')
        · intro hb; cases hb
      · simp only [hk, if_false]; exact hrel k' v'

/-! ### the counters `count` (`xbt_dict_length`, `xbt_dict_size`, `xbt_dict_is_empty`) and `fill`

`CInv d` (DictLemmas.lean): `d.count = (entries d).length` (the number of stored elements = what the cursor yields)
and `d.fill = nonEmptyCells d` (the number of `i ≤ table_size` with `table[i] != nullptr`).  It is kept by `set`,
`remove` and `rehash` **for every hash function and from every state** — it does not even need `DInv`.  The
decrements of `remove` and the `fill + fillUp - fillDown` of `rehash` are truncated (`Nat`) subtractions in the model;
the theorems show that nothing is ever truncated. -/

/-- a fresh dict: `count = 0` elements, `fill = 0` non-empty cells -/
theorem dict_counters_new : CInv Dict.new := by decide

/-- **rehash** (∀ states): `count` is unchanged and is the number of elements of the doubled table; the new
`fill = fill + fillUp - fillDown` is the number of non-empty cells of the doubled table (cells `j < oldsize` hold
what stayed, cells `oldsize ≤ j < 2·oldsize` what moved; `fillDown ≤ fill`, so the subtraction is exact) -/
theorem dict_counters_rehash (d : Dict) (hc : CInv d) :
    CInv (rehash d) ∧ (rehash d).count = d.count ∧ (entries (rehash d)).length = (entries d).length := by
  have h := rehash_cinv d hc
  exact ⟨h, rfl, by rw [← h.1, ← hc.1]; rfl⟩

/-- **set** (∀ h, ∀ states; replace / new cell with or without rehash / chain append): the counters stay exact, and
`xbt_dict_length` grows by one exactly when the key was absent -/
theorem dict_counters_set (h : Key → Nat) (d : Dict) (hc : CInv d) (k : Key) (v : Int) :
    CInv (dset h d k v) ∧
    (dset h d k v).count = (if (dget h d k).isSome then d.count else d.count + 1) :=
  ⟨dset_cinv h d hc k v, dset_count h d k v⟩

/-- **remove** (∀ h, ∀ states): the counters stay exact; the `count--` and `fill--` of the code never wrap: the
old `count` is the new one plus 1, and the old `fill` is the new one plus 1 exactly when the cell became empty -/
theorem dict_counters_remove (h : Key → Nat) (d : Dict) (hc : CInv d) (k : Key) (d' : Dict)
    (hr : dremove h d k = some d') :
    CInv d' ∧ d'.count + 1 = d.count ∧
    d'.fill + (if (d'.cell (h k &&& d.tableSize)).isEmpty then 1 else 0) = d.fill :=
  dremove_cinv h d hc k d' hr

/-- one step of a history keeps the counter invariant -/
theorem dict_counters_step (h : Key → Nat) (d : Dict) (hc : CInv d) (op : DOp) : CInv (dstep h d op) := by
  cases op with
  | set k v => exact dset_cinv h d hc k v
  | remove k =>
    simp only [dstep]
    cases hr : dremove h d k with
    | some d' => exact (dremove_cinv h d hc k d' hr).1
    | none => exact hc

/-- **`count` is the size of the abstract map** (∀ h, ∀ states satisfying the invariants, ∀ maps `m` the dict
refines): `count` = number of stored elements = length of the duplicate-free key list the cursor yields, whose members
are exactly the keys bound by `m`; hence `count` is the length of EVERY duplicate-free enumeration of the domain of
`m`, and `xbt_dict_is_empty` (`count == 0`) holds exactly when `m` binds nothing -/
theorem dict_count_size_of_inv (h : Key → Nat) (d : Dict) (m : Key → Option Int) (hinv : DInv h d) (hc : CInv d)
    (hrel : Rel d m) :
    d.count = (entries d).length ∧
    d.count = ((entries d).map (·.key)).length ∧
    ((entries d).map (·.key)).Nodup ∧
    (∀ k, k ∈ (entries d).map (·.key) ↔ (m k).isSome = true) ∧
    (∀ ks : List Key, ks.Nodup → (∀ k, k ∈ ks ↔ (m k).isSome = true) → ks.length = d.count) ∧
    (d.count = 0 ↔ ∀ k, m k = none) := by
  have hnd := entries_keys_nodup h d hinv
  have hmem : ∀ k, k ∈ (entries d).map (·.key) ↔ (m k).isSome = true := by
    intro k
    rw [mem_entries_keys h d hinv k, Option.isSome_iff_exists]
    constructor
    · rintro ⟨v, hb⟩; exact ⟨v, (hrel k v).mp hb⟩
    · rintro ⟨v, hb⟩; exact ⟨v, (hrel k v).mpr hb⟩
  have hlen : d.count = ((entries d).map (·.key)).length := by rw [List.length_map]; exact hc.1
  refine ⟨hc.1, hlen, hnd, hmem, ?_, ?_⟩
  · intro ks hks hk
    rw [hlen]
    exact length_eq_of_nodup_of_mem_iff _ _ hks hnd (fun k => by rw [hk k, hmem k])
  · constructor
    · intro h0 k
      have hnil : (entries d).map (·.key) = [] := List.eq_nil_of_length_eq_zero (by rw [← hlen]; exact h0)
      cases hm : m k with
      | none => rfl
      | some v =>
        have := (hmem k).mpr (by rw [hm]; rfl)
        rw [hnil] at this; cases this
    · intro hall
      rw [hlen]
      cases hl : (entries d).map (·.key) with
      | nil => rfl
      | cons k t =>
        have := (hmem k).mp (by rw [hl]; exact List.mem_cons_self)
        rw [hall k] at this; cases this

/-- the dict and the specification map after a history -/
abbrev runD (h : Key → Nat) (ops : List DOp) : Dict := ops.foldl (dstep h) Dict.new
abbrev runM (ops : List DOp) : Key → Option Int := ops.foldl mstep (fun _ => none)

/-- **Every sequence of `set` / `remove`, every hash function**: the three invariants hold all along — the
representation invariant, the counter invariant, and the refinement relation with the specification map -/
theorem dict_run_invariants (h : Key → Nat) (ops : List DOp) :
    DInv h (runD h ops) ∧ CInv (runD h ops) ∧ Rel (runD h ops) (runM ops) := by
  have gen : ∀ (ops : List DOp) (d : Dict) (m : Key → Option Int), DInv h d → CInv d → Rel d m →
      DInv h (ops.foldl (dstep h) d) ∧ CInv (ops.foldl (dstep h) d) ∧
        Rel (ops.foldl (dstep h) d) (ops.foldl mstep m) := by
    intro ops
    induction ops with
    | nil => intro d m hi hc hr; exact ⟨hi, hc, hr⟩
    | cons op ops ih =>
      intro d m hi hc hr
      obtain ⟨h1, h2⟩ := dstep_refines h d m hi hr op
      exact ih _ _ h1 (dict_counters_step h d hc op) h2
  obtain ⟨hnew, hnob⟩ := dict_new_refines h
  have hrel0 : Rel Dict.new (fun _ => none) := by
    intro k v
    constructor
    · intro hb; exact absurd hb (hnob k v)
    · intro hb; cases hb
  exact gen ops Dict.new _ hnew dict_counters_new hrel0

/-- **`xbt_dict_length` after every history, every hash function**: `count` is the number of stored elements, which
is the number of keys bound by the specification map (see `dict_count_size_of_inv` for the clauses) -/
theorem dict_count_is_size (h : Key → Nat) (ops : List DOp) :
    (runD h ops).count = (entries (runD h ops)).length ∧
    (runD h ops).count = ((entries (runD h ops)).map (·.key)).length ∧
    ((entries (runD h ops)).map (·.key)).Nodup ∧
    (∀ k, k ∈ (entries (runD h ops)).map (·.key) ↔ (runM ops k).isSome = true) ∧
    (∀ ks : List Key, ks.Nodup → (∀ k, k ∈ ks ↔ (runM ops k).isSome = true) → ks.length = (runD h ops).count) ∧
    ((runD h ops).count = 0 ↔ ∀ k, runM ops k = none) := by
  obtain ⟨hi, hc, hr⟩ := dict_run_invariants h ops
  exact dict_count_size_of_inv h _ _ hi hc hr

/-- **`fill` after every history, every hash function** (including the histories that rehash, any number of
times): `fill` is the number of non-empty cells of the current table, hence at most the number of cells -/
theorem dict_fill_is_nonempty_cells (h : Key → Nat) (ops : List DOp) :
    (runD h ops).fill =
      ((List.range ((runD h ops).tableSize + 1)).filter (fun i => !((runD h ops).cell i).isEmpty)).length ∧
    (runD h ops).fill ≤ (runD h ops).tableSize + 1 := by
  obtain ⟨_, hc, _⟩ := dict_run_invariants h ops
  refine ⟨hc.2, ?_⟩
  rw [hc.2, nonEmptyCells_eq]
  exact cnt_le _ _

/-- **Every sequence of `set` / `remove`, every hash function** (FULL statement): starting from a fresh dict the
invariant holds all along; afterwards `get` answers exactly what the specification map holds (and the cursor
enumerates exactly that map, `dict_foreach_refines`); `xbt_dict_length` (`count`) is the size of the specification
map: the number of stored elements, whose keys are pairwise distinct and are exactly the bound keys, so that `count`
is the length of every duplicate-free enumeration of the bound keys, and `count = 0` iff nothing is bound; and `fill`
is the number of non-empty cells of the (possibly several times doubled) table. -/
theorem dict_refines_assoc (h : Key → Nat) (ops : List DOp) :
    DInv h (runD h ops) ∧
    (∀ k, dget h (runD h ops) k = runM ops k) ∧
    (runD h ops).count = (entries (runD h ops)).length ∧
    ((entries (runD h ops)).map (·.key)).Nodup ∧
    (∀ k, k ∈ (entries (runD h ops)).map (·.key) ↔ (runM ops k).isSome = true) ∧
    (∀ ks : List Key, ks.Nodup → (∀ k, k ∈ ks ↔ (runM ops k).isSome = true) → ks.length = (runD h ops).count) ∧
    ((runD h ops).count = 0 ↔ ∀ k, runM ops k = none) ∧
    (runD h ops).fill =
      ((List.range ((runD h ops).tableSize + 1)).filter (fun i => !((runD h ops).cell i).isEmpty)).length := by
  obtain ⟨hi, hc, hr⟩ := dict_run_invariants h ops
  obtain ⟨c1, _, c3, c4, c5, c6⟩ := dict_count_size_of_inv h _ _ hi hc hr
  refine ⟨hi, ?_, c1, c3, c4, c5, c6, hc.2⟩
  intro k
  cases hm : runM ops k with
  | some v => exact (dict_get_refines h _ hi k v).mpr ((hr k v).mpr hm)
  | none =>
    cases hg : dget h (runD h ops) k with
    | none => rfl
    | some v =>
      have := (hr k v).mp ((dict_get_refines h _ hi k v).mp hg)
      rw [hm] at this; cases this

/-- the former statement (without the counters), kept under its old name: a corollary of `dict_refines_assoc` -/
theorem dict_refines_assoc_partial (h : Key → Nat) (ops : List DOp) :
    DInv h (ops.foldl (dstep h) Dict.new) ∧
    ∀ k, dget h (ops.foldl (dstep h) Dict.new) k = ops.foldl mstep (fun _ => none) k :=
  ⟨(dict_refines_assoc h ops).1, (dict_refines_assoc h ops).2.1⟩

/-! ### non-vacuity (djb2: "ab" and "bA" have the same hash code, hence the same cell) -/
example : djb2 "ab" = djb2 "bA" := by decide
example : dget djb2 ([DOp.set "ab" 1, .set "bA" 2, .set "ab" 3, .remove "bA"].foldl (dstep djb2) Dict.new) "ab" = some 3 := by
  decide
example : dremove djb2 Dict.new "zz" = none := by decide

/-! ### non-vacuity of the counter theorems -/

/-- a history with a chain of length 2 ("ab", "bA": same djb2 hash), a replace, a removal that empties a cell ("c")
and a refused removal: 2 elements left, in 1 cell -/
def hist1 : List DOp := [.set "ab" 1, .set "bA" 2, .set "c" 5, .set "ab" 3, .remove "c", .remove "zz"]
example : (runD djb2 (hist1.take 3)).count = 3 ∧ (runD djb2 (hist1.take 3)).fill = 2 ∧
    (entries (runD djb2 (hist1.take 3))).length = 3 ∧ nonEmptyCells (runD djb2 (hist1.take 3)) = 2 := by decide
example : (runD djb2 hist1).count = 2 ∧ (runD djb2 hist1).fill = 1 ∧
    (entries (runD djb2 hist1)).map (·.key) = ["ab", "bA"] ∧ nonEmptyCells (runD djb2 hist1) = 1 ∧
    ((runD djb2 hist1).cell (djb2 "ab" &&& 127)).length = 2 := by decide
/-- the duplicate-free enumeration `["bA", "ab"]` of the bound keys has length `count` -/
example : (runM hist1 "ab", runM hist1 "bA", runM hist1 "c") = (some 3, some 2, none) := by decide
/-- emptiness: a history that removes everything it inserted -/
example : (runD djb2 [.set "ab" 1, .set "bA" 2, .remove "ab", .remove "bA"]).count = 0 ∧
    (runD djb2 [.set "ab" 1, .set "bA" 2, .remove "ab", .remove "bA"]).fill = 0 := by decide

/-- a hand-made 2-cell table (mask 1) for the hash function `hSmall`: cell 0 holds a chain of two, cell 1 is empty -/
def hSmall (k : Key) : Nat := if k = "a" then 0 else if k = "b" then 2 else 3
def dSmall : Dict := ⟨1, fun i => if i = 0 then [⟨"a", 0, 1⟩, ⟨"b", 2, 2⟩] else [], 2, 1⟩
example : CInv dSmall := by decide
/-- `set "c"` fills the second cell: `fill * 100 / 2 = 100 > 80`, so the updated dict is rehashed to 4 cells:
"a" stays in cell 0, "b" moves to cell 2, "c" moves from cell 1 (emptied: fillDown = 1) to cell 3 (fillUp = 2) -/
example : (dset hSmall dSmall "c" 7).tableSize = 3 ∧ (dset hSmall dSmall "c" 7).count = 3 ∧
    (dset hSmall dSmall "c" 7).fill = 3 ∧ nonEmptyCells (dset hSmall dSmall "c" 7) = 3 ∧
    (entries (dset hSmall dSmall "c" 7)).map (·.key) = ["a", "b", "c"] ∧
    ((dset hSmall dSmall "c" 7).cell 1).isEmpty = true := by decide
/-- `rehash` directly, on a table where a cell splits in two (no cell emptied) -/
example : CInv (rehash dSmall) ∧ (rehash dSmall).fill = 2 ∧ (rehash dSmall).count = 2 ∧
    (rehash dSmall).tableSize = 3 := by decide
/-- `remove` that empties a cell / that does not -/
example : (dremove hSmall (dset hSmall dSmall "c" 7) "c").map (fun d => (d.count, d.fill)) = some (2, 2) := by decide
example : (dremove hSmall dSmall "a").map (fun d => (d.count, d.fill)) = some (1, 1) := by decide
/-- the hypotheses of `dict_count_size_of_inv` are satisfiable (also by every reachable state: `dict_run_invariants`) -/
example : DInv djb2 Dict.new ∧ CInv Dict.new ∧ Rel Dict.new (fun _ => none) :=
  dict_run_invariants djb2 []

end SgVerif.C50
