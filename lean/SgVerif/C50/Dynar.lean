/-
C50 — executable model of src/xbt/dynar.cpp + the inline cursor of include/xbt/dynar.h, with the implementation's
bookkeeping (`size` = allocated cells, `used`, expansion policy, `memmove` index arithmetic, the `int` conversions of
the `int idx` entry points), and the abstract specification (a `List`).  Core-only.

The model follows the code after the two fixes of props/C50/fix_series (bound checks on the `unsigned long` index;
`_check_sloppy_inbound_idx` in `xbt_dynar_insert_at_ptr`).  The code before these fixes is kept at the end of this file
(`inboundOld`, `insertAtOld`, `getOld`) for the regression theorems of Props.lean.

Memory is a map cell-index → content; `none` = never written (what `realloc` returns is indeterminate).  An access
at an index ≥ `size` is outside the allocation: result `ub` (heap overflow; AddressSanitizer reports it, a plain
build corrupts memory silently).
-/
namespace SgVerif.C50

abbrev Elem := Int

structure Dynar where
  size : Nat
  used : Nat
  mem : Nat → Option Elem

/-- `xbt_dynar_new(sizeof(int), nullptr)`: size 0, used 0, data nullptr -/
def Dynar.new : Dynar := ⟨0, 0, fun _ => none⟩

inductive Op where
  | push (x : Elem)                     -- xbt_dynar_push / push_ptr + store
  | pop                                 -- xbt_dynar_pop
  | popPtr                              -- xbt_dynar_pop_ptr (xbt_dynar_pop_as)
  | unshift (x : Elem)
  | shift
  | insertAt (idx : Int) (x : Elem)     -- `int idx`
  | removeAt (idx : Int)                -- `int idx`
  | get (idx : Nat)                     -- xbt_dynar_get_cpy / get_ptr: `unsigned long idx`
  | set (idx : Nat) (x : Elem)          -- xbt_dynar_set_as = *(T*)xbt_dynar_set_at_ptr(d, idx) = x
  | length
  | isEmpty
  | reset
  | member (x : Elem)
  | sort                                -- with the integer comparison function
  | foreach                             -- xbt_dynar_foreach collecting the elements
  deriving Repr, DecidableEq

inductive Res where
  | unit
  | val (v : Elem)
  | bool (b : Bool)
  | nat (n : Nat)
  | list (l : List Elem)
  | abort                               -- an `xbt_assert` fired
  | ub                                  -- access outside the allocation / read of indeterminate memory
  deriving Repr, DecidableEq

/-- C conversion `unsigned long → int` (what passing `dynar->used` / `dynar->used - 1` to the `int idx` parameter of
`xbt_dynar_insert_at_ptr` / `xbt_dynar_remove_at` does) -/
def toI32 (n : Nat) : Int :=
  let m := n % 4294967296
  if m < 2147483648 then (m : Int) else (m : Int) - 4294967296

/-- `_xbt_dynar_expand(dynar, nb)`: `if (nb > old_size) resize(max(nb, 2*(old_size+1)))` -/
def expand (d : Dynar) (nb : Nat) : Dynar :=
  if nb > d.size then
    let e := 2 * (d.size + 1)
    { d with size := if nb > e then nb else e }
  else d

/-- `memmove(elm(dst), elm(src), n * elmsize)` on the cell map -/
def memmove (mem : Nat → Option Elem) (dst src n : Nat) : Nat → Option Elem :=
  fun j => if dst ≤ j ∧ j < dst + n then mem (src + (j - dst)) else mem j

def store (mem : Nat → Option Elem) (i : Nat) (v : Option Elem) : Nat → Option Elem :=
  fun j => if j = i then v else mem j

/-- `_check_inbound_idx(dynar, idx)` with `unsigned long idx`: `idx < dynar->used` -/
def inbound (d : Dynar) (idx : Nat) : Bool := decide (idx < d.used)

/-- `xbt_dynar_insert_at_ptr(dynar, idx)` then the store through the returned pointer -/
def insertAt (d : Dynar) (idx : Int) (x : Elem) : Res × Dynar :=
  if idx < 0 then (.abort, d)                                   -- _sanity_check_idx
  else if idx.toNat > d.used then (.abort, d)                   -- _check_sloppy_inbound_idx: idx <= dynar->used
  else
    let i := idx.toNat
    let oldUsed := d.used
    let newUsed := oldUsed + 1
    let d1 := expand d newUsed
    -- if (long nb_shift = old_used - idx; nb_shift > 0) memmove(elm(idx+1), elm(idx), nb_shift)
    let mem1 := if i < oldUsed then memmove d1.mem (i + 1) i (oldUsed - i) else d1.mem
    -- dynar->used = new_used; res = elm(idx); *res = x
    if i < d1.size then (.unit, { d1 with used := newUsed, mem := store mem1 i (some x) })
    else (.ub, { d1 with used := newUsed, mem := mem1 })

/-- `xbt_dynar_remove_at(dynar, idx, &dst)` -/
def removeAt (d : Dynar) (idx : Int) : Res × Dynar :=
  if idx < 0 then (.abort, d)                                   -- _sanity_check_idx
  else if !inbound d idx.toNat then (.abort, d)                 -- _check_inbound_idx (idx converted to unsigned long)
  else
    let i := idx.toNat
    match d.mem i with
    | none => (.ub, d)
    | some v =>
      -- if (unsigned long nb_shift = used - 1 - idx; nb_shift > 0) memmove(elm(idx), elm(idx+1), nb_shift)
      let nb := d.used - 1 - i
      let mem1 := if nb > 0 then memmove d.mem i (i + 1) nb else d.mem
      (.val v, { d with used := d.used - 1, mem := mem1 })

/-- `xbt_dynar_set_at_ptr(dynar, idx)` then the store -/
def setAt (d : Dynar) (idx : Nat) (x : Elem) : Res × Dynar :=
  if idx ≥ d.used then
    let d1 := expand d (idx + 1)
    -- if (idx > used) memset(elm(used), 0, (idx - used) * elmsize)
    let mem1 : Nat → Option Elem := fun j => if d.used ≤ j ∧ j < idx then some 0 else d1.mem j
    (.unit, { d1 with used := idx + 1, mem := store mem1 idx (some x) })
  else (.unit, { d with mem := store d.mem idx (some x) })

/-- abstraction function: the first `used` cells -/
def abs (d : Dynar) : List Elem := (List.range d.used).map (fun i => (d.mem i).getD 0)

/-- cells `0 … used-1` (`none` if one of them is indeterminate) -/
def cells (d : Dynar) : Option (List Elem) :=
  if (List.range d.used).all (fun i => (d.mem i).isSome) then some (abs d) else none

def intLe (a b : Elem) : Bool := decide (a ≤ b)

/-- one public call.  Returns the observable result and the new state. -/
def cstep (d : Dynar) : Op → Res × Dynar
  | .push x => insertAt d (toI32 d.used) x                       -- insert_at_ptr(dynar, dynar->used) (`int idx`)
  | .unshift x => insertAt d 0 x
  | .insertAt idx x => insertAt d idx x
  | .pop => removeAt d (toI32 (d.used + 18446744073709551615))   -- remove_at(dynar, used - 1 (unsigned long), dst)
  | .shift => removeAt d 0
  | .removeAt idx => removeAt d idx
  | .popPtr =>
    if d.used = 0 then (.abort, d)                               -- _check_populated_dynar
    else match d.mem (d.used - 1) with
      | none => (.ub, { d with used := d.used - 1 })
      | some v => (.val v, { d with used := d.used - 1 })
  | .get idx =>
    if !inbound d idx then (.abort, d)                           -- _check_inbound_idx on the unsigned long idx
    else if idx ≥ d.size then (.ub, d)
    else match d.mem idx with
      | none => (.ub, d)
      | some v => (.val v, d)
  | .set idx x => setAt d idx x
  | .length => (.nat d.used, d)
  | .isEmpty => (.bool (d.used == 0), d)
  | .reset => (.unit, { d with used := 0 })
  | .member x =>
    match cells d with
    | none => (.ub, d)
    | some l => (.bool (l.contains x), d)
  | .sort =>
    -- if (dynar->data != nullptr) qsort(data, used, elmsize, cmp)      (data == nullptr iff nothing was ever allocated)
    if d.size = 0 then (.unit, d)
    else match cells d with
      | none => (.ub, d)
      | some l =>
        let s := l.mergeSort intLe
        (.unit, { d with mem := fun j => if h : j < s.length then some s[j] else d.mem j })
  | .foreach =>
    match cells d with
    | none => (.ub, d)
    | some l => (.list l, d)

/-! ## the specification: a list -/

/-- the abstract growable array; bounds violations must be refused (`abort`) -/
def sstep (l : List Elem) : Op → Res × List Elem
  | .push x => (.unit, l ++ [x])
  | .unshift x => (.unit, x :: l)
  | .insertAt idx x =>
    if idx < 0 ∨ idx > l.length then (.abort, l) else (.unit, l.insertIdx idx.toNat x)
  | .pop =>
    match l.getLast? with
    | none => (.abort, l)
    | some v => (.val v, l.dropLast)
  | .popPtr =>
    match l.getLast? with
    | none => (.abort, l)
    | some v => (.val v, l.dropLast)
  | .shift =>
    match l with
    | [] => (.abort, l)
    | v :: t => (.val v, t)
  | .removeAt idx =>
    if idx < 0 then (.abort, l)
    else match l[idx.toNat]? with
      | none => (.abort, l)
      | some v => (.val v, l.eraseIdx idx.toNat)
  | .get idx =>
    match l[idx]? with
    | none => (.abort, l)
    | some v => (.val v, l)
  | .set idx x =>
    if idx < l.length then (.unit, l.set idx x)
    else (.unit, l ++ List.replicate (idx - l.length) 0 ++ [x])      -- documented: the gap is zero-filled
  | .length => (.nat l.length, l)
  | .isEmpty => (.bool l.isEmpty, l)
  | .reset => (.unit, [])
  | .member x => (.bool (l.contains x), l)
  | .sort => (.unit, l.mergeSort intLe)
  | .foreach => (.list l, l)

/-- representation invariant -/
def Inv (d : Dynar) : Prop :=
  d.used ≤ d.size ∧ d.used < 2147483648 ∧ ∀ i, i < d.used → (d.mem i).isSome = true

/-- the only restriction of the refinement theorem: the dynar stays shorter than 2^31 elements (positions are `int` in
`insert_at`/`remove_at`, and `push`/`pop` go through them).  No restriction on the indices that are passed. -/
def opOk (d : Dynar) : Op → Prop
  | .push _ => d.used + 1 < 2147483648
  | .unshift _ => d.used + 1 < 2147483648
  | .insertAt _ _ => d.used + 1 < 2147483648
  | .set idx _ => idx + 1 < 2147483648
  | _ => True

def runC (d : Dynar) : List Op → List Res × Dynar
  | [] => ([], d)
  | op :: ops =>
    let (r, d1) := cstep d op
    let (rs, d2) := runC d1 ops
    (r :: rs, d2)

def runS (l : List Elem) : List Op → List Res × List Elem
  | [] => ([], l)
  | op :: ops =>
    let (r, l1) := sstep l op
    let (rs, l2) := runS l1 ops
    (r :: rs, l2)

/-! ## the code before the fixes (regression witnesses only; nothing else uses these) -/

/-- old `_check_inbound_idx(dynar, int idx)`: `idx >= 0 && idx < static_cast<int>(dynar->used)` -/
def inboundOld (d : Dynar) (idx : Int) : Bool := decide (0 ≤ idx) && decide (idx < toI32 d.used)

/-- old `xbt_dynar_insert_at_ptr`: `_sanity_check_idx` only, no check that idx <= old_used -/
def insertAtOld (d : Dynar) (idx : Int) (x : Elem) : Res × Dynar :=
  if idx < 0 then (.abort, d)
  else
    let i := idx.toNat
    let oldUsed := d.used
    let newUsed := oldUsed + 1
    let d1 := expand d newUsed
    let mem1 := if i < oldUsed then memmove d1.mem (i + 1) i (oldUsed - i) else d1.mem
    if i < d1.size then (.unit, { d1 with used := newUsed, mem := store mem1 i (some x) })
    else (.ub, { d1 with used := newUsed, mem := mem1 })

/-- old `xbt_dynar_get_cpy(dynar, unsigned long idx, dst)`: the check saw `(int)idx`, the access used `idx` -/
def getOld (d : Dynar) (idx : Nat) : Res × Dynar :=
  if !inboundOld d (toI32 idx) then (.abort, d)
  else if idx ≥ d.size then (.ub, d)
  else match d.mem idx with
    | none => (.ub, d)
    | some v => (.val v, d)

end SgVerif.C50
