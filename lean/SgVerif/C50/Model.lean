import SgVerif.C50.Dynar
import SgVerif.C50.Dict
/-
C50 — the executable models: `Dynar.lean` (xbt_dynar, with the list specification) and `Dict.lean` (xbt_dict, with
the association-map specification).  This module only gathers them for the driver.
-/
namespace SgVerif.C50

/-- djb2 (`XBT_DJB2_HASH_FUNCTION` in include/xbt/str.h): `hash = hash * 33 + c` on `unsigned int`, from 5381 -/
def djb2 (k : Key) : Nat := k.toList.foldl (fun hsh c => (hsh * 33 + c.toNat) % 4294967296) 5381

end SgVerif.C50
