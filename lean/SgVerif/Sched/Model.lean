/-
Sched — ONE SCHEDULING ROUND of the maestro loop (shared by C01 and C02), abstract in the actor code.

C++ mirrored (src/kernel/EngineImpl.cpp, `EngineImpl::run`):

    while (not actors_to_run_.empty()) {
      run_all_actors();                       // context_factory->run_all(actors_to_run_): serial or Parmap / threads;
                                              // then actors_to_run_.swap(actors_that_ran_); actors_to_run_.clear();
      for (auto const& actor : actors_that_ran_)
        if (actor->simcall_.call_ != Simcall::Type::NONE)
          actor->simcall_handle(0);           // sequentially, in the order of the list
      handle_ended_actions();
      if (actor_list_.size() == daemons_.size())
        for (auto const& dmon : daemons_)     // std::set<ActorImpl*, ActorPidLess> (std::set<ActorImpl*> before 7f02bcf969)
          maestro_->kill(dmon);
    }
    ... solve(next_time) ... timers ... handle_ended_actions()

and `ActorImpl::kill / exit / cleanup_from_self` (src/kernel/actor/ActorImpl.cpp): a dying actor cancels its
`activities_` (a `std::set<ActivityImplPtr>`: iterated in ADDRESS order) one by one.

THE ABSTRACTION.  An actor's code between two simcalls (a *slice*) is a function of the actor's OWN local state and of
the answer to its previous simcall; it yields a new local state and ONE pending simcall.  Everything below that is not
modelled: the context-switch assembly (raw/boost), thread parking/semaphores, the Parmap protocol (C49), user code that
shares unsynchronised memory.  ONE exception to "a slice touches only local state" exists in the code and is modelled
(`Cfg.cleanupInSlice`): the cancel loop of `cleanup_from_self`, which the dying actor's own context runs under
`destruction_mutex`.

Where the real containers are ordered by ADDRESS the model takes an address map `α` as a parameter (`Addr`) and sorts
by it; `Cfg` says which of the two sites do so (code before the daemons fix / today / with proposed_fix.diff).
No Mathlib; everything is structurally recursive so that `decide` evaluates concrete instances.
-/
namespace SgVerif.Sched

abbrev Aid := Nat
/-- activity identifier (creation rank) -/
abbrev Vid := Nat

/-- function update -/
def upd {β : Type} (f : Nat → β) (a : Nat) (v : β) : Nat → β := fun x => if x = a then v else f x

/-- the program + kernel, abstractly -/
structure Sys where
  L : Type
  K : Type
  Req : Type
  Ans : Type
  /-- code of actor `a` between two simcalls: (own local state, answer of the last simcall) ↦ (local state, next simcall) -/
  slice : Aid → L → Ans → L × Req
  /-- the final request of an actor whose code returned (`cleanup_from_self`) -/
  isExit : Req → Bool
  /-- `simcall_handle`: new kernel state and the actors it unblocks, in the order of `add_actor_to_run_list_no_check` -/
  handle : Aid → Req → K → K × List (Aid × Ans)
  /-- `handle_ended_actions` (failed, then done actions of every model, in list order) -/
  ended : K → K × List (Aid × Ans)
  /-- `actor_list_.size() == daemons_.size()` -/
  onlyDaemons : K → Bool
  /-- the daemons, in pid order -/
  daemons : K → List Aid
  /-- `actor->wannadie()` -/
  dying : K → Aid → Bool
  /-- `ActorImpl::activities_` of an actor, in creation order -/
  acts : K → Aid → List Vid
  /-- `activity->cancel()` and what it triggers (the peers it wakes, in order) -/
  cancel : Vid → K → K × List (Aid × Ans)
  /-- end of `ActorImpl::exit` / `cleanup_from_self`: `set_wannadie`, exception stored -/
  markDead : Aid → K → K
  /-- answer with which a killed actor is resumed (ForcefulKillException) -/
  killedAns : Ans
  /-- `solve` + timers: next date and the actors woken at it; `none` = nothing left -/
  advance : K → Option (K × List (Aid × Ans))

/-- state of the simulation between two steps of maestro -/
structure St (S : Sys) where
  loc : Aid → S.L
  ans : Aid → S.Ans
  pend : Aid → Option S.Req
  k : S.K
  toRun : List Aid

/-- address maps: where actors and activities live -/
structure Addr where
  actor : Aid → Nat
  act : Vid → Nat

/-- which containers are ordered by address -/
structure Cfg where
  daemonsByAddr : Bool      -- `std::set<ActorImpl*> daemons_`       (before fix 7f02bcf969)
  activitiesByAddr : Bool   -- `std::set<ActivityImplPtr> activities_` (today)
  cleanupInSlice : Bool     -- the cancel loop of `cleanup_from_self` runs in the dying actor's own context, i.e. in the
                            -- order in which the factory / the worker threads execute the slices (today)

def Cfg.preFix : Cfg := ⟨true, true, true⟩
def Cfg.current : Cfg := ⟨false, true, true⟩
/-- with props/C01/proposed_fix.diff (creation order) and props/C02/proposed_fix.diff (cancel loop run by maestro) -/
def Cfg.repaired : Cfg := ⟨false, false, false⟩

/-- insertion of `x` into a list sorted by `key` (stable) -/
def insertBy (key : Nat → Nat) (x : Nat) : List Nat → List Nat
  | [] => [x]
  | y :: ys => if key x < key y then x :: y :: ys else y :: insertBy key x ys

/-- iteration order of a `std::set<T*>` whose elements live at `key` -/
def sortBy (key : Nat → Nat) : List Nat → List Nat
  | [] => []
  | x :: xs => insertBy key x (sortBy key xs)

variable {S : Sys}

/-- one slice: `context->resume()` ... `ActorImpl::yield()` of actor `a` -/
def runSlice (s : St S) (a : Aid) : St S :=
  let r := S.slice a (s.loc a) (s.ans a)
  { s with loc := upd s.loc a r.1, pend := upd s.pend a (some r.2) }

/-- `run_all(actors_to_run_)` when the slices execute in the order `π` -/
def afterSlices (s : St S) (π : List Aid) : St S := π.foldl runSlice s

/-- `simcall_answer` of each unblocked actor: store the answer, `actors_to_run_.push_back` -/
def wake (s : St S) (ws : List (Aid × S.Ans)) : St S :=
  ws.foldl (fun s w => { s with ans := upd s.ans w.1 w.2, toRun := s.toRun ++ [w.1] }) s

def cancelOne (s : St S) (v : Vid) : St S :=
  let r := S.cancel v s.k
  wake { s with k := r.1 } r.2

/-- cancellation of a list of activities, in the given order -/
def cancelAll (s : St S) (vs : List Vid) : St S := vs.foldl cancelOne s

/-- the order in which `activities_` is traversed -/
def actOrder (c : Cfg) (α : Addr) (vs : List Vid) : List Vid :=
  if c.activitiesByAddr then sortBy α.act vs else vs

/-- `while (not activities_.empty()) activities_.begin()->get()->cancel();` then wannadie -/
def cleanup (c : Cfg) (α : Addr) (s : St S) (a : Aid) : St S :=
  let s1 := cancelAll s (actOrder c α (S.acts s.k a))
  { s1 with k := S.markDead a s1.k }

/-- `ActorImpl::kill(actor)` by maestro or by another actor's simcall -/
def killActor (c : Cfg) (α : Addr) (s : St S) (a : Aid) : St S :=
  if S.dying s.k a then s else
  let s1 := cleanup c α s a
  let s2 := { s1 with ans := upd s1.ans a S.killedAns }
  if a ∈ s2.toRun then s2 else { s2 with toRun := s2.toRun ++ [a] }     -- add_actor_to_run_list (with the membership test)

/-- handling of the simcall of one actor of `actors_that_ran_` -/
def handleOne (c : Cfg) (α : Addr) (s : St S) (a : Aid) : St S :=
  match s.pend a with
  | none => s                                         -- call_ == NONE
  | some r =>
    if S.dying s.k a then s else                      -- `if (wannadie()) return;` in simcall_handle: never answered
    let s0 := { s with pend := upd s.pend a none }
    if S.isExit r then cleanup c α s0 a
    else
      let h := S.handle a r s0.k
      wake { s0 with k := h.1 } h.2

def daemonOrder (c : Cfg) (α : Addr) (ds : List Aid) : List Aid :=
  if c.daemonsByAddr then sortBy α.actor ds else ds

/-- the part of a sub-round that maestro executes alone, `ran` = `actors_that_ran_` -/
def maestroPhase (c : Cfg) (α : Addr) (s : St S) (ran : List Aid) : St S :=
  let s1 := ran.foldl (handleOne c α) s
  let e := S.ended s1.k
  let s2 := wake { s1 with k := e.1 } e.2
  if S.onlyDaemons s2.k then (daemonOrder c α (S.daemons s2.k)).foldl (killActor c α) s2 else s2

/-- `Context::stop()` → `cleanup_from_self()` of an actor whose code returned, executed by that actor's context at the
    end of its slice (under `destruction_mutex`, so atomically, but in the order the threads get there) -/
def selfCleanupOne (c : Cfg) (α : Addr) (s : St S) (a : Aid) : St S :=
  match s.pend a with
  | none => s
  | some r =>
    if S.isExit r && !S.dying s.k a then cleanup c α { s with pend := upd s.pend a none } a else s

/-- the slices touch no kernel state, so the cancel loops of the actors that end in this sub-round, although interleaved
    with the other slices, have the effect of being executed one after the other in the order `π` of the slices -/
def selfCleanups (c : Cfg) (α : Addr) (s : St S) (π : List Aid) : St S := π.foldl (selfCleanupOne c α) s

/-- one sub-round, the slices being executed in the order `π` (any permutation of `actors_to_run_`) -/
def subroundWith (c : Cfg) (α : Addr) (π : List Aid) (s : St S) : St S :=
  let ran := s.toRun                                       -- swap + clear
  let s1 := afterSlices { s with toRun := [] } π
  let s2 := if c.cleanupInSlice then selfCleanups c α s1 π else s1
  maestroPhase c α s2 ran

/-- the sub-round as the serial factories run it (list order) -/
def subround (c : Cfg) (α : Addr) (s : St S) : St S := subroundWith c α s.toRun s

/-- a scheduling policy: the order in which the context factory / the worker threads execute the slices of sub-round
    number `n`.  It is only required to be a permutation of the run list. -/
abbrev Policy := Nat → List Aid → List Aid

/-- `fuel` steps of `EngineImpl::run`: a sub-round while somebody is runnable, else the next date -/
def runWith (c : Cfg) (α : Addr) (p : Policy) : Nat → St S → St S
  | 0, s => s
  | n + 1, s =>
    match s.toRun with
    | [] =>
      match S.advance s.k with
      | none => s
      | some r => runWith c α p n (wake { s with k := r.1 } r.2)
    | _ :: _ => runWith c α p n (subroundWith c α (p n s.toRun) s)

/-- the serial execution: slices in list order -/
def run (c : Cfg) (α : Addr) (fuel : Nat) (s : St S) : St S := runWith c α (fun _ l => l) fuel s

/-- the sequence of simcalls maestro answers in a sub-round: those pending, in `ran` order -/
def answered (s : St S) (ran : List Aid) : List (Aid × S.Req) :=
  ran.filterMap fun a => (s.pend a).map fun r => (a, r)

end SgVerif.Sched
