import SgVerif.Sched.Model
/-! Helper lemmas for the round model: permutation-invariance of folds, slices commute, sorting is a permutation. -/
namespace SgVerif.Sched

/-- a left fold with a right-commutative step does not depend on the order of the list -/
theorem foldl_perm {σ β : Type} (f : σ → β → σ) (hc : ∀ s a b, f (f s a) b = f (f s b) a)
    {l1 l2 : List β} (p : l1.Perm l2) : ∀ s, l1.foldl f s = l2.foldl f s := by
  induction p with
  | nil => intro s; rfl
  | cons x _ ih => intro s; simp only [List.foldl_cons]; exact ih _
  | swap x y l => intro s; simp only [List.foldl_cons]; rw [hc]
  | trans _ _ ih1 ih2 => intro s; rw [ih1, ih2]

theorem upd_same {β : Type} (f : Nat → β) (a : Nat) (v : β) : upd f a v a = v := by simp [upd]
theorem upd_other {β : Type} (f : Nat → β) (a b : Nat) (v : β) (h : b ≠ a) : upd f a v b = f b := by simp [upd, h]

theorem upd_comm {β : Type} (f : Nat → β) (a b : Nat) (v w : β) (h : a ≠ b) :
    upd (upd f a v) b w = upd (upd f b w) a v := by
  funext x
  simp only [upd]
  by_cases hb : x = b
  · subst hb
    have : ¬ x = a := fun e => h e.symm
    simp [this]
  · simp [hb]

variable {S : Sys}

/-- the slices of two actors commute: each touches only its own local state and its own pending-simcall slot -/
theorem runSlice_comm (s : St S) (a b : Aid) : runSlice (runSlice s a) b = runSlice (runSlice s b) a := by
  by_cases h : a = b
  · subst h; rfl
  · have h' : b ≠ a := fun e => h e.symm
    simp only [runSlice, upd_other _ _ _ _ h, upd_other _ _ _ _ h']
    rw [upd_comm _ _ _ _ _ h, upd_comm _ _ _ _ _ h]

theorem afterSlices_perm (s : St S) {π ρ : List Aid} (p : π.Perm ρ) : afterSlices s π = afterSlices s ρ :=
  foldl_perm runSlice runSlice_comm p s

theorem afterSlices_append (s : St S) (π ρ : List Aid) : afterSlices s (π ++ ρ) = afterSlices (afterSlices s π) ρ := by
  simp [afterSlices, List.foldl_append]

/-- maestro's fields are untouched by the slices -/
theorem afterSlices_k (s : St S) (π : List Aid) : (afterSlices s π).k = s.k ∧ (afterSlices s π).toRun = s.toRun
    ∧ (afterSlices s π).ans = s.ans := by
  induction π generalizing s with
  | nil => exact ⟨rfl, rfl, rfl⟩
  | cons a t ih =>
    have := ih (runSlice s a)
    simpa [afterSlices, runSlice] using this

/-- the slices of the other actors leave an actor's own slots alone -/
theorem afterSlices_notin (s : St S) (π : List Aid) (a : Aid) (h : a ∉ π) :
    (afterSlices s π).pend a = s.pend a ∧ (afterSlices s π).loc a = s.loc a := by
  induction π generalizing s with
  | nil => exact ⟨rfl, rfl⟩
  | cons b t ih =>
    have hb : a ≠ b := fun e => h (e ▸ List.mem_cons_self)
    have ht : a ∉ t := fun e => h (List.mem_cons_of_mem _ e)
    have := ih (runSlice s b) ht
    simp only [afterSlices, List.foldl_cons] at this ⊢
    rw [this.1, this.2]
    simp [runSlice, upd_other _ _ _ _ hb]

/-- after the slices, every actor of the run list has posted exactly the simcall its own code computes from its own
    state — whatever ran first -/
theorem afterSlices_pend (s : St S) (π : List Aid) (hn : π.Nodup) (a : Aid) (ha : a ∈ π) :
    (afterSlices s π).pend a = some (S.slice a (s.loc a) (s.ans a)).2 := by
  induction π generalizing s with
  | nil => cases ha
  | cons b t ih =>
    have hbt : b ∉ t := (List.nodup_cons.mp hn).1
    have hnt : t.Nodup := (List.nodup_cons.mp hn).2
    simp only [afterSlices, List.foldl_cons]
    by_cases hab : a = b
    · subst hab
      have := (afterSlices_notin (runSlice s a) t a hbt).1
      simp only [afterSlices] at this
      rw [this]; simp [runSlice, upd_same]
    · have hat : a ∈ t := by
        cases ha with
        | head => exact absurd rfl hab
        | tail _ h => exact h
      have := ih (runSlice s b) hnt hat
      simp only [afterSlices] at this
      rw [this]; simp [runSlice, upd_other _ _ _ _ hab]

theorem filterMap_all_some {α β : Type} (f : α → Option β) (g : α → β) (l : List α)
    (h : ∀ a ∈ l, f a = some (g a)) : l.filterMap f = l.map g := by
  induction l with
  | nil => rfl
  | cons x xs ih =>
    simp only [List.filterMap_cons, h x List.mem_cons_self, List.map_cons]
    rw [ih (fun a ha => h a (List.mem_cons_of_mem _ ha))]

theorem insertBy_perm (key : Nat → Nat) (x : Nat) (l : List Nat) : (insertBy key x l).Perm (x :: l) := by
  induction l with
  | nil => exact List.Perm.refl _
  | cons y ys ih =>
    simp only [insertBy]
    split
    · exact List.Perm.refl _
    · exact (List.Perm.cons y ih).trans (List.Perm.swap x y ys)

/-- whatever the addresses, a `std::set<T*>` iterates over a permutation of its elements -/
theorem sortBy_perm (key : Nat → Nat) (l : List Nat) : (sortBy key l).Perm l := by
  induction l with
  | nil => exact List.Perm.refl _
  | cons x xs ih => exact (insertBy_perm key x (sortBy key xs)).trans (List.Perm.cons x ih)

theorem sortBy_perm2 (k1 k2 : Nat → Nat) (l : List Nat) : (sortBy k1 l).Perm (sortBy k2 l) :=
  (sortBy_perm k1 l).trans (sortBy_perm k2 l).symm

end SgVerif.Sched
