import SgVerif.Sched.Model
/-! A small concrete instance of `Sys`, used for the non-vacuity examples and the counterexamples of C01/C02.

Actors 0, 1, 2 …; local state = the actor's own log; kernel state = (global log of what maestro did, dead actors).
Actor 0 owns the activities 10 and 11, on which actors 1 and 2 are blocked; actor 4 owns activity 12 (actor 3 blocked);
actors 5 and 6 are daemons. -/
namespace SgVerif.Sched.Demo
open SgVerif.Sched

structure K where
  log : List Nat        -- what maestro did, in order (requests handled: 100+a, cancels: v, kills: 200+a)
  dead : List Nat
  daemonsOnly : Bool
  deriving DecidableEq, Repr

@[reducible] def sys : Sys where
  L := List Nat
  K := K
  Req := Nat
  Ans := Nat
  slice := fun a l x => (x :: l, if a = 0 ∨ a = 4 then 0 else a + x)  -- the next request of actors 0 and 4 is `exit` (0)
  isExit := fun r => r == 0
  handle := fun a r k => ({ k with log := k.log ++ [100 + a] }, [(a, r)])   -- answered at once, rescheduled
  ended := fun k => (k, [])
  onlyDaemons := fun k => k.daemonsOnly
  daemons := fun _ => [5, 6]
  dying := fun k a => a ∈ k.dead
  acts := fun _ a => if a = 0 then [10, 11] else if a = 4 then [12] else []
  cancel := fun v k => ({ k with log := k.log ++ [v] }, [(v - 9, 7)])      -- cancelling 10 wakes actor 1, 11 wakes actor 2
  markDead := fun a k => { k with dead := k.dead ++ [a], log := k.log ++ [200 + a] }
  killedAns := 99
  advance := fun _ => none

def st0 (daemonsOnly : Bool) (toRun : List Nat) : St sys :=
  { loc := fun _ => [], ans := fun _ => 1, pend := fun _ => none, k := ⟨[], [], daemonsOnly⟩, toRun := toRun }

/-- two layouts: identity, and one that reverses the order of any two objects -/
def layoutA : Addr := ⟨fun a => a, fun v => v⟩
def layoutB : Addr := ⟨fun a => 1000 - a, fun v => 1000 - v⟩

end SgVerif.Sched.Demo
