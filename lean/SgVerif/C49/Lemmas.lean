import SgVerif.C49.Model
/- C49 — the invariant of the Parmap protocol and its preservation by every micro-step. -/
namespace SgVerif.C49

def callIdxW : WPc → Option Nat
  | .call _ _ i => some i
  | _ => none

def callIdxM : MPc → Option Nat
  | .call i => some i
  | _ => none

/-- the index thread `k` is about to process (it is at the `worker_fun(data[i])` program point), if any -/
def callAt (s : State) : Nat → Option Nat
  | 0 => callIdxM s.m
  | k + 1 => (s.ws[k]?).bind callIdxW

/-- the controller is outside the parallel section (before `work_round` is incremented / after `master_wait` returned) -/
def phaseA : MPc → Bool
  | .idle | .setIdx | .sigStore | .sigInc => true
  | _ => false

/-- what a worker can be doing while the controller is in round `wr` on data of length `len` -/
def wOK (wr len : Nat) : WPc → Bool
  | .wait r => r == wr || r == wr + 1
  | .fetch r L => r == wr && L == len
  | .call r L _ => r == wr && L == len
  | .signal r => r == wr

/-- the worker has done `worker_signal` of round `wr` -/
def finished (wr : Nat) : WPc → Bool
  | .wait r => r == wr + 1
  | _ => false

structure Inv (s : State) : Prop where
  le1 : ∀ j, s.cnt j ≤ 1
  pa : phaseA s.m = true → ∀ w ∈ s.ws, w = .wait (s.wr + 1)
  pcnt : (s.m = .setIdx ∨ s.m = .sigStore ∨ s.m = .sigInc) → ∀ j, s.cnt j = 0
  pci : (s.m = .sigStore ∨ s.m = .sigInc) → s.ci = 0
  ptc : s.m = .sigInc → s.tc = 1
  pb : phaseA s.m = false → ∀ w ∈ s.ws, wOK s.wr s.len w = true
  btc : phaseA s.m = false → s.tc = 1 + s.ws.countP (finished s.wr)
  ca : ∀ k i, callAt s k = some i → i < s.ci ∧ i < s.len ∧ s.cnt i = 0
  cb : ∀ k1 k2 i, callAt s k1 = some i → callAt s k2 = some i → k1 = k2
  cc : phaseA s.m = false → ∀ j, s.cnt j = 0 → j < s.ci → j < s.len → ∃ k, callAt s k = some j
  cd : phaseA s.m = false → ∀ j, s.ci ≤ j → s.cnt j = 0
  wd : s.m = .waitDone → s.len ≤ s.ci

theorem countP_set (p : WPc → Bool) (l : List WPc) (k : Nat) (x old : WPc) (h : l[k]? = some old) :
    (l.set k x).countP p + (if p old then 1 else 0) = l.countP p + (if p x then 1 else 0) := by
  induction l generalizing k with
  | nil => simp at h
  | cons a t ih =>
    cases k with
    | zero =>
      simp at h; subst h
      simp only [List.set_cons_zero, List.countP_cons]
      omega
    | succ k =>
      simp at h
      simp only [List.set_cons_succ, List.countP_cons]
      have := ih k h
      omega

theorem mem_of_get (l : List WPc) (k : Nat) (w : WPc) (h : l[k]? = some w) : w ∈ l := by
  exact List.mem_of_getElem? h

theorem finished_eq (wr : Nat) (w : WPc) (h : finished wr w = true) : w = .wait (wr + 1) := by
  cases w <;> simp [finished] at h
  subst h; rfl

theorem callAtW_set (ws : List WPc) (k k' : Nat) (x old : WPc) (h : ws[k]? = some old) :
    ((ws.set k x)[k']?).bind callIdxW = if k' = k then callIdxW x else (ws[k']?).bind callIdxW := by
  have hk : k < ws.length := by
    rcases Nat.lt_or_ge k ws.length with h1 | h1
    · exact h1
    · rw [List.getElem?_eq_none h1] at h; cases h
  rw [List.getElem?_set]
  by_cases e : k = k'
  · subst e; simp [hk]
  · have : ¬ k' = k := fun e2 => e e2.symm
    simp [e, this]

theorem callAt_init (n k : Nat) : callAt (init n) k = none := by
  cases k with
  | zero => rfl
  | succ k =>
    simp only [callAt, init]
    by_cases hk : k < n
    · simp [List.getElem?_replicate, hk, callIdxW]
    · simp [List.getElem?_replicate, hk]

theorem inv_init (n : Nat) : Inv (init n) where
  le1 := by intro j; simp [init]
  pa := by intro _ w hw; simp [init] at hw; exact hw.2
  pcnt := by intro h; simp [init] at h
  pci := by intro h; simp [init] at h
  ptc := by intro h; simp [init] at h
  pb := by intro h; simp [init, phaseA] at h
  btc := by intro h; simp [init, phaseA] at h
  ca := by intro k i h; rw [callAt_init] at h; cases h
  cb := by intro k1 k2 i h; rw [callAt_init] at h; cases h
  cc := by intro h; simp [init, phaseA] at h
  cd := by intro h; simp [init, phaseA] at h
  wd := by intro h; simp [init] at h

/-- outside the parallel section no thread is at a `worker_fun` call -/
theorem callAt_none_A (s : State) (hI : Inv s) (hA : phaseA s.m = true) (k : Nat) : callAt s k = none := by
  cases k with
  | zero => cases hm : s.m <;> simp [callAt, callIdxM, hm] <;> simp [hm, phaseA] at hA
  | succ k =>
    simp only [callAt]
    cases hw : s.ws[k]? with
    | none => rfl
    | some w =>
      have := hI.pa hA w (mem_of_get _ _ _ hw)
      subst this; rfl

theorem callAt_succ_congr (s s' : State) (h : s'.ws = s.ws) (k : Nat) : callAt s' (k + 1) = callAt s (k + 1) := by
  simp [callAt, h]

theorem inv_apply (s : State) (len : Nat) (hI : Inv s) : Inv (step s (.apply len)) := by
  simp only [step]
  split
  · rename_i hm
    have hA : phaseA s.m = true := by simp [hm, phaseA]
    have hnone := callAt_none_A s hI hA
    exact {
      le1 := by intro j; simp
      pa := by intro _ w hw; exact hI.pa hA w hw
      pcnt := by intro _ j; rfl
      pci := by intro h; simp at h
      ptc := by intro h; simp at h
      pb := by intro h; simp [phaseA] at h
      btc := by intro h; simp [phaseA] at h
      ca := by
        intro k i h
        cases k with
        | zero => simp [callAt, callIdxM] at h
        | succ k => have h2 : callAt s (k + 1) = some i := h; rw [hnone] at h2; cases h2
      cb := by
        intro k1 k2 i h
        cases k1 with
        | zero => simp [callAt, callIdxM] at h
        | succ k => have h2 : callAt s (k + 1) = some i := h; rw [hnone] at h2; cases h2
      cc := by intro h; simp [phaseA] at h
      cd := by intro h; simp [phaseA] at h
      wd := by intro h; simp at h }
  · exact hI

theorem inv_stepMaster (s : State) (hI : Inv s) : Inv (stepMaster s) := by
  unfold stepMaster
  split
  · exact hI
  · -- setIdx: common_index = 0
    rename_i hm
    have hA : phaseA s.m = true := by simp [hm, phaseA]
    have hnone := callAt_none_A s hI hA
    exact {
      le1 := hI.le1
      pa := by intro _ w hw; exact hI.pa hA w hw
      pcnt := by intro _; exact hI.pcnt (Or.inl hm)
      pci := by intro _; rfl
      ptc := by intro h; simp at h
      pb := by intro h; simp [phaseA] at h
      btc := by intro h; simp [phaseA] at h
      ca := by
        intro k i h
        cases k with
        | zero => simp [callAt, callIdxM] at h
        | succ k => have h2 : callAt s (k + 1) = some i := h; rw [hnone] at h2; cases h2
      cb := by
        intro k1 k2 i h
        cases k1 with
        | zero => simp [callAt, callIdxM] at h
        | succ k => have h2 : callAt s (k + 1) = some i := h; rw [hnone] at h2; cases h2
      cc := by intro h; simp [phaseA] at h
      cd := by intro h; simp [phaseA] at h
      wd := by intro h; simp at h }
  · -- sigStore: thread_counter.store(1)
    rename_i hm
    have hA : phaseA s.m = true := by simp [hm, phaseA]
    have hnone := callAt_none_A s hI hA
    exact {
      le1 := hI.le1
      pa := by intro _ w hw; exact hI.pa hA w hw
      pcnt := by intro _; exact hI.pcnt (Or.inr (Or.inl hm))
      pci := by intro _; exact hI.pci (Or.inl hm)
      ptc := by intro _; rfl
      pb := by intro h; simp [phaseA] at h
      btc := by intro h; simp [phaseA] at h
      ca := by
        intro k i h
        cases k with
        | zero => simp [callAt, callIdxM] at h
        | succ k => have h2 : callAt s (k + 1) = some i := h; rw [hnone] at h2; cases h2
      cb := by
        intro k1 k2 i h
        cases k1 with
        | zero => simp [callAt, callIdxM] at h
        | succ k => have h2 : callAt s (k + 1) = some i := h; rw [hnone] at h2; cases h2
      cc := by intro h; simp [phaseA] at h
      cd := by intro h; simp [phaseA] at h
      wd := by intro h; simp at h }
  · -- sigInc: work_round.fetch_add(1): the parallel section starts
    rename_i hm
    have hA : phaseA s.m = true := by simp [hm, phaseA]
    have hnone := callAt_none_A s hI hA
    have hall := hI.pa hA
    exact {
      le1 := hI.le1
      pa := by intro h; simp [phaseA] at h
      pcnt := by intro h; simp at h
      pci := by intro h; simp at h
      ptc := by intro h; simp at h
      pb := by intro _ w hw; rw [hall w hw]; simp [wOK]
      btc := by
        intro _
        have h0 : s.ws.countP (finished (s.wr + 1)) = 0 := by
          rw [List.countP_eq_zero]; intro w hw; rw [hall w hw]; simp [finished]
        simp only [h0]; exact hI.ptc hm
      ca := by
        intro k i h
        cases k with
        | zero => simp [callAt, callIdxM] at h
        | succ k => have h2 : callAt s (k + 1) = some i := h; rw [hnone] at h2; cases h2
      cb := by
        intro k1 k2 i h
        cases k1 with
        | zero => simp [callAt, callIdxM] at h
        | succ k => have h2 : callAt s (k + 1) = some i := h; rw [hnone] at h2; cases h2
      cc := by intro _ j _ h; simp only at h; rw [hI.pci (Or.inr hm)] at h; omega
      cd := by intro _ j _; exact hI.pcnt (Or.inr (Or.inr hm)) j
      wd := by intro h; simp at h }
  · -- fetch: index = common_index.fetch_add(1)
    rename_i hm
    have hB : phaseA s.m = false := by simp [hm, phaseA]
    have h0 : callAt s 0 = none := by simp [callAt, hm, callIdxM]
    split
    · rename_i hlt
      exact {
        le1 := hI.le1
        pa := by intro h; simp [phaseA] at h
        pcnt := by intro h; simp at h
        pci := by intro h; simp at h
        ptc := by intro h; simp at h
        pb := fun _ => hI.pb hB
        btc := fun _ => hI.btc hB
        ca := by
          intro k i h
          cases k with
          | zero =>
            simp [callAt, callIdxM] at h; subst h
            exact ⟨by simp, hlt, hI.cd hB _ (Nat.le_refl _)⟩
          | succ k =>
            have := hI.ca (k + 1) i (by simpa [callAt] using h)
            exact ⟨by simp only; omega, this.2.1, this.2.2⟩
        cb := by
          intro k1 k2 i h1 h2
          cases k1 with
          | zero =>
            cases k2 with
            | zero => rfl
            | succ k2 =>
              simp [callAt, callIdxM] at h1; subst h1
              have := (hI.ca (k2 + 1) _ (by simpa [callAt] using h2)).1
              omega
          | succ k1 =>
            cases k2 with
            | zero =>
              simp [callAt, callIdxM] at h2; subst h2
              have := (hI.ca (k1 + 1) _ (by simpa [callAt] using h1)).1
              omega
            | succ k2 => exact hI.cb (k1 + 1) (k2 + 1) i (by simpa [callAt] using h1) (by simpa [callAt] using h2)
        cc := by
          intro _ j hc hj hl
          simp only at hc hj hl
          by_cases e : j = s.ci
          · exact ⟨0, by simp [callAt, callIdxM, e]⟩
          · obtain ⟨k, hk⟩ := hI.cc hB j hc (by omega) hl
            cases k with
            | zero => rw [h0] at hk; cases hk
            | succ k => exact ⟨k + 1, by simpa [callAt] using hk⟩
        cd := by intro _ j hj; exact hI.cd hB j (by simp only at hj; omega)
        wd := by intro h; simp at h }
    · rename_i hge
      exact {
        le1 := hI.le1
        pa := by intro h; simp [phaseA] at h
        pcnt := by intro h; simp at h
        pci := by intro h; simp at h
        ptc := by intro h; simp at h
        pb := fun _ => hI.pb hB
        btc := fun _ => hI.btc hB
        ca := by
          intro k i h
          cases k with
          | zero => simp [callAt, callIdxM] at h
          | succ k =>
            have := hI.ca (k + 1) i (by simpa [callAt] using h)
            exact ⟨by simp only; omega, this.2.1, this.2.2⟩
        cb := by
          intro k1 k2 i h1 h2
          cases k1 with
          | zero => simp [callAt, callIdxM] at h1
          | succ k1 =>
            cases k2 with
            | zero => simp [callAt, callIdxM] at h2
            | succ k2 => exact hI.cb (k1 + 1) (k2 + 1) i (by simpa [callAt] using h1) (by simpa [callAt] using h2)
        cc := by
          intro _ j hc hj hl
          simp only at hc hj hl
          obtain ⟨k, hk⟩ := hI.cc hB j hc (by omega) hl
          cases k with
          | zero => rw [h0] at hk; cases hk
          | succ k => exact ⟨k + 1, by simpa [callAt] using hk⟩
        cd := by intro _ j hj; exact hI.cd hB j (by simp only at hj; omega)
        wd := by intro _; simp only; omega }
  · -- call i: worker_fun(data[i])
    rename_i i hm
    have hB : phaseA s.m = false := by simp [hm, phaseA]
    have h0 : callAt s 0 = some i := by simp [callAt, hm, callIdxM]
    have hi := hI.ca 0 i h0
    exact {
      le1 := by
        intro j; simp only [bump]
        split
        · rename_i e; subst e; omega
        · exact hI.le1 j
      pa := by intro h; simp [phaseA] at h
      pcnt := by intro h; simp at h
      pci := by intro h; simp at h
      ptc := by intro h; simp at h
      pb := fun _ => hI.pb hB
      btc := fun _ => hI.btc hB
      ca := by
        intro k i' h
        cases k with
        | zero => simp [callAt, callIdxM] at h
        | succ k =>
          have hk : callAt s (k + 1) = some i' := by simpa [callAt] using h
          have := hI.ca (k + 1) i' hk
          have hne : i' ≠ i := by
            intro e; subst e
            have := hI.cb (k + 1) 0 i' hk h0; omega
          exact ⟨this.1, this.2.1, by simp [bump, hne]; exact this.2.2⟩
      cb := by
        intro k1 k2 i' h1 h2
        cases k1 with
        | zero => simp [callAt, callIdxM] at h1
        | succ k1 =>
          cases k2 with
          | zero => simp [callAt, callIdxM] at h2
          | succ k2 => exact hI.cb (k1 + 1) (k2 + 1) i' (by simpa [callAt] using h1) (by simpa [callAt] using h2)
      cc := by
        intro _ j hc hj hl
        simp only [bump] at hc hj hl
        by_cases e : j = i
        · simp [e] at hc
        · simp [e] at hc
          obtain ⟨k, hk⟩ := hI.cc hB j hc hj hl
          cases k with
          | zero => rw [h0] at hk; simp at hk; exact absurd hk.symm e
          | succ k => exact ⟨k + 1, by simpa [callAt] using hk⟩
      cd := by
        intro _ j hj
        simp only [bump] at hj ⊢
        have : j ≠ i := by omega
        simp [this]; exact hI.cd hB j hj
      wd := by intro h; simp at h }
  · -- waitDone: (re-)read thread_counter
    rename_i hm
    have hB : phaseA s.m = false := by simp [hm, phaseA]
    split
    · rename_i hge
      -- every worker has signalled: the parallel section is over
      have hall : ∀ w ∈ s.ws, w = .wait (s.wr + 1) := by
        have h1 := hI.btc hB
        have h2 := List.countP_le_length (p := finished s.wr) (l := s.ws)
        have h3 : s.ws.countP (finished s.wr) = s.ws.length := by simp only [numWorkers] at hge; omega
        rw [List.countP_eq_length] at h3
        intro w hw; exact finished_eq _ _ (h3 w hw)
      exact {
        le1 := hI.le1
        pa := by intro _; exact hall
        pcnt := by intro h; simp at h
        pci := by intro h; simp at h
        ptc := by intro h; simp at h
        pb := by intro h; simp [phaseA] at h
        btc := by intro h; simp [phaseA] at h
        ca := by
          intro k i h
          cases k with
          | zero => simp [callAt, callIdxM] at h
          | succ k => exact hI.ca (k + 1) i (by simpa [callAt] using h)
        cb := by
          intro k1 k2 i h1 h2
          cases k1 with
          | zero => simp [callAt, callIdxM] at h1
          | succ k1 =>
            cases k2 with
            | zero => simp [callAt, callIdxM] at h2
            | succ k2 => exact hI.cb (k1 + 1) (k2 + 1) i (by simpa [callAt] using h1) (by simpa [callAt] using h2)
        cc := by intro h; simp [phaseA] at h
        cd := by intro h; simp [phaseA] at h
        wd := by intro h; simp at h }
    · exact hI

theorem callAt_set (s s' : State) (k : Nat) (x old : WPc) (hw : s.ws[k]? = some old) (hm : s'.m = s.m)
    (hws : s'.ws = s.ws.set k x) (k' : Nat) :
    callAt s' k' = if k' = k + 1 then callIdxW x else callAt s k' := by
  cases k' with
  | zero => simp [callAt, hm]
  | succ k' =>
    simp only [callAt, hws]
    rw [callAtW_set s.ws k k' x old hw]
    by_cases e : k' = k <;> simp [e]

theorem notA (m : MPc) (hB : phaseA m = false) : m ≠ .idle ∧ m ≠ .setIdx ∧ m ≠ .sigStore ∧ m ≠ .sigInc := by
  cases m <;> simp [phaseA] at hB ⊢

theorem callAt_old (s : State) (k : Nat) (old : WPc) (hw : s.ws[k]? = some old) : callAt s (k + 1) = callIdxW old := by
  simp [callAt, hw]

theorem mem_set (l : List WPc) (k : Nat) (x w : WPc) (P : WPc → Prop) (hl : ∀ w ∈ l, P w) (hx : P x)
    (h : w ∈ l.set k x) : P w := by
  rcases List.mem_or_eq_of_mem_set h with h1 | h1
  · exact hl w h1
  · subst h1; exact hx

/-- a worker step that neither starts nor ends a `worker_fun` call and leaves common_index / the counters alone -/
theorem inv_worker_silent (s s' : State) (k : Nat) (x old : WPc) (hI : Inv s) (hw : s.ws[k]? = some old)
    (hB : phaseA s.m = false)
    (hm : s'.m = s.m) (hws : s'.ws = s.ws.set k x) (hci : s'.ci = s.ci) (hwr : s'.wr = s.wr) (hlen : s'.len = s.len)
    (hcnt : s'.cnt = s.cnt) (ho : callIdxW old = none) (hx : callIdxW x = none)
    (hok : wOK s.wr s.len x = true)
    (htc : s'.tc + (if finished s.wr old then 1 else 0) = s.tc + (if finished s.wr x then 1 else 0)) : Inv s' := by
  have hca : ∀ k', callAt s' k' = callAt s k' := by
    intro k'
    rw [callAt_set s s' k x old hw hm hws]
    split
    · rename_i e; subst e; rw [callAt_old s k old hw, ho, hx]
    · rfl
  exact {
    le1 := by rw [hcnt]; exact hI.le1
    pa := by intro h; rw [hm, hB] at h; cases h
    pcnt := by intro h; rw [hm] at h; have := notA s.m hB; rcases h with h | h | h <;> simp_all
    pci := by intro h; rw [hm] at h; have := notA s.m hB; rcases h with h | h <;> simp_all
    ptc := by intro h; rw [hm] at h; have := notA s.m hB; simp_all
    pb := by
      intro _ w hw'
      rw [hws] at hw'; rw [hwr, hlen]
      exact mem_set _ _ _ _ (fun w => wOK s.wr s.len w = true) (hI.pb hB) hok hw'
    btc := by
      intro _
      have := countP_set (finished s.wr) s.ws k x old hw
      have h2 := hI.btc hB
      rw [hws, hwr]; omega
    ca := by intro k' i h; rw [hca] at h; rw [hci, hlen, hcnt]; exact hI.ca k' i h
    cb := by intro k1 k2 i h1 h2; rw [hca] at h1 h2; exact hI.cb k1 k2 i h1 h2
    cc := by
      intro _ j hc hj hl
      rw [hcnt] at hc; rw [hci] at hj; rw [hlen] at hl
      obtain ⟨k', hk'⟩ := hI.cc hB j hc hj hl
      exact ⟨k', by rw [hca]; exact hk'⟩
    cd := by intro _ j hj; rw [hci] at hj; rw [hcnt]; exact hI.cd hB j hj
    wd := by intro h; rw [hm] at h; rw [hlen, hci]; exact hI.wd h }

theorem wOK_of (s : State) (hI : Inv s) (hB : phaseA s.m = false) (k : Nat) (old : WPc) (hw : s.ws[k]? = some old) :
    wOK s.wr s.len old = true := hI.pb hB old (mem_of_get _ _ _ hw)

theorem inv_stepWorker (s : State) (k : Nat) (hI : Inv s) : Inv (stepWorker s k) := by
  unfold stepWorker
  split
  · exact hI
  · -- worker_wait: (re-)read work_round
    rename_i r hw
    split
    · rename_i hr
      by_cases hA : phaseA s.m = true
      · have := hI.pa hA _ (mem_of_get _ _ _ hw)
        injection this with h1; omega
      · have hB : phaseA s.m = false := Bool.eq_false_iff.mpr hA
        refine inv_worker_silent s _ k (.fetch r s.len) (.wait r) hI hw hB rfl rfl rfl rfl rfl rfl rfl rfl ?_ ?_
        · simp [wOK, hr]
        · simp [finished, hr]
    · exact hI
  · -- work(): fetch_add
    rename_i r L hw
    by_cases hA : phaseA s.m = true
    · have := hI.pa hA _ (mem_of_get _ _ _ hw); cases this
    · have hB : phaseA s.m = false := Bool.eq_false_iff.mpr hA
      have hok := wOK_of s hI hB k _ hw
      simp only [wOK, Bool.and_eq_true, beq_iff_eq] at hok
      obtain ⟨hr, hL⟩ := hok
      have hold : callAt s (k + 1) = none := by rw [callAt_old s k _ hw]; rfl
      split
      · rename_i hlt
        have hcs : ∀ k', callAt { s with ci := s.ci + 1, ws := s.ws.set k (.call r L s.ci) } k' =
            if k' = k + 1 then some s.ci else callAt s k' := by
          intro k'; rw [callAt_set s { s with ci := s.ci + 1, ws := s.ws.set k (.call r L s.ci) } k (.call r L s.ci) _ hw rfl rfl]; rfl
        exact {
          le1 := hI.le1
          pa := by intro h; rw [hB] at h; cases h
          pcnt := by intro h; have := notA s.m hB; rcases h with h | h | h <;> simp_all
          pci := by intro h; have := notA s.m hB; rcases h with h | h <;> simp_all
          ptc := by intro h; have := notA s.m hB; simp_all
          pb := by
            intro _ w hw'
            exact mem_set _ _ _ _ (fun w => wOK s.wr s.len w = true) (hI.pb hB) (by simp [wOK, hr, hL]) hw'
          btc := by
            intro _
            have := countP_set (finished s.wr) s.ws k (.call r L s.ci) _ hw
            have h2 := hI.btc hB
            simp [finished] at this; simp only; omega
          ca := by
            intro k' i h
            rw [hcs] at h
            split at h
            · injection h with h; subst h
              exact ⟨by simp, by simp only; omega, hI.cd hB _ (Nat.le_refl _)⟩
            · have := hI.ca k' i h
              exact ⟨by simp only; omega, this.2.1, this.2.2⟩
          cb := by
            intro k1 k2 i h1 h2
            rw [hcs] at h1 h2
            split at h1 <;> split at h2
            · omega
            · injection h1 with h1; subst h1; have := (hI.ca k2 _ h2).1; omega
            · injection h2 with h2; subst h2; have := (hI.ca k1 _ h1).1; omega
            · exact hI.cb k1 k2 i h1 h2
          cc := by
            intro _ j hc hj hl
            simp only at hc hj hl
            by_cases e : j = s.ci
            · exact ⟨k + 1, by rw [hcs]; simp [e]⟩
            · obtain ⟨k', hk'⟩ := hI.cc hB j hc (by omega) hl
              refine ⟨k', ?_⟩
              rw [hcs]
              split
              · rename_i e2; subst e2; rw [hold] at hk'; cases hk'
              · exact hk'
          cd := by intro _ j hj; exact hI.cd hB j (by simp only at hj; omega)
          wd := by intro h; have := hI.wd h; simp only; omega }
      · rename_i hge
        have hcs : ∀ k', callAt { s with ci := s.ci + 1, ws := s.ws.set k (.signal r) } k' = callAt s k' := by
          intro k'; rw [callAt_set s { s with ci := s.ci + 1, ws := s.ws.set k (.signal r) } k (.signal r) _ hw rfl rfl]
          split
          · rename_i e; subst e; rw [hold]; rfl
          · rfl
        exact {
          le1 := hI.le1
          pa := by intro h; rw [hB] at h; cases h
          pcnt := by intro h; have := notA s.m hB; rcases h with h | h | h <;> simp_all
          pci := by intro h; have := notA s.m hB; rcases h with h | h <;> simp_all
          ptc := by intro h; have := notA s.m hB; simp_all
          pb := by
            intro _ w hw'
            exact mem_set _ _ _ _ (fun w => wOK s.wr s.len w = true) (hI.pb hB) (by simp [wOK, hr]) hw'
          btc := by
            intro _
            have := countP_set (finished s.wr) s.ws k (.signal r) _ hw
            have h2 := hI.btc hB
            simp [finished] at this; simp only; omega
          ca := by
            intro k' i h
            rw [hcs] at h
            have := hI.ca k' i h
            exact ⟨by simp only; omega, this.2.1, this.2.2⟩
          cb := by intro k1 k2 i h1 h2; rw [hcs] at h1 h2; exact hI.cb k1 k2 i h1 h2
          cc := by
            intro _ j hc hj hl
            simp only at hc hj hl
            obtain ⟨k', hk'⟩ := hI.cc hB j hc (by omega) hl
            exact ⟨k', by rw [hcs]; exact hk'⟩
          cd := by intro _ j hj; exact hI.cd hB j (by simp only at hj; omega)
          wd := by intro h; have := hI.wd h; simp only; omega }
  · -- work(): worker_fun(data[i])
    rename_i r L i hw
    by_cases hA : phaseA s.m = true
    · have := hI.pa hA _ (mem_of_get _ _ _ hw); cases this
    · have hB : phaseA s.m = false := Bool.eq_false_iff.mpr hA
      have hok := wOK_of s hI hB k _ hw
      simp only [wOK, Bool.and_eq_true, beq_iff_eq] at hok
      obtain ⟨hr, hL⟩ := hok
      have hold : callAt s (k + 1) = some i := by rw [callAt_old s k _ hw]; rfl
      have hi := hI.ca (k + 1) i hold
      have hcs : ∀ k', callAt { s with cnt := bump s.cnt i, ws := s.ws.set k (.fetch r L) } k' =
          if k' = k + 1 then none else callAt s k' := by
        intro k'; rw [callAt_set s { s with cnt := bump s.cnt i, ws := s.ws.set k (.fetch r L) } k (.fetch r L) _ hw rfl rfl]; rfl
      exact {
        le1 := by
          intro j; simp only [bump]
          split
          · rename_i e; subst e; omega
          · exact hI.le1 j
        pa := by intro h; rw [hB] at h; cases h
        pcnt := by intro h; have := notA s.m hB; rcases h with h | h | h <;> simp_all
        pci := by intro h; have := notA s.m hB; rcases h with h | h <;> simp_all
        ptc := by intro h; have := notA s.m hB; simp_all
        pb := by
          intro _ w hw'
          exact mem_set _ _ _ _ (fun w => wOK s.wr s.len w = true) (hI.pb hB) (by simp [wOK, hr, hL]) hw'
        btc := by
          intro _
          have := countP_set (finished s.wr) s.ws k (.fetch r L) _ hw
          have h2 := hI.btc hB
          simp [finished] at this; simp only; omega
        ca := by
          intro k' i' h
          rw [hcs] at h
          split at h
          · cases h
          · rename_i hne
            have := hI.ca k' i' h
            have hne2 : i' ≠ i := by
              intro e; subst e
              exact hne (hI.cb k' (k + 1) i' h hold)
            exact ⟨this.1, this.2.1, by simp [bump, hne2]; exact this.2.2⟩
        cb := by
          intro k1 k2 i' h1 h2
          rw [hcs] at h1 h2
          split at h1
          · cases h1
          · split at h2
            · cases h2
            · exact hI.cb k1 k2 i' h1 h2
        cc := by
          intro _ j hc hj hl
          simp only [bump] at hc hj hl
          by_cases e : j = i
          · simp [e] at hc
          · simp [e] at hc
            obtain ⟨k', hk'⟩ := hI.cc hB j hc hj hl
            refine ⟨k', ?_⟩
            rw [hcs]
            split
            · rename_i e2; subst e2; rw [hold] at hk'; injection hk' with hk'; exact absurd hk'.symm e
            · exact hk'
        cd := by
          intro _ j hj
          simp only [bump] at hj ⊢
          have : j ≠ i := by omega
          simp [this]; exact hI.cd hB j hj
        wd := by intro h; exact hI.wd h }
  · -- worker_signal: thread_counter.fetch_add(1); then round++ and worker_wait(round)
    rename_i r hw
    by_cases hA : phaseA s.m = true
    · have := hI.pa hA _ (mem_of_get _ _ _ hw); cases this
    · have hB : phaseA s.m = false := Bool.eq_false_iff.mpr hA
      have hok := wOK_of s hI hB k _ hw
      simp only [wOK, beq_iff_eq] at hok
      refine inv_worker_silent s _ k (.wait (r + 1)) (.signal r) hI hw hB rfl rfl rfl rfl rfl rfl rfl rfl ?_ ?_
      · simp [wOK, hok]
      · simp [finished, hok]

/-- elements beyond the end of the vector are never touched -/
def CL (s : State) : Prop := ∀ j, s.len ≤ j → s.cnt j = 0

theorem cl_step (s : State) (e : Ev) (hI : Inv s) (h : CL s) : CL (step s e) := by
  cases e with
  | apply len =>
    simp only [step]
    split
    · intro j _; rfl
    · exact h
  | thr t =>
    cases t with
    | zero =>
      simp only [step]; unfold stepMaster
      split
      · exact h
      · exact h
      · exact h
      · exact h
      · split <;> exact h
      · rename_i i hm
        have hi := hI.ca 0 i (by simp [callAt, hm, callIdxM])
        intro j hj
        simp only [bump] at hj ⊢
        have : j ≠ i := by omega
        simp [this]; exact h j hj
      · split <;> exact h
    | succ k =>
      simp only [step]; unfold stepWorker
      split
      · exact h
      · split <;> exact h
      · split <;> exact h
      · rename_i r L i hw
        have hi := hI.ca (k + 1) i (by rw [callAt_old s k _ hw]; rfl)
        intro j hj
        simp only [bump] at hj ⊢
        have : j ≠ i := by omega
        simp [this]; exact h j hj
      · exact h

theorem inv_step (s : State) (e : Ev) (hI : Inv s) : Inv (step s e) := by
  cases e with
  | apply len => exact inv_apply s len hI
  | thr t =>
    cases t with
    | zero => exact inv_stepMaster s hI
    | succ k => exact inv_stepWorker s k hI

theorem inv_run (s : State) (es : List Ev) (hI : Inv s) (hc : CL s) : Inv (run s es) ∧ CL (run s es) := by
  induction es generalizing s with
  | nil => exact ⟨hI, hc⟩
  | cons e es ih => exact ih (step s e) (inv_step s e hI) (cl_step s e hI hc)

theorem inv_reach (n : Nat) (es : List Ev) : Inv (run (init n) es) ∧ CL (run (init n) es) :=
  inv_run (init n) es (inv_init n) (by intro j _; rfl)

end SgVerif.C49
