import SgVerif.C49.Interp
import SgVerif.C49.Gen
/- C49 — the three program environments the interpreter is instantiated with: the programs GENERATED from parmap.hpp. -/
namespace SgVerif.C49

/-- synchronisation mode of the Parmap (`e_xbt_parmap_mode_t`: XBT_PARMAP_POSIX / FUTEX / BUSY_WAIT) -/
inductive Mode where
  | posix | futex | busy
  deriving Repr, DecidableEq

def Mode.syn : Mode → Synchro
  | .posix => Gen.posix
  | .futex => Gen.futex
  | .busy => Gen.busy

/-- the generated programs of one mode -/
def progs (m : Mode) : Progs := { apply := Gen.apply, work := Gen.work, workerMain := Gen.workerMain, syn := m.syn }

end SgVerif.C49
