import SgVerif.C49.Lemmas
import SgVerif.C49.GenProgs
/-
C49 — the hand-written transition system of Model.lean is the abstraction (`abs`, Interp.lean) of the generic
interpretation of the GENERATED micro-op programs: forward simulation, for every number of workers / length / schedule.

Structure of the proof.
 (1) generic facts about `settle` (fuel), independent of the programs;
 (2) a symbolic evaluator of the local micro-ops (`Sym`: how the locals after a run of local steps derive from the locals
     before) with a soundness lemma: it turns "what is the next visible micro-op after this one, for ALL values of the locals
     and shared variables" into a closed, decidable question about the finite control skeleton of the programs;
 (3) the decidable tables `siteW` / `siteM` (the successor of every visible micro-op is the one the hand-written system
     says), `settlesWithin` (fuel), closure of the finite set of call stacks — checked by `decide` on the generated programs
     of each mode — and generic lemmas that turn these checks into the per-thread simulation;
 (4) lifting to whole states and schedules.
-/
namespace SgVerif.C49

/-! ### (1) settle -/

theorem settle_settled (P : Progs) (len f : Nat) (t : Thread) (h : settledStk P t.stack = true) : settle P len f t = t := by
  cases f with
  | zero => rfl
  | succ f => simp [settle, h]

theorem settle_step (P : Progs) (len f : Nat) (t : Thread) (h : settledStk P t.stack = false) :
    settle P len (f + 1) t = settle P len f (localStep P len t) := by
  simp [settle, h]

theorem settle_stable (P : Progs) (len : Nat) : ∀ (f : Nat) (t : Thread),
    settledStk P (settle P len f t).stack = true → settle P len (f + 1) t = settle P len f t := by
  intro f
  induction f with
  | zero =>
    intro t h
    exact settle_settled P len 1 t h
  | succ f ih =>
    intro t h
    by_cases hs : settledStk P t.stack = true
    · rw [settle_settled P len _ t hs, settle_settled P len _ t hs]
    · have hs' : settledStk P t.stack = false := by simpa using hs
      rw [settle_step P len (f + 1) t hs', settle_step P len f t hs']
      rw [settle_step P len f t hs'] at h
      exact ih _ h

/-- the stack after a local step is a control successor of the stack before -/
theorem localStep_stack (P : Progs) (len : Nat) (t : Thread) (h : settledStk P t.stack = false) :
    (localStep P len t).stack =
      nextStack P t.stack (match topOp P t.stack with
        | some .whileIndexLtLength => decide (t.index < t.length)
        | _ => true) := by
  unfold localStep
  cases hs : t.stack with
  | nil => simp [settledStk, hs] at h
  | cons fr rest =>
    simp only
    cases ho : topOp P (fr :: rest) with
    | none => rfl
    | some op => cases op <;> rfl

theorem settlesWithin_sound (P : Progs) (len : Nat) : ∀ (f : Nat) (t : Thread),
    settlesWithin P f t.stack = true → settledStk P (settle P len f t).stack = true := by
  intro f
  induction f with
  | zero => intro t h; exact h
  | succ f ih =>
    intro t h
    by_cases hs : settledStk P t.stack = true
    · rw [settle_settled P len _ t hs]; exact hs
    · have hs' : settledStk P t.stack = false := by simpa using hs
      rw [settle_step P len f t hs']
      apply ih
      rw [localStep_stack P len t hs']
      simp only [settlesWithin, hs', Bool.false_or] at h
      split at h
      · rename_i ho
        simp only [Bool.and_eq_true] at h
        simp only [ho]
        cases decide (t.index < t.length)
        · exact h.2
        · exact h.1
      · rename_i ho
        split
        · rename_i ho2; exact absurd ho2 ho
        · exact h

/-- a local step does not change the abstraction, as long as the fuel suffices after it -/
theorem settle_localStep (P : Progs) (len : Nat) (t : Thread) (hs : settledStk P t.stack = false)
    (hf : settlesWithin P (settleFuel - 1) (localStep P len t).stack = true) :
    settle P len settleFuel (localStep P len t) = settle P len settleFuel t := by
  have h1 : settleFuel = (settleFuel - 1) + 1 := by decide
  rw [h1, settle_step P len _ t hs]
  exact settle_stable P len _ _ (settlesWithin_sound P len _ _ hf)

/-- a thread whose next micro-op is not visible only makes a local step -/
theorem opStep_local (P : Progs) (nw : Nat) (t : Thread) (g : Shared) (hs : settledStk P t.stack = false) :
    opStep P nw t g = (localStep P g.len t, g) := by
  unfold opStep
  cases hst : t.stack with
  | nil => simp [settledStk, hst] at hs
  | cons fr rest =>
    cases ho : topOp P (fr :: rest) with
    | none => rfl
    | some op =>
      simp only [settledStk, hst, ho] at hs
      cases op <;> first | rfl | (simp [visible] at hs)

theorem opStep_idle (P : Progs) (nw : Nat) (t : Thread) (g : Shared) (hs : t.stack = []) : opStep P nw t g = (t, g) := by
  unfold opStep
  simp only [hs, topOp, localStep]

end SgVerif.C49
