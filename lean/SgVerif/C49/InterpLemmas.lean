import SgVerif.C49.Lemmas
import SgVerif.C49.GenProgs
/-
C49 — the hand-written transition system of Model.lean is the abstraction (`abs`, Interp.lean) of the generic
interpretation of the GENERATED micro-op programs: forward simulation, for every number of workers / length / schedule.

Structure of the proof.
 (1) generic facts about `settle` (fuel), independent of the programs;
 (2) a symbolic evaluator of the local micro-ops (`Sym`: how the locals after a run of local steps derive from the locals
     before) with a soundness lemma: it turns "what is the next visible micro-op after this one, for ALL values of the locals
     and shared variables" into a closed, decidable question about the finite control skeleton of the programs;
 (3) the decidable tables `siteW` / `siteM` (the successor of every visible micro-op is the one the hand-written system
     says), `settlesWithin` (fuel), closure of the finite set of call stacks — checked by `decide` on the generated programs
     of each mode — and generic lemmas that turn these checks into the per-thread simulation;
 (4) lifting to whole states and schedules.
-/
namespace SgVerif.C49

/-! ### (1) settle -/

theorem settle_settled (P : Progs) (len f : Nat) (t : Thread) (h : settledStk P t.stack = true) : settle P len f t = t := by
  cases f with
  | zero => rfl
  | succ f => simp [settle, h]

theorem settle_step (P : Progs) (len f : Nat) (t : Thread) (h : settledStk P t.stack = false) :
    settle P len (f + 1) t = settle P len f (localStep P len t) := by
  simp [settle, h]

theorem settle_stable (P : Progs) (len : Nat) : ∀ (f : Nat) (t : Thread),
    settledStk P (settle P len f t).stack = true → settle P len (f + 1) t = settle P len f t := by
  intro f
  induction f with
  | zero =>
    intro t h
    exact settle_settled P len 1 t h
  | succ f ih =>
    intro t h
    by_cases hs : settledStk P t.stack = true
    · rw [settle_settled P len _ t hs, settle_settled P len _ t hs]
    · have hs' : settledStk P t.stack = false := by simpa using hs
      rw [settle_step P len (f + 1) t hs', settle_step P len f t hs']
      rw [settle_step P len f t hs'] at h
      exact ih _ h

/-- the stack after a local step is a control successor of the stack before -/
theorem localStep_stack (P : Progs) (len : Nat) (t : Thread) (h : settledStk P t.stack = false) :
    (localStep P len t).stack =
      nextStack P t.stack (match topOp P t.stack with
        | some .whileIndexLtLength => decide (t.index < t.length)
        | _ => true) := by
  unfold localStep
  cases hs : t.stack with
  | nil => simp [settledStk, hs] at h
  | cons fr rest =>
    simp only
    cases ho : topOp P (fr :: rest) with
    | none => rfl
    | some op => cases op <;> rfl

theorem settlesWithin_sound (P : Progs) (len : Nat) : ∀ (f : Nat) (t : Thread),
    settlesWithin P f t.stack = true → settledStk P (settle P len f t).stack = true := by
  intro f
  induction f with
  | zero => intro t h; exact h
  | succ f ih =>
    intro t h
    by_cases hs : settledStk P t.stack = true
    · rw [settle_settled P len _ t hs]; exact hs
    · have hs' : settledStk P t.stack = false := by simpa using hs
      rw [settle_step P len f t hs']
      apply ih
      rw [localStep_stack P len t hs']
      simp only [settlesWithin, hs', Bool.false_or] at h
      split at h
      · rename_i ho
        simp only [Bool.and_eq_true] at h
        simp only [ho]
        cases decide (t.index < t.length)
        · exact h.2
        · exact h.1
      · rename_i ho
        split
        · rename_i ho2; exact absurd ho2 ho
        · exact h

/-- a local step does not change the abstraction, as long as the fuel suffices after it -/
theorem settle_localStep (P : Progs) (len : Nat) (t : Thread) (hs : settledStk P t.stack = false)
    (hf : settlesWithin P (settleFuel - 1) (localStep P len t).stack = true) :
    settle P len settleFuel (localStep P len t) = settle P len settleFuel t := by
  have h1 : settleFuel = (settleFuel - 1) + 1 := by decide
  rw [h1, settle_step P len _ t hs]
  exact settle_stable P len _ _ (settlesWithin_sound P len _ _ hf)

/-- a thread whose next micro-op is not visible only makes a local step -/
theorem opStep_local (P : Progs) (nw : Nat) (t : Thread) (g : Shared) (hs : settledStk P t.stack = false) :
    opStep P nw t g = (localStep P g.len t, g) := by
  unfold opStep
  cases hst : t.stack with
  | nil => simp [settledStk, hst] at hs
  | cons fr rest =>
    cases ho : topOp P (fr :: rest) with
    | none => rfl
    | some op =>
      simp only [settledStk, hst, ho] at hs
      cases op <;> first | rfl | (simp [visible] at hs)

theorem opStep_idle (P : Progs) (nw : Nat) (t : Thread) (g : Shared) (hs : t.stack = []) : opStep P nw t g = (t, g) := by
  unfold opStep
  simp only [hs, topOp, localStep]

/-! ### (2) symbolic evaluation of the local micro-ops -/

/-- how the locals after a run of local micro-ops derive from the locals `(index, length, round)` before it and the
shared data size: `index` is never touched; `length` is the old one or (if `ll`) the data size; `round` = (`rb` or the old
round) + `ri` -/
structure Sym where
  stack : List Frame
  ll : Bool
  rb : Option Nat
  ri : Nat
  deriving DecidableEq

def Sym.start (stk : List Frame) : Sym := ⟨stk, false, none, 0⟩

def Sym.conc (y : Sym) (i l r len : Nat) : Thread :=
  ⟨y.stack, i, if y.ll then len else l, (match y.rb with | some v => v | none => r) + y.ri⟩

theorem Sym.conc_start (stk : List Frame) (i l r len : Nat) : (Sym.start stk).conc i l r len = ⟨stk, i, l, r⟩ := by
  simp [Sym.start, Sym.conc]

/-- `localStep` on symbolic locals; `bl` / `bs` = outcome of `index < length` for the old length / for the data size -/
def symStep (P : Progs) (bl bs : Bool) (y : Sym) : Sym :=
  match y.stack with
  | [] => y
  | _ :: _ =>
    match topOp P y.stack with
    | none => { y with stack := nextStack P y.stack true }
    | some op =>
      match op with
      | .whileIndexLtLength => { y with stack := nextStack P y.stack (if y.ll then bs else bl) }
      | .loadLength => { y with stack := nextStack P y.stack true, ll := true }
      | .initRound v => { y with stack := nextStack P y.stack true, rb := some v, ri := 0 }
      | .incLocalRound => { y with stack := nextStack P y.stack true, ri := y.ri + 1 }
      | _ => { y with stack := nextStack P y.stack true }

def symSettle (P : Progs) (bl bs : Bool) : Nat → Sym → Sym
  | 0, y => y
  | f + 1, y => if settledStk P y.stack then y else symSettle P bl bs f (symStep P bl bs y)

theorem symStep_sound (P : Progs) (y : Sym) (i l r len : Nat) :
    localStep P len (y.conc i l r len) = (symStep P (decide (i < l)) (decide (i < len)) y).conc i l r len := by
  unfold localStep symStep
  have hst : (y.conc i l r len).stack = y.stack := rfl
  rw [hst]
  cases hs : y.stack with
  | nil => simp [Sym.conc, hs]
  | cons fr rest =>
    simp only
    cases ho : topOp P (fr :: rest) with
    | none => simp [Sym.conc, hs]
    | some op =>
      cases op <;> simp only [Sym.conc, hs]
      case whileIndexLtLength => cases y.ll <;> simp
      case initRound v => simp
      case incLocalRound => simp [Nat.add_assoc]
      case loadLength => simp

theorem symSettle_sound (P : Progs) (i l r len : Nat) : ∀ (f : Nat) (y : Sym),
    settle P len f (y.conc i l r len) = (symSettle P (decide (i < l)) (decide (i < len)) f y).conc i l r len := by
  intro f
  induction f with
  | zero => intro y; rfl
  | succ f ih =>
    intro y
    have hst : (y.conc i l r len).stack = y.stack := rfl
    simp only [settle, symSettle, hst]
    split
    · rfl
    · rw [symStep_sound, ih]

/-- the settled form of a concrete thread, through the symbolic evaluator -/
theorem settle_sym (P : Progs) (stk : List Frame) (i l r len : Nat) :
    settle P len settleFuel ⟨stk, i, l, r⟩ =
      (symSettle P (decide (i < l)) (decide (i < len)) settleFuel (Sym.start stk)).conc i l r len := by
  rw [← symSettle_sound, Sym.conc_start]

/-! ### (3) the hand-written system, thread by thread -/

def shOf (s : State) : Shared := ⟨s.ci, s.tc, s.wr, s.len, s.cnt, s.applies⟩
def mkState (m : MPc) (ws : List WPc) (g : Shared) : State := ⟨m, ws, g.ci, g.tc, g.wr, g.len, g.cnt, g.applies⟩

/-- `stepWorker` seen from one worker: its program point and the shared variables -/
def wstepLocal (w : WPc) (g : Shared) : WPc × Shared :=
  match w with
  | .wait r => if g.wr = r then (.fetch r g.len, g) else (.wait r, g)
  | .fetch r L => if g.ci < L then (.call r L g.ci, { g with ci := g.ci + 1 }) else (.signal r, { g with ci := g.ci + 1 })
  | .call r L i => (.fetch r L, { g with cnt := bump g.cnt i })
  | .signal r => (.wait (r + 1), { g with tc := g.tc + 1 })

/-- `stepMaster` seen from the controller -/
def mstepLocal (m : MPc) (g : Shared) (nw : Nat) : MPc × Shared :=
  match m with
  | .idle => (.idle, g)
  | .setIdx => (.sigStore, { g with ci := 0 })
  | .sigStore => (.sigInc, { g with tc := 1 })
  | .sigInc => (.fetch, { g with wr := g.wr + 1 })
  | .fetch => if g.ci < g.len then (.call g.ci, { g with ci := g.ci + 1 }) else (.waitDone, { g with ci := g.ci + 1 })
  | .call i => (.fetch, { g with cnt := bump g.cnt i })
  | .waitDone => if nw ≤ g.tc then (.idle, { g with applies := g.applies + 1 }) else (.waitDone, g)

theorem set_self (l : List WPc) (k : Nat) (x : WPc) (h : l[k]? = some x) : l.set k x = l := by
  induction l generalizing k with
  | nil => rfl
  | cons a t ih =>
    cases k with
    | zero => simp at h; subst h; rfl
    | succ k => simp at h; simp [ih k h]

theorem stepWorker_local (s : State) (k : Nat) (w : WPc) (h : s.ws[k]? = some w) :
    stepWorker s k = mkState s.m (s.ws.set k (wstepLocal w (shOf s)).1) (wstepLocal w (shOf s)).2 := by
  unfold stepWorker
  rw [h]
  cases w with
  | wait r =>
    by_cases hc : s.wr = r
    · simp [wstepLocal, shOf, mkState, hc]
    · simp only [wstepLocal, shOf, mkState, hc, if_false]; rw [set_self _ _ _ h]
  | fetch r L =>
    by_cases hc : s.ci < L
    · simp [wstepLocal, shOf, mkState, hc]
    · simp [wstepLocal, shOf, mkState, hc]
  | call r L i => rfl
  | signal r => rfl

theorem stepMaster_local (s : State) :
    stepMaster s = mkState (mstepLocal s.m (shOf s) (numWorkers s)).1 s.ws (mstepLocal s.m (shOf s) (numWorkers s)).2 := by
  unfold stepMaster
  cases hm : s.m with
  | idle => simp only [mstepLocal, shOf, mkState]; rw [← hm]
  | setIdx => rfl
  | sigStore => rfl
  | sigInc => rfl
  | fetch =>
    by_cases hc : s.ci < s.len
    · simp [mstepLocal, shOf, mkState, hc]
    · simp [mstepLocal, shOf, mkState, hc]
  | call i => rfl
  | waitDone =>
    by_cases hc : numWorkers s ≤ s.tc
    · simp [mstepLocal, shOf, mkState, hc]
    · simp only [mstepLocal, shOf, mkState, hc, if_false]; rw [← hm]

theorem wstepLocal_len (w : WPc) (g : Shared) : (wstepLocal w g).2.len = g.len := by
  cases w <;> simp only [wstepLocal] <;> (try split) <;> rfl

theorem mstepLocal_len (m : MPc) (g : Shared) (nw : Nat) : (mstepLocal m g nw).2.len = g.len := by
  cases m <;> simp only [mstepLocal] <;> (try split) <;> rfl

/-! the decidable tables -/

/-- the symbolic thread at its next visible micro-op after executing the visible micro-op at the top of `stk` -/
def after (P : Progs) (stk : List Frame) (bl bs : Bool) : Sym :=
  symSettle P bl bs settleFuel (Sym.start (nextStack P stk true))

/-- after the visible micro-op at the top of `stk`, for the test outcomes `bl`/`bs`, the next visible micro-op is `op`, the
round is the old one + `k`, and (if `ll = some b`) the length is the data size (`b = true`) / the old length (`b = false`) -/
def chk (P : Progs) (stk : List Frame) (bl bs : Bool) (op : MicroOp) (ll : Option Bool) (k : Nat) : Bool :=
  decide (topOp P (after P stk bl bs).stack = some op) && decide ((after P stk bl bs).rb = none) &&
    decide ((after P stk bl bs).ri = k) &&
    (match ll with
     | none => true
     | some b => (after P stk bl bs).ll == b)

theorem chk_spec (P : Progs) (stk : List Frame) (bl bs : Bool) (op : MicroOp) (ll : Option Bool) (k : Nat)
    (h : chk P stk bl bs op ll k = true) :
    topOp P (after P stk bl bs).stack = some op ∧ (after P stk bl bs).rb = none ∧ (after P stk bl bs).ri = k ∧
      ∀ b, ll = some b → (after P stk bl bs).ll = b := by
  simp only [chk, Bool.and_eq_true, decide_eq_true_eq] at h
  refine ⟨h.1.1.1, h.1.1.2, h.1.2, ?_⟩
  intro b hb
  subst hb
  simpa using h.2

def all4 (p : Bool → Bool → Bool) : Bool := p true true && p true false && p false true && p false false

theorem all4_spec (p : Bool → Bool → Bool) (h : all4 p = true) (a b : Bool) : p a b = true := by
  simp only [all4, Bool.and_eq_true] at h
  cases a <;> cases b <;> simp [h]

/-- worker: the successor of each visible micro-op is the one `stepWorker` says -/
def siteW (P : Progs) (stk : List Frame) : Bool :=
  match topOp P stk with
  | some .waitRoundEq => all4 fun bl bs => chk P stk bl bs .fetchIndex (some true) 0
  | some .fetchIndex => all4 fun bl bs => chk P stk bl bs (if bl then .callFun else .incTC) (if bl then some false else none) 0
  | some .callFun => all4 fun bl bs => chk P stk bl bs .fetchIndex (some false) 0
  | some .incTC => all4 fun bl bs => chk P stk bl bs .waitRoundEq none 1
  | _ => false

/-- controller: the successor of each visible micro-op is the one `stepMaster` says -/
def siteM (P : Progs) (stk : List Frame) : Bool :=
  match topOp P stk with
  | some (.storeIndex 0) => all4 fun bl bs => chk P stk bl bs (.storeTC 1) none 0
  | some (.storeTC 1) => all4 fun bl bs => chk P stk bl bs .incRound none 0
  | some .incRound => all4 fun bl bs => chk P stk bl bs .fetchIndex (some true) 0
  | some .fetchIndex => all4 fun bl bs => chk P stk bl bs (if bl then .callFun else .waitTCgeN) none 0
  | some .callFun => all4 fun bl bs => chk P stk bl bs .fetchIndex none 0
  | some .waitTCgeN => all4 fun bl bs => decide ((after P stk bl bs).stack = [])
  | _ => false

theorem settled_of_top (P : Progs) (stk : List Frame) (op : MicroOp) (h : topOp P stk = some op) (hv : visible op = true) :
    settledStk P stk = true := by
  cases stk with
  | nil => rfl
  | cons fr rest => simp only [settledStk, h, hv]

theorem settle_next (P : Progs) (stk : List Frame) (i l r len : Nat) :
    settle P len settleFuel ⟨nextStack P stk true, i, l, r⟩ = (after P stk (decide (i < l)) (decide (i < len))).conc i l r len := by
  unfold after; rw [settle_sym]

theorem absW_settled (P : Progs) (len : Nat) (t : Thread) (h : settledStk P t.stack = true) : absW P len t = pointW P t := by
  unfold absW; rw [settle_settled P len _ t h]

theorem absM_settled (P : Progs) (len : Nat) (t : Thread) (h : settledStk P t.stack = true) : absM P len t = pointM P t := by
  unfold absM; rw [settle_settled P len _ t h]

theorem siteW_sound (P : Progs) (stk : List Frame) (h : siteW P stk = true) (i l r : Nat) (g : Shared) (nw : Nat) :
    (absW P g.len (opStep P nw ⟨stk, i, l, r⟩ g).1, (opStep P nw ⟨stk, i, l, r⟩ g).2) =
      wstepLocal (pointW P ⟨stk, i, l, r⟩) g := by
  unfold siteW at h
  split at h
  · -- waitRoundEq
    rename_i ho
    have hset := settled_of_top P stk _ ho rfl
    simp only [opStep, pointW, ho, wstepLocal]
    by_cases hc : g.wr = r
    · obtain ⟨h1, h2, h3, h4⟩ := chk_spec _ _ _ _ _ _ _ (all4_spec _ h (decide (i < l)) (decide (i < g.len)))
      simp only [hc, if_true, absW, settle_next, pointW, Sym.conc, h1, h2, h3, h4 true rfl, Nat.add_zero]
    · simp only [hc, if_false]
      rw [absW_settled P _ _ hset]; simp only [pointW, ho]
  · -- fetchIndex
    rename_i ho
    simp only [opStep, pointW, ho, wstepLocal]
    obtain ⟨h1, h2, h3, h4⟩ := chk_spec _ _ _ _ _ _ _ (all4_spec _ h (decide (g.ci < l)) (decide (g.ci < g.len)))
    by_cases hc : g.ci < l
    · simp only [hc, decide_true, if_true] at h1 h2 h3 h4 ⊢
      simp only [absW, settle_next, hc, decide_true, pointW, Sym.conc, h1, h2, h3, h4 false rfl, Nat.add_zero]
      simp
    · simp only [hc, decide_false, if_false] at h1 h2 h3 h4 ⊢
      simp only [absW, settle_next, hc, decide_false, pointW, Sym.conc, h1, h2, h3, Nat.add_zero]
      simp
  · -- callFun
    rename_i ho
    simp only [opStep, pointW, ho, wstepLocal]
    obtain ⟨h1, h2, h3, h4⟩ := chk_spec _ _ _ _ _ _ _ (all4_spec _ h (decide (i < l)) (decide (i < g.len)))
    simp only [absW, settle_next, pointW, Sym.conc, h1, h2, h3, h4 false rfl, Nat.add_zero]
    simp
  · -- incTC
    rename_i ho
    simp only [opStep, pointW, ho, wstepLocal]
    obtain ⟨h1, h2, h3, h4⟩ := chk_spec _ _ _ _ _ _ _ (all4_spec _ h (decide (i < l)) (decide (i < g.len)))
    simp only [absW, settle_next, pointW, Sym.conc, h1, h2, h3]
  · cases h

theorem absM_next (P : Progs) (stk : List Frame) (i l r len : Nat) :
    absM P len ⟨nextStack P stk true, i, l, r⟩ = pointM P ((after P stk (decide (i < l)) (decide (i < len))).conc i l r len) := by
  unfold absM; rw [settle_next]

theorem siteM_sound (P : Progs) (stk : List Frame) (h : siteM P stk = true) (i l r : Nat) (g : Shared) (nw : Nat)
    (hl : phaseA (pointM P ⟨stk, i, l, r⟩) = false → l = g.len) :
    (absM P g.len (opStep P nw ⟨stk, i, l, r⟩ g).1, (opStep P nw ⟨stk, i, l, r⟩ g).2) =
        mstepLocal (pointM P ⟨stk, i, l, r⟩) g nw ∧
      (phaseA (absM P g.len (opStep P nw ⟨stk, i, l, r⟩ g).1) = false →
        (settle P g.len settleFuel (opStep P nw ⟨stk, i, l, r⟩ g).1).length = g.len) := by
  unfold siteM at h
  split at h
  · -- storeIndex 0
    rename_i ho
    obtain ⟨h1, h2, h3, h4⟩ := chk_spec _ _ _ _ _ _ _ (all4_spec _ h (decide (i < l)) (decide (i < g.len)))
    simp only [opStep, pointM, ho, mstepLocal, absM_next, Sym.conc, h1]
    simp [phaseA]
  · -- storeTC 1
    rename_i ho
    obtain ⟨h1, h2, h3, h4⟩ := chk_spec _ _ _ _ _ _ _ (all4_spec _ h (decide (i < l)) (decide (i < g.len)))
    simp only [opStep, pointM, ho, mstepLocal, absM_next, Sym.conc, h1]
    simp [phaseA]
  · -- incRound
    rename_i ho
    obtain ⟨h1, h2, h3, h4⟩ := chk_spec _ _ _ _ _ _ _ (all4_spec _ h (decide (i < l)) (decide (i < g.len)))
    simp only [opStep, pointM, ho, mstepLocal, absM_next, settle_next, Sym.conc, h1, h4 true rfl]
    simp
  · -- fetchIndex
    rename_i ho
    have hl' : l = g.len := hl (by simp [pointM, ho, phaseA])
    subst hl'
    obtain ⟨h1, h2, h3, h4⟩ := chk_spec _ _ _ _ _ _ _ (all4_spec _ h (decide (g.ci < g.len)) (decide (g.ci < g.len)))
    by_cases hc : g.ci < g.len
    · simp only [hc, decide_true, if_true] at h1
      simp only [opStep, pointM, ho, mstepLocal, absM_next, settle_next, Sym.conc, hc, decide_true, h1, if_true]
      simp
    · simp only [hc, decide_false] at h1
      simp only [opStep, pointM, ho, mstepLocal, absM_next, settle_next, Sym.conc, hc, decide_false, h1, if_false]
      simp
  · -- callFun
    rename_i ho
    have hl' : l = g.len := hl (by simp [pointM, ho, phaseA])
    subst hl'
    obtain ⟨h1, h2, h3, h4⟩ := chk_spec _ _ _ _ _ _ _ (all4_spec _ h (decide (i < g.len)) (decide (i < g.len)))
    simp only [opStep, pointM, ho, mstepLocal, absM_next, settle_next, Sym.conc, h1]
    simp
  · -- waitTCgeN
    rename_i ho
    have hl' : l = g.len := hl (by simp [pointM, ho, phaseA])
    have hset := settled_of_top P stk _ ho rfl
    have h1 := all4_spec _ h (decide (i < l)) (decide (i < g.len))
    simp only [decide_eq_true_eq] at h1
    by_cases hc : nw ≤ g.tc
    · simp only [opStep, pointM, ho, mstepLocal, absM_next, Sym.conc, hc, if_true, h1]
      simp [phaseA, topOp]
    · simp only [opStep, pointM, ho, mstepLocal, hc, if_false]
      rw [absM_settled P _ _ hset, settle_settled P _ _ _ hset]
      simp [pointM, ho, hl']
  · cases h

/-- (worker) the abstraction `.wait (n+1)` does not depend on the data size -/
def lenIndepW (P : Progs) (stk : List Frame) : Bool :=
  all4 fun bl bs =>
    (!decide (topOp P (symSettle P bl bs settleFuel (Sym.start stk)).stack = some .waitRoundEq)) ||
      decide (symSettle P bl (!bs) settleFuel (Sym.start stk) = symSettle P bl bs settleFuel (Sym.start stk))

theorem pointW_wait (P : Progs) (t : Thread) (n : Nat) (h : pointW P t = .wait (n + 1)) :
    topOp P t.stack = some .waitRoundEq ∧ t.round = n + 1 := by
  unfold pointW at h
  split at h <;> simp_all

theorem absW_len_indep (P : Progs) (t : Thread) (h : lenIndepW P t.stack = true) (len L n : Nat)
    (hw : absW P len t = .wait (n + 1)) : absW P L t = .wait (n + 1) := by
  obtain ⟨stk, i, l, r⟩ := t
  unfold absW at hw ⊢
  rw [settle_sym] at hw ⊢
  obtain ⟨htop, hr⟩ := pointW_wait P _ n hw
  have h1 := all4_spec _ h (decide (i < l)) (decide (i < len))
  have htop' : topOp P (symSettle P (decide (i < l)) (decide (i < len)) settleFuel (Sym.start stk)).stack = some .waitRoundEq := htop
  simp only [htop', decide_true, Bool.not_true, Bool.false_or, decide_eq_true_eq] at h1
  have hy : symSettle P (decide (i < l)) (decide (i < L)) settleFuel (Sym.start stk) =
      symSettle P (decide (i < l)) (decide (i < len)) settleFuel (Sym.start stk) := by
    cases hb : decide (i < len) <;> cases hb' : decide (i < L) <;> simp_all
  rw [hy]
  have hr' : ((symSettle P (decide (i < l)) (decide (i < len)) settleFuel (Sym.start stk)).conc i l r L).round = n + 1 := hr
  simp only [pointW]
  have : ((symSettle P (decide (i < l)) (decide (i < len)) settleFuel (Sym.start stk)).conc i l r L).stack =
      (symSettle P (decide (i < l)) (decide (i < len)) settleFuel (Sym.start stk)).stack := rfl
  rw [this, htop', hr']

/-- everything the simulation needs to know about a program environment: closed decidable checks of its control skeleton -/
structure Tables (P : Progs) : Prop where
  closedM : ∀ stk ∈ stacksOf P .apply, ∀ b, nextStack P stk b ∈ stacksOf P .apply
  closedW : ∀ stk ∈ stacksOf P .workerMain, ∀ b, nextStack P stk b ∈ stacksOf P .workerMain
  fuelM : ∀ stk ∈ stacksOf P .apply, settlesWithin P (settleFuel - 1) stk = true
  fuelW : ∀ stk ∈ stacksOf P .workerMain, settlesWithin P (settleFuel - 1) stk = true
  sitesM : ∀ stk ∈ stacksOf P .apply, stk ≠ [] → settledStk P stk = true → siteM P stk = true
  sitesW : ∀ stk ∈ stacksOf P .workerMain, stk ≠ [] → settledStk P stk = true → siteW P stk = true
  lenW : ∀ stk ∈ stacksOf P .workerMain, lenIndepW P stk = true
  entryMem : [⟨.apply, 0⟩] ∈ stacksOf P .apply
  entry : all4 (fun bl bs =>
    decide (topOp P (symSettle P bl bs settleFuel (Sym.start [⟨.apply, 0⟩])).stack = some (.storeIndex 0))) = true
  initMem : [⟨.workerMain, 0⟩] ∈ stacksOf P .workerMain
  initW : absW P 0 ⟨[⟨.workerMain, 0⟩], 0, 0, 0⟩ = .wait 1

theorem tables (m : Mode) : Tables (progs m) where
  closedM := by cases m <;> decide
  closedW := by cases m <;> decide
  fuelM := by cases m <;> decide
  fuelW := by cases m <;> decide
  sitesM := by cases m <;> decide
  sitesW := by cases m <;> decide
  lenW := by cases m <;> decide
  entryMem := by cases m <;> decide
  entry := by cases m <;> decide
  initMem := by cases m <;> decide
  initW := by cases m <;> decide

/-! ### per-thread simulation -/

theorem localStep_stack' (P : Progs) (len : Nat) (t : Thread) : ∃ b, (localStep P len t).stack = nextStack P t.stack b := by
  unfold localStep
  cases hs : t.stack with
  | nil => exact ⟨true, by simp [hs, nextStack]⟩
  | cons fr rest =>
    simp only
    cases ho : topOp P (fr :: rest) with
    | none => exact ⟨true, rfl⟩
    | some op => cases op <;> first | exact ⟨true, rfl⟩ | exact ⟨_, rfl⟩

theorem opStep_stack (P : Progs) (nw : Nat) (t : Thread) (g : Shared) :
    (opStep P nw t g).1.stack = t.stack ∨ ∃ b, (opStep P nw t g).1.stack = nextStack P t.stack b := by
  unfold opStep
  split
  all_goals first
    | exact Or.inr ⟨true, rfl⟩
    | (split <;> first | exact Or.inr ⟨true, rfl⟩ | exact Or.inl rfl)
    | exact Or.inr (localStep_stack' P g.len t)

theorem opStep_len (P : Progs) (nw : Nat) (t : Thread) (g : Shared) : (opStep P nw t g).2.len = g.len := by
  unfold opStep
  split
  all_goals first
    | rfl
    | (split <;> rfl)

theorem opStep_mem (P : Progs) (root : Fn) (hcl : ∀ stk ∈ stacksOf P root, ∀ b, nextStack P stk b ∈ stacksOf P root)
    (nw : Nat) (t : Thread) (g : Shared) (ht : t.stack ∈ stacksOf P root) : (opStep P nw t g).1.stack ∈ stacksOf P root := by
  rcases opStep_stack P nw t g with h | ⟨b, h⟩
  · rw [h]; exact ht
  · rw [h]; exact hcl _ ht b

/-- one micro-op of a worker is a stuttering step or the step of `stepWorker` -/
theorem wthread_sim (P : Progs) (T : Tables P) (t : Thread) (ht : t.stack ∈ stacksOf P .workerMain) (g : Shared) (nw : Nat) :
    ((opStep P nw t g).2 = g ∧ absW P g.len (opStep P nw t g).1 = absW P g.len t) ∨
      (absW P g.len (opStep P nw t g).1, (opStep P nw t g).2) = wstepLocal (absW P g.len t) g := by
  by_cases he : t.stack = []
  · left; rw [opStep_idle P nw t g he]; exact ⟨rfl, rfl⟩
  · by_cases hs : settledStk P t.stack = true
    · right
      rw [absW_settled P g.len t hs]
      obtain ⟨stk, i, l, r⟩ := t
      exact siteW_sound P stk (T.sitesW stk ht he hs) i l r g nw
    · left
      have hs' : settledStk P t.stack = false := by simpa using hs
      rw [opStep_local P nw t g hs']
      refine ⟨rfl, ?_⟩
      unfold absW
      rw [settle_localStep P g.len t hs']
      obtain ⟨b, hb⟩ := localStep_stack' P g.len t
      rw [hb]
      exact T.fuelW _ (T.closedW _ ht b)

/-- one micro-op of the controller is a stuttering step or the step of `stepMaster`; the cached `length` stays the data
size while the controller is in the parallel section -/
theorem mthread_sim (P : Progs) (T : Tables P) (t : Thread) (ht : t.stack ∈ stacksOf P .apply) (g : Shared) (nw : Nat)
    (hl : phaseA (absM P g.len t) = false → (settle P g.len settleFuel t).length = g.len) :
    ((opStep P nw t g).2 = g ∧ settle P g.len settleFuel (opStep P nw t g).1 = settle P g.len settleFuel t) ∨
      ((absM P g.len (opStep P nw t g).1, (opStep P nw t g).2) = mstepLocal (absM P g.len t) g nw ∧
        (phaseA (absM P g.len (opStep P nw t g).1) = false →
          (settle P g.len settleFuel (opStep P nw t g).1).length = g.len)) := by
  by_cases he : t.stack = []
  · left; rw [opStep_idle P nw t g he]; exact ⟨rfl, rfl⟩
  · by_cases hs : settledStk P t.stack = true
    · right
      rw [absM_settled P g.len t hs] at hl ⊢
      rw [settle_settled P g.len _ t hs] at hl
      obtain ⟨stk, i, l, r⟩ := t
      exact siteM_sound P stk (T.sitesM stk ht he hs) i l r g nw hl
    · left
      have hs' : settledStk P t.stack = false := by simpa using hs
      rw [opStep_local P nw t g hs']
      refine ⟨rfl, ?_⟩
      rw [settle_localStep P g.len t hs']
      obtain ⟨b, hb⟩ := localStep_stack' P g.len t
      rw [hb]
      exact T.fuelM _ (T.closedM _ ht b)

/-! ### (4) whole states and schedules -/

theorem map_set' {α β : Type} (f : α → β) (l : List α) (k : Nat) (x : α) : (l.set k x).map f = (l.map f).set k (f x) := by
  induction l generalizing k with
  | nil => rfl
  | cons a t ih =>
    cases k with
    | zero => rfl
    | succ k => simp [ih]

theorem abs_eq (P : Progs) (s : IState) :
    abs P s = mkState (absM P s.sh.len s.ctl) (s.ws.map (absW P s.sh.len)) s.sh := rfl

theorem run_append (s : State) (es es' : List Ev) : run s (es ++ es') = run (run s es) es' := by
  induction es generalizing s with
  | nil => rfl
  | cons e es ih => exact ih (step s e)

/-- the simulation relation: the stacks are stacks of the control skeleton, the controller's cached length is the data size
in the parallel section, and the abstraction is a reachable state of the hand-written system -/
structure Sim (P : Progs) (n : Nat) (s : IState) : Prop where
  cst : s.ctl.stack ∈ stacksOf P .apply
  wst : ∀ t ∈ s.ws, t.stack ∈ stacksOf P .workerMain
  clen : phaseA (absM P s.sh.len s.ctl) = false → (settle P s.sh.len settleFuel s.ctl).length = s.sh.len
  reach : ∃ es', abs P s = run (init n) es'

theorem absM_idle (P : Progs) (len : Nat) (t : Thread) (h : t.stack = []) : absM P len t = .idle := by
  have hs : settledStk P t.stack = true := by rw [h]; rfl
  rw [absM_settled P len t hs]
  simp [pointM, h, topOp]

theorem abs_iinit (P : Progs) (T : Tables P) (n : Nat) : abs P (iinit n) = init n := by
  have hm : absM P (iinit n).sh.len (iinit n).ctl = .idle := absM_idle _ _ _ rfl
  have hw : (iinit n).ws.map (absW P (iinit n).sh.len) = List.replicate n (.wait 1) := by
    simp only [iinit, List.map_replicate]; rw [T.initW]
  rw [abs_eq, hm, hw]; rfl

theorem sim_init (P : Progs) (T : Tables P) (n : Nat) : Sim P n (iinit n) where
  cst := by simp [iinit, stacksOf]
  wst := by
    intro t ht
    simp only [iinit] at ht
    rw [List.eq_of_mem_replicate ht]
    exact T.initMem
  clen := by
    intro h
    rw [absM_idle P _ _ rfl] at h
    simp [phaseA] at h
  reach := ⟨[], abs_iinit P T n⟩

/-- a worker step: stutter or `stepWorker` -/
theorem abs_worker (P : Progs) (T : Tables P) (s : IState) (k : Nat) (hw : ∀ t ∈ s.ws, t.stack ∈ stacksOf P .workerMain) :
    abs P (istep P s (.thr (k + 1))) = abs P s ∨ abs P (istep P s (.thr (k + 1))) = step (abs P s) (.thr (k + 1)) := by
  cases hk : s.ws[k]? with
  | none => left; simp [istep, hk]
  | some t =>
    have htm : t ∈ s.ws := List.mem_of_getElem? hk
    have hlen := opStep_len P (s.ws.length + 1) t s.sh
    have hi : abs P (istep P s (.thr (k + 1))) =
        mkState (absM P s.sh.len s.ctl) ((s.ws.map (absW P s.sh.len)).set k (absW P s.sh.len (opStep P (s.ws.length + 1) t s.sh).1))
          (opStep P (s.ws.length + 1) t s.sh).2 := by
      simp only [istep, hk, abs_eq, hlen, map_set']
    have hk' : (s.ws.map (absW P s.sh.len))[k]? = some (absW P s.sh.len t) := by simp [hk]
    rcases wthread_sim P T t (hw t htm) s.sh (s.ws.length + 1) with ⟨hg, ha⟩ | hstep
    · left
      rw [hi, hg, ha, set_self _ _ _ hk']; rfl
    · right
      rw [hi]
      have : step (abs P s) (.thr (k + 1)) = stepWorker (abs P s) k := rfl
      rw [this, stepWorker_local (abs P s) k (absW P s.sh.len t) hk']
      have hsh : shOf (abs P s) = s.sh := rfl
      rw [hsh, ← hstep]; rfl

/-- a controller step: stutter or `stepMaster` -/
theorem abs_master (P : Progs) (T : Tables P) (s : IState) (hc : s.ctl.stack ∈ stacksOf P .apply)
    (hl : phaseA (absM P s.sh.len s.ctl) = false → (settle P s.sh.len settleFuel s.ctl).length = s.sh.len) :
    (abs P (istep P s (.thr 0)) = abs P s ∨ abs P (istep P s (.thr 0)) = step (abs P s) (.thr 0)) ∧
      (phaseA (absM P (istep P s (.thr 0)).sh.len (istep P s (.thr 0)).ctl) = false →
        (settle P (istep P s (.thr 0)).sh.len settleFuel (istep P s (.thr 0)).ctl).length = (istep P s (.thr 0)).sh.len) := by
  have hlen := opStep_len P (s.ws.length + 1) s.ctl s.sh
  have hi : abs P (istep P s (.thr 0)) =
      mkState (absM P s.sh.len (opStep P (s.ws.length + 1) s.ctl s.sh).1) (s.ws.map (absW P s.sh.len))
        (opStep P (s.ws.length + 1) s.ctl s.sh).2 := by
    simp only [istep, abs_eq, hlen]
  have hi2 : (istep P s (.thr 0)).sh.len = s.sh.len := hlen
  have hi3 : (istep P s (.thr 0)).ctl = (opStep P (s.ws.length + 1) s.ctl s.sh).1 := rfl
  rw [hi2, hi3]
  rcases mthread_sim P T s.ctl hc s.sh (s.ws.length + 1) hl with ⟨hg, ha⟩ | ⟨hstep, hl'⟩
  · refine ⟨Or.inl ?_, ?_⟩
    · rw [hi, hg]; unfold absM; rw [ha]; rfl
    · unfold absM at hl ⊢; rw [ha]; exact hl
  · refine ⟨Or.inr ?_, hl'⟩
    rw [hi]
    have : step (abs P s) (.thr 0) = stepMaster (abs P s) := rfl
    rw [this, stepMaster_local (abs P s)]
    have hsh : shOf (abs P s) = s.sh := rfl
    have hnw : numWorkers (abs P s) = s.ws.length + 1 := by simp [numWorkers, abs]
    have hm : (abs P s).m = absM P s.sh.len s.ctl := rfl
    rw [hsh, hnw, hm, ← hstep]; rfl

theorem absM_entry (P : Progs) (T : Tables P) (len i l r : Nat) : absM P len ⟨[⟨.apply, 0⟩], i, l, r⟩ = .setIdx := by
  unfold absM
  rw [settle_sym]
  have h := all4_spec _ T.entry (decide (i < l)) (decide (i < len))
  simp only [decide_eq_true_eq] at h
  simp only [pointM, Sym.conc, h]

/-- `apply` when the controller is idle: the step of the hand-written system (every worker is parked, so no cached length
is invalidated); otherwise nothing happens -/
theorem abs_apply (P : Progs) (T : Tables P) (n : Nat) (s : IState) (L : Nat) (hS : Sim P n s) :
    (abs P (istep P s (.apply L)) = abs P s ∨ abs P (istep P s (.apply L)) = step (abs P s) (.apply L)) ∧
      (istep P s (.apply L)).ctl.stack ∈ stacksOf P .apply ∧
      (phaseA (absM P (istep P s (.apply L)).sh.len (istep P s (.apply L)).ctl) = false →
        (settle P (istep P s (.apply L)).sh.len settleFuel (istep P s (.apply L)).ctl).length = (istep P s (.apply L)).sh.len) := by
  cases hst : s.ctl.stack with
  | cons fr rest =>
    have : istep P s (.apply L) = s := by simp [istep, hst]
    rw [this]
    exact ⟨Or.inl rfl, hS.cst, hS.clen⟩
  | nil =>
    have hidle : (abs P s).m = .idle := absM_idle P _ _ hst
    obtain ⟨es', hes⟩ := hS.reach
    have hI : Inv (abs P s) := by rw [hes]; exact (inv_reach n es').1
    have hpark := hI.pa (by rw [hidle]; rfl)
    have hws : s.ws.map (absW P L) = s.ws.map (absW P s.sh.len) := by
      apply List.map_congr_left
      intro t ht
      have h1 : absW P s.sh.len t = .wait ((abs P s).wr + 1) := hpark _ (List.mem_map_of_mem ht)
      rw [h1]
      exact absW_len_indep P t (T.lenW _ (hS.wst t ht)) s.sh.len L _ h1
    have hi : istep P s (.apply L) =
        { s with ctl := { s.ctl with stack := [⟨.apply, 0⟩] }, sh := { s.sh with len := L, cnt := fun _ => 0 } } := by
      simp [istep, hst]
    have hm : absM P L { s.ctl with stack := [⟨.apply, 0⟩] } = .setIdx := absM_entry P T L _ _ _
    refine ⟨Or.inr ?_, ?_, ?_⟩
    · have hstep : step (abs P s) (.apply L) = { abs P s with len := L, cnt := fun _ => 0, m := .setIdx } := by
        simp only [step, hidle]
      rw [hstep, hi]
      simp only [abs_eq, hm, hws]
      rfl
    · rw [hi]; exact T.entryMem
    · rw [hi]; intro h; simp only [hm, phaseA] at h; cases h

theorem sim_step (P : Progs) (T : Tables P) (n : Nat) (s : IState) (e : Ev) (hS : Sim P n s) : Sim P n (istep P s e) := by
  obtain ⟨es', hes⟩ := hS.reach
  have hreach : ∀ s', (abs P s' = abs P s ∨ abs P s' = step (abs P s) e) → ∃ es'', abs P s' = run (init n) es'' := by
    intro s' h
    rcases h with h | h
    · exact ⟨es', by rw [h, hes]⟩
    · exact ⟨es' ++ [e], by rw [h, hes, run_append]; rfl⟩
  cases e with
  | apply L =>
    obtain ⟨h1, h2, h3⟩ := abs_apply P T n s L hS
    refine ⟨h2, ?_, h3, hreach _ h1⟩
    have : (istep P s (.apply L)).ws = s.ws := by
      simp only [istep]; split <;> rfl
    rw [this]; exact hS.wst
  | thr t =>
    cases t with
    | zero =>
      obtain ⟨h1, h2⟩ := abs_master P T s hS.cst hS.clen
      exact ⟨opStep_mem P .apply T.closedM _ _ _ hS.cst, hS.wst, h2, hreach _ h1⟩
    | succ k =>
      have h1 := abs_worker P T s k hS.wst
      cases hk : s.ws[k]? with
      | none =>
        have : istep P s (.thr (k + 1)) = s := by simp [istep, hk]
        rw [this]; exact hS
      | some t =>
        have htm : t ∈ s.ws := List.mem_of_getElem? hk
        have hi : istep P s (.thr (k + 1)) =
            { s with ws := s.ws.set k (opStep P (s.ws.length + 1) t s.sh).1, sh := (opStep P (s.ws.length + 1) t s.sh).2 } := by
          simp [istep, hk]
        have hlen := opStep_len P (s.ws.length + 1) t s.sh
        refine ⟨?_, ?_, ?_, hreach _ h1⟩
        · rw [hi]; exact hS.cst
        · rw [hi]
          intro t' ht'
          rcases List.mem_or_eq_of_mem_set ht' with h | h
          · exact hS.wst t' h
          · rw [h]; exact opStep_mem P .workerMain T.closedW _ _ _ (hS.wst t htm)
        · rw [hi]; simp only [hlen]; exact hS.clen

theorem sim_run (P : Progs) (T : Tables P) (n : Nat) (es : List Ev) (s : IState) (hS : Sim P n s) : Sim P n (irun P s es) := by
  induction es generalizing s with
  | nil => exact hS
  | cons e es ih => exact ih _ (sim_step P T n s e hS)

/-- every state of the interpretation of the generated programs is, through `abs`, a reachable state of the hand-written system -/
theorem sim_reach (m : Mode) (n : Nat) (es : List Ev) : Sim (progs m) n (irun (progs m) (iinit n) es) :=
  sim_run _ (tables m) n es _ (sim_init _ (tables m) n)

/-! ### reading program points of the interpreter state -/

/-- thread `k` of the interpreter state (0 = controller) -/
def IState.thread (s : IState) : Nat → Option Thread
  | 0 => some s.ctl
  | k + 1 => s.ws[k]?

/-- thread `k`'s next micro-op is `worker_fun((*common_data)[index])` with `index = i` -/
def atCall (P : Progs) (s : IState) (k i : Nat) : Prop :=
  (s.thread k).any (fun t => decide (topOp P t.stack = some .callFun) && decide (t.index = i)) = true

instance (P : Progs) (s : IState) (k i : Nat) : Decidable (atCall P s k i) := by
  unfold atCall; infer_instance

theorem callAt_abs (P : Progs) (s : IState) (k i : Nat) (h : atCall P s k i) : callAt (abs P s) k = some i := by
  unfold atCall at h
  cases ht : s.thread k with
  | none => simp [ht] at h
  | some t =>
  simp only [ht, Option.any_some, Bool.and_eq_true, decide_eq_true_eq] at h
  obtain ⟨htop, hi⟩ := h
  have hs := settled_of_top P t.stack _ htop rfl
  cases k with
  | zero =>
    simp only [IState.thread, Option.some.injEq] at ht
    subst ht
    show callIdxM (absM P s.sh.len s.ctl) = some i
    rw [absM_settled P _ _ hs]
    simp [pointM, htop, callIdxM, hi]
  | succ k =>
    simp only [IState.thread] at ht
    show ((s.ws.map (absW P s.sh.len))[k]?).bind callIdxW = some i
    simp only [List.getElem?_map, ht, Option.map_some, Option.bind_some]
    rw [absW_settled P _ _ hs]
    simp [pointW, htop, callIdxW, hi]

/-- the controller's next micro-op is the (re-)read of `thread_counter` in master_wait -/
theorem absM_waitDone (P : Progs) (len : Nat) (t : Thread) (h : topOp P t.stack = some .waitTCgeN) : absM P len t = .waitDone := by
  rw [absM_settled P _ _ (settled_of_top P t.stack _ h rfl)]
  simp [pointM, h]

end SgVerif.C49
