import SgVerif.C49.Model
/-
C49 — a GENERIC INTERPRETER of the micro-op programs (the language of `MicroOp`, Model.lean) and the ABSTRACTION that maps
an interpreter state to a state of the hand-written transition system of Model.lean.

The interpreter knows nothing about the protocol: it executes whatever lists of micro-ops it is given (`Progs`), one
micro-op of one thread per step, with a call stack per thread (`call*` pushes the callee's frame, the end of a program pops),
structured loops (`whileIndexLtLength … endWhile`, `loopForever … endLoop`, matched by bracket counting), the thread's
locals (`index`, `length`, `round`) and the shared variables (`common_index`, `thread_counter`, `work_round`, the data
size) + the ghost counters.  Props.lean instantiates it with the programs GENERATED from parmap.hpp (Gen.lean) and proves
that the hand-written system `step`/`run` is exactly the abstraction `abs` of this interpretation (forward simulation), so
that every safety theorem holds for the interpretation of the generated code.

Outside the interpreter (as in Model.lean): weak memory, wrap-around of `work_round`, the destructor (`breakIfDestroying`
is never taken: `destroying` is only set by `~Parmap`), `Parmap::next` (its tokens are not part of `apply`'s call graph: they
are executed as plain "advance").  Blocking waits are re-reads (busy-wait semantics; spurious wake-ups allowed).
-/
namespace SgVerif.C49

/-- the programs a thread can be executing -/
inductive Fn where
  | apply | work | workerMain | masterSignal | masterWait | workerSignal | workerWait
  deriving Repr, DecidableEq

/-- a program environment: the three Parmap methods + the four methods of the chosen synchronisation mode -/
structure Progs where
  apply : List MicroOp
  work : List MicroOp
  workerMain : List MicroOp
  syn : Synchro

def Progs.code (P : Progs) : Fn → List MicroOp
  | .apply => P.apply
  | .work => P.work
  | .workerMain => P.workerMain
  | .masterSignal => P.syn.masterSignal
  | .masterWait => P.syn.masterWait
  | .workerSignal => P.syn.workerSignal
  | .workerWait => P.syn.workerWait

structure Frame where
  fn : Fn
  pc : Nat
  deriving Repr, DecidableEq

/-- a thread: call stack (top first; the frame below the top holds the return pc) + the locals of the C++ code -/
structure Thread where
  stack : List Frame
  index : Nat            -- `index` of work()
  length : Nat           -- `length` of work()
  round : Nat            -- `round` of worker_main()
  deriving Repr

/-- shared variables of the Parmap object + ghosts -/
structure Shared where
  ci : Nat               -- common_index
  tc : Nat               -- thread_counter
  wr : Nat               -- work_round
  len : Nat              -- common_data->size()
  cnt : Nat → Nat        -- ghost: calls of worker_fun per element during the current apply
  applies : Nat          -- ghost: number of times master_wait let apply return

structure IState where
  ctl : Thread           -- thread 0: the caller of apply (empty stack = not in apply)
  ws : List Thread       -- workers 1 .. num_workers-1
  sh : Shared

def IState.cnt (s : IState) : Nat → Nat := s.sh.cnt
def IState.len (s : IState) : Nat := s.sh.len
def IState.tc (s : IState) : Nat := s.sh.tc
def IState.wr (s : IState) : Nat := s.sh.wr
def IState.ci (s : IState) : Nat := s.sh.ci
def IState.numWorkers (s : IState) : Nat := s.ws.length + 1

/-- which program a `call*` micro-op enters -/
def callee : MicroOp → Option Fn
  | .callMasterSignal => some .masterSignal
  | .callWork => some .work
  | .callMasterWait => some .masterWait
  | .callWorkerWait => some .workerWait
  | .callWorkerSignal => some .workerSignal
  | _ => none

def isWhile : MicroOp → Bool
  | .whileIndexLtLength => true
  | _ => false
def isEndWhile : MicroOp → Bool
  | .endWhile => true
  | _ => false
def isLoop : MicroOp → Bool
  | .loopForever => true
  | _ => false
def isEndLoop : MicroOp → Bool
  | .endLoop => true
  | _ => false

/-- bracket matching: scanning `l` (the code right after an opening bracket) with `d` further brackets open, the number of
micro-ops up to and including the matching closing bracket (whole rest of the list if there is none) -/
def skipClose (isO isC : MicroOp → Bool) : List MicroOp → Nat → Nat
  | [], _ => 0
  | x :: t, d =>
    if isC x then (match d with
      | 0 => 1
      | d + 1 => 1 + skipClose isO isC t d)
    else if isO x then 1 + skipClose isO isC t (d + 1)
    else 1 + skipClose isO isC t d

/-- the micro-op the thread executes next (`none`: idle, or at the end of a program = about to return) -/
def topOp (P : Progs) : List Frame → Option MicroOp
  | [] => none
  | fr :: _ => (P.code fr.fn)[fr.pc]?

/-- control successor of a stack when its top micro-op is executed; `b` = outcome of the test of `whileIndexLtLength`
(ignored by every other micro-op).  Waits that do not pass are handled by `opStep` (the stack is left alone). -/
def nextStack (P : Progs) (stk : List Frame) (b : Bool) : List Frame :=
  match stk with
  | [] => []
  | fr :: rest =>
    let code := P.code fr.fn
    match code[fr.pc]? with
    | none => rest                                                       -- end of the program: return to the caller
    | some op =>
      match callee op with
      | some g => ⟨g, 0⟩ :: ⟨fr.fn, fr.pc + 1⟩ :: rest                   -- call: push the callee, remember the return pc
      | none =>
        match op with
        | .whileIndexLtLength =>
          if b then ⟨fr.fn, fr.pc + 1⟩ :: rest
          else ⟨fr.fn, fr.pc + 1 + skipClose isWhile isEndWhile (code.drop (fr.pc + 1)) 0⟩ :: rest
        | .endWhile => ⟨fr.fn, fr.pc - skipClose isEndWhile isWhile (code.take fr.pc).reverse 0⟩ :: rest   -- back to the test
        | .endLoop => ⟨fr.fn, fr.pc - skipClose isEndLoop isLoop (code.take fr.pc).reverse 0⟩ :: rest
        | _ => ⟨fr.fn, fr.pc + 1⟩ :: rest

/-- micro-ops that read or write a shared variable of the protocol (one step of the hand-written system each);
everything else only moves the thread's own control / locals (`loadLength` reads the data size, which is constant while
any thread can be there: see `abs`) -/
def visible : MicroOp → Bool
  | .storeIndex _ | .fetchIndex | .callFun | .storeTC _ | .incRound | .incTC | .waitTCgeN | .waitRoundEq => true
  | _ => false

/-- the thread is idle or its next micro-op is a visible one -/
def settledStk (P : Progs) (stk : List Frame) : Bool :=
  match stk with
  | [] => true
  | _ :: _ =>
    match topOp P stk with
    | some op => visible op
    | none => false

/-- one local (non-visible) micro-op of a thread; `len` = the current data size (read by `loadLength`).
Identity on an idle thread. -/
def localStep (P : Progs) (len : Nat) (t : Thread) : Thread :=
  match t.stack with
  | [] => t
  | _ :: _ =>
    match topOp P t.stack with
    | none => { t with stack := nextStack P t.stack true }
    | some op =>
      match op with
      | .whileIndexLtLength => { t with stack := nextStack P t.stack (decide (t.index < t.length)) }
      | .loadLength => { t with stack := nextStack P t.stack true, length := len }
      | .initRound v => { t with stack := nextStack P t.stack true, round := v }
      | .incLocalRound => { t with stack := nextStack P t.stack true, round := t.round + 1 }
      | _ => { t with stack := nextStack P t.stack true }      -- nop, setFun, setData, call*, loop brackets, breakIfDestroying (not taken)

/-- one micro-op of thread `t` (atomic).  `nw` = num_workers. -/
def opStep (P : Progs) (nw : Nat) (t : Thread) (g : Shared) : Thread × Shared :=
  match topOp P t.stack with
  | some (.storeIndex v) => ({ t with stack := nextStack P t.stack true }, { g with ci := v })
  | some .fetchIndex => ({ t with stack := nextStack P t.stack true, index := g.ci }, { g with ci := g.ci + 1 })
  | some .callFun => ({ t with stack := nextStack P t.stack true }, { g with cnt := bump g.cnt t.index })
  | some (.storeTC v) => ({ t with stack := nextStack P t.stack true }, { g with tc := v })
  | some .incRound => ({ t with stack := nextStack P t.stack true }, { g with wr := g.wr + 1 })
  | some .incTC => ({ t with stack := nextStack P t.stack true }, { g with tc := g.tc + 1 })
  | some .waitTCgeN =>
    if nw ≤ g.tc then ({ t with stack := nextStack P t.stack true }, { g with applies := g.applies + 1 }) else (t, g)
  | some .waitRoundEq => if g.wr = t.round then ({ t with stack := nextStack P t.stack true }, g) else (t, g)
  | _ => (localStep P g.len t, g)

/-- one event of the schedule -/
def istep (P : Progs) (s : IState) : Ev → IState
  | .apply len =>
    match s.ctl.stack with
    | [] => { s with ctl := { s.ctl with stack := [⟨.apply, 0⟩] }, sh := { s.sh with len := len, cnt := fun _ => 0 } }
    | _ :: _ => s
  | .thr 0 =>
    { s with ctl := (opStep P (s.ws.length + 1) s.ctl s.sh).1, sh := (opStep P (s.ws.length + 1) s.ctl s.sh).2 }
  | .thr (k + 1) =>
    match s.ws[k]? with
    | none => s
    | some t =>
      { s with ws := s.ws.set k (opStep P (s.ws.length + 1) t s.sh).1, sh := (opStep P (s.ws.length + 1) t s.sh).2 }

def irun (P : Progs) (s : IState) : List Ev → IState
  | [] => s
  | e :: es => irun P (istep P s e) es

/-- a fresh Parmap with `n` workers besides the controller: the controller is idle, every worker starts `worker_main` -/
def iinit (n : Nat) : IState :=
  { ctl := ⟨[], 0, 0, 0⟩, ws := List.replicate n ⟨[⟨.workerMain, 0⟩], 0, 0, 0⟩,
    sh := { ci := 0, tc := 0, wr := 0, len := 0, cnt := fun _ => 0, applies := 0 } }

/-! ### the abstraction to the hand-written transition system -/

/-- run the thread's local micro-ops until its next micro-op is visible (or it is idle), at most `fuel` of them -/
def settle (P : Progs) (len : Nat) : Nat → Thread → Thread
  | 0, t => t
  | fuel + 1, t => if settledStk P t.stack then t else settle P len fuel (localStep P len t)

/-- bound on the number of consecutive local micro-ops (checked on the concrete programs: `settlesWithin`) -/
def settleFuel : Nat := 40

/-- program point of the hand-written system for a worker whose next micro-op is visible -/
def pointW (P : Progs) (t : Thread) : WPc :=
  match topOp P t.stack with
  | some .waitRoundEq => .wait t.round
  | some .fetchIndex => .fetch t.round t.length
  | some .callFun => .call t.round t.length t.index
  | some .incTC => .signal t.round
  | _ => .wait 0          -- not a program point of a worker (unreachable; makes the simulation proof fail if reached)

/-- program point of the hand-written system for the controller whose next micro-op is visible (or idle) -/
def pointM (P : Progs) (t : Thread) : MPc :=
  match topOp P t.stack with
  | some (.storeIndex 0) => .setIdx
  | some (.storeTC 1) => .sigStore
  | some .incRound => .sigInc
  | some .fetchIndex => .fetch
  | some .callFun => .call t.index
  | some .waitTCgeN => .waitDone
  | _ => .idle            -- empty stack: not in apply (any other micro-op: not a program point of the controller, unreachable)

/-- a worker's program point = the next visible micro-op it will execute -/
def absW (P : Progs) (len : Nat) (t : Thread) : WPc := pointW P (settle P len settleFuel t)
def absM (P : Progs) (len : Nat) (t : Thread) : MPc := pointM P (settle P len settleFuel t)

def abs (P : Progs) (s : IState) : State :=
  { m := absM P s.sh.len s.ctl, ws := s.ws.map (absW P s.sh.len), ci := s.sh.ci, tc := s.sh.tc, wr := s.sh.wr,
    len := s.sh.len, cnt := s.sh.cnt, applies := s.sh.applies }

/-! ### finite control skeleton of a program environment (decidable checks used by the simulation proof) -/

def pcsOf (P : Progs) (f : Fn) (below : List Frame) : List (List Frame) :=
  (List.range ((P.code f).length + 1)).map (fun pc => ⟨f, pc⟩ :: below)

/-- every call stack a thread whose root program is `root` can have (call depth ≤ 2), and the empty stack -/
def stacksOf (P : Progs) (root : Fn) : List (List Frame) :=
  [] :: (pcsOf P root [] ++ (List.range (P.code root).length).flatMap (fun pc =>
    match ((P.code root)[pc]?).bind callee with
    | some g => pcsOf P g [⟨root, pc + 1⟩]
    | none => []))

/-- from `stk`, along every outcome of the loop tests, at most `fuel` local micro-ops lead to a visible one -/
def settlesWithin (P : Progs) : Nat → List Frame → Bool
  | 0, stk => settledStk P stk
  | fuel + 1, stk =>
    settledStk P stk ||
      (match topOp P stk with
       | some .whileIndexLtLength => settlesWithin P fuel (nextStack P stk true) && settlesWithin P fuel (nextStack P stk false)
       | _ => settlesWithin P fuel (nextStack P stk true))

end SgVerif.C49
