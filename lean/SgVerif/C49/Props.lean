import SgVerif.C49.InterpLemmas
/-
C49 — Parallel map processes each element exactly once.  Property theorems (nothing else in this file).

"Parmap applies the function to every element of the vector exactly once per apply, for any number of worker threads and
any synchronization mode."

Part 1 (tie to the source, syntactic): the micro-op programs GENERATED from src/xbt/parmap.hpp (Gen.lean), with the
stuttering micro-ops removed, are the lists `expected*` of Model.lean — for apply, work, next, worker_main and for each of
the three synchronisation modes.
Part 2: theorems about the hand-written transition system `step`/`run` of Model.lean for EVERY number of workers, EVERY
vector length, EVERY schedule (list of events, including any number of successive applies).
Part 3 (tie to the source, semantic): a GENERIC INTERPRETER of micro-op programs (Interp.lean: call stacks, structured loops,
locals, shared variables; it knows nothing about the protocol) runs the GENERATED programs; `gen_forward_simulation` /
`gen_refines_model` prove that the hand-written system of Part 2 is exactly the abstraction of that interpretation (program
point of a thread = its next micro-op touching a shared variable), for the three modes; `gen_each_index_at_most_once`,
`gen_index_handed_to_one_thread`, `gen_apply_returns_after_all_done`, `gen_each_index_exactly_once`,
`gen_no_leak_between_rounds` restate the theorems of Part 2 on the interpreter states themselves.  So "the step function
implements the generated lists" is no longer by inspection.
Sequentially consistent atomics, waits = re-reads (safety only); see Model.lean / Interp.lean for what is outside.
-/
namespace SgVerif.C49

def coreS (x : Synchro) : Synchro :=
  { masterSignal := core x.masterSignal, masterWait := core x.masterWait,
    workerSignal := core x.workerSignal, workerWait := core x.workerWait }

/-! ### Part 1: the generated programs are the modelled ones (finite tables: `decide` is a proof here) -/
theorem gen_apply_core : core Gen.apply = expectedApply := by decide
theorem gen_work_core : core Gen.work = expectedWork := by decide
theorem gen_next_core : core Gen.next = expectedNext := by decide
theorem gen_workerMain_core : core Gen.workerMain = expectedWorkerMain := by decide
theorem gen_posix_core : coreS Gen.posix = expectedSynchro := by decide
theorem gen_futex_core : coreS Gen.futex = expectedSynchro := by decide
theorem gen_busy_core : coreS Gen.busy = expectedSynchro := by decide

/-! ### Part 2 -/

/-- the function is applied to each element at most once during an apply -/
theorem each_index_at_most_once (n : Nat) (es : List Ev) (j : Nat) : (run (init n) es).cnt j ≤ 1 :=
  (inv_reach n es).1.le1 j

/-- the index counter hands out each index to at most one thread: two threads about to call `worker_fun` hold different
indices, each is a valid index of the vector not processed yet -/
theorem index_handed_to_one_thread (n : Nat) (es : List Ev) (k1 k2 i : Nat)
    (h1 : callAt (run (init n) es) k1 = some i) (h2 : callAt (run (init n) es) k2 = some i) :
    k1 = k2 ∧ i < (run (init n) es).len ∧ (run (init n) es).cnt i = 0 :=
  ⟨(inv_reach n es).1.cb k1 k2 i h1 h2, ((inv_reach n es).1.ca k1 i h1).2⟩

/-- when `master_wait` reads a `thread_counter` that lets `apply` return, every element was processed exactly once,
nothing beyond the vector was touched, and every worker is parked in `worker_wait(next round)` -/
theorem apply_returns_after_all_done (n : Nat) (es : List Ev)
    (hm : (run (init n) es).m = .waitDone) (htc : numWorkers (run (init n) es) ≤ (run (init n) es).tc) :
    (∀ j, j < (run (init n) es).len → (run (init n) es).cnt j = 1) ∧
    (∀ j, (run (init n) es).len ≤ j → (run (init n) es).cnt j = 0) ∧
    (∀ w ∈ (run (init n) es).ws, w = .wait ((run (init n) es).wr + 1)) := by
  obtain ⟨hI, hc⟩ := inv_reach n es
  generalize run (init n) es = s at *
  have hB : phaseA s.m = false := by simp [hm, phaseA]
  have hall : ∀ w ∈ s.ws, w = .wait (s.wr + 1) := by
    have h1 := hI.btc hB
    have h2 := List.countP_le_length (p := finished s.wr) (l := s.ws)
    have h3 : s.ws.countP (finished s.wr) = s.ws.length := by simp only [numWorkers] at htc; omega
    rw [List.countP_eq_length] at h3
    intro w hw; exact finished_eq _ _ (h3 w hw)
  have hnone : ∀ k, callAt s k = none := by
    intro k
    cases k with
    | zero => simp [callAt, hm, callIdxM]
    | succ k =>
      simp only [callAt]
      cases hw : s.ws[k]? with
      | none => rfl
      | some w => rw [hall w (mem_of_get _ _ _ hw)]; rfl
  refine ⟨?_, hc, hall⟩
  intro j hj
  have hle := hI.le1 j
  have hwd := hI.wd hm
  by_cases h0 : s.cnt j = 0
  · obtain ⟨k, hk⟩ := hI.cc hB j h0 (by omega) hj
    rw [hnone] at hk; cases hk
  · omega

/-- **exactly once per apply** -/
theorem each_index_exactly_once (n : Nat) (es : List Ev)
    (hm : (run (init n) es).m = .waitDone) (htc : numWorkers (run (init n) es) ≤ (run (init n) es).tc) (j : Nat) :
    (run (init n) es).cnt j = if j < (run (init n) es).len then 1 else 0 := by
  obtain ⟨h1, h2, _⟩ := apply_returns_after_all_done n es hm htc
  split
  · rename_i h; exact h1 j h
  · rename_i h; exact h2 j (by omega)

/-- repeated applies do not leak work between rounds: whenever the controller is outside the parallel section (between two
applies, or preparing the next one before `work_round` is incremented) every worker is parked in `worker_wait` for the
next round and no thread is inside `work()`; inside the section every worker works for the current round on the current
vector length -/
theorem no_leak_between_rounds (n : Nat) (es : List Ev) :
    (phaseA (run (init n) es).m = true →
      (∀ w ∈ (run (init n) es).ws, w = .wait ((run (init n) es).wr + 1)) ∧ ∀ k, callAt (run (init n) es) k = none) ∧
    (phaseA (run (init n) es).m = false →
      ∀ w ∈ (run (init n) es).ws, wOK (run (init n) es).wr (run (init n) es).len w = true) := by
  obtain ⟨hI, _⟩ := inv_reach n es
  exact ⟨fun hA => ⟨hI.pa hA, callAt_none_A _ hI hA⟩, hI.pb⟩

/-! ### non-vacuity: 1 worker + controller, vector of 2, an interleaving that reaches the returning read of master_wait -/
def demo : List Ev :=
  [.apply 2, .thr 0, .thr 0, .thr 0, .thr 1, .thr 1, .thr 0, .thr 1, .thr 0, .thr 0, .thr 1, .thr 0, .thr 1]

example : (run (init 1) demo).m = .waitDone ∧ numWorkers (run (init 1) demo) ≤ (run (init 1) demo).tc ∧
    (run (init 1) demo).cnt 0 = 1 ∧ (run (init 1) demo).cnt 1 = 1 ∧ (run (init 1) demo).cnt 2 = 0 := by decide

/-- a second apply after the first one returned (round 2), length 1, processed by the worker -/
example : (run (init 1) (demo ++ [.thr 0, .apply 1, .thr 0, .thr 0, .thr 0, .thr 1, .thr 1, .thr 1, .thr 0, .thr 1, .thr 1])).applies = 1 ∧
    (run (init 1) (demo ++ [.thr 0, .apply 1, .thr 0, .thr 0, .thr 0, .thr 1, .thr 1, .thr 1, .thr 0, .thr 1, .thr 1])).cnt 0 = 1 ∧
    (run (init 1) (demo ++ [.thr 0, .apply 1, .thr 0, .thr 0, .thr 0, .thr 1, .thr 1, .thr 1, .thr 0, .thr 1, .thr 1])).tc = 2 := by decide

/-! ### Part 3: the same theorems about the GENERIC INTERPRETATION of the GENERATED programs

`irun (progs mode) (iinit n) es` = the interpreter of Interp.lean (call stacks, structured loops, locals, one micro-op of one
thread per event) executing the micro-op programs generated from parmap.hpp for `mode ∈ {posix, futex, busy}`, with `n`
workers, under the schedule `es`.  `abs` maps an interpreter state to a state of the hand-written system: the program point
of a thread is the next micro-op it will execute that touches a shared variable.  The hand-written system of Part 2 is
exactly that abstraction (forward simulation: every micro-op is a stuttering step or the step of `step`), so every theorem
of Part 2 holds for the generated code — for every mode, number of workers, vector length and schedule.  The finite
control-flow facts (`tables`, InterpLemmas.lean) are checked by `decide` on the generated lists: a change of parmap.hpp that
alters the protocol makes them false, an inserted lock/log/yield statement (`nop`) does not. -/

/-- **forward simulation**: one event of the interpretation of the generated programs is a stuttering step of the
hand-written system or exactly its step for the same event -/
theorem gen_forward_simulation (mode : Mode) (n : Nat) (es : List Ev) (e : Ev) :
    abs (progs mode) (istep (progs mode) (irun (progs mode) (iinit n) es) e) = abs (progs mode) (irun (progs mode) (iinit n) es) ∨
    abs (progs mode) (istep (progs mode) (irun (progs mode) (iinit n) es) e) =
      step (abs (progs mode) (irun (progs mode) (iinit n) es)) e := by
  have hS := sim_reach mode n es
  cases e with
  | apply L => exact (abs_apply _ (tables mode) n _ L hS).1
  | thr t =>
    cases t with
    | zero => exact (abs_master _ (tables mode) _ hS.cst hS.clen).1
    | succ k => exact abs_worker _ (tables mode) _ k hS.wst

/-- **refinement**: every state of the interpretation of the generated programs abstracts to a reachable state of the
hand-written system, and the initial states correspond -/
theorem gen_refines_model (mode : Mode) (n : Nat) (es : List Ev) :
    abs (progs mode) (iinit n) = init n ∧ ∃ es', abs (progs mode) (irun (progs mode) (iinit n) es) = run (init n) es' := by
  exact ⟨abs_iinit (progs mode) (tables mode) n, (sim_reach mode n es).reach⟩

/-- the function is applied to each element at most once during an apply (generated code) -/
theorem gen_each_index_at_most_once (mode : Mode) (n : Nat) (es : List Ev) (j : Nat) :
    (irun (progs mode) (iinit n) es).cnt j ≤ 1 := by
  obtain ⟨es', h⟩ := (sim_reach mode n es).reach
  have := each_index_at_most_once n es' j
  rw [← h] at this; exact this

/-- two threads whose next micro-op is the call of `worker_fun` hold different indices, valid and not yet processed -/
theorem gen_index_handed_to_one_thread (mode : Mode) (n : Nat) (es : List Ev) (k1 k2 i : Nat)
    (h1 : atCall (progs mode) (irun (progs mode) (iinit n) es) k1 i)
    (h2 : atCall (progs mode) (irun (progs mode) (iinit n) es) k2 i) :
    k1 = k2 ∧ i < (irun (progs mode) (iinit n) es).len ∧ (irun (progs mode) (iinit n) es).cnt i = 0 := by
  obtain ⟨es', h⟩ := (sim_reach mode n es).reach
  have := index_handed_to_one_thread n es' k1 k2 i (by rw [← h]; exact callAt_abs _ _ _ _ h1) (by rw [← h]; exact callAt_abs _ _ _ _ h2)
  rw [← h] at this; exact this

/-- when the controller's next micro-op is the read of `thread_counter` in master_wait and that read lets `apply` return:
every element was processed exactly once, nothing beyond the vector was touched, and every worker's next visible micro-op
is the read of `work_round` in `worker_wait(work_round + 1)` -/
theorem gen_apply_returns_after_all_done (mode : Mode) (n : Nat) (es : List Ev)
    (hm : topOp (progs mode) (irun (progs mode) (iinit n) es).ctl.stack = some .waitTCgeN)
    (htc : (irun (progs mode) (iinit n) es).numWorkers ≤ (irun (progs mode) (iinit n) es).tc) :
    (∀ j, j < (irun (progs mode) (iinit n) es).len → (irun (progs mode) (iinit n) es).cnt j = 1) ∧
    (∀ j, (irun (progs mode) (iinit n) es).len ≤ j → (irun (progs mode) (iinit n) es).cnt j = 0) ∧
    (∀ t ∈ (irun (progs mode) (iinit n) es).ws,
      absW (progs mode) (irun (progs mode) (iinit n) es).len t = .wait ((irun (progs mode) (iinit n) es).wr + 1)) := by
  obtain ⟨es', h⟩ := (sim_reach mode n es).reach
  have hm' : (run (init n) es').m = .waitDone := by rw [← h]; exact absM_waitDone _ _ _ hm
  have htc' : numWorkers (run (init n) es') ≤ (run (init n) es').tc := by
    rw [← h]; simpa [numWorkers, abs, IState.numWorkers, IState.tc] using htc
  obtain ⟨a, b, c⟩ := apply_returns_after_all_done n es' hm' htc'
  rw [← h] at a b c
  exact ⟨a, b, fun t ht => c _ (List.mem_map_of_mem ht)⟩

/-- **exactly once per apply** (generated code) -/
theorem gen_each_index_exactly_once (mode : Mode) (n : Nat) (es : List Ev)
    (hm : topOp (progs mode) (irun (progs mode) (iinit n) es).ctl.stack = some .waitTCgeN)
    (htc : (irun (progs mode) (iinit n) es).numWorkers ≤ (irun (progs mode) (iinit n) es).tc) (j : Nat) :
    (irun (progs mode) (iinit n) es).cnt j = if j < (irun (progs mode) (iinit n) es).len then 1 else 0 := by
  obtain ⟨h1, h2, _⟩ := gen_apply_returns_after_all_done mode n es hm htc
  split
  · rename_i h; exact h1 j h
  · rename_i h; exact h2 j (by omega)

/-- repeated applies do not leak work between rounds (generated code): while the controller's next visible micro-op is
outside the parallel section (idle, or before `work_round` is incremented) every worker's next visible micro-op is the read
of `work_round` in `worker_wait(work_round + 1)` and no thread is about to call `worker_fun`; inside the section every
worker works for the current round with the current vector length.  In particular when the controller is not in `apply`
(empty call stack) all workers are parked. -/
theorem gen_no_leak_between_rounds (mode : Mode) (n : Nat) (es : List Ev) :
    (phaseA (absM (progs mode) (irun (progs mode) (iinit n) es).len (irun (progs mode) (iinit n) es).ctl) = true →
      (∀ t ∈ (irun (progs mode) (iinit n) es).ws,
        absW (progs mode) (irun (progs mode) (iinit n) es).len t = .wait ((irun (progs mode) (iinit n) es).wr + 1)) ∧
      ∀ k i, ¬ atCall (progs mode) (irun (progs mode) (iinit n) es) k i) ∧
    (phaseA (absM (progs mode) (irun (progs mode) (iinit n) es).len (irun (progs mode) (iinit n) es).ctl) = false →
      ∀ t ∈ (irun (progs mode) (iinit n) es).ws,
        wOK (irun (progs mode) (iinit n) es).wr (irun (progs mode) (iinit n) es).len
          (absW (progs mode) (irun (progs mode) (iinit n) es).len t) = true) ∧
    ((irun (progs mode) (iinit n) es).ctl.stack = [] →
      ∀ t ∈ (irun (progs mode) (iinit n) es).ws,
        absW (progs mode) (irun (progs mode) (iinit n) es).len t = .wait ((irun (progs mode) (iinit n) es).wr + 1)) := by
  obtain ⟨es', h⟩ := (sim_reach mode n es).reach
  obtain ⟨hA, hB⟩ := no_leak_between_rounds n es'
  rw [← h] at hA hB
  have h1 : phaseA (absM (progs mode) (irun (progs mode) (iinit n) es).len (irun (progs mode) (iinit n) es).ctl) = true →
      (∀ t ∈ (irun (progs mode) (iinit n) es).ws,
        absW (progs mode) (irun (progs mode) (iinit n) es).len t = .wait ((irun (progs mode) (iinit n) es).wr + 1)) ∧
      ∀ k i, ¬ atCall (progs mode) (irun (progs mode) (iinit n) es) k i := by
    intro hp
    obtain ⟨a, b⟩ := hA hp
    refine ⟨fun t ht => a _ (List.mem_map_of_mem ht), ?_⟩
    intro k i hc
    have := callAt_abs _ _ _ _ hc
    rw [b k] at this; cases this
  refine ⟨h1, ?_, ?_⟩
  · intro hp t ht
    exact hB hp _ (List.mem_map_of_mem ht)
  · intro hst
    refine (h1 ?_).1
    have : absM (progs mode) (irun (progs mode) (iinit n) es).len (irun (progs mode) (iinit n) es).ctl = .idle :=
      absM_idle _ _ _ hst
    rw [this]; rfl

/-! ### non-vacuity (interpreter of the generated programs): 1 worker + controller, vector of 2.  The worker first runs
`worker_main` up to its `worker_wait`, then `apply 2` and a round-robin of the two threads, up to the read of
`thread_counter` that lets `master_wait` return — for each of the three modes. -/
def rr (k : Nat) : List Ev := (List.replicate k [Ev.thr 0, Ev.thr 1]).flatten
def demoI (k : Nat) : List Ev := List.replicate 12 (.thr 1) ++ [.apply 2] ++ rr k

example : topOp (progs .posix) (irun (progs .posix) (iinit 1) (demoI 22)).ctl.stack = some .waitTCgeN ∧
    (irun (progs .posix) (iinit 1) (demoI 22)).numWorkers ≤ (irun (progs .posix) (iinit 1) (demoI 22)).tc ∧
    (irun (progs .posix) (iinit 1) (demoI 22)).cnt 0 = 1 ∧ (irun (progs .posix) (iinit 1) (demoI 22)).cnt 1 = 1 ∧
    (irun (progs .posix) (iinit 1) (demoI 22)).cnt 2 = 0 ∧ (irun (progs .posix) (iinit 1) (demoI 22)).len = 2 := by decide

example : topOp (progs .futex) (irun (progs .futex) (iinit 1) (demoI 20)).ctl.stack = some .waitTCgeN ∧
    (irun (progs .futex) (iinit 1) (demoI 20)).numWorkers ≤ (irun (progs .futex) (iinit 1) (demoI 20)).tc ∧
    (irun (progs .futex) (iinit 1) (demoI 20)).cnt 0 = 1 ∧ (irun (progs .futex) (iinit 1) (demoI 20)).cnt 1 = 1 ∧
    (irun (progs .futex) (iinit 1) (demoI 20)).cnt 2 = 0 := by decide

example : topOp (progs .busy) (irun (progs .busy) (iinit 1) (demoI 20)).ctl.stack = some .waitTCgeN ∧
    (irun (progs .busy) (iinit 1) (demoI 20)).numWorkers ≤ (irun (progs .busy) (iinit 1) (demoI 20)).tc ∧
    (irun (progs .busy) (iinit 1) (demoI 20)).cnt 0 = 1 ∧ (irun (progs .busy) (iinit 1) (demoI 20)).cnt 1 = 1 ∧
    (irun (progs .busy) (iinit 1) (demoI 20)).cnt 2 = 0 := by decide

/-- both threads about to call `worker_fun`, on different elements (hypotheses of `gen_index_handed_to_one_thread`) -/
example : atCall (progs .posix) (irun (progs .posix) (iinit 1) (demoI 13 ++ [.thr 1])) 0 0 ∧
    atCall (progs .posix) (irun (progs .posix) (iinit 1) (demoI 13 ++ [.thr 1])) 1 1 := by decide

/-- a step of the interpreter that is a real step of the hand-written system, and one that is a stuttering step -/
example : abs (progs .posix) (istep (progs .posix) (irun (progs .posix) (iinit 1) (demoI 22)) (.thr 0)) =
      step (abs (progs .posix) (irun (progs .posix) (iinit 1) (demoI 22))) (.thr 0) ∧
    (abs (progs .posix) (irun (progs .posix) (iinit 1) (demoI 22))).m = .waitDone ∧
    (abs (progs .posix) (istep (progs .posix) (irun (progs .posix) (iinit 1) (demoI 22)) (.thr 0))).m = .idle ∧
    (istep (progs .posix) (irun (progs .posix) (iinit 1) (demoI 22)) (.thr 0)).ctl.stack ≠ [] := by
  refine ⟨?_, by decide, by decide, by decide⟩
  rcases gen_forward_simulation .posix 1 (demoI 22) (.thr 0) with h | h
  · exact absurd (congrArg State.m h) (by decide)
  · exact h

end SgVerif.C49
