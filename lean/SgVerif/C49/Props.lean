import SgVerif.C49.Lemmas
import SgVerif.C49.Gen
/-
C49 — Parallel map processes each element exactly once.  Property theorems (nothing else in this file).

"Parmap applies the function to every element of the vector exactly once per apply, for any number of worker threads and
any synchronization mode."

Part 1 (tie to the source): the micro-op programs GENERATED from src/xbt/parmap.hpp (Gen.lean), with the stuttering
micro-ops removed, are exactly the programs the transition system of Model.lean executes — for apply, work, next,
worker_main and for each of the three synchronisation modes (so one protocol model covers posix, futex and busy_wait).
Part 2: theorems about that transition system for EVERY number of workers, EVERY vector length, EVERY schedule (list of
events, including any number of successive applies).  Sequentially consistent atomics; see Model.lean for what is outside.
-/
namespace SgVerif.C49

def coreS (x : Synchro) : Synchro :=
  { masterSignal := core x.masterSignal, masterWait := core x.masterWait,
    workerSignal := core x.workerSignal, workerWait := core x.workerWait }

/-! ### Part 1: the generated programs are the modelled ones (finite tables: `decide` is a proof here) -/
theorem gen_apply_core : core Gen.apply = expectedApply := by decide
theorem gen_work_core : core Gen.work = expectedWork := by decide
theorem gen_next_core : core Gen.next = expectedNext := by decide
theorem gen_workerMain_core : core Gen.workerMain = expectedWorkerMain := by decide
theorem gen_posix_core : coreS Gen.posix = expectedSynchro := by decide
theorem gen_futex_core : coreS Gen.futex = expectedSynchro := by decide
theorem gen_busy_core : coreS Gen.busy = expectedSynchro := by decide

/-! ### Part 2 -/

/-- the function is applied to each element at most once during an apply -/
theorem each_index_at_most_once (n : Nat) (es : List Ev) (j : Nat) : (run (init n) es).cnt j ≤ 1 :=
  (inv_reach n es).1.le1 j

/-- the index counter hands out each index to at most one thread: two threads about to call `worker_fun` hold different
indices, each is a valid index of the vector not processed yet -/
theorem index_handed_to_one_thread (n : Nat) (es : List Ev) (k1 k2 i : Nat)
    (h1 : callAt (run (init n) es) k1 = some i) (h2 : callAt (run (init n) es) k2 = some i) :
    k1 = k2 ∧ i < (run (init n) es).len ∧ (run (init n) es).cnt i = 0 :=
  ⟨(inv_reach n es).1.cb k1 k2 i h1 h2, ((inv_reach n es).1.ca k1 i h1).2⟩

/-- when `master_wait` reads a `thread_counter` that lets `apply` return, every element was processed exactly once,
nothing beyond the vector was touched, and every worker is parked in `worker_wait(next round)` -/
theorem apply_returns_after_all_done (n : Nat) (es : List Ev)
    (hm : (run (init n) es).m = .waitDone) (htc : numWorkers (run (init n) es) ≤ (run (init n) es).tc) :
    (∀ j, j < (run (init n) es).len → (run (init n) es).cnt j = 1) ∧
    (∀ j, (run (init n) es).len ≤ j → (run (init n) es).cnt j = 0) ∧
    (∀ w ∈ (run (init n) es).ws, w = .wait ((run (init n) es).wr + 1)) := by
  obtain ⟨hI, hc⟩ := inv_reach n es
  generalize run (init n) es = s at *
  have hB : phaseA s.m = false := by simp [hm, phaseA]
  have hall : ∀ w ∈ s.ws, w = .wait (s.wr + 1) := by
    have h1 := hI.btc hB
    have h2 := List.countP_le_length (p := finished s.wr) (l := s.ws)
    have h3 : s.ws.countP (finished s.wr) = s.ws.length := by simp only [numWorkers] at htc; omega
    rw [List.countP_eq_length] at h3
    intro w hw; exact finished_eq _ _ (h3 w hw)
  have hnone : ∀ k, callAt s k = none := by
    intro k
    cases k with
    | zero => simp [callAt, hm, callIdxM]
    | succ k =>
      simp only [callAt]
      cases hw : s.ws[k]? with
      | none => rfl
      | some w => rw [hall w (mem_of_get _ _ _ hw)]; rfl
  refine ⟨?_, hc, hall⟩
  intro j hj
  have hle := hI.le1 j
  have hwd := hI.wd hm
  by_cases h0 : s.cnt j = 0
  · obtain ⟨k, hk⟩ := hI.cc hB j h0 (by omega) hj
    rw [hnone] at hk; cases hk
  · omega

/-- **exactly once per apply** -/
theorem each_index_exactly_once (n : Nat) (es : List Ev)
    (hm : (run (init n) es).m = .waitDone) (htc : numWorkers (run (init n) es) ≤ (run (init n) es).tc) (j : Nat) :
    (run (init n) es).cnt j = if j < (run (init n) es).len then 1 else 0 := by
  obtain ⟨h1, h2, _⟩ := apply_returns_after_all_done n es hm htc
  split
  · rename_i h; exact h1 j h
  · rename_i h; exact h2 j (by omega)

/-- repeated applies do not leak work between rounds: whenever the controller is outside the parallel section (between two
applies, or preparing the next one before `work_round` is incremented) every worker is parked in `worker_wait` for the
next round and no thread is inside `work()`; inside the section every worker works for the current round on the current
vector length -/
theorem no_leak_between_rounds (n : Nat) (es : List Ev) :
    (phaseA (run (init n) es).m = true →
      (∀ w ∈ (run (init n) es).ws, w = .wait ((run (init n) es).wr + 1)) ∧ ∀ k, callAt (run (init n) es) k = none) ∧
    (phaseA (run (init n) es).m = false →
      ∀ w ∈ (run (init n) es).ws, wOK (run (init n) es).wr (run (init n) es).len w = true) := by
  obtain ⟨hI, _⟩ := inv_reach n es
  exact ⟨fun hA => ⟨hI.pa hA, callAt_none_A _ hI hA⟩, hI.pb⟩

/-! ### non-vacuity: 1 worker + controller, vector of 2, an interleaving that reaches the returning read of master_wait -/
def demo : List Ev :=
  [.apply 2, .thr 0, .thr 0, .thr 0, .thr 1, .thr 1, .thr 0, .thr 1, .thr 0, .thr 0, .thr 1, .thr 0, .thr 1]

example : (run (init 1) demo).m = .waitDone ∧ numWorkers (run (init 1) demo) ≤ (run (init 1) demo).tc ∧
    (run (init 1) demo).cnt 0 = 1 ∧ (run (init 1) demo).cnt 1 = 1 ∧ (run (init 1) demo).cnt 2 = 0 := by decide

/-- a second apply after the first one returned (round 2), length 1, processed by the worker -/
example : (run (init 1) (demo ++ [.thr 0, .apply 1, .thr 0, .thr 0, .thr 0, .thr 1, .thr 1, .thr 1, .thr 0, .thr 1, .thr 1])).applies = 1 ∧
    (run (init 1) (demo ++ [.thr 0, .apply 1, .thr 0, .thr 0, .thr 0, .thr 1, .thr 1, .thr 1, .thr 0, .thr 1, .thr 1])).cnt 0 = 1 ∧
    (run (init 1) (demo ++ [.thr 0, .apply 1, .thr 0, .thr 0, .thr 0, .thr 1, .thr 1, .thr 1, .thr 0, .thr 1, .thr 1])).tc = 2 := by decide

end SgVerif.C49
