/-
C49 — protocol model of `simgrid::xbt::Parmap<T>` (src/xbt/parmap.hpp).

Two layers.

(1) `MicroOp`: the micro-op language the translator (props/C49/translate.py) maps each statement of `apply`, `work`, `next`,
    `worker_main` and the 4 x 3 `*Synchro` methods to (generated file: Gen.lean).  `core` drops the micro-ops that touch
    neither the shared variables of the protocol (`common_index`, `thread_counter`, `work_round`, data) nor the control
    flow: mutex lock/unlock, condition-variable notify, futex wake, yield, logging.  For SAFETY properties they are
    stuttering steps, and a blocking wait (`cond.wait(lock, pred)`, `while (v != x) futex_wait(&v, x)`,
    `while (..) yield()`) is over-approximated by "re-read the variable until the condition holds", which is exactly what
    BusyWaitSynchro does: spurious wake-ups are allowed, lost wake-ups (liveness) are outside the model.
    `expected*` below are the cores the transition system (2) implements; Props.lean proves (by evaluation) that the
    cores of the GENERATED programs equal them, for the three synchronisation modes.

(2) The transition system: one controller ("master", thread 0, the caller of `apply`) + `num_workers - 1` workers, each
    micro-op of the cores is one atomic step, the interleaving is an arbitrary schedule (list of `Ev`), atomics are
    sequentially consistent.  Weak-memory effects of `memory_order_relaxed` on `common_index` are outside the model (it is a
    single atomic read-modify-write, so the values handed out are distinct on every C++11 implementation; the visibility of
    `common_data`/`worker_fun` relies on the seq_cst `work_round`/`thread_counter` operations, modelled as SC).
    Unsigned wrap-around of `work_round` after 2^32 applies is not modelled.  The destructor (`destroying`) is not modelled.
-/
namespace SgVerif.C49

inductive MicroOp where
  | setFun | setData                       -- worker_fun = std::move(fun); common_data = &data;
  | storeIndex (v : Nat)                   -- common_index = v;
  | callMasterSignal | callWork | callMasterWait | callWorkerWait | callWorkerSignal
  | loadLength                             -- unsigned length = common_data->size();
  | fetchIndex                             -- index = common_index.fetch_add(1, relaxed);
  | whileIndexLtLength | endWhile          -- while (index < length) { ... }   (flat bracket tokens)
  | callFun                                -- worker_fun((*common_data)[index]);
  | ifIndexLtSize | else_ | endIf | returnElem | returnNone       -- next(): if (index < common_data->size()) .. else ..
  | initRound (v : Nat)                    -- worker_main: unsigned round = v;
  | loopForever | endLoop | incLocalRound | breakIfDestroying     -- worker_main: while (true) { round++; ...; if (destroying) break; ... }
  | storeTC (v : Nat)                      -- thread_counter.store(v) / thread_counter = v
  | incRound                               -- work_round.fetch_add(1) / work_round++
  | incTC                                  -- thread_counter.fetch_add(1) / thread_counter++
  | waitTCgeN                              -- re-read thread_counter until >= num_workers (cond wait / futex loop / yield loop)
  | waitRoundEq                            -- re-read work_round until == expected_round
  | nop (what : String)                    -- lock, unlock, notify, wake, yield, log, context creation/deletion
  deriving Repr, DecidableEq

/-- drop the stuttering micro-ops -/
def core : List MicroOp → List MicroOp
  | [] => []
  | .nop _ :: t => core t
  | x :: t => x :: core t

structure Synchro where
  masterSignal : List MicroOp
  masterWait : List MicroOp
  workerSignal : List MicroOp
  workerWait : List MicroOp
  deriving Repr, DecidableEq

/-! the cores implemented by the transition system below -/
def expectedApply : List MicroOp := [.setFun, .setData, .storeIndex 0, .callMasterSignal, .callWork, .callMasterWait]
def expectedWork : List MicroOp := [.loadLength, .fetchIndex, .whileIndexLtLength, .callFun, .fetchIndex, .endWhile]
def expectedNext : List MicroOp := [.fetchIndex, .ifIndexLtSize, .returnElem, .else_, .returnNone, .endIf]
def expectedWorkerMain : List MicroOp :=
  [.initRound 0, .loopForever, .incLocalRound, .callWorkerWait, .breakIfDestroying, .callWork, .callWorkerSignal, .endLoop]
def expectedSynchro : Synchro :=
  { masterSignal := [.storeTC 1, .incRound], masterWait := [.waitTCgeN], workerSignal := [.incTC], workerWait := [.waitRoundEq] }

/-! ### the transition system -/

/-- program points of the controller thread inside / outside `apply` -/
inductive MPc where
  | idle                    -- not in apply()
  | setIdx                  -- worker_fun, common_data set; about to `common_index = 0`
  | sigStore                -- master_signal: about to `thread_counter.store(1)`
  | sigInc                  -- master_signal: about to `work_round.fetch_add(1)`
  | fetch                   -- work(): about to `index = common_index.fetch_add(1)`
  | call (i : Nat)          -- work(): index < length, about to `worker_fun(data[i])`
  | waitDone                -- master_wait: about to (re-)read thread_counter
  deriving Repr, DecidableEq

/-- program points of a worker thread; `r` = its local `round`, `L` = the `length` it read at the start of `work()` -/
inductive WPc where
  | wait (r : Nat)          -- worker_wait(r): about to (re-)read work_round
  | fetch (r L : Nat)       -- work(): about to fetch_add
  | call (r L i : Nat)      -- work(): about to call worker_fun(data[i])
  | signal (r : Nat)        -- worker_signal: about to `thread_counter.fetch_add(1)`; then round++ and worker_wait again
  deriving Repr, DecidableEq

structure State where
  m : MPc
  ws : List WPc             -- workers 1 .. num_workers-1
  ci : Nat                  -- common_index
  tc : Nat                  -- thread_counter
  wr : Nat                  -- work_round
  len : Nat                 -- common_data->size()
  cnt : Nat → Nat           -- ghost: how many times worker_fun was called on element j during the current apply
  applies : Nat             -- ghost: completed applies

def numWorkers (s : State) : Nat := s.ws.length + 1

inductive Ev where
  | apply (len : Nat)       -- the controller enters apply(fun, data) with data.size() = len (only when idle)
  | thr (t : Nat)           -- thread t executes its next micro-op (0 = controller)
  deriving Repr

def bump (c : Nat → Nat) (i : Nat) : Nat → Nat := fun j => if j = i then c j + 1 else c j

def stepMaster (s : State) : State :=
  match s.m with
  | .idle => s
  | .setIdx => { s with ci := 0, m := .sigStore }
  | .sigStore => { s with tc := 1, m := .sigInc }
  | .sigInc => { s with wr := s.wr + 1, m := .fetch }
  | .fetch => if s.ci < s.len then { s with ci := s.ci + 1, m := .call s.ci } else { s with ci := s.ci + 1, m := .waitDone }
  | .call i => { s with cnt := bump s.cnt i, m := .fetch }
  | .waitDone => if numWorkers s ≤ s.tc then { s with m := .idle, applies := s.applies + 1 } else s

def stepWorker (s : State) (k : Nat) : State :=
  match s.ws[k]? with
  | none => s
  | some (.wait r) => if s.wr = r then { s with ws := s.ws.set k (.fetch r s.len) } else s
  | some (.fetch r L) =>
    if s.ci < L then { s with ci := s.ci + 1, ws := s.ws.set k (.call r L s.ci) }
    else { s with ci := s.ci + 1, ws := s.ws.set k (.signal r) }
  | some (.call r L i) => { s with cnt := bump s.cnt i, ws := s.ws.set k (.fetch r L) }
  | some (.signal r) => { s with tc := s.tc + 1, ws := s.ws.set k (.wait (r + 1)) }

def step (s : State) : Ev → State
  | .apply len =>
    match s.m with
    | .idle => { s with len := len, cnt := fun _ => 0, m := .setIdx }
    | _ => s
  | .thr 0 => stepMaster s
  | .thr (k + 1) => stepWorker s k

def run (s : State) : List Ev → State
  | [] => s
  | e :: es => run (step s e) es

/-- a fresh Parmap with `n` workers besides the controller: every worker did `round++` (= 1) and enters worker_wait(1) -/
def init (n : Nat) : State :=
  { m := .idle, ws := List.replicate n (.wait 1), ci := 0, tc := 0, wr := 0, len := 0, cnt := fun _ => 0, applies := 0 }

end SgVerif.C49
