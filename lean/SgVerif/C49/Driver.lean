import SgVerif.C49.Model
import SgVerif.C49.GenProgs
import SgVerif.Common.Proto
/-
C49 driver.  Line: `<mode> <num_workers> <yield> <len_1> .. <len_k> => <len>:<once>:<never>:<more> ...`
The model answer is obtained by RUNNING the transition system of Model.lean (num_workers - 1 workers, k successive applies)
under a pseudo-random schedule derived from the query (xorshift), until the controller returns from each apply; the
counters `cnt` give once/never/more.  Monitor = the property itself on the implementation's answer: every element exactly
once (`len:len:0:0`) for every apply.  (All three modes share the transition system: Props.lean `gen_*_core`.)
In addition the GENERIC INTERPRETER (Interp.lean) runs the programs GENERATED from parmap.hpp for the line's mode under its own
pseudo-random schedule; its counters must give the same summary as the hand-written system (`DISAGREE interp-vs-model`).
-/
open SgVerif.Proto
namespace SgVerif.C49

def xs (x : Nat) : Nat :=
  let x := (x ^^^ (x <<< 13)) % 18446744073709551616
  let x := x ^^^ (x >>> 7)
  (x ^^^ (x <<< 17)) % 18446744073709551616

/-- run one apply of length `len` under a pseudo-random schedule; `none` if the fuel runs out -/
def runApply (s : State) (len : Nat) (seed : Nat) : Option (State × Nat) :=
  let s := step s (.apply len)
  let n := numWorkers s
  let rec go (fuel : Nat) (s : State) (seed : Nat) : Option (State × Nat) :=
    match fuel with
    | 0 => none
    | fuel + 1 =>
      let seed := xs seed
      let s' := step s (.thr ((seed >>> 11) % n))
      if s'.m = .idle then some (s', seed) else go fuel s' seed
  go (200 * (len + n + 10)) s seed

/-- the same with the interpreter of the generated programs of mode `P` -/
def irunApply (P : Progs) (s : IState) (len : Nat) (seed : Nat) : Option (IState × Nat) :=
  let s := istep P s (.apply len)
  let n := s.ws.length + 1
  let rec go (fuel : Nat) (s : IState) (seed : Nat) : Option (IState × Nat) :=
    match fuel with
    | 0 => none
    | fuel + 1 =>
      let seed := xs seed
      let s' := istep P s (.thr ((seed >>> 11) % n))
      if s'.ctl.stack.isEmpty then some (s', seed) else go fuel s' seed
  go (1000 * (len + n + 10)) s seed

def summarizeCnt (cnt : Nat → Nat) (len : Nat) : String :=
  let cs := (List.range (len + 2)).map cnt
  let inr := cs.take len
  let once := (inr.filter (· == 1)).length
  let never := (inr.filter (· == 0)).length
  let more := (inr.filter (· > 1)).length + ((cs.drop len).filter (· != 0)).length
  s!"{len}:{once}:{never}:{more}"

def summarize (s : State) (len : Nat) : String := summarizeCnt s.cnt len

def modeOf (m : String) : Option Mode :=
  if m == "posix" then some .posix else if m == "futex" then some .futex else if m == "busy" then some .busy else none

def judge (q a : List String) : Verdict :=
  match q with
  | mode :: nw :: _y :: lens =>
    match nw.toNat?, lens.mapM String.toNat? with
    | some nw, some lens =>
      if nw = 0 || !(mode == "posix" || mode == "futex" || mode == "busy") then .bad else
      let seed0 := 88172645463325252 + nw * 1000003 + lens.foldl (fun a x => a * 31 + x) 7
      let rec applies (s : State) (ls : List Nat) (seed : Nat) (acc : List String) : Option (List String) :=
        match ls with
        | [] => some acc.reverse
        | l :: ls =>
          match runApply s l seed with
          | none => none
          | some (s', seed') => applies s' ls seed' (summarize s' l :: acc)
      let rec iapplies (P : Progs) (s : IState) (ls : List Nat) (seed : Nat) (acc : List String) : Option (List String) :=
        match ls with
        | [] => some acc.reverse
        | l :: ls =>
          match irunApply P s l seed with
          | none => none
          | some (s', seed') => iapplies P s' ls seed' (summarizeCnt s'.sh.cnt l :: acc)
      let interp := (modeOf mode).bind fun md => iapplies (progs md) (iinit (nw - 1)) lens (seed0 + 1) []
      match applies (init (nw - 1)) lens seed0 [] with
      | none => .disagree "model-did-not-terminate"
      | some model =>
        if interp ≠ some model then .disagree s!"interp-vs-model: interpreter of the generated programs {interp} hand-written system {model}" else
        let want := lens.map (fun l => s!"{l}:{l}:0:0")
        if a ≠ want then .monfail s!"some element not applied exactly once: expected {want} got {a}"
        else cmpAns model a
    | _, _ => .bad
  | _ => .bad

end SgVerif.C49

def main : IO Unit := SgVerif.Proto.run SgVerif.C49.judge
