/-
Shared by C27 (values with units) and C48 (configuration flags): the number syntax that glibc's `strtod` accepts
in the C locale, as an executable specification over `List Char` with exact rational values, and the ERANGE
classification the callers test.  Core-only.  (libc itself is in the trusted base; this specification is compared
with it by the correspondence checks of both properties.)
-/
namespace SgVerif.Xbt

/-! ## number syntax (what `strtod` consumes) -/

def isSpace (c : Char) : Bool :=
  c == ' ' || c == '\t' || c == '\n' || c.toNat == 11 || c.toNat == 12 || c == '\r'

def isDigit (c : Char) : Bool := 48 ≤ c.toNat && c.toNat ≤ 57

def lower (c : Char) : Char := if 65 ≤ c.toNat && c.toNat ≤ 90 then Char.ofNat (c.toNat + 32) else c

def hexVal (c : Char) : Option Nat :=
  let n := (lower c).toNat
  if isDigit c then some (c.toNat - 48) else if 97 ≤ n && n ≤ 102 then some (n - 87) else none

def isHex (c : Char) : Bool := (hexVal c).isSome

def isAlnumU (c : Char) : Bool :=
  let n := (lower c).toNat
  isDigit c || (97 ≤ n && n ≤ 122) || c == '_'

def natOfDigits (ds : List Char) : Nat := ds.foldl (fun a c => a * 10 + (c.toNat - 48)) 0

def natOfHex (ds : List Char) : Nat := ds.foldl (fun a c => a * 16 + (hexVal c).getD 0) 0

/-- `m * b^e` for an integer exponent -/
def scale (m : Nat) (b : Nat) (e : Int) : Rat :=
  if 0 ≤ e then (m : Rat) * ((b ^ e.toNat : Nat) : Rat) else (m : Rat) / ((b ^ (-e).toNat : Nat) : Rat)

def spanP (p : Char → Bool) (s : List Char) : List Char × List Char := (s.takeWhile p, s.dropWhile p)

/-- optional sign -/
def takeSign (s : List Char) : Bool × List Char :=
  match s with
  | [] => (false, [])
  | c :: t => if c == '+' then (false, t) else if c == '-' then (true, t) else (false, s)

/-- optional exponent part `[eE][+-]?digit+` (marker 'e') or `[pP][+-]?digit+` (marker 'p'); when the digits are
missing nothing is consumed -/
def parseExp (marker : Char) (s : List Char) : Int × List Char :=
  match s with
  | [] => (0, s)
  | c :: t =>
    if lower c == marker then
      let (neg, t') := takeSign t
      let (ds, r) := spanP isDigit t'
      if ds.isEmpty then (0, s)
      else (if neg then -((natOfDigits ds : Nat) : Int) else ((natOfDigits ds : Nat) : Int), r)
    else (0, s)

/-- fraction part: `.` followed by digits (possibly none) -/
def takeFrac (p : Char → Bool) (r1 : List Char) : List Char × List Char :=
  match r1 with
  | [] => ([], [])
  | c :: t => if c == '.' then spanP p t else ([], r1)

/-- decimal floating constant: `digit* [. digit*]` with at least one digit, then the optional exponent -/
def parseDecimal (s : List Char) : Option (Rat × List Char) :=
  let (ip, r1) := spanP isDigit s
  let (fp, r2) := takeFrac isDigit r1
  if ip.isEmpty && fp.isEmpty then none
  else
    let (e, r3) := parseExp 'e' r2
    some (scale (natOfDigits (ip ++ fp)) 10 (e - fp.length), r3)

/-- hexadecimal floating constant after the `0x`: `hex* [. hex*]` with at least one hex digit, optional `p` exponent -/
def parseHex (s : List Char) : Option (Rat × List Char) :=
  let (ip, r1) := spanP isHex s
  let (fp, r2) := takeFrac isHex r1
  if ip.isEmpty && fp.isEmpty then none
  else
    let (e, r3) := parseExp 'p' r2
    some (scale (natOfHex (ip ++ fp)) 2 (e - 4 * fp.length), r3)

/-- does `s` start with the (lower-case) word `w`, ignoring case?  returns the remainder -/
def dropWord : List Char → List Char → Option (List Char)
  | [], s => some s
  | _ :: _, [] => none
  | w :: ws, c :: s => if lower c == w then dropWord ws s else none

inductive Num where
  | fin (v : Rat)      -- magnitude (sign kept apart)
  | inf
  | nan
  deriving Repr

/-- `nan` may be followed by `(n-char-sequence)`; without the closing parenthesis only "nan" is consumed -/
def nanTail (r : List Char) : List Char :=
  match r with
  | [] => []
  | c :: u =>
    if c == '(' then
      match u.dropWhile isAlnumU with
      | [] => r
      | d :: v => if d == ')' then v else r
    else r

def wInfinity : List Char := ['i', 'n', 'f', 'i', 'n', 'i', 't', 'y']
def wInf : List Char := ['i', 'n', 'f']
def wNan : List Char := ['n', 'a', 'n']

/-- `inf`, `infinity`, `nan`, `nan(...)`, ignoring case -/
def parseWord (s : List Char) : Option (Num × List Char) :=
  match dropWord wInfinity s with
  | some r => some (.inf, r)
  | none =>
    match dropWord wInf s with
    | some r => some (.inf, r)
    | none =>
      match dropWord wNan s with
      | some r => some (.nan, nanTail r)
      | none => none

/-- magnitude and remainder of the "subject sequence" after white space and sign; `none` = no conversion -/
def parseMagnitude (s : List Char) : Option (Num × List Char) :=
  match s with
  | [] => none
  | c :: t =>
    if isDigit c || c == '.' then
      let dec : Option (Num × List Char) := (parseDecimal s).map (fun (v, r) => (Num.fin v, r))
      if c == '0' then
        match t with
        | [] => dec
        | x :: t' =>
          if lower x == 'x' then
            match parseHex t' with
            | some (v, r) => some (.fin v, r)
            | none => dec          -- "0x" without hex digit: the "0" alone is the number
          else dec
      else dec
    else parseWord s

inductive Strtod where
  | noconv                                      -- `ptr == string`
  | erange                                      -- `errno == ERANGE`
  | ok (neg : Bool) (n : Num) (rest : List Char)
  deriving Repr

def two (e : Nat) : Rat := ((2 ^ e : Nat) : Rat)

/-- overflow: the value rounds (to nearest even) to 2^1024 -/
def overflows (v : Rat) : Bool := decide (two 1024 - two 970 ≤ v)

/-- underflow as glibc reports it: tiny after rounding (below 2^-1022 - 2^-1076) and not exactly a subnormal.
(Observed: for some *hexadecimal* inexact subnormal inputs glibc does not set ERANGE; the generators keep away from
inexact hexadecimal subnormals — libc is in the trusted base.) -/
def underflows (v : Rat) : Bool :=
  decide (v ≠ 0) && decide (v < 1 / two 1022 - 1 / two 1076) && !((v * two 1074).isInt)

/-- `errno = 0; res = strtod(string.c_str(), &endptr)` -/
def strtod (s : List Char) : Strtod :=
  let (neg, s2) := takeSign (s.dropWhile isSpace)
  match parseMagnitude s2 with
  | none => .noconv
  | some (.fin v, r) => if overflows v || underflows v then .erange else .ok neg (.fin v) r
  | some (n, r) => .ok neg n r

end SgVerif.Xbt
