import SgVerif.C22.Lemmas
/-
C22 — availability profiles are applied exactly.  Property theorems (nothing else in this file).
All theorems are for every pattern (any length), every period / loop delay, every repetition count.
Stochastic profiles are excluded.
-/
namespace SgVerif.C22

/-- the parser's deltas, re-accumulated by `Profile::next`'s `event_date + delta`, give back the absolute dates of the
input lines: repetition 0 fires exactly at the written dates (∀ point lists, ∀ starting `last_date`) -/
theorem deltas_roundtrip (last : Rat) (pts : List (Rat × Rat)) : dates last (deltas last pts) = pts := by
  induction pts generalizing last with
  | nil => simp [deltas, dates]
  | cons e r ih =>
    obtain ⟨d, v⟩ := e
    simp only [deltas, dates]
    have : last + (d - last) = d := by ring
    rw [this, ih]

/-- a sorted, non-negative list of points is accepted and turned into its deltas (`last_date` follows) -/
theorem parse_sorted_points (s : PState) (pts : List (Rat × Rat)) (h0 : 0 ≤ s.lastDate)
    (hs : sortedFrom s.lastDate pts) :
    parseLines s (pts.map (fun e => Line.point e.1 e.2))
      = some { s with pattern := s.pattern ++ deltas s.lastDate pts, lastDate := lastDateOf s.lastDate pts } := by
  induction pts generalizing s with
  | nil => simp [parseLines, deltas, lastDateOf]
  | cons e r ih =>
    obtain ⟨d, v⟩ := e
    obtain ⟨hd, hs'⟩ := hs
    have hneg : ¬ d < 0 := not_lt.mpr (le_trans h0 hd)
    simp only [List.map_cons, parseLines, parseLine, hneg, if_false, hd, not_true_eq_false]
    rw [ih _ (le_trans h0 hd) hs']
    simp [deltas, lastDateOf, List.append_assoc]

/-- an out-of-order date is refused (`xbt_assert(last_date <= new_date)`), whatever follows -/
theorem parse_rejects_unsorted (s : PState) (d v : Rat) (rest : List Line) (h : d < s.lastDate) :
    parseLines s (Line.point d v :: rest) = none := by
  simp only [parseLines, parseLine]
  split_ifs <;> first | rfl | (exfalso; linarith)

/-- **profile_event_dates**: for a looping profile, the events fired from the event list after `m` further callbacks
are exactly repetitions `0..m`; repetition `k` is the pattern's absolute dates shifted by `k * period`, with
`period = (date of the last point) + loop_delay` — i.e. the j-th point of the k-th repetition fires at `t_j + k*period`
with its value `v_j` — as produced by the code's delta arithmetic (`LegacyUpdateCb::operator()`, `Profile::next`). -/
theorem profile_event_dates (p : Prof) (hl : p.loop = true) (hne : p.pattern ≠ []) (m : Nat) :
    dates 0 (gen p m) = iterations p.pattern (total p.pattern + p.loopDelay) m := by
  induction m with
  | zero => simp [gen, extend, iterations]
  | succ m ih =>
    rw [(gen_succ p m hl hne).2, dates_append, ih, total_gen p m hl hne, dates_bumpFirst, dates_shift]
    simp only [iterations, zero_add]
    congr 2
    push_cast
    ring

/-- with a `PERIODICITY P` line the parser sets `loop_delay = P - last date`: the period is `P` -/
theorem periodicity_period (pat : List (Rat × Rat)) (P : Rat) : total pat + (P - total pat) = P := by ring

/-- a one-shot profile never grows: its events are the written ones, once -/
theorem oneshot_event_dates (p : Prof) (hl : p.loop = false) (hne : p.pattern ≠ []) (m : Nat) :
    gen p m = p.pattern := by
  induction m with
  | zero => simp [gen, extend]
  | succ m ih =>
    show extend p (gen p m) = _
    rw [ih]
    cases h : p.pattern with
    | nil => exact absurd h hne
    | cons e r => simp [extend, hl]

/-- **value_in_force**: when the clock is at `t`, the resource holds the value of the last event dated ≤ t (events in date
order, values ≥ 0), or its initial value if there is none — events after `t` have no effect yet. -/
theorem value_in_force (init t : Rat) (pre post : List (Rat × Rat))
    (hpre : ∀ e ∈ pre, e.1 ≤ t ∧ 0 ≤ e.2) (hpost : ∀ e ∈ post, t < e.1) :
    valueAt init (pre ++ post) t = (match pre.getLast? with | some e => e.2 | none => init) := by
  unfold valueAt
  rw [List.foldl_append]
  have hpost' : ∀ (c : Rat), post.foldl (fun cur e => if e.1 ≤ t ∧ ¬ e.2 < 0 then e.2 else cur) c = c := by
    intro c
    induction post generalizing c with
    | nil => rfl
    | cons e r ih =>
      have : ¬ (e.1 ≤ t ∧ ¬ e.2 < 0) := by intro h; linarith [hpost e (by simp), h.1]
      simp only [List.foldl_cons, this, if_false]
      exact ih (fun x hx => hpost x (by simp [hx])) c
  rw [hpost']
  induction pre generalizing init with
  | nil => simp
  | cons e r ih =>
    have he := hpre e (by simp)
    have hc : e.1 ≤ t ∧ ¬ e.2 < 0 := ⟨he.1, not_lt.mpr he.2⟩
    rw [List.foldl_cons, if_pos hc]
    rw [ih e.2 (fun x hx => hpre x (by simp [hx]))]
    cases r with
    | nil => simp
    | cons e2 r2 =>
      rw [List.getLast?_cons_cons]
      cases h : (e2 :: r2).getLast? with
      | none => simp at h
      | some x => rfl

/-- **progress_integrates_availability**: an activity holding `rem > 0` at `now`, alone on a resource whose availability
is piecewise constant (`rate`, then `evs` = changes in date order, rates ≥ 0), ends at the date `T` where the integral
of the availability over `[now, T]` equals `rem`. -/
theorem progress_integrates_availability (now rem rate : Rat) (evs : List (Rat × Rat)) (T : Rat)
    (hrem : 0 < rem) (hrate : 0 ≤ rate) (hs : sortedFrom now evs) (hr : ∀ e ∈ evs, 0 ≤ e.2)
    (h : finishSpec now rem rate evs = some T) : work now rate T evs = rem := by
  induction evs generalizing now rem rate with
  | nil =>
    simp only [finishSpec] at h
    split_ifs at h with hp
    cases h
    simp only [work]
    field_simp
    ring
  | cons e r ih =>
    obtain ⟨d, r'⟩ := e
    obtain ⟨hd, hs'⟩ := hs
    simp only [finishSpec] at h
    split_ifs at h with hp
    · cases h
      simp only [work, hp.2, if_true]
      have := hp.1
      field_simp
      ring
    · have hrem' : 0 < rem - rate * (d - now) := by
        by_cases hr0 : rate > 0
        · have hgt : d < now + rem / rate := by
            by_contra hc
            exact hp ⟨hr0, not_lt.mp hc⟩
          have h1 : d - now < rem / rate := by linarith
          have : rate * (d - now) < rem := by
            calc rate * (d - now) < rate * (rem / rate) := mul_lt_mul_of_pos_left h1 hr0
              _ = rem := by field_simp
          linarith
        · have : rate = 0 := le_antisymm (not_lt.mp hr0) hrate
          rw [this]; simp; exact hrem
      have hr' : ∀ e ∈ r, 0 ≤ e.2 := fun e he => hr e (by simp [he])
      have hgt := finish_gt d _ r' r T hrem' (hr (d, r') (by simp)) hs' hr' h
      have := ih d _ r' hrem' (hr (d, r') (by simp)) hs' hr' h
      simp only [work, not_le.mpr hgt, if_false, this]
      ring

/-- FULL-STRENGTH statement for the code: `finishCode cap … = finishSpec …` for every profile — FALSE on the current code
(see the two counterexamples).  Proved with the exact excluding hypotheses: every new availability is positive and,
for a communication (`cap = some c`), never above the bandwidth at its start. -/
theorem code_integrates_availability_partial (cap : Option Rat) (now rem rate : Rat) (evs : List (Rat × Rat))
    (hpos : ∀ e ∈ evs, 0 < e.2) (hcap : ∀ c, cap = some c → ∀ e ∈ evs, e.2 ≤ c) :
    finishCode cap now rem rate evs = finishSpec now rem rate evs := by
  induction evs generalizing now rem rate with
  | nil => simp [finishCode, finishSpec]
  | cons e r ih =>
    obtain ⟨d, r'⟩ := e
    have hp : 0 < r' := hpos (d, r') (by simp)
    have he : effRate cap rate r' = r' := by
      unfold effRate
      simp only [gt_iff_lt, hp, if_true]
      cases cap with
      | none => rfl
      | some c =>
        have := hcap c rfl (d, r') (by simp)
        simp only [not_lt.mpr this, if_false]
    simp only [finishCode, finishSpec, he]
    rw [ih _ _ _ (fun e he => hpos e (by simp [he])) (fun c hc e he => hcap c hc e (by simp [he]))]

/-- witness (corpus): speed 1000, ratio 0 on [1,3): the code ends the 4000-flop exec at 4, the integral says 6 -/
theorem zero_availability_counterexample :
    finishCode none 0 4000 1000 [(1, 0), (3, 1000)] = some 4 ∧ finishSpec 0 4000 1000 [(1, 0), (3, 1000)] = some 6 := by
  constructor <;> norm_num [finishCode, finishSpec, effRate]

/-- witness (corpus): bandwidth 1000 at the start of the transfer, 2000 from t = 1: the code stays at 1000 -/
theorem bandwidth_cap_counterexample :
    finishCode (some 1000) (1/2) 4000 1000 [(1, 2000), (3, 500)] = some 6 ∧
    finishSpec (1/2) 4000 1000 [(1, 2000), (3, 500)] = some (11/4) := by
  constructor <;> norm_num [finishCode, finishSpec, effRate]

/-! ### non-vacuity -/

example : dates 0 (gen { pattern := deltas 0 [(1, 1/2), (3, 1)], loop := true, loopDelay := 4 - 3 } 2)
    = [(1, 1/2), (3, 1), (5, 1/2), (7, 1), (9, 1/2), (11, 1)] := by
  rw [profile_event_dates _ rfl (by simp [deltas])]
  norm_num [iterations, deltas, dates, shift, total]

example : parse (-1) [Line.point 1 (1/2), Line.point 3 1, Line.periodicity 4]
    = some { pattern := [(1, 1/2), (2, 1)], loop := true, loopDelay := 1 } := by
  norm_num [parse, parseLines, parseLine]

example : valueAt 1000 ([(1, 500), (3, 1000)] ++ [(5, 500)]) 4 = 1000 := by
  rw [value_in_force] <;> norm_num

example : work 0 1000 6 [(1, 0), (3, 1000)] = 4000 :=
  progress_integrates_availability 0 4000 1000 [(1, 0), (3, 1000)] 6 (by norm_num) (by norm_num)
    (by norm_num [sortedFrom]) (by intro e he; simp at he; rcases he with rfl | rfl <;> norm_num)
    zero_availability_counterexample.2

end SgVerif.C22
