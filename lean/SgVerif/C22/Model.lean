/-
C22 — availability profiles are applied exactly.  Executable model (core Lean only, `Rat`).

Mirrors:
  * `LegacyUpdateCb::LegacyUpdateCb(input, periodicity)` for deterministic profiles (PERIODICITY / LOOPAFTER lines,
    `<date> <value>` lines, the asserts on negative / unsorted dates and unrealizable loops)   ProfileBuilder.cpp
  * `LegacyUpdateCb::operator()(event_list)` (append the pattern; first delta of a repetition += loop_delay)  → `extend`, `gen`
  * `Profile::schedule` / `Profile::next`: first event at `event_list[0].date_`, then `event_date + event_list[idx].date_` → `dates`
  * `FutureEvtSet::pop_leq` + the event loop of `EngineImpl::solve`: every event with date ≤ the date the clock jumps to
    is applied, in date order, before the clock moves → `valueAt`
  * progress of an activity alone on the resource across the events (`Action::update_remains_lazy`:
    `remains -= last_value * (now - last_update)`, completion at `now + remains / rate`) → `finishCode`, `finishSpec`
Stochastic profiles (STOCHASTIC, DET/NORM/UNIF/EXP laws) are NOT modelled.
-/
namespace SgVerif.C22

inductive Line where
  | periodicity (p : Rat)
  | loopafter (d : Rat)
  | point (date value : Rat)
  | comment
  deriving Repr

structure PState where
  pattern : List (Rat × Rat)     -- (delta, value)
  lastDate : Rat
  periodicity : Rat
  loop : Bool
  loopDelay : Rat
  deriving Repr

/-- one iteration of the line loop of the constructor; `none` = an `xbt_assert` fires -/
def parseLine (s : PState) : Line → Option PState
  | .periodicity p => some { s with periodicity := p, loop := true }
  | .loopafter d => some { s with loopDelay := d, loop := true }
  | .comment => some s
  | .point d v =>
    -- xbt_assert(new_date >= 0); xbt_assert(last_date <= new_date); date_params[0] -= last_date; last_date = new_date
    if d < 0 then none
    else if ¬ s.lastDate ≤ d then none
    else some { s with pattern := s.pattern ++ [(d - s.lastDate, v)], lastDate := d }

def parseLines (s : PState) : List Line → Option PState
  | [] => some s
  | l :: ls => match parseLine s l with
    | none => none
    | some s' => parseLines s' ls

/-- the profile as `ProfileBuilder::from_string` builds it: pattern of deltas, `repeat`: `loop_delay` when looping -/
structure Prof where
  pattern : List (Rat × Rat)
  loop : Bool
  loopDelay : Rat
  deriving Repr

def parse (periodicityArg : Rat) (ls : List Line) : Option Prof :=
  match parseLines { pattern := [], lastDate := 0, periodicity := periodicityArg, loop := periodicityArg > 0,
                     loopDelay := 0 } ls with
  | none => none
  | some s =>
    -- if (periodicity > 0) { xbt_assert(loop && loop_delay == 0); loop_delay = periodicity - last_date; }
    if s.periodicity > 0 ∧ ¬ (s.loop ∧ s.loopDelay = 0) then none else
    let ld := if s.periodicity > 0 then s.periodicity - s.lastDate else s.loopDelay
    -- xbt_assert(loop_delay >= 0)
    if ld < 0 then none else some { pattern := s.pattern, loop := s.loop, loopDelay := ld }

/-- `LegacyUpdateCb::operator()`:
```
size_t initial_size = event_list.size();
if (loop || not initial_size) { append pattern; if (initial_size) event_list.at(initial_size).date_ += loop_delay; }
``` -/
def bumpFirst (ld : Rat) : List (Rat × Rat) → List (Rat × Rat)
  | [] => []
  | (d, v) :: r => (d + ld, v) :: r

def extend (p : Prof) (l : List (Rat × Rat)) : List (Rat × Rat) :=
  if l.isEmpty then l ++ p.pattern
  else if p.loop then l ++ bumpFirst p.loopDelay p.pattern
  else l

/-- `event_list` after the constructor's callback and `m` further callbacks -/
def gen (p : Prof) : Nat → List (Rat × Rat)
  | 0 => extend p []
  | m+1 => extend p (gen p m)

/-- `Profile::schedule` + `Profile::next`: the event fires at `event_list[0].date_`, then each time at
`event_date + event_list[idx].date_`; it carries `event_list[idx].value_`. -/
def dates (start : Rat) : List (Rat × Rat) → List (Rat × Rat)
  | [] => []
  | (d, v) :: r => (start + d, v) :: dates (start + d) r

/-- events fired up to `horizon` (the driver extends the list while the last date is below the horizon; `fuel` bounds
the number of callbacks) -/
def firedUpTo (p : Prof) (horizon : Rat) : Nat → Nat → List (Rat × Rat)
  | 0, m => (dates 0 (gen p m)).filter (fun e => e.1 ≤ horizon)
  | fuel+1, m =>
    let ds := dates 0 (gen p m)
    match ds.getLast? with
    | none => []
    | some (d, _) =>
      if d ≤ horizon ∧ p.loop ∧ (gen p (m+1)).length > (gen p m).length then firedUpTo p horizon fuel (m+1)
      else ds.filter (fun e => e.1 ≤ horizon)

/-- the event loop of `EngineImpl::solve` + `pop_leq`: before the clock reaches `t`, every event with date ≤ t has been
popped (in date order) and applied (`value < 0` is skipped: `if (value < 0) continue;`) -/
def valueAt (init : Rat) (evs : List (Rat × Rat)) (t : Rat) : Rat :=
  evs.foldl (fun cur e => if e.1 ≤ t ∧ ¬ e.2 < 0 then e.2 else cur) init

/-! ## progress of one activity alone on the resource -/

/-- SPEC: the activity holds `remains` at `now`, progresses at `rate` (the availability in force), `evs` are the future
changes `(date, new rate)` in date order: it finishes when the integral of the rate reaches the amount. -/
def finishSpec (now remains rate : Rat) : List (Rat × Rat) → Option Rat
  | [] => if rate > 0 then some (now + remains / rate) else none
  | (d, r') :: evs =>
    if rate > 0 ∧ now + remains / rate ≤ d then some (now + remains / rate)
    else finishSpec d (remains - rate * (d - now)) r' evs

/-- switch: set to `false` once `props/C22/proposed_fix.diff` (comm_action_set_bounds) is applied to /repo -/
def capByInitialBandwidth : Bool := true

/-- CODE: same loop with the two behaviours of the current code that differ from the spec:
 * `cap` (network): the LMM variable of a communication is bounded by the bottleneck bandwidth at its start
   (`action->set_user_bound(bandwidth_bound)` in `comm_action_set_bounds`), so a later increase is not used;
 * a new availability of 0 (constraint bound 0) makes `maxmin_solve` skip the constraint before resetting the values of
   its variables: the activity keeps its previous rate. -/
def effRate (cap : Option Rat) (prev r : Rat) : Rat :=
  let r1 := if r > 0 then r else prev
  match cap with
  | some c => if c < r1 then c else r1
  | none => r1

def finishCode (cap : Option Rat) (now remains rate : Rat) : List (Rat × Rat) → Option Rat
  | [] => if rate > 0 then some (now + remains / rate) else none
  | (d, r') :: evs =>
    if rate > 0 ∧ now + remains / rate ≤ d then some (now + remains / rate)
    else finishCode cap d (remains - rate * (d - now)) (effRate cap rate r') evs

/-- work done by the piecewise-constant rate between `now` and `T` -/
def work (now rate : Rat) (T : Rat) : List (Rat × Rat) → Rat
  | [] => rate * (T - now)
  | (d, r') :: evs => if T ≤ d then rate * (T - now) else rate * (d - now) + work d r' T evs

end SgVerif.C22
