import SgVerif.C22.Model
import Mathlib.Tactic.Linarith
import Mathlib.Tactic.FieldSimp
import Mathlib.Tactic.Ring
import Mathlib.Tactic.SplitIfs
/- helper definitions and lemmas for C22 (not property statements) -/
namespace SgVerif.C22

/-- deltas of absolute dated points, as the parser computes them (`date_params[0] -= last_date`) -/
def deltas (last : Rat) : List (Rat × Rat) → List (Rat × Rat)
  | [] => []
  | (d, v) :: r => (d - last, v) :: deltas d r

/-- sum of the deltas of a pattern = date of its last point -/
def total : List (Rat × Rat) → Rat
  | [] => 0
  | (d, _) :: r => d + total r

def shift (s : Rat) (l : List (Rat × Rat)) : List (Rat × Rat) := l.map (fun e => (e.1 + s, e.2))

/-- dates are sorted (non-decreasing) starting from `last` -/
def sortedFrom (last : Rat) : List (Rat × Rat) → Prop
  | [] => True
  | (d, _) :: r => last ≤ d ∧ sortedFrom d r

def lastDateOf (last : Rat) : List (Rat × Rat) → Rat
  | [] => last
  | (d, _) :: r => lastDateOf d r

theorem dates_append (s : Rat) (l1 l2 : List (Rat × Rat)) :
    dates s (l1 ++ l2) = dates s l1 ++ dates (s + total l1) l2 := by
  induction l1 generalizing s with
  | nil => simp [dates, total]
  | cons e r ih =>
    obtain ⟨d, v⟩ := e
    simp only [List.cons_append, dates, total, ih]
    congr 3
    ring

theorem dates_shift (s : Rat) (l : List (Rat × Rat)) : dates s l = shift s (dates 0 l) := by
  induction l generalizing s with
  | nil => simp [dates, shift]
  | cons e r ih =>
    obtain ⟨d, v⟩ := e
    simp only [dates]
    rw [ih (s + d), ih (0 + d)]
    simp only [shift, List.map_cons, List.map_map, zero_add]
    congr 1
    · congr 1; ring
    · apply List.map_congr_left
      intro e _
      simp only [Function.comp]
      congr 1
      ring

theorem dates_bumpFirst (s ld : Rat) (l : List (Rat × Rat)) : dates s (bumpFirst ld l) = dates (s + ld) l := by
  cases l with
  | nil => simp [bumpFirst, dates]
  | cons e r =>
    obtain ⟨d, v⟩ := e
    simp only [bumpFirst, dates]
    have : s + (d + ld) = s + ld + d := by ring
    rw [this]

theorem total_bumpFirst (ld : Rat) (l : List (Rat × Rat)) (h : l ≠ []) : total (bumpFirst ld l) = total l + ld := by
  cases l with
  | nil => exact absurd rfl h
  | cons e r =>
    obtain ⟨d, v⟩ := e
    simp only [bumpFirst, total]; ring

theorem total_append (l1 l2 : List (Rat × Rat)) : total (l1 ++ l2) = total l1 + total l2 := by
  induction l1 with
  | nil => simp [total]
  | cons e r ih => obtain ⟨d, v⟩ := e; simp only [List.cons_append, total, ih]; ring

theorem extend_nonempty (p : Prof) (l : List (Rat × Rat)) (hl : p.loop = true) (hne : l ≠ []) :
    extend p l = l ++ bumpFirst p.loopDelay p.pattern := by
  cases l with
  | nil => exact absurd rfl hne
  | cons e r => simp [extend, hl]

theorem gen_succ (p : Prof) (m : Nat) (hl : p.loop = true) (hne : p.pattern ≠ []) :
    gen p m ≠ [] ∧ gen p (m+1) = gen p m ++ bumpFirst p.loopDelay p.pattern := by
  induction m with
  | zero =>
    have h0 : gen p 0 = p.pattern := by simp [gen, extend]
    have hne0 : gen p 0 ≠ [] := by rw [h0]; exact hne
    exact ⟨hne0, extend_nonempty p _ hl hne0⟩
  | succ m ih =>
    have hne' : gen p (m+1) ≠ [] := by
      rw [ih.2]; intro h; exact ih.1 (List.append_eq_nil_iff.mp h).1
    exact ⟨hne', extend_nonempty p _ hl hne'⟩

theorem total_gen (p : Prof) (m : Nat) (hl : p.loop = true) (hne : p.pattern ≠ []) :
    total (gen p m) = total p.pattern + (m : Rat) * (total p.pattern + p.loopDelay) := by
  induction m with
  | zero => simp [gen, extend]
  | succ m ih =>
    rw [(gen_succ p m hl hne).2, total_append, ih, total_bumpFirst _ _ hne]
    push_cast
    ring

/-- the fired events of repetitions `0..m` -/
def iterations (pat : List (Rat × Rat)) (period : Rat) : Nat → List (Rat × Rat)
  | 0 => dates 0 pat
  | m+1 => iterations pat period m ++ shift (((m+1 : Nat) : Rat) * period) (dates 0 pat)

theorem finish_gt (now rem rate : Rat) (evs : List (Rat × Rat)) (T : Rat) (hrem : 0 < rem) (hrate : 0 ≤ rate)
    (hs : sortedFrom now evs) (hr : ∀ e ∈ evs, 0 ≤ e.2) (h : finishSpec now rem rate evs = some T) : now < T := by
  induction evs generalizing now rem rate with
  | nil =>
    simp only [finishSpec] at h
    split_ifs at h with hp
    · cases h
      have : 0 < rem / rate := div_pos hrem hp
      linarith
  | cons e r ih =>
    obtain ⟨d, r'⟩ := e
    simp only [finishSpec] at h
    obtain ⟨hd, hs'⟩ := hs
    split_ifs at h with hp
    · cases h
      have : 0 < rem / rate := div_pos hrem hp.1
      linarith
    · have hrem' : 0 < rem - rate * (d - now) := by
        by_cases hr0 : rate > 0
        · have hgt : d < now + rem / rate := by
            by_contra hc
            exact hp ⟨hr0, not_lt.mp hc⟩
          have : rate * (d - now) < rem := by
            have h1 : d - now < rem / rate := by linarith
            calc rate * (d - now) < rate * (rem / rate) := mul_lt_mul_of_pos_left h1 hr0
              _ = rem := by field_simp
          linarith
        · have : rate = 0 := le_antisymm (not_lt.mp hr0) hrate
          rw [this]; simp; exact hrem
      have := ih d (rem - rate * (d - now)) r' hrem' (hr (d, r') (by simp)) hs'
        (fun e he => hr e (by simp [he])) h
      linarith

end SgVerif.C22
