import SgVerif.C22.Model
import SgVerif.Common.Proto
open SgVerif.Proto
namespace SgVerif.C22

def parseRat (s : String) : Option Rat :=
  match s.splitOn "/" with
  | [n, d] => match n.toInt?, d.toNat? with
    | some n, some d => if d = 0 then none else some ((n : Rat) / (d : Rat))
    | _, _ => none
  | [n] => n.toInt?.map (fun n => (n : Rat))
  | _ => none

def rabs (x : Rat) : Rat := if x < 0 then -x else x
def close (a b : Rat) : Bool := rabs (a - b) ≤ rabs b / 1000000000 + 1 / 1000000000000

def parseLineTok (t : String) : Option Line :=
  match t.splitOn ":" with
  | ["P", r] => (parseRat r).map Line.periodicity
  | ["L", r] => (parseRat r).map Line.loopafter
  | ["pt", d, v] => match parseRat d, parseRat v with
    | some d, some v => some (Line.point d v)
    | _, _ => none
  | ["#"] => some Line.comment
  | _ => none

def splitBar (q : List String) : List (List String) :=
  let rec go (cur : List String) (acc : List (List String)) : List String → List (List String)
    | [] => (cur.reverse :: acc).reverse
    | "|" :: r => go [] (cur.reverse :: acc) r
    | t :: r => go (t :: cur) acc r
  go [] [] q

def allSome {α : Type} : List (Option α) → Option (List α)
  | [] => some []
  | none :: _ => none
  | some a :: r => (allSome r).map (a :: ·)

/-- the property's own closed form: point j of repetition k is at t_j + k*period (period = PERIODICITY, or
last date + LOOPAFTER); computed from the INPUT lines, independently of `gen`/`dates` -/
def specEvents (ls : List Line) (horizon : Rat) : List (Rat × Rat) :=
  let pts := ls.filterMap (fun l => match l with | .point d v => some (d, v) | _ => none)
  let per := ls.foldl (fun acc l => match l with | .periodicity p => some p | _ => acc) (none : Option Rat)
  let la := ls.foldl (fun acc l => match l with | .loopafter p => some p | _ => acc) (none : Option Rat)
  let last := match pts.getLast? with | some (d, _) => d | none => 0
  let period : Option Rat := match per, la with
    | some p, _ => if p > 0 then some p else (la.map (fun d => last + d))
    | none, some d => some (last + d)
    | none, none => none
  match period with
  | none => pts.filter (fun e => e.1 ≤ horizon)
  | some p =>
    if p ≤ 0 then pts.filter (fun e => e.1 ≤ horizon) else
    let reps := ((horizon / p).floor.toNat) + 1
    ((List.range (reps + 1)).flatMap (fun (k : Nat) => pts.map (fun e => (e.1 + ((k : Nat) : Rat) * p, e.2)))).filter (fun e => e.1 ≤ horizon)

structure Kind where
  init : Rat
  conv : Rat → Rat

def mkKind (kind : String) (b1 b2 : Rat) : Option Kind :=
  if kind == "hspeed" then some { init := b1, conv := fun v => b1 * v }
  else if kind == "hstate" ∨ kind == "lstate" then some { init := 1, conv := fun v => if v > 0 then 1 else 0 }
  else if kind == "lbw" then some { init := b1, conv := id }
  else if kind == "llat" then some { init := b2, conv := id }
  else none

def showO : Option Rat → String
  | none => "none"
  | some r => toString r

/-- events of the same date are all applied before the LMM is solved again: only the last one of a date matters for a
running activity -/
def collapse : List (Rat × Rat) → List (Rat × Rat)
  | [] => []
  | [e] => [e]
  | e1 :: e2 :: r => if e1.1 = e2.1 then collapse (e2 :: r) else e1 :: collapse (e2 :: r)

/-- expected outcome of the activity: (status, date) for code model and spec -/
def activity (kind : String) (b1 b2 : Rat) (evs : List (Rat × Rat)) (k : Kind) (amount tstart : Rat) :
    (Option (String × Rat)) × (Option (String × Rat)) × String :=
  let cur := valueAt k.init evs tstart
  let fut (from_ : Rat) := collapse (evs.filter (fun e => e.1 > from_))
  if kind == "hspeed" then
    let code := (finishCode none tstart amount cur (fut tstart)).map (fun d => ("ok", d))
    let spec := (finishSpec tstart amount cur (fut tstart)).map (fun d => ("ok", d))
    (code, spec, "zero-availability-mishandled")
  else if kind == "hstate" ∨ kind == "lstate" then
    if cur = 0 then (some ("fail", tstart), some ("fail", tstart), "") else
    let dur := if kind == "hstate" then amount / b1 else b2 + amount / b1
    let fin := tstart + dur
    let off := (evs.filter (fun e => e.1 > tstart)).find? (fun e => e.2 = 0)   -- every off event kills, even a transient one
    let r := match off with
      | some (d, _) => if d < fin then ("fail", d) else if d = fin then ("tie", fin) else ("ok", fin)
      | none => ("ok", fin)
    (some r, some r, "")
  else if kind == "lbw" then
    let t1 := tstart + b2
    let r1 := valueAt k.init evs t1
    let cap : Option Rat := if capByInitialBandwidth then some cur else none
    let code := (finishCode cap t1 amount (effRate cap cur r1) (fut t1)).map (fun d => ("ok", d))
    let spec := (finishSpec t1 amount r1 (fut t1)).map (fun d => ("ok", d))
    (code, spec, "comm-rate-capped-by-initial-bandwidth")
  else
    -- llat: latency in force at the start; later changes do not move the end of the latency phase, and since the fix
    -- "a bandwidth or latency change must not enable the flows that are still paying their latency" a change inside the
    -- latency phase does not stall the comm any more (witness kept in corpus.txt): the code does what the spec says
    let t1 := tstart + cur
    let fin := t1 + amount / b1
    (some ("ok", fin), some ("ok", fin), "")

def judge (q a : List String) : Verdict :=
  match splitBar q with
  | [[kind, optim], base, lines, [amount, tstart], samples] =>
    match allSome (base.map parseRat), allSome (lines.map parseLineTok), parseRat amount, parseRat tstart,
          allSome (samples.map parseRat) with
    | some bs, some ls, some amount, some tstart, some samples =>
      let b1 := bs.getD 0 0
      let b2 := bs.getD 1 0
      match parse (-1) ls, a with
      | none, ["abort"] => .ok
      | none, _ => .disagree "abort"
      | some p, ["abort"] =>
        -- the profile is well-formed: the simulation must not abort
        match mkKind kind b1 b2 with
        | none => .bad
        | some k =>
          let evs := (firedUpTo p (tstart * 4 + 64) 4096 0).map (fun e => (e.1, k.conv e.2))
          if optim == "TI" then .monfail "simulation aborted on a well-formed profile key=cpu-ti-profile-misapplied"
          else if kind == "hspeed" ∧ amount > 0 ∧ valueAt k.init evs tstart = 0 then
            .monfail "simulation aborted: exec started while the speed ratio is 0 key=zero-availability-mishandled"
          else .disagree "no-abort"
      | some p, _ =>
        match mkKind kind b1 b2 with
        | none => .bad
        | some k =>
          let horizon := (samples.foldl (fun m x => if x > m then x else m) tstart) * 4 + 64
          let evs := (firedUpTo p horizon 4096 0).map (fun e => (e.1, k.conv e.2))
          let sevs := (specEvents ls horizon).map (fun e => (e.1, k.conv e.2))
          -- answer: s v* f status date
          match a with
          | "s" :: rest =>
            let vals := rest.takeWhile (· ≠ "f")
            let tail := rest.dropWhile (· ≠ "f")
            match allSome (vals.map parseRat), tail with
            | some vals, ["f", status, date] =>
              if vals.length ≠ samples.length then .bad else
              let ti := optim == "TI"
              let mvals := samples.map (valueAt k.init evs)
              let svals := samples.map (valueAt k.init sevs)
              if vals ≠ svals then
                .monfail s!"sampled values {vals} differ from the profile's values in force {svals} key={if ti then "cpu-ti-profile-misapplied" else "unclassified"}"
              else if ¬ ti ∧ vals ≠ mvals then .disagree s!"samples {mvals}"
              else
                if amount ≤ 0 then (if status == "none" then .ok else .disagree "none") else
                match parseRat date with
                | none => .bad
                | some date =>
                  let (code, spec, key) := activity kind b1 b2 evs k amount tstart
                  let same (x : Option (String × Rat)) : Bool := match x with
                    | some (s, d) => (s == status ∨ s == "tie") ∧ close date d
                    | none => false
                  if ¬ same spec then
                    let cls := if ti then "cpu-ti-profile-misapplied"
                      else if key ≠ "" ∧ (same code ∨ code.isNone) then key else "unclassified"
                    .monfail s!"activity ended {status} at {date}, the availability integral gives {spec.map (·.2) |> showO} key={cls}"
                  else if ti ∨ code.isNone ∨ same code then .ok
                  else .disagree s!"code-model {code.map (·.2) |> showO}"
            | _, _ => .bad
          | _ => .bad
    | _, _, _, _, _ => .bad
  | _ => .bad

end SgVerif.C22

def main : IO Unit := SgVerif.Proto.run SgVerif.C22.judge
