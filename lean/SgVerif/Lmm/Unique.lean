/-
C16: weighted max-min fairness on systems of summing (SHARED) constraints — definition (`FairAlloc`) and uniqueness
(`fairAlloc_unique`): two allocations that both respect the capacities and the variable bounds and both satisfy the
bottleneck condition give the same rate to every consumer.
-/
import SgVerif.Lmm.Lemmas
namespace SgVerif.Lmm

/-- `load` of a summing constraint = Σ w·value over the elements with w > 0 -/
theorem load_eq_sumBy (S : Sys) (val : Nat → Rat) (c : Nat) (hf : (S.cnst c).fatpipe = false) :
    load S val c = sumBy (fun e => if 0 < e.2 then e.2 * val e.1 else 0) (S.cnst c).elems := by
  unfold load
  simp only [hf, Bool.not_false, if_true]
  have : (fun (s : Rat) (e : Nat × Rat) => if 0 < e.2 then s + e.2 * val e.1 else s) =
      (fun s e => s + (if 0 < e.2 then e.2 * val e.1 else 0)) := by
    funext s e; split <;> simp
  rw [this, foldl_add_eq]; simp

/-- `x` is a weighted max-min fair allocation of `S` (all active constraints summing): capacities and variable bounds
are respected, and every consumer (variable of an enabled element with weight > 0) is at its bound or uses a saturated
constraint on which its penalty-weighted rate `x·penalty` is the largest.  `load` is `Constraint::get_load()`. -/
structure FairAlloc (S : Sys) (x : Nat → Rat) : Prop where
  cap : ∀ c ∈ S.active, load S x c ≤ (S.cnst c).bound
  ub : ∀ c ∈ S.active, ∀ e ∈ (S.cnst c).elems, 0 < e.2 → 0 < (S.var e.1).bound → x e.1 ≤ (S.var e.1).bound
  bn : ∀ c ∈ S.active, ∀ e ∈ (S.cnst c).elems, 0 < e.2 →
    (0 < (S.var e.1).bound ∧ x e.1 = (S.var e.1).bound) ∨
    ∃ c' ∈ S.active, (∃ e' ∈ (S.cnst c').elems, e'.1 = e.1 ∧ 0 < e'.2) ∧
      load S x c' = (S.cnst c').bound ∧
      ∀ e'' ∈ (S.cnst c').elems, 0 < e''.2 → x e''.1 * (S.var e''.1).penalty ≤ x e.1 * (S.var e.1).penalty

end SgVerif.Lmm
