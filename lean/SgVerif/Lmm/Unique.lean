/-
C16: weighted max-min fairness on systems of summing (SHARED) constraints — definition (`FairAlloc`) and uniqueness
(`fairAlloc_unique`): two allocations that both respect the capacities and the variable bounds and both satisfy the
bottleneck condition give the same rate to every consumer.
-/
import SgVerif.Lmm.Lemmas
namespace SgVerif.Lmm

/-- `load` of a summing constraint = Σ w·value over the elements with w > 0 -/
theorem load_eq_sumBy (S : Sys) (val : Nat → Rat) (c : Nat) (hf : (S.cnst c).fatpipe = false) :
    load S val c = sumBy (fun e => if 0 < e.2 then e.2 * val e.1 else 0) (S.cnst c).elems := by
  unfold load
  simp only [hf, Bool.not_false, if_true]
  have : (fun (s : Rat) (e : Nat × Rat) => if 0 < e.2 then s + e.2 * val e.1 else s) =
      (fun s e => s + (if 0 < e.2 then e.2 * val e.1 else 0)) := by
    funext s e; split <;> simp
  rw [this, foldl_add_eq]; simp

/-- `x` is a weighted max-min fair allocation of `S` (all active constraints summing): capacities and variable bounds
are respected, and every consumer (variable of an enabled element with weight > 0) is at its bound or uses a saturated
constraint on which its penalty-weighted rate `x·penalty` is the largest.  `load` is `Constraint::get_load()`. -/
structure FairAlloc (S : Sys) (x : Nat → Rat) : Prop where
  cap : ∀ c ∈ S.active, load S x c ≤ (S.cnst c).bound
  ub : ∀ c ∈ S.active, ∀ e ∈ (S.cnst c).elems, 0 < e.2 → 0 < (S.var e.1).bound → x e.1 ≤ (S.var e.1).bound
  bn : ∀ c ∈ S.active, ∀ e ∈ (S.cnst c).elems, 0 < e.2 →
    (0 < (S.var e.1).bound ∧ x e.1 = (S.var e.1).bound) ∨
    ∃ c' ∈ S.active, (∃ e' ∈ (S.cnst c').elems, e'.1 = e.1 ∧ 0 < e'.2) ∧
      load S x c' = (S.cnst c').bound ∧
      ∀ e'' ∈ (S.cnst c').elems, 0 < e''.2 → x e''.1 * (S.var e''.1).penalty ≤ x e.1 * (S.var e.1).penalty

/-! ### uniqueness -/

theorem exists_min_on (f : Nat → Rat) (P : Nat → Prop) (l : List Nat) (h : ∃ v ∈ l, P v) :
    ∃ v ∈ l, P v ∧ ∀ u ∈ l, P u → f v ≤ f u := by
  induction l with
  | nil => obtain ⟨v, hv, _⟩ := h; simp at hv
  | cons a t ih =>
    by_cases ht : ∃ v ∈ t, P v
    · obtain ⟨v, hv, hpv, hmin⟩ := ih ht
      by_cases ha : P a ∧ f a < f v
      · refine ⟨a, by simp, ha.1, ?_⟩
        intro u hu hpu
        simp at hu
        rcases hu with rfl | hu
        · exact le_refl _
        · exact le_trans (le_of_lt ha.2) (hmin u hu hpu)
      · refine ⟨v, by simp [hv], hpv, ?_⟩
        intro u hu hpu
        simp at hu
        rcases hu with rfl | hu
        · by_contra hlt
          exact ha ⟨hpu, by linarith⟩
        · exact hmin u hu hpu
    · obtain ⟨v, hv, hpv⟩ := h
      simp at hv
      rcases hv with rfl | hv
      · refine ⟨v, by simp, hpv, ?_⟩
        intro u hu hpu
        simp at hu
        rcases hu with rfl | hu
        · exact le_refl _
        · exact absurd ⟨u, hu, hpu⟩ ht
      · exact absurd ⟨v, hv, hpv⟩ ht

/-- the consumers: variables of the enabled elements with weight > 0 of the active constraints -/
def consumersOf (S : Sys) : List Nat :=
  S.active.flatMap (fun c => ((S.cnst c).elems.filter (fun e => decide (0 < e.2))).map (·.1))

theorem mem_consumersOf (S : Sys) (v : Nat) :
    v ∈ consumersOf S ↔ ∃ c ∈ S.active, ∃ e ∈ (S.cnst c).elems, 0 < e.2 ∧ e.1 = v := by
  unfold consumersOf
  simp only [List.mem_flatMap, List.mem_map, List.mem_filter, decide_eq_true_eq]
  constructor
  · rintro ⟨c, hc, e, ⟨he, hw⟩, rfl⟩; exact ⟨c, hc, e, he, hw, rfl⟩
  · rintro ⟨c, hc, e, he, hw, rfl⟩; exact ⟨c, hc, e, ⟨he, hw⟩, rfl⟩

theorem sumBy_neg_exists (f : Nat × Rat → Rat) (l : List (Nat × Rat)) (hs : sumBy f l ≤ 0) (e : Nat × Rat) (he : e ∈ l)
    (hp : 0 < f e) : ∃ e' ∈ l, f e' < 0 := by
  by_contra hno
  have hall : ∀ a ∈ l, 0 ≤ f a := by
    intro a ha
    by_contra hlt
    exact hno ⟨a, ha, by linarith⟩
  have := sumBy_le_of_mem f l hall e he
  linarith

theorem sumBy_sub (f g : Nat × Rat → Rat) (l : List (Nat × Rat)) :
    sumBy (fun e => f e - g e) l = sumBy f l - sumBy g l := by
  induction l with
  | nil => simp
  | cons a t ih => simp [ih]; ring

/-- the asymmetric step of the uniqueness proof: `v` minimises `min (x·p) (y·p)` among the consumers on which `x` and
`y` differ, and `x v < y v`: the bottleneck constraint of `v` under `x` would be overloaded by `y` unless some consumer
`u` of it has `y u < x u ≤ x v·p_v/p_u`, which contradicts the minimality of `v`. -/
theorem fair_lt_absurd (S : Sys) (hwf : WF S) (hsh : ∀ c ∈ S.active, (S.cnst c).fatpipe = false) (x y : Nat → Rat)
    (hx : FairAlloc S x) (hy : FairAlloc S y) (v : Nat) (hv : v ∈ consumersOf S) (hlt : x v < y v)
    (hmin : ∀ u ∈ consumersOf S, x u ≠ y u →
      min (x v * (S.var v).penalty) (y v * (S.var v).penalty) ≤ min (x u * (S.var u).penalty) (y u * (S.var u).penalty)) :
    False := by
  obtain ⟨c, hc, e, he, hw, rfl⟩ := (mem_consumersOf S _).mp hv
  have hpv := hwf.el_pen c hc e he
  rcases hx.bn c hc e he hw with ⟨hb, hxb⟩ | ⟨c', hc', ⟨e', he', hev, hw'⟩, hload, hmax⟩
  · have := hy.ub c hc e he hw hb
    linarith
  · have hcap := hy.cap c' hc'
    rw [load_eq_sumBy S x c' (hsh c' hc')] at hload
    rw [load_eq_sumBy S y c' (hsh c' hc')] at hcap
    have hdiff : sumBy (fun a => (if 0 < a.2 then a.2 * y a.1 else 0) - (if 0 < a.2 then a.2 * x a.1 else 0))
        (S.cnst c').elems ≤ 0 := by
      rw [sumBy_sub]; linarith
    obtain ⟨a, ha, hneg⟩ := sumBy_neg_exists _ _ hdiff e' he' (by
      simp only [hw', if_true, hev]
      have : 0 < e'.2 * (y e.1 - x e.1) := mul_pos hw' (by linarith)
      linarith)
    have hwa : 0 < a.2 := by
      by_contra hn
      simp only [hn, if_false, sub_self] at hneg
      exact absurd hneg (lt_irrefl 0)
    simp only [hwa, if_true] at hneg
    have hya : y a.1 < x a.1 := by
      by_contra hge
      have : 0 ≤ a.2 * (y a.1 - x a.1) := mul_nonneg (le_of_lt hwa) (by linarith)
      linarith
    have hpa := hwf.el_pen c' hc' a ha
    have hau : a.1 ∈ consumersOf S := (mem_consumersOf S _).mpr ⟨c', hc', a, ha, hwa, rfl⟩
    have h1 := hmin a.1 hau (ne_of_gt hya)
    have h2 := hmax a ha hwa
    have h3 : min (x e.1 * (S.var e.1).penalty) (y e.1 * (S.var e.1).penalty) = x e.1 * (S.var e.1).penalty :=
      min_eq_left (le_of_lt (mul_lt_mul_of_pos_right hlt hpv))
    have h4 : min (x a.1 * (S.var a.1).penalty) (y a.1 * (S.var a.1).penalty) ≤ y a.1 * (S.var a.1).penalty :=
      min_le_right _ _
    have h5 : y a.1 * (S.var a.1).penalty < x a.1 * (S.var a.1).penalty := mul_lt_mul_of_pos_right hya hpa
    rw [h3] at h1
    linarith

/-- **Uniqueness of the weighted max-min fair allocation** (summing constraints, variable bounds allowed): two
allocations that respect capacities and bounds and satisfy the bottleneck condition agree on every consumer. -/
theorem fairAlloc_unique (S : Sys) (hwf : WF S) (hsh : ∀ c ∈ S.active, (S.cnst c).fatpipe = false) (x y : Nat → Rat)
    (hx : FairAlloc S x) (hy : FairAlloc S y) :
    ∀ c ∈ S.active, ∀ e ∈ (S.cnst c).elems, 0 < e.2 → x e.1 = y e.1 := by
  intro c hc e he hw
  by_contra hne
  have hex : ∃ v ∈ consumersOf S, x v ≠ y v := ⟨e.1, (mem_consumersOf S _).mpr ⟨c, hc, e, he, hw, rfl⟩, hne⟩
  obtain ⟨v, hv, hpv, hmin⟩ := exists_min_on
    (fun u => min (x u * (S.var u).penalty) (y u * (S.var u).penalty)) (fun u => x u ≠ y u) (consumersOf S) hex
  rcases lt_or_gt_of_ne hpv with hlt | hgt
  · exact fair_lt_absurd S hwf hsh x y hx hy v hv hlt hmin
  · apply fair_lt_absurd S hwf hsh y x hy hx v hv hgt
    intro u hu hneu
    have := hmin u hu (Ne.symm hneu)
    rw [min_comm (y v * _), min_comm (y u * _)]
    exact this

end SgVerif.Lmm
