/-
Line-protocol judge shared by drv_C15 and drv_C16.  A line (after check.py turned %a doubles into exact p/q):
  solve <id> <k> <solver> <sel> NC n {bound fat ne {v w}*}* NV n {freed pen bound value nc {c w}*}* A k c* O k v* => val* act=<n>
-/
import SgVerif.Lmm.Model
import SgVerif.Lmm.Spec
import SgVerif.Common.Proto
open SgVerif.Proto
namespace SgVerif.Lmm

def parseRat (s : String) : Option Rat :=
  match s.splitOn "/" with
  | [n, d] => match n.toInt?, d.toNat? with
    | some n, some d => if d = 0 then none else some ((n : Rat) / (d : Rat))
    | _, _ => none
  | [n] => n.toInt?.map (fun n => (n : Rat))
  | _ => none

abbrev P := StateT (List String) Option

def tok : P String := fun s => match s with | [] => none | t :: r => some (t, r)
def nat : P Nat := do let t ← tok; match t.toNat? with | some n => pure n | none => failure
def rat : P Rat := do let t ← tok; match parseRat t with | some n => pure n | none => failure
def kw (k : String) : P Unit := do let t ← tok; if t = k then pure () else failure
def rep {α : Type} (n : Nat) (p : P α) : P (List α) :=
  match n with
  | 0 => pure []
  | n + 1 => do let x ← p; let r ← rep n p; pure (x :: r)
def pair : P (Nat × Rat) := do let a ← nat; let w ← rat; pure (a, w)

structure Dump where
  S : Sys
  nv : Nat
  nc : Nat
  val0 : Nat → Rat
  freed : Nat → Bool

def pDump : P Dump := do
  kw "NC"; let nc ← nat
  let cs ← rep nc (do let b ← rat; let f ← nat; let ne ← nat; let es ← rep ne pair
                      pure ({ bound := b, fatpipe := f = 1, elems := es } : Cnst))
  kw "NV"; let nv ← nat
  let vs ← rep nv (do
    let fr ← nat; let p ← rat; let b ← rat; let x ← rat; let ne ← nat; let es ← rep ne pair
    let V : Var := { penalty := p, bound := b, cnsts := es }
    let r : Var × Rat × Bool := (V, x, decide (fr = 1))
    pure r)
  kw "A"; let na ← nat; let act ← rep na nat
  kw "O"; let no ← nat; let ord ← rep no nat
  let ca := cs.toArray
  let va := vs.toArray
  pure { S := { cnst := fun i => ca.getD i default, var := fun i => (va.getD i default).1, active := act, vorder := ord },
         nv := nv, nc := nc, val0 := fun i => (va.getD i default).2.1, freed := fun i => (va.getD i default).2.2 }

def ratAbs (x : Rat) : Rat := if x < 0 then -x else x
def close (a b : Rat) : Bool :=
  let m := if ratAbs a < ratAbs b then ratAbs b else ratAbs a
  decide (ratAbs (a - b) ≤ m / 1000000000 + 1 / 1000000000000)

def showRat (x : Rat) : String := s!"{x.num}/{x.den}"

def firstDiff (nv : Nat) (m i : Nat → Rat) : Option Nat := (List.range nv).find? (fun v => !close (m v) (i v))

def eps : Rat := 1 / 100000
def tol : Rat := 1 / 1000000000

/-- does the system only contain summing constraints (Spec comparison applies)? -/
def sharedOnly (d : Dump) : Bool := d.S.active.all (fun c => !(d.S.cnst c).fatpipe)

/-- smallest relative distance of a precision test of the maxmin model run to its threshold, explored by re-running the
model with the precision scaled by 1 ± 1/100: if the three runs agree the discrete decisions had margin. -/
def stable (d : Dump) (fuel : Nat) : Bool :=
  match maxminSolve d.S (eps * (101/100)) fuel d.val0, maxminSolve d.S (eps * (99/100)) fuel d.val0,
        maxminSolve d.S eps fuel d.val0 with
  | some a, some b, some c => (firstDiff d.nv a.value c.value).isNone && (firstDiff d.nv b.value c.value).isNone
  | _, _, _ => false

def judge (mode : String) (q a : List String) : Verdict :=
  match q with
  | "endcase" :: _ => .ok
  | "crash" :: _ => .ok   -- abort outside solve(): counted by check.py, not a statement about a solver's answer
  | "solve" :: _id :: _k :: solver :: sel :: rest =>
    match pDump rest with
    | none => .bad
    | some (d, _) =>
      if a = ["abort"] then
        -- BMF may stop with an explicit error; the other solvers may not
        if solver = "bmf" then .ok else .monfail s!"{solver} aborted inside solve()"
      else
      let vals := (a.filter (fun t => !t.startsWith "act=")).map parseRat
      if vals.any Option.isNone ∨ vals.length ≠ d.nv then .bad else
      let iv := (vals.map (fun o => o.getD 0)).toArray
      let impl : Nat → Rat := fun i => iv.getD i 0
      let fuel := d.nv + d.nc + 2
      if mode = "C15" then
        if !feasible d.S tol impl then
          let badc := d.S.active.filter (fun c => !decide (load d.S impl c ≤ (d.S.cnst c).bound * (1 + tol)))
          let badv := d.S.vorder.filter (fun v => !feasible { d.S with active := [], vorder := [v] } tol impl)
          -- classification help for check.py: does the maxmin model run at the configured precision reproduce the
          -- implementation's (infeasible) answer while the exact-arithmetic run (eps = 0, `maxmin_feasible`) is feasible?
          -- Then the overload comes from the precision tests as modelled (finding maxmin-precision-drops-constraint).
          let tag :=
            if solver = "maxmin" ∧ sel = "0" then
              match maxminSolve d.S eps fuel d.val0, maxminSolve d.S 0 fuel d.val0 with
              | some st, some st0 =>
                if (firstDiff d.nv st.value impl).isNone && feasible d.S tol st0.value then " precision-model-agrees" else ""
              | _, _ => ""
            else ""
          .monfail s!"infeasible allocation by {solver}: constraints over capacity {badc} loads {badc.map (fun c => showRat (load d.S impl c))} variables outside [0,bound] or disabled with a rate {badv} values {badv.map (fun v => showRat (impl v))}{tag}"
        else if solver = "maxmin" ∧ sel = "0" then
          match maxminSolve d.S eps fuel d.val0 with
          | none => .disagree "model-out-of-fuel"
          | some st =>
            match firstDiff d.nv st.value impl with
            | none => .ok
            | some v => if stable d fuel then .disagree s!"var {v}: model {showRat (st.value v)}" else .ok
        else if solver = "fairbottleneck" ∧ sel = "0" then
          match fbSolve d.S eps (4 * (d.nv + d.nc) + 8) d.val0 with
          | none => .disagree "fb-model-none"
          | some st =>
            match firstDiff d.nv st.value impl with
            | none => .ok
            | some v => .disagree s!"var {v}: model {showRat (st.value v)}"
        else .ok
      else -- C16
        if solver = "maxmin" then
          if !bottleneck d.S tol impl then
            let bad := d.S.vorder.filter (fun v => !bottleneck { d.S with vorder := [v] } tol impl)
            .monfail s!"maxmin: variables {bad} below their bound have no saturated constraint where their weighted rate is maximal"
          else if sel = "0" ∧ sharedOnly d then
            -- exact progressive-filling reference against the implementation (and the model against it)
            let sp := Spec.alloc d.S
            let live : Nat → Rat := fun v => if decide (0 < (d.S.var v).penalty) && consumes d.S v then impl v else sp v
            match firstDiff d.nv sp live with
            | none =>
              (match maxminSolve d.S 0 fuel d.val0 with
               | none => .disagree "model-out-of-fuel(eps=0)"
               | some st =>
                 let mv : Nat → Rat := fun v => if decide (0 < (d.S.var v).penalty) && consumes d.S v then st.value v else sp v
                 if (List.range d.nv).all (fun v => decide (mv v = sp v)) then .ok
                 else .disagree "model(eps=0) differs from Spec.alloc")
            | some v => .disagree s!"var {v}: spec {showRat (sp v)}"
          else .ok
        else if solver = "bmf" then
          if !bmfFair d.S (1 / 100000) impl then .monfail "bmf: some consuming variable below its bound has the largest share on no saturated constraint"
          else .ok
        else .ok
  | _ => .bad

end SgVerif.Lmm
