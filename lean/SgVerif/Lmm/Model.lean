/-
Shared model of the LMM *solve* functions (properties C15, C16).  Core Lean only (the drivers are compiled).

  maxminSolve   <->  MaxMin::maxmin_solve          /repo/src/kernel/lmm/maxmin.cpp
  fbSolve       <->  FairBottleneck::do_solve      /repo/src/kernel/lmm/fair_bottleneck.cpp
  feasible / bottleneck / bmfAccept                decidable acceptance predicates (monitors)

A system is *data*, as it stands when `System::solve()` is entered (the bookkeeping that produces it from a
history of `expand/update_*` calls is the business of C17/C18; the harness dumps it from the real lists):

  Cnst.elems  = `Constraint::enabled_element_set_`   front first (enabled elements are pushed front)
  Var.cnsts   = `Variable::cnsts_`                   vector order
  Sys.active  = `System::active_constraint_set`      list order (the `cnst_list` walked by maxmin_solve when
                                                     selective update is off)
  Sys.vorder  = `System::variable_set`               list order (walked by FairBottleneck::do_solve)

Numbers are exact rationals; the precision tests of src/simgrid/math_utils.h take the precision `eps`
(= `sg_precision_workamount`) as a parameter.
-/
namespace SgVerif.Lmm

structure Cnst where
  bound : Rat
  fatpipe : Bool                  -- sharing_policy_ == FATPIPE (everything else sums: SHARED, and WIFI/NONLINEAR w/o callback)
  elems : List (Nat × Rat)        -- (variable, consumption_weight)
  deriving Inhabited

structure Var where
  penalty : Rat                   -- sharing_penalty_ (0 = disabled)
  bound : Rat                     -- bound_ (<= 0: none; the API uses -1)
  cnsts : List (Nat × Rat)        -- (constraint, consumption_weight)
  deriving Inhabited

structure Sys where
  cnst : Nat → Cnst
  var : Nat → Var
  active : List Nat
  vorder : List Nat

def upd {α : Type} (f : Nat → α) (i : Nat) (x : α) : Nat → α := fun j => if j = i then x else f j

/-! ### math_utils.h -/

/-- `double_positive(value, precision)  = value > precision` -/
def dblPos (x prec : Rat) : Bool := decide (prec < x)

/-- `double_equals(a, b, precision) = fabs(a - b) < precision`.  For every `precision > 0` this is the C++ test
(a = b gives |a-b| = 0 < precision); the disjunct `a = b` only matters at `precision = 0`, where the C++ test is
constantly false and the solver would not terminate: the theorems at `eps = 0` are about this exact-equality limit. -/
def dblEq (a b prec : Rat) : Bool := decide (a - b < prec ∧ b - a < prec) || decide (a = b)

/-- `double_update(&x, v, precision)`: `x -= v; if (x < precision) x = 0;` -/
def dblUpdate (x v prec : Rat) : Rat := if x - v < prec then 0 else x - v

/-! ### MaxMin::maxmin_solve -/

structure St where
  value : Nat → Rat          -- Variable::value_
  fixed : Nat → Bool         -- "make_inactive() was called on the elements of this variable" (its value is final)
  remaining : Nat → Rat      -- Constraint::remaining_
  usage : Nat → Rat          -- Constraint::usage_
  light : List Nat           -- cnst_light_tab[0 .. cnst_light_num) as constraint ids (cnst_light_ != nullptr <-> membership);
                             -- remaining_over_usage is refreshed at every write of remaining_/usage_ of a light constraint,
                             -- so the model recomputes it (same operands, same quotient)
  minUsage : Rat             -- min_usage (-1 = none yet)
  sat : List Nat             -- saturated_constraints (positions in the tab = the constraints at that time)

/-- `saturated_constraints_update(usage, cnst_light_num, saturated_constraints, &min_usage)` -/
def satCnstUpdate (rou : Rat) (c : Nat) (st : St) : St :=
  if st.minUsage < 0 ∨ rou < st.minUsage then { st with minUsage := rou, sat := [c] }
  else if st.minUsage = rou then { st with sat := st.sat ++ [c] }
  else st

/-- `active_element_set_` of a constraint that went through the INIT pass: `make_active()` pushes front every enabled
element with weight > 0, `make_inactive()` removes the elements of a variable when it is fixed. -/
def activeElems (S : Sys) (st : St) (c : Nat) : List (Nat × Rat) :=
  ((S.cnst c).elems.filter (fun e => decide (0 < e.2) && !st.fixed e.1)).reverse

/-- `saturated_variable_set_update`: append the not-yet-listed variables of the active elements (weight > 0) of the
saturated constraints to `saturated_variable_set`. -/
def satVarUpdate (S : Sys) (st : St) (sv : List Nat) : List Nat :=
  st.sat.foldl (fun sv c =>
    (activeElems S st c).foldl (fun sv e => if 0 < e.2 ∧ ¬ e.1 ∈ sv then sv ++ [e.1] else sv) sv) sv

/-- usage_ computed by the INIT pass over `enabled_element_set_`:
`if (w > 0) { if (policy != FATPIPE) usage += w/penalty; else if (usage < w/penalty) usage = w/penalty; }` -/
def initUsage (S : Sys) (c : Nat) : Rat :=
  (S.cnst c).elems.foldl (fun u e =>
    if 0 < e.2 then
      let x := e.2 / (S.var e.1).penalty
      if !(S.cnst c).fatpipe then u + x else if u < x then x else u
    else u) 0

/-- recomputation of usage_ of a FATPIPE constraint when one of its variables is fixed:
`usage = 0; for elem2 in enabled: if (elem2.variable->value_ > 0) continue; if (w > 0) usage = max(usage, w/penalty)` -/
def fatUsage (S : Sys) (value : Nat → Rat) (c : Nat) : Rat :=
  (S.cnst c).elems.foldl (fun u e =>
    if 0 < value e.1 then u
    else if 0 < e.2 then (let x := e.2 / (S.var e.1).penalty; if u < x then x else u) else u) 0

/-- `cnst_light_tab[index] = cnst_light_tab[cnst_light_num - 1]; cnst_light_num--;` (guarded by `cnst->cnst_light_`) -/
def swapRemove (l : List Nat) (c : Nat) : List Nat :=
  if c ∈ l then
    match l.getLast? with
    | none => l
    | some last => l.dropLast.map (fun x => if x = c then last else x)
  else l

/-- body of `for (Element& elem : var.cnsts_)` for the variable `v` just given its value -/
def updCnst (S : Sys) (eps : Rat) (v : Nat) (st : St) (e : Nat × Rat) : St :=
  let c := e.1
  let w := e.2
  let C := S.cnst c
  let st1 : St :=
    if !C.fatpipe then
      { st with remaining := upd st.remaining c (dblUpdate (st.remaining c) (w * st.value v) (C.bound * eps)),
                usage := upd st.usage c (dblUpdate (st.usage c) (w / (S.var v).penalty) eps) }
    else
      { st with usage := upd st.usage c (fatUsage S st.value c) }
  if !(dblPos (st1.usage c) eps) || !(dblPos (st1.remaining c) (C.bound * eps)) then
    { st1 with light := swapRemove st1.light c }
  else st1

/-- `var.value_ = x;` then the loop over `var.cnsts_` (every element of `v` is made inactive in it) -/
def fixVar (S : Sys) (eps : Rat) (st : St) (v : Nat) (x : Rat) : St :=
  (S.var v).cnsts.foldl (updCnst S eps v)
    { st with value := upd st.value v x, fixed := upd st.fixed v true }

/-- first `for` of the do-while: `min_bound` over the saturated variables whose `bound*penalty < min_usage` -/
def minBound (S : Sys) (minUsage : Rat) (sv : List Nat) : Rat :=
  sv.foldl (fun mb v =>
    let V := S.var v
    if 0 < V.bound ∧ V.bound * V.penalty < minUsage then
      (if mb < 0 then V.bound * V.penalty else (if V.bound * V.penalty < mb then V.bound * V.penalty else mb))
    else mb) (-1)

/-- `while (not var_list.empty())`: one iteration pops the front -/
def fixLoop (S : Sys) (eps mb mu : Rat) : St → List Nat → St
  | st, [] => st
  | st, v :: rest =>
    let V := S.var v
    if mb < 0 then fixLoop S eps mb mu (fixVar S eps st v (mu / V.penalty)) rest
    else if decide (0 < V.bound) && dblEq mb (V.bound * V.penalty) eps then fixLoop S eps mb mu (fixVar S eps st v V.bound) rest
    else fixLoop S eps mb mu st rest

/-- "Find out which variables reach the maximum": min_usage = -1, clear, scan the light tab -/
def reselect (st : St) : St :=
  st.light.foldl (fun st c => satCnstUpdate (st.remaining c / st.usage c) c st)
    { st with minUsage := -1, sat := [] }

/-- one pass of the `do { … } while (cnst_light_num > 0)` body -/
def round (S : Sys) (eps : Rat) (st : St) (sv : List Nat) : St :=
  reselect (fixLoop S eps (minBound S st.minUsage sv) st.minUsage st sv)

/-- the do-while, with fuel (`none` = fuel exhausted; `maxmin_terminates` shows #variables + 1 is enough) -/
def loop (S : Sys) (eps : Rat) : Nat → St → List Nat → Option St
  | 0, _, _ => none
  | n + 1, st, sv =>
    let st' := round S eps st sv
    if st'.light.isEmpty then some st' else loop S eps n st' (satVarUpdate S st' [])

/-- INIT pass for one constraint of `cnst_list` -/
def initCnst (S : Sys) (eps : Rat) (st : St) (c : Nat) : St :=
  let C := S.cnst c
  let st := { st with remaining := upd st.remaining c C.bound }
  if !(dblPos C.bound (C.bound * eps)) then st
  else
    let st := { st with value := C.elems.foldl (fun (val : Nat → Rat) (e : Nat × Rat) => upd val e.1 0) st.value }
    let u := initUsage S c
    let st := { st with usage := upd st.usage c u }
    if 0 < u then satCnstUpdate (C.bound / u) c { st with light := st.light ++ [c] } else st

def st0 (val0 : Nat → Rat) : St :=
  { value := val0, fixed := fun _ => false, remaining := fun _ => 0, usage := fun _ => 0,
    light := [], minUsage := -1, sat := [] }

def initAll (S : Sys) (eps : Rat) (val0 : Nat → Rat) : St :=
  S.active.foldl (initCnst S eps) (st0 val0)

/-- `MaxMin::maxmin_solve(active_constraint_set)`; `val0` = the values before the call (a variable none of whose
constraints passes the `remaining > 0` test keeps its old value). -/
def maxminSolve (S : Sys) (eps : Rat) (fuel : Nat) (val0 : Nat → Rat) : Option St :=
  let st := initAll S eps val0
  loop S eps fuel st (satVarUpdate S st [])

/-! ### FairBottleneck::do_solve -/

structure FbSt where
  value : Nat → Rat
  mu : Nat → Rat             -- Variable::mu_
  remaining : Nat → Rat
  usage : Nat → Rat
  vl : List Nat              -- saturated_variable_set  (var_list)
  cl : List Nat              -- saturated_constraint_set (cnst_list)

def fbInitVar (S : Sys) (st : FbSt) (v : Nat) : FbSt :=
  let V := S.var v
  if 0 < V.penalty ∧ V.cnsts.any (fun e => e.2 ≠ 0) then
    { st with value := upd st.value v 0, vl := st.vl ++ [v] }
  else if 0 < V.penalty then { st with value := upd st.value v 1 }
  else { st with value := upd st.value v 0 }

/-- first `for` over cnst_list: count the still-growing variables, set `usage_ = remaining_/nb` or drop the constraint -/
def fbPhase1 (S : Sys) (st : FbSt) : FbSt :=
  st.cl.foldl (fun st c =>
    let C := S.cnst c
    let nb := (C.elems.filter (fun e => decide (0 < e.2) && decide (e.1 ∈ st.vl))).length
    let nb := if 0 < nb ∧ C.fatpipe then 1 else nb
    if nb = 0 then
      { st with remaining := upd st.remaining c 0, usage := upd st.usage c 0, cl := st.cl.erase c }
    else { st with usage := upd st.usage c (st.remaining c / (nb : Rat)) }) st

/-- `min_inc` of a variable: `none` stands for DBL_MAX -/
def fbMinInc (S : Sys) (st : FbSt) (v : Nat) : Option Rat :=
  let V := S.var v
  let m := V.cnsts.foldl (fun (m : Option Rat) (e : Nat × Rat) =>
    if 0 < e.2 then
      let x := st.usage e.1 / e.2
      match m with
      | none => some x
      | some y => some (if x < y then x else y)
    else m) none
  if 0 < V.bound then
    let x := V.bound - st.value v
    match m with
    | none => some x
    | some y => some (if x < y then x else y)
  else m

/-- second `for`, over var_list; `none` = some variable would get `value_ += DBL_MAX` -/
def fbPhase2 (S : Sys) (st : FbSt) : Option FbSt :=
  st.vl.foldl (fun (o : Option FbSt) v =>
    match o with
    | none => none
    | some st =>
      match fbMinInc S st v with
      | none => none
      | some inc =>
        let nv := st.value v + inc
        let st := { st with mu := upd st.mu v inc, value := upd st.value v nv }
        some (if nv = (S.var v).bound then { st with vl := st.vl.erase v } else st)) (some st)

/-- third `for`, over cnst_list -/
def fbPhase3 (S : Sys) (eps : Rat) (st : FbSt) : FbSt :=
  st.cl.foldl (fun st c =>
    let C := S.cnst c
    let st : FbSt :=
      if !C.fatpipe then
        let r := C.elems.foldl (fun (r : Rat) (e : Nat × Rat) => dblUpdate r (e.2 * st.mu e.1) eps) (st.remaining c)
        { st with remaining := upd st.remaining c r }
      else
        let u := C.elems.foldl (fun (u : Rat) (e : Nat × Rat) => if e.2 * st.mu e.1 < u then e.2 * st.mu e.1 else u) (st.usage c)
        { st with usage := upd st.usage c u, remaining := upd st.remaining c (dblUpdate (st.remaining c) u eps) }
    if st.remaining c ≤ 0 then
      { st with cl := st.cl.erase c,
                vl := C.elems.foldl (fun (vl : List Nat) (e : Nat × Rat) => if 0 < e.2 ∧ e.1 ∈ vl then vl.erase e.1 else vl) st.vl }
    else st) st

def fbLoop (S : Sys) (eps : Rat) : Nat → FbSt → Option FbSt
  | 0, _ => none
  | n + 1, st =>
    match fbPhase2 S (fbPhase1 S st) with
    | none => none
    | some st2 =>
      let st3 := fbPhase3 S eps st2
      if st3.vl.isEmpty then some st3 else fbLoop S eps n st3

def fbInit (S : Sys) (val0 : Nat → Rat) : FbSt :=
  let st : FbSt := { value := val0, mu := fun _ => 0, remaining := fun _ => 0, usage := fun _ => 0, vl := [], cl := [] }
  let st := S.vorder.foldl (fbInitVar S) st
  S.active.foldl (fun st c => { st with remaining := upd st.remaining c (S.cnst c).bound, usage := upd st.usage c 0 })
    { st with cl := S.active }

/-- `none`: fuel exhausted (the loop of the code does not terminate, e.g. a weight-0 element on a FATPIPE constraint)
or DBL_MAX increment.  `mu_` is not reset by the code; only variables of `var_list` (which are assigned `mu_` before it
is read) or variables with all weights 0 are read, so the initial `mu_` is irrelevant. -/
def fbSolve (S : Sys) (eps : Rat) (fuel : Nat) (val0 : Nat → Rat) : Option FbSt :=
  fbLoop S eps fuel (fbInit S val0)

/-! ### predicates evaluated on an allocation (monitors; `tol` = 0 in the theorems) -/

/-- load of a constraint as `Constraint::get_load()` computes it -/
def load (S : Sys) (val : Nat → Rat) (c : Nat) : Rat :=
  let C := S.cnst c
  if !C.fatpipe then C.elems.foldl (fun s e => if 0 < e.2 then s + e.2 * val e.1 else s) 0
  else C.elems.foldl (fun s e => if 0 < e.2 then (if s < e.2 * val e.1 then e.2 * val e.1 else s) else s) 0

def consumes (S : Sys) (v : Nat) : Bool := (S.var v).cnsts.any (fun e => decide (0 < e.2))

/-- C15: capacities respected (relative slack `tol`), values in [0, bound], disabled variables at 0 -/
def feasible (S : Sys) (tol : Rat) (val : Nat → Rat) : Bool :=
  S.active.all (fun c => decide (load S val c ≤ (S.cnst c).bound * (1 + tol))) &&
  S.vorder.all (fun v =>
    let V := S.var v
    decide (0 ≤ val v) &&
    (if V.penalty ≤ 0 then decide (val v = 0) else true) &&
    (if 0 < V.bound ∧ consumes S v then decide (val v ≤ V.bound * (1 + tol)) else true))

/-- constraint `c` is saturated by `val` and the penalty-weighted rate of `v` is the largest among the variables
consuming `c` -/
def isBottleneck (S : Sys) (tol : Rat) (val : Nat → Rat) (v c : Nat) : Bool :=
  let C := S.cnst c
  decide ((S.cnst c).bound * (1 - tol) ≤ load S val c) &&
  C.elems.all (fun e => if 0 < e.2 then
      decide (val e.1 * (S.var e.1).penalty ≤ val v * (S.var v).penalty * (1 + tol)) else true)

/-- C16 (maxmin): every enabled consuming variable is at its bound or has a bottleneck constraint -/
def bottleneck (S : Sys) (tol : Rat) (val : Nat → Rat) : Bool :=
  S.vorder.all (fun v =>
    let V := S.var v
    if 0 < V.penalty ∧ consumes S v then
      (decide (0 < V.bound) && decide (V.bound * (1 - tol) ≤ val v)) ||
      V.cnsts.any (fun e => decide (0 < e.2) && isBottleneck S tol val v e.1)
    else true)

/-- acceptance predicate for a BMF answer (Eigen's fixed point is not modelled): feasible, and every consuming
variable below its bound gets the largest penalty-weighted share `w * penalty * value` (the code uses
`max_consumption_weight * sharing_penalty_ * rho`) on some saturated constraint it uses -/
def bmfShareMax (S : Sys) (tol : Rat) (val : Nat → Rat) (v c : Nat) (w : Rat) : Bool :=
  let C := S.cnst c
  (C.fatpipe || decide (C.bound * (1 - tol) ≤ load S val c)) &&
  C.elems.all (fun e => if 0 < e.2 then
      decide (e.2 * (S.var e.1).penalty * val e.1 ≤ w * (S.var v).penalty * val v * (1 + tol)) else true)

def bmfFair (S : Sys) (tol : Rat) (val : Nat → Rat) : Bool :=
  S.vorder.all (fun v =>
    let V := S.var v
    if 0 < V.penalty ∧ consumes S v then
      (decide (0 < V.bound) && decide (V.bound * (1 - tol) ≤ val v)) ||
      V.cnsts.any (fun e => decide (0 < e.2) && bmfShareMax S tol val v e.1 e.2)
    else true)

def bmfAccept (S : Sys) (tol : Rat) (val : Nat → Rat) : Bool := feasible S tol val && bmfFair S tol val

end SgVerif.Lmm
