/-
C16: the bottleneck (fairness) property of the result of `maxminSolve` at eps = 0, for every well-formed system (SHARED
and FATPIPE constraints).  Ghost invariant: `BN S M fixed value` — every fixed variable has value·penalty ≤ M (M = the
largest min_usage so far) and is either at its bound or has a *closed* (all consumers fixed), *saturated* (summing:
capacity − Σ w·value = 0; FATPIPE: some consumer has w·value = capacity) constraint on which its value·penalty is the
largest.  The FATPIPE case rests on `InvA` (Fat.lean).
-/
import SgVerif.Lmm.Lemmas
import SgVerif.Lmm.Fat
namespace SgVerif.Lmm

theorem fixVar_fixed (S : Sys) (eps : Rat) (st : St) (v : Nat) (x : Rat) :
    (fixVar S eps st v x).fixed = upd st.fixed v true ∧ (fixVar S eps st v x).value = upd st.value v x := by
  unfold fixVar
  have gen : ∀ (L : List (Nat × Rat)) (s : St), (L.foldl (updCnst S eps v) s).fixed = s.fixed ∧
      (L.foldl (updCnst S eps v) s).value = s.value := by
    intro L
    induction L with
    | nil => intro s; exact ⟨rfl, rfl⟩
    | cons e t ih =>
      intro s
      simp only [List.foldl_cons]
      have h1 := ih (updCnst S eps v s e)
      have h2 := updCnst_fixed S eps v s e
      exact ⟨by rw [h1.1, h2.1], by rw [h1.2, h2.2]⟩
  exact gen _ _

/-- a variable that is fixed after the while loop was fixed before or is one of the listed variables that the loop
selects (all of them when min_bound < 0, those with bound·penalty = min_bound otherwise) -/
theorem fixLoop_origin (S : Sys) (mb m : Rat) (sv : List Nat) : ∀ st : St, ∀ u,
    (fixLoop S 0 mb m st sv).fixed u = true →
    st.fixed u = true ∨ (u ∈ sv ∧ (mb < 0 ∨ mb = (S.var u).bound * (S.var u).penalty)) := by
  induction sv with
  | nil => intro st u h; rw [fixLoop_nil] at h; exact Or.inl h
  | cons v rest ih =>
    intro st u h
    by_cases hmb : mb < 0
    · rw [fixLoop_neg S 0 mb m st v rest hmb] at h
      rcases ih _ u h with h1 | h1
      · rw [(fixVar_fixed S 0 st v _).1] at h1
        by_cases huv : u = v
        · exact Or.inr ⟨by simp [huv], Or.inl hmb⟩
        · simp only [upd, huv, if_false] at h1; exact Or.inl h1
      · exact Or.inr ⟨by simp [h1.1], h1.2⟩
    · by_cases hc : 0 < (S.var v).bound ∧ dblEq mb ((S.var v).bound * (S.var v).penalty) 0 = true
      · have heq := hc.2
        rw [fixLoop_eq S 0 mb m st v rest hmb hc] at h
        rcases ih _ u h with h1 | h1
        · rw [(fixVar_fixed S 0 st v _).1] at h1
          by_cases huv : u = v
          · exact Or.inr ⟨by simp [huv], Or.inr (by rw [huv]; exact (dblEq_zero _ _).mp heq)⟩
          · simp only [upd, huv, if_false] at h1; exact Or.inl h1
        · exact Or.inr ⟨by simp [h1.1], h1.2⟩
      · rw [fixLoop_skip S 0 mb m st v rest hmb hc] at h
        rcases ih _ u h with h1 | h1
        · exact Or.inl h1
        · exact Or.inr ⟨by simp [h1.1], h1.2⟩

/-- the record kept for a fixed variable `u` -/
def Rec (S : Sys) (fixed : Nat → Bool) (value : Nat → Rat) (u : Nat) : Prop :=
  (0 < (S.var u).bound ∧ value u = (S.var u).bound) ∨
  ∃ c ∈ S.active, (∃ e ∈ (S.cnst c).elems, e.1 = u ∧ 0 < e.2) ∧
    (∀ e ∈ (S.cnst c).elems, 0 < e.2 → fixed e.1 = true) ∧
    (((S.cnst c).fatpipe = false ∧ (S.cnst c).bound - fixedLoad S fixed value c = 0) ∨
     ((S.cnst c).fatpipe = true ∧ ∃ e ∈ (S.cnst c).elems, 0 < e.2 ∧ fixed e.1 = true ∧ e.2 * value e.1 = (S.cnst c).bound)) ∧
    ∀ e ∈ (S.cnst c).elems, 0 < e.2 → value e.1 * (S.var e.1).penalty ≤ value u * (S.var u).penalty

structure BN (S : Sys) (M : Rat) (fixed : Nat → Bool) (value : Nat → Rat) : Prop where
  le : ∀ u, fixed u = true → value u * (S.var u).penalty ≤ M
  recd : ∀ u, fixed u = true → Rec S fixed value u

/-- a closed constraint keeps its load when more variables get fixed and fixed values do not change -/
theorem fixedLoad_closed (S : Sys) (hwf : WF S) (f f' : Nat → Bool) (v v' : Nat → Rat) (c : Nat) (hc : c ∈ S.active)
    (hmono : ∀ w, f w = true → f' w = true ∧ v' w = v w)
    (hclosed : ∀ e ∈ (S.cnst c).elems, 0 < e.2 → f e.1 = true) :
    fixedLoad S f' v' c = fixedLoad S f v c := by
  unfold fixedLoad
  apply sumBy_congr
  intro e he
  cases hf : f e.1 with
  | true => rw [(hmono e.1 hf).1, (hmono e.1 hf).2]
  | false =>
    have hw : e.2 = 0 := by
      have h0 := hwf.el_w c hc e he
      by_contra hne
      have : 0 < e.2 := lt_of_le_of_ne h0 (Ne.symm hne)
      rw [hclosed e he this] at hf; exact absurd hf (by simp)
    simp [hw]

theorem Rec_mono (S : Sys) (hwf : WF S) (f f' : Nat → Bool) (v v' : Nat → Rat) (u : Nat)
    (hmono : ∀ w, f w = true → f' w = true ∧ v' w = v w) (hu : f u = true) (h : Rec S f v u) : Rec S f' v' u := by
  rcases h with h | ⟨c, hc, hmem, hcl, hsat, hmax⟩
  · left; rw [(hmono u hu).2]; exact h
  · right
    refine ⟨c, hc, hmem, fun e he hw => (hmono e.1 (hcl e he hw)).1, ?_, ?_⟩
    · rcases hsat with ⟨hfp, hsat⟩ | ⟨hfp, e0, he0, hw0, hf0, hv0⟩
      · left; rw [fixedLoad_closed S hwf f f' v v' c hc hmono hcl]; exact ⟨hfp, hsat⟩
      · right; exact ⟨hfp, e0, he0, hw0, (hmono e0.1 hf0).1, by rw [(hmono e0.1 hf0).2]; exact hv0⟩
    · intro e he hw
      rw [(hmono e.1 (hcl e he hw)).2, (hmono u hu).2]; exact hmax e he hw


theorem round_bn (S : Sys) (hwf : WF S) (st : St) (M : Rat)
    (hR : RInv S st (satVarUpdate S st [])) (hA : InvA S st 0 []) (hBN : BN S M st.fixed st.value)
    (hM : ∀ c ∈ st.light, M * st.usage c ≤ st.remaining c) :
    ∃ M', BN S M' (round S 0 st (satVarUpdate S st [])).fixed (round S 0 st (satVarUpdate S st [])).value ∧
      ∀ c ∈ (round S 0 st (satVarUpdate S st [])).light,
        M' * (round S 0 st (satVarUpdate S st [])).usage c ≤ (round S 0 st (satVarUpdate S st [])).remaining c := by
  unfold round
  have hspec := satVarUpdate_spec S st
  generalize hsvdef : satVarUpdate S st [] = sv at hR hspec
  cases hsv : sv with
  | nil =>
    rw [fixLoop_nil]
    have hr := reselect_inv S hwf st.minUsage st hR.g hR.k hR.l
    refine ⟨M, ?_, ?_⟩
    · rw [hr.2.2.2.2.1, hr.2.2.2.2.2.1]; exact hBN
    · intro c hc
      rw [hr.2.2.2.2.2.2.1] at hc
      rw [hr.2.2.2.2.2.2.2.1, hr.2.2.2.2.2.2.2.2]; exact hM c hc
  | cons v0 t0 =>
    rw [← hsv]
    obtain ⟨hlne, hm, hle, hsat, hsatne⟩ : st.light ≠ [] ∧ 0 < st.minUsage ∧
        (∀ c ∈ st.light, st.minUsage * st.usage c ≤ st.remaining c) ∧
        (∀ c ∈ st.sat, c ∈ st.light ∧ st.minUsage * st.usage c = st.remaining c) ∧ st.sat ≠ [] := by
      rcases hR.sel with ⟨_, _, hs⟩ | h
      · have := hR.sv_nil hs; rw [hsv] at this; simp at this
      · exact h
    -- M ≤ m
    have hMm : M ≤ st.minUsage := by
      obtain ⟨c, hc⟩ := List.exists_mem_of_ne_nil _ hsatne
      have h1 := hsat c hc
      have h2 := hM c h1.1
      have h3 := (hR.l.li_pos c h1.1).2
      by_contra hlt
      have : st.minUsage * st.usage c < M * st.usage c := mul_lt_mul_of_pos_right (by linarith) h3
      linarith
    have hmb := minBound_spec S st.minUsage sv (fun v hv => (hR.sv_ok v hv).2)
    have hf := fixLoop_inv S hwf st.minUsage (minBound S st.minUsage sv) hm sv st hR.g hR.k hR.l hR.sv_ok hR.sv_nd
      (by
        intro hneg u hu hb
        by_contra hlt
        exact hmb.1 hneg u hu ⟨hb, by linarith⟩)
      hmb.2
    have horg := fixLoop_origin S (minBound S st.minUsage sv) st.minUsage sv st
    generalize fixLoop S 0 (minBound S st.minUsage sv) st.minUsage st sv = st1 at hf horg
    obtain ⟨hG1, hK1, hL1, hout, hkeep, hsel⟩ := hf
    have hr := reselect_inv S hwf st.minUsage st1 hG1 hK1 hL1
    have hK1r := hK1.sh_rem; have hK1u := hK1.sh_use
    simp only [wOf_nil, mul_zero, sub_zero] at hK1r hK1u
    have hK0r := hR.k.sh_rem; have hK0u := hR.k.sh_use
    simp only [wOf_nil, mul_zero, sub_zero] at hK0r hK0u
    -- value·penalty ≤ m for every variable fixed after the while loop
    have hle1 : ∀ u, st1.fixed u = true → st1.value u * (S.var u).penalty ≤ st.minUsage := by
      intro u hu
      rcases horg u hu with h0 | ⟨husv, hcond⟩
      · rw [(hkeep u h0).2]; exact le_trans (hBN.le u h0) hMm
      · have hv := (hsel u husv hcond).2
        have hp := (hR.sv_ok u husv).2
        by_cases hneg : minBound S st.minUsage sv < 0
        · rw [hv]; simp only [hneg, if_true]; rw [div_mul_cancel₀ _ (ne_of_gt hp)]
        · rw [hv]; simp only [hneg, if_false]
          rcases hcond with h | h
          · exact absurd h hneg
          · rw [← h]; exact le_of_lt (hmb.2 hneg).2
    have hmono : ∀ w, st.fixed w = true → st1.fixed w = true ∧ st1.value w = st.value w := hkeep
    refine ⟨st.minUsage, ?_, ?_⟩
    · rw [hr.2.2.2.2.1, hr.2.2.2.2.2.1]
      refine ⟨hle1, ?_⟩
      intro u hu
      rcases horg u hu with h0 | ⟨husv, hcond⟩
      · exact Rec_mono S hwf st.fixed st1.fixed st.value st1.value u hmono h0 (hBN.recd u h0)
      · have hv := (hsel u husv hcond).2
        have hp := (hR.sv_ok u husv).2
        by_cases hneg : minBound S st.minUsage sv < 0
        · -- min_bound < 0: every saturated variable gets min_usage / penalty
          right
          obtain ⟨c, hcs, e, he, hw, hfe, heu⟩ := hspec.2.1 u husv
          have hcl := (hsat c hcs).1
          have hca := hR.l.li_act c hcl
          have hclosed : ∀ e' ∈ (S.cnst c).elems, 0 < e'.2 → st1.fixed e'.1 = true := by
            intro e' he' hw'
            cases hf0 : st.fixed e'.1 with
            | true => exact (hkeep e'.1 hf0).1
            | false => exact (hsel e'.1 (hspec.2.2 c hcs e' he' hw' hf0) (Or.inl hneg)).1
          refine ⟨c, hca, ⟨e, he, heu, hw⟩, hclosed, ?_, ?_⟩
          · cases hfp : (S.cnst c).fatpipe with
            | false =>
              left
              refine ⟨rfl, ?_⟩
              have hfl : fixedLoad S st1.fixed st1.value c = fixedLoad S st.fixed st.value c +
                  st.minUsage * freeSum S st.fixed c := by
                unfold fixedLoad freeSum
                apply sumBy_lin
                intro e' he'
                cases hf0 : st.fixed e'.1 with
                | true => rw [(hkeep e'.1 hf0).1, (hkeep e'.1 hf0).2]; simp
                | false =>
                  have hw0 := hwf.el_w c hca e' he'
                  by_cases hw' : 0 < e'.2
                  · have hin := hspec.2.2 c hcs e' he' hw' hf0
                    have h2 := hsel e'.1 hin (Or.inl hneg)
                    rw [h2.1, h2.2]; simp only [hneg, if_true]; simp; ring
                  · have : e'.2 = 0 := by linarith
                    simp [this]
              have h1 := (hsat c hcs).2
              rw [hK0r c hca hfp, hK0u c hca hfp] at h1
              rw [hfl]; linarith
            | true =>
              right
              refine ⟨rfl, ?_⟩
              -- the consumer that attains usage_ gets min_usage/penalty: its w·value is the whole capacity
              have hup := (hR.l.li_pos c hcl).2
              obtain ⟨e0, he0, hw0, hu0, h0⟩ := hA c hca hfp hup
              have hfe0 : st.fixed e0.1 = false := by
                rcases h0 with h0 | h0
                · exact h0
                · exact absurd h0.2 (by simp)
              have h2 := hsel e0.1 (hspec.2.2 c hcs e0 he0 hw0 hfe0) (Or.inl hneg)
              refine ⟨e0, he0, hw0, h2.1, ?_⟩
              have h1 := (hsat c hcs).2
              rw [hR.k.ft_rem c hca hfp, ← hu0] at h1
              rw [h2.2]; simp only [hneg, if_true]
              rw [← h1]; ring
          · intro e' he' hw'
            have := hle1 e'.1 (hclosed e' he' hw')
            rw [hv]; simp only [hneg, if_true]; rw [div_mul_cancel₀ _ (ne_of_gt hp)]; exact this
        · -- min_bound ≥ 0: the variables fixed in this round are fixed at their bound
          left
          rcases hcond with h | h
          · exact absurd h hneg
          · have hmbp := (hmb.2 hneg).1
            have hb : 0 < (S.var u).bound := by
              by_contra hnb
              have : (S.var u).bound * (S.var u).penalty ≤ 0 :=
                mul_nonpos_of_nonpos_of_nonneg (by linarith) (le_of_lt hp)
              linarith
            refine ⟨hb, ?_⟩
            rw [hv]; simp only [hneg, if_false]
    · intro c hc
      rw [hr.2.2.2.2.2.2.1] at hc
      rw [hr.2.2.2.2.2.2.2.1, hr.2.2.2.2.2.2.2.2]
      have hca := hL1.li_act c hc
      cases hfp : (S.cnst c).fatpipe with
      | false =>
        rw [hK1r c hca hfp, hK1u c hca hfp]
        exact hG1.sh_B c hca hfp
      | true =>
        rw [hK1.ft_rem c hca hfp]
        exact hK1.ft_B c hca hfp

/-- `get_load()` of a FATPIPE constraint (the weighted max) is at least every `w·value` with w > 0 -/
theorem load_fat_ge (S : Sys) (val : Nat → Rat) (c : Nat) (hf : (S.cnst c).fatpipe = true) (e : Nat × Rat)
    (he : e ∈ (S.cnst c).elems) (hw : 0 < e.2) : e.2 * val e.1 ≤ load S val c := by
  unfold load
  simp only [hf, Bool.not_true, Bool.false_eq_true, if_false]
  have gen : ∀ (l : List (Nat × Rat)) (a : Rat),
      a ≤ l.foldl (fun s e => if 0 < e.2 then (if s < e.2 * val e.1 then e.2 * val e.1 else s) else s) a ∧
      ∀ e ∈ l, 0 < e.2 → e.2 * val e.1 ≤
        l.foldl (fun s e => if 0 < e.2 then (if s < e.2 * val e.1 then e.2 * val e.1 else s) else s) a := by
    intro l
    induction l with
    | nil => intro a; simp
    | cons b t ih =>
      intro a
      simp only [List.foldl_cons]
      have h1 := ih (if 0 < b.2 then (if a < b.2 * val b.1 then b.2 * val b.1 else a) else a)
      have ha : a ≤ (if 0 < b.2 then (if a < b.2 * val b.1 then b.2 * val b.1 else a) else a) := by
        split
        · split
          · linarith
          · exact le_refl _
        · exact le_refl _
      refine ⟨le_trans ha h1.1, ?_⟩
      intro e he hw
      simp at he
      rcases he with rfl | he
      · refine le_trans ?_ h1.1
        simp only [hw, if_true]
        split
        · exact le_refl _
        · linarith
      · exact h1.2 e he hw
  exact (gen _ 0).2 e he hw

theorem loop_bn (S : Sys) (hwf : WF S) :
    ∀ (fuel : Nat) (st st' : St), RInv S st (satVarUpdate S st []) → InvA S st 0 [] →
      (∃ M, BN S M st.fixed st.value ∧ ∀ c ∈ st.light, M * st.usage c ≤ st.remaining c) →
      loop S 0 fuel st (satVarUpdate S st []) = some st' →
      (∃ M, BN S M st'.fixed st'.value) ∧ RInv S st' (satVarUpdate S st' []) ∧ st'.light = [] := by
  intro fuel
  induction fuel with
  | zero => intro st st' _ _ _ h; simp [loop] at h
  | succ n ih =>
    intro st st' hR hA ⟨M, hBN, hM⟩ h
    rw [loop] at h
    have hr := round_inv S hwf st _ hR
    have hrA := round_invA S hwf st _ hR hA
    obtain ⟨M', hbn', hM'⟩ := round_bn S hwf st M hR hA hBN hM
    split at h
    · rename_i he
      simp at h; subst h
      exact ⟨⟨M', hbn'⟩, hr, by simpa using he⟩
    · exact ih _ st' hr hrA ⟨M', hbn', hM'⟩ h

end SgVerif.Lmm
