/-
What survives at a positive precision (`eps = sg_precision_workamount > 0`): every rate computed by
`MaxMin::maxmin_solve` is in [0, bound].  The bound round tests
`var.bound_ > 0 && double_equals(min_bound, bound_·penalty, eps)`: only a variable that HAS a bound can be set to its bound
(before the fix of `maxmin-precision-bound-test-unbounded-variable` the guard was missing and the statement needed the
hypothesis `hnb`: `eps ≤ -(bound_·penalty)` for the variables with `bound_ ≤ 0`).
The capacity clause does NOT survive (C15.maxmin_feasible_eps_counterexample).
Invariant `PInv`: the constraints of the light table are active with remaining_ > 0 and usage_ > 0 (so min_usage > 0),
every rate is in range.
-/
import SgVerif.Lmm.Lemmas
namespace SgVerif.Lmm

structure PInv (S : Sys) (st : St) : Prop where
  li : ∀ c ∈ st.light, c ∈ S.active ∧ 0 < st.remaining c ∧ 0 < st.usage c
  nd : st.light.Nodup
  vr : ∀ c ∈ S.active, ∀ e ∈ (S.cnst c).elems,
    0 ≤ st.value e.1 ∧ (0 < (S.var e.1).bound → st.value e.1 ≤ (S.var e.1).bound)

theorem pinv_step (S : Sys) (hwf : WF S) (eps : Rat) (h0 : 0 ≤ eps) (st st1 : St) (c0 : Nat) (hP : PInv S st)
    (hlight : st1.light = st.light) (hval : st1.value = st.value)
    (hrem : ∀ c, c ≠ c0 → st1.remaining c = st.remaining c) (huse : ∀ c, c ≠ c0 → st1.usage c = st.usage c) :
    PInv S (if (!(dblPos (st1.usage c0) eps) || !(dblPos (st1.remaining c0) ((S.cnst c0).bound * eps))) = true
            then { st1 with light := swapRemove st1.light c0 } else st1) := by
  have hsp := swapRemove_spec st.light c0 hP.nd
  split
  · constructor
    · intro c hc
      simp only [hlight] at hc
      have h2 := (hsp.2.2 c).mp hc
      simp only []
      rw [hrem c h2.2, huse c h2.2]; exact hP.li c h2.1
    · simp only [hlight]; exact hsp.1
    · intro c hc e he; simp only []; rw [hval]; exact hP.vr c hc e he
  · rename_i hcond
    have hcond' : eps < st1.usage c0 ∧ (S.cnst c0).bound * eps < st1.remaining c0 := by
      simp only [Bool.or_eq_true, Bool.not_eq_true', dblPos, decide_eq_false_iff_not, not_or, not_not] at hcond
      exact hcond
    constructor
    · intro c hc
      rw [hlight] at hc
      by_cases hcc : c = c0
      · subst hcc
        have hact := (hP.li c hc).1
        have hb := hwf.cb_pos c hact
        have : 0 ≤ (S.cnst c).bound * eps := mul_nonneg (le_of_lt hb) h0
        exact ⟨hact, by linarith [hcond'.2], by linarith [hcond'.1]⟩
      · rw [hrem c hcc, huse c hcc]; exact hP.li c hc
    · rw [hlight]; exact hP.nd
    · intro c hc e he; rw [hval]; exact hP.vr c hc e he

theorem updCnst_P (S : Sys) (hwf : WF S) (eps : Rat) (h0 : 0 ≤ eps) (v : Nat) (st : St) (e : Nat × Rat) (hP : PInv S st) :
    PInv S (updCnst S eps v st e) := by
  unfold updCnst
  simp only []
  by_cases hf : (S.cnst e.1).fatpipe = true
  · simp only [hf, Bool.not_true, Bool.false_eq_true, if_false]
    exact pinv_step S hwf eps h0 st { st with usage := upd st.usage e.1 (fatUsage S st.value e.1) } e.1 hP rfl rfl
      (fun c _ => rfl) (fun c hc => by simp [upd, hc])
  · have hf' : (S.cnst e.1).fatpipe = false := by simpa using hf
    simp only [hf', Bool.not_false, if_true]
    exact pinv_step S hwf eps h0 st
      { st with remaining := upd st.remaining e.1 (dblUpdate (st.remaining e.1) (e.2 * st.value v) ((S.cnst e.1).bound * eps)),
                usage := upd st.usage e.1 (dblUpdate (st.usage e.1) (e.2 / (S.var v).penalty) eps) } e.1 hP rfl rfl
      (fun c hc => by simp [upd, hc]) (fun c hc => by simp [upd, hc])

theorem foldCnst_P (S : Sys) (hwf : WF S) (eps : Rat) (h0 : 0 ≤ eps) (v : Nat) (L : List (Nat × Rat)) :
    ∀ st : St, PInv S st → PInv S (L.foldl (updCnst S eps v) st) := by
  induction L with
  | nil => intro st h; exact h
  | cons e t ih => intro st h; simp only [List.foldl_cons]; exact ih _ (updCnst_P S hwf eps h0 v st e h)

theorem fixVar_P (S : Sys) (hwf : WF S) (eps : Rat) (h0 : 0 ≤ eps) (st : St) (v : Nat) (x : Rat) (hP : PInv S st)
    (hx : 0 ≤ x) (hxb : 0 < (S.var v).bound → x ≤ (S.var v).bound) : PInv S (fixVar S eps st v x) := by
  unfold fixVar
  apply foldCnst_P S hwf eps h0
  constructor
  · exact hP.li
  · exact hP.nd
  · intro c hc e he
    simp only []
    by_cases h : e.1 = v
    · rw [h]; simp only [upd_same]; exact ⟨hx, hxb⟩
    · simp only [upd, h, if_false]; exact hP.vr c hc e he

theorem fixLoop_P (S : Sys) (hwf : WF S) (eps : Rat) (h0 : 0 ≤ eps)
    (mb mu : Rat) (hmu : 0 ≤ mu) (sv : List Nat) (hsv : ∀ v ∈ sv, 0 < (S.var v).penalty)
    (hmb1 : mb < 0 → ∀ v ∈ sv, 0 < (S.var v).bound → mu ≤ (S.var v).bound * (S.var v).penalty)
    (hmb2 : ¬ mb < 0 → 0 < mb) :
    ∀ st : St, PInv S st → PInv S (fixLoop S eps mb mu st sv) := by
  induction sv with
  | nil => intro st h; rw [fixLoop_nil]; exact h
  | cons v rest ih =>
    intro st hP
    have hpv := hsv v (by simp)
    have ih' := ih (fun u hu => hsv u (by simp [hu])) (fun h u hu => hmb1 h u (by simp [hu]))
    by_cases hmb : mb < 0
    · rw [fixLoop_neg S eps mb mu st v rest hmb]
      apply ih'
      apply fixVar_P S hwf eps h0 st v _ hP (div_nonneg hmu (le_of_lt hpv))
      intro hb
      rw [div_le_iff₀ hpv]; exact hmb1 hmb v (by simp) hb
    · by_cases hc : 0 < (S.var v).bound ∧ dblEq mb ((S.var v).bound * (S.var v).penalty) eps = true
      · rw [fixLoop_eq S eps mb mu st v rest hmb hc]
        -- `var.bound_ > 0 &&` in front of the `double_equals`: only a variable that has a bound is set to its bound
        have hb : 0 < (S.var v).bound := hc.1
        apply ih'
        exact fixVar_P S hwf eps h0 st v _ hP (le_of_lt hb) (fun _ => le_refl _)
      · rw [fixLoop_skip S eps mb mu st v rest hmb hc]
        exact ih' st hP

theorem reselect_P (S : Sys) (st : St) (hP : PInv S st) :
    PInv S (reselect st) ∧ SelQ (reselect st).remaining (reselect st).usage (reselect st).light (reselect st).minUsage (reselect st).sat := by
  have h := selFold_spec st.remaining st.usage st.light { st with minUsage := -1, sat := [] } [] rfl rfl
    (fun c hc => (hP.li c hc).2) (by simp) (Or.inl ⟨rfl, rfl, rfl⟩)
  simp only [List.nil_append] at h
  change SelQ st.remaining st.usage st.light (reselect st).minUsage (reselect st).sat ∧ (reselect st).remaining = st.remaining ∧
    (reselect st).usage = st.usage ∧ (reselect st).light = st.light ∧ (reselect st).fixed = st.fixed ∧
    (reselect st).value = st.value at h
  obtain ⟨hQ, hr, hu, hl, _, hv⟩ := h
  refine ⟨⟨?_, ?_, ?_⟩, ?_⟩
  · intro c hc; rw [hl] at hc; rw [hr, hu]; exact hP.li c hc
  · rw [hl]; exact hP.nd
  · intro c hc e he; rw [hv]; exact hP.vr c hc e he
  · rw [hr, hu, hl]; exact hQ

/-- what holds each time the body of the do-while is entered, at any precision -/
structure RP (S : Sys) (st : St) (sv : List Nat) : Prop where
  p : PInv S st
  sel : SelQ st.remaining st.usage st.light st.minUsage st.sat
  sv_pen : ∀ v ∈ sv, 0 < (S.var v).penalty
  sv_nil : st.sat = [] → sv = []

theorem rp_satVar (S : Sys) (hwf : WF S) (st : St) (hP : PInv S st)
    (hsel : SelQ st.remaining st.usage st.light st.minUsage st.sat) : RP S st (satVarUpdate S st []) := by
  have hs := satVarUpdate_spec S st
  refine ⟨hP, hsel, ?_, ?_⟩
  · intro v hv
    obtain ⟨c, hc, e, he, _, _, rfl⟩ := hs.2.1 v hv
    have hcl : c ∈ st.light := by
      rcases hsel with ⟨_, _, h⟩ | ⟨_, _, _, h, _⟩
      · rw [h] at hc; simp at hc
      · exact (h c hc).1
    exact hwf.el_pen c (hP.li c hcl).1 e he
  · intro h
    cases hsv : satVarUpdate S st [] with
    | nil => rfl
    | cons v t =>
      obtain ⟨c, hc, _⟩ := hs.2.1 v (by rw [hsv]; simp)
      rw [h] at hc; simp at hc

theorem round_P (S : Sys) (hwf : WF S) (eps : Rat) (h0 : 0 ≤ eps)
    (st : St) (sv : List Nat) (h : RP S st sv) :
    RP S (round S eps st sv) (satVarUpdate S (round S eps st sv) []) := by
  unfold round
  have hfix : PInv S (fixLoop S eps (minBound S st.minUsage sv) st.minUsage st sv) := by
    cases hsv : sv with
    | nil => rw [fixLoop_nil]; exact h.p
    | cons v t =>
      have hm : 0 < st.minUsage := by
        rcases h.sel with ⟨_, _, hs⟩ | ⟨_, hm, _⟩
        · have := h.sv_nil hs; rw [hsv] at this; simp at this
        · exact hm
      rw [← hsv]
      have hmb := minBound_spec S st.minUsage sv h.sv_pen
      apply fixLoop_P S hwf eps h0 _ _ (le_of_lt hm) sv h.sv_pen _ (fun hn => (hmb.2 hn).1) st h.p
      intro hneg u hu hb
      by_contra hlt
      exact hmb.1 hneg u hu ⟨hb, by linarith⟩
  have hr := reselect_P S _ hfix
  exact rp_satVar S hwf _ hr.1 hr.2

theorem loop_P (S : Sys) (hwf : WF S) (eps : Rat) (h0 : 0 ≤ eps) :
    ∀ (fuel : Nat) (st : St) (sv : List Nat) (st' : St), RP S st sv → loop S eps fuel st sv = some st' → PInv S st' := by
  intro fuel
  induction fuel with
  | zero => intro st sv st' _ h; simp [loop] at h
  | succ n ih =>
    intro st sv st' hR h
    rw [loop] at h
    have hr := round_P S hwf eps h0 st sv hR
    split at h
    · simp at h; subst h; exact hr.p
    · exact ih _ _ st' hr h

theorem foldl_congr_mem {α : Type} (f g : α → Nat → α) (l : List Nat) (h : ∀ s, ∀ c ∈ l, f s c = g s c) :
    ∀ s, l.foldl f s = l.foldl g s := by
  induction l with
  | nil => intro s; rfl
  | cons a t ih =>
    intro s
    simp only [List.foldl_cons]
    rw [h s a (by simp)]
    exact ih (fun s c hc => h s c (by simp [hc])) _

/-- with `eps < 1` no active constraint is skipped by the INIT pass: it does what it does at `eps = 0` -/
theorem initAll_eps (S : Sys) (hwf : WF S) (eps : Rat) (h0 : 0 ≤ eps) (h1 : eps < 1) (val0 : Nat → Rat) :
    initAll S eps val0 = initAll S 0 val0 := by
  unfold initAll
  apply foldl_congr_mem
  intro s c hc
  have hb := hwf.cb_pos c hc
  unfold initCnst
  have e1 : dblPos (S.cnst c).bound ((S.cnst c).bound * eps) = true := by
    simp only [dblPos, decide_eq_true_eq]; nlinarith
  have e2 : dblPos (S.cnst c).bound ((S.cnst c).bound * 0) = true := by
    simp only [dblPos, decide_eq_true_eq, mul_zero]; exact hb
  simp only [e1, e2]

/-- **rates are in [0, bound] at every precision `0 ≤ eps < 1`**, for every well-formed system (SHARED, FATPIPE, variable
bounds). -/
theorem maxmin_var_bounds_eps_wf (S : Sys) (hwf : WF S) (eps : Rat) (h0 : 0 ≤ eps) (h1 : eps < 1)
    (val0 : Nat → Rat) (fuel : Nat) (st : St) (h : maxminSolve S eps fuel val0 = some st) :
    ∀ c ∈ S.active, ∀ e ∈ (S.cnst c).elems,
      0 ≤ st.value e.1 ∧ (0 < (S.var e.1).bound → st.value e.1 ≤ (S.var e.1).bound) := by
  unfold maxminSolve at h
  rw [initAll_eps S hwf eps h0 h1 val0] at h
  have hi := init_rinv S hwf val0
  have hP0 : PInv S (initAll S 0 val0) := by
    refine ⟨fun c hc => ⟨hi.1.l.li_act c hc, hi.1.l.li_pos c hc⟩, hi.1.l.li_nd, ?_⟩
    intro c hc e he
    rw [hi.1.g.val0 c hc e he (by rw [hi.2.2])]
    exact ⟨le_refl 0, fun hb => le_of_lt hb⟩
  exact (loop_P S hwf eps h0 fuel _ _ st (rp_satVar S hwf _ hP0 hi.1.sel) h).vr

end SgVerif.Lmm
