/-
C15, FairBottleneck::do_solve on systems without FATPIPE constraints, exact arithmetic (eps = 0): the allocation respects
the capacities and the variable bounds.  Invariant `FbInv` at the head of the do-while:
  R c = bound c − Σ w·value ≥ 0 for every active constraint; 0 ≤ remaining_ c ≤ R c for the constraints still in
  `saturated_constraint_set`; the consumers of an active constraint that left it are no longer in `saturated_variable_set`;
  mu_ ≥ 0, usage_ ≥ 0.
Key step: the still-growing consumers of c get, together, at most nb · usage_ c = remaining_ c ≤ R c.
-/
import SgVerif.Lmm.Unique
import SgVerif.Lmm.SpecLemmas
namespace SgVerif.Lmm

/-! ### helpers -/

theorem sumBy_le_sumBy (f g : Nat × Rat → Rat) (l : List (Nat × Rat)) (h : ∀ e ∈ l, f e ≤ g e) : sumBy f l ≤ sumBy g l := by
  induction l with
  | nil => simp
  | cons a t ih =>
    have h1 := h a (by simp)
    have h2 := ih (fun e he => h e (by simp [he]))
    simp; linarith

theorem sumBy_indicator (p : Nat × Rat → Bool) (u : Rat) (l : List (Nat × Rat)) :
    sumBy (fun e => if p e then u else 0) l = ((l.filter p).length : Rat) * u := by
  induction l with
  | nil => simp
  | cons a t ih =>
    simp only [sumBy_cons, ih, List.filter_cons]
    cases hp : p a with
    | true => simp; ring
    | false => simp

theorem sumBy_add (f g : Nat × Rat → Rat) (l : List (Nat × Rat)) :
    sumBy (fun e => f e + g e) l = sumBy f l + sumBy g l := by
  induction l with
  | nil => simp
  | cons a t ih => simp [ih]; ring

/-- `Σ w·value` over all enabled elements of `c` -/
def wsum (S : Sys) (value : Nat → Rat) (c : Nat) : Rat := sumBy (fun e => e.2 * value e.1) (S.cnst c).elems

theorem load_eq_wsum (S : Sys) (hwf : WF S) (value : Nat → Rat) (c : Nat) (hc : c ∈ S.active)
    (hf : (S.cnst c).fatpipe = false) : load S value c = wsum S value c := by
  rw [load_eq_sumBy S value c hf]
  unfold wsum
  apply sumBy_congr
  intro e he
  by_cases hw : 0 < e.2
  · simp [hw]
  · have : e.2 = 0 := le_antisymm (not_lt.mp hw) (hwf.el_w c hc e he)
    simp [this]

/-- the `double_update` chain of the third loop at eps = 0: `max 0 (r − Σ a)` -/
theorem clampFold (f : Nat × Rat → Rat) (l : List (Nat × Rat)) (hf : ∀ e ∈ l, 0 ≤ f e) :
    ∀ r : Rat, 0 ≤ r → l.foldl (fun (r : Rat) (e : Nat × Rat) => dblUpdate r (f e) 0) r = max 0 (r - sumBy f l) := by
  induction l with
  | nil => intro r hr; simp [max_eq_right hr]
  | cons a t ih =>
    intro r hr
    simp only [List.foldl_cons, sumBy_cons]
    have ha := hf a (by simp)
    have hd : 0 ≤ dblUpdate r (f a) 0 := by
      unfold dblUpdate; split
      · exact le_refl 0
      · linarith
    rw [ih (fun e he => hf e (by simp [he])) _ hd]
    have hs := sumBy_nonneg f t (fun e he => hf e (by simp [he]))
    unfold dblUpdate
    split
    · rename_i hlt
      rw [max_eq_left (by linarith), max_eq_left (by linarith)]
    · congr 1; ring

/-! ### first loop: `usage_ = remaining_ / nb` -/

/-- `nb`: number of enabled elements with weight > 0 whose variable is still in `saturated_variable_set` -/
def nbOf (S : Sys) (vl : List Nat) (c : Nat) : Nat :=
  ((S.cnst c).elems.filter (fun e => decide (0 < e.2) && decide (e.1 ∈ vl))).length

def p1step (S : Sys) (st : FbSt) (c : Nat) : FbSt :=
    let C := S.cnst c
    let nb := (C.elems.filter (fun e => decide (0 < e.2) && decide (e.1 ∈ st.vl))).length
    let nb := if 0 < nb ∧ C.fatpipe then 1 else nb
    if nb = 0 then
      { st with remaining := upd st.remaining c 0, usage := upd st.usage c 0, cl := st.cl.erase c }
    else { st with usage := upd st.usage c (st.remaining c / (nb : Rat)) }

theorem fbPhase1_eq (S : Sys) (st : FbSt) : fbPhase1 S st = st.cl.foldl (p1step S) st := rfl

theorem p1step_shared (S : Sys) (st : FbSt) (c : Nat) (hf : (S.cnst c).fatpipe = false) :
    p1step S st c =
      if nbOf S st.vl c = 0 then
        { st with remaining := upd st.remaining c 0, usage := upd st.usage c 0, cl := st.cl.erase c }
      else { st with usage := upd st.usage c (st.remaining c / (nbOf S st.vl c : Rat)) } := by
  unfold p1step nbOf
  have h : ¬ (0 < ((S.cnst c).elems.filter (fun e => decide (0 < e.2) && decide (e.1 ∈ st.vl))).length ∧
      (S.cnst c).fatpipe = true) := by
    rw [hf]; simp
  simp only [h, if_false]

theorem p1fold_spec (S : Sys) (l : List Nat) (hl : ∀ c ∈ l, (S.cnst c).fatpipe = false) (hnd : l.Nodup) :
    ∀ s : FbSt, s.cl.Nodup →
      (l.foldl (p1step S) s).value = s.value ∧ (l.foldl (p1step S) s).mu = s.mu ∧ (l.foldl (p1step S) s).vl = s.vl ∧
      (l.foldl (p1step S) s).cl.Nodup ∧
      (∀ c, c ∉ l → (l.foldl (p1step S) s).remaining c = s.remaining c ∧ (l.foldl (p1step S) s).usage c = s.usage c) ∧
      (∀ c ∈ l, nbOf S s.vl c = 0 → (l.foldl (p1step S) s).remaining c = 0 ∧ (l.foldl (p1step S) s).usage c = 0) ∧
      (∀ c ∈ l, nbOf S s.vl c ≠ 0 → (l.foldl (p1step S) s).remaining c = s.remaining c ∧
        (l.foldl (p1step S) s).usage c = s.remaining c / (nbOf S s.vl c : Rat)) ∧
      (∀ c, c ∈ (l.foldl (p1step S) s).cl ↔ (c ∈ s.cl ∧ ¬ (c ∈ l ∧ nbOf S s.vl c = 0))) := by
  induction l with
  | nil => intro s hs; simp [hs]
  | cons a t ih =>
    intro s hs
    simp only [List.foldl_cons]
    have hat : a ∉ t := (List.nodup_cons.mp hnd).1
    have hndt : t.Nodup := (List.nodup_cons.mp hnd).2
    have hfa := hl a (by simp)
    have hlt : ∀ c ∈ t, (S.cnst c).fatpipe = false := fun c hc => hl c (by simp [hc])
    rw [p1step_shared S s a hfa]
    by_cases hnb : nbOf S s.vl a = 0
    · rw [if_pos hnb]
      obtain ⟨i1, i2, i3, i4, i5, i6, i7, i8⟩ := ih hlt hndt
        { s with remaining := upd s.remaining a 0, usage := upd s.usage a 0, cl := s.cl.erase a } (hs.erase a)
      simp only [] at i1 i2 i3 i4 i5 i6 i7 i8
      refine ⟨i1, i2, i3, i4, ?_, ?_, ?_, ?_⟩
      · intro c hc
        simp only [List.mem_cons, not_or] at hc
        have := i5 c hc.2
        rw [this.1, this.2]; simp [upd, hc.1]
      · intro c hc hn
        simp only [List.mem_cons] at hc
        rcases hc with rfl | hc
        · have := i5 c hat
          rw [this.1, this.2]; simp
        · exact i6 c hc (by rw [i3] at *; exact hn)
      · intro c hc hn
        simp only [List.mem_cons] at hc
        rcases hc with rfl | hc
        · exact absurd hnb hn
        · have hca : c ≠ a := fun h => hat (h ▸ hc)
          have := i7 c hc hn
          rw [this.1, this.2]; simp [upd, hca]
      · intro c
        rw [i8 c]
        simp only [List.mem_cons]
        constructor
        · rintro ⟨h1, h2⟩
          have hm := (List.Nodup.mem_erase_iff hs).mp h1
          refine ⟨hm.2, ?_⟩
          rintro ⟨h3 | h3, h4⟩
          · exact hm.1 h3
          · exact h2 ⟨h3, h4⟩
        · rintro ⟨h1, h2⟩
          have hca : c ≠ a := fun h => h2 ⟨Or.inl h, h ▸ hnb⟩
          exact ⟨(List.Nodup.mem_erase_iff hs).mpr ⟨hca, h1⟩, fun h => h2 ⟨Or.inr h.1, h.2⟩⟩
    · rw [if_neg hnb]
      obtain ⟨i1, i2, i3, i4, i5, i6, i7, i8⟩ := ih hlt hndt
        { s with usage := upd s.usage a (s.remaining a / (nbOf S s.vl a : Rat)) } hs
      simp only [] at i1 i2 i3 i4 i5 i6 i7 i8
      refine ⟨i1, i2, i3, i4, ?_, ?_, ?_, ?_⟩
      · intro c hc
        simp only [List.mem_cons, not_or] at hc
        have := i5 c hc.2
        rw [this.1, this.2]; simp [upd, hc.1]
      · intro c hc hn
        simp only [List.mem_cons] at hc
        rcases hc with rfl | hc
        · exact absurd hn hnb
        · exact i6 c hc hn
      · intro c hc hn
        simp only [List.mem_cons] at hc
        rcases hc with rfl | hc
        · have := i5 c hat
          rw [this.1, this.2]; simp
        · exact i7 c hc hn
      · intro c
        rw [i8 c]
        simp only [List.mem_cons]
        constructor
        · rintro ⟨h1, h2⟩
          refine ⟨h1, ?_⟩
          rintro ⟨h3 | h3, h4⟩
          · rw [h3] at h4; exact hnb h4
          · exact h2 ⟨h3, h4⟩
        · rintro ⟨h1, h2⟩
          exact ⟨h1, fun h => h2 ⟨Or.inr h.1, h.2⟩⟩

/-! ### second loop: the increments -/

theorem fbMinInc_congr (S : Sys) (s s' : FbSt) (v : Nat) (h1 : s.usage = s'.usage) (h2 : s.value v = s'.value v) :
    fbMinInc S s v = fbMinInc S s' v := by
  unfold fbMinInc; rw [h1, h2]

theorem fbMinInc_spec (S : Sys) (st : FbSt) (v : Nat) (inc : Rat) (h : fbMinInc S st v = some inc)
    (hu : ∀ c, 0 ≤ st.usage c) (hb : 0 < (S.var v).bound → st.value v ≤ (S.var v).bound) :
    0 ≤ inc ∧ (∀ e ∈ (S.var v).cnsts, 0 < e.2 → inc ≤ st.usage e.1 / e.2) ∧
    (0 < (S.var v).bound → inc ≤ (S.var v).bound - st.value v) := by
  unfold fbMinInc at h
  simp only [] at h
  have A := Spec.foldMin_spec
    (fun (m : Option Rat) (e : Nat × Rat) =>
      if 0 < e.2 then
        let x := st.usage e.1 / e.2
        match m with
        | none => some x
        | some y => some (if x < y then x else y)
      else m)
    (fun e => 0 < e.2) (fun e => st.usage e.1 / e.2)
    (fun a x hx => by simp only [hx, if_true]; cases a <;> rfl) (fun a x hx => by simp only [hx, if_false])
    (S.var v).cnsts none
  generalize (S.var v).cnsts.foldl _ none = m at h A
  have hm : ∀ t, m = some t → 0 ≤ t ∧ ∀ e ∈ (S.var v).cnsts, 0 < e.2 → t ≤ st.usage e.1 / e.2 := by
    intro t ht
    obtain ⟨hatt, _, hle⟩ := A.2 t ht
    refine ⟨?_, hle⟩
    rcases hatt with h0 | ⟨e, _, hw, hg⟩
    · exact absurd h0 (by simp)
    · rw [← hg]; exact div_nonneg (hu e.1) (le_of_lt hw)
  by_cases hbd : 0 < (S.var v).bound
  · rw [if_pos hbd] at h
    have hbv := hb hbd
    cases hmm : m with
    | none =>
      rw [hmm] at h
      simp only [Option.some.injEq] at h
      rw [← h]
      exact ⟨by linarith, fun e he hw => absurd hw ((A.1.mp hmm).2 e he), fun _ => le_refl _⟩
    | some y =>
      rw [hmm] at h
      simp only [Option.some.injEq] at h
      obtain ⟨hy0, hyle⟩ := hm y hmm
      by_cases hlt : (S.var v).bound - st.value v < y
      · rw [if_pos hlt] at h
        rw [← h]
        exact ⟨by linarith, fun e he hw => le_trans (le_of_lt hlt) (hyle e he hw), fun _ => le_refl _⟩
      · rw [if_neg hlt] at h
        rw [← h]
        exact ⟨hy0, hyle, fun _ => not_lt.mp hlt⟩
  · rw [if_neg hbd] at h
    obtain ⟨hy0, hyle⟩ := hm inc h
    exact ⟨hy0, hyle, fun hh => absurd hh hbd⟩

def p2step (S : Sys) (o : Option FbSt) (v : Nat) : Option FbSt :=
    match o with
    | none => none
    | some st =>
      match fbMinInc S st v with
      | none => none
      | some inc =>
        let nv := st.value v + inc
        let st := { st with mu := upd st.mu v inc, value := upd st.value v nv }
        some (if nv = (S.var v).bound then { st with vl := st.vl.erase v } else st)

theorem fbPhase2_eq (S : Sys) (st : FbSt) : fbPhase2 S st = st.vl.foldl (p2step S) (some st) := rfl

theorem p2step_some (S : Sys) (s : FbSt) (a : Nat) (inc : Rat) (hinc : fbMinInc S s a = some inc) :
    ∃ s1, p2step S (some s) a = some s1 ∧
      s1.remaining = s.remaining ∧ s1.usage = s.usage ∧ s1.cl = s.cl ∧
      s1.value = upd s.value a (s.value a + inc) ∧ s1.mu = upd s.mu a inc ∧
      (∀ v, v ∈ s1.vl → v ∈ s.vl) ∧ (s.vl.Nodup → s1.vl.Nodup) := by
  by_cases hb : s.value a + inc = (S.var a).bound
  · refine ⟨{ s with mu := upd s.mu a inc, value := upd s.value a (s.value a + inc), vl := s.vl.erase a }, ?_,
      rfl, rfl, rfl, rfl, rfl, ?_, ?_⟩
    · simp only [p2step, hinc, hb, if_true]
    · intro v hv; exact List.mem_of_mem_erase hv
    · intro hn; exact hn.erase a
  · refine ⟨{ s with mu := upd s.mu a inc, value := upd s.value a (s.value a + inc) }, ?_,
      rfl, rfl, rfl, rfl, rfl, fun v hv => hv, fun hn => hn⟩
    simp only [p2step, hinc, hb, if_false]

theorem p2fold_none (S : Sys) (l : List Nat) : l.foldl (p2step S) none = none := by
  induction l with
  | nil => rfl
  | cons a t ih => simp only [List.foldl_cons]; exact ih

theorem p2fold_spec (S : Sys) (l : List Nat) (hnd : l.Nodup) :
    ∀ s r : FbSt, l.foldl (p2step S) (some s) = some r →
      r.remaining = s.remaining ∧ r.usage = s.usage ∧ r.cl = s.cl ∧
      (∀ v, v ∉ l → r.value v = s.value v ∧ r.mu v = s.mu v) ∧
      (∀ v ∈ l, ∃ inc, fbMinInc S s v = some inc ∧ r.value v = s.value v + inc ∧ r.mu v = inc) ∧
      (∀ v, v ∈ r.vl → v ∈ s.vl) ∧ (s.vl.Nodup → r.vl.Nodup) := by
  induction l with
  | nil =>
    intro s r h
    simp only [List.foldl_nil, Option.some.injEq] at h
    subst h
    exact ⟨rfl, rfl, rfl, fun v _ => ⟨rfl, rfl⟩, by simp, fun v h => h, fun h => h⟩
  | cons a t ih =>
    intro s r h
    simp only [List.foldl_cons] at h
    have hat : a ∉ t := (List.nodup_cons.mp hnd).1
    have hndt : t.Nodup := (List.nodup_cons.mp hnd).2
    cases hinc : fbMinInc S s a with
    | none =>
      have : p2step S (some s) a = none := by simp only [p2step, hinc]
      rw [this, p2fold_none] at h
      exact absurd h (by simp)
    | some inc =>
      -- the state after `a`
      obtain ⟨s1, hs1, e1, e2, e3, e4, e5, e6, e7⟩ := p2step_some S s a inc hinc
      rw [hs1] at h
      obtain ⟨i1, i2, i3, i4, i5, i6, i7⟩ := ih hndt s1 r h
      refine ⟨by rw [i1, e1], by rw [i2, e2], by rw [i3, e3], ?_, ?_, fun v hv => e6 v (i6 v hv), fun hn => i7 (e7 hn)⟩
      · intro v hv
        simp only [List.mem_cons, not_or] at hv
        have := i4 v hv.2
        rw [this.1, this.2, e4, e5]; simp [upd, hv.1]
      · intro v hv
        simp only [List.mem_cons] at hv
        rcases hv with rfl | hv
        · refine ⟨inc, hinc, ?_, ?_⟩
          · rw [(i4 v hat).1, e4]; simp
          · rw [(i4 v hat).2, e5]; simp
        · have hva : v ≠ a := fun h => hat (h ▸ hv)
          obtain ⟨inc', h1, h2, h3⟩ := i5 v hv
          refine ⟨inc', ?_, ?_, h3⟩
          · rw [← h1]; exact fbMinInc_congr S s s1 v e2.symm (by rw [e4]; simp [upd, hva])
          · rw [h2, e4]; simp [upd, hva]

/-! ### third loop -/

theorem eraseFold_spec (es : List (Nat × Rat)) : ∀ vl : List Nat, vl.Nodup →
    (es.foldl (fun (vl : List Nat) (e : Nat × Rat) => if 0 < e.2 ∧ e.1 ∈ vl then vl.erase e.1 else vl) vl).Nodup ∧
    (∀ v ∈ es.foldl (fun (vl : List Nat) (e : Nat × Rat) => if 0 < e.2 ∧ e.1 ∈ vl then vl.erase e.1 else vl) vl, v ∈ vl) ∧
    (∀ e ∈ es, 0 < e.2 →
      e.1 ∉ es.foldl (fun (vl : List Nat) (e : Nat × Rat) => if 0 < e.2 ∧ e.1 ∈ vl then vl.erase e.1 else vl) vl) := by
  induction es with
  | nil => intro vl h; simp [h]
  | cons a t ih =>
    intro vl hnd
    simp only [List.foldl_cons]
    have h1 : (if 0 < a.2 ∧ a.1 ∈ vl then vl.erase a.1 else vl).Nodup ∧
        (∀ v ∈ (if 0 < a.2 ∧ a.1 ∈ vl then vl.erase a.1 else vl), v ∈ vl) ∧
        (0 < a.2 → a.1 ∉ (if 0 < a.2 ∧ a.1 ∈ vl then vl.erase a.1 else vl)) := by
      by_cases hc : 0 < a.2 ∧ a.1 ∈ vl
      · rw [if_pos hc]
        exact ⟨hnd.erase _, fun v hv => List.mem_of_mem_erase hv, fun _ h => ((List.Nodup.mem_erase_iff hnd).mp h).1 rfl⟩
      · rw [if_neg hc]
        exact ⟨hnd, fun v hv => hv, fun hw h => hc ⟨hw, h⟩⟩
    obtain ⟨j1, j2, j3⟩ := ih _ h1.1
    refine ⟨j1, fun v hv => h1.2.1 v (j2 v hv), ?_⟩
    intro e he hw
    simp only [List.mem_cons] at he
    rcases he with rfl | he
    · intro h; exact h1.2.2 hw (j2 _ h)
    · exact j3 e he hw

def p3step (S : Sys) (eps : Rat) (st : FbSt) (c : Nat) : FbSt :=
    let C := S.cnst c
    let st : FbSt :=
      if !C.fatpipe then
        let r := C.elems.foldl (fun (r : Rat) (e : Nat × Rat) => dblUpdate r (e.2 * st.mu e.1) eps) (st.remaining c)
        { st with remaining := upd st.remaining c r }
      else
        let u := C.elems.foldl (fun (u : Rat) (e : Nat × Rat) => if e.2 * st.mu e.1 < u then e.2 * st.mu e.1 else u) (st.usage c)
        { st with usage := upd st.usage c u, remaining := upd st.remaining c (dblUpdate (st.remaining c) u eps) }
    if st.remaining c ≤ 0 then
      { st with cl := st.cl.erase c,
                vl := C.elems.foldl (fun (vl : List Nat) (e : Nat × Rat) => if 0 < e.2 ∧ e.1 ∈ vl then vl.erase e.1 else vl) st.vl }
    else st

theorem fbPhase3_eq (S : Sys) (eps : Rat) (st : FbSt) : fbPhase3 S eps st = st.cl.foldl (p3step S eps) st := rfl

/-- new `remaining_` of a summing constraint after the third loop -/
def rem3 (S : Sys) (st : FbSt) (c : Nat) : Rat :=
  max 0 (st.remaining c - sumBy (fun e => e.2 * st.mu e.1) (S.cnst c).elems)

theorem p3step_shared (S : Sys) (st : FbSt) (c : Nat) (hf : (S.cnst c).fatpipe = false)
    (hmu : ∀ e ∈ (S.cnst c).elems, 0 ≤ e.2 * st.mu e.1) (hr : 0 ≤ st.remaining c) :
    p3step S 0 st c =
      if rem3 S st c ≤ 0 then
        { st with remaining := upd st.remaining c (rem3 S st c), cl := st.cl.erase c,
                  vl := (S.cnst c).elems.foldl (fun (vl : List Nat) (e : Nat × Rat) => if 0 < e.2 ∧ e.1 ∈ vl then vl.erase e.1 else vl) st.vl }
      else { st with remaining := upd st.remaining c (rem3 S st c) } := by
  unfold p3step rem3
  simp only [hf, Bool.not_false, if_true]
  rw [clampFold (fun e => e.2 * st.mu e.1) (S.cnst c).elems hmu _ hr]
  simp only [upd_same]

theorem rem3_congr (S : Sys) (s s' : FbSt) (c : Nat) (h1 : s'.mu = s.mu) (h2 : s'.remaining c = s.remaining c) :
    rem3 S s' c = rem3 S s c := by
  unfold rem3; rw [h1, h2]

theorem p3step_spec (S : Sys) (s : FbSt) (a : Nat) (hf : (S.cnst a).fatpipe = false)
    (hmu : ∀ e ∈ (S.cnst a).elems, 0 ≤ e.2 * s.mu e.1) (hr : 0 ≤ s.remaining a) (hcl : s.cl.Nodup) (hvl : s.vl.Nodup) :
    (p3step S 0 s a).value = s.value ∧ (p3step S 0 s a).mu = s.mu ∧ (p3step S 0 s a).usage = s.usage ∧
    (p3step S 0 s a).remaining = upd s.remaining a (rem3 S s a) ∧ (p3step S 0 s a).cl.Nodup ∧ (p3step S 0 s a).vl.Nodup ∧
    (∀ v ∈ (p3step S 0 s a).vl, v ∈ s.vl) ∧
    (∀ c, c ∈ (p3step S 0 s a).cl ↔ (c ∈ s.cl ∧ ¬ (c = a ∧ rem3 S s a ≤ 0))) ∧
    (rem3 S s a ≤ 0 → ∀ e ∈ (S.cnst a).elems, 0 < e.2 → e.1 ∉ (p3step S 0 s a).vl) := by
  rw [p3step_shared S s a hf hmu hr]
  have hef := eraseFold_spec (S.cnst a).elems s.vl hvl
  by_cases hz : rem3 S s a ≤ 0
  · rw [if_pos hz]
    refine ⟨rfl, rfl, rfl, rfl, hcl.erase a, hef.1, hef.2.1, ?_, fun _ => hef.2.2⟩
    intro c
    simp only []
    rw [List.Nodup.mem_erase_iff hcl]
    constructor
    · rintro ⟨h1, h2⟩; exact ⟨h2, fun h => h1 h.1⟩
    · rintro ⟨h1, h2⟩; exact ⟨fun h => h2 ⟨h, hz⟩, h1⟩
  · rw [if_neg hz]
    refine ⟨rfl, rfl, rfl, rfl, hcl, hvl, fun v hv => hv, ?_, fun h => absurd h hz⟩
    intro c
    simp only []
    constructor
    · intro h1; exact ⟨h1, fun h => hz h.2⟩
    · intro h; exact h.1

theorem p3fold_spec (S : Sys) (l : List Nat) (hl : ∀ c ∈ l, (S.cnst c).fatpipe = false) (hnd : l.Nodup) :
    ∀ s : FbSt, s.cl.Nodup → s.vl.Nodup → (∀ c ∈ l, ∀ e ∈ (S.cnst c).elems, 0 ≤ e.2 * s.mu e.1) → (∀ c ∈ l, 0 ≤ s.remaining c) →
      (l.foldl (p3step S 0) s).value = s.value ∧ (l.foldl (p3step S 0) s).mu = s.mu ∧
      (l.foldl (p3step S 0) s).usage = s.usage ∧
      (l.foldl (p3step S 0) s).cl.Nodup ∧ (l.foldl (p3step S 0) s).vl.Nodup ∧
      (∀ c, c ∉ l → (l.foldl (p3step S 0) s).remaining c = s.remaining c) ∧
      (∀ c ∈ l, (l.foldl (p3step S 0) s).remaining c = rem3 S s c) ∧
      (∀ c, c ∈ (l.foldl (p3step S 0) s).cl ↔ (c ∈ s.cl ∧ ¬ (c ∈ l ∧ rem3 S s c ≤ 0))) ∧
      (∀ v ∈ (l.foldl (p3step S 0) s).vl, v ∈ s.vl) ∧
      (∀ c ∈ l, rem3 S s c ≤ 0 → ∀ e ∈ (S.cnst c).elems, 0 < e.2 → e.1 ∉ (l.foldl (p3step S 0) s).vl) := by
  induction l with
  | nil => intro s h1 h2 _ _; simp [h1, h2]
  | cons a t ih =>
    intro s hcl hvl hmu hrem
    simp only [List.foldl_cons]
    have hat : a ∉ t := (List.nodup_cons.mp hnd).1
    have hndt : t.Nodup := (List.nodup_cons.mp hnd).2
    have hlt : ∀ c ∈ t, (S.cnst c).fatpipe = false := fun c hc => hl c (by simp [hc])
    obtain ⟨q1, q2, q3, q4, q5, q6, q7, q8, q9⟩ :=
      p3step_spec S s a (hl a (by simp)) (hmu a (by simp)) (hrem a (by simp)) hcl hvl
    generalize p3step S 0 s a = s1 at q1 q2 q3 q4 q5 q6 q7 q8 q9
    have hr1 : ∀ c, c ≠ a → s1.remaining c = s.remaining c := by
      intro c hca; rw [q4]; simp [upd, hca]
    have hr3 : ∀ c, c ≠ a → rem3 S s1 c = rem3 S s c := fun c hca => rem3_congr S s s1 c q2 (hr1 c hca)
    obtain ⟨i1, i2, i3, i4, i5, i6, i7, i8, i9, i10⟩ := ih hlt hndt s1 q5 q6
      (by intro c hc e he; rw [q2]; exact hmu c (by simp [hc]) e he)
      (by intro c hc
          have hca : c ≠ a := fun h => hat (h ▸ hc)
          rw [hr1 c hca]; exact hrem c (by simp [hc]))
    refine ⟨by rw [i1, q1], by rw [i2, q2], by rw [i3, q3], i4, i5, ?_, ?_, ?_, fun v hv => q7 v (i9 v hv), ?_⟩
    · intro c hc
      simp only [List.mem_cons, not_or] at hc
      rw [i6 c hc.2, hr1 c hc.1]
    · intro c hc
      simp only [List.mem_cons] at hc
      rcases hc with rfl | hc
      · rw [i6 c hat, q4]; simp
      · have hca : c ≠ a := fun h => hat (h ▸ hc)
        rw [i7 c hc, hr3 c hca]
    · intro c
      rw [i8 c, q8 c]
      simp only [List.mem_cons]
      constructor
      · rintro ⟨⟨h1, h2⟩, h3⟩
        refine ⟨h1, ?_⟩
        rintro ⟨h4 | h4, h5⟩
        · exact h2 ⟨h4, h4 ▸ h5⟩
        · have hca : c ≠ a := fun h => hat (h ▸ h4)
          exact h3 ⟨h4, by rw [hr3 c hca]; exact h5⟩
      · rintro ⟨h1, h2⟩
        refine ⟨⟨h1, fun h => h2 ⟨Or.inl h.1, h.1 ▸ h.2⟩⟩, fun h => ?_⟩
        have hca : c ≠ a := fun hh => hat (hh ▸ h.1)
        exact h2 ⟨Or.inr h.1, by rw [← hr3 c hca]; exact h.2⟩
    · intro c hc hzc e he hw
      simp only [List.mem_cons] at hc
      rcases hc with rfl | hc
      · intro h; exact q9 hzc e he hw (i9 _ h)
      · have hca : c ≠ a := fun h => hat (h ▸ hc)
        exact i10 c hc (by rw [hr3 c hca]; exact hzc) e he hw

/-! ### the invariant of the do-while -/

structure FbInv (S : Sys) (st : FbSt) : Prop where
  iR : ∀ c ∈ S.active, wsum S st.value c ≤ (S.cnst c).bound
  icl : ∀ c ∈ st.cl, c ∈ S.active ∧ 0 ≤ st.remaining c ∧ st.remaining c ≤ (S.cnst c).bound - wsum S st.value c
  iout : ∀ c ∈ S.active, c ∉ st.cl → ∀ e ∈ (S.cnst c).elems, 0 < e.2 → e.1 ∉ st.vl
  imu : ∀ v, 0 ≤ st.mu v
  iuse : ∀ c, 0 ≤ st.usage c
  irng : ∀ v, (v ∈ st.vl ∨ ∃ c ∈ S.active, ∃ e ∈ (S.cnst c).elems, 0 < e.2 ∧ e.1 = v) →
    0 ≤ st.value v ∧ (0 < (S.var v).bound → st.value v ≤ (S.var v).bound)
  ivl : st.vl.Nodup
  icn : st.cl.Nodup

theorem nbOf_zero (S : Sys) (vl : List Nat) (c : Nat) (h : nbOf S vl c = 0) :
    ∀ e ∈ (S.cnst c).elems, 0 < e.2 → e.1 ∉ vl := by
  intro e he hw hv
  unfold nbOf at h
  have := List.length_eq_zero_iff.mp h
  rw [List.filter_eq_nil_iff] at this
  have := this e he
  simp [hw, hv] at this

theorem fbIter_inv (S : Sys) (hwf : WF S) (hwv : WFV S) (hsh : ∀ c ∈ S.active, (S.cnst c).fatpipe = false)
    (st st2 : FbSt) (hI : FbInv S st) (h2 : fbPhase2 S (fbPhase1 S st) = some st2) :
    FbInv S (fbPhase3 S 0 st2) := by
  -- first loop
  have hclsh : ∀ c ∈ st.cl, (S.cnst c).fatpipe = false := fun c hc => hsh c (hI.icl c hc).1
  obtain ⟨a1, a2, a3, a4, a5, a6, a7, a8⟩ := p1fold_spec S st.cl hclsh hI.icn st hI.icn
  rw [← fbPhase1_eq] at a1 a2 a3 a4 a5 a6 a7 a8
  generalize fbPhase1 S st = st1 at h2 a1 a2 a3 a4 a5 a6 a7 a8
  have hcl1 : ∀ c ∈ st1.cl, c ∈ st.cl ∧ nbOf S st.vl c ≠ 0 := by
    intro c hc
    have := (a8 c).mp hc
    exact ⟨this.1, fun h => this.2 ⟨this.1, h⟩⟩
  have huse1 : ∀ c, 0 ≤ st1.usage c := by
    intro c
    by_cases hc : c ∈ st.cl
    · by_cases hn : nbOf S st.vl c = 0
      · rw [(a6 c hc hn).2]
      · rw [(a7 c hc hn).2]
        exact div_nonneg (hI.icl c hc).2.1 (Nat.cast_nonneg _)
    · rw [(a5 c hc).2]; exact hI.iuse c
  -- consumers of an active constraint that is not (or no longer) in the list have stopped growing
  have hstop : ∀ c ∈ S.active, c ∉ st1.cl → ∀ e ∈ (S.cnst c).elems, 0 < e.2 → e.1 ∉ st.vl := by
    intro c hc hn1 e he hw
    by_cases hc0 : c ∈ st.cl
    · have hnb : nbOf S st.vl c = 0 := by
        by_contra hne
        exact hn1 ((a8 c).mpr ⟨hc0, fun h => hne h.2⟩)
      exact nbOf_zero S st.vl c hnb e he hw
    · exact hI.iout c hc hc0 e he hw
  -- second loop
  rw [fbPhase2_eq, a3] at h2
  obtain ⟨b1, b2, b3, b4, b5, b6, b7⟩ := p2fold_spec S st.vl hI.ivl st1 st2 h2
  have hinc : ∀ v ∈ st.vl, ∃ inc, st2.value v = st.value v + inc ∧ st2.mu v = inc ∧ 0 ≤ inc ∧
      (∀ e ∈ (S.var v).cnsts, 0 < e.2 → inc ≤ st1.usage e.1 / e.2) ∧
      (0 < (S.var v).bound → inc ≤ (S.var v).bound - st.value v) := by
    intro v hv
    obtain ⟨inc, h1, h2', h3⟩ := b5 v hv
    have hsp := fbMinInc_spec S st1 v inc h1 huse1 (by rw [a1]; exact (hI.irng v (Or.inl hv)).2)
    rw [a1] at h2' hsp
    exact ⟨inc, h2', h3, hsp.1, hsp.2.1, hsp.2.2⟩
  have hval2 : ∀ v, v ∉ st.vl → st2.value v = st.value v ∧ st2.mu v = st.mu v := by
    intro v hv
    have := b4 v hv
    rw [a1, a2] at this; exact this
  -- the growth of a constraint's load is at most its remaining_
  have hgrow : ∀ c ∈ S.active, wsum S st2.value c ≤ wsum S st.value c + (if c ∈ st1.cl then st.remaining c else 0) := by
    intro c hc
    have hsplit : wsum S st2.value c = wsum S st.value c +
        sumBy (fun e => e.2 * (st2.value e.1 - st.value e.1)) (S.cnst c).elems := by
      unfold wsum
      rw [← sumBy_add]
      apply sumBy_congr
      intro e _; ring
    rw [hsplit]
    by_cases hc1 : c ∈ st1.cl
    · rw [if_pos hc1]
      obtain ⟨hc0, hnb⟩ := hcl1 c hc1
      have hu1 := (a7 c hc0 hnb).2
      have hle : sumBy (fun e => e.2 * (st2.value e.1 - st.value e.1)) (S.cnst c).elems ≤
          sumBy (fun e => if (decide (0 < e.2) && decide (e.1 ∈ st.vl)) then st1.usage c else 0) (S.cnst c).elems := by
        apply sumBy_le_sumBy
        intro e he
        by_cases hcond : 0 < e.2 ∧ e.1 ∈ st.vl
        · simp only [hcond.1, hcond.2, decide_true, Bool.and_self, if_true]
          obtain ⟨inc, hv, _, _, hle, _⟩ := hinc e.1 hcond.2
          have := hle (c, e.2) (hwv.el_in_var c hc e he) hcond.1
          rw [hv]
          have h3 : e.2 * inc ≤ st1.usage c := by
            rw [le_div_iff₀ hcond.1] at this; linarith
          linarith
        · have h0 : e.2 * (st2.value e.1 - st.value e.1) = 0 := by
            by_cases hw : 0 < e.2
            · have hv : e.1 ∉ st.vl := fun h => hcond ⟨hw, h⟩
              rw [(hval2 e.1 hv).1]; ring
            · have : e.2 = 0 := le_antisymm (not_lt.mp hw) (hwf.el_w c hc e he)
              rw [this]; ring
          rw [h0]
          split
          · exact huse1 c
          · exact le_refl 0
      rw [sumBy_indicator] at hle
      have hnbr : ((nbOf S st.vl c : Nat) : Rat) ≠ 0 := by exact_mod_cast hnb
      have : ((((S.cnst c).elems.filter (fun e => decide (0 < e.2) && decide (e.1 ∈ st.vl))).length : Nat) : Rat) *
          st1.usage c = st.remaining c := by
        rw [hu1]
        show ((nbOf S st.vl c : Nat) : Rat) * (st.remaining c / ((nbOf S st.vl c : Nat) : Rat)) = st.remaining c
        field_simp
      linarith
    · rw [if_neg hc1]
      have : sumBy (fun e => e.2 * (st2.value e.1 - st.value e.1)) (S.cnst c).elems = 0 := by
        apply sumBy_zero
        intro e he
        by_cases hw : 0 < e.2
        · rw [(hval2 e.1 (hstop c hc hc1 e he hw)).1]; ring
        · have : e.2 = 0 := le_antisymm (not_lt.mp hw) (hwf.el_w c hc e he)
          rw [this]; ring
      rw [this]
  have hmu2 : ∀ v, 0 ≤ st2.mu v := by
    intro v
    by_cases hv : v ∈ st.vl
    · obtain ⟨inc, _, h3, h4, _⟩ := hinc v hv
      rw [h3]; exact h4
    · rw [(hval2 v hv).2]; exact hI.imu v
  have hR2 : ∀ c ∈ S.active, wsum S st2.value c ≤ (S.cnst c).bound := by
    intro c hc
    have h1 := hgrow c hc
    by_cases hc1 : c ∈ st1.cl
    · rw [if_pos hc1] at h1
      have := (hI.icl c (hcl1 c hc1).1).2.2
      linarith
    · rw [if_neg hc1] at h1
      have := hI.iR c hc
      linarith
  -- third loop
  have hcl2sh : ∀ c ∈ st2.cl, (S.cnst c).fatpipe = false := by
    intro c hc; rw [b3] at hc; exact hclsh c (hcl1 c hc).1
  have hrem2 : ∀ c ∈ st2.cl, st2.remaining c = st.remaining c := by
    intro c hc
    rw [b3] at hc
    rw [b1]; exact (a7 c (hcl1 c hc).1 (hcl1 c hc).2).1
  obtain ⟨d1, d2, d3, d4, d5, d6, d7, d8, d9, d10⟩ := p3fold_spec S st2.cl hcl2sh (by rw [b3]; exact a4) st2
    (by rw [b3]; exact a4) (b7 (by rw [a3]; exact hI.ivl))
    (by intro c hc e he
        rw [b3] at hc
        exact mul_nonneg (hwf.el_w c (hI.icl c (hcl1 c hc).1).1 e he) (hmu2 e.1))
    (by intro c hc; rw [hrem2 c hc]; rw [b3] at hc; exact (hI.icl c (hcl1 c hc).1).2.1)
  rw [← fbPhase3_eq] at d1 d2 d3 d4 d5 d6 d7 d8 d9 d10
  generalize fbPhase3 S 0 st2 = st3 at d1 d2 d3 d4 d5 d6 d7 d8 d9 d10
  have hvl3 : ∀ v ∈ st3.vl, v ∈ st.vl := by
    intro v hv
    have := b6 v (d9 v hv)
    rw [a3] at this; exact this
  constructor
  · intro c hc; rw [d1]; exact hR2 c hc
  · intro c hc
    have hc2 := ((d8 c).mp hc).1
    have hc1 : c ∈ st1.cl := by rw [b3] at hc2; exact hc2
    have hc0 := (hcl1 c hc1).1
    have hca := (hI.icl c hc0).1
    refine ⟨hca, ?_, ?_⟩
    · rw [d7 c hc2]; unfold rem3; exact le_max_left _ _
    · rw [d7 c hc2, d1]
      unfold rem3
      apply max_le
      · have := hR2 c hca; linarith
      · rw [hrem2 c hc2]
        -- Σ w·mu ≥ the growth of the load
        have hge : wsum S st2.value c - wsum S st.value c ≤ sumBy (fun e => e.2 * st2.mu e.1) (S.cnst c).elems := by
          have hsplit : wsum S st2.value c - wsum S st.value c =
              sumBy (fun e => e.2 * (st2.value e.1 - st.value e.1)) (S.cnst c).elems := by
            unfold wsum
            rw [← sumBy_sub]
            apply sumBy_congr
            intro e _; ring
          rw [hsplit]
          apply sumBy_le_sumBy
          intro e he
          apply mul_le_mul_of_nonneg_left _ (hwf.el_w c hca e he)
          by_cases hv : e.1 ∈ st.vl
          · obtain ⟨inc, h1, h3, _⟩ := hinc e.1 hv
            rw [h1, h3]; linarith
          · rw [(hval2 e.1 hv).1]; simp; exact hmu2 e.1
        have := (hI.icl c hc0).2.2
        linarith
  · intro c hc hn3 e he hw hv3
    by_cases hc2 : c ∈ st2.cl
    · have hz : rem3 S st2 c ≤ 0 := by
        by_contra hnz
        exact hn3 ((d8 c).mpr ⟨hc2, fun h => hnz h.2⟩)
      exact d10 c hc2 hz e he hw hv3
    · have hc1 : c ∉ st1.cl := by rw [b3] at hc2; exact hc2
      exact hstop c hc hc1 e he hw (hvl3 e.1 hv3)
  · intro v; rw [d2]; exact hmu2 v
  · intro c; rw [d3, b2]; exact huse1 c
  · intro v hv
    rw [d1]
    by_cases hv0 : v ∈ st.vl
    · obtain ⟨inc, h1, _, h4, _, h6⟩ := hinc v hv0
      have := hI.irng v (Or.inl hv0)
      rw [h1]
      refine ⟨by linarith, fun hb => ?_⟩
      have := h6 hb
      linarith
    · rw [(hval2 v hv0).1]
      rcases hv with hv | hv
      · exact absurd (hvl3 v hv) hv0
      · exact hI.irng v (Or.inr hv)
  · exact d5
  · exact d4

theorem fbLoop_inv (S : Sys) (hwf : WF S) (hwv : WFV S) (hsh : ∀ c ∈ S.active, (S.cnst c).fatpipe = false) :
    ∀ (fuel : Nat) (st st' : FbSt), FbInv S st → fbLoop S 0 fuel st = some st' → FbInv S st' := by
  intro fuel
  induction fuel with
  | zero => intro st st' _ h; simp [fbLoop] at h
  | succ n ih =>
    intro st st' hI h
    rw [fbLoop] at h
    cases h2 : fbPhase2 S (fbPhase1 S st) with
    | none => rw [h2] at h; simp at h
    | some st2 =>
      rw [h2] at h
      simp only [] at h
      have h3 := fbIter_inv S hwf hwv hsh st st2 hI h2
      split at h
      · simp only [Option.some.injEq] at h; rw [← h]; exact h3
      · exact ih _ st' h3 h

/-! ### initialisation -/

def fbCond (S : Sys) (v : Nat) : Prop := 0 < (S.var v).penalty ∧ (S.var v).cnsts.any (fun e => e.2 ≠ 0) = true

theorem fbInitVar_fold (S : Sys) (l : List Nat) (hnd : l.Nodup) :
    ∀ s : FbSt, (∀ v ∈ l, v ∉ s.vl) → s.vl.Nodup →
      (l.foldl (fbInitVar S) s).mu = s.mu ∧ (l.foldl (fbInitVar S) s).remaining = s.remaining ∧
      (l.foldl (fbInitVar S) s).usage = s.usage ∧ (l.foldl (fbInitVar S) s).cl = s.cl ∧
      (l.foldl (fbInitVar S) s).vl.Nodup ∧
      (∀ v, v ∉ l → (l.foldl (fbInitVar S) s).value v = s.value v) ∧
      (∀ v ∈ l, fbCond S v → (l.foldl (fbInitVar S) s).value v = 0) ∧
      (∀ v ∈ (l.foldl (fbInitVar S) s).vl, v ∈ s.vl ∨ (v ∈ l ∧ fbCond S v)) := by
  induction l with
  | nil => intro s _ hs; simp [hs]
  | cons a t ih =>
    intro s hfresh hs
    simp only [List.foldl_cons]
    have hat : a ∉ t := (List.nodup_cons.mp hnd).1
    have hndt : t.Nodup := (List.nodup_cons.mp hnd).2
    -- one step
    obtain ⟨s1, hs1, e1, e2, e3, e4, e5, e6, e7⟩ : ∃ s1, fbInitVar S s a = s1 ∧ s1.mu = s.mu ∧ s1.remaining = s.remaining ∧
        s1.usage = s.usage ∧ s1.cl = s.cl ∧ (∀ v, v ≠ a → s1.value v = s.value v) ∧ (fbCond S a → s1.value a = 0) ∧
        ((s1.vl = s.vl) ∨ (fbCond S a ∧ s1.vl = s.vl ++ [a])) := by
      by_cases hc : fbCond S a
      · refine ⟨{ s with value := upd s.value a 0, vl := s.vl ++ [a] }, ?_, rfl, rfl, rfl, rfl, ?_, ?_, Or.inr ⟨hc, rfl⟩⟩
        · unfold fbInitVar; unfold fbCond at hc; simp only [hc, and_self, if_true]
        · intro v hv; simp [upd, hv]
        · intro _; simp
      · by_cases hp : 0 < (S.var a).penalty
        · refine ⟨{ s with value := upd s.value a 1 }, ?_, rfl, rfl, rfl, rfl, ?_, fun h => absurd h hc, Or.inl rfl⟩
          · have hany : ¬ ((S.var a).cnsts.any (fun e => e.2 ≠ 0) = true) := fun h => hc ⟨hp, h⟩
            unfold fbInitVar
            rw [if_neg (fun h => hany h.2), if_pos hp]
          · intro v hv; simp [upd, hv]
        · refine ⟨{ s with value := upd s.value a 0 }, ?_, rfl, rfl, rfl, rfl, ?_, fun _ => by simp, Or.inl rfl⟩
          · unfold fbInitVar
            rw [if_neg (fun h => hp h.1), if_neg hp]
          · intro v hv; simp [upd, hv]
    rw [hs1]
    have hfresh1 : ∀ v ∈ t, v ∉ s1.vl := by
      intro v hv hm
      have hva : v ≠ a := fun h => hat (h ▸ hv)
      rcases e7 with e7 | ⟨_, e7⟩
      · rw [e7] at hm; exact hfresh v (by simp [hv]) hm
      · rw [e7] at hm
        simp only [List.mem_append, List.mem_singleton] at hm
        rcases hm with hm | hm
        · exact hfresh v (by simp [hv]) hm
        · exact hva hm
    have hs1nd : s1.vl.Nodup := by
      rcases e7 with e7 | ⟨_, e7⟩
      · rw [e7]; exact hs
      · rw [e7, List.nodup_append]
        refine ⟨hs, by simp, ?_⟩
        intro x hx y hy
        simp only [List.mem_singleton] at hy
        rw [hy]; intro hxa; rw [hxa] at hx; exact hfresh a (by simp) hx
    obtain ⟨i1, i2, i3, i4, i5, i6, i7, i8⟩ := ih hndt s1 hfresh1 hs1nd
    refine ⟨by rw [i1, e1], by rw [i2, e2], by rw [i3, e3], by rw [i4, e4], i5, ?_, ?_, ?_⟩
    · intro v hv
      simp only [List.mem_cons, not_or] at hv
      rw [i6 v hv.2, e5 v hv.1]
    · intro v hv hc
      simp only [List.mem_cons] at hv
      rcases hv with rfl | hv
      · rw [i6 v hat]; exact e6 hc
      · exact i7 v hv hc
    · intro v hv
      rcases i8 v hv with h | h
      · rcases e7 with e7 | ⟨hc, e7⟩
        · rw [e7] at h; exact Or.inl h
        · rw [e7] at h
          simp only [List.mem_append, List.mem_singleton] at h
          rcases h with h | h
          · exact Or.inl h
          · exact Or.inr ⟨by simp [h], h ▸ hc⟩
      · exact Or.inr ⟨by simp [h.1], h.2⟩

def fbCnstInit (S : Sys) (st : FbSt) (c : Nat) : FbSt :=
  { st with remaining := upd st.remaining c (S.cnst c).bound, usage := upd st.usage c 0 }

theorem fbCnstInit_frame (S : Sys) (c : Nat) (l : List Nat) : ∀ s : FbSt, c ∉ l →
    (l.foldl (fbCnstInit S) s).remaining c = s.remaining c := by
  induction l with
  | nil => intro s _; rfl
  | cons b t ih =>
    intro s hn
    simp only [List.foldl_cons]
    simp only [List.mem_cons, not_or] at hn
    rw [ih _ hn.2]; simp [fbCnstInit, upd, hn.1]

theorem fbInitCnst_fold (S : Sys) (l : List Nat) : ∀ s : FbSt,
    (l.foldl (fbCnstInit S) s).value = s.value ∧ (l.foldl (fbCnstInit S) s).mu = s.mu ∧
    (l.foldl (fbCnstInit S) s).vl = s.vl ∧ (l.foldl (fbCnstInit S) s).cl = s.cl ∧
    (∀ c ∈ l, (l.foldl (fbCnstInit S) s).remaining c = (S.cnst c).bound) ∧
    ((∀ c, s.usage c = 0) → ∀ c, (l.foldl (fbCnstInit S) s).usage c = 0) := by
  induction l with
  | nil => intro s; simp
  | cons a t ih =>
    intro s
    simp only [List.foldl_cons]
    obtain ⟨i1, i2, i3, i4, i5, i6⟩ := ih (fbCnstInit S s a)
    refine ⟨i1, i2, i3, i4, ?_, ?_⟩
    · intro c hc
      by_cases hct : c ∈ t
      · exact i5 c hct
      · simp only [List.mem_cons] at hc
        rcases hc with rfl | hc
        · rw [fbCnstInit_frame S c t _ hct]; simp [fbCnstInit]
        · exact absurd hc hct
    · intro h0 c
      apply i6
      intro c'
      by_cases h : c' = a
      · simp [fbCnstInit, upd, h]
      · simp [fbCnstInit, upd, h, h0 c']

theorem fbInit_eq (S : Sys) (val0 : Nat → Rat) :
    fbInit S val0 = S.active.foldl (fbCnstInit S)
      { (S.vorder.foldl (fbInitVar S)
          { value := val0, mu := fun _ => 0, remaining := fun _ => 0, usage := fun _ => 0, vl := [], cl := [] }) with
        cl := S.active } := rfl

theorem fbInit_inv (S : Sys) (hwf : WF S) (hwv : WFV S) (hvo : S.vorder.Nodup) (val0 : Nat → Rat) :
    FbInv S (fbInit S val0) := by
  rw [fbInit_eq]
  obtain ⟨a1, a2, a3, a4, a5, a6, a7, a8⟩ := fbInitVar_fold S S.vorder hvo
    { value := val0, mu := fun _ => 0, remaining := fun _ => 0, usage := fun _ => 0, vl := [], cl := [] }
    (by intro v _; simp) (by simp)
  generalize S.vorder.foldl (fbInitVar S)
    { value := val0, mu := fun _ => 0, remaining := fun _ => 0, usage := fun _ => 0, vl := [], cl := [] } = s0
    at a1 a2 a3 a4 a5 a6 a7 a8
  obtain ⟨b1, b2, b3, b4, b5, b6⟩ := fbInitCnst_fold S S.active { s0 with cl := S.active }
  simp only [] at b1 b2 b3 b4 b5 b6
  generalize S.active.foldl (fbCnstInit S) { s0 with cl := S.active } = s1 at b1 b2 b3 b4 b5 b6
  have hcons0 : ∀ c ∈ S.active, ∀ e ∈ (S.cnst c).elems, 0 < e.2 → s1.value e.1 = 0 := by
    intro c hc e he hw
    rw [b1]
    apply a7 e.1 (hwv.vo_all c hc e he)
    refine ⟨hwf.el_pen c hc e he, ?_⟩
    rw [List.any_eq_true]
    exact ⟨(c, e.2), hwv.el_in_var c hc e he, by simpa using ne_of_gt hw⟩
  have hvl0 : ∀ v ∈ s1.vl, s1.value v = 0 := by
    intro v hv
    rw [b3] at hv
    rcases a8 v hv with h | h
    · simp at h
    · rw [b1]; exact a7 v h.1 h.2
  have hws : ∀ c ∈ S.active, wsum S s1.value c = 0 := by
    intro c hc
    unfold wsum
    apply sumBy_zero
    intro e he
    by_cases hw : 0 < e.2
    · rw [hcons0 c hc e he hw]; ring
    · have : e.2 = 0 := le_antisymm (not_lt.mp hw) (hwf.el_w c hc e he)
      rw [this]; ring
  constructor
  · intro c hc; rw [hws c hc]; exact le_of_lt (hwf.cb_pos c hc)
  · intro c hc
    rw [b4] at hc
    rw [b5 c hc, hws c hc]
    exact ⟨hc, le_of_lt (hwf.cb_pos c hc), by linarith⟩
  · intro c hc hn; rw [b4] at hn; exact absurd hc hn
  · intro v; rw [b2, a1]
  · intro c; rw [b6 (by intro c'; show s0.usage c' = 0; rw [a3]) c]
  · intro v hv
    have h0 : s1.value v = 0 := by
      rcases hv with hv | ⟨c, hc, e, he, hw, rfl⟩
      · exact hvl0 v hv
      · exact hcons0 c hc e he hw
    rw [h0]
    exact ⟨le_refl 0, fun hb => le_of_lt hb⟩
  · rw [b3]; exact a5
  · rw [b4]; exact hwf.act_nd

/-- **C15 `fb_feasible`, systems without FATPIPE constraints, exact arithmetic.** -/
theorem fb_feasible_shared (S : Sys) (hwf : WF S) (hwv : WFV S) (hvo : S.vorder.Nodup)
    (hsh : ∀ c ∈ S.active, (S.cnst c).fatpipe = false)
    (val0 : Nat → Rat) (fuel : Nat) (st : FbSt) (h : fbSolve S 0 fuel val0 = some st) :
    (∀ c ∈ S.active, load S st.value c ≤ (S.cnst c).bound) ∧
    (∀ c ∈ S.active, ∀ e ∈ (S.cnst c).elems, 0 < e.2 →
       0 ≤ st.value e.1 ∧ (0 < (S.var e.1).bound → st.value e.1 ≤ (S.var e.1).bound)) := by
  unfold fbSolve at h
  have hI := fbLoop_inv S hwf hwv hsh fuel _ st (fbInit_inv S hwf hwv hvo val0) h
  constructor
  · intro c hc
    rw [load_eq_wsum S hwf st.value c hc (hsh c hc)]
    exact hI.iR c hc
  · intro c hc e he hw
    exact hI.irng e.1 (Or.inr ⟨c, hc, e, he, hw, rfl⟩)

end SgVerif.Lmm
