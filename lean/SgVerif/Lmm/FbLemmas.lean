/-
C15, FairBottleneck::do_solve on systems without FATPIPE constraints, exact arithmetic (eps = 0): the allocation respects
the capacities and the variable bounds.  Invariant `FbInv` at the head of the do-while:
  R c = bound c − Σ w·value ≥ 0 for every active constraint; 0 ≤ remaining_ c ≤ R c for the constraints still in
  `saturated_constraint_set`; the consumers of an active constraint that left it are no longer in `saturated_variable_set`;
  mu_ ≥ 0, usage_ ≥ 0.
Key step: the still-growing consumers of c get, together, at most nb · usage_ c = remaining_ c ≤ R c.
-/
import SgVerif.Lmm.Unique
import SgVerif.Lmm.SpecLemmas
namespace SgVerif.Lmm

/-! ### helpers -/

theorem sumBy_le_sumBy (f g : Nat × Rat → Rat) (l : List (Nat × Rat)) (h : ∀ e ∈ l, f e ≤ g e) : sumBy f l ≤ sumBy g l := by
  induction l with
  | nil => simp
  | cons a t ih =>
    have h1 := h a (by simp)
    have h2 := ih (fun e he => h e (by simp [he]))
    simp; linarith

theorem sumBy_indicator (p : Nat × Rat → Bool) (u : Rat) (l : List (Nat × Rat)) :
    sumBy (fun e => if p e then u else 0) l = ((l.filter p).length : Rat) * u := by
  induction l with
  | nil => simp
  | cons a t ih =>
    simp only [sumBy_cons, ih, List.filter_cons]
    cases hp : p a with
    | true => simp; ring
    | false => simp

theorem sumBy_add (f g : Nat × Rat → Rat) (l : List (Nat × Rat)) :
    sumBy (fun e => f e + g e) l = sumBy f l + sumBy g l := by
  induction l with
  | nil => simp
  | cons a t ih => simp [ih]; ring

/-- `Σ w·value` over all enabled elements of `c` -/
def wsum (S : Sys) (value : Nat → Rat) (c : Nat) : Rat := sumBy (fun e => e.2 * value e.1) (S.cnst c).elems

theorem load_eq_wsum (S : Sys) (hwf : WF S) (value : Nat → Rat) (c : Nat) (hc : c ∈ S.active)
    (hf : (S.cnst c).fatpipe = false) : load S value c = wsum S value c := by
  rw [load_eq_sumBy S value c hf]
  unfold wsum
  apply sumBy_congr
  intro e he
  by_cases hw : 0 < e.2
  · simp [hw]
  · have : e.2 = 0 := le_antisymm (not_lt.mp hw) (hwf.el_w c hc e he)
    simp [this]

/-- the `double_update` chain of the third loop at eps = 0: `max 0 (r − Σ a)` -/
theorem clampFold (f : Nat × Rat → Rat) (l : List (Nat × Rat)) (hf : ∀ e ∈ l, 0 ≤ f e) :
    ∀ r : Rat, 0 ≤ r → l.foldl (fun (r : Rat) (e : Nat × Rat) => dblUpdate r (f e) 0) r = max 0 (r - sumBy f l) := by
  induction l with
  | nil => intro r hr; simp [max_eq_right hr]
  | cons a t ih =>
    intro r hr
    simp only [List.foldl_cons, sumBy_cons]
    have ha := hf a (by simp)
    have hd : 0 ≤ dblUpdate r (f a) 0 := by
      unfold dblUpdate; split
      · exact le_refl 0
      · linarith
    rw [ih (fun e he => hf e (by simp [he])) _ hd]
    have hs := sumBy_nonneg f t (fun e he => hf e (by simp [he]))
    unfold dblUpdate
    split
    · rename_i hlt
      rw [max_eq_left (by linarith), max_eq_left (by linarith)]
    · congr 1; ring

/-! ### first loop: `usage_ = remaining_ / nb` -/

/-- `nb`: number of enabled elements with weight > 0 whose variable is still in `saturated_variable_set` -/
def nbOf (S : Sys) (vl : List Nat) (c : Nat) : Nat :=
  ((S.cnst c).elems.filter (fun e => decide (0 < e.2) && decide (e.1 ∈ vl))).length

def p1step (S : Sys) (st : FbSt) (c : Nat) : FbSt :=
    let C := S.cnst c
    let nb := (C.elems.filter (fun e => decide (0 < e.2) && decide (e.1 ∈ st.vl))).length
    let nb := if 0 < nb ∧ C.fatpipe then 1 else nb
    if nb = 0 then
      { st with remaining := upd st.remaining c 0, usage := upd st.usage c 0, cl := st.cl.erase c }
    else { st with usage := upd st.usage c (st.remaining c / (nb : Rat)) }

theorem fbPhase1_eq (S : Sys) (st : FbSt) : fbPhase1 S st = st.cl.foldl (p1step S) st := rfl

theorem p1step_shared (S : Sys) (st : FbSt) (c : Nat) (hf : (S.cnst c).fatpipe = false) :
    p1step S st c =
      if nbOf S st.vl c = 0 then
        { st with remaining := upd st.remaining c 0, usage := upd st.usage c 0, cl := st.cl.erase c }
      else { st with usage := upd st.usage c (st.remaining c / (nbOf S st.vl c : Rat)) } := by
  unfold p1step nbOf
  have h : ¬ (0 < ((S.cnst c).elems.filter (fun e => decide (0 < e.2) && decide (e.1 ∈ st.vl))).length ∧
      (S.cnst c).fatpipe = true) := by
    rw [hf]; simp
  simp only [h, if_false]

theorem p1fold_spec (S : Sys) (l : List Nat) (hl : ∀ c ∈ l, (S.cnst c).fatpipe = false) (hnd : l.Nodup) :
    ∀ s : FbSt, s.cl.Nodup →
      (l.foldl (p1step S) s).value = s.value ∧ (l.foldl (p1step S) s).mu = s.mu ∧ (l.foldl (p1step S) s).vl = s.vl ∧
      (l.foldl (p1step S) s).cl.Nodup ∧
      (∀ c, c ∉ l → (l.foldl (p1step S) s).remaining c = s.remaining c ∧ (l.foldl (p1step S) s).usage c = s.usage c) ∧
      (∀ c ∈ l, nbOf S s.vl c = 0 → (l.foldl (p1step S) s).remaining c = 0 ∧ (l.foldl (p1step S) s).usage c = 0) ∧
      (∀ c ∈ l, nbOf S s.vl c ≠ 0 → (l.foldl (p1step S) s).remaining c = s.remaining c ∧
        (l.foldl (p1step S) s).usage c = s.remaining c / (nbOf S s.vl c : Rat)) ∧
      (∀ c, c ∈ (l.foldl (p1step S) s).cl ↔ (c ∈ s.cl ∧ ¬ (c ∈ l ∧ nbOf S s.vl c = 0))) := by
  induction l with
  | nil => intro s hs; simp [hs]
  | cons a t ih =>
    intro s hs
    simp only [List.foldl_cons]
    have hat : a ∉ t := (List.nodup_cons.mp hnd).1
    have hndt : t.Nodup := (List.nodup_cons.mp hnd).2
    have hfa := hl a (by simp)
    have hlt : ∀ c ∈ t, (S.cnst c).fatpipe = false := fun c hc => hl c (by simp [hc])
    rw [p1step_shared S s a hfa]
    by_cases hnb : nbOf S s.vl a = 0
    · rw [if_pos hnb]
      obtain ⟨i1, i2, i3, i4, i5, i6, i7, i8⟩ := ih hlt hndt
        { s with remaining := upd s.remaining a 0, usage := upd s.usage a 0, cl := s.cl.erase a } (hs.erase a)
      simp only [] at i1 i2 i3 i4 i5 i6 i7 i8
      refine ⟨i1, i2, i3, i4, ?_, ?_, ?_, ?_⟩
      · intro c hc
        simp only [List.mem_cons, not_or] at hc
        have := i5 c hc.2
        rw [this.1, this.2]; simp [upd, hc.1]
      · intro c hc hn
        simp only [List.mem_cons] at hc
        rcases hc with rfl | hc
        · have := i5 c hat
          rw [this.1, this.2]; simp
        · exact i6 c hc (by rw [i3] at *; exact hn)
      · intro c hc hn
        simp only [List.mem_cons] at hc
        rcases hc with rfl | hc
        · exact absurd hnb hn
        · have hca : c ≠ a := fun h => hat (h ▸ hc)
          have := i7 c hc hn
          rw [this.1, this.2]; simp [upd, hca]
      · intro c
        rw [i8 c]
        simp only [List.mem_cons]
        constructor
        · rintro ⟨h1, h2⟩
          have hm := (List.Nodup.mem_erase_iff hs).mp h1
          refine ⟨hm.2, ?_⟩
          rintro ⟨h3 | h3, h4⟩
          · exact hm.1 h3
          · exact h2 ⟨h3, h4⟩
        · rintro ⟨h1, h2⟩
          have hca : c ≠ a := fun h => h2 ⟨Or.inl h, h ▸ hnb⟩
          exact ⟨(List.Nodup.mem_erase_iff hs).mpr ⟨hca, h1⟩, fun h => h2 ⟨Or.inr h.1, h.2⟩⟩
    · rw [if_neg hnb]
      obtain ⟨i1, i2, i3, i4, i5, i6, i7, i8⟩ := ih hlt hndt
        { s with usage := upd s.usage a (s.remaining a / (nbOf S s.vl a : Rat)) } hs
      simp only [] at i1 i2 i3 i4 i5 i6 i7 i8
      refine ⟨i1, i2, i3, i4, ?_, ?_, ?_, ?_⟩
      · intro c hc
        simp only [List.mem_cons, not_or] at hc
        have := i5 c hc.2
        rw [this.1, this.2]; simp [upd, hc.1]
      · intro c hc hn
        simp only [List.mem_cons] at hc
        rcases hc with rfl | hc
        · exact absurd hn hnb
        · exact i6 c hc hn
      · intro c hc hn
        simp only [List.mem_cons] at hc
        rcases hc with rfl | hc
        · have := i5 c hat
          rw [this.1, this.2]; simp
        · exact i7 c hc hn
      · intro c
        rw [i8 c]
        simp only [List.mem_cons]
        constructor
        · rintro ⟨h1, h2⟩
          refine ⟨h1, ?_⟩
          rintro ⟨h3 | h3, h4⟩
          · rw [h3] at h4; exact hnb h4
          · exact h2 ⟨h3, h4⟩
        · rintro ⟨h1, h2⟩
          exact ⟨h1, fun h => h2 ⟨Or.inr h.1, h.2⟩⟩

/-! ### second loop: the increments -/

theorem fbMinInc_congr (S : Sys) (s s' : FbSt) (v : Nat) (h1 : s.usage = s'.usage) (h2 : s.value v = s'.value v) :
    fbMinInc S s v = fbMinInc S s' v := by
  unfold fbMinInc; rw [h1, h2]

theorem fbMinInc_spec (S : Sys) (st : FbSt) (v : Nat) (inc : Rat) (h : fbMinInc S st v = some inc)
    (hu : ∀ c, 0 ≤ st.usage c) (hb : 0 < (S.var v).bound → st.value v ≤ (S.var v).bound) :
    0 ≤ inc ∧ (∀ e ∈ (S.var v).cnsts, 0 < e.2 → inc ≤ st.usage e.1 / e.2) ∧
    (0 < (S.var v).bound → inc ≤ (S.var v).bound - st.value v) := by
  unfold fbMinInc at h
  simp only [] at h
  have A := Spec.foldMin_spec
    (fun (m : Option Rat) (e : Nat × Rat) =>
      if 0 < e.2 then
        let x := st.usage e.1 / e.2
        match m with
        | none => some x
        | some y => some (if x < y then x else y)
      else m)
    (fun e => 0 < e.2) (fun e => st.usage e.1 / e.2)
    (fun a x hx => by simp only [hx, if_true]; cases a <;> rfl) (fun a x hx => by simp only [hx, if_false])
    (S.var v).cnsts none
  generalize (S.var v).cnsts.foldl _ none = m at h A
  have hm : ∀ t, m = some t → 0 ≤ t ∧ ∀ e ∈ (S.var v).cnsts, 0 < e.2 → t ≤ st.usage e.1 / e.2 := by
    intro t ht
    obtain ⟨hatt, _, hle⟩ := A.2 t ht
    refine ⟨?_, hle⟩
    rcases hatt with h0 | ⟨e, _, hw, hg⟩
    · exact absurd h0 (by simp)
    · rw [← hg]; exact div_nonneg (hu e.1) (le_of_lt hw)
  by_cases hbd : 0 < (S.var v).bound
  · rw [if_pos hbd] at h
    have hbv := hb hbd
    cases hmm : m with
    | none =>
      rw [hmm] at h
      simp only [Option.some.injEq] at h
      rw [← h]
      exact ⟨by linarith, fun e he hw => absurd hw ((A.1.mp hmm).2 e he), fun _ => le_refl _⟩
    | some y =>
      rw [hmm] at h
      simp only [Option.some.injEq] at h
      obtain ⟨hy0, hyle⟩ := hm y hmm
      by_cases hlt : (S.var v).bound - st.value v < y
      · rw [if_pos hlt] at h
        rw [← h]
        exact ⟨by linarith, fun e he hw => le_trans (le_of_lt hlt) (hyle e he hw), fun _ => le_refl _⟩
      · rw [if_neg hlt] at h
        rw [← h]
        exact ⟨hy0, hyle, fun _ => not_lt.mp hlt⟩
  · rw [if_neg hbd] at h
    obtain ⟨hy0, hyle⟩ := hm inc h
    exact ⟨hy0, hyle, fun hh => absurd hh hbd⟩

def p2step (S : Sys) (o : Option FbSt) (v : Nat) : Option FbSt :=
    match o with
    | none => none
    | some st =>
      match fbMinInc S st v with
      | none => none
      | some inc =>
        let nv := st.value v + inc
        let st := { st with mu := upd st.mu v inc, value := upd st.value v nv }
        some (if nv = (S.var v).bound then { st with vl := st.vl.erase v } else st)

theorem fbPhase2_eq (S : Sys) (st : FbSt) : fbPhase2 S st = st.vl.foldl (p2step S) (some st) := rfl

theorem p2step_some (S : Sys) (s : FbSt) (a : Nat) (inc : Rat) (hinc : fbMinInc S s a = some inc) :
    ∃ s1, p2step S (some s) a = some s1 ∧
      s1.remaining = s.remaining ∧ s1.usage = s.usage ∧ s1.cl = s.cl ∧
      s1.value = upd s.value a (s.value a + inc) ∧ s1.mu = upd s.mu a inc ∧
      (∀ v, v ∈ s1.vl → v ∈ s.vl) ∧ (s.vl.Nodup → s1.vl.Nodup) := by
  by_cases hb : s.value a + inc = (S.var a).bound
  · refine ⟨{ s with mu := upd s.mu a inc, value := upd s.value a (s.value a + inc), vl := s.vl.erase a }, ?_,
      rfl, rfl, rfl, rfl, rfl, ?_, ?_⟩
    · simp only [p2step, hinc, hb, if_true]
    · intro v hv; exact List.mem_of_mem_erase hv
    · intro hn; exact hn.erase a
  · refine ⟨{ s with mu := upd s.mu a inc, value := upd s.value a (s.value a + inc) }, ?_,
      rfl, rfl, rfl, rfl, rfl, fun v hv => hv, fun hn => hn⟩
    simp only [p2step, hinc, hb, if_false]

theorem p2fold_none (S : Sys) (l : List Nat) : l.foldl (p2step S) none = none := by
  induction l with
  | nil => rfl
  | cons a t ih => simp only [List.foldl_cons]; exact ih

theorem p2fold_spec (S : Sys) (l : List Nat) (hnd : l.Nodup) :
    ∀ s r : FbSt, l.foldl (p2step S) (some s) = some r →
      r.remaining = s.remaining ∧ r.usage = s.usage ∧ r.cl = s.cl ∧
      (∀ v, v ∉ l → r.value v = s.value v ∧ r.mu v = s.mu v) ∧
      (∀ v ∈ l, ∃ inc, fbMinInc S s v = some inc ∧ r.value v = s.value v + inc ∧ r.mu v = inc) ∧
      (∀ v, v ∈ r.vl → v ∈ s.vl) ∧ (s.vl.Nodup → r.vl.Nodup) := by
  induction l with
  | nil =>
    intro s r h
    simp only [List.foldl_nil, Option.some.injEq] at h
    subst h
    exact ⟨rfl, rfl, rfl, fun v _ => ⟨rfl, rfl⟩, by simp, fun v h => h, fun h => h⟩
  | cons a t ih =>
    intro s r h
    simp only [List.foldl_cons] at h
    have hat : a ∉ t := (List.nodup_cons.mp hnd).1
    have hndt : t.Nodup := (List.nodup_cons.mp hnd).2
    cases hinc : fbMinInc S s a with
    | none =>
      have : p2step S (some s) a = none := by simp only [p2step, hinc]
      rw [this, p2fold_none] at h
      exact absurd h (by simp)
    | some inc =>
      -- the state after `a`
      obtain ⟨s1, hs1, e1, e2, e3, e4, e5, e6, e7⟩ := p2step_some S s a inc hinc
      rw [hs1] at h
      obtain ⟨i1, i2, i3, i4, i5, i6, i7⟩ := ih hndt s1 r h
      refine ⟨by rw [i1, e1], by rw [i2, e2], by rw [i3, e3], ?_, ?_, fun v hv => e6 v (i6 v hv), fun hn => i7 (e7 hn)⟩
      · intro v hv
        simp only [List.mem_cons, not_or] at hv
        have := i4 v hv.2
        rw [this.1, this.2, e4, e5]; simp [upd, hv.1]
      · intro v hv
        simp only [List.mem_cons] at hv
        rcases hv with rfl | hv
        · refine ⟨inc, hinc, ?_, ?_⟩
          · rw [(i4 v hat).1, e4]; simp
          · rw [(i4 v hat).2, e5]; simp
        · have hva : v ≠ a := fun h => hat (h ▸ hv)
          obtain ⟨inc', h1, h2, h3⟩ := i5 v hv
          refine ⟨inc', ?_, ?_, h3⟩
          · rw [← h1]; exact fbMinInc_congr S s s1 v e2.symm (by rw [e4]; simp [upd, hva])
          · rw [h2, e4]; simp [upd, hva]

/-! ### third loop -/

theorem eraseFold_spec (es : List (Nat × Rat)) : ∀ vl : List Nat, vl.Nodup →
    (es.foldl (fun (vl : List Nat) (e : Nat × Rat) => if 0 < e.2 ∧ e.1 ∈ vl then vl.erase e.1 else vl) vl).Nodup ∧
    (∀ v ∈ es.foldl (fun (vl : List Nat) (e : Nat × Rat) => if 0 < e.2 ∧ e.1 ∈ vl then vl.erase e.1 else vl) vl, v ∈ vl) ∧
    (∀ e ∈ es, 0 < e.2 →
      e.1 ∉ es.foldl (fun (vl : List Nat) (e : Nat × Rat) => if 0 < e.2 ∧ e.1 ∈ vl then vl.erase e.1 else vl) vl) := by
  induction es with
  | nil => intro vl h; simp [h]
  | cons a t ih =>
    intro vl hnd
    simp only [List.foldl_cons]
    have h1 : (if 0 < a.2 ∧ a.1 ∈ vl then vl.erase a.1 else vl).Nodup ∧
        (∀ v ∈ (if 0 < a.2 ∧ a.1 ∈ vl then vl.erase a.1 else vl), v ∈ vl) ∧
        (0 < a.2 → a.1 ∉ (if 0 < a.2 ∧ a.1 ∈ vl then vl.erase a.1 else vl)) := by
      by_cases hc : 0 < a.2 ∧ a.1 ∈ vl
      · rw [if_pos hc]
        exact ⟨hnd.erase _, fun v hv => List.mem_of_mem_erase hv, fun _ h => ((List.Nodup.mem_erase_iff hnd).mp h).1 rfl⟩
      · rw [if_neg hc]
        exact ⟨hnd, fun v hv => hv, fun hw h => hc ⟨hw, h⟩⟩
    obtain ⟨j1, j2, j3⟩ := ih _ h1.1
    refine ⟨j1, fun v hv => h1.2.1 v (j2 v hv), ?_⟩
    intro e he hw
    simp only [List.mem_cons] at he
    rcases he with rfl | he
    · intro h; exact h1.2.2 hw (j2 _ h)
    · exact j3 e he hw

def p3step (S : Sys) (eps : Rat) (st : FbSt) (c : Nat) : FbSt :=
    let C := S.cnst c
    let st : FbSt :=
      if !C.fatpipe then
        let r := C.elems.foldl (fun (r : Rat) (e : Nat × Rat) => dblUpdate r (e.2 * st.mu e.1) eps) (st.remaining c)
        { st with remaining := upd st.remaining c r }
      else
        let u := C.elems.foldl (fun (u : Rat) (e : Nat × Rat) => if e.2 * st.mu e.1 < u then e.2 * st.mu e.1 else u) (st.usage c)
        { st with usage := upd st.usage c u, remaining := upd st.remaining c (dblUpdate (st.remaining c) u eps) }
    if st.remaining c ≤ 0 then
      { st with cl := st.cl.erase c,
                vl := C.elems.foldl (fun (vl : List Nat) (e : Nat × Rat) => if 0 < e.2 ∧ e.1 ∈ vl then vl.erase e.1 else vl) st.vl }
    else st

theorem fbPhase3_eq (S : Sys) (eps : Rat) (st : FbSt) : fbPhase3 S eps st = st.cl.foldl (p3step S eps) st := rfl

/-- new `remaining_` of a summing constraint after the third loop -/
def rem3 (S : Sys) (st : FbSt) (c : Nat) : Rat :=
  max 0 (st.remaining c - sumBy (fun e => e.2 * st.mu e.1) (S.cnst c).elems)

theorem p3step_shared (S : Sys) (st : FbSt) (c : Nat) (hf : (S.cnst c).fatpipe = false)
    (hmu : ∀ e ∈ (S.cnst c).elems, 0 ≤ e.2 * st.mu e.1) (hr : 0 ≤ st.remaining c) :
    p3step S 0 st c =
      if rem3 S st c ≤ 0 then
        { st with remaining := upd st.remaining c (rem3 S st c), cl := st.cl.erase c,
                  vl := (S.cnst c).elems.foldl (fun (vl : List Nat) (e : Nat × Rat) => if 0 < e.2 ∧ e.1 ∈ vl then vl.erase e.1 else vl) st.vl }
      else { st with remaining := upd st.remaining c (rem3 S st c) } := by
  unfold p3step rem3
  simp only [hf, Bool.not_false, if_true]
  rw [clampFold (fun e => e.2 * st.mu e.1) (S.cnst c).elems hmu _ hr]
  simp only [upd_same]

theorem rem3_congr (S : Sys) (s s' : FbSt) (c : Nat) (h1 : s'.mu = s.mu) (h2 : s'.remaining c = s.remaining c) :
    rem3 S s' c = rem3 S s c := by
  unfold rem3; rw [h1, h2]

theorem p3step_spec (S : Sys) (s : FbSt) (a : Nat) (hf : (S.cnst a).fatpipe = false)
    (hmu : ∀ e ∈ (S.cnst a).elems, 0 ≤ e.2 * s.mu e.1) (hr : 0 ≤ s.remaining a) (hcl : s.cl.Nodup) (hvl : s.vl.Nodup) :
    (p3step S 0 s a).value = s.value ∧ (p3step S 0 s a).mu = s.mu ∧ (p3step S 0 s a).usage = s.usage ∧
    (p3step S 0 s a).remaining = upd s.remaining a (rem3 S s a) ∧ (p3step S 0 s a).cl.Nodup ∧ (p3step S 0 s a).vl.Nodup ∧
    (∀ v ∈ (p3step S 0 s a).vl, v ∈ s.vl) ∧
    (∀ c, c ∈ (p3step S 0 s a).cl ↔ (c ∈ s.cl ∧ ¬ (c = a ∧ rem3 S s a ≤ 0))) ∧
    (rem3 S s a ≤ 0 → ∀ e ∈ (S.cnst a).elems, 0 < e.2 → e.1 ∉ (p3step S 0 s a).vl) := by
  rw [p3step_shared S s a hf hmu hr]
  have hef := eraseFold_spec (S.cnst a).elems s.vl hvl
  by_cases hz : rem3 S s a ≤ 0
  · rw [if_pos hz]
    refine ⟨rfl, rfl, rfl, rfl, hcl.erase a, hef.1, hef.2.1, ?_, fun _ => hef.2.2⟩
    intro c
    simp only []
    rw [List.Nodup.mem_erase_iff hcl]
    constructor
    · rintro ⟨h1, h2⟩; exact ⟨h2, fun h => h1 h.1⟩
    · rintro ⟨h1, h2⟩; exact ⟨fun h => h2 ⟨h, hz⟩, h1⟩
  · rw [if_neg hz]
    refine ⟨rfl, rfl, rfl, rfl, hcl, hvl, fun v hv => hv, ?_, fun h => absurd h hz⟩
    intro c
    simp only []
    constructor
    · intro h1; exact ⟨h1, fun h => hz h.2⟩
    · intro h; exact h.1

theorem p3fold_spec (S : Sys) (l : List Nat) (hl : ∀ c ∈ l, (S.cnst c).fatpipe = false) (hnd : l.Nodup) :
    ∀ s : FbSt, s.cl.Nodup → s.vl.Nodup → (∀ c ∈ l, ∀ e ∈ (S.cnst c).elems, 0 ≤ e.2 * s.mu e.1) → (∀ c ∈ l, 0 ≤ s.remaining c) →
      (l.foldl (p3step S 0) s).value = s.value ∧ (l.foldl (p3step S 0) s).mu = s.mu ∧
      (l.foldl (p3step S 0) s).usage = s.usage ∧
      (l.foldl (p3step S 0) s).cl.Nodup ∧ (l.foldl (p3step S 0) s).vl.Nodup ∧
      (∀ c, c ∉ l → (l.foldl (p3step S 0) s).remaining c = s.remaining c) ∧
      (∀ c ∈ l, (l.foldl (p3step S 0) s).remaining c = rem3 S s c) ∧
      (∀ c, c ∈ (l.foldl (p3step S 0) s).cl ↔ (c ∈ s.cl ∧ ¬ (c ∈ l ∧ rem3 S s c ≤ 0))) ∧
      (∀ v ∈ (l.foldl (p3step S 0) s).vl, v ∈ s.vl) ∧
      (∀ c ∈ l, rem3 S s c ≤ 0 → ∀ e ∈ (S.cnst c).elems, 0 < e.2 → e.1 ∉ (l.foldl (p3step S 0) s).vl) := by
  induction l with
  | nil => intro s h1 h2 _ _; simp [h1, h2]
  | cons a t ih =>
    intro s hcl hvl hmu hrem
    simp only [List.foldl_cons]
    have hat : a ∉ t := (List.nodup_cons.mp hnd).1
    have hndt : t.Nodup := (List.nodup_cons.mp hnd).2
    have hlt : ∀ c ∈ t, (S.cnst c).fatpipe = false := fun c hc => hl c (by simp [hc])
    obtain ⟨q1, q2, q3, q4, q5, q6, q7, q8, q9⟩ :=
      p3step_spec S s a (hl a (by simp)) (hmu a (by simp)) (hrem a (by simp)) hcl hvl
    generalize p3step S 0 s a = s1 at q1 q2 q3 q4 q5 q6 q7 q8 q9
    have hr1 : ∀ c, c ≠ a → s1.remaining c = s.remaining c := by
      intro c hca; rw [q4]; simp [upd, hca]
    have hr3 : ∀ c, c ≠ a → rem3 S s1 c = rem3 S s c := fun c hca => rem3_congr S s s1 c q2 (hr1 c hca)
    obtain ⟨i1, i2, i3, i4, i5, i6, i7, i8, i9, i10⟩ := ih hlt hndt s1 q5 q6
      (by intro c hc e he; rw [q2]; exact hmu c (by simp [hc]) e he)
      (by intro c hc
          have hca : c ≠ a := fun h => hat (h ▸ hc)
          rw [hr1 c hca]; exact hrem c (by simp [hc]))
    refine ⟨by rw [i1, q1], by rw [i2, q2], by rw [i3, q3], i4, i5, ?_, ?_, ?_, fun v hv => q7 v (i9 v hv), ?_⟩
    · intro c hc
      simp only [List.mem_cons, not_or] at hc
      rw [i6 c hc.2, hr1 c hc.1]
    · intro c hc
      simp only [List.mem_cons] at hc
      rcases hc with rfl | hc
      · rw [i6 c hat, q4]; simp
      · have hca : c ≠ a := fun h => hat (h ▸ hc)
        rw [i7 c hc, hr3 c hca]
    · intro c
      rw [i8 c, q8 c]
      simp only [List.mem_cons]
      constructor
      · rintro ⟨⟨h1, h2⟩, h3⟩
        refine ⟨h1, ?_⟩
        rintro ⟨h4 | h4, h5⟩
        · exact h2 ⟨h4, h4 ▸ h5⟩
        · have hca : c ≠ a := fun h => hat (h ▸ h4)
          exact h3 ⟨h4, by rw [hr3 c hca]; exact h5⟩
      · rintro ⟨h1, h2⟩
        refine ⟨⟨h1, fun h => h2 ⟨Or.inl h.1, h.1 ▸ h.2⟩⟩, fun h => ?_⟩
        have hca : c ≠ a := fun hh => hat (hh ▸ h.1)
        exact h2 ⟨Or.inr h.1, by rw [← hr3 c hca]; exact h.2⟩
    · intro c hc hzc e he hw
      simp only [List.mem_cons] at hc
      rcases hc with rfl | hc
      · intro h; exact q9 hzc e he hw (i9 _ h)
      · have hca : c ≠ a := fun h => hat (h ▸ hc)
        exact i10 c hc (by rw [hr3 c hca]; exact hzc) e he hw

end SgVerif.Lmm
