/-
Invariant of MaxMin::maxmin_solve at eps = 0 (used by C15/Props.lean and C16/Props.lean).

Ghost quantities of a summing (non-FATPIPE) constraint c, functions of (fixed, value) only:
  fixedLoad st c = Σ_{e ∈ elems c, var e fixed} w_e · value(var e)
  freeSum   st c = Σ_{e ∈ elems c, var e not fixed} w_e / penalty(var e)
While the elements `L` of a variable v (value x) are still to be processed by the loop over `var.cnsts_`:
  remaining c − x · pend L c = bound c − fixedLoad c      usage c − pend L c / penalty v = freeSum c
and for the current `min_usage` m:   m · freeSum c ≤ bound c − fixedLoad c.
-/
import Mathlib.Tactic.Linarith
import Mathlib.Tactic.Ring
import Mathlib.Tactic.FieldSimp
import Mathlib.Tactic.Positivity
import SgVerif.Lmm.Model

namespace SgVerif.Lmm

/-! ### elementary facts -/

@[simp] theorem upd_same {α : Type} (f : Nat → α) (i : Nat) (x : α) : upd f i x i = x := by simp [upd]
theorem upd_other {α : Type} (f : Nat → α) (i j : Nat) (x : α) (h : j ≠ i) : upd f i x j = f j := by simp [upd, h]

theorem dblPos_zero (x : Rat) : dblPos x 0 = true ↔ 0 < x := by simp [dblPos]
theorem dblUpdate_zero_of_le (x v : Rat) (h : v ≤ x) : dblUpdate x v 0 = x - v := by
  unfold dblUpdate; split
  · linarith
  · rfl
theorem dblEq_zero (a b : Rat) : dblEq a b 0 = true ↔ a = b := by
  unfold dblEq
  constructor
  · intro h
    simp only [Bool.or_eq_true, decide_eq_true_eq] at h
    rcases h with h | h
    · linarith [h.1, h.2]
    · exact h
  · intro h; simp [h]

/-! ### sums over element lists -/

def sumBy (f : Nat × Rat → Rat) : List (Nat × Rat) → Rat
  | [] => 0
  | e :: t => f e + sumBy f t

@[simp] theorem sumBy_nil (f : Nat × Rat → Rat) : sumBy f [] = 0 := rfl
@[simp] theorem sumBy_cons (f : Nat × Rat → Rat) (e) (t) : sumBy f (e :: t) = f e + sumBy f t := rfl

theorem sumBy_nonneg (f : Nat × Rat → Rat) (l : List (Nat × Rat)) (h : ∀ e ∈ l, 0 ≤ f e) : 0 ≤ sumBy f l := by
  induction l with
  | nil => simp
  | cons e t ih =>
    have h1 := h e (by simp)
    have h2 := ih (fun e he => h e (by simp [he]))
    simp; linarith

theorem sumBy_congr (f g : Nat × Rat → Rat) (l : List (Nat × Rat)) (h : ∀ e ∈ l, f e = g e) : sumBy f l = sumBy g l := by
  induction l with
  | nil => simp
  | cons e t ih =>
    simp [h e (by simp), ih (fun e he => h e (by simp [he]))]

/-- pointwise `f' = f + k·g` lifts to the sums -/
theorem sumBy_lin (f f' g : Nat × Rat → Rat) (k : Rat) (l : List (Nat × Rat))
    (h : ∀ e ∈ l, f' e = f e + k * g e) : sumBy f' l = sumBy f l + k * sumBy g l := by
  induction l with
  | nil => simp
  | cons e t ih =>
    simp [h e (by simp), ih (fun e he => h e (by simp [he]))]; ring

theorem sumBy_zero (f : Nat × Rat → Rat) (l : List (Nat × Rat)) (h : ∀ e ∈ l, f e = 0) : sumBy f l = 0 := by
  induction l with
  | nil => simp
  | cons e t ih => simp [h e (by simp), ih (fun e he => h e (by simp [he]))]

theorem sumBy_le_of_mem (f : Nat × Rat → Rat) (l : List (Nat × Rat)) (h : ∀ e ∈ l, 0 ≤ f e) (e) (he : e ∈ l) :
    f e ≤ sumBy f l := by
  induction l with
  | nil => simp at he
  | cons a t ih =>
    have ha := h a (by simp)
    have ht := sumBy_nonneg f t (fun e he => h e (by simp [he]))
    simp at he
    rcases he with rfl | he
    · simp; linarith
    · have := ih (fun e he => h e (by simp [he])) he
      simp; linarith

theorem foldl_add_eq (f : Nat × Rat → Rat) (l : List (Nat × Rat)) (a : Rat) :
    l.foldl (fun s e => s + f e) a = a + sumBy f l := by
  induction l generalizing a with
  | nil => simp
  | cons e t ih => simp [ih]; ring

/-- weight of variable `v` in constraint list / of constraint `c` in a variable's list -/
def wOf (i : Nat) (l : List (Nat × Rat)) : Rat := sumBy (fun e => if e.1 = i then e.2 else 0) l

theorem wOf_nonneg (i : Nat) (l : List (Nat × Rat)) (h : ∀ e ∈ l, 0 ≤ e.2) : 0 ≤ wOf i l := by
  apply sumBy_nonneg; intro e he; split
  · exact h e he
  · exact le_refl 0

@[simp] theorem wOf_nil (i : Nat) : wOf i [] = 0 := rfl
theorem wOf_cons (i : Nat) (e : Nat × Rat) (t) : wOf i (e :: t) = (if e.1 = i then e.2 else 0) + wOf i t := rfl


/-! ### well-formed systems -/

/-- What `System` guarantees when `solve()` is entered (and `dyn_constraint_cb_` is absent):
positive capacities, enabled elements belong to enabled variables, non-negative weights, and the two views of the
elements (per constraint / per variable) carry the same total weight for every (constraint, variable) pair. -/
structure WF (S : Sys) : Prop where
  act_nd : S.active.Nodup
  cb_pos : ∀ c ∈ S.active, 0 < (S.cnst c).bound
  el_pen : ∀ c ∈ S.active, ∀ e ∈ (S.cnst c).elems, 0 < (S.var e.1).penalty
  el_w : ∀ c ∈ S.active, ∀ e ∈ (S.cnst c).elems, 0 ≤ e.2
  vc_w : ∀ v, ∀ e ∈ (S.var v).cnsts, 0 ≤ e.2
  consist : ∀ c ∈ S.active, ∀ v, 0 < (S.var v).penalty → wOf v (S.cnst c).elems = wOf c (S.var v).cnsts

/-- Further facts `System` guarantees when `solve()` is entered, needed where the solver walks `variable_set` or a
variable's own element list (`FairBottleneck`, the water-filling reference): the variable of every enabled element is in
`variable_set`, and every enabled element is also in its variable's `cnsts_` (same constraint, same weight). -/
structure WFV (S : Sys) : Prop where
  vo_all : ∀ c ∈ S.active, ∀ e ∈ (S.cnst c).elems, e.1 ∈ S.vorder
  el_in_var : ∀ c ∈ S.active, ∀ e ∈ (S.cnst c).elems, (c, e.2) ∈ (S.var e.1).cnsts

/-! ### ghost quantities -/

def fixedLoad (S : Sys) (fixed : Nat → Bool) (value : Nat → Rat) (c : Nat) : Rat :=
  sumBy (fun e => if fixed e.1 then e.2 * value e.1 else 0) (S.cnst c).elems

def freeSum (S : Sys) (fixed : Nat → Bool) (c : Nat) : Rat :=
  sumBy (fun e => if fixed e.1 then 0 else e.2 / (S.var e.1).penalty) (S.cnst c).elems

theorem freeSum_nonneg (S : Sys) (hwf : WF S) (fixed : Nat → Bool) (c : Nat) (hc : c ∈ S.active) : 0 ≤ freeSum S fixed c := by
  apply sumBy_nonneg; intro e he; split
  · exact le_refl 0
  · exact div_nonneg (hwf.el_w c hc e he) (le_of_lt (hwf.el_pen c hc e he))

theorem fixedLoad_mark (S : Sys) (fixed : Nat → Bool) (value : Nat → Rat) (c v : Nat) (x : Rat) (hv : fixed v = false) :
    fixedLoad S (upd fixed v true) (upd value v x) c = fixedLoad S fixed value c + x * wOf v (S.cnst c).elems := by
  unfold fixedLoad wOf
  apply sumBy_lin
  intro e _
  by_cases h : e.1 = v
  · simp [h, hv]; ring
  · simp [upd, h]

theorem freeSum_mark (S : Sys) (fixed : Nat → Bool) (c v : Nat) (hv : fixed v = false) :
    freeSum S (upd fixed v true) c = freeSum S fixed c + (-(1 / (S.var v).penalty)) * wOf v (S.cnst c).elems := by
  unfold freeSum wOf
  apply sumBy_lin
  intro e _
  by_cases h : e.1 = v
  · simp [h, hv]; ring
  · simp [upd, h]

/-- the part of the invariant that only depends on (fixed, value) and the current min_usage `m` -/
structure InvG (S : Sys) (m : Rat) (fixed : Nat → Bool) (value : Nat → Rat) : Prop where
  val0 : ∀ c ∈ S.active, ∀ e ∈ (S.cnst c).elems, fixed e.1 = false → value e.1 = 0
  valpos : ∀ v, fixed v = true → 0 < value v
  valb : ∀ v, fixed v = true → 0 < (S.var v).bound → value v ≤ (S.var v).bound
  sh_H0 : ∀ c ∈ S.active, (S.cnst c).fatpipe = false → 0 ≤ (S.cnst c).bound - fixedLoad S fixed value c
  sh_B : ∀ c ∈ S.active, (S.cnst c).fatpipe = false → m * freeSum S fixed c ≤ (S.cnst c).bound - fixedLoad S fixed value c
  ft_feas : ∀ c ∈ S.active, (S.cnst c).fatpipe = true → ∀ e ∈ (S.cnst c).elems, fixed e.1 = true →
    e.2 * value e.1 ≤ (S.cnst c).bound

/-- bookkeeping part: `remaining_`, `usage_`; `L` = elements of the variable being fixed (value `x`,
`pinv = 1/penalty`) that the loop over `var.cnsts_` has not processed yet -/
structure InvK (S : Sys) (m : Rat) (st : St) (pinv x : Rat) (L : List (Nat × Rat)) : Prop where
  sh_rem : ∀ c ∈ S.active, (S.cnst c).fatpipe = false →
    st.remaining c - x * wOf c L = (S.cnst c).bound - fixedLoad S st.fixed st.value c
  sh_use : ∀ c ∈ S.active, (S.cnst c).fatpipe = false → st.usage c - pinv * wOf c L = freeSum S st.fixed c
  ft_rem : ∀ c ∈ S.active, (S.cnst c).fatpipe = true → st.remaining c = (S.cnst c).bound
  ft_use : ∀ c ∈ S.active, (S.cnst c).fatpipe = true → ∀ e ∈ (S.cnst c).elems, st.fixed e.1 = false → 0 < e.2 →
    e.2 / (S.var e.1).penalty ≤ st.usage c
  ft_nn : ∀ c ∈ S.active, (S.cnst c).fatpipe = true → 0 ≤ st.usage c
  ft_B : ∀ c ∈ S.active, (S.cnst c).fatpipe = true → m * st.usage c ≤ (S.cnst c).bound

/-- the light table: a constraint that left it has no unfixed consumer; a constraint in it has remaining_, usage_ > 0 -/
structure InvL (S : Sys) (st : St) : Prop where
  lt_sh : ∀ c ∈ S.active, c ∉ st.light → (S.cnst c).fatpipe = false → freeSum S st.fixed c = 0
  lt_ft : ∀ c ∈ S.active, c ∉ st.light → (S.cnst c).fatpipe = true → st.usage c = 0
  li_act : ∀ c ∈ st.light, c ∈ S.active
  li_pos : ∀ c ∈ st.light, 0 < st.remaining c ∧ 0 < st.usage c
  li_nd : st.light.Nodup

/-! ### the light table -/

theorem swapRemove_of_not_mem (l : List Nat) (c : Nat) (h : c ∉ l) : swapRemove l c = l := by simp [swapRemove, h]

theorem swapRemove_spec (l : List Nat) (c : Nat) (hnd : l.Nodup) :
    (swapRemove l c).Nodup ∧ c ∉ swapRemove l c ∧ (∀ x, x ∈ swapRemove l c ↔ (x ∈ l ∧ x ≠ c)) := by
  by_cases hc : c ∈ l
  · unfold swapRemove
    simp only [hc, if_true]
    cases hl : l.getLast? with
    | none =>
      have : l = [] := by simpa using hl
      subst this; simp at hc
    | some last =>
      obtain ⟨d, rfl⟩ := List.getLast?_eq_some_iff.mp hl
      have hd : d.Nodup := (List.nodup_append.mp hnd).1
      have hlast : last ∉ d := by
        intro h
        have := (List.nodup_append.mp hnd).2.2 last h last (by simp)
        exact this rfl
      simp only [List.dropLast_concat]
      by_cases hcl : c = last
      · subst hcl
        have hmap : d.map (fun x => if x = c then c else x) = d := by
          conv => rhs; rw [← List.map_id d]
          apply List.map_congr_left
          intro a _; split <;> simp_all
        rw [hmap]
        refine ⟨hd, hlast, ?_⟩
        intro x; constructor
        · intro hx; exact ⟨by simp [hx], fun h => hlast (h ▸ hx)⟩
        · rintro ⟨hx, hne⟩
          simp at hx; rcases hx with hx | hx
          · exact hx
          · exact absurd hx hne
      · have hcd : c ∈ d := by
          simp at hc; rcases hc with hc | hc
          · exact hc
          · exact absurd hc hcl
        refine ⟨?_, ?_, ?_⟩
        · apply List.Nodup.map_on _ hd
          intro x hx y hy hxy
          by_cases h1 : x = c <;> by_cases h2 : y = c <;> simp [h1, h2] at hxy
          · rw [h1, h2]
          · exact absurd (hxy ▸ hy) hlast
          · exact absurd (hxy ▸ hx) hlast
          · exact hxy
        · intro h
          simp only [List.mem_map] at h
          obtain ⟨x, _, hx2⟩ := h
          by_cases h1 : x = c
          · simp [h1] at hx2; exact hcl hx2.symm
          · simp [h1] at hx2
        · intro x; constructor
          · intro h
            simp only [List.mem_map] at h
            obtain ⟨y, hy, hy2⟩ := h
            by_cases h1 : y = c
            · simp [h1] at hy2; subst hy2; exact ⟨by simp, fun h => hcl h.symm⟩
            · simp [h1] at hy2; subst hy2; exact ⟨by simp [hy], h1⟩
          · rintro ⟨hx, hne⟩
            simp only [List.mem_map]
            simp at hx; rcases hx with hx | hx
            · exact ⟨x, hx, by simp [hne]⟩
            · exact ⟨c, hcd, by simp [hx]⟩
  · rw [swapRemove_of_not_mem l c hc]
    exact ⟨hnd, hc, fun x => ⟨fun h => ⟨h, fun e => hc (e ▸ h)⟩, fun h => h.1⟩⟩

/-! ### FATPIPE usage recomputation -/

theorem fatFold_spec (S : Sys) (value : Nat → Rat) (l : List (Nat × Rat)) (u0 : Rat) :
    let r := l.foldl (fun u e =>
      if 0 < value e.1 then u
      else if 0 < e.2 then (let x := e.2 / (S.var e.1).penalty; if u < x then x else u) else u) u0
    u0 ≤ r ∧ (∀ e ∈ l, ¬ 0 < value e.1 → 0 < e.2 → e.2 / (S.var e.1).penalty ≤ r) ∧
    (∀ U, u0 ≤ U → (∀ e ∈ l, ¬ 0 < value e.1 → 0 < e.2 → e.2 / (S.var e.1).penalty ≤ U) → r ≤ U) := by
  induction l generalizing u0 with
  | nil => simp
  | cons a t ih =>
    simp only [List.foldl_cons]
    set u1 := (if 0 < value a.1 then u0
      else if 0 < a.2 then (let x := a.2 / (S.var a.1).penalty; if u0 < x then x else u0) else u0) with hu1
    have h01 : u0 ≤ u1 := by
      rw [hu1]; split
      · exact le_refl _
      · split
        · simp only; split
          · linarith
          · exact le_refl _
        · exact le_refl _
    have ha : ¬ 0 < value a.1 → 0 < a.2 → a.2 / (S.var a.1).penalty ≤ u1 := by
      intro h1 h2; rw [hu1]; simp only [h1, h2, if_true, if_false]
      split
      · exact le_refl _
      · linarith
    have hU : ∀ U, u0 ≤ U → (¬ 0 < value a.1 → 0 < a.2 → a.2 / (S.var a.1).penalty ≤ U) → u1 ≤ U := by
      intro U h0 h1; rw [hu1]; split
      · exact h0
      · rename_i hv
        split
        · rename_i hw
          simp only; split
          · exact h1 hv hw
          · exact h0
        · exact h0
    obtain ⟨i1, i2, i3⟩ := ih u1
    refine ⟨le_trans h01 i1, ?_, ?_⟩
    · intro e he h1 h2
      simp at he; rcases he with rfl | he
      · exact le_trans (ha h1 h2) i1
      · exact i2 e he h1 h2
    · intro U h0 hall
      apply i3 U (hU U h0 (hall a (by simp)))
      intro e he; exact hall e (by simp [he])

theorem fatUsage_spec (S : Sys) (value : Nat → Rat) (c : Nat) :
    0 ≤ fatUsage S value c ∧
    (∀ e ∈ (S.cnst c).elems, ¬ 0 < value e.1 → 0 < e.2 → e.2 / (S.var e.1).penalty ≤ fatUsage S value c) ∧
    (∀ U, 0 ≤ U → (∀ e ∈ (S.cnst c).elems, ¬ 0 < value e.1 → 0 < e.2 → e.2 / (S.var e.1).penalty ≤ U) →
      fatUsage S value c ≤ U) := fatFold_spec S value (S.cnst c).elems 0


/-! ### one element of `var.cnsts_` -/

theorem updCnst_fixed (S : Sys) (eps : Rat) (v : Nat) (st : St) (e : Nat × Rat) :
    (updCnst S eps v st e).fixed = st.fixed ∧ (updCnst S eps v st e).value = st.value := by
  unfold updCnst; simp only []; split <;> split <;> simp

/-- removal of `c0` from the light table when its new usage_/remaining_ is not positive -/
theorem invL_step (S : Sys) (st st1 : St) (c0 : Nat) (hL : InvL S st)
    (hfix : st1.fixed = st.fixed) (hlight : st1.light = st.light)
    (hrem : ∀ c, c ≠ c0 → st1.remaining c = st.remaining c) (huse : ∀ c, c ≠ c0 → st1.usage c = st.usage c)
    (hdead : c0 ∈ S.active → (¬ 0 < st1.usage c0 ∨ ¬ 0 < st1.remaining c0) →
      (((S.cnst c0).fatpipe = false → freeSum S st1.fixed c0 = 0) ∧ ((S.cnst c0).fatpipe = true → st1.usage c0 = 0)))
    (hold : c0 ∈ S.active → c0 ∉ st.light → (S.cnst c0).fatpipe = true → st1.usage c0 = 0) (B : Rat) :
    InvL S (if (!(dblPos (st1.usage c0) 0) || !(dblPos (st1.remaining c0) (B * 0))) = true
            then { st1 with light := swapRemove st1.light c0 } else st1) := by
  have hsp := swapRemove_spec st.light c0 hL.li_nd
  split
  · rename_i hcond
    have hcond' : ¬ 0 < st1.usage c0 ∨ ¬ 0 < st1.remaining c0 := by
      simp only [Bool.or_eq_true, Bool.not_eq_true', dblPos, mul_zero, decide_eq_false_iff_not] at hcond
      exact hcond
    constructor
    · intro c hc hnl hf
      simp only [hlight] at hnl
      by_cases hcc : c = c0
      · subst hcc; exact (hdead hc hcond').1 hf
      · have : c ∉ st.light := fun h => hnl ((hsp.2.2 c).mpr ⟨h, hcc⟩)
        simp only [hfix]; exact hL.lt_sh c hc this hf
    · intro c hc hnl hf
      simp only [hlight] at hnl
      by_cases hcc : c = c0
      · subst hcc; exact (hdead hc hcond').2 hf
      · have : c ∉ st.light := fun h => hnl ((hsp.2.2 c).mpr ⟨h, hcc⟩)
        simp only []; rw [huse c hcc]; exact hL.lt_ft c hc this hf
    · intro c hc
      simp only [hlight] at hc
      exact hL.li_act c ((hsp.2.2 c).mp hc).1
    · intro c hc
      simp only [hlight] at hc
      have h2 := (hsp.2.2 c).mp hc
      simp only []; rw [hrem c h2.2, huse c h2.2]; exact hL.li_pos c h2.1
    · simp only [hlight]; exact hsp.1
  · rename_i hcond
    have hcond' : 0 < st1.usage c0 ∧ 0 < st1.remaining c0 := by
      simp only [Bool.or_eq_true, Bool.not_eq_true', dblPos, mul_zero, decide_eq_false_iff_not, not_or, not_not] at hcond
      exact hcond
    constructor
    · intro c hc hnl hf
      rw [hlight] at hnl; rw [hfix]; exact hL.lt_sh c hc hnl hf
    · intro c hc hnl hf
      rw [hlight] at hnl
      by_cases hcc : c = c0
      · subst hcc; exact hold hc hnl hf
      · rw [huse c hcc]; exact hL.lt_ft c hc hnl hf
    · intro c hc; rw [hlight] at hc; exact hL.li_act c hc
    · intro c hc
      rw [hlight] at hc
      by_cases hcc : c = c0
      · subst hcc; exact ⟨hcond'.2, hcond'.1⟩
      · rw [hrem c hcc, huse c hcc]; exact hL.li_pos c hc
    · rw [hlight]; exact hL.li_nd


theorem wOf_cons_ne (c c0 : Nat) (w : Rat) (L : List (Nat × Rat)) (h : c ≠ c0) : wOf c ((c0, w) :: L) = wOf c L := by
  rw [wOf_cons]; simp [Ne.symm h]
theorem wOf_cons_eq (c0 : Nat) (w : Rat) (L : List (Nat × Rat)) : wOf c0 ((c0, w) :: L) = w + wOf c0 L := by
  rw [wOf_cons]; simp

theorem updCnst_inv (S : Sys) (hwf : WF S) (m : Rat) (hm : 0 < m) (st : St) (v : Nat) (x pinv : Rat) (c0 : Nat) (w : Rat)
    (L : List (Nat × Rat))
    (hG : InvG S m st.fixed st.value) (hK : InvK S m st pinv x ((c0, w) :: L)) (hL : InvL S st)
    (hx : st.value v = x) (hp : pinv = 1 / (S.var v).penalty) (hx0 : 0 ≤ x) (hpi : 0 ≤ pinv) (hw : 0 ≤ w)
    (hLw : ∀ e ∈ L, 0 ≤ e.2) :
    InvK S m (updCnst S 0 v st (c0, w)) pinv x L ∧ InvL S (updCnst S 0 v st (c0, w)) := by
  have hwL : 0 ≤ wOf c0 L := wOf_nonneg c0 L hLw
  unfold updCnst
  simp only []
  by_cases hf : (S.cnst c0).fatpipe = true
  · -- FATPIPE: usage_ recomputed over the elements whose variable has value_ <= 0
    simp only [hf, Bool.not_true, Bool.false_eq_true, if_false]
    obtain ⟨f1, f2, f3⟩ := fatUsage_spec S st.value c0
    have hle : c0 ∈ S.active → fatUsage S st.value c0 ≤ st.usage c0 := by
      intro hc
      apply f3 _ (hK.ft_nn c0 hc hf)
      intro e he hv hw0
      apply hK.ft_use c0 hc hf e he _ hw0
      cases hfx : st.fixed e.1 with
      | false => rfl
      | true => exact absurd (hG.valpos e.1 hfx) hv
    constructor
    · -- InvK: the light table does not appear in it
      have key : InvK S m { st with usage := upd st.usage c0 (fatUsage S st.value c0) } pinv x L := by
        constructor
        · intro c hc hfc
          have hne : c ≠ c0 := fun h => by rw [h] at hfc; rw [hf] at hfc; exact absurd hfc (by simp)
          have := hK.sh_rem c hc hfc
          rw [wOf_cons_ne c c0 w L hne] at this; exact this
        · intro c hc hfc
          have hne : c ≠ c0 := fun h => by rw [h] at hfc; rw [hf] at hfc; exact absurd hfc (by simp)
          have := hK.sh_use c hc hfc
          rw [wOf_cons_ne c c0 w L hne] at this
          simp only [upd, hne, if_false]; exact this
        · intro c hc hfc; exact hK.ft_rem c hc hfc
        · intro c hc hfc e he hfx hw0
          by_cases hcc : c = c0
          · subst hcc
            simp only [upd_same]
            apply f2 e he _ hw0
            have := hG.val0 c hc e he hfx
            linarith
          · simp only [upd, hcc, if_false]; exact hK.ft_use c hc hfc e he hfx hw0
        · intro c hc hfc
          by_cases hcc : c = c0
          · subst hcc; simp only [upd_same]; exact f1
          · simp only [upd, hcc, if_false]; exact hK.ft_nn c hc hfc
        · intro c hc hfc
          by_cases hcc : c = c0
          · subst hcc; simp only [upd_same]
            have h1 := hK.ft_B c hc hfc
            have h2 := hle hc
            nlinarith
          · simp only [upd, hcc, if_false]; exact hK.ft_B c hc hfc
      split
      · exact ⟨key.sh_rem, key.sh_use, key.ft_rem, key.ft_use, key.ft_nn, key.ft_B⟩
      · exact key
    · apply invL_step S st { st with usage := upd st.usage c0 (fatUsage S st.value c0) } c0 hL rfl rfl
      · intro c _; rfl
      · intro c hc; simp only [upd, hc, if_false]
      · intro hc hcond
        refine ⟨fun h => absurd hf (by simp [h]), fun _ => ?_⟩
        simp only [upd_same] at hcond ⊢
        rcases hcond with h | h
        · linarith
        · have := hK.ft_rem c0 hc hf
          have := hwf.cb_pos c0 hc
          linarith
      · intro hc hnl _
        simp only [upd_same]
        have := hL.lt_ft c0 hc hnl hf
        have := hle hc
        linarith
  · -- summing constraint: remaining_ -= w * value, usage_ -= w / penalty
    have hf' : (S.cnst c0).fatpipe = false := by simpa using hf
    simp only [hf', Bool.not_false, if_true, mul_zero]
    by_cases hc : c0 ∈ S.active
    · have hr := hK.sh_rem c0 hc hf'
      have hu := hK.sh_use c0 hc hf'
      rw [wOf_cons_eq] at hr hu
      have hH0 := hG.sh_H0 c0 hc hf'
      have hB := hG.sh_B c0 hc hf'
      have hfs := freeSum_nonneg S hwf st.fixed c0 hc
      have hr1 : w * st.value v ≤ st.remaining c0 := by rw [hx]; nlinarith
      have hu1 : w / (S.var v).penalty ≤ st.usage c0 := by
        have : w / (S.var v).penalty = pinv * w := by rw [hp]; ring
        rw [this]; nlinarith
      rw [dblUpdate_zero_of_le _ _ hr1, dblUpdate_zero_of_le _ _ hu1]
      have hwp : w / (S.var v).penalty = pinv * w := by rw [hp]; ring
      constructor
      · have key : InvK S m { st with remaining := upd st.remaining c0 (st.remaining c0 - w * st.value v),
                                       usage := upd st.usage c0 (st.usage c0 - w / (S.var v).penalty) } pinv x L := by
          constructor
          · intro c hcc hfc
            by_cases hcc0 : c = c0
            · subst hcc0; simp only [upd_same]; rw [hx]; linarith
            · have := hK.sh_rem c hcc hfc
              rw [wOf_cons_ne c c0 w L hcc0] at this
              simp only [upd, hcc0, if_false]; exact this
          · intro c hcc hfc
            by_cases hcc0 : c = c0
            · subst hcc0; simp only [upd_same]; rw [hwp]; linarith
            · have := hK.sh_use c hcc hfc
              rw [wOf_cons_ne c c0 w L hcc0] at this
              simp only [upd, hcc0, if_false]; exact this
          · intro c hcc hfc
            have hne : c ≠ c0 := fun h => by rw [h] at hfc; rw [hf'] at hfc; exact absurd hfc (by simp)
            simp only [upd, hne, if_false]; exact hK.ft_rem c hcc hfc
          · intro c hcc hfc e he hfx hw0
            have hne : c ≠ c0 := fun h => by rw [h] at hfc; rw [hf'] at hfc; exact absurd hfc (by simp)
            simp only [upd, hne, if_false]; exact hK.ft_use c hcc hfc e he hfx hw0
          · intro c hcc hfc
            have hne : c ≠ c0 := fun h => by rw [h] at hfc; rw [hf'] at hfc; exact absurd hfc (by simp)
            simp only [upd, hne, if_false]; exact hK.ft_nn c hcc hfc
          · intro c hcc hfc
            have hne : c ≠ c0 := fun h => by rw [h] at hfc; rw [hf'] at hfc; exact absurd hfc (by simp)
            simp only [upd, hne, if_false]; exact hK.ft_B c hcc hfc
        split
        · exact ⟨key.sh_rem, key.sh_use, key.ft_rem, key.ft_use, key.ft_nn, key.ft_B⟩
        · exact key
      · have := invL_step S st { st with remaining := upd st.remaining c0 (st.remaining c0 - w * st.value v), usage := upd st.usage c0 (st.usage c0 - w / (S.var v).penalty) } c0 hL rfl rfl
          (by intro c hc; simp only [upd, hc, if_false]) (by intro c hc; simp only [upd, hc, if_false])
          (by
            intro _ hcond
            refine ⟨fun _ => ?_, fun h => absurd hf' (by simp [h])⟩
            simp only [upd_same] at hcond
            have hxw : 0 ≤ x * wOf c0 L := mul_nonneg hx0 hwL
            have hpw : 0 ≤ pinv * wOf c0 L := mul_nonneg hpi hwL
            rcases hcond with h | h
            · rw [hwp] at h; linarith
            · rw [hx] at h
              have : m * freeSum S st.fixed c0 ≤ 0 := by linarith
              have : freeSum S st.fixed c0 ≤ 0 := by
                by_contra hh
                have : 0 < m * freeSum S st.fixed c0 := mul_pos hm (by linarith)
                linarith
              linarith)
          (by intro _ _ h; exact absurd hf' (by simp [h])) 0
        simpa using this
    · -- a constraint outside the active set: nothing the invariant speaks about changes
      have hnl : c0 ∉ st.light := fun h => hc (hL.li_act c0 h)
      have hne : ∀ c ∈ S.active, c ≠ c0 := fun c hcc h => hc (h ▸ hcc)
      constructor
      · have key : ∀ (r u : Rat), InvK S m { st with remaining := upd st.remaining c0 r, usage := upd st.usage c0 u } pinv x L := by
          intro r u
          constructor
          · intro c hcc hfc
            have := hK.sh_rem c hcc hfc
            rw [wOf_cons_ne c c0 w L (hne c hcc)] at this
            simp only [upd, hne c hcc, if_false]; exact this
          · intro c hcc hfc
            have := hK.sh_use c hcc hfc
            rw [wOf_cons_ne c c0 w L (hne c hcc)] at this
            simp only [upd, hne c hcc, if_false]; exact this
          · intro c hcc hfc; simp only [upd, hne c hcc, if_false]; exact hK.ft_rem c hcc hfc
          · intro c hcc hfc e he hfx hw0; simp only [upd, hne c hcc, if_false]; exact hK.ft_use c hcc hfc e he hfx hw0
          · intro c hcc hfc; simp only [upd, hne c hcc, if_false]; exact hK.ft_nn c hcc hfc
          · intro c hcc hfc; simp only [upd, hne c hcc, if_false]; exact hK.ft_B c hcc hfc
        split
        · have k := key (dblUpdate (st.remaining c0) (w * st.value v) 0) (dblUpdate (st.usage c0) (w / (S.var v).penalty) 0)
          exact ⟨k.sh_rem, k.sh_use, k.ft_rem, k.ft_use, k.ft_nn, k.ft_B⟩
        · exact key _ _
      · have := invL_step S st { st with remaining := upd st.remaining c0 (dblUpdate (st.remaining c0) (w * st.value v) 0), usage := upd st.usage c0 (dblUpdate (st.usage c0) (w / (S.var v).penalty) 0) } c0 hL rfl rfl
          (by intro c hc; simp only [upd, hc, if_false]) (by intro c hc; simp only [upd, hc, if_false])
          (by intro h; exact absurd h hc) (by intro h; exact absurd h hc) 0
        simpa using this


/-! ### fixing one variable -/

theorem foldCnst_inv (S : Sys) (hwf : WF S) (m : Rat) (hm : 0 < m) (v : Nat) (x pinv : Rat)
    (hp : pinv = 1 / (S.var v).penalty) (hx0 : 0 ≤ x) (hpi : 0 ≤ pinv) (L : List (Nat × Rat)) :
    ∀ st : St, InvG S m st.fixed st.value → InvK S m st pinv x L → InvL S st → st.value v = x → (∀ e ∈ L, 0 ≤ e.2) →
      InvK S m (L.foldl (updCnst S 0 v) st) pinv x [] ∧ InvL S (L.foldl (updCnst S 0 v) st) ∧
      (L.foldl (updCnst S 0 v) st).fixed = st.fixed ∧ (L.foldl (updCnst S 0 v) st).value = st.value := by
  induction L with
  | nil => intro st _ hK hL _ _; exact ⟨hK, hL, rfl, rfl⟩
  | cons e t ih =>
    intro st hG hK hL hx hw
    obtain ⟨c0, w⟩ := e
    simp only [List.foldl_cons]
    have h1 := updCnst_inv S hwf m hm st v x pinv c0 w t hG hK hL hx hp hx0 hpi (hw (c0, w) (by simp))
      (fun e he => hw e (by simp [he]))
    have h2 := updCnst_fixed S 0 v st (c0, w)
    have hG' : InvG S m (updCnst S 0 v st (c0, w)).fixed (updCnst S 0 v st (c0, w)).value := by rw [h2.1, h2.2]; exact hG
    have := ih (updCnst S 0 v st (c0, w)) hG' h1.1 h1.2 (by rw [h2.2]; exact hx) (fun e he => hw e (by simp [he]))
    refine ⟨this.1, this.2.1, ?_, ?_⟩
    · rw [this.2.2.1, h2.1]
    · rw [this.2.2.2, h2.2]

theorem invK_nil (S : Sys) (m : Rat) (st : St) (p x p' x' : Rat) (h : InvK S m st p x []) : InvK S m st p' x' [] := by
  have h1 := h.sh_rem; have h2 := h.sh_use
  simp only [wOf_nil, mul_zero, sub_zero] at h1 h2
  exact ⟨by simpa using h1, by simpa using h2, h.ft_rem, h.ft_use, h.ft_nn, h.ft_B⟩

theorem fixVar_inv (S : Sys) (hwf : WF S) (m : Rat) (hm : 0 < m) (st : St) (v : Nat) (x : Rat)
    (hG : InvG S m st.fixed st.value) (hK : InvK S m st 0 0 []) (hL : InvL S st)
    (hv : st.fixed v = false) (hpv : 0 < (S.var v).penalty) (hx : 0 < x) (hxm : x * (S.var v).penalty ≤ m)
    (hxb : 0 < (S.var v).bound → x ≤ (S.var v).bound) :
    InvG S m (fixVar S 0 st v x).fixed (fixVar S 0 st v x).value ∧ InvK S m (fixVar S 0 st v x) 0 0 [] ∧
    InvL S (fixVar S 0 st v x) ∧ (fixVar S 0 st v x).fixed = upd st.fixed v true ∧
    (fixVar S 0 st v x).value = upd st.value v x := by
  have hK0 := hK.sh_rem; have hK1 := hK.sh_use
  simp only [wOf_nil, mul_zero, sub_zero] at hK0 hK1
  have hxp : x ≤ m * (1 / (S.var v).penalty) := by
    rw [mul_one_div, le_div_iff₀ hpv]; exact hxm
  have hpinv : 0 ≤ 1 / (S.var v).penalty := by positivity
  -- the state once `var.value_ = x` is done and `v` is counted as fixed
  have hG1 : InvG S m (upd st.fixed v true) (upd st.value v x) := by
    have hBnew : ∀ c ∈ S.active, (S.cnst c).fatpipe = false →
        m * freeSum S (upd st.fixed v true) c ≤ (S.cnst c).bound - fixedLoad S (upd st.fixed v true) (upd st.value v x) c := by
      intro c hc hf
      rw [fixedLoad_mark S st.fixed st.value c v x hv, freeSum_mark S st.fixed c v hv]
      have hW := wOf_nonneg v (S.cnst c).elems (hwf.el_w c hc)
      have := hG.sh_B c hc hf
      nlinarith
    constructor
    · intro c hc e he hfx
      have hne : e.1 ≠ v := fun h => by simp [upd, h] at hfx
      simp only [upd, hne, if_false] at hfx ⊢
      exact hG.val0 c hc e he hfx
    · intro u hu
      by_cases h : u = v
      · subst h; simpa using hx
      · simp only [upd, h, if_false] at hu ⊢; exact hG.valpos u hu
    · intro u hu hb
      by_cases h : u = v
      · subst h; simpa using hxb hb
      · simp only [upd, h, if_false] at hu ⊢; exact hG.valb u hu hb
    · intro c hc hf
      have h1 := hBnew c hc hf
      have h2 := freeSum_nonneg S hwf (upd st.fixed v true) c hc
      nlinarith
    · exact hBnew
    · intro c hc hf e he hfx
      by_cases h : e.1 = v
      · simp only [upd, h, if_true]
        have hw := hwf.el_w c hc e he
        rcases lt_or_eq_of_le hw with hw0 | hw0
        · have h1 := hK.ft_use c hc hf e he (by rw [h]; exact hv) hw0
          have h2 := hK.ft_B c hc hf
          rw [h] at h1
          have h3 : e.2 * x ≤ m * (e.2 / (S.var v).penalty) := by
            have : m * (e.2 / (S.var v).penalty) = e.2 * (m * (1 / (S.var v).penalty)) := by ring
            rw [this]; exact mul_le_mul_of_nonneg_left hxp hw
          have h4 : m * (e.2 / (S.var v).penalty) ≤ m * st.usage c := mul_le_mul_of_nonneg_left h1 (le_of_lt hm)
          linarith
        · rw [← hw0]; simp; exact le_of_lt (hwf.cb_pos c hc)
      · simp only [upd, h, if_false] at hfx ⊢; exact hG.ft_feas c hc hf e he hfx
  have hK1' : InvK S m { st with value := upd st.value v x, fixed := upd st.fixed v true } (1 / (S.var v).penalty) x (S.var v).cnsts := by
    constructor
    · intro c hc hf
      simp only []
      rw [fixedLoad_mark S st.fixed st.value c v x hv, hwf.consist c hc v hpv, hK0 c hc hf]; ring
    · intro c hc hf
      simp only []
      rw [freeSum_mark S st.fixed c v hv, hwf.consist c hc v hpv, hK1 c hc hf]; ring
    · exact hK.ft_rem
    · intro c hc hf e he hfx hw0
      have hne : e.1 ≠ v := fun h => by simp [upd, h] at hfx
      simp only [upd, hne, if_false] at hfx
      exact hK.ft_use c hc hf e he hfx hw0
    · exact hK.ft_nn
    · exact hK.ft_B
  have hL1 : InvL S { st with value := upd st.value v x, fixed := upd st.fixed v true } := by
    constructor
    · intro c hc hnl hf
      simp only []
      have h0 := hL.lt_sh c hc hnl hf
      have h1 := freeSum_nonneg S hwf (upd st.fixed v true) c hc
      rw [freeSum_mark S st.fixed c v hv] at h1 ⊢
      have hW := wOf_nonneg v (S.cnst c).elems (hwf.el_w c hc)
      have : 0 ≤ 1 / (S.var v).penalty * wOf v (S.cnst c).elems := mul_nonneg hpinv hW
      linarith
    · exact hL.lt_ft
    · exact hL.li_act
    · exact hL.li_pos
    · exact hL.li_nd
  have := foldCnst_inv S hwf m hm v x (1 / (S.var v).penalty) rfl (le_of_lt hx) hpinv (S.var v).cnsts
    { st with value := upd st.value v x, fixed := upd st.fixed v true } hG1 hK1' hL1 (by simp) (hwf.vc_w v)
  unfold fixVar
  refine ⟨?_, invK_nil S m _ _ _ 0 0 this.1, this.2.1, this.2.2.1, this.2.2.2⟩
  rw [this.2.2.1, this.2.2.2]; exact hG1


/-! ### the round: min_bound, the while loop over the saturated variables -/

theorem minBound_spec (S : Sys) (m : Rat) (sv : List Nat) (hp : ∀ v ∈ sv, 0 < (S.var v).penalty) :
    (minBound S m sv < 0 → ∀ v ∈ sv, ¬ (0 < (S.var v).bound ∧ (S.var v).bound * (S.var v).penalty < m)) ∧
    (¬ minBound S m sv < 0 → 0 < minBound S m sv ∧ minBound S m sv < m) := by
  unfold minBound
  have gen : ∀ (l : List Nat) (a : Rat), (∀ v ∈ l, 0 < (S.var v).penalty) → (a = -1 ∨ (0 < a ∧ a < m)) →
      let r := l.foldl (fun mb v =>
        if 0 < (S.var v).bound ∧ (S.var v).bound * (S.var v).penalty < m then
          (if mb < 0 then (S.var v).bound * (S.var v).penalty
           else (if (S.var v).bound * (S.var v).penalty < mb then (S.var v).bound * (S.var v).penalty else mb))
        else mb) a
      (r = -1 ∨ (0 < r ∧ r < m)) ∧
      (r < 0 → a < 0 ∧ ∀ v ∈ l, ¬ (0 < (S.var v).bound ∧ (S.var v).bound * (S.var v).penalty < m)) := by
    intro l
    induction l with
    | nil => intro a _ ha; exact ⟨ha, fun h => ⟨h, by simp⟩⟩
    | cons v t ih =>
      intro a hpl ha
      simp only [List.foldl_cons]
      have hpv := hpl v (by simp)
      by_cases hc : 0 < (S.var v).bound ∧ (S.var v).bound * (S.var v).penalty < m
      · simp only [hc, and_self, if_true]
        have hpos : 0 < (S.var v).bound * (S.var v).penalty := mul_pos hc.1 hpv
        have ha' : (let a' := (if a < 0 then (S.var v).bound * (S.var v).penalty
            else (if (S.var v).bound * (S.var v).penalty < a then (S.var v).bound * (S.var v).penalty else a));
            0 < a' ∧ a' < m) := by
          simp only []
          split
          · exact ⟨hpos, hc.2⟩
          · split
            · exact ⟨hpos, hc.2⟩
            · rcases ha with h | h
              · rename_i h1 _; exact absurd (by rw [h]; norm_num) h1
              · exact h
        have := ih _ (fun u hu => hpl u (by simp [hu])) (Or.inr ha')
        refine ⟨this.1, fun hr => ?_⟩
        have := (this.2 hr).1
        simp only [] at ha'
        linarith [ha'.1]
      · simp only [hc, if_false]
        have := ih a (fun u hu => hpl u (by simp [hu])) ha
        refine ⟨this.1, fun hr => ⟨(this.2 hr).1, ?_⟩⟩
        intro u hu
        simp at hu
        rcases hu with rfl | hu
        · exact hc
        · exact (this.2 hr).2 u hu
  have := gen sv (-1) hp (Or.inl rfl)
  simp only [] at this
  constructor
  · intro h; exact (this.2 h).2
  · intro h
    rcases this.1 with h1 | h1
    · exact absurd (by rw [h1]; norm_num) h
    · exact h1

theorem fixLoop_neg (S : Sys) (eps mb mu : Rat) (st : St) (v : Nat) (rest : List Nat) (h : mb < 0) :
    fixLoop S eps mb mu st (v :: rest) = fixLoop S eps mb mu (fixVar S eps st v (mu / (S.var v).penalty)) rest := by
  rw [fixLoop]; simp only [h, if_true]
theorem fixLoop_eq (S : Sys) (eps mb mu : Rat) (st : St) (v : Nat) (rest : List Nat) (h : ¬ mb < 0)
    (h2 : 0 < (S.var v).bound ∧ dblEq mb ((S.var v).bound * (S.var v).penalty) eps = true) :
    fixLoop S eps mb mu st (v :: rest) = fixLoop S eps mb mu (fixVar S eps st v (S.var v).bound) rest := by
  rw [fixLoop]; simp only [h, if_false, h2.1, h2.2, decide_true, Bool.and_self, if_true]
theorem fixLoop_skip (S : Sys) (eps mb mu : Rat) (st : St) (v : Nat) (rest : List Nat) (h : ¬ mb < 0)
    (h2 : ¬ (0 < (S.var v).bound ∧ dblEq mb ((S.var v).bound * (S.var v).penalty) eps = true)) :
    fixLoop S eps mb mu st (v :: rest) = fixLoop S eps mb mu st rest := by
  rw [fixLoop]
  have h3 : (decide (0 < (S.var v).bound) && dblEq mb ((S.var v).bound * (S.var v).penalty) eps) = false := by
    cases hd : dblEq mb ((S.var v).bound * (S.var v).penalty) eps
    · simp
    · by_cases hb : 0 < (S.var v).bound
      · exact absurd ⟨hb, hd⟩ h2
      · simp [hb]
  simp only [h, if_false, h3, Bool.false_eq_true]

theorem fixLoop_inv (S : Sys) (hwf : WF S) (m mb : Rat) (hm : 0 < m) (sv : List Nat) :
    ∀ st : St, InvG S m st.fixed st.value → InvK S m st 0 0 [] → InvL S st →
      (∀ v ∈ sv, st.fixed v = false ∧ 0 < (S.var v).penalty) → sv.Nodup →
      (mb < 0 → ∀ v ∈ sv, 0 < (S.var v).bound → m ≤ (S.var v).bound * (S.var v).penalty) →
      (¬ mb < 0 → 0 < mb ∧ mb < m) →
      InvG S m (fixLoop S 0 mb m st sv).fixed (fixLoop S 0 mb m st sv).value ∧
      InvK S m (fixLoop S 0 mb m st sv) 0 0 [] ∧ InvL S (fixLoop S 0 mb m st sv) ∧
      (∀ u, u ∉ sv → (fixLoop S 0 mb m st sv).fixed u = st.fixed u ∧ (fixLoop S 0 mb m st sv).value u = st.value u) ∧
      (∀ u, st.fixed u = true → (fixLoop S 0 mb m st sv).fixed u = true ∧ (fixLoop S 0 mb m st sv).value u = st.value u) ∧
      (∀ u ∈ sv, (mb < 0 ∨ mb = (S.var u).bound * (S.var u).penalty) →
         (fixLoop S 0 mb m st sv).fixed u = true ∧
         (fixLoop S 0 mb m st sv).value u = (if mb < 0 then m / (S.var u).penalty else (S.var u).bound)) := by
  induction sv with
  | nil => intro st hG hK hL _ _ _ _; exact ⟨hG, hK, hL, fun u _ => ⟨rfl, rfl⟩, fun u h => ⟨h, rfl⟩, by simp⟩
  | cons v rest ih =>
    intro st hG hK hL hsv hnd hmb1 hmb2
    have hv := hsv v (by simp)
    have hnd' : rest.Nodup := (List.nodup_cons.mp hnd).2
    have hvr : v ∉ rest := (List.nodup_cons.mp hnd).1
    -- common continuation once `v` is fixed at `x`
    have step : ∀ x : Rat, 0 < x → x * (S.var v).penalty ≤ m → (0 < (S.var v).bound → x ≤ (S.var v).bound) →
        let st1 := fixVar S 0 st v x
        InvG S m (fixLoop S 0 mb m st1 rest).fixed (fixLoop S 0 mb m st1 rest).value ∧
        InvK S m (fixLoop S 0 mb m st1 rest) 0 0 [] ∧ InvL S (fixLoop S 0 mb m st1 rest) ∧
        (∀ u, u ∉ v :: rest → (fixLoop S 0 mb m st1 rest).fixed u = st.fixed u ∧ (fixLoop S 0 mb m st1 rest).value u = st.value u) ∧
        (∀ u, st.fixed u = true → (fixLoop S 0 mb m st1 rest).fixed u = true ∧ (fixLoop S 0 mb m st1 rest).value u = st.value u) ∧
        ((fixLoop S 0 mb m st1 rest).fixed v = true ∧ (fixLoop S 0 mb m st1 rest).value v = x) ∧
        (∀ u ∈ rest, (mb < 0 ∨ mb = (S.var u).bound * (S.var u).penalty) →
          (fixLoop S 0 mb m st1 rest).fixed u = true ∧
          (fixLoop S 0 mb m st1 rest).value u = (if mb < 0 then m / (S.var u).penalty else (S.var u).bound)) := by
      intro x hx hxm hxb
      have h1 := fixVar_inv S hwf m hm st v x hG hK hL hv.1 hv.2 hx hxm hxb
      simp only []
      have hsv' : ∀ u ∈ rest, (fixVar S 0 st v x).fixed u = false ∧ 0 < (S.var u).penalty := by
        intro u hu
        have hne : u ≠ v := fun h => hvr (h ▸ hu)
        rw [h1.2.2.2.1]; simp only [upd, hne, if_false]; exact hsv u (by simp [hu])
      have h2 := ih (fixVar S 0 st v x) h1.1 h1.2.1 h1.2.2.1 hsv' hnd'
        (fun h u hu => hmb1 h u (by simp [hu])) hmb2
      have hvfix : (fixVar S 0 st v x).fixed v = true := by rw [h1.2.2.2.1]; simp
      refine ⟨h2.1, h2.2.1, h2.2.2.1, ?_, ?_, ?_, h2.2.2.2.2.2⟩
      · intro u hu
        simp at hu
        have := h2.2.2.2.1 u hu.2
        rw [this.1, this.2, h1.2.2.2.1, h1.2.2.2.2]
        simp only [upd, hu.1, if_false, and_self]
      · intro u hu
        have hne : u ≠ v := fun h => by rw [h, hv.1] at hu; exact absurd hu (by simp)
        have hf1 : (fixVar S 0 st v x).fixed u = true := by rw [h1.2.2.2.1]; simp only [upd, hne, if_false]; exact hu
        have := h2.2.2.2.2.1 u hf1
        rw [this.1, this.2, h1.2.2.2.2]; simp only [upd, hne, if_false, and_self]
      · have := h2.2.2.2.2.1 v hvfix
        rw [this.1, this.2, h1.2.2.2.2]; simp
    have hpv := hv.2
    by_cases hmb : mb < 0
    · rw [fixLoop_neg S 0 mb m st v rest hmb]
      have hx : 0 < m / (S.var v).penalty := div_pos hm hpv
      have hxm : m / (S.var v).penalty * (S.var v).penalty ≤ m := by rw [div_mul_cancel₀ _ (ne_of_gt hpv)]
      have hxb : 0 < (S.var v).bound → m / (S.var v).penalty ≤ (S.var v).bound := by
        intro hb; rw [div_le_iff₀ hpv]; exact hmb1 hmb v (by simp) hb
      have := step _ hx hxm hxb
      simp only [] at this
      refine ⟨this.1, this.2.1, this.2.2.1, this.2.2.2.1, this.2.2.2.2.1, ?_⟩
      intro u hu hcond
      simp at hu
      rcases hu with rfl | hu
      · simp only [hmb, if_true]; exact this.2.2.2.2.2.1
      · exact this.2.2.2.2.2.2 u hu hcond
    · have hmbp := hmb2 hmb
      by_cases hc : 0 < (S.var v).bound ∧ dblEq mb ((S.var v).bound * (S.var v).penalty) 0 = true
      · rw [fixLoop_eq S 0 mb m st v rest hmb hc]
        have heq := hc.2
        have heq' := (dblEq_zero _ _).mp heq
        have hb : 0 < (S.var v).bound := hc.1
        have := step (S.var v).bound hb (by linarith [hmbp.2]) (fun _ => le_refl _)
        simp only [] at this
        refine ⟨this.1, this.2.1, this.2.2.1, this.2.2.2.1, this.2.2.2.2.1, ?_⟩
        intro u hu hcond
        simp at hu
        rcases hu with rfl | hu
        · simp only [hmb, if_false]; exact this.2.2.2.2.2.1
        · exact this.2.2.2.2.2.2 u hu hcond
      · rw [fixLoop_skip S 0 mb m st v rest hmb hc]
        have hne : mb ≠ (S.var v).bound * (S.var v).penalty := by
          intro h
          apply hc
          refine ⟨?_, (dblEq_zero _ _).mpr h⟩
          by_contra hb0
          have : (S.var v).bound * (S.var v).penalty ≤ 0 := mul_nonpos_of_nonpos_of_nonneg (by linarith) (le_of_lt hpv)
          linarith [hmbp.1]
        have h2 := ih st hG hK hL (fun u hu => hsv u (by simp [hu])) hnd'
          (fun h u hu => hmb1 h u (by simp [hu])) hmb2
        refine ⟨h2.1, h2.2.1, h2.2.2.1, ?_, h2.2.2.2.2.1, ?_⟩
        · intro u hu
          simp at hu
          exact h2.2.2.2.1 u hu.2
        · intro u hu hcond
          simp at hu
          rcases hu with rfl | hu
          · rcases hcond with h | h
            · exact absurd h hmb
            · exact absurd h hne
          · exact h2.2.2.2.2.2 u hu hcond


/-! ### selection of the saturated constraints (min_usage) -/

/-- state of `min_usage` / `saturated_constraints` after the constraints `done` went through
`saturated_constraints_update` with `remaining_over_usage = rem c / use c` -/
def SelQ (rem use : Nat → Rat) (done : List Nat) (mu : Rat) (sat : List Nat) : Prop :=
  (done = [] ∧ mu = -1 ∧ sat = []) ∨
  (done ≠ [] ∧ 0 < mu ∧ (∀ c ∈ done, mu * use c ≤ rem c) ∧ (∀ c ∈ sat, c ∈ done ∧ mu * use c = rem c) ∧ sat ≠ [])

theorem satCnstUpdate_other (rou : Rat) (c : Nat) (st : St) :
    (satCnstUpdate rou c st).value = st.value ∧ (satCnstUpdate rou c st).fixed = st.fixed ∧
    (satCnstUpdate rou c st).remaining = st.remaining ∧ (satCnstUpdate rou c st).usage = st.usage ∧
    (satCnstUpdate rou c st).light = st.light := by
  unfold satCnstUpdate; split
  · simp
  · split <;> simp

theorem satCnstUpdate_Q (rem use : Nat → Rat) (done : List Nat) (st : St) (c : Nat)
    (hQ : SelQ rem use done st.minUsage st.sat) (hc : 0 < rem c ∧ 0 < use c) (hdone : ∀ c ∈ done, 0 < use c) :
    SelQ rem use (done ++ [c]) (satCnstUpdate (rem c / use c) c st).minUsage (satCnstUpdate (rem c / use c) c st).sat := by
  have hrou : 0 < rem c / use c := div_pos hc.1 hc.2
  have hrc : rem c / use c * use c = rem c := div_mul_cancel₀ _ (ne_of_gt hc.2)
  unfold satCnstUpdate
  rcases hQ with ⟨hd, hmu, hs⟩ | ⟨hd, hmu, hle, hsat, hne⟩
  · have : st.minUsage < 0 := by rw [hmu]; norm_num
    simp only [this, true_or, if_true]
    right
    refine ⟨by simp, hrou, ?_, ?_, by simp⟩
    · intro c' hc'; rw [hd] at hc'; simp at hc'; rw [hc', hrc]
    · intro c' hc'; simp at hc'; rw [hc']; exact ⟨by simp, hrc⟩
  · by_cases h1 : st.minUsage < 0 ∨ rem c / use c < st.minUsage
    · simp only [h1, if_true]
      have h1' : rem c / use c < st.minUsage := by
        rcases h1 with h | h
        · linarith
        · exact h
      right
      refine ⟨by simp, hrou, ?_, ?_, by simp⟩
      · intro c' hc'
        simp at hc'
        rcases hc' with hc' | hc'
        · have := hle c' hc'
          have := hdone c' hc'
          nlinarith
        · rw [hc', hrc]
      · intro c' hc'; simp at hc'; rw [hc']; exact ⟨by simp, hrc⟩
    · simp only [h1, if_false]
      have h1' : st.minUsage ≤ rem c / use c := by
        by_contra h; exact h1 (Or.inr (by linarith))
      by_cases h2 : st.minUsage = rem c / use c
      · simp only [h2, if_true]
        right
        refine ⟨by simp, hrou, ?_, ?_, by simp⟩
        · intro c' hc'
          simp at hc'
          rcases hc' with hc' | hc'
          · rw [← h2]; exact hle c' hc'
          · rw [hc', hrc]
        · intro c' hc'
          simp at hc'
          rcases hc' with hc' | hc'
          · rw [← h2]; exact ⟨by simp [(hsat c' hc').1], (hsat c' hc').2⟩
          · rw [hc']; exact ⟨by simp, hrc⟩
      · simp only [h2, if_false]
        right
        refine ⟨by simp, hmu, ?_, ?_, hne⟩
        · intro c' hc'
          simp at hc'
          rcases hc' with hc' | hc'
          · exact hle c' hc'
          · rw [hc']
            have : st.minUsage * use c ≤ rem c / use c * use c := mul_le_mul_of_nonneg_right h1' (le_of_lt hc.2)
            linarith
        · intro c' hc'; exact ⟨by simp [(hsat c' hc').1], (hsat c' hc').2⟩

theorem selFold_spec (rem use : Nat → Rat) (l : List Nat) :
    ∀ (st : St) (done : List Nat), st.remaining = rem → st.usage = use → (∀ c ∈ l, 0 < rem c ∧ 0 < use c) →
      (∀ c ∈ done, 0 < use c) → SelQ rem use done st.minUsage st.sat →
      let r := l.foldl (fun st c => satCnstUpdate (st.remaining c / st.usage c) c st) st
      SelQ rem use (done ++ l) r.minUsage r.sat ∧ r.remaining = rem ∧ r.usage = use ∧ r.light = st.light ∧
      r.fixed = st.fixed ∧ r.value = st.value := by
  induction l with
  | nil => intro st done h1 h2 _ _ hQ; simp; exact ⟨hQ, h1, h2⟩
  | cons c t ih =>
    intro st done h1 h2 hpos hdone hQ
    simp only [List.foldl_cons]
    have hc := hpos c (by simp)
    have ho := satCnstUpdate_other (st.remaining c / st.usage c) c st
    have hQ' := satCnstUpdate_Q rem use done st c hQ hc hdone
    rw [← h1, ← h2] at hQ'
    have := ih (satCnstUpdate (st.remaining c / st.usage c) c st) (done ++ [c]) (by rw [ho.2.2.1, h1]) (by rw [ho.2.2.2.1, h2])
      (fun c' hc' => hpos c' (by simp [hc']))
      (by intro c' hc'; simp at hc'; rcases hc' with h | h; exact hdone c' h; rw [h]; exact hc.2)
      (by rw [h1, h2] at hQ'; rw [h1, h2]; exact hQ')
    simp only [] at this ⊢
    refine ⟨by simpa using this.1, this.2.1, this.2.2.1, ?_, ?_, ?_⟩
    · rw [this.2.2.2.1, ho.2.2.2.2]
    · rw [this.2.2.2.2.1, ho.2.1]
    · rw [this.2.2.2.2.2, ho.1]


/-! ### end of a round: new min_usage, new saturated variables -/

/-- the invariant for another value of min_usage that is below every remaining/usage of the light table -/
theorem inv_rebase (S : Sys) (hwf : WF S) (m m' : Rat) (st : St) (hG : InvG S m st.fixed st.value) (hK : InvK S m st 0 0 [])
    (hL : InvL S st) (hle : ∀ c ∈ st.light, m' * st.usage c ≤ st.remaining c) :
    InvG S m' st.fixed st.value ∧ InvK S m' st 0 0 [] := by
  have hK0 := hK.sh_rem; have hK1 := hK.sh_use
  simp only [wOf_nil, mul_zero, sub_zero] at hK0 hK1
  constructor
  · refine ⟨hG.val0, hG.valpos, hG.valb, hG.sh_H0, ?_, hG.ft_feas⟩
    intro c hc hf
    by_cases hl : c ∈ st.light
    · have := hle c hl
      rw [hK0 c hc hf, hK1 c hc hf] at this; exact this
    · rw [hL.lt_sh c hc hl hf]; simpa using hG.sh_H0 c hc hf
  · refine ⟨hK.sh_rem, hK.sh_use, hK.ft_rem, hK.ft_use, hK.ft_nn, ?_⟩
    intro c hc hf
    by_cases hl : c ∈ st.light
    · have := hle c hl
      rw [hK.ft_rem c hc hf] at this; exact this
    · rw [hL.lt_ft c hc hl hf]; simp; exact le_of_lt (hwf.cb_pos c hc)

theorem reselect_inv (S : Sys) (hwf : WF S) (m : Rat) (st : St) (hG : InvG S m st.fixed st.value) (hK : InvK S m st 0 0 [])
    (hL : InvL S st) :
    InvG S (reselect st).minUsage (reselect st).fixed (reselect st).value ∧
    InvK S (reselect st).minUsage (reselect st) 0 0 [] ∧ InvL S (reselect st) ∧
    SelQ st.remaining st.usage st.light (reselect st).minUsage (reselect st).sat ∧
    (reselect st).fixed = st.fixed ∧ (reselect st).value = st.value ∧ (reselect st).light = st.light ∧
    (reselect st).remaining = st.remaining ∧ (reselect st).usage = st.usage := by
  have h := selFold_spec st.remaining st.usage st.light { st with minUsage := -1, sat := [] } [] rfl rfl
    hL.li_pos (by simp) (Or.inl ⟨rfl, rfl, rfl⟩)
  simp only [List.nil_append] at h
  change SelQ st.remaining st.usage st.light (reselect st).minUsage (reselect st).sat ∧ (reselect st).remaining = st.remaining ∧
    (reselect st).usage = st.usage ∧ (reselect st).light = st.light ∧ (reselect st).fixed = st.fixed ∧
    (reselect st).value = st.value at h
  obtain ⟨hQ, hr, hu, hl, hf, hv⟩ := h
  have hL' : InvL S (reselect st) := by
    constructor
    · intro c hc hnl hfp; rw [hl] at hnl; rw [hf]; exact hL.lt_sh c hc hnl hfp
    · intro c hc hnl hfp; rw [hl] at hnl; rw [hu]; exact hL.lt_ft c hc hnl hfp
    · intro c hc; rw [hl] at hc; exact hL.li_act c hc
    · intro c hc; rw [hl] at hc; rw [hr, hu]; exact hL.li_pos c hc
    · rw [hl]; exact hL.li_nd
  have hle : ∀ c ∈ st.light, (reselect st).minUsage * st.usage c ≤ st.remaining c := by
    intro c hc
    rcases hQ with ⟨hd, _, _⟩ | ⟨_, _, hle, _, _⟩
    · rw [hd] at hc; simp at hc
    · exact hle c hc
  have hb := inv_rebase S hwf m (reselect st).minUsage st hG hK hL hle
  refine ⟨by rw [hf, hv]; exact hb.1, ?_, hL', hQ, hf, hv, hl, hr, hu⟩
  have k := hb.2
  constructor
  · intro c hc hfp; rw [hr, hf, hv]; exact k.sh_rem c hc hfp
  · intro c hc hfp; rw [hu, hf]; exact k.sh_use c hc hfp
  · intro c hc hfp; rw [hr]; exact k.ft_rem c hc hfp
  · intro c hc hfp e he hfx hw; rw [hf] at hfx; rw [hu]; exact k.ft_use c hc hfp e he hfx hw
  · intro c hc hfp; rw [hu]; exact k.ft_nn c hc hfp
  · intro c hc hfp; rw [hu]; exact k.ft_B c hc hfp

theorem mem_activeElems (S : Sys) (st : St) (c : Nat) (e : Nat × Rat) :
    e ∈ activeElems S st c ↔ (e ∈ (S.cnst c).elems ∧ 0 < e.2 ∧ st.fixed e.1 = false) := by
  unfold activeElems; simp

/-- inner loop of `saturated_variable_set_update` -/
theorem satVarInner_spec (es : List (Nat × Rat)) : ∀ sv : List Nat, sv.Nodup →
    let r := es.foldl (fun sv e => if 0 < e.2 ∧ ¬ e.1 ∈ sv then sv ++ [e.1] else sv) sv
    r.Nodup ∧ (∀ v ∈ sv, v ∈ r) ∧ (∀ e ∈ es, 0 < e.2 → e.1 ∈ r) ∧ (∀ v ∈ r, v ∈ sv ∨ ∃ e ∈ es, 0 < e.2 ∧ e.1 = v) := by
  induction es with
  | nil => intro sv h; simp [h]
  | cons a t ih =>
    intro sv hnd
    simp only [List.foldl_cons]
    by_cases hc : 0 < a.2 ∧ ¬ a.1 ∈ sv
    · simp only [hc, not_false_eq_true, and_self, if_true]
      have hnd' : (sv ++ [a.1]).Nodup := by
        rw [List.nodup_append]; refine ⟨hnd, by simp, ?_⟩
        intro x hx y hy; simp at hy; rw [hy]; intro h; exact hc.2 (h ▸ hx)
      have := ih (sv ++ [a.1]) hnd'
      simp only [] at this
      refine ⟨this.1, fun v hv => this.2.1 v (by simp [hv]), ?_, ?_⟩
      · intro e he hw
        simp at he
        rcases he with rfl | he
        · exact this.2.1 _ (by simp)
        · exact this.2.2.1 e he hw
      · intro v hv
        rcases this.2.2.2 v hv with h | ⟨e, he, hw, rfl⟩
        · simp at h
          rcases h with h | h
          · exact Or.inl h
          · exact Or.inr ⟨a, by simp, hc.1, h.symm⟩
        · exact Or.inr ⟨e, by simp [he], hw, rfl⟩
    · simp only [hc, if_false]
      have := ih sv hnd
      simp only [] at this
      refine ⟨this.1, this.2.1, ?_, ?_⟩
      · intro e he hw
        simp at he
        rcases he with rfl | he
        · have hmem : e.1 ∈ sv := by
            by_contra h; exact hc ⟨hw, h⟩
          exact this.2.1 _ hmem
        · exact this.2.2.1 e he hw
      · intro v hv
        rcases this.2.2.2 v hv with h | ⟨e, he, hw, rfl⟩
        · exact Or.inl h
        · exact Or.inr ⟨e, by simp [he], hw, rfl⟩

theorem satVarUpdate_spec (S : Sys) (st : St) :
    (satVarUpdate S st []).Nodup ∧
    (∀ v ∈ satVarUpdate S st [], ∃ c ∈ st.sat, ∃ e ∈ (S.cnst c).elems, 0 < e.2 ∧ st.fixed e.1 = false ∧ e.1 = v) ∧
    (∀ c ∈ st.sat, ∀ e ∈ (S.cnst c).elems, 0 < e.2 → st.fixed e.1 = false → e.1 ∈ satVarUpdate S st []) := by
  unfold satVarUpdate
  have gen : ∀ (cs : List Nat) (sv : List Nat), sv.Nodup →
      let r := cs.foldl (fun sv c =>
        (activeElems S st c).foldl (fun sv e => if 0 < e.2 ∧ ¬ e.1 ∈ sv then sv ++ [e.1] else sv) sv) sv
      r.Nodup ∧ (∀ v ∈ sv, v ∈ r) ∧
      (∀ v ∈ r, v ∈ sv ∨ ∃ c ∈ cs, ∃ e ∈ (S.cnst c).elems, 0 < e.2 ∧ st.fixed e.1 = false ∧ e.1 = v) ∧
      (∀ c ∈ cs, ∀ e ∈ (S.cnst c).elems, 0 < e.2 → st.fixed e.1 = false → e.1 ∈ r) := by
    intro cs
    induction cs with
    | nil => intro sv h; simp [h]
    | cons c t ih =>
      intro sv hnd
      simp only [List.foldl_cons]
      have h1 := satVarInner_spec (activeElems S st c) sv hnd
      simp only [] at h1
      have h2 := ih _ h1.1
      simp only [] at h2
      refine ⟨h2.1, fun v hv => h2.2.1 v (h1.2.1 v hv), ?_, ?_⟩
      · intro v hv
        rcases h2.2.2.1 v hv with h | ⟨c', hc', e, he, hw, hf, rfl⟩
        · rcases h1.2.2.2 v h with h | ⟨e, he, hw, rfl⟩
          · exact Or.inl h
          · have := (mem_activeElems S st c e).mp he
            exact Or.inr ⟨c, by simp, e, this.1, hw, this.2.2, rfl⟩
        · exact Or.inr ⟨c', by simp [hc'], e, he, hw, hf, rfl⟩
      · intro c' hc' e he hw hf
        simp at hc'
        rcases hc' with rfl | hc'
        · apply h2.2.1
          exact h1.2.2.1 e ((mem_activeElems S st c' e).mpr ⟨he, hw, hf⟩) hw
        · exact h2.2.2.2 c' hc' e he hw hf
  have := gen st.sat [] (by simp)
  simp only [] at this
  refine ⟨this.1, ?_, this.2.2.2⟩
  intro v hv
  rcases this.2.2.1 v hv with h | h
  · simp at h
  · exact h


/-! ### the do-while loop -/

/-- what holds each time the body of the do-while is entered -/
structure RInv (S : Sys) (st : St) (sv : List Nat) : Prop where
  g : InvG S st.minUsage st.fixed st.value
  k : InvK S st.minUsage st 0 0 []
  l : InvL S st
  sel : SelQ st.remaining st.usage st.light st.minUsage st.sat
  sv_ok : ∀ v ∈ sv, st.fixed v = false ∧ 0 < (S.var v).penalty
  sv_nd : sv.Nodup
  sv_nil : st.sat = [] → sv = []

theorem fixLoop_nil (S : Sys) (eps mb mu : Rat) (st : St) : fixLoop S eps mb mu st [] = st := by rw [fixLoop]

theorem rinv_satVar (S : Sys) (hwf : WF S) (st : St) (hg : InvG S st.minUsage st.fixed st.value)
    (hk : InvK S st.minUsage st 0 0 []) (hl : InvL S st) (hsel : SelQ st.remaining st.usage st.light st.minUsage st.sat) :
    RInv S st (satVarUpdate S st []) := by
  have hs := satVarUpdate_spec S st
  refine ⟨hg, hk, hl, hsel, ?_, hs.1, ?_⟩
  · intro v hv
    obtain ⟨c, hc, e, he, _, hf, rfl⟩ := hs.2.1 v hv
    refine ⟨hf, ?_⟩
    have hcl : c ∈ st.light := by
      rcases hsel with ⟨_, _, h⟩ | ⟨_, _, _, h, _⟩
      · rw [h] at hc; simp at hc
      · exact (h c hc).1
    exact hwf.el_pen c (hl.li_act c hcl) e he
  · intro h
    cases hsv : satVarUpdate S st [] with
    | nil => rfl
    | cons v t =>
      obtain ⟨c, hc, _⟩ := hs.2.1 v (by rw [hsv]; simp)
      rw [h] at hc; simp at hc

theorem round_inv (S : Sys) (hwf : WF S) (st : St) (sv : List Nat) (h : RInv S st sv) :
    RInv S (round S 0 st sv) (satVarUpdate S (round S 0 st sv) []) := by
  unfold round
  have hfix : InvG S st.minUsage (fixLoop S 0 (minBound S st.minUsage sv) st.minUsage st sv).fixed
        (fixLoop S 0 (minBound S st.minUsage sv) st.minUsage st sv).value ∧
      InvK S st.minUsage (fixLoop S 0 (minBound S st.minUsage sv) st.minUsage st sv) 0 0 [] ∧
      InvL S (fixLoop S 0 (minBound S st.minUsage sv) st.minUsage st sv) := by
    cases hsv : sv with
    | nil => rw [fixLoop_nil]; exact ⟨h.g, h.k, h.l⟩
    | cons v t =>
      have hm : 0 < st.minUsage := by
        rcases h.sel with ⟨_, _, hs⟩ | ⟨_, hm, _⟩
        · have := h.sv_nil hs; rw [hsv] at this; simp at this
        · exact hm
      rw [← hsv]
      have hmb := minBound_spec S st.minUsage sv (fun v hv => (h.sv_ok v hv).2)
      have := fixLoop_inv S hwf st.minUsage (minBound S st.minUsage sv) hm sv st h.g h.k h.l h.sv_ok h.sv_nd
        (by
          intro hneg u hu hb
          by_contra hlt
          exact hmb.1 hneg u hu ⟨hb, by linarith⟩)
        hmb.2
      exact ⟨this.1, this.2.1, this.2.2.1⟩
  have hr := reselect_inv S hwf st.minUsage _ hfix.1 hfix.2.1 hfix.2.2
  apply rinv_satVar S hwf _ hr.1 hr.2.1 hr.2.2.1
  rw [hr.2.2.2.2.2.2.1, hr.2.2.2.2.2.2.2.1, hr.2.2.2.2.2.2.2.2]
  exact hr.2.2.2.1

theorem loop_inv (S : Sys) (hwf : WF S) : ∀ (fuel : Nat) (st : St) (sv : List Nat) (st' : St), RInv S st sv →
    loop S 0 fuel st sv = some st' →
    ∃ sv', RInv S st' sv' ∧ st'.light = [] := by
  intro fuel
  induction fuel with
  | zero => intro st sv st' _ h; simp [loop] at h
  | succ n ih =>
    intro st sv st' hR h
    rw [loop] at h
    have hr := round_inv S hwf st sv hR
    split at h
    · rename_i he
      simp at h; subst h
      exact ⟨_, hr, by simpa using he⟩
    · exact ih _ _ st' hr h


/-! ### the INIT pass -/

theorem foldl_updzero (l : List (Nat × Rat)) : ∀ val : Nat → Rat,
    (∀ e ∈ l, (l.foldl (fun (val : Nat → Rat) (e : Nat × Rat) => upd val e.1 0) val) e.1 = 0) ∧
    (∀ v, (∀ e ∈ l, e.1 ≠ v) → (l.foldl (fun (val : Nat → Rat) (e : Nat × Rat) => upd val e.1 0) val) v = val v) ∧
    (∀ v, val v = 0 → (l.foldl (fun (val : Nat → Rat) (e : Nat × Rat) => upd val e.1 0) val) v = 0) := by
  induction l with
  | nil => intro val; simp
  | cons a t ih =>
    intro val
    simp only [List.foldl_cons]
    have := ih (upd val a.1 0)
    refine ⟨?_, ?_, ?_⟩
    · intro e he
      simp at he
      rcases he with rfl | he
      · exact this.2.2 _ (by simp)
      · exact this.1 e he
    · intro v hv
      rw [this.2.1 v (fun e he => hv e (by simp [he]))]
      have : v ≠ a.1 := fun h => hv a (by simp) h.symm
      simp [upd, this]
    · intro v hv
      apply this.2.2
      by_cases h : v = a.1
      · simp [upd, h]
      · simp [upd, h, hv]

theorem initUsage_shared (S : Sys) (hwf : WF S) (c : Nat) (hc : c ∈ S.active) (hf : (S.cnst c).fatpipe = false) :
    initUsage S c = freeSum S (fun _ => false) c := by
  unfold initUsage freeSum
  simp only [hf, Bool.not_false, if_true]
  have : ∀ (l : List (Nat × Rat)) (a : Rat), (∀ e ∈ l, 0 ≤ e.2) →
      l.foldl (fun u e => if 0 < e.2 then u + e.2 / (S.var e.1).penalty else u) a =
      a + sumBy (fun e => if (false = true) then 0 else e.2 / (S.var e.1).penalty) l := by
    intro l
    induction l with
    | nil => intro a _; simp
    | cons e t ih =>
      intro a hw
      simp only [List.foldl_cons, sumBy_cons]
      rw [ih _ (fun e he => hw e (by simp [he]))]
      have h0 := hw e (by simp)
      by_cases h : 0 < e.2
      · simp [h]; ring
      · have : e.2 = 0 := by linarith
        simp [this]
  have := this (S.cnst c).elems 0 (hwf.el_w c hc)
  simpa using this

theorem initUsage_fat (S : Sys) (c : Nat) (hf : (S.cnst c).fatpipe = true) :
    initUsage S c = fatUsage S (fun _ => 0) c := by
  unfold initUsage fatUsage
  simp [hf]

theorem SelQ_congr (rem use rem' use' : Nat → Rat) (l : List Nat) (mu : Rat) (sat : List Nat)
    (h : SelQ rem use l mu sat) (heq : ∀ c ∈ l, rem c = rem' c ∧ use c = use' c) : SelQ rem' use' l mu sat := by
  rcases h with h | ⟨h1, h2, h3, h4, h5⟩
  · exact Or.inl h
  · right
    refine ⟨h1, h2, ?_, ?_, h5⟩
    · intro c hc; rw [← (heq c hc).1, ← (heq c hc).2]; exact h3 c hc
    · intro c hc
      have := h4 c hc
      rw [← (heq c this.1).1, ← (heq c this.1).2]; exact this

/-- state of the INIT pass after the constraints `done` -/
structure InitI (S : Sys) (val0 : Nat → Rat) (done : List Nat) (st : St) : Prop where
  fx : st.fixed = fun _ => false
  ru : ∀ c ∈ done, st.remaining c = (S.cnst c).bound ∧ st.usage c = initUsage S c
  li : st.light = done.filter (fun c => decide (0 < initUsage S c))
  v0 : ∀ c ∈ done, ∀ e ∈ (S.cnst c).elems, st.value e.1 = 0
  vo : ∀ v, (∀ c ∈ done, ∀ e ∈ (S.cnst c).elems, e.1 ≠ v) → st.value v = val0 v
  sel : SelQ (fun c => (S.cnst c).bound) (fun c => initUsage S c) st.light st.minUsage st.sat

theorem initCnst_step (S : Sys) (hwf : WF S) (val0 : Nat → Rat) (done : List Nat) (st : St) (c : Nat)
    (hc : c ∈ S.active) (hnd : c ∉ done) (hI : InitI S val0 done st) :
    InitI S val0 (done ++ [c]) (initCnst S 0 st c) := by
  have hb := hwf.cb_pos c hc
  have hfz := foldl_updzero (S.cnst c).elems st.value
  unfold initCnst
  simp only [mul_zero, dblPos, hb, decide_true, Bool.not_true, Bool.false_eq_true, if_false]
  have hlpos : ∀ c' ∈ st.light, 0 < initUsage S c' := by
    intro c' hc'; rw [hI.li] at hc'; simp at hc'; exact hc'.2
  by_cases hu : 0 < initUsage S c
  · simp only [hu, if_true]
    have ho := satCnstUpdate_other ((S.cnst c).bound / initUsage S c) c
      { st with remaining := upd st.remaining c (S.cnst c).bound,
                value := (S.cnst c).elems.foldl (fun (val : Nat → Rat) (e : Nat × Rat) => upd val e.1 0) st.value,
                usage := upd st.usage c (initUsage S c), light := st.light ++ [c] }
    have hQ := satCnstUpdate_Q (fun c => (S.cnst c).bound) (fun c => initUsage S c) st.light
      { st with remaining := upd st.remaining c (S.cnst c).bound,
                value := (S.cnst c).elems.foldl (fun (val : Nat → Rat) (e : Nat × Rat) => upd val e.1 0) st.value,
                usage := upd st.usage c (initUsage S c), light := st.light ++ [c] } c hI.sel ⟨hb, hu⟩ hlpos
    constructor
    · rw [ho.2.1]; exact hI.fx
    · intro c' hc'
      rw [ho.2.2.1, ho.2.2.2.1]
      simp at hc'
      by_cases h : c' = c
      · subst h; simp
      · rcases hc' with hc' | hc'
        · simp only [upd, h, if_false]; exact hI.ru c' hc'
        · exact absurd hc' h
    · rw [ho.2.2.2.2]; simp only [List.filter_append, hI.li]; simp [hu]
    · intro c' hc' e he
      rw [ho.1]
      simp at hc'
      rcases hc' with hc' | hc'
      · exact hfz.2.2 _ (hI.v0 c' hc' e he)
      · subst hc'; exact hfz.1 e he
    · intro v hv
      rw [ho.1]
      simp only []
      rw [hfz.2.1 v (fun e he => hv c (by simp) e he)]
      exact hI.vo v (fun c' hc' e he => hv c' (by simp [hc']) e he)
    · rw [ho.2.2.2.2]; exact hQ
  · simp only [hu, if_false]
    constructor
    · exact hI.fx
    · intro c' hc'
      simp at hc'
      by_cases h : c' = c
      · subst h; simp
      · rcases hc' with hc' | hc'
        · simp only [upd, h, if_false]; exact hI.ru c' hc'
        · exact absurd hc' h
    · simp only [List.filter_append, hI.li]; simp [hu]
    · intro c' hc' e he
      simp at hc'
      rcases hc' with hc' | hc'
      · exact hfz.2.2 _ (hI.v0 c' hc' e he)
      · subst hc'; exact hfz.1 e he
    · intro v hv
      simp only []
      rw [hfz.2.1 v (fun e he => hv c (by simp) e he)]
      exact hI.vo v (fun c' hc' e he => hv c' (by simp [hc']) e he)
    · exact hI.sel

theorem initAll_I (S : Sys) (hwf : WF S) (val0 : Nat → Rat) : InitI S val0 S.active (initAll S 0 val0) := by
  unfold initAll
  have gen : ∀ (todo done : List Nat) (st : St), (done ++ todo).Nodup → (∀ c ∈ todo, c ∈ S.active) →
      InitI S val0 done st → InitI S val0 (done ++ todo) (todo.foldl (initCnst S 0) st) := by
    intro todo
    induction todo with
    | nil => intro done st _ _ h; simpa using h
    | cons c t ih =>
      intro done st hnd hact hI
      simp only [List.foldl_cons]
      have hcd : c ∉ done := by
        intro h
        have := (List.nodup_append.mp hnd).2.2 c h c (by simp)
        exact this rfl
      have h1 := initCnst_step S hwf val0 done st c (hact c (by simp)) hcd hI
      have := ih (done ++ [c]) _ (by simpa using hnd) (fun c' hc' => hact c' (by simp [hc'])) h1
      simpa using this
  have := gen S.active [] (st0 val0) (by simpa using hwf.act_nd) (fun c h => h)
    ⟨rfl, by simp, by simp [st0], by simp, by intro v _; rfl, Or.inl ⟨by simp [st0], rfl, rfl⟩⟩
  simpa using this


theorem fixedLoad_none (S : Sys) (value : Nat → Rat) (c : Nat) : fixedLoad S (fun _ => false) value c = 0 := by
  unfold fixedLoad; apply sumBy_zero; intro e _; simp

theorem init_rinv (S : Sys) (hwf : WF S) (val0 : Nat → Rat) :
    RInv S (initAll S 0 val0) (satVarUpdate S (initAll S 0 val0) []) ∧
    (∀ v, (∀ c ∈ S.active, ∀ e ∈ (S.cnst c).elems, e.1 ≠ v) → (initAll S 0 val0).value v = val0 v) ∧
    (initAll S 0 val0).fixed = fun _ => false := by
  have I := initAll_I S hwf val0
  generalize initAll S 0 val0 = st at I
  have hfx := I.fx
  have hmemL : ∀ c, c ∈ st.light ↔ (c ∈ S.active ∧ 0 < initUsage S c) := by
    intro c; rw [I.li]; simp
  have hL : InvL S st := by
    constructor
    · intro c hc hnl hf
      rw [hfx, ← initUsage_shared S hwf c hc hf]
      have h1 : ¬ 0 < initUsage S c := fun h => hnl ((hmemL c).mpr ⟨hc, h⟩)
      have h2 := freeSum_nonneg S hwf (fun _ => false) c hc
      rw [← initUsage_shared S hwf c hc hf] at h2
      linarith
    · intro c hc hnl hf
      rw [(I.ru c hc).2]
      have h1 : ¬ 0 < initUsage S c := fun h => hnl ((hmemL c).mpr ⟨hc, h⟩)
      have h2 := (fatUsage_spec S (fun _ => 0) c).1
      rw [← initUsage_fat S c hf] at h2
      linarith
    · intro c hc; exact ((hmemL c).mp hc).1
    · intro c hc
      have := (hmemL c).mp hc
      rw [(I.ru c this.1).1, (I.ru c this.1).2]
      exact ⟨hwf.cb_pos c this.1, this.2⟩
    · rw [I.li]; exact List.Nodup.filter _ hwf.act_nd
  have hG0 : InvG S 0 st.fixed st.value := by
    rw [hfx]
    constructor
    · intro c hc e he _; exact I.v0 c hc e he
    · intro v hv; simp at hv
    · intro v hv; simp at hv
    · intro c hc _; rw [fixedLoad_none]; simpa using le_of_lt (hwf.cb_pos c hc)
    · intro c hc _; rw [fixedLoad_none]; simpa using le_of_lt (hwf.cb_pos c hc)
    · intro c _ _ e _ hv; simp at hv
  have hK0 : InvK S 0 st 0 0 [] := by
    constructor
    · intro c hc _; rw [hfx, fixedLoad_none, (I.ru c hc).1]; simp
    · intro c hc hf; rw [hfx, (I.ru c hc).2, initUsage_shared S hwf c hc hf]; simp
    · intro c hc _; exact (I.ru c hc).1
    · intro c hc hf e he _ hw
      rw [(I.ru c hc).2, initUsage_fat S c hf]
      exact (fatUsage_spec S (fun _ => 0) c).2.1 e he (by simp) hw
    · intro c hc hf; rw [(I.ru c hc).2, initUsage_fat S c hf]; exact (fatUsage_spec S (fun _ => 0) c).1
    · intro c hc _; simpa using le_of_lt (hwf.cb_pos c hc)
  have hsel : SelQ st.remaining st.usage st.light st.minUsage st.sat := by
    apply SelQ_congr _ _ _ _ _ _ _ I.sel
    intro c hc
    have := (hmemL c).mp hc
    exact ⟨(I.ru c this.1).1.symm, (I.ru c this.1).2.symm⟩
  have hle : ∀ c ∈ st.light, st.minUsage * st.usage c ≤ st.remaining c := by
    intro c hc
    rcases hsel with ⟨hd, _, _⟩ | ⟨_, _, hle, _, _⟩
    · rw [hd] at hc; simp at hc
    · exact hle c hc
  have hb := inv_rebase S hwf 0 st.minUsage st hG0 hK0 hL hle
  exact ⟨rinv_satVar S hwf st hb.1 hb.2 hL hsel, I.vo, hfx⟩


/-! ### frame: what a round does not touch, what it never undoes -/

theorem round_frame (S : Sys) (hwf : WF S) (st : St) (sv : List Nat) (h : RInv S st sv) :
    (∀ u, u ∉ sv → (round S 0 st sv).fixed u = st.fixed u ∧ (round S 0 st sv).value u = st.value u) ∧
    (∀ u, st.fixed u = true → (round S 0 st sv).fixed u = true ∧ (round S 0 st sv).value u = st.value u) := by
  unfold round
  have hr := fun m (st1 : St) hG hK hL => reselect_inv S hwf m st1 hG hK hL
  cases hsv : sv with
  | nil =>
    rw [fixLoop_nil]
    have := hr st.minUsage st h.g h.k h.l
    rw [this.2.2.2.2.1, this.2.2.2.2.2.1]
    exact ⟨fun u _ => ⟨rfl, rfl⟩, fun u hu => ⟨hu, rfl⟩⟩
  | cons v t =>
    have hm : 0 < st.minUsage := by
      rcases h.sel with ⟨_, _, hs⟩ | ⟨_, hm, _⟩
      · have := h.sv_nil hs; rw [hsv] at this; simp at this
      · exact hm
    rw [← hsv]
    have hmb := minBound_spec S st.minUsage sv (fun v hv => (h.sv_ok v hv).2)
    have hf := fixLoop_inv S hwf st.minUsage (minBound S st.minUsage sv) hm sv st h.g h.k h.l h.sv_ok h.sv_nd
      (by
        intro hneg u hu hb
        by_contra hlt
        exact hmb.1 hneg u hu ⟨hb, by linarith⟩)
      hmb.2
    have := hr st.minUsage _ hf.1 hf.2.1 hf.2.2.1
    rw [this.2.2.2.2.1, this.2.2.2.2.2.1]
    exact ⟨hf.2.2.2.1, hf.2.2.2.2.1⟩

theorem sv_in_elems (S : Sys) (st : St) (hl : InvL S st) (hsel : SelQ st.remaining st.usage st.light st.minUsage st.sat) :
    ∀ v ∈ satVarUpdate S st [], ∃ c ∈ S.active, ∃ e ∈ (S.cnst c).elems, e.1 = v := by
  intro v hv
  obtain ⟨c, hc, e, he, _, _, rfl⟩ := (satVarUpdate_spec S st).2.1 v hv
  have hcl : c ∈ st.light := by
    rcases hsel with ⟨_, _, h⟩ | ⟨_, _, _, h, _⟩
    · rw [h] at hc; simp at hc
    · exact (h c hc).1
  exact ⟨c, hl.li_act c hcl, e, he, rfl⟩

/-- the loop, with the frame property: a variable that appears in no enabled element set keeps its value -/
theorem loop_inv_frame (S : Sys) (hwf : WF S) : ∀ (fuel : Nat) (st : St) (sv : List Nat) (st' : St), RInv S st sv →
    (∀ v ∈ sv, ∃ c ∈ S.active, ∃ e ∈ (S.cnst c).elems, e.1 = v) →
    loop S 0 fuel st sv = some st' →
    (∃ sv', RInv S st' sv') ∧ st'.light = [] ∧
    (∀ v, (∀ c ∈ S.active, ∀ e ∈ (S.cnst c).elems, e.1 ≠ v) → st'.value v = st.value v ∧ st'.fixed v = st.fixed v) := by
  intro fuel
  induction fuel with
  | zero => intro st sv st' _ _ h; simp [loop] at h
  | succ n ih =>
    intro st sv st' hR hel h
    rw [loop] at h
    have hr := round_inv S hwf st sv hR
    have hfr := round_frame S hwf st sv hR
    have hout : ∀ v, (∀ c ∈ S.active, ∀ e ∈ (S.cnst c).elems, e.1 ≠ v) → v ∉ sv := by
      intro v hv hmem
      obtain ⟨c, hc, e, he, heq⟩ := hel v hmem
      exact hv c hc e he heq
    split at h
    · rename_i he
      simp at h; subst h
      refine ⟨⟨_, hr⟩, by simpa using he, ?_⟩
      intro v hv
      have := hfr.1 v (hout v hv)
      exact ⟨this.2, this.1⟩
    · have := ih _ _ st' hr (sv_in_elems S _ hr.l hr.sel) h
      refine ⟨this.1, this.2.1, ?_⟩
      intro v hv
      have h1 := this.2.2 v hv
      have h2 := hfr.1 v (hout v hv)
      exact ⟨by rw [h1.1, h2.2], by rw [h1.2, h2.1]⟩

end SgVerif.Lmm
