/-
Termination of the do-while of `MaxMin::maxmin_solve` at eps = 0, for every well-formed system (SHARED and FATPIPE
constraints, variable bounds): every pass of the body that starts with a non-empty light table fixes at least one more
variable, so #variables + 1 passes are enough.  For a saturated FATPIPE constraint the variable to fix comes from
`InvA` (Fat.lean): its positive usage_ is attained by an unfixed consumer.
-/
import SgVerif.Lmm.Fair
namespace SgVerif.Lmm

theorem sumBy_pos_exists (f : Nat × Rat → Rat) (l : List (Nat × Rat)) (h : 0 < sumBy f l) : ∃ e ∈ l, 0 < f e := by
  induction l with
  | nil => simp at h
  | cons a t ih =>
    simp only [sumBy_cons] at h
    by_cases ha : 0 < f a
    · exact ⟨a, by simp, ha⟩
    · have : 0 < sumBy f t := by linarith
      obtain ⟨e, he, hf⟩ := ih this
      exact ⟨e, by simp [he], hf⟩

/-- when `min_bound ≥ 0` it is the `bound·penalty` of one of the listed variables -/
theorem minBound_attained (S : Sys) (m : Rat) (sv : List Nat) (h : ¬ minBound S m sv < 0) :
    ∃ u ∈ sv, minBound S m sv = (S.var u).bound * (S.var u).penalty := by
  unfold minBound at h ⊢
  have gen : ∀ (l : List Nat) (a : Rat),
      let r := l.foldl (fun mb v =>
        if 0 < (S.var v).bound ∧ (S.var v).bound * (S.var v).penalty < m then
          (if mb < 0 then (S.var v).bound * (S.var v).penalty
           else (if (S.var v).bound * (S.var v).penalty < mb then (S.var v).bound * (S.var v).penalty else mb))
        else mb) a
      r = a ∨ ∃ u ∈ l, r = (S.var u).bound * (S.var u).penalty := by
    intro l
    induction l with
    | nil => intro a; left; rfl
    | cons v t ih =>
      intro a
      simp only [List.foldl_cons]
      by_cases hc : 0 < (S.var v).bound ∧ (S.var v).bound * (S.var v).penalty < m
      · simp only [hc, and_self, if_true]
        rcases ih (if a < 0 then (S.var v).bound * (S.var v).penalty
            else (if (S.var v).bound * (S.var v).penalty < a then (S.var v).bound * (S.var v).penalty else a)) with h1 | ⟨u, hu, h1⟩
        · rw [h1]
          split
          · exact Or.inr ⟨v, by simp, rfl⟩
          · split
            · exact Or.inr ⟨v, by simp, rfl⟩
            · exact Or.inl rfl
        · exact Or.inr ⟨u, by simp [hu], h1⟩
      · simp only [hc, if_false]
        rcases ih a with h1 | ⟨u, hu, h1⟩
        · exact Or.inl h1
        · exact Or.inr ⟨u, by simp [hu], h1⟩
  rcases gen sv (-1) with h1 | h1
  · rw [h1] at h
    exact absurd (by norm_num) h
  · exact h1

/-- number of not yet fixed variables among 0 … nv-1 -/
def unfixedCount (nv : Nat) (f : Nat → Bool) : Nat := ((List.range nv).filter (fun v => !f v)).length

theorem filter_len_lt (l : List Nat) (f f' : Nat → Bool) (hmono : ∀ w, f w = true → f' w = true)
    (hu : ∃ u ∈ l, f u = false ∧ f' u = true) :
    (l.filter (fun v => !f' v)).length < (l.filter (fun v => !f v)).length := by
  have hle : ∀ l : List Nat, (l.filter (fun v => !f' v)).length ≤ (l.filter (fun v => !f v)).length := by
    intro l
    induction l with
    | nil => simp
    | cons a t ih =>
      simp only [List.filter_cons]
      cases hfa : f a with
      | true => simp [hmono a hfa, ih]
      | false =>
        cases hfa' : f' a with
        | true => simp; omega
        | false => simp; omega
  induction l with
  | nil => obtain ⟨u, hu, _⟩ := hu; simp at hu
  | cons a t ih =>
    obtain ⟨u, hmem, hf, hf'⟩ := hu
    simp only [List.filter_cons]
    simp at hmem
    rcases hmem with rfl | hmem
    · have := hle t
      simp [hf, hf']; omega
    · have := ih ⟨u, hmem, hf, hf'⟩
      cases hfa : f a with
      | true => simp [hmono a hfa]; exact this
      | false =>
        cases hfa' : f' a with
        | true => simp; omega
        | false => simp; omega

/-- a pass of the body that starts with a non-empty light table fixes one more variable -/
theorem round_progress (S : Sys) (hwf : WF S) (st : St)
    (hR : RInv S st (satVarUpdate S st [])) (hA : InvA S st 0 []) (hl : st.light ≠ []) :
    ∃ u, (∃ c ∈ S.active, ∃ e ∈ (S.cnst c).elems, e.1 = u) ∧ st.fixed u = false ∧
      (round S 0 st (satVarUpdate S st [])).fixed u = true := by
  have hspec := satVarUpdate_spec S st
  have hinel := sv_in_elems S st hR.l hR.sel
  unfold round
  generalize hsvdef : satVarUpdate S st [] = sv at hR hspec hinel
  obtain ⟨hm, hsat, hsatne⟩ : 0 < st.minUsage ∧
      (∀ c ∈ st.sat, c ∈ st.light ∧ st.minUsage * st.usage c = st.remaining c) ∧ st.sat ≠ [] := by
    rcases hR.sel with ⟨hd, _, _⟩ | ⟨_, h2, _, h4, h5⟩
    · exact absurd hd hl
    · exact ⟨h2, h4, h5⟩
  -- an unfixed consumer of a saturated constraint
  obtain ⟨c, hcs⟩ := List.exists_mem_of_ne_nil _ hsatne
  have hcl := (hsat c hcs).1
  have hca := hR.l.li_act c hcl
  have hup := (hR.l.li_pos c hcl).2
  obtain ⟨e, he, hw, hfe⟩ : ∃ e ∈ (S.cnst c).elems, 0 < e.2 ∧ st.fixed e.1 = false := by
    cases hfp : (S.cnst c).fatpipe with
    | true =>
      obtain ⟨e, he, hw, _, h1⟩ := hA c hca hfp hup
      rcases h1 with h1 | h1
      · exact ⟨e, he, hw, h1⟩
      · exact absurd h1.2 (by simp)
    | false =>
      have hK0u := hR.k.sh_use c hca hfp
      simp only [wOf_nil, mul_zero, sub_zero] at hK0u
      rw [hK0u] at hup
      unfold freeSum at hup
      obtain ⟨e, he, hpos⟩ := sumBy_pos_exists _ _ hup
      have hfe : st.fixed e.1 = false := by
        cases hf : st.fixed e.1 with
        | false => rfl
        | true => simp [hf] at hpos
      have hw : 0 < e.2 := by
        simp only [hfe] at hpos
        have hp := hwf.el_pen c hca e he
        by_contra hn
        have : e.2 / (S.var e.1).penalty ≤ 0 := div_nonpos_of_nonpos_of_nonneg (by linarith) (le_of_lt hp)
        simp at hpos
        linarith
      exact ⟨e, he, hw, hfe⟩
  have hesv : e.1 ∈ sv := hspec.2.2 c hcs e he hw hfe
  have hmb := minBound_spec S st.minUsage sv (fun v hv => (hR.sv_ok v hv).2)
  have hf := fixLoop_inv S hwf st.minUsage (minBound S st.minUsage sv) hm sv st hR.g hR.k hR.l hR.sv_ok hR.sv_nd
    (by
      intro hneg u hu hb
      by_contra hlt
      exact hmb.1 hneg u hu ⟨hb, by linarith⟩)
    hmb.2
  obtain ⟨hG1, hK1, hL1, _, _, hsel⟩ := hf
  have hr := reselect_inv S hwf st.minUsage _ hG1 hK1 hL1
  by_cases hneg : minBound S st.minUsage sv < 0
  · refine ⟨e.1, hinel e.1 hesv, hfe, ?_⟩
    rw [hr.2.2.2.2.1]
    exact (hsel e.1 hesv (Or.inl hneg)).1
  · obtain ⟨u, hu, hatt⟩ := minBound_attained S st.minUsage sv hneg
    refine ⟨u, hinel u hu, (hR.sv_ok u hu).1, ?_⟩
    rw [hr.2.2.2.2.1]
    exact (hsel u hu (Or.inr hatt)).1

theorem loop_terminates (S : Sys) (hwf : WF S) (nv : Nat)
    (hnv : ∀ c ∈ S.active, ∀ e ∈ (S.cnst c).elems, e.1 < nv) :
    ∀ (fuel : Nat) (st : St), RInv S st (satVarUpdate S st []) → InvA S st 0 [] → unfixedCount nv st.fixed + 1 ≤ fuel →
      (loop S 0 fuel st (satVarUpdate S st [])).isSome = true := by
  intro fuel
  induction fuel with
  | zero => intro st _ _ h; omega
  | succ n ih =>
    intro st hR hA hfuel
    rw [loop]
    have hr := round_inv S hwf st _ hR
    have hrA := round_invA S hwf st _ hR hA
    have hfr := round_frame S hwf st _ hR
    split
    · simp
    · rename_i hne
      apply ih _ hr hrA
      have hl : st.light ≠ [] := by
        intro hl0
        -- an empty light table stays empty: no saturated constraint, no saturated variable, nothing happens
        have hsat0 : st.sat = [] := by
          rcases hR.sel with ⟨_, _, h⟩ | ⟨h, _⟩
          · exact h
          · exact absurd hl0 h
        have hsv0 := hR.sv_nil hsat0
        apply hne
        unfold round
        rw [hsv0, fixLoop_nil]
        have hres := reselect_inv S hwf st.minUsage st hR.g hR.k hR.l
        rw [hres.2.2.2.2.2.2.1, hl0]; rfl
      obtain ⟨u, ⟨c, hc, e, he, heu⟩, hu0, hu1⟩ := round_progress S hwf st hR hA hl
      have hlt := filter_len_lt (List.range nv) st.fixed (round S 0 st (satVarUpdate S st [])).fixed
        (fun w hw => (hfr.2 w hw).1) ⟨u, by rw [List.mem_range, ← heu]; exact hnv c hc e he, hu0, hu1⟩
      unfold unfixedCount at hfuel ⊢
      omega

/-- **C15 `maxmin_terminates`.**  Every well-formed system (SHARED and FATPIPE constraints, variable bounds).  With `nv`
an upper bound of the variable indices, fuel `nv + 1` (hence also #variables + #constraints + 1) is enough: the model
never runs out of fuel. -/
theorem maxmin_terminates_wf (S : Sys) (hwf : WF S) (nv : Nat)
    (hnv : ∀ c ∈ S.active, ∀ e ∈ (S.cnst c).elems, e.1 < nv) (val0 : Nat → Rat) (fuel : Nat) (hfuel : nv + 1 ≤ fuel) :
    (maxminSolve S 0 fuel val0).isSome = true := by
  unfold maxminSolve
  have hi := init_rinv S hwf val0
  apply loop_terminates S hwf nv hnv fuel _ hi.1 (init_invA S hwf val0)
  have : unfixedCount nv (initAll S 0 val0).fixed ≤ nv := by
    unfold unfixedCount
    calc ((List.range nv).filter _).length ≤ (List.range nv).length := List.length_filter_le _ _
      _ = nv := List.length_range
  omega

/-- the first-pass statement (summing constraints only), now a corollary -/
theorem maxmin_terminates_shared (S : Sys) (hwf : WF S) (_hsh : ∀ c ∈ S.active, (S.cnst c).fatpipe = false) (nv : Nat)
    (hnv : ∀ c ∈ S.active, ∀ e ∈ (S.cnst c).elems, e.1 < nv) (val0 : Nat → Rat) (fuel : Nat) (hfuel : nv + 1 ≤ fuel) :
    (maxminSolve S 0 fuel val0).isSome = true :=
  maxmin_terminates_wf S hwf nv hnv val0 fuel hfuel

end SgVerif.Lmm
