/-
Reference specification for C16: weighted max-min fairness by water-filling, written independently of the
solver's data structures (no light table, no saturated lists, no remaining_/usage_ bookkeeping).

All unfixed consuming variables grow together, variable `v` at speed `1/penalty v`; the water level stops at the
first `t` where a constraint is full (`bound c - Σ_fixed w·x = t · Σ_unfixed w/p`) or a variable reaches its bound
(`bound v · penalty v = t`); the variables of the full constraints are frozen at `t/penalty`, the variables that
reached their bound at their bound; repeat.  Only meaningful for summing (SHARED) constraints.
-/
import SgVerif.Lmm.Model
namespace SgVerif.Lmm.Spec
open SgVerif.Lmm

def minOpt (a : Option Rat) (x : Rat) : Option Rat :=
  match a with | none => some x | some y => some (if x < y then x else y)

def rem (S : Sys) (fixed : Nat → Option Rat) (c : Nat) : Rat :=
  (S.cnst c).elems.foldl (fun r e => match fixed e.1 with | some x => r - e.2 * x | none => r) (S.cnst c).bound
def use (S : Sys) (fixed : Nat → Option Rat) (c : Nat) : Rat :=
  (S.cnst c).elems.foldl (fun u e => match fixed e.1 with | some _ => u | none => u + e.2 / (S.var e.1).penalty) 0

/-- the next water level -/
def level (S : Sys) (vars : List Nat) (fixed : Nat → Option Rat) : Option Rat :=
  let l := S.active.foldl (fun l c => if 0 < use S fixed c then minOpt l (rem S fixed c / use S fixed c) else l) none
  vars.foldl (fun l v => if (fixed v).isNone ∧ 0 < (S.var v).bound then minOpt l ((S.var v).bound * (S.var v).penalty) else l) l

/-- variables frozen at level `t` (computed eagerly: the result is a table, not a closure) -/
def frozen (S : Sys) (vars : List Nat) (fixed : Nat → Option Rat) (t : Rat) : List (Nat × Rat) :=
  vars.filterMap (fun v =>
    match fixed v with
    | some _ => none
    | none =>
      if 0 < (S.var v).bound ∧ (S.var v).bound * (S.var v).penalty = t then some (v, (S.var v).bound)
      else if S.active.any (fun c => (S.cnst c).elems.any (fun e => e.1 = v ∧ 0 < e.2) ∧ 0 < use S fixed c ∧
                                     rem S fixed c = t * use S fixed c) then some (v, t / (S.var v).penalty)
      else none)

def look (tab : List (Nat × Rat)) (v : Nat) : Option Rat := (tab.find? (fun p => p.1 == v)).map (·.2)

/-- `vars` = the enabled variables with a positive weight somewhere; `tab` = the frozen variables so far -/
def fill (S : Sys) (vars : List Nat) : Nat → List (Nat × Rat) → List (Nat × Rat)
  | 0, tab => tab
  | n + 1, tab =>
    match level S vars (look tab) with
    | none => tab
    | some t => fill S vars n (tab ++ frozen S vars (look tab) t)

def consuming (S : Sys) : List Nat :=
  S.vorder.filter (fun v => decide (0 < (S.var v).penalty) && consumes S v)

/-- the weighted max-min fair allocation (0 for variables that never get frozen: disabled or not consuming) -/
def alloc (S : Sys) : Nat → Rat :=
  let tab := fill S (consuming S) ((consuming S).length + 1) []
  fun v => (look tab v).getD 0

end SgVerif.Lmm.Spec
