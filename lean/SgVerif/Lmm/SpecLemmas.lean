/-
C16: the water-filling reference `Spec.alloc` (Lmm/Spec.lean) is a weighted max-min fair allocation (`FairAlloc`) of
every well-formed system of summing constraints.  Invariant `J` of `Spec.fill`: the levels are non-decreasing, every
frozen variable has `x·penalty` = the level at which it was frozen, is within its bound, and is at its bound or has a
closed saturated constraint on which it is maximal; `T·use c ≤ rem c` for the current level `T`.
-/
import SgVerif.Lmm.Unique
import SgVerif.Lmm.Termination
import SgVerif.Lmm.Spec
namespace SgVerif.Lmm.Spec
open SgVerif.Lmm

/-! ### `rem`, `use` as sums -/

def remT (fixed : Nat → Option Rat) (e : Nat × Rat) : Rat :=
  match fixed e.1 with | some x => e.2 * x | none => 0
def useT (S : Sys) (fixed : Nat → Option Rat) (e : Nat × Rat) : Rat :=
  match fixed e.1 with | some _ => 0 | none => e.2 / (S.var e.1).penalty

theorem rem_eq (S : Sys) (fixed : Nat → Option Rat) (c : Nat) :
    rem S fixed c = (S.cnst c).bound - sumBy (remT fixed) (S.cnst c).elems := by
  unfold rem
  have gen : ∀ (l : List (Nat × Rat)) (a : Rat),
      l.foldl (fun r e => match fixed e.1 with | some x => r - e.2 * x | none => r) a = a - sumBy (remT fixed) l := by
    intro l
    induction l with
    | nil => intro a; simp
    | cons e t ih =>
      intro a
      simp only [List.foldl_cons, sumBy_cons]
      rw [ih]
      unfold remT
      cases fixed e.1 with
      | none => simp
      | some x => simp only []; ring
  exact gen _ _

theorem use_eq (S : Sys) (fixed : Nat → Option Rat) (c : Nat) :
    use S fixed c = sumBy (useT S fixed) (S.cnst c).elems := by
  unfold use
  have gen : ∀ (l : List (Nat × Rat)) (a : Rat),
      l.foldl (fun u e => match fixed e.1 with | some _ => u | none => u + e.2 / (S.var e.1).penalty) a =
        a + sumBy (useT S fixed) l := by
    intro l
    induction l with
    | nil => intro a; simp
    | cons e t ih =>
      intro a
      simp only [List.foldl_cons, sumBy_cons]
      rw [ih]
      unfold useT
      cases fixed e.1 with
      | none => simp only []; ring
      | some x => simp
  have h := gen (S.cnst c).elems 0
  rw [zero_add] at h
  exact h

theorem useT_nonneg (S : Sys) (hwf : WF S) (fixed : Nat → Option Rat) (c : Nat) (hc : c ∈ S.active) (e : Nat × Rat)
    (he : e ∈ (S.cnst c).elems) : 0 ≤ useT S fixed e := by
  unfold useT
  cases fixed e.1 with
  | none => exact div_nonneg (hwf.el_w c hc e he) (le_of_lt (hwf.el_pen c hc e he))
  | some x => exact le_refl 0

theorem use_nonneg (S : Sys) (hwf : WF S) (fixed : Nat → Option Rat) (c : Nat) (hc : c ∈ S.active) :
    0 ≤ use S fixed c := by
  rw [use_eq]
  exact sumBy_nonneg _ _ (fun e he => useT_nonneg S hwf fixed c hc e he)

/-! ### the fold of `minOpt` -/

theorem foldMin_spec {α : Type} (step : Option Rat → α → Option Rat) (cond : α → Prop) (g : α → Rat)
    (hs1 : ∀ a x, cond x → step a x = minOpt a (g x)) (hs2 : ∀ a x, ¬ cond x → step a x = a) (l : List α) :
    ∀ a0 : Option Rat,
    ((l.foldl step a0 = none ↔ (a0 = none ∧ ∀ x ∈ l, ¬ cond x)) ∧
     (∀ t, l.foldl step a0 = some t →
        ((a0 = some t ∨ ∃ x ∈ l, cond x ∧ g x = t) ∧ (∀ y, a0 = some y → t ≤ y) ∧ ∀ x ∈ l, cond x → t ≤ g x))) := by
  induction l with
  | nil =>
    intro a0
    refine ⟨by simp, ?_⟩
    intro t ht
    simp only [List.foldl_nil] at ht
    exact ⟨Or.inl ht, fun y hy => by rw [ht] at hy; cases hy; exact le_refl _, by simp⟩
  | cons x t' ih =>
    intro a0
    simp only [List.foldl_cons]
    by_cases hc : cond x
    · rw [hs1 a0 x hc]
      obtain ⟨m, hm, hmx, hma, hmatt⟩ : ∃ m, minOpt a0 (g x) = some m ∧ m ≤ g x ∧ (∀ y, a0 = some y → m ≤ y) ∧
          (m = g x ∨ a0 = some m) := by
        cases a0 with
        | none => exact ⟨g x, rfl, le_refl _, by simp, Or.inl rfl⟩
        | some y =>
          by_cases hlt : g x < y
          · exact ⟨g x, by simp [minOpt, hlt], le_refl _, by intro y' hy'; cases hy'; exact le_of_lt hlt, Or.inl rfl⟩
          · exact ⟨y, by simp [minOpt, hlt], by linarith, by intro y' hy'; cases hy'; exact le_refl _, Or.inr rfl⟩
      rw [hm]
      have h := ih (some m)
      refine ⟨?_, ?_⟩
      · constructor
        · intro hn; exact absurd (h.1.mp hn).1 (by simp)
        · intro hn; exact absurd hc (hn.2 x (by simp))
      · intro t ht
        obtain ⟨h1, h2, h3⟩ := h.2 t ht
        have htm : t ≤ m := h2 m rfl
        refine ⟨?_, ?_, ?_⟩
        · rcases h1 with h1 | ⟨x', hx', hcx', hgx'⟩
          · have hmt : m = t := by cases h1; rfl
            rcases hmatt with hmatt | hmatt
            · right; exact ⟨x, by simp, hc, by rw [← hmatt, hmt]⟩
            · left; rw [hmatt, hmt]
          · right; exact ⟨x', by simp [hx'], hcx', hgx'⟩
        · intro y hy; exact le_trans htm (hma y hy)
        · intro x' hx' hcx'
          simp only [List.mem_cons] at hx'
          rcases hx' with hx' | hx'
          · rw [hx']; exact le_trans htm hmx
          · exact h3 x' hx' hcx'
    · rw [hs2 a0 x hc]
      have h := ih a0
      refine ⟨?_, ?_⟩
      · constructor
        · intro hn
          have := h.1.mp hn
          refine ⟨this.1, ?_⟩
          intro x' hx'
          simp only [List.mem_cons] at hx'
          rcases hx' with hx' | hx'
          · rw [hx']; exact hc
          · exact this.2 x' hx'
        · intro hn; exact h.1.mpr ⟨hn.1, fun x' hx' => hn.2 x' (by simp [hx'])⟩
      · intro t ht
        obtain ⟨h1, h2, h3⟩ := h.2 t ht
        refine ⟨?_, h2, ?_⟩
        · rcases h1 with h1 | ⟨x', hx', hcx', hgx'⟩
          · exact Or.inl h1
          · exact Or.inr ⟨x', by simp [hx'], hcx', hgx'⟩
        · intro x' hx' hcx'
          simp only [List.mem_cons] at hx'
          rcases hx' with hx' | hx'
          · rw [hx'] at hcx'; exact absurd hcx' hc
          · exact h3 x' hx' hcx'

/-! ### `level` -/

def step1 (S : Sys) (fixed : Nat → Option Rat) (l : Option Rat) (c : Nat) : Option Rat :=
  if 0 < use S fixed c then minOpt l (rem S fixed c / use S fixed c) else l
def step2 (S : Sys) (fixed : Nat → Option Rat) (l : Option Rat) (v : Nat) : Option Rat :=
  if (fixed v).isNone ∧ 0 < (S.var v).bound then minOpt l ((S.var v).bound * (S.var v).penalty) else l

theorem level_eq (S : Sys) (vars : List Nat) (fixed : Nat → Option Rat) :
    level S vars fixed = vars.foldl (step2 S fixed) (S.active.foldl (step1 S fixed) none) := rfl

theorem level_spec (S : Sys) (vars : List Nat) (fixed : Nat → Option Rat) :
    (level S vars fixed = none → ∀ c ∈ S.active, ¬ 0 < use S fixed c) ∧
    (∀ t, level S vars fixed = some t →
      (∀ c ∈ S.active, 0 < use S fixed c → t ≤ rem S fixed c / use S fixed c) ∧
      (∀ v ∈ vars, fixed v = none → 0 < (S.var v).bound → t ≤ (S.var v).bound * (S.var v).penalty) ∧
      ((∃ c ∈ S.active, 0 < use S fixed c ∧ rem S fixed c / use S fixed c = t) ∨
       ∃ v ∈ vars, fixed v = none ∧ 0 < (S.var v).bound ∧ (S.var v).bound * (S.var v).penalty = t)) := by
  rw [level_eq]
  have A := foldMin_spec (step1 S fixed) (fun c => 0 < use S fixed c) (fun c => rem S fixed c / use S fixed c)
    (fun a x h => by unfold step1; exact if_pos h) (fun a x h => by unfold step1; exact if_neg h) S.active none
  have B := foldMin_spec (step2 S fixed) (fun v => (fixed v).isNone = true ∧ 0 < (S.var v).bound)
    (fun v => (S.var v).bound * (S.var v).penalty)
    (fun a x h => by unfold step2; exact if_pos h) (fun a x h => by unfold step2; exact if_neg h) vars
    (S.active.foldl (step1 S fixed) none)
  constructor
  · intro hn
    have h1 := (B.1.mp hn).1
    exact (A.1.mp h1).2
  · intro t ht
    obtain ⟨hatt, hle0, hleB⟩ := B.2 t ht
    refine ⟨?_, ?_, ?_⟩
    · intro c hc hu
      cases hl1 : S.active.foldl (step1 S fixed) none with
      | none => exact absurd hu ((A.1.mp hl1).2 c hc)
      | some y =>
        have := (A.2 y hl1).2.2 c hc hu
        exact le_trans (hle0 y hl1) this
    · intro v hv hf hb
      exact hleB v hv ⟨by rw [hf]; rfl, hb⟩
    · rcases hatt with hatt | ⟨v, hv, ⟨hf, hb⟩, hg⟩
      · rcases (A.2 t hatt).1 with h0 | ⟨c, hc, hu, hg⟩
        · exact absurd h0 (by simp)
        · exact Or.inl ⟨c, hc, hu, hg⟩
      · right
        refine ⟨v, hv, ?_, hb, hg⟩
        cases hfv : fixed v with
        | none => rfl
        | some x => rw [hfv] at hf; simp at hf

/-! ### `look`, `frozen` -/

theorem look_append_some (a b : List (Nat × Rat)) (v : Nat) (x : Rat) (h : look a v = some x) :
    look (a ++ b) v = some x := by
  unfold look at h ⊢
  rw [List.find?_append]
  cases hf : a.find? (fun p => p.1 == v) with
  | none => rw [hf] at h; simp at h
  | some p => rw [hf] at h; simpa using h

theorem look_append_none (a b : List (Nat × Rat)) (v : Nat) (h : look a v = none) :
    look (a ++ b) v = look b v := by
  unfold look at h ⊢
  rw [List.find?_append]
  cases hf : a.find? (fun p => p.1 == v) with
  | none => simp
  | some p => rw [hf] at h; simp at h

theorem look_filterMap (F : Nat → Option (Nat × Rat)) (hF : ∀ u p, F u = some p → p.1 = u) (l : List Nat) (v : Nat) :
    look (l.filterMap F) v = if v ∈ l then (F v).map (·.2) else none := by
  induction l with
  | nil => simp [look]
  | cons a t ih =>
    cases hfa : F a with
    | none =>
      rw [List.filterMap_cons_none hfa, ih]
      by_cases hva : v = a
      · subst hva; simp [hfa]
      · simp [hva]
    | some p =>
      rw [List.filterMap_cons_some hfa]
      have hp := hF a p hfa
      by_cases hva : v = a
      · subst hva
        simp [look, List.find?_cons, hp, hfa]
      · have hne : (p.1 == v) = false := by rw [hp]; simp; exact fun h => hva h.symm
        have : look (p :: t.filterMap F) v = look (t.filterMap F) v := by
          simp [look, List.find?_cons, hne]
        rw [this, ih]; simp [hva]

def frz (S : Sys) (fixed : Nat → Option Rat) (t : Rat) (v : Nat) : Option (Nat × Rat) :=
    match fixed v with
    | some _ => none
    | none =>
      if 0 < (S.var v).bound ∧ (S.var v).bound * (S.var v).penalty = t then some (v, (S.var v).bound)
      else if S.active.any (fun c => (S.cnst c).elems.any (fun e => e.1 = v ∧ 0 < e.2) ∧ 0 < use S fixed c ∧
                                     rem S fixed c = t * use S fixed c) then some (v, t / (S.var v).penalty)
      else none

theorem frozen_eq (S : Sys) (vars : List Nat) (fixed : Nat → Option Rat) (t : Rat) :
    frozen S vars fixed t = vars.filterMap (frz S fixed t) := rfl

/-- the witness of the second branch of `frozen`, as a proposition -/
def Tight (S : Sys) (fixed : Nat → Option Rat) (t : Rat) (v : Nat) : Prop :=
  ∃ c ∈ S.active, (∃ e ∈ (S.cnst c).elems, e.1 = v ∧ 0 < e.2) ∧ 0 < use S fixed c ∧ rem S fixed c = t * use S fixed c

theorem any_tight (S : Sys) (fixed : Nat → Option Rat) (t : Rat) (v : Nat) :
    (S.active.any (fun c => (S.cnst c).elems.any (fun e => e.1 = v ∧ 0 < e.2) ∧ 0 < use S fixed c ∧
        rem S fixed c = t * use S fixed c) = true) ↔ Tight S fixed t v := by
  unfold Tight
  simp only [List.any_eq_true, decide_eq_true_eq, Bool.and_eq_true, Bool.decide_and]

theorem frz_fst (S : Sys) (fixed : Nat → Option Rat) (t : Rat) (u : Nat) (p : Nat × Rat) (h : frz S fixed t u = some p) :
    p.1 = u := by
  unfold frz at h
  cases hf : fixed u with
  | some x => rw [hf] at h; simp at h
  | none =>
    rw [hf] at h
    simp only [] at h
    split at h
    · cases h; rfl
    · split at h
      · cases h; rfl
      · simp at h

theorem frz_some (S : Sys) (fixed : Nat → Option Rat) (t : Rat) (u : Nat) (p : Nat × Rat) (h : frz S fixed t u = some p) :
    fixed u = none ∧ ((0 < (S.var u).bound ∧ (S.var u).bound * (S.var u).penalty = t ∧ p.2 = (S.var u).bound) ∨
      (Tight S fixed t u ∧ p.2 = t / (S.var u).penalty)) := by
  unfold frz at h
  cases hf : fixed u with
  | some x => rw [hf] at h; simp at h
  | none =>
    rw [hf] at h
    simp only [] at h
    refine ⟨rfl, ?_⟩
    split at h
    · rename_i hb
      cases h; exact Or.inl ⟨hb.1, hb.2, rfl⟩
    · split at h
      · rename_i ht
        cases h; exact Or.inr ⟨(any_tight S fixed t u).mp ht, rfl⟩
      · simp at h

theorem frz_isSome (S : Sys) (fixed : Nat → Option Rat) (t : Rat) (u : Nat) (hf : fixed u = none)
    (h : (0 < (S.var u).bound ∧ (S.var u).bound * (S.var u).penalty = t) ∨ Tight S fixed t u) :
    (frz S fixed t u).isSome = true := by
  unfold frz
  rw [hf]
  simp only []
  by_cases hb : 0 < (S.var u).bound ∧ (S.var u).bound * (S.var u).penalty = t
  · rw [if_pos hb]; rfl
  · rw [if_neg hb]
    rcases h with h | h
    · exact absurd h hb
    · rw [if_pos ((any_tight S fixed t u).mpr h)]; rfl

/-! ### one step of `fill`, abstractly -/

/-- how the table of frozen variables is extended at level `t` -/
structure Ext (S : Sys) (vars : List Nat) (fixed fixed' : Nat → Option Rat) (t : Rat) : Prop where
  keep : ∀ v x, fixed v = some x → fixed' v = some x
  new : ∀ v x, fixed v = none → fixed' v = some x → v ∈ vars ∧ x * (S.var v).penalty = t ∧
    ((0 < (S.var v).bound ∧ x = (S.var v).bound) ∨ Tight S fixed t v)
  comp : ∀ v ∈ vars, fixed v = none →
    ((0 < (S.var v).bound ∧ (S.var v).bound * (S.var v).penalty = t) ∨ Tight S fixed t v) → (fixed' v).isSome = true

theorem ext_of_frozen (S : Sys) (vars : List Nat) (hvp : ∀ v ∈ vars, 0 < (S.var v).penalty) (tab : List (Nat × Rat)) (t : Rat) :
    Ext S vars (look tab) (look (tab ++ frozen S vars (look tab) t)) t := by
  have hnew : ∀ v, look tab v = none → look (tab ++ frozen S vars (look tab) t) v =
      if v ∈ vars then (frz S (look tab) t v).map (·.2) else none := by
    intro v hv
    rw [look_append_none tab _ v hv, frozen_eq, look_filterMap _ (frz_fst S (look tab) t)]
  constructor
  · intro v x h; exact look_append_some tab _ v x h
  · intro v x hf h
    rw [hnew v hf] at h
    by_cases hv : v ∈ vars
    · rw [if_pos hv] at h
      cases hz : frz S (look tab) t v with
      | none => rw [hz] at h; simp at h
      | some p =>
        rw [hz] at h
        simp only [Option.map_some, Option.some.injEq] at h
        have hp := hvp v hv
        obtain ⟨_, hr⟩ := frz_some S (look tab) t v p hz
        refine ⟨hv, ?_, ?_⟩
        · rcases hr with ⟨_, hb, hx⟩ | ⟨_, hx⟩
          · rw [← h, hx]; exact hb
          · rw [← h, hx]; exact div_mul_cancel₀ _ (ne_of_gt hp)
        · rcases hr with ⟨hb0, _, hx⟩ | ⟨ht, _⟩
          · left; exact ⟨hb0, by rw [← h, hx]⟩
          · right; exact ht
    · rw [if_neg hv] at h; simp at h
  · intro v hv hf h
    rw [hnew v hf, if_pos hv]
    have := frz_isSome S (look tab) t v hf h
    cases hz : frz S (look tab) t v with
    | none => rw [hz] at this; simp at this
    | some p => simp

theorem remT_step (S : Sys) (vars : List Nat) (fixed fixed' : Nat → Option Rat) (t : Rat) (hE : Ext S vars fixed fixed' t)
    (e : Nat × Rat) (hp : 0 < (S.var e.1).penalty) :
    remT fixed' e = remT fixed e + t * (useT S fixed e - useT S fixed' e) := by
  unfold remT useT
  cases hf : fixed e.1 with
  | some x => rw [hE.keep e.1 x hf]; simp
  | none =>
    cases hf' : fixed' e.1 with
    | none => simp
    | some y =>
      have := (hE.new e.1 y hf hf').2.1
      simp only []
      rw [← this]
      field_simp
      ring

theorem rem_step (S : Sys) (hwf : WF S) (vars : List Nat) (fixed fixed' : Nat → Option Rat) (t : Rat)
    (hE : Ext S vars fixed fixed' t) (c : Nat) (hc : c ∈ S.active) :
    rem S fixed' c = rem S fixed c - t * (use S fixed c - use S fixed' c) := by
  rw [rem_eq, rem_eq, use_eq, use_eq]
  have h1 := sumBy_lin (remT fixed) (remT fixed') (fun e => useT S fixed e - useT S fixed' e) t (S.cnst c).elems
    (fun e he => remT_step S vars fixed fixed' t hE e (hwf.el_pen c hc e he))
  rw [h1, sumBy_sub]; ring

/-- a constraint all of whose consumers are frozen keeps its `rem` -/
theorem rem_closed (S : Sys) (hwf : WF S) (fixed fixed' : Nat → Option Rat)
    (hkeep : ∀ v x, fixed v = some x → fixed' v = some x) (c : Nat) (hc : c ∈ S.active)
    (hcl : ∀ e ∈ (S.cnst c).elems, 0 < e.2 → (fixed e.1).isSome = true) : rem S fixed' c = rem S fixed c := by
  rw [rem_eq, rem_eq]
  congr 1
  apply sumBy_congr
  intro e he
  unfold remT
  cases hf : fixed e.1 with
  | some x => rw [hkeep e.1 x hf]
  | none =>
    have hw : e.2 = 0 := by
      have h0 := hwf.el_w c hc e he
      by_contra hne
      have := hcl e he (lt_of_le_of_ne h0 (Ne.symm hne))
      rw [hf] at this; simp at this
    cases fixed' e.1 with
    | none => rfl
    | some y => simp [hw]

theorem use_closed (S : Sys) (hwf : WF S) (fixed : Nat → Option Rat) (c : Nat) (hc : c ∈ S.active)
    (hcl : ∀ e ∈ (S.cnst c).elems, 0 < e.2 → (fixed e.1).isSome = true) : use S fixed c = 0 := by
  rw [use_eq]
  apply sumBy_zero
  intro e he
  unfold useT
  cases hf : fixed e.1 with
  | some x => rfl
  | none =>
    have hw : e.2 = 0 := by
      have h0 := hwf.el_w c hc e he
      by_contra hne
      have := hcl e he (lt_of_le_of_ne h0 (Ne.symm hne))
      rw [hf] at this; simp at this
    simp [hw]

/-- the record of a frozen variable -/
def RecS (S : Sys) (fixed : Nat → Option Rat) (v : Nat) (x : Rat) : Prop :=
  (0 < (S.var v).bound ∧ x = (S.var v).bound) ∨
  ∃ c ∈ S.active, (∃ e ∈ (S.cnst c).elems, e.1 = v ∧ 0 < e.2) ∧
    (∀ e ∈ (S.cnst c).elems, 0 < e.2 → (fixed e.1).isSome = true) ∧ rem S fixed c = 0 ∧
    ∀ e ∈ (S.cnst c).elems, 0 < e.2 → ∀ y, fixed e.1 = some y → y * (S.var e.1).penalty ≤ x * (S.var v).penalty

structure J (S : Sys) (vars : List Nat) (fixed : Nat → Option Rat) (T : Rat) : Prop where
  lvl : ∀ v x, fixed v = some x → x * (S.var v).penalty ≤ T
  ub : ∀ v x, fixed v = some x → 0 < (S.var v).bound → x ≤ (S.var v).bound
  recd : ∀ v x, fixed v = some x → RecS S fixed v x
  cap : ∀ c ∈ S.active, T * use S fixed c ≤ rem S fixed c
  bnd : ∀ v ∈ vars, fixed v = none → 0 < (S.var v).bound → T ≤ (S.var v).bound * (S.var v).penalty
  T0 : 0 ≤ T

theorem isSome_keep (fixed fixed' : Nat → Option Rat) (hkeep : ∀ v x, fixed v = some x → fixed' v = some x) (v : Nat)
    (h : (fixed v).isSome = true) : (fixed' v).isSome = true := by
  cases hf : fixed v with
  | none => rw [hf] at h; simp at h
  | some x => rw [hkeep v x hf]; rfl

theorem J_step (S : Sys) (hwf : WF S) (vars : List Nat) (hvp : ∀ v ∈ vars, 0 < (S.var v).penalty)
    (hcv : ∀ c ∈ S.active, ∀ e ∈ (S.cnst c).elems, 0 < e.2 → e.1 ∈ vars)
    (fixed fixed' : Nat → Option Rat) (T t : Rat) (hJ : J S vars fixed T) (hE : Ext S vars fixed fixed' t)
    (hL1 : ∀ c ∈ S.active, t * use S fixed c ≤ rem S fixed c)
    (hL2 : ∀ v ∈ vars, fixed v = none → 0 < (S.var v).bound → t ≤ (S.var v).bound * (S.var v).penalty)
    (hTt : T ≤ t) : J S vars fixed' t := by
  have hnone : ∀ v, fixed' v = none → fixed v = none := by
    intro v h
    cases hf : fixed v with
    | none => rfl
    | some x => rw [hE.keep v x hf] at h; simp at h
  have hlvl : ∀ v x, fixed' v = some x → x * (S.var v).penalty ≤ t := by
    intro v x h
    cases hf : fixed v with
    | some y =>
      rw [hE.keep v y hf] at h
      have hyx : y = x := Option.some.inj h
      subst hyx
      exact le_trans (hJ.lvl v y hf) hTt
    | none => exact le_of_eq (hE.new v x hf h).2.1
  constructor
  · exact hlvl
  · intro v x h hb
    cases hf : fixed v with
    | some y =>
      rw [hE.keep v y hf] at h
      have hyx : y = x := Option.some.inj h
      subst hyx
      exact hJ.ub v y hf hb
    | none =>
      obtain ⟨hv, hx, _⟩ := hE.new v x hf h
      have := hL2 v hv hf hb
      have hp := hvp v hv
      rw [← hx] at this
      exact le_of_mul_le_mul_right this hp
  · intro v x h
    cases hf : fixed v with
    | some y =>
      rw [hE.keep v y hf] at h
      have hyx : y = x := Option.some.inj h
      subst hyx
      rcases hJ.recd v y hf with hb | ⟨c, hc, hmem, hcl, hrem, hmax⟩
      · exact Or.inl hb
      · right
        refine ⟨c, hc, hmem, fun e he hw => isSome_keep fixed fixed' hE.keep e.1 (hcl e he hw), ?_, ?_⟩
        · rw [rem_closed S hwf fixed fixed' hE.keep c hc hcl]; exact hrem
        · intro e he hw z hz
          have := hcl e he hw
          cases hfe : fixed e.1 with
          | none => rw [hfe] at this; simp at this
          | some z' =>
            rw [hE.keep e.1 z' hfe] at hz
            have hzz : z' = z := Option.some.inj hz
            subst hzz
            exact hmax e he hw z' hfe
    | none =>
      obtain ⟨hv, hx, hr⟩ := hE.new v x hf h
      rcases hr with hb | ⟨c, hc, hmem, hu, htight⟩
      · exact Or.inl hb
      · right
        have hcl' : ∀ e ∈ (S.cnst c).elems, 0 < e.2 → (fixed' e.1).isSome = true := by
          intro e he hw
          cases hfe : fixed e.1 with
          | some z => rw [hE.keep e.1 z hfe]; rfl
          | none =>
            exact hE.comp e.1 (hcv c hc e he hw) hfe (Or.inr ⟨c, hc, ⟨e, he, rfl, hw⟩, hu, htight⟩)
        refine ⟨c, hc, hmem, hcl', ?_, ?_⟩
        · rw [rem_step S hwf vars fixed fixed' t hE c hc, use_closed S hwf fixed' c hc hcl', htight]; ring
        · intro e he hw z hz
          rw [hx]; exact hlvl e.1 z hz
  · intro c hc
    rw [rem_step S hwf vars fixed fixed' t hE c hc]
    have := hL1 c hc
    linarith
  · intro v hv h hb
    exact hL2 v hv (hnone v h) hb
  · exact le_trans hJ.T0 hTt

/-! ### `fill` -/

def cnt (vars : List Nat) (fixed : Nat → Option Rat) : Nat := (vars.filter (fun v => !(fixed v).isSome)).length

theorem cnt_zero (vars : List Nat) (fixed : Nat → Option Rat) (h : cnt vars fixed = 0) :
    ∀ v ∈ vars, (fixed v).isSome = true := by
  intro v hv
  unfold cnt at h
  have := List.length_eq_zero_iff.mp h
  rw [List.filter_eq_nil_iff] at this
  cases hf : fixed v with
  | some x => rfl
  | none =>
    have h2 := this v hv
    rw [hf] at h2; simp at h2

/-- every consumer is frozen -/
def AllFixed (S : Sys) (fixed : Nat → Option Rat) : Prop :=
  ∀ c ∈ S.active, ∀ e ∈ (S.cnst c).elems, 0 < e.2 → (fixed e.1).isSome = true

theorem allFixed_of_use (S : Sys) (hwf : WF S) (fixed : Nat → Option Rat)
    (h : ∀ c ∈ S.active, ¬ 0 < use S fixed c) : AllFixed S fixed := by
  intro c hc e he hw
  cases hf : fixed e.1 with
  | some x => rfl
  | none =>
    exfalso
    apply h c hc
    rw [use_eq]
    have h1 := sumBy_le_of_mem (useT S fixed) (S.cnst c).elems (fun a ha => useT_nonneg S hwf fixed c hc a ha) e he
    have h2 : 0 < useT S fixed e := by
      unfold useT; rw [hf]; exact div_pos hw (hwf.el_pen c hc e he)
    linarith

theorem fill_spec (S : Sys) (hwf : WF S) (vars : List Nat) (hvp : ∀ v ∈ vars, 0 < (S.var v).penalty)
    (hcv : ∀ c ∈ S.active, ∀ e ∈ (S.cnst c).elems, 0 < e.2 → e.1 ∈ vars) :
    ∀ (n : Nat) (tab : List (Nat × Rat)) (T : Rat), J S vars (look tab) T → cnt vars (look tab) ≤ n →
      ∃ T', J S vars (look (fill S vars n tab)) T' ∧ AllFixed S (look (fill S vars n tab)) := by
  intro n
  induction n with
  | zero =>
    intro tab T hJ hc
    refine ⟨T, hJ, ?_⟩
    intro c hcc e he hw
    exact cnt_zero vars (look tab) (by omega) e.1 (hcv c hcc e he hw)
  | succ n ih =>
    intro tab T hJ hc
    rw [fill]
    have hls := level_spec S vars (look tab)
    cases hl : level S vars (look tab) with
    | none => exact ⟨T, hJ, allFixed_of_use S hwf (look tab) (hls.1 hl)⟩
    | some t =>
      simp only []
      obtain ⟨hA, hB, hatt⟩ := hls.2 t hl
      have hE := ext_of_frozen S vars hvp tab t
      have hL1 : ∀ c ∈ S.active, t * use S (look tab) c ≤ rem S (look tab) c := by
        intro c hcc
        by_cases hu : 0 < use S (look tab) c
        · have := hA c hcc hu
          rwa [le_div_iff₀ hu] at this
        · have h0 : use S (look tab) c = 0 := le_antisymm (not_lt.mp hu) (use_nonneg S hwf (look tab) c hcc)
          have := hJ.cap c hcc
          rw [h0] at this ⊢
          simpa using this
      have hTt : T ≤ t := by
        rcases hatt with ⟨c, hcc, hu, hg⟩ | ⟨v, hv, hf, hb, hg⟩
        · rw [← hg, le_div_iff₀ hu]; exact hJ.cap c hcc
        · rw [← hg]; exact hJ.bnd v hv hf hb
      have hJ' := J_step S hwf vars hvp hcv (look tab) _ T t hJ hE hL1 hB hTt
      -- progress: one more variable of `vars` is frozen
      obtain ⟨u, hu, hu0, hu1⟩ : ∃ u ∈ vars, look tab u = none ∧
          (look (tab ++ frozen S vars (look tab) t) u).isSome = true := by
        rcases hatt with ⟨c, hcc, hu, hg⟩ | ⟨v, hv, hf, hb, hg⟩
        · have hu' := hu
          rw [use_eq] at hu'
          obtain ⟨e, he, hpos⟩ := sumBy_pos_exists _ _ hu'
          have hfe : look tab e.1 = none := by
            cases hf : look tab e.1 with
            | none => rfl
            | some x => unfold useT at hpos; rw [hf] at hpos; simp at hpos
          have hw : 0 < e.2 := by
            unfold useT at hpos; rw [hfe] at hpos
            have hp := hwf.el_pen c hcc e he
            by_contra hn
            have : e.2 / (S.var e.1).penalty ≤ 0 := div_nonpos_of_nonpos_of_nonneg (by linarith) (le_of_lt hp)
            simp only [] at hpos
            linarith
          have htight : rem S (look tab) c = t * use S (look tab) c := by
            rw [← hg]; exact (div_mul_cancel₀ _ (ne_of_gt hu)).symm
          exact ⟨e.1, hcv c hcc e he hw, hfe,
            hE.comp e.1 (hcv c hcc e he hw) hfe (Or.inr ⟨c, hcc, ⟨e, he, rfl, hw⟩, hu, htight⟩)⟩
        · exact ⟨v, hv, hf, hE.comp v hv hf (Or.inl ⟨hb, hg⟩)⟩
      have hlt : cnt vars (look (tab ++ frozen S vars (look tab) t)) < cnt vars (look tab) := by
        unfold cnt
        apply filter_len_lt vars (fun v => (look tab v).isSome) (fun v => (look (tab ++ frozen S vars (look tab) t) v).isSome)
        · intro w hw; exact isSome_keep _ _ hE.keep w hw
        · exact ⟨u, hu, by rw [hu0]; rfl, hu1⟩
      exact ih _ t hJ' (by omega)

/-! ### the reference allocation is fair -/

theorem mem_consuming (S : Sys) (v : Nat) :
    v ∈ consuming S ↔ v ∈ S.vorder ∧ 0 < (S.var v).penalty ∧ consumes S v = true := by
  unfold consuming; simp

theorem load_of_fixed (S : Sys) (hwf : WF S) (fixed : Nat → Option Rat) (x : Nat → Rat) (c : Nat) (hc : c ∈ S.active)
    (hf : (S.cnst c).fatpipe = false) (hx : ∀ v y, fixed v = some y → x v = y)
    (hcl : ∀ e ∈ (S.cnst c).elems, 0 < e.2 → (fixed e.1).isSome = true) :
    load S x c = (S.cnst c).bound - rem S fixed c := by
  rw [load_eq_sumBy S x c hf, rem_eq]
  have : sumBy (fun e => if 0 < e.2 then e.2 * x e.1 else 0) (S.cnst c).elems = sumBy (remT fixed) (S.cnst c).elems := by
    apply sumBy_congr
    intro e he
    unfold remT
    by_cases hw : 0 < e.2
    · have := hcl e he hw
      cases hfe : fixed e.1 with
      | none => rw [hfe] at this; simp at this
      | some y => simp only [hw, if_true]; rw [hx e.1 y hfe]
    · have hw0 : e.2 = 0 := le_antisymm (not_lt.mp hw) (hwf.el_w c hc e he)
      cases fixed e.1 with
      | none => simp [hw]
      | some y => simp [hw0]
  rw [this]; ring

/-- **the water-filling reference is a weighted max-min fair allocation** of every well-formed system of summing
constraints -/
theorem alloc_fair (S : Sys) (hwf : WF S) (hwv : WFV S) (hsh : ∀ c ∈ S.active, (S.cnst c).fatpipe = false) :
    FairAlloc S (alloc S) := by
  have hvp : ∀ v ∈ consuming S, 0 < (S.var v).penalty := fun v hv => ((mem_consuming S v).mp hv).2.1
  have hcv : ∀ c ∈ S.active, ∀ e ∈ (S.cnst c).elems, 0 < e.2 → e.1 ∈ consuming S := by
    intro c hc e he hw
    refine (mem_consuming S e.1).mpr ⟨hwv.vo_all c hc e he, hwf.el_pen c hc e he, ?_⟩
    unfold consumes
    rw [List.any_eq_true]
    exact ⟨(c, e.2), hwv.el_in_var c hc e he, by simpa using hw⟩
  have hJ0 : J S (consuming S) (look []) 0 := by
    have hl : ∀ v, look [] v = none := fun v => rfl
    constructor
    · intro v x h; rw [hl] at h; simp at h
    · intro v x h; rw [hl] at h; simp at h
    · intro v x h; rw [hl] at h; simp at h
    · intro c hc
      rw [rem_eq]
      have : sumBy (remT (look [])) (S.cnst c).elems = 0 := by
        apply sumBy_zero; intro e _; unfold remT; rw [hl]
      rw [this, zero_mul, sub_zero]; exact le_of_lt (hwf.cb_pos c hc)
    · intro v hv _ hb
      have := hvp v hv
      positivity
    · exact le_refl 0
  obtain ⟨T', hJ, hall⟩ := fill_spec S hwf (consuming S) hvp hcv ((consuming S).length + 1) [] 0 hJ0 (by
    unfold cnt
    have := List.length_filter_le (fun v => !(look [] v).isSome) (consuming S)
    omega)
  have hx : ∀ v y, look (fill S (consuming S) ((consuming S).length + 1) []) v = some y → alloc S v = y := by
    intro v y h
    show (look (fill S (consuming S) ((consuming S).length + 1) []) v).getD 0 = y
    rw [h]; rfl
  generalize look (fill S (consuming S) ((consuming S).length + 1) []) = fixed at hJ hall hx
  constructor
  · intro c hc
    rw [load_of_fixed S hwf fixed (alloc S) c hc (hsh c hc) hx (hall c hc)]
    have := hJ.cap c hc
    rw [use_closed S hwf fixed c hc (hall c hc), mul_zero] at this
    linarith
  · intro c hc e he hw hb
    have := hall c hc e he hw
    cases hfe : fixed e.1 with
    | none => rw [hfe] at this; simp at this
    | some y => rw [hx e.1 y hfe]; exact hJ.ub e.1 y hfe hb
  · intro c hc e he hw
    have := hall c hc e he hw
    cases hfe : fixed e.1 with
    | none => rw [hfe] at this; simp at this
    | some y =>
      rw [hx e.1 y hfe]
      rcases hJ.recd e.1 y hfe with hb | ⟨c', hc', hmem, hcl, hrem, hmax⟩
      · exact Or.inl hb
      · right
        refine ⟨c', hc', hmem, ?_, ?_⟩
        · rw [load_of_fixed S hwf fixed (alloc S) c' hc' (hsh c' hc') hx hcl, hrem]; ring
        · intro e'' he'' hw''
          have := hcl e'' he'' hw''
          cases hfe'' : fixed e''.1 with
          | none => rw [hfe''] at this; simp at this
          | some z => rw [hx e''.1 z hfe'']; exact hmax e'' he'' hw'' z hfe''

end SgVerif.Lmm.Spec
