/-
The FATPIPE fact missing from the first pass: **a positive `usage_` of a FATPIPE constraint is attained by an unfixed
consumer** (`InvA`).  `usage_` of a FATPIPE constraint is only ever written by the INIT pass (max over all enabled
elements) and by the recomputation in the loop over `var.cnsts_` (max over the elements whose variable still has
`value_ <= 0`), and a variable that gets fixed has every FATPIPE constraint it consumes recomputed before the loop over
its `cnsts_` ends (`WF.consist`).  With it, a saturated FATPIPE constraint always contributes a variable to fix
(termination) and `max w·value = capacity` on it (bottleneck property).
-/
import SgVerif.Lmm.Lemmas
namespace SgVerif.Lmm

theorem fatFold_attained (S : Sys) (value : Nat → Rat) (l : List (Nat × Rat)) (u0 : Rat) :
    let r := l.foldl (fun u e =>
      if 0 < value e.1 then u
      else if 0 < e.2 then (let x := e.2 / (S.var e.1).penalty; if u < x then x else u) else u) u0
    r = u0 ∨ ∃ e ∈ l, ¬ 0 < value e.1 ∧ 0 < e.2 ∧ e.2 / (S.var e.1).penalty = r := by
  induction l generalizing u0 with
  | nil => simp
  | cons a t ih =>
    simp only [List.foldl_cons]
    set u1 := (if 0 < value a.1 then u0
      else if 0 < a.2 then (let x := a.2 / (S.var a.1).penalty; if u0 < x then x else u0) else u0) with hu1
    have h1 : u1 = u0 ∨ (¬ 0 < value a.1 ∧ 0 < a.2 ∧ a.2 / (S.var a.1).penalty = u1) := by
      rw [hu1]
      by_cases hv : 0 < value a.1
      · left; simp only [hv, if_true]
      · by_cases hw : 0 < a.2
        · rw [if_neg hv, if_pos hw]
          by_cases hlt : u0 < a.2 / (S.var a.1).penalty
          · right; simp only [hlt, if_true]; exact ⟨hv, hw, trivial⟩
          · left; simp only [hlt, if_false]
        · left; rw [if_neg hv, if_neg hw]
    rcases ih u1 with h2 | ⟨e, he, h2⟩
    · rcases h1 with h1 | h1
      · left; rw [h2, h1]
      · right; exact ⟨a, by simp, h1.1, h1.2.1, by rw [h2]; exact h1.2.2⟩
    · right; exact ⟨e, by simp [he], h2⟩

theorem fatUsage_attained (S : Sys) (value : Nat → Rat) (c : Nat) (h : 0 < fatUsage S value c) :
    ∃ e ∈ (S.cnst c).elems, ¬ 0 < value e.1 ∧ 0 < e.2 ∧ e.2 / (S.var e.1).penalty = fatUsage S value c := by
  rcases fatFold_attained S value (S.cnst c).elems 0 with h0 | h0
  · unfold fatUsage at h; rw [h0] at h; exact absurd h (lt_irrefl 0)
  · exact h0

/-- `usage_` of an active FATPIPE constraint, when positive, is `w/penalty` of an enabled element (w > 0) whose variable
is not fixed yet — or is the variable `v` being fixed, while an element of `v` on that constraint is still to be
processed by the loop over `var.cnsts_` (`L` = the elements still to be processed). -/
def InvA (S : Sys) (st : St) (v : Nat) (L : List (Nat × Rat)) : Prop :=
  ∀ c ∈ S.active, (S.cnst c).fatpipe = true → 0 < st.usage c →
    ∃ e ∈ (S.cnst c).elems, 0 < e.2 ∧ e.2 / (S.var e.1).penalty = st.usage c ∧
      (st.fixed e.1 = false ∨ (e.1 = v ∧ 0 < wOf c L))

theorem invA_nil (S : Sys) (st : St) (v v' : Nat) (h : InvA S st v []) : InvA S st v' [] := by
  intro c hc hf hp
  obtain ⟨e, he, hw, hu, h1⟩ := h c hc hf hp
  refine ⟨e, he, hw, hu, Or.inl ?_⟩
  rcases h1 with h1 | h1
  · exact h1
  · exact absurd h1.2 (by simp)

theorem updCnst_usage_other (S : Sys) (eps : Rat) (v : Nat) (st : St) (e : Nat × Rat) (c : Nat) (h : c ≠ e.1) :
    (updCnst S eps v st e).usage c = st.usage c := by
  unfold updCnst; simp only []; split <;> split <;> simp [upd, h]

theorem updCnst_usage_fat (S : Sys) (eps : Rat) (v : Nat) (st : St) (e : Nat × Rat) (hf : (S.cnst e.1).fatpipe = true) :
    (updCnst S eps v st e).usage e.1 = fatUsage S st.value e.1 := by
  unfold updCnst; simp only [hf, Bool.not_true, Bool.false_eq_true, if_false]; split <;> simp [upd]

theorem updCnst_invA (S : Sys) (eps : Rat) (st : St) (v c0 : Nat) (w : Rat) (L : List (Nat × Rat))
    (hvp : ∀ u, st.fixed u = true → 0 < st.value u) (hA : InvA S st v ((c0, w) :: L)) :
    InvA S (updCnst S eps v st (c0, w)) v L := by
  intro c hc hf hp
  have hfx := (updCnst_fixed S eps v st (c0, w)).1
  by_cases hcc : c = c0
  · subst hcc
    rw [updCnst_usage_fat S eps v st (c, w) hf] at hp ⊢
    obtain ⟨e, he, hv, hw, hu⟩ := fatUsage_attained S st.value c hp
    refine ⟨e, he, hw, hu, Or.inl ?_⟩
    rw [hfx]
    cases hfe : st.fixed e.1 with
    | false => rfl
    | true => exact absurd (hvp e.1 hfe) hv
  · rw [updCnst_usage_other S eps v st (c0, w) c hcc] at hp ⊢
    obtain ⟨e, he, hw, hu, h1⟩ := hA c hc hf hp
    refine ⟨e, he, hw, hu, ?_⟩
    rw [hfx]
    rw [wOf_cons_ne c c0 w L hcc] at h1
    exact h1

theorem foldCnst_invA (S : Sys) (eps : Rat) (v : Nat) (L : List (Nat × Rat)) :
    ∀ st : St, (∀ u, st.fixed u = true → 0 < st.value u) → InvA S st v L →
      InvA S (L.foldl (updCnst S eps v) st) v [] := by
  induction L with
  | nil => intro st _ h; exact h
  | cons e t ih =>
    intro st hvp hA
    obtain ⟨c0, w⟩ := e
    simp only [List.foldl_cons]
    have h2 := updCnst_fixed S eps v st (c0, w)
    apply ih
    · intro u hu; rw [h2.1] at hu; rw [h2.2]; exact hvp u hu
    · exact updCnst_invA S eps st v c0 w t hvp hA

theorem wOf_ge_of_mem (l : List (Nat × Rat)) (h : ∀ e ∈ l, 0 ≤ e.2) (e : Nat × Rat) (he : e ∈ l) : e.2 ≤ wOf e.1 l := by
  have := sumBy_le_of_mem (fun a => if a.1 = e.1 then a.2 else 0) l
    (by intro a ha; split
        · exact h a ha
        · exact le_refl 0) e he
  simpa [wOf] using this

theorem fixVar_invA (S : Sys) (hwf : WF S) (eps : Rat) (st : St) (v v0 v1 : Nat) (x : Rat)
    (hvp : ∀ u, st.fixed u = true → 0 < st.value u) (hx : 0 < x) (hv : st.fixed v = false)
    (hpv : 0 < (S.var v).penalty) (hA : InvA S st v0 []) : InvA S (fixVar S eps st v x) v1 [] := by
  unfold fixVar
  apply invA_nil S _ v v1
  apply foldCnst_invA
  · intro u hu
    by_cases h : u = v
    · subst h; simpa using hx
    · simp only [upd, h, if_false] at hu ⊢; exact hvp u hu
  · intro c hc hf hp
    obtain ⟨e, he, hw, hu, h1⟩ := hA c hc hf hp
    have hfe : st.fixed e.1 = false := by
      rcases h1 with h1 | h1
      · exact h1
      · exact absurd h1.2 (by simp)
    refine ⟨e, he, hw, hu, ?_⟩
    by_cases hev : e.1 = v
    · right
      refine ⟨hev, ?_⟩
      rw [← hwf.consist c hc v hpv, ← hev]
      exact lt_of_lt_of_le hw (wOf_ge_of_mem _ (hwf.el_w c hc) e he)
    · left; simp only [upd, hev, if_false]; exact hfe

theorem fixLoop_invA (S : Sys) (hwf : WF S) (m mb : Rat) (hm : 0 < m) (sv : List Nat) :
    ∀ st : St, InvG S m st.fixed st.value → InvK S m st 0 0 [] → InvL S st →
      (∀ v ∈ sv, st.fixed v = false ∧ 0 < (S.var v).penalty) → sv.Nodup →
      (mb < 0 → ∀ v ∈ sv, 0 < (S.var v).bound → m ≤ (S.var v).bound * (S.var v).penalty) →
      (¬ mb < 0 → 0 < mb ∧ mb < m) → InvA S st 0 [] →
      InvA S (fixLoop S 0 mb m st sv) 0 [] := by
  induction sv with
  | nil => intro st _ _ _ _ _ _ _ hA; rw [fixLoop_nil]; exact hA
  | cons v rest ih =>
    intro st hG hK hL hsv hnd hmb1 hmb2 hA
    have hv := hsv v (by simp)
    have hpv := hv.2
    have hnd' : rest.Nodup := (List.nodup_cons.mp hnd).2
    have hvr : v ∉ rest := (List.nodup_cons.mp hnd).1
    have step : ∀ x : Rat, 0 < x → x * (S.var v).penalty ≤ m → (0 < (S.var v).bound → x ≤ (S.var v).bound) →
        InvA S (fixLoop S 0 mb m (fixVar S 0 st v x) rest) 0 [] := by
      intro x hx hxm hxb
      have h1 := fixVar_inv S hwf m hm st v x hG hK hL hv.1 hv.2 hx hxm hxb
      have hsv' : ∀ u ∈ rest, (fixVar S 0 st v x).fixed u = false ∧ 0 < (S.var u).penalty := by
        intro u hu
        have hne : u ≠ v := fun h => hvr (h ▸ hu)
        rw [h1.2.2.2.1]; simp only [upd, hne, if_false]; exact hsv u (by simp [hu])
      exact ih (fixVar S 0 st v x) h1.1 h1.2.1 h1.2.2.1 hsv' hnd'
        (fun h u hu => hmb1 h u (by simp [hu])) hmb2
        (fixVar_invA S hwf 0 st v 0 0 x hG.valpos hx hv.1 hpv hA)
    by_cases hmb : mb < 0
    · rw [fixLoop_neg S 0 mb m st v rest hmb]
      apply step _ (div_pos hm hpv)
      · rw [div_mul_cancel₀ _ (ne_of_gt hpv)]
      · intro hb; rw [div_le_iff₀ hpv]; exact hmb1 hmb v (by simp) hb
    · have hmbp := hmb2 hmb
      by_cases hc : 0 < (S.var v).bound ∧ dblEq mb ((S.var v).bound * (S.var v).penalty) 0 = true
      · rw [fixLoop_eq S 0 mb m st v rest hmb hc]
        have heq' := (dblEq_zero _ _).mp hc.2
        have hb : 0 < (S.var v).bound := hc.1
        exact step (S.var v).bound hb (by linarith [hmbp.2]) (fun _ => le_refl _)
      · rw [fixLoop_skip S 0 mb m st v rest hmb hc]
        exact ih st hG hK hL (fun u hu => hsv u (by simp [hu])) hnd'
          (fun h u hu => hmb1 h u (by simp [hu])) hmb2 hA

theorem round_invA (S : Sys) (hwf : WF S) (st : St) (sv : List Nat) (h : RInv S st sv) (hA : InvA S st 0 []) :
    InvA S (round S 0 st sv) 0 [] := by
  unfold round
  have hfix : InvG S st.minUsage (fixLoop S 0 (minBound S st.minUsage sv) st.minUsage st sv).fixed
        (fixLoop S 0 (minBound S st.minUsage sv) st.minUsage st sv).value ∧
      InvK S st.minUsage (fixLoop S 0 (minBound S st.minUsage sv) st.minUsage st sv) 0 0 [] ∧
      InvL S (fixLoop S 0 (minBound S st.minUsage sv) st.minUsage st sv) ∧
      InvA S (fixLoop S 0 (minBound S st.minUsage sv) st.minUsage st sv) 0 [] := by
    cases hsv : sv with
    | nil => rw [fixLoop_nil]; exact ⟨h.g, h.k, h.l, hA⟩
    | cons v t =>
      have hm : 0 < st.minUsage := by
        rcases h.sel with ⟨_, _, hs⟩ | ⟨_, hm, _⟩
        · have := h.sv_nil hs; rw [hsv] at this; simp at this
        · exact hm
      rw [← hsv]
      have hmb := minBound_spec S st.minUsage sv (fun v hv => (h.sv_ok v hv).2)
      have hmb1 : minBound S st.minUsage sv < 0 → ∀ u ∈ sv, 0 < (S.var u).bound →
          st.minUsage ≤ (S.var u).bound * (S.var u).penalty := by
        intro hneg u hu hb
        by_contra hlt
        exact hmb.1 hneg u hu ⟨hb, by linarith⟩
      have := fixLoop_inv S hwf st.minUsage (minBound S st.minUsage sv) hm sv st h.g h.k h.l h.sv_ok h.sv_nd hmb1 hmb.2
      exact ⟨this.1, this.2.1, this.2.2.1,
        fixLoop_invA S hwf st.minUsage (minBound S st.minUsage sv) hm sv st h.g h.k h.l h.sv_ok h.sv_nd hmb1 hmb.2 hA⟩
  have hr := reselect_inv S hwf st.minUsage _ hfix.1 hfix.2.1 hfix.2.2.1
  intro c hc hf hp
  rw [hr.2.2.2.2.2.2.2.2] at hp ⊢
  rw [hr.2.2.2.2.1]
  exact hfix.2.2.2 c hc hf hp

theorem init_invA (S : Sys) (hwf : WF S) (val0 : Nat → Rat) : InvA S (initAll S 0 val0) 0 [] := by
  have I := initAll_I S hwf val0
  intro c hc hf hp
  rw [(I.ru c hc).2, initUsage_fat S c hf] at hp ⊢
  obtain ⟨e, he, _, hw, hu⟩ := fatUsage_attained S (fun _ => 0) c hp
  exact ⟨e, he, hw, hu, Or.inl (by rw [I.fx])⟩

end SgVerif.Lmm
