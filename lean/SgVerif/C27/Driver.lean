import SgVerif.C27.Model
import SgVerif.Common.Proto
open SgVerif.Proto
namespace SgVerif.C27
open SgVerif.Xbt

def hexDigit (c : Char) : Option Nat := hexVal c

/-- "616263" -> ['a','b','c'] (bytes as characters; "-" is the empty string) -/
def unhex (h : String) : Option (List Char) :=
  if h == "-" then some [] else
  let rec go : List Char → List Char → Option (List Char)
    | [], acc => some acc.reverse
    | [_], _ => none
    | a :: b :: t, acc =>
      match hexDigit a, hexDigit b with
      | some x, some y => go t (Char.ofNat (x * 16 + y) :: acc)
      | _, _ => none
  go h.toList []

def hexOf (s : List Char) : String :=
  if s.isEmpty then "-" else
  let d := "0123456789abcdef".toList
  String.ofList (s.flatMap (fun c => [d.getD (c.toNat / 16 % 16) '?', d.getD (c.toNat % 16) '?']))

def parseRat (s : String) : Option Rat :=
  match s.splitOn "/" with
  | [n, d] => match n.toInt?, d.toNat? with
    | some n, some d => if d = 0 then none else some ((n : Rat) / (d : Rat))
    | _, _ => none
  | [n] => n.toInt?.map (fun n => (n : Rat))
  | _ => none

def ratAbs (x : Rat) : Rat := if x < 0 then -x else x

/-- is the implementation's double `x` (an exact rational, or inf, -inf, nan) what the code computes for the exact
value `v`?  The code rounds three times (strtod, the multiplier chain `value *= 1000.0`, the final product):
tolerance 2.5 ulp = 5·2^-53 relative; overflow of the final product gives an infinity. -/
def closeTo (v : Rat) (x : String) : Bool :=
  let a := ratAbs v
  let big := two 1024 - two 970
  if x == "inf" then decide (0 < v) && decide (big ≤ a * (1 + 5 / two 53))
  else if x == "-inf" then decide (v < 0) && decide (big ≤ a * (1 + 5 / two 53))
  else match parseRat x with
    | none => false
    | some y => decide (ratAbs (y - v) ≤ a * 5 / two 53 + (if a < 1 / two 1000 then 1 / two 1073 else 0))

def kindOf : String → Option Kind
  | "time" => some .time
  | "size" => some .size
  | "bandwidth" => some .bandwidth
  | "speed" => some .speed
  | _ => none

def matchOne (o : Outcome) (x : String) : Bool :=
  match o with
  | .value v _ => closeTo v x
  | .infinite neg _ => x == (if neg then "-inf" else "inf")
  | .nan _ => x == "nan"
  | _ => false

def warnOf : Outcome → Bool
  | .value _ w => w
  | .infinite _ w => w
  | .nan w => w
  | _ => false

def showOutcome : Outcome → String
  | .value v w => s!"val {if w then 1 else 0} {v}"
  | .infinite neg w => s!"val {if w then 1 else 0} {if neg then "-inf" else "inf"}"
  | .nan w => s!"val {if w then 1 else 0} nan"
  | .errRange => "err range"
  | .errNoNumber => "err nonumber"
  | .errUnit u => s!"err unit {hexOf u.toList}"
  | .impossible => "impossible"

/-- the default units promised by the documentation (simgrid.dtd: speed 'f', bandwidth 'Bps', latency 's'; sizes are
in bytes) -/
def docDefault : Kind → String
  | .time => "s" | .size => "B" | .bandwidth => "Bps" | .bandwidths => "Bps" | .speed => "f"

/-- The property's own predicate on the implementation's answer, from the *specification* only (number syntax +
`documented` + the list of units the documentation names):
  * no number at the start              ⇒ rejected
  * number + documented unit            ⇒ the value is number × documented multiplier
  * number + a unit the documentation lists ⇒ accepted
  * number + undocumented, unlisted unit ⇒ rejected -/
def monitor (k : Kind) (s : List Char) (a : List String) : Option String :=
  let isErr := a.head? == some "err"
  match strtod s with
  | .noconv => if isErr then none else some "malformed number accepted"
  | .erange => none
  | .ok neg n rest =>
    let u := if rest.isEmpty then docDefault k else String.ofList rest
    match documented k u with
    | some m =>
      match n, a with
      | .fin v, ["val", _, x] =>
        if closeTo (signed neg v * m.toRat) x then none
        else some s!"documented unit {u}: value is not number x documented multiplier ({signed neg v * m.toRat})"
      | .fin _, _ => some s!"documented unit {u} rejected"
      | _, _ => none
    | none =>
      if Gen.docListed.contains (k, u) then
        if isErr then some s!"unit {u} is listed in the documentation but rejected" else none
      else if isErr then none else some s!"undocumented unit {u} accepted"

def judgeOne (k : Kind) (entity : Bool) (s : List Char) (a : List String) : Verdict :=
  let o := parseValue k entity s
  let agree : Bool := match o, a with
    | .errRange, ["err", "range"] => true
    | .errNoNumber, ["err", "nonumber"] => true
    | .errUnit u, ["err", "unit", h] => hexOf u.toList == h
    | o, ["val", w, x] => (w == (if warnOf o then "1" else "0")) && matchOne o x
    | _, _ => false
  match monitor k s a with
  | some r => .monfail r
  | none => if agree then .ok else .disagree (showOutcome o)

def judgeList (r : List Outcome ⊕ Outcome) (a : List String) : Verdict :=
  match r, a with
  | .inr .errRange, ["err", "range"] => .ok
  | .inr .errNoNumber, ["err", "nonumber"] => .ok
  | .inr (.errUnit u), ["err", "unit", h] => if hexOf u.toList == h then .ok else .disagree s!"err unit {hexOf u.toList}"
  | .inl os, "val" :: w :: xs =>
    if os.length == xs.length && (w == (if os.any warnOf then "1" else "0")) && (os.zip xs).all (fun (o, x) => matchOne o x)
    then .ok else .disagree (" | ".intercalate (os.map showOutcome))
  | .inl os, _ => .disagree (" | ".intercalate (os.map showOutcome))
  | .inr o, _ => .disagree (showOutcome o)

def judge (q a : List String) : Verdict :=
  match q with
  | [fn, ent, hx] =>
    match unhex hx with
    | none => .bad
    | some s =>
      let entity := ent == "1"
      match fn with
      | "bandwidths" => judgeList (parseBandwidths entity s) a
      | "speeds" => judgeList (parseSpeeds entity s) a
      | _ => match kindOf fn with
        | some k => judgeOne k entity s a
        | none => .bad
  | _ => .bad

end SgVerif.C27

def main : IO Unit := SgVerif.Proto.run SgVerif.C27.judge
