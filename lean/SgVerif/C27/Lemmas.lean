import SgVerif.C27.Model
/-
C27 — helper lemmas: association lists, the digit scanner.
-/
namespace SgVerif.C27
open SgVerif.Xbt

theorem lookup_none_of_not_mem (t : Table) (u : String) (h : u ∉ t.map Prod.fst) : t.lookup u = none := by
  induction t with
  | nil => rfl
  | cons p t ih =>
    obtain ⟨k, v⟩ := p
    simp only [List.map_cons, List.mem_cons, not_or] at h
    have hne : (u == k) = false := by
      simp only [beq_eq_false_iff_ne, ne_eq]; exact h.1
    simp only [List.lookup_cons, hne]
    exact ih h.2

/-- two association lists agree on every key as soon as they agree on the (finitely many) keys they contain, possibly
outside an excluded set `P` -/
theorem lookup_ext_except (P : String → Prop) (t1 t2 : Table)
    (h : ∀ k ∈ t1.map Prod.fst ++ t2.map Prod.fst, P k ∨ t1.lookup k = t2.lookup k) :
    ∀ u, ¬ P u → t1.lookup u = t2.lookup u := by
  intro u hu
  by_cases hm : u ∈ t1.map Prod.fst ++ t2.map Prod.fst
  · cases h u hm with
    | inl hp => exact absurd hp hu
    | inr he => exact he
  · simp only [List.mem_append, not_or] at hm
    rw [lookup_none_of_not_mem t1 u hm.1, lookup_none_of_not_mem t2 u hm.2]

theorem lookup_ext (t1 t2 : Table)
    (h : ∀ k ∈ t1.map Prod.fst ++ t2.map Prod.fst, t1.lookup k = t2.lookup k) :
    ∀ u, t1.lookup u = t2.lookup u := by
  intro u
  exact lookup_ext_except (fun _ => False) t1 t2 (fun k hk => Or.inr (h k hk)) u (fun h => h)

/-! ### the scanner on `digits ++ rest` -/

/-- first character of `rest` does not satisfy `p` (or `rest` is empty) -/
def stops (p : Char → Bool) : List Char → Bool
  | [] => true
  | c :: _ => !p c

theorem takeWhile_stops (p : Char → Bool) (r : List Char) (h : stops p r = true) : r.takeWhile p = [] := by
  cases r with
  | nil => rfl
  | cons c t => simp [stops] at h; simp [h]

theorem dropWhile_stops (p : Char → Bool) (r : List Char) (h : stops p r = true) : r.dropWhile p = r := by
  cases r with
  | nil => rfl
  | cons c t => simp [stops] at h; simp [h]

theorem spanP_append (p : Char → Bool) (ds r : List Char) (hd : ∀ c ∈ ds, p c = true) (hr : stops p r = true) :
    spanP p (ds ++ r) = (ds, r) := by
  unfold spanP
  rw [List.takeWhile_append_of_pos hd, List.dropWhile_append_of_pos hd, takeWhile_stops p r hr, dropWhile_stops p r hr]
  simp

theorem lookup_append_of_some (t l : Table) (u : String) (w : Q) (h : t.lookup u = some w) :
    (t ++ l).lookup u = some w := by
  induction t with
  | nil => simp at h
  | cons p t ih =>
    obtain ⟨k', v'⟩ := p
    simp only [List.cons_append, List.lookup_cons] at h ⊢
    split
    · rename_i hb; simp only [hb] at h; exact h
    · rename_i hb; simp only [hb] at h; exact ih h

/-- a string starting with a digit always has a decimal conversion -/
theorem parseDecimal_digit (c : Char) (t : List Char) (hd : isDigit c = true) :
    ∃ v r, parseDecimal (c :: t) = some (v, r) := by
  unfold parseDecimal spanP
  simp only [List.takeWhile_cons, hd, if_true, List.isEmpty_cons, Bool.false_and, Bool.false_eq_true, if_false]
  exact ⟨_, _, rfl⟩

/-- … and so does a point followed by a digit -/
theorem parseDecimal_point (d : Char) (t : List Char) (hd : isDigit d = true) :
    ∃ v r, parseDecimal ('.' :: d :: t) = some (v, r) := by
  unfold parseDecimal spanP takeFrac
  have h0 : isDigit '.' = false := by decide
  simp only [List.takeWhile_cons, List.dropWhile_cons, h0, Bool.false_eq_true, if_false, beq_self_eq_true, if_true,
    spanP, hd, List.isEmpty_nil, List.isEmpty_cons, Bool.true_and, Bool.false_eq_true]
  exact ⟨_, _, rfl⟩

/-! ### range classification of natural numbers -/

theorem nat_not_underflows (n : Nat) : underflows (n : Rat) = false := by
  have h : ((n : Rat) * two 1074).isInt = true := by
    unfold two
    rw [← Rat.natCast_mul, Rat.isInt, Rat.den_natCast]
    rfl
  unfold underflows
  rw [h]
  simp

theorem nat_not_overflows (n : Nat) (h : n < 2 ^ 1023) : overflows (n : Rat) = false := by
  unfold overflows two
  have h1 : ((n : Nat) : Rat) < ((2 ^ 1023 : Nat) : Rat) := by exact_mod_cast h
  have h2 : ((2 ^ 1024 : Nat) : Rat) = 2 * ((2 ^ 1023 : Nat) : Rat) := by
    have : (2 ^ 1024 : Nat) = 2 * 2 ^ 1023 := by rw [Nat.pow_succ]; omega
    rw [this]; push_cast; rfl
  have h3 : ((2 ^ 970 : Nat) : Rat) < ((2 ^ 1023 : Nat) : Rat) := by
    have : (2 ^ 970 : Nat) < 2 ^ 1023 := Nat.pow_lt_pow_right (by omega) (by omega)
    exact_mod_cast this
  simp only [decide_eq_false_iff_not]
  grind

/-! ### integer literals -/

/-- what may follow an integer literal without being absorbed into the number: not a digit, not a point, not the `x`
of a hexadecimal prefix, and not an exponent (`e`/`E` followed by a digit or a sign) -/
def unitSafe : List Char → Bool
  | [] => true
  | c :: t =>
    !isDigit c && !(c == '.') && !(lower c == 'x') &&
      (!(lower c == 'e') || (match t with
        | [] => true
        | d :: _ => !isDigit d && !(d == '+') && !(d == '-')))

theorem digit_facts (c : Char) (h : isDigit c = true) :
    isSpace c = false ∧ (c == '+') = false ∧ (c == '-') = false ∧ (c == '.') = false ∧ (lower c == 'x') = false := by
  have hl : lower c = c := by
    unfold lower; unfold isDigit at h
    simp only [Bool.and_eq_true, decide_eq_true_eq] at h
    have : ¬ (65 ≤ c.toNat ∧ c.toNat ≤ 90) := by omega
    simp [this]
  rw [hl]
  unfold isSpace
  have ne : ∀ d : Char, isDigit d = false → (c == d) = false := by
    intro d hd
    cases hcd : c == d with
    | false => rfl
    | true => have : c = d := by simpa using hcd
              subst this; rw [h] at hd; cases hd
  have n11 : (c.toNat == 11) = false := by
    unfold isDigit at h; simp only [Bool.and_eq_true, decide_eq_true_eq] at h
    simp; omega
  have n12 : (c.toNat == 12) = false := by
    unfold isDigit at h; simp only [Bool.and_eq_true, decide_eq_true_eq] at h
    simp; omega
  rw [ne ' ' (by decide), ne '\t' (by decide), ne '\n' (by decide), ne '\r' (by decide), ne '+' (by decide),
    ne '-' (by decide), ne '.' (by decide), ne 'x' (by decide), n11, n12]
  simp

theorem parseExp_unitSafe (r : List Char) (h : unitSafe r = true) : parseExp 'e' r = (0, r) := by
  cases r with
  | nil => rfl
  | cons c t =>
    unfold parseExp
    by_cases he : (lower c == 'e') = true
    · simp only [he, if_true]
      simp only [unitSafe, he, Bool.not_true, Bool.false_or, Bool.and_eq_true, Bool.not_eq_eq_eq_not] at h
      cases t with
      | nil => simp [takeSign, spanP]
      | cons d u =>
        obtain ⟨_, h4⟩ := h
        simp only [Bool.and_eq_true, Bool.not_eq_eq_eq_not, Bool.not_true] at h4
        obtain ⟨⟨h5, h6⟩, h7⟩ := h4
        simp [takeSign, h6, h7, spanP, h5]
    · simp [he]

theorem scale_zero (m : Nat) : scale m 10 0 = (m : Rat) := by
  unfold scale
  simp [Rat.mul_one]

end SgVerif.C27
