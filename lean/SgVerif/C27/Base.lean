/-
C27 — types shared by the generated tables (Gen.lean, produced by props/C27/gen_units.py) and the model.
Core-only.
-/
namespace SgVerif.C27

/-- a non-negative rational kept in lowest terms as two naturals, so that tables of them are decidable by `decide`
(core `Rat` equalities do not reduce).  The `double` multipliers of the code are modelled exactly by these. -/
structure Q where
  num : Nat
  den : Nat
  deriving DecidableEq, Repr

def Q.norm (n d : Nat) : Q :=
  let g := Nat.gcd n d
  ⟨n / g, d / g⟩

/-- `value *= mult` with an integral multiplier -/
def Q.mulNat (q : Q) (m : Nat) : Q := Q.norm (q.num * m) q.den

def Q.toRat (q : Q) : Rat := (q.num : Rat) / (q.den : Rat)

/-- the four tables of xbt_parse_units.cpp + the private copy in xbt_parse_get_bandwidths -/
inductive Kind where
  | time | size | bandwidth | bandwidths | speed
  deriving DecidableEq, Repr

/-- one `case` of the `switch (base)` in `unit_scale::unit_scale` -/
structure PrefixSpec where
  base : Nat
  mult : Nat
  abbr : List String
  full : List String
  deriving Repr

/-- one tuple `<unit, value for unit, base (2 or 10), true if abbreviated>` -/
structure Generator where
  unit : String
  value : Q
  base : Nat
  abbr : Bool
  deriving Repr

/-- which constructor the initialiser list selects: `std::make_pair` items use the inherited
`unordered_map(initializer_list<value_type>)`, `std::make_tuple` items the generator constructor -/
inductive TableInit where
  | pairs (l : List (String × Q))
  | gens (l : List Generator)
  deriving Repr

end SgVerif.C27
