import SgVerif.C27.Lemmas
/-
C27 — Values with units are parsed to the documented magnitudes.  Property theorems (nothing else in this file).

The tables (`table`, `lookup`) are computed by the model of `unit_scale::unit_scale` from `Gen.lean`, which the
translator regenerates from xbt_parse_units.cpp on every check: rebuilding this file re-proves the theorems against
what the code says now.  Theorems about tables are *enumerations of the finite generated table lifted to all
strings* by `lookup_ext` (a proof, the quantifier's domain being the table); theorems about parsing are for all
strings.
-/
namespace SgVerif.C27
open SgVerif.Xbt

/-- `THROW_IMPOSSIBLE` is never reached while building the four tables (enum: 5 kinds) -/
theorem tables_built : ∀ k : Kind, (table k).isSome := by
  intro k; cases k <;> decide

/-- `emplace` never changes what an existing table answers: a repeated key keeps its first value, and a new key
does not disturb the others (∀ tables, keys, values). -/
theorem emplace_keeps_existing (t : Table) (k : String) (v : Q) (u : String) (w : Q)
    (h : t.lookup u = some w) : (emplace t k v).lookup u = some w := by
  unfold emplace
  split
  · exact h
  · exact lookup_append_of_some t _ u w h

/-- **Every unit has the documented magnitude** (full statement): for every kind and *every string* `u`, what
`units.find(u)` returns in the table built by the code equals the hand-written SI/IEC specification — a unit of the
table has the documented multiplier, a string that is not a documented unit is not in the table.
(enum over the keys of the generated and of the specified tables, lifted to all strings by `lookup_ext`.)
Before fix commit "zetta" in /repo this was false for `zetaflops`/`zettaflops` (see the regression below). -/
theorem units_match_doc : ∀ (k : Kind) (u : String), lookup k u = documented k u := by
  intro k u
  cases k <;> exact lookup_ext _ _ (by decide) u

/-- the two unit names on which code and documentation differ -/
def zetaNames (k : Kind) (u : String) : Prop := k = .speed ∧ (u = "zetaflops" ∨ u = "zettaflops")

instance (k : Kind) (u : String) : Decidable (zetaNames k u) := by unfold zetaNames; infer_instance

/-- **Every unit has the documented magnitude**: for every kind and *every string* `u`, what `units.find(u)`
returns in the table built by the code equals the hand-written SI/IEC specification — a unit of the table has the
documented multiplier, a string that is not a documented unit is not in the table — except the misspelt
`zetaflops`/`zettaflops`.  (enum over the keys of the generated and of the specified tables, lifted to all strings) -/
theorem units_match_doc_partial : ∀ (k : Kind) (u : String), ¬ zetaNames k u → lookup k u = documented k u := by
  intro k u hz
  cases k
  · exact lookup_ext _ _ (by decide) u
  · exact lookup_ext _ _ (by decide) u
  · exact lookup_ext _ _ (by decide) u
  · exact lookup_ext _ _ (by decide) u
  · exact lookup_ext_except (fun u => zetaNames .speed u) _ _ (by decide) u hz

/-- regression (fixed defect): the documented `zettaflops` is accepted with 10^21 and the misspelt `zetaflops`,
which the code used to accept instead, is rejected -/
theorem units_match_doc_zetta_regression :
    lookup .speed "zettaflops" = some ⟨1000000000000000000000, 1⟩ ∧ lookup .speed "zetaflops" = none := by decide

/-- **Every unit name the documentation lists is accepted** (XML_reference.rst `<link>` section and simgrid.dtd,
extracted by the translator on every run).  (enum over the generated list.)  Before the two fix commits this failed
for `KBps`, `Kbps` (capital K in XML_reference.rst) and `zettaflops`. -/
theorem doc_listed_units_accepted : ∀ p ∈ Gen.docListed, (lookup p.1 p.2).isSome := by decide

/-- the default unit of each kind is the documented one and is in the table (enum: 5 kinds) -/
theorem default_unit_documented :
    ∀ k : Kind, lookup k (Gen.defaultUnit k) = some ⟨1, 1⟩ ∧ documented k (Gen.defaultUnit k) = some ⟨1, 1⟩ := by
  intro k; cases k <;> decide

/-! ### parsing: for all strings -/

/-- the unit actually looked up: the rest of the string, or the default unit when nothing follows the number -/
def unitOf (k : Kind) (rest : List Char) : String :=
  if rest.isEmpty then Gen.defaultUnit k else String.ofList rest

/-- **Unknown units are rejected**: whatever the number, if what follows it is not in the table the call throws
`unknown unit`. -/
theorem unknown_unit_rejected (k : Kind) (entity : Bool) (s : List Char) (neg : Bool) (n : Num) (rest : List Char)
    (hs : strtod s = .ok neg n rest) (hu : lookup k (unitOf k rest) = none) :
    parseValue k entity s = .errUnit (unitOf k rest) := by
  have hb := tables_built k
  unfold lookup at hu
  unfold parseValue
  cases ht : table k with
  | none => rw [ht] at hb; cases hb
  | some t =>
    rw [ht] at hu
    simp only [hs]
    unfold unitOf at hu ⊢
    simp only [hu]

/-- … in particular every string that is not a documented unit (∀ strings, through `units_match_doc_partial`) -/
theorem undocumented_unit_rejected_partial (k : Kind) (entity : Bool) (s : List Char) (neg : Bool) (n : Num)
    (rest : List Char) (hs : strtod s = .ok neg n rest) (hz : ¬ zetaNames k (unitOf k rest))
    (hd : documented k (unitOf k rest) = none) :
    parseValue k entity s = .errUnit (unitOf k rest) :=
  unknown_unit_rejected k entity s neg n rest hs (by rw [units_match_doc_partial k _ hz]; exact hd)

/-- **The value is the number times the multiplier of the unit** (exact arithmetic), with the deprecation warning
exactly for a non-zero unit-less value of a named entity. -/
theorem value_is_number_times_multiplier (k : Kind) (entity : Bool) (s : List Char) (neg : Bool) (v : Rat)
    (rest : List Char) (m : Q) (hs : strtod s = .ok neg (.fin v) rest) (hu : lookup k (unitOf k rest) = some m) :
    parseValue k entity s = .value (signed neg v * m.toRat) (rest.isEmpty && decide (v ≠ 0) && entity) := by
  have hb := tables_built k
  unfold lookup at hu
  unfold parseValue
  cases ht : table k with
  | none => rw [ht] at hb; cases hb
  | some t =>
    rw [ht] at hu
    simp only [hs]
    unfold unitOf at hu
    simp only [hu]

/-- … hence number × *documented* multiplier for every documented unit (∀ strings) -/
theorem value_is_number_times_documented_partial (k : Kind) (entity : Bool) (s : List Char) (neg : Bool) (v : Rat)
    (rest : List Char) (m : Q) (hs : strtod s = .ok neg (.fin v) rest) (hz : ¬ zetaNames k (unitOf k rest))
    (hd : documented k (unitOf k rest) = some m) :
    parseValue k entity s = .value (signed neg v * m.toRat) (rest.isEmpty && decide (v ≠ 0) && entity) :=
  value_is_number_times_multiplier k entity s neg v rest m hs (by rw [units_match_doc_partial k _ hz]; exact hd)

/-- specification of "starts with a number": after white space and an optional sign comes a digit, a point followed
by a digit, or (any case) `inf` / `nan` -/
def startsNumber (s : List Char) : Bool :=
  match (takeSign (s.dropWhile isSpace)).2 with
  | [] => false
  | c :: t =>
    if isDigit c then true
    else if c == '.' then (match t with | d :: _ => isDigit d | [] => false)
    else (dropWord wInf (c :: t)).isSome || (dropWord wNan (c :: t)).isSome

theorem dropWord_infinity_inf (s : List Char) (h : dropWord wInf s = none) :
    dropWord wInfinity s = none := by
  unfold wInf at h; unfold wInfinity
  match s with
  | [] => rfl
  | [a] => simp only [dropWord] at h ⊢; split <;> simp_all
  | [a, b] => simp only [dropWord] at h ⊢; repeat (split <;> simp_all)
  | a :: b :: c :: t =>
    simp only [dropWord] at h ⊢
    by_cases h1 : lower a = 'i' <;> by_cases h2 : lower b = 'n' <;> by_cases h3 : lower c = 'f' <;> simp_all

/-- **Malformed numbers are rejected**: a string that does not start with a number throws `cannot parse number`
(∀ strings) … -/
theorem malformed_number_rejected (k : Kind) (entity : Bool) (s : List Char) (h : startsNumber s = false) :
    parseValue k entity s = .errNoNumber := by
  have hb := tables_built k
  have hn : strtod s = .noconv := by
    unfold startsNumber at h
    unfold strtod
    generalize takeSign (s.dropWhile isSpace) = p at h ⊢
    obtain ⟨neg, s2⟩ := p
    simp only at h ⊢
    cases s2 with
    | nil => simp [parseMagnitude]
    | cons c t =>
      simp only at h
      by_cases hd : isDigit c = true
      · simp [hd] at h
      · simp only [hd, Bool.false_eq_true, if_false] at h
        by_cases hp : (c == '.') = true
        · simp only [hp, if_true] at h
          have hc0 : (c == '0') = false := by
            have : c = '.' := by simpa using hp
            subst this; decide
          have hdec : parseDecimal (c :: t) = none := by
            have : c = '.' := by simpa using hp
            subst this
            unfold parseDecimal spanP takeFrac
            have h1 : List.takeWhile isDigit ('.' :: t) = [] := by simp [isDigit]
            have h2 : List.dropWhile isDigit ('.' :: t) = '.' :: t := by simp [isDigit]
            simp only [h1, h2]
            cases t with
            | nil => simp [spanP]
            | cons d t' =>
              simp only at h
              simp [spanP, h]
          simp [parseMagnitude, hd, hp, hc0, hdec]
        · simp only [hp, Bool.false_eq_true, if_false, Bool.or_eq_false_iff, Option.isSome_eq_false_iff,
            Option.isNone_iff_eq_none] at h
          have hinf := dropWord_infinity_inf _ h.1
          obtain ⟨h1, h2⟩ := h
          simp only [parseMagnitude, hd, hp, parseWord, Bool.or_self, Bool.false_eq_true, if_false, hinf, h1, h2]
  unfold parseValue
  cases ht : table k with
  | none => rw [ht] at hb; cases hb
  | some t => simp only [hn]

/-- … and a string that does start with a number is never rejected as "cannot parse number" (so the
characterisation is exact). -/
theorem number_start_converts (s : List Char) (h : startsNumber s = true) : strtod s ≠ .noconv := by
  unfold startsNumber at h
  unfold strtod
  generalize takeSign (s.dropWhile isSpace) = p at h ⊢
  obtain ⟨neg, s2⟩ := p
  simp only at h ⊢
  have key : ∃ n r, parseMagnitude s2 = some (n, r) := by
    cases s2 with
    | nil => simp at h
    | cons c t =>
      simp only at h
      by_cases hd : isDigit c = true
      · obtain ⟨v, r, hv⟩ := parseDecimal_digit c t hd
        unfold parseMagnitude
        simp only [hd, Bool.true_or, if_true, hv, Option.map_some]
        split
        · split
          · exact ⟨_, _, rfl⟩
          · split
            · split <;> exact ⟨_, _, rfl⟩
            · exact ⟨_, _, rfl⟩
        · exact ⟨_, _, rfl⟩
      · simp only [hd, Bool.false_eq_true, if_false] at h
        by_cases hp : (c == '.') = true
        · simp only [hp, if_true] at h
          have hc : c = '.' := by simpa using hp
          subst hc
          cases t with
          | nil => simp at h
          | cons d t' =>
            simp only at h
            obtain ⟨v, r, hv⟩ := parseDecimal_point d t' h
            unfold parseMagnitude
            have hc0 : (('.' : Char) == '0') = false := by decide
            simp only [hd, hp, Bool.or_true, if_true, hv, Option.map_some, hc0, Bool.false_eq_true, if_false]
            exact ⟨_, _, rfl⟩
        · simp only [hp, Bool.false_eq_true, if_false] at h
          unfold parseMagnitude parseWord
          simp only [hd, hp, Bool.or_self, Bool.false_eq_true, if_false]
          cases h1 : dropWord wInfinity (c :: t) with
          | some r => exact ⟨_, _, rfl⟩
          | none =>
            cases h2 : dropWord wInf (c :: t) with
            | some r => exact ⟨_, _, rfl⟩
            | none =>
              cases h3 : dropWord wNan (c :: t) with
              | some r => exact ⟨_, _, rfl⟩
              | none => rw [h2, h3] at h; simp at h
  obtain ⟨n, r, hk⟩ := key
  rw [hk]
  cases n with
  | fin v => simp only; split <;> simp
  | inf => simp
  | nan => simp

/-! ### the positive side of the number syntax: integer literals (∀ digit strings) -/

/-- **Integer literal**: a non-empty digit string followed by anything that cannot continue the number is converted
to its decimal value (positive sign, no ERANGE below 2^1023), and the rest is handed to the unit lookup. -/
theorem strtod_integer (ds rest : List Char) (hne : ds ≠ []) (hd : ∀ c ∈ ds, isDigit c = true)
    (hr : unitSafe rest = true) (hbig : natOfDigits ds < 2 ^ 1023) :
    strtod (ds ++ rest) = .ok false (.fin (natOfDigits ds : Rat)) rest := by
  cases ds with
  | nil => exact absurd rfl hne
  | cons d ds' =>
    have hdd : isDigit d = true := hd d (by simp)
    obtain ⟨f1, f2, f3, f4, f5⟩ := digit_facts d hdd
    have hstop : stops isDigit rest = true := by
      cases rest with
      | nil => rfl
      | cons c t => simp only [unitSafe, Bool.and_eq_true] at hr; simp only [stops]; exact hr.1.1.1
    have hdec : parseDecimal (d :: ds' ++ rest) = some ((natOfDigits (d :: ds') : Rat), rest) := by
      unfold parseDecimal
      have hsp := spanP_append isDigit (d :: ds') rest hd hstop
      rw [hsp]
      have hfrac : takeFrac isDigit rest = ([], rest) := by
        cases rest with
        | nil => rfl
        | cons c t =>
          simp only [unitSafe, Bool.and_eq_true, Bool.not_eq_eq_eq_not, Bool.not_true] at hr
          simp [takeFrac, hr.1.1.2]
      simp only [hfrac, parseExp_unitSafe rest hr, List.isEmpty_cons, Bool.false_and, Bool.false_eq_true, if_false,
        List.append_nil, List.length_nil]
      simp [scale_zero]
    have hmag : parseMagnitude (d :: ds' ++ rest) = some (.fin (natOfDigits (d :: ds') : Rat), rest) := by
      unfold parseMagnitude
      simp only [List.cons_append] at hdec ⊢
      simp only [hdd, Bool.true_or, if_true, hdec, Option.map_some]
      split
      · split
        · rfl
        · rename_i x t' hx
          have hxx : (lower x == 'x') = false := by
            cases ds' with
            | nil =>
              simp only [List.nil_append] at hx
              subst hx
              simp only [unitSafe, Bool.and_eq_true, Bool.not_eq_eq_eq_not, Bool.not_true] at hr
              exact hr.1.2
            | cons e ds'' =>
              simp only [List.cons_append, List.cons.injEq] at hx
              obtain ⟨hx1, _⟩ := hx
              subst hx1
              exact (digit_facts e (hd e (by simp))).2.2.2.2
          simp [hxx]
      · rfl
    unfold strtod
    have hdw : List.dropWhile isSpace (d :: ds' ++ rest) = d :: ds' ++ rest := by
      simp [f1]
    rw [hdw]
    have hts : takeSign (d :: ds' ++ rest) = (false, d :: ds' ++ rest) := by
      simp [takeSign, f2, f3]
    rw [hts]
    simp only [hmag, nat_not_overflows _ hbig, nat_not_underflows, Bool.or_self, Bool.false_eq_true, if_false]

/-- every unit of the four tables may directly follow an integer literal (enum over the generated tables) -/
theorem table_units_safe : ∀ k : Kind, ∀ p ∈ (table k).getD [], unitSafe p.1.toList = true := by
  intro k; cases k <;> decide

/-- **Integer × unit**: for every digit string and every unit `u` of kind `k` with multiplier `m`, the string
`<digits><u>` is worth `digits × m`, without warning. -/
theorem integer_with_unit (k : Kind) (entity : Bool) (ds : List Char) (u : String) (m : Q)
    (hne : ds ≠ []) (hd : ∀ c ∈ ds, isDigit c = true) (hbig : natOfDigits ds < 2 ^ 1023)
    (hsafe : unitSafe u.toList = true) (hu0 : u.toList ≠ []) (hu : lookup k u = some m) :
    parseValue k entity (ds ++ u.toList) = .value ((natOfDigits ds : Rat) * m.toRat) false := by
  have hs := strtod_integer ds u.toList hne hd hsafe hbig
  have hunit : unitOf k u.toList = u := by
    unfold unitOf
    cases hl : u.toList with
    | nil => exact absurd hl hu0
    | cons c t => rw [← hl, String.ofList_toList]; simp [hl]
  have := value_is_number_times_multiplier k entity (ds ++ u.toList) false (natOfDigits ds : Rat) u.toList m hs
    (by rw [hunit]; exact hu)
  rw [this]
  cases hl : u.toList with
  | nil => exact absurd hl hu0
  | cons c t => simp [signed]

/-! ### non-vacuity: concrete instances of the hypotheses above -/

example : lookup .bandwidth "MiBps" = some ⟨1048576, 1⟩ ∧ documented .bandwidth "MiBps" = some ⟨1048576, 1⟩ := by decide
example : lookup .size "kb" = some ⟨125, 1⟩ ∧ lookup .size "b" = some ⟨1, 8⟩ ∧ lookup .time "ms" = some ⟨1, 1000⟩ := by decide
example : ¬ zetaNames .speed "Zf" ∧ lookup .speed "Zf" = some ⟨1000000000000000000000, 1⟩ := by decide
example : lookup .time "kBps" = none ∧ documented .time "kBps" = none := by decide
/-- "42kBps" is an instance of `integer_with_unit` -/
example : parseValue .bandwidth true ("42".toList ++ "kBps".toList) = .value ((natOfDigits "42".toList : Rat) * (Q.mk 1000 1).toRat) false :=
  integer_with_unit .bandwidth true "42".toList "kBps" ⟨1000, 1⟩ (by decide) (by decide)
    (by have : natOfDigits "42".toList = 42 := by decide
        rw [this]; exact Nat.lt_of_lt_of_le (by decide : 42 < 2 ^ 6) (Nat.pow_le_pow_right (by omega) (by omega)))
    (by decide) (by decide) (by decide)
example : startsNumber "x10s".toList = false ∧ startsNumber " -.5s".toList = true ∧ startsNumber ".s".toList = false := by decide

end SgVerif.C27
