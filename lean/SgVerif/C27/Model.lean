import SgVerif.C27.Gen
import SgVerif.Xbt.Strtod
/-
C27 — executable model of src/xbt/xbt_parse_units.cpp.  Core-only (the driver is compiled).

  * `buildTable`     = `unit_scale::unit_scale(initializer_list<tuple>)` / the inherited pair constructor,
                       run on the *generated* initialiser lists (Gen.lean)
  * `strtod`         = the number syntax glibc's strtod accepts in the C locale (specified, libc is trusted) and the
                       ERANGE classification the code tests
  * `parseValue`     = `xbt_parse_get_value_with_unit`, branch by branch
  * `parseBandwidths`, `parseSpeeds` = the two list front-ends (boost::split / boost::trim)
  * `documented`     = the hand-written specification: SI / IEC prefix systems applied to the documented base units
-/
namespace SgVerif.C27
open SgVerif.Xbt

/-! ## the unit tables, as the constructor builds them -/

abbrev Table := List (String × Q)

/-- `emplace(k, v)` on an `unordered_map`: no effect when the key is already present -/
def emplace (t : Table) (k : String) (v : Q) : Table :=
  if t.any (fun p => p.1 == k) then t else t ++ [(k, v)]

/--  `for (const auto& prefix : prefixes) { value *= mult; emplace(prefix + unit, value); }` -/
def addPrefixed (unit : String) (mult : Nat) : List String → Q → Table → Table
  | [], _, t => t
  | p :: ps, v, t =>
    let v' := v.mulNat mult
    addPrefixed unit mult ps v' (emplace t (p ++ unit) v')

/-- body of `for (auto [unit, value, base, abbrev] : generators)`; `none` = `THROW_IMPOSSIBLE` (base not 2 or 10) -/
def addGenerator (specs : List PrefixSpec) (t : Table) (g : Generator) : Option Table :=
  match specs.find? (fun s => s.base == g.base) with
  | none => none
  | some sp =>
    some (addPrefixed g.unit sp.mult (if g.abbr then sp.abbr else sp.full) g.value (emplace t g.unit g.value))

def buildGens (specs : List PrefixSpec) : List Generator → Table → Option Table
  | [], t => some t
  | g :: gs, t =>
    match addGenerator specs t g with
    | none => none
    | some t' => buildGens specs gs t'

/-- the `static const unit_scale units{…}` object.  Plain pairs go through `unordered_map(initializer_list)`, which
inserts in order and ignores a repeated key, like `emplace`. -/
def buildTable (specs : List PrefixSpec) : TableInit → Option Table
  | .pairs l => some (l.foldl (fun t p => emplace t p.1 p.2) [])
  | .gens l => buildGens specs l []

def table (k : Kind) : Option Table := buildTable Gen.prefixSpecs (Gen.init k)

/-- `units.find(ptr)`; the outer `none` is the (unreachable, see `tables_built`) `THROW_IMPOSSIBLE` -/
def lookup (k : Kind) (u : String) : Option Q :=
  match table k with
  | none => none
  | some t => t.lookup u

/-! ## the hand-written specification of the documented magnitudes

SI decimal prefixes (k M G T P E Z Y = 1000^1..8; long names kilo mega giga tera peta exa zetta yotta, as listed in
simgrid.dtd) and IEC binary prefixes (Ki Mi Gi Ti Pi Ei Zi Yi = 1024^1..8; long names kibi … yobi) applied to the
documented base units: time `w d h m s ms us ns ps` (XML_reference.rst table), sizes `B` and `b` (1 B = 8 b),
bandwidths `Bps` and `bps` (1 Bps = 8 bps), speeds `f` and `flops`.  Short prefixes go with `f`, `B`, `b`, `Bps`,
`bps`; the long names with `flops` (simgrid.dtd).  Nothing here is derived from the C++ code. -/

def siShort : List String := ["k", "M", "G", "T", "P", "E", "Z", "Y"]
def siLong : List String := ["kilo", "mega", "giga", "tera", "peta", "exa", "zetta", "yotta"]
def iecShort : List String := ["Ki", "Mi", "Gi", "Ti", "Pi", "Ei", "Zi", "Yi"]

/-- `[(p_1 ++ unit, base * step^1), (p_2 ++ unit, base * step^2), …]` -/
def prefixed (unit : String) (num den step : Nat) (ps : List String) : Table :=
  (ps.zipIdx 1).map (fun (p, i) => (p ++ unit, Q.norm (num * step ^ i) den))

def docTime : Table :=
  [("w", ⟨604800, 1⟩), ("d", ⟨86400, 1⟩), ("h", ⟨3600, 1⟩), ("m", ⟨60, 1⟩), ("s", ⟨1, 1⟩),
   ("ms", ⟨1, 1000⟩), ("us", ⟨1, 1000000⟩), ("ns", ⟨1, 1000000000⟩), ("ps", ⟨1, 1000000000000⟩)]

/-- bytes-like unit `U` (1) and bits-like unit `u` (1/8) with the short SI and IEC prefixes -/
def docBytesBits (U u : String) : Table :=
  [(U, ⟨1, 1⟩)] ++ prefixed U 1 1 1000 siShort ++ prefixed U 1 1 1024 iecShort ++
  [(u, ⟨1, 8⟩)] ++ prefixed u 1 8 1000 siShort ++ prefixed u 1 8 1024 iecShort

def docSpeed : Table :=
  [("f", ⟨1, 1⟩)] ++ prefixed "f" 1 1 1000 siShort ++ [("flops", ⟨1, 1⟩)] ++ prefixed "flops" 1 1 1000 siLong

def docTable : Kind → Table
  | .time => docTime
  | .size => docBytesBits "B" "b"
  | .bandwidth => docBytesBits "Bps" "bps"
  | .bandwidths => docBytesBits "Bps" "bps"
  | .speed => docSpeed

/-- the documented multiplier of unit `u` for values of kind `k`; `none` = not a documented unit -/
def documented (k : Kind) (u : String) : Option Q := (docTable k).lookup u

/-! ## xbt_parse_get_value_with_unit -/

inductive Outcome where
  | value (v : Rat) (warn : Bool)               -- `return res * u->second` (exact product), warning logged or not
  | infinite (neg : Bool) (warn : Bool)
  | nan (warn : Bool)
  | errRange                                    -- ParseError "value out of range: …"
  | errNoNumber                                 -- ParseError "cannot parse number:…"
  | errUnit (u : String)                        -- ParseError "unknown unit: <u>"
  | impossible                                  -- THROW_IMPOSSIBLE while building the table (unreachable)
  deriving Repr

def signed (neg : Bool) (v : Rat) : Rat := if neg then -v else v

/-- `entity` = `not entity_kind.empty()` -/
def parseValue (k : Kind) (entity : Bool) (s : List Char) : Outcome :=
  match table k with
  | none => .impossible
  | some t =>
    match strtod s with
    | .erange => .errRange                      -- if (errno == ERANGE) throw
    | .noconv => .errNoNumber                   -- if (ptr == string) throw
    | .ok neg n rest =>
      -- if (ptr[0] == '\0') { if (res != 0 && not entity_kind.empty()) XBT_WARN(…); ptr = default_unit; }
      let nonzero : Bool := match n with
        | .fin v => decide (v ≠ 0)
        | _ => true
      let warn := rest.isEmpty && nonzero && entity
      let u := if rest.isEmpty then Gen.defaultUnit k else String.ofList rest
      match t.lookup u with
      | none => .errUnit u                      -- if (u == units.end()) throw
      | some m =>
        match n with
        | .fin v => .value (signed neg v * m.toRat) warn
        | .inf => .infinite neg warn
        | .nan => .nan warn

/-! ## list front-ends -/

/-- `boost::split(tokens, s, is_any_of(seps))` without token compression: n separators give n+1 tokens -/
def splitAny (seps : List Char) : List Char → List Char → List (List Char)
  | [], cur => [cur.reverse]
  | c :: s, cur => if seps.contains c then cur.reverse :: splitAny seps s [] else splitAny seps s (c :: cur)

def trim (s : List Char) : List Char := ((s.dropWhile isSpace).reverse.dropWhile isSpace).reverse

/-- results of the tokens in order, stopping at the first error (the exception propagates) -/
def collect (f : List Char → Outcome) : List (List Char) → List Outcome → List Outcome ⊕ Outcome
  | [], acc => .inl acc.reverse
  | tk :: tks, acc =>
    match f tk with
    | .errRange => .inr .errRange
    | .errNoNumber => .inr .errNoNumber
    | .errUnit u => .inr (.errUnit u)
    | .impossible => .inr .impossible
    | o => collect f tks (o :: acc)

/-- `xbt_parse_get_bandwidths`: split on `;` or `,`, each token through its own table -/
def parseBandwidths (entity : Bool) (s : List Char) : List Outcome ⊕ Outcome :=
  collect (parseValue .bandwidths entity) (splitAny [';', ','] s []) []

/-- `xbt_parse_get_all_speeds`: split on `,`, trim, `xbt_parse_get_speed` -/
def parseSpeeds (entity : Bool) (s : List Char) : List Outcome ⊕ Outcome :=
  collect (parseValue .speed entity) ((splitAny [','] s []).map trim) []

end SgVerif.C27
