import SgVerif.C27.Gen
/-
C27 — executable model of src/xbt/xbt_parse_units.cpp.  Core-only (the driver is compiled).

  * `buildTable`     = `unit_scale::unit_scale(initializer_list<tuple>)` / the inherited pair constructor,
                       run on the *generated* initialiser lists (Gen.lean)
  * `strtod`         = the number syntax glibc's strtod accepts in the C locale (specified, libc is trusted) and the
                       ERANGE classification the code tests
  * `parseValue`     = `xbt_parse_get_value_with_unit`, branch by branch
  * `parseBandwidths`, `parseSpeeds` = the two list front-ends (boost::split / boost::trim)
  * `documented`     = the hand-written specification: SI / IEC prefix systems applied to the documented base units
-/
namespace SgVerif.C27

/-! ## the unit tables, as the constructor builds them -/

abbrev Table := List (String × Q)

/-- `emplace(k, v)` on an `unordered_map`: no effect when the key is already present -/
def emplace (t : Table) (k : String) (v : Q) : Table :=
  if t.any (fun p => p.1 == k) then t else t ++ [(k, v)]

/--  `for (const auto& prefix : prefixes) { value *= mult; emplace(prefix + unit, value); }` -/
def addPrefixed (unit : String) (mult : Nat) : List String → Q → Table → Table
  | [], _, t => t
  | p :: ps, v, t =>
    let v' := v.mulNat mult
    addPrefixed unit mult ps v' (emplace t (p ++ unit) v')

/-- body of `for (auto [unit, value, base, abbrev] : generators)`; `none` = `THROW_IMPOSSIBLE` (base not 2 or 10) -/
def addGenerator (specs : List PrefixSpec) (t : Table) (g : Generator) : Option Table :=
  match specs.find? (fun s => s.base == g.base) with
  | none => none
  | some sp =>
    some (addPrefixed g.unit sp.mult (if g.abbr then sp.abbr else sp.full) g.value (emplace t g.unit g.value))

def buildGens (specs : List PrefixSpec) : List Generator → Table → Option Table
  | [], t => some t
  | g :: gs, t =>
    match addGenerator specs t g with
    | none => none
    | some t' => buildGens specs gs t'

/-- the `static const unit_scale units{…}` object.  Plain pairs go through `unordered_map(initializer_list)`, which
inserts in order and ignores a repeated key, like `emplace`. -/
def buildTable (specs : List PrefixSpec) : TableInit → Option Table
  | .pairs l => some (l.foldl (fun t p => emplace t p.1 p.2) [])
  | .gens l => buildGens specs l []

def table (k : Kind) : Option Table := buildTable Gen.prefixSpecs (Gen.init k)

/-- `units.find(ptr)`; the outer `none` is the (unreachable, see `tables_built`) `THROW_IMPOSSIBLE` -/
def lookup (k : Kind) (u : String) : Option Q :=
  match table k with
  | none => none
  | some t => t.lookup u

/-! ## the hand-written specification of the documented magnitudes

SI decimal prefixes (k M G T P E Z Y = 1000^1..8; long names kilo mega giga tera peta exa zetta yotta, as listed in
simgrid.dtd) and IEC binary prefixes (Ki Mi Gi Ti Pi Ei Zi Yi = 1024^1..8; long names kibi … yobi) applied to the
documented base units: time `w d h m s ms us ns ps` (XML_reference.rst table), sizes `B` and `b` (1 B = 8 b),
bandwidths `Bps` and `bps` (1 Bps = 8 bps), speeds `f` and `flops`.  Short prefixes go with `f`, `B`, `b`, `Bps`,
`bps`; the long names with `flops` (simgrid.dtd).  Nothing here is derived from the C++ code. -/

def siShort : List String := ["k", "M", "G", "T", "P", "E", "Z", "Y"]
def siLong : List String := ["kilo", "mega", "giga", "tera", "peta", "exa", "zetta", "yotta"]
def iecShort : List String := ["Ki", "Mi", "Gi", "Ti", "Pi", "Ei", "Zi", "Yi"]

/-- `[(p_1 ++ unit, base * step^1), (p_2 ++ unit, base * step^2), …]` -/
def prefixed (unit : String) (num den step : Nat) (ps : List String) : Table :=
  (ps.zipIdx 1).map (fun (p, i) => (p ++ unit, Q.norm (num * step ^ i) den))

def docTime : Table :=
  [("w", ⟨604800, 1⟩), ("d", ⟨86400, 1⟩), ("h", ⟨3600, 1⟩), ("m", ⟨60, 1⟩), ("s", ⟨1, 1⟩),
   ("ms", ⟨1, 1000⟩), ("us", ⟨1, 1000000⟩), ("ns", ⟨1, 1000000000⟩), ("ps", ⟨1, 1000000000000⟩)]

/-- bytes-like unit `U` (1) and bits-like unit `u` (1/8) with the short SI and IEC prefixes -/
def docBytesBits (U u : String) : Table :=
  [(U, ⟨1, 1⟩)] ++ prefixed U 1 1 1000 siShort ++ prefixed U 1 1 1024 iecShort ++
  [(u, ⟨1, 8⟩)] ++ prefixed u 1 8 1000 siShort ++ prefixed u 1 8 1024 iecShort

def docSpeed : Table :=
  [("f", ⟨1, 1⟩)] ++ prefixed "f" 1 1 1000 siShort ++ [("flops", ⟨1, 1⟩)] ++ prefixed "flops" 1 1 1000 siLong

def docTable : Kind → Table
  | .time => docTime
  | .size => docBytesBits "B" "b"
  | .bandwidth => docBytesBits "Bps" "bps"
  | .bandwidths => docBytesBits "Bps" "bps"
  | .speed => docSpeed

/-- the documented multiplier of unit `u` for values of kind `k`; `none` = not a documented unit -/
def documented (k : Kind) (u : String) : Option Q := (docTable k).lookup u

/-! ## number syntax (what `strtod` consumes) -/

def isSpace (c : Char) : Bool :=
  c == ' ' || c == '\t' || c == '\n' || c.toNat == 11 || c.toNat == 12 || c == '\r'

def isDigit (c : Char) : Bool := 48 ≤ c.toNat && c.toNat ≤ 57

def lower (c : Char) : Char := if 65 ≤ c.toNat && c.toNat ≤ 90 then Char.ofNat (c.toNat + 32) else c

def hexVal (c : Char) : Option Nat :=
  let n := (lower c).toNat
  if isDigit c then some (c.toNat - 48) else if 97 ≤ n && n ≤ 102 then some (n - 87) else none

def isHex (c : Char) : Bool := (hexVal c).isSome

def isAlnumU (c : Char) : Bool :=
  let n := (lower c).toNat
  isDigit c || (97 ≤ n && n ≤ 122) || c == '_'

def natOfDigits (ds : List Char) : Nat := ds.foldl (fun a c => a * 10 + (c.toNat - 48)) 0

def natOfHex (ds : List Char) : Nat := ds.foldl (fun a c => a * 16 + (hexVal c).getD 0) 0

/-- `m * b^e` for an integer exponent -/
def scale (m : Nat) (b : Nat) (e : Int) : Rat :=
  if 0 ≤ e then (m : Rat) * ((b ^ e.toNat : Nat) : Rat) else (m : Rat) / ((b ^ (-e).toNat : Nat) : Rat)

def spanP (p : Char → Bool) (s : List Char) : List Char × List Char := (s.takeWhile p, s.dropWhile p)

/-- optional sign -/
def takeSign (s : List Char) : Bool × List Char :=
  match s with
  | [] => (false, [])
  | c :: t => if c == '+' then (false, t) else if c == '-' then (true, t) else (false, s)

/-- optional exponent part `[eE][+-]?digit+` (marker 'e') or `[pP][+-]?digit+` (marker 'p'); when the digits are
missing nothing is consumed -/
def parseExp (marker : Char) (s : List Char) : Int × List Char :=
  match s with
  | [] => (0, s)
  | c :: t =>
    if lower c == marker then
      let (neg, t') := takeSign t
      let (ds, r) := spanP isDigit t'
      if ds.isEmpty then (0, s)
      else (if neg then -((natOfDigits ds : Nat) : Int) else ((natOfDigits ds : Nat) : Int), r)
    else (0, s)

/-- fraction part: `.` followed by digits (possibly none) -/
def takeFrac (p : Char → Bool) (r1 : List Char) : List Char × List Char :=
  match r1 with
  | [] => ([], [])
  | c :: t => if c == '.' then spanP p t else ([], r1)

/-- decimal floating constant: `digit* [. digit*]` with at least one digit, then the optional exponent -/
def parseDecimal (s : List Char) : Option (Rat × List Char) :=
  let (ip, r1) := spanP isDigit s
  let (fp, r2) := takeFrac isDigit r1
  if ip.isEmpty && fp.isEmpty then none
  else
    let (e, r3) := parseExp 'e' r2
    some (scale (natOfDigits (ip ++ fp)) 10 (e - fp.length), r3)

/-- hexadecimal floating constant after the `0x`: `hex* [. hex*]` with at least one hex digit, optional `p` exponent -/
def parseHex (s : List Char) : Option (Rat × List Char) :=
  let (ip, r1) := spanP isHex s
  let (fp, r2) := takeFrac isHex r1
  if ip.isEmpty && fp.isEmpty then none
  else
    let (e, r3) := parseExp 'p' r2
    some (scale (natOfHex (ip ++ fp)) 2 (e - 4 * fp.length), r3)

/-- does `s` start with the (lower-case) word `w`, ignoring case?  returns the remainder -/
def dropWord : List Char → List Char → Option (List Char)
  | [], s => some s
  | _ :: _, [] => none
  | w :: ws, c :: s => if lower c == w then dropWord ws s else none

inductive Num where
  | fin (v : Rat)      -- magnitude (sign kept apart)
  | inf
  | nan
  deriving Repr

/-- `nan` may be followed by `(n-char-sequence)`; without the closing parenthesis only "nan" is consumed -/
def nanTail (r : List Char) : List Char :=
  match r with
  | [] => []
  | c :: u =>
    if c == '(' then
      match u.dropWhile isAlnumU with
      | [] => r
      | d :: v => if d == ')' then v else r
    else r

def wInfinity : List Char := ['i', 'n', 'f', 'i', 'n', 'i', 't', 'y']
def wInf : List Char := ['i', 'n', 'f']
def wNan : List Char := ['n', 'a', 'n']

/-- `inf`, `infinity`, `nan`, `nan(...)`, ignoring case -/
def parseWord (s : List Char) : Option (Num × List Char) :=
  match dropWord wInfinity s with
  | some r => some (.inf, r)
  | none =>
    match dropWord wInf s with
    | some r => some (.inf, r)
    | none =>
      match dropWord wNan s with
      | some r => some (.nan, nanTail r)
      | none => none

/-- magnitude and remainder of the "subject sequence" after white space and sign; `none` = no conversion -/
def parseMagnitude (s : List Char) : Option (Num × List Char) :=
  match s with
  | [] => none
  | c :: t =>
    if isDigit c || c == '.' then
      let dec : Option (Num × List Char) := (parseDecimal s).map (fun (v, r) => (Num.fin v, r))
      if c == '0' then
        match t with
        | [] => dec
        | x :: t' =>
          if lower x == 'x' then
            match parseHex t' with
            | some (v, r) => some (.fin v, r)
            | none => dec          -- "0x" without hex digit: the "0" alone is the number
          else dec
      else dec
    else parseWord s

inductive Strtod where
  | noconv                                      -- `ptr == string`
  | erange                                      -- `errno == ERANGE`
  | ok (neg : Bool) (n : Num) (rest : List Char)
  deriving Repr

def two (e : Nat) : Rat := ((2 ^ e : Nat) : Rat)

/-- overflow: the value rounds (to nearest even) to 2^1024 -/
def overflows (v : Rat) : Bool := decide (two 1024 - two 970 ≤ v)

/-- underflow as glibc reports it: tiny after rounding (below 2^-1022 - 2^-1076) and not exactly a subnormal.
(Observed: for some *hexadecimal* inexact subnormal inputs glibc does not set ERANGE; the generators keep away from
inexact hexadecimal subnormals — libc is in the trusted base.) -/
def underflows (v : Rat) : Bool :=
  decide (v ≠ 0) && decide (v < 1 / two 1022 - 1 / two 1076) && !((v * two 1074).isInt)

/-- `errno = 0; res = strtod(string.c_str(), &endptr)` -/
def strtod (s : List Char) : Strtod :=
  let (neg, s2) := takeSign (s.dropWhile isSpace)
  match parseMagnitude s2 with
  | none => .noconv
  | some (.fin v, r) => if overflows v || underflows v then .erange else .ok neg (.fin v) r
  | some (n, r) => .ok neg n r

/-! ## xbt_parse_get_value_with_unit -/

inductive Outcome where
  | value (v : Rat) (warn : Bool)               -- `return res * u->second` (exact product), warning logged or not
  | infinite (neg : Bool) (warn : Bool)
  | nan (warn : Bool)
  | errRange                                    -- ParseError "value out of range: …"
  | errNoNumber                                 -- ParseError "cannot parse number:…"
  | errUnit (u : String)                        -- ParseError "unknown unit: <u>"
  | impossible                                  -- THROW_IMPOSSIBLE while building the table (unreachable)
  deriving Repr

def signed (neg : Bool) (v : Rat) : Rat := if neg then -v else v

/-- `entity` = `not entity_kind.empty()` -/
def parseValue (k : Kind) (entity : Bool) (s : List Char) : Outcome :=
  match table k with
  | none => .impossible
  | some t =>
    match strtod s with
    | .erange => .errRange                      -- if (errno == ERANGE) throw
    | .noconv => .errNoNumber                   -- if (ptr == string) throw
    | .ok neg n rest =>
      -- if (ptr[0] == '\0') { if (res != 0 && not entity_kind.empty()) XBT_WARN(…); ptr = default_unit; }
      let nonzero : Bool := match n with
        | .fin v => decide (v ≠ 0)
        | _ => true
      let warn := rest.isEmpty && nonzero && entity
      let u := if rest.isEmpty then Gen.defaultUnit k else String.ofList rest
      match t.lookup u with
      | none => .errUnit u                      -- if (u == units.end()) throw
      | some m =>
        match n with
        | .fin v => .value (signed neg v * m.toRat) warn
        | .inf => .infinite neg warn
        | .nan => .nan warn

/-! ## list front-ends -/

/-- `boost::split(tokens, s, is_any_of(seps))` without token compression: n separators give n+1 tokens -/
def splitAny (seps : List Char) : List Char → List Char → List (List Char)
  | [], cur => [cur.reverse]
  | c :: s, cur => if seps.contains c then cur.reverse :: splitAny seps s [] else splitAny seps s (c :: cur)

def trim (s : List Char) : List Char := ((s.dropWhile isSpace).reverse.dropWhile isSpace).reverse

/-- results of the tokens in order, stopping at the first error (the exception propagates) -/
def collect (f : List Char → Outcome) : List (List Char) → List Outcome → List Outcome ⊕ Outcome
  | [], acc => .inl acc.reverse
  | tk :: tks, acc =>
    match f tk with
    | .errRange => .inr .errRange
    | .errNoNumber => .inr .errNoNumber
    | .errUnit u => .inr (.errUnit u)
    | .impossible => .inr .impossible
    | o => collect f tks (o :: acc)

/-- `xbt_parse_get_bandwidths`: split on `;` or `,`, each token through its own table -/
def parseBandwidths (entity : Bool) (s : List Char) : List Outcome ⊕ Outcome :=
  collect (parseValue .bandwidths entity) (splitAny [';', ','] s []) []

/-- `xbt_parse_get_all_speeds`: split on `,`, trim, `xbt_parse_get_speed` -/
def parseSpeeds (entity : Bool) (s : List Char) : List Outcome ⊕ Outcome :=
  collect (parseValue .speed entity) ((splitAny [','] s []).map trim) []

end SgVerif.C27
