/-
C40 driver.  Line:
  `cls <cap> <program…> => odpor=<path>,<path>… none=<path>,<path>…`
(paths as printed by "Execution came to an end at"; `-` for an empty list; `none=*`: compare with the classes of the
reference explorer only)
MONFAIL: a path explored by odpor is not a complete execution of the reference LTS; two executions explored by odpor are
equivalent under the checker's dependency relation; their number differs from the number of classes of the executions
explored without reduction.  DISAGREE: the classes of the unreduced run differ in number from those of the reference
explorer.  BADLINE also when the Lean canonical form and the transliterated `are_equivalent` disagree on a pair.
-/
import SgVerif.McRef.DriverLib
import SgVerif.McRef.Dep
import SgVerif.C40.Model
open SgVerif SgVerif.McRef SgVerif.Proto SgVerif.C40

def wordsOf (p : Program) (paths : List String) : Except String (List (List Label)) :=
  paths.mapM (fun ps =>
    match parsePath ps with
    | none => .error s!"unparsable path {ps}"
    | some path =>
      match replay (initState p) path [] with
      | .error k => .error s!"path {ps} refused at chunk {k}"
      | .ok (s, ls) => if allDone s then .ok ls else .error s!"path {ps} does not end in a terminated state")

def dedup (l : List (List Label)) : List (List Label) :=
  l.foldl (fun acc w => if acc.contains w then acc else acc ++ [w]) []

def listOf (s : String) : List String := if s = "-" then [] else s.splitOn ","

def keyOf (l : Label) : Nat × Nat := (l.kind.idx, l.aid)

/-- canonical form equality against the transliterated `are_equivalent` (+ equal per-actor projections) -/
def consistent (ws : List (List Label)) : Bool :=
  let ws := ws.take 24
  ws.all (fun u => ws.all (fun v =>
    let c := canon depLabel labelRank u == canon depLabel labelRank v
    let aids := (u.map (·.aid)).eraseDups
    let pr := u.length == v.length && aids.all (fun p => proj (·.aid) p u == proj (·.aid) p v)
    let a := pr && areEquivalent keyOf depLabel u v
    c == a))

def judge (q a : List String) : Verdict :=
  match q with
  | "cls" :: capS :: prog =>
    match capS.toNat?, parseProgram prog, kvs "odpor" a, kvs "none" a with
    | some cap, some p, [od], [no] =>
      -- `none=*`: no unreduced run of the real checker for this (larger) program; the classes are those of the
      -- reference explorer alone (which the smaller programs validate against the unreduced runs)
      let refOnly := no == "*"
      match wordsOf p (listOf od), (if refOnly then .ok [] else wordsOf p (listOf no)) with
      | .error e, _ => .monfail s!"odpor: {e}"
      | _, .error e => .disagree s!"none: {e}"
      | .ok wo, .ok wn =>
        let co := wo.map (canon depLabel labelRank)
        let r := explore p true cap
        if r.capped || r.exhausted then .bad else
        let cr := dedup (r.execs.map (canon depLabel labelRank))
        let cn := if refOnly then cr else dedup (wn.map (canon depLabel labelRank))
        if !(consistent (wo ++ wn.take 12)) then .bad
        else if cn.length != cr.length then .disagree s!"classes(none)={cn.length} classes(reference)={cr.length} nexec={r.nexec}"
        else if (dedup co).length != co.length then
          .monfail s!"odpor explored {co.length} executions but only {(dedup co).length} classes: two are equivalent"
        else if co.length != cn.length then
          .monfail s!"odpor explored {co.length} executions, the unreduced exploration has {cn.length} classes"
        else if !(co.all (cr.contains ·)) then
          .monfail s!"an execution explored by odpor belongs to no class of the reference exploration"
        else .ok
    | _, _, _, _ => .bad
  | _ => .bad

def main : IO Unit := driverMain judge
