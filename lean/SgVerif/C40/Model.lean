/-
C40 — executable definitions about Mazurkiewicz classes.  Core-only.

`areEquivalent` is a transliteration of the checker's own test (src/mc/explo/odpor/Execution.cpp), used by
`model-check/debug-optimality` through `MazurkiewiczTraces::record_new_execution`:

  bool MazurkiewiczTraces::are_equivalent(const PartialExecution& u, const PartialExecution& v) {
    if (u.size() != v.size()) return false;
    if (u.size() == 0) return true;
    const TransitionPtr a = u[0];
    auto new_v = v; auto new_u = u;
    auto b = new_v.begin();
    for (; b != new_v.end(); b++) {
      if ((*b)->type_ == a->type_ && (*b)->aid_ == a->aid_) break;       // `key b == key a`
      if ((*b)->dispatch_depends(a.get())) return false;                  // `dep b a`
    }
    if (b == new_v.end()) return false;
    new_u.erase(new_u.begin()); new_v.erase(b);
    return are_equivalent(new_u, new_v);
  }

`canon` is the lexicographically least linearisation (w.r.t. an injective `rank`) of the trace of a word.
-/
namespace SgVerif.C40

variable {α κ : Type}

/-- The `for` loop: scan `v` for the first element with the key of `a`; `none` when a dependent element is crossed or
the end is reached; otherwise `v` without that element. -/
def findMatch [DecidableEq κ] (key : α → κ) (dep : α → α → Bool) (a : α) : List α → Option (List α)
  | [] => none
  | b :: v =>
    if key b = key a then some v
    else if dep b a then none
    else (findMatch key dep a v).map (b :: ·)

/-- `MazurkiewiczTraces::are_equivalent`. -/
def areEquivalent [DecidableEq κ] (key : α → κ) (dep : α → α → Bool) : List α → List α → Bool
  | [], v => v.length == 0
  | a :: u, v =>
    if (a :: u).length != v.length then false
    else match findMatch key dep a v with
      | none => false
      | some v' => areEquivalent key dep u v'

/-- the events of one actor, in order -/
def proj (aid : α → Nat) (p : Nat) (u : List α) : List α := u.filter (fun x => aid x == p)

/-! ### canonical form -/

/-- the letters of `r` that can be moved to the front of `pre ++ r` past everything before them
(`pre` = letters already passed) -/
def minimals (dep : α → α → Bool) : List α → List α → List α
  | _, [] => []
  | pre, x :: r => (if pre.all (fun y => !dep y x) then [x] else []) ++ minimals dep (pre ++ [x]) r

/-- element of least rank (first one among equals) -/
def pickMin (rank : α → Nat) : List α → Option α
  | [] => none
  | x :: r =>
    match pickMin rank r with
    | none => some x
    | some y => if rank x ≤ rank y then some x else some y

/-- lexicographically least linearisation: repeatedly emit the least-rank minimal letter -/
def canonAux [DecidableEq α] (dep : α → α → Bool) (rank : α → Nat) : Nat → List α → List α
  | 0, _ => []
  | fuel + 1, u =>
    match pickMin rank (minimals dep [] u) with
    | none => []
    | some a => a :: canonAux dep rank fuel (u.erase a)

def canon [DecidableEq α] (dep : α → α → Bool) (rank : α → Nat) (u : List α) : List α :=
  canonAux dep rank u.length u

end SgVerif.C40
