/-
C40 — ODPOR explores each equivalence class once (partial).

Proved (∀ alphabets, ∀ dependency relations that are symmetric with `same actor → dependent`, ∀ words):
  * `mazurkiewicz_equiv_is_equivalence`    trace equivalence is an equivalence relation
  * `trace_equiv_same_projections`          equivalent executions have the same per-actor sequences
  * `are_equivalent_complete`               equivalent executions are accepted by the checker's `are_equivalent`
  * `are_equivalent_sound`                  … and, when the per-actor sequences agree, only those
  * `are_equivalent_iff_trace_equiv`        hence `are_equivalent` decides exactly trace equivalence on such pairs
  * `are_equivalent_needs_projections_counterexample`  without that hypothesis the code's test is too coarse: it only
                                            compares (type, actor) of the matched events, not their objects
  * `checker_dep_ok`, `are_equivalent_on_labels`   the transliterated `Transition::depends` of the mini-language kinds is
                                            symmetric with same-actor ⇒ dependent, so the theorems apply to it
  * `canon_equiv`, `canon_invariant`, `canon_complete`   the lexicographically least linearisation is a canonical form:
                                            equivalent to the word, equal on equivalent words, and complete
NOT proved: the optimality of ODPOR itself (wakeup trees, sleep sets, `get_odpor_extension_from`): that the executions
it explores are pairwise inequivalent and as many as the classes is CHECKED per program by props/C40/check.py.
-/
import SgVerif.McRef.Trace
import SgVerif.C40.Model
import SgVerif.McRef.Dep
namespace SgVerif.C40
open SgVerif.McRef

variable {α κ : Type}

/-- Trace equivalence is an equivalence relation (symmetry needs a symmetric dependency relation). -/
theorem mazurkiewicz_equiv_is_equivalence (dep : α → α → Bool) (hsym : ∀ x y, dep x y = dep y x) :
    (∀ u, TraceEq dep u u) ∧ (∀ u v, TraceEq dep u v → TraceEq dep v u) ∧
    (∀ u v w, TraceEq dep u v → TraceEq dep v w → TraceEq dep u w) :=
  ⟨TraceEq.refl, fun _ _ h => h.symm hsym, fun _ _ _ h1 h2 => .trans h1 h2⟩

/-- hypotheses on the dependency relation of a concurrent system -/
structure DepOk (aid : α → Nat) (dep : α → α → Bool) : Prop where
  sym : ∀ x y, dep x y = dep y x
  same : ∀ x y, aid x = aid y → dep x y = true

theorem DepOk.refl {aid : α → Nat} {dep : α → α → Bool} (h : DepOk aid dep) (x : α) : dep x x = true := h.same x x rfl

/-- Equivalent executions have the same sequence of events of every actor. -/
theorem trace_equiv_same_projections (aid : α → Nat) (dep : α → α → Bool) (hd : DepOk aid dep)
    {u v : List α} (h : TraceEq dep u v) (p : Nat) : proj aid p u = proj aid p v := by
  induction h with
  | nil => rfl
  | cons a _ ih => simp only [proj, List.filter_cons] at ih ⊢; rw [ih]
  | swap x y t hxy =>
    have hne : aid x ≠ aid y := by
      intro he; rw [hd.same x y he] at hxy; cases hxy
    simp only [proj, List.filter_cons]
    by_cases hx : aid x = p <;> by_cases hy : aid y = p <;> simp_all
  | trans _ _ ih1 ih2 => exact ih1.trans ih2

/-- what a successful scan of `v` means -/
theorem findMatch_some [DecidableEq κ] (key : α → κ) (dep : α → α → Bool) (a : α) :
    ∀ (v v' : List α), findMatch key dep a v = some v' →
      ∃ v1 b v2, v = v1 ++ b :: v2 ∧ v' = v1 ++ v2 ∧ key b = key a ∧ ∀ x ∈ v1, key x ≠ key a ∧ dep x a = false
  | [], v', h => by simp [findMatch] at h
  | c :: v, v', h => by
    simp only [findMatch] at h
    split at h
    · rename_i hk
      cases h
      exact ⟨[], c, v, rfl, rfl, hk, by simp⟩
    · rename_i hk
      split at h
      · cases h
      · rename_i hdep
        cases hm : findMatch key dep a v with
        | none => simp [hm] at h
        | some w =>
          simp [hm] at h
          obtain ⟨v1, b, v2, h1, h2, h3, h4⟩ := findMatch_some key dep a v w hm
          refine ⟨c :: v1, b, v2, by simp [h1], by simp [← h, h2], h3, ?_⟩
          intro x hx
          cases hx with
          | head => exact ⟨hk, by simpa using hdep⟩
          | tail _ hx => exact h4 x hx

/-- the scan succeeds on a word that splits at its first `a` with only independent letters of other keys before -/
theorem findMatch_split [DecidableEq κ] (key : α → κ) (dep : α → α → Bool) (a : α) :
    ∀ (v1 v2 : List α), (∀ x ∈ v1, key x ≠ key a ∧ dep x a = false) →
      findMatch key dep a (v1 ++ a :: v2) = some (v1 ++ v2)
  | [], v2, _ => by simp [findMatch]
  | c :: v1, v2, h => by
    have hc := h c List.mem_cons_self
    simp only [List.cons_append, findMatch, hc.1, hc.2, if_false, Bool.false_eq_true]
    rw [findMatch_split key dep a v1 v2 (fun x hx => h x (List.mem_cons_of_mem _ hx))]
    rfl

/-- Completeness of the checker's test: equivalent executions are judged equivalent.
`key` is (type_, aid_): events with the same key belong to the same actor. -/
theorem are_equivalent_complete [DecidableEq κ] (aid : α → Nat) (key : α → κ) (dep : α → α → Bool)
    (hd : DepOk aid dep) (hkey : ∀ x y, key x = key y → aid x = aid y) :
    ∀ (u v : List α), TraceEq dep u v → areEquivalent key dep u v = true
  | [], v, h => by
    have := h.length_eq
    simp only [List.length_nil] at this
    simp [areEquivalent, ← this]
  | a :: u, v, h => by
    obtain ⟨v1, v2, hv, _, hind, heq⟩ := TraceEq.split hd.refl hd.sym h [] a u rfl (by simp) (by simp)
    have hlen := h.length_eq
    have hscan : findMatch key dep a v = some (v1 ++ v2) := by
      rw [hv]
      apply findMatch_split
      intro x hx
      refine ⟨?_, hind x hx⟩
      intro hk
      have := hd.same x a (hkey x a hk)
      rw [hind x hx] at this; cases this
    simp only [areEquivalent, hlen, bne_self_eq_false, Bool.false_eq_true, if_false, hscan]
    exact are_equivalent_complete aid key dep hd hkey u (v1 ++ v2) (by simpa using heq)

/-- Soundness of the checker's test on executions whose per-actor sequences agree. -/
theorem are_equivalent_sound [DecidableEq κ] (aid : α → Nat) (key : α → κ) (dep : α → α → Bool)
    (hd : DepOk aid dep) (hkey : ∀ x y, key x = key y → aid x = aid y) :
    ∀ (u v : List α), (∀ p, proj aid p u = proj aid p v) → areEquivalent key dep u v = true → TraceEq dep u v
  | [], v, _, h => by
    simp only [areEquivalent, beq_iff_eq] at h
    have : v = [] := List.eq_nil_of_length_eq_zero h
    subst this; exact .nil
  | a :: u, v, hp, h => by
    simp only [areEquivalent] at h
    split at h
    · cases h
    · cases hm : findMatch key dep a v with
      | none => simp [hm] at h
      | some v' =>
        simp only [hm] at h
        obtain ⟨v1, b, v2, hv, hv', hkb, hv1⟩ := findMatch_some key dep a v v' hm
        have hab : aid b = aid a := hkey b a hkb
        -- no event of the actor of `a` before `b` in `v`
        have hv1aid : ∀ x ∈ v1, aid x ≠ aid a := by
          intro x hx he
          have := hd.same x a he
          rw [(hv1 x hx).2] at this; cases this
        have hproj1 : ∀ p, p = aid a → proj aid p v1 = [] := by
          intro p hpa
          simp only [proj, List.filter_eq_nil_iff, beq_iff_eq]
          intro x hx; rw [hpa]; exact hv1aid x hx
        -- hence `b` is the first event of that actor in `v`, as `a` is in `a :: u`
        have hpa := hp (aid a)
        rw [hv] at hpa
        simp only [proj, List.filter_cons, List.filter_append, beq_self_eq_true, if_true, hab] at hpa
        have h1 := hproj1 (aid a) rfl
        simp only [proj] at h1
        rw [h1] at hpa
        simp only [List.nil_append, List.cons.injEq] at hpa
        obtain ⟨hba, hrest⟩ := hpa
        subst hba
        -- projections of the remainders agree
        have hp' : ∀ p, proj aid p u = proj aid p (v1 ++ v2) := by
          intro p
          by_cases hpe : p = aid a
          · subst hpe
            simp only [proj, List.filter_append]
            rw [h1]; simpa [proj] using hrest
          · have := hp p
            rw [hv] at this
            have hne : (aid a == p) = false := by simpa using fun he => hpe he.symm
            simpa [proj, List.filter_cons, List.filter_append, hne] using this
        have ih := are_equivalent_sound aid key dep hd hkey u (v1 ++ v2) hp' (by rw [← hv']; exact h)
        rw [hv]
        have hmove : TraceEq dep (v1 ++ a :: v2) (a :: (v1 ++ v2)) :=
          TraceEq.move_front a v1 v2 (fun x hx => (hv1 x hx).2)
        exact .trans (.cons a ih) (hmove.symm hd.sym)

/-- The checker's `are_equivalent` decides exactly trace equivalence on executions in which every actor performs the
same sequence of transitions (which trace-equivalent executions always do, `trace_equiv_same_projections`). -/
theorem are_equivalent_iff_trace_equiv [DecidableEq κ] (aid : α → Nat) (key : α → κ) (dep : α → α → Bool)
    (hd : DepOk aid dep) (hkey : ∀ x y, key x = key y → aid x = aid y) (u v : List α)
    (hp : ∀ p, proj aid p u = proj aid p v) :
    areEquivalent key dep u v = true ↔ TraceEq dep u v :=
  ⟨are_equivalent_sound aid key dep hd hkey u v hp, are_equivalent_complete aid key dep hd hkey u v⟩

/-- Full characterisation. -/
theorem trace_equiv_iff [DecidableEq κ] (aid : α → Nat) (key : α → κ) (dep : α → α → Bool)
    (hd : DepOk aid dep) (hkey : ∀ x y, key x = key y → aid x = aid y) (u v : List α) :
    TraceEq dep u v ↔ (∀ p, proj aid p u = proj aid p v) ∧ areEquivalent key dep u v = true :=
  ⟨fun h => ⟨trace_equiv_same_projections aid dep hd h, are_equivalent_complete aid key dep hd hkey u v h⟩,
   fun h => are_equivalent_sound aid key dep hd hkey u v h.1 h.2⟩

/-! The hypothesis on projections cannot be dropped: the code compares only (type, actor) of the matched events.
Events: (actor, type, object). Two executions of one actor locking different mutexes are judged equivalent. -/
def exAid (e : Nat × Nat × Nat) : Nat := e.1
def exKey (e : Nat × Nat × Nat) : Nat × Nat := (e.1, e.2.1)
def exDep (x y : Nat × Nat × Nat) : Bool := x.1 == y.1 || x.2.2 == y.2.2

theorem exDepOk : DepOk exAid exDep where
  sym := by intro x y; unfold exDep; rw [BEq.comm (a := x.1), BEq.comm (a := x.2.2)]
  same := by intro x y h; simp only [exDep, exAid] at *; simp [h]

theorem are_equivalent_needs_projections_counterexample :
    areEquivalent exKey exDep [(1, 0, 5)] [(1, 0, 6)] = true ∧ ¬ TraceEq exDep [(1, 0, 5)] [(1, 0, 6)] := by
  refine ⟨by decide, fun h => ?_⟩
  have := h.perm
  have hm : (1, 0, 5) ∈ [((1 : Nat), (0 : Nat), (6 : Nat))] := this.subset List.mem_cons_self
  simp at hm

/-- non-vacuity: two actors on different objects -/
example : areEquivalent exKey exDep [(1, 0, 5), (2, 0, 6)] [(2, 0, 6), (1, 0, 5)] = true := by decide
example : TraceEq exDep [(1, 0, 5), (2, 0, 6)] [(2, 0, 6), (1, 0, 5)] := .swap _ _ _ (by decide)
example : areEquivalent exKey exDep [(1, 0, 5), (2, 0, 5)] [(2, 0, 5), (1, 0, 5)] = false := by decide


/-! ### canonical form: the lexicographically least linearisation -/

theorem mem_minimals (dep : α → α → Bool) (x : α) : ∀ (r pre : List α),
    x ∈ minimals dep pre r ↔ ∃ p s, r = p ++ x :: s ∧ ∀ y ∈ pre ++ p, dep y x = false
  | [], pre => by simp [minimals]
  | c :: r, pre => by
    simp only [minimals, List.mem_append]
    rw [mem_minimals dep x r (pre ++ [c])]
    constructor
    · rintro (h | ⟨p, s, hr, hind⟩)
      · split at h
        · rename_i hall
          simp only [List.mem_singleton] at h
          subst h
          refine ⟨[], r, rfl, ?_⟩
          intro y hy
          have hy' : y ∈ pre := by simpa using hy
          simpa using List.all_eq_true.mp hall y hy'
        · simp at h
      · exact ⟨c :: p, s, by simp [hr], by simpa using hind⟩
    · rintro ⟨p, s, hr, hind⟩
      cases p with
      | nil =>
        simp only [List.nil_append, List.cons.injEq] at hr
        obtain ⟨rfl, rfl⟩ := hr
        left
        have : pre.all (fun y => !dep y c) = true := by
          rw [List.all_eq_true]; intro y hy; simp [hind y (by simpa using hy)]
        simp [this]
      | cons d p' =>
        simp only [List.cons_append, List.cons.injEq] at hr
        obtain ⟨rfl, rfl⟩ := hr
        right
        exact ⟨p', s, rfl, by simpa using hind⟩

theorem pickMin_none (rank : α → Nat) : ∀ l : List α, pickMin rank l = none → l = []
  | [], _ => rfl
  | x :: r, h => by
    simp only [pickMin] at h
    split at h
    · cases h
    · split at h <;> cases h

theorem pickMin_some (rank : α → Nat) : ∀ (l : List α) (a : α), pickMin rank l = some a →
    a ∈ l ∧ ∀ y ∈ l, rank a ≤ rank y
  | [], a, h => by simp [pickMin] at h
  | x :: r, a, h => by
    simp only [pickMin] at h
    split at h
    · rename_i hn
      cases h
      have := pickMin_none rank r hn
      subst this
      simp
    · rename_i y hy
      obtain ⟨hmem, hle⟩ := pickMin_some rank r y hy
      split at h
      · rename_i hxy
        cases h
        refine ⟨List.mem_cons_self, ?_⟩
        intro z hz
        cases hz with
        | head => exact Nat.le_refl _
        | tail _ hz => exact Nat.le_trans hxy (hle z hz)
      · rename_i hxy
        cases h
        refine ⟨List.mem_cons_of_mem _ hmem, ?_⟩
        intro z hz
        cases hz with
        | head => omega
        | tail _ hz => exact hle z hz

/-- `pickMin` only depends on the set of elements when `rank` is injective. -/
theorem pickMin_congr (rank : α → Nat) (hinj : ∀ x y, rank x = rank y → x = y) (l1 l2 : List α)
    (h : ∀ x, x ∈ l1 ↔ x ∈ l2) : pickMin rank l1 = pickMin rank l2 := by
  cases h1 : pickMin rank l1 with
  | none =>
    have := pickMin_none rank l1 h1
    subst this
    cases h2 : pickMin rank l2 with
    | none => rfl
    | some b => exact absurd ((h b).mpr (pickMin_some rank l2 b h2).1) (by simp)
  | some a =>
    obtain ⟨ha, hla⟩ := pickMin_some rank l1 a h1
    cases h2 : pickMin rank l2 with
    | none =>
      have := pickMin_none rank l2 h2
      subst this
      exact absurd ((h a).mp ha) (by simp)
    | some b =>
      obtain ⟨hb, hlb⟩ := pickMin_some rank l2 b h2
      have h3 := hla b ((h b).mpr hb)
      have h4 := hlb a ((h a).mp ha)
      rw [hinj a b (by omega)]

theorem erase_split [DecidableEq α] (a : α) (p s : List α) (h : a ∉ p) : (p ++ a :: s).erase a = p ++ s := by
  rw [List.erase_append_right _ h]
  simp

theorem minimal_not_mem (dep : α → α → Bool) (hrefl : ∀ x, dep x x = true) (a : α) (p : List α)
    (h : ∀ y ∈ p, dep y a = false) : a ∉ p := by
  intro hm
  have := h a hm
  rw [hrefl] at this; cases this

/-- The canonical form is a linearisation of the same trace. -/
theorem canonAux_equiv [DecidableEq α] (dep : α → α → Bool) (rank : α → Nat)
    (hrefl : ∀ x, dep x x = true) (hsym : ∀ x y, dep x y = dep y x) :
    ∀ (fuel : Nat) (u : List α), u.length ≤ fuel → TraceEq dep (canonAux dep rank fuel u) u
  | 0, u, h => by
    have : u = [] := List.eq_nil_of_length_eq_zero (by omega)
    subst this; exact .nil
  | fuel + 1, u, h => by
    simp only [canonAux]
    split
    · rename_i hn
      have hm := pickMin_none rank _ hn
      cases u with
      | nil => exact .nil
      | cons c r =>
        have : c ∈ minimals dep [] (c :: r) := by
          rw [mem_minimals]; exact ⟨[], r, rfl, by simp⟩
        rw [hm] at this; simp at this
    · rename_i a ha
      obtain ⟨hmem, _⟩ := pickMin_some rank _ a ha
      rw [mem_minimals] at hmem
      obtain ⟨p, s, hu, hind⟩ := hmem
      simp only [List.nil_append] at hind
      have hnp := minimal_not_mem dep hrefl a p hind
      subst hu
      rw [erase_split a p s hnp]
      have hlen : (p ++ s).length ≤ fuel := by simp at h ⊢; omega
      have ih := canonAux_equiv dep rank hrefl hsym fuel (p ++ s) hlen
      exact .trans (.cons a ih) ((TraceEq.move_front a p s hind).symm hsym)

theorem canon_equiv [DecidableEq α] (dep : α → α → Bool) (rank : α → Nat)
    (hrefl : ∀ x, dep x x = true) (hsym : ∀ x y, dep x y = dep y x) (u : List α) :
    TraceEq dep (canon dep rank u) u :=
  canonAux_equiv dep rank hrefl hsym u.length u (Nat.le_refl _)

theorem minimals_equiv (dep : α → α → Bool) (hrefl : ∀ x, dep x x = true) (hsym : ∀ x y, dep x y = dep y x)
    {u v : List α} (h : TraceEq dep u v) (x : α) (hx : x ∈ minimals dep [] u) : x ∈ minimals dep [] v := by
  rw [mem_minimals] at hx ⊢
  obtain ⟨p, s, hu, hind⟩ := hx
  simp only [List.nil_append] at hind
  obtain ⟨v1, v2, hv, _, hiv, _⟩ := TraceEq.split hrefl hsym h p x s hu (minimal_not_mem dep hrefl x p hind) hind
  exact ⟨v1, v2, hv, by simpa using hiv⟩

/-- The canonical form is invariant under independent swaps: equivalent words have the same canonical form. -/
theorem canonAux_invariant [DecidableEq α] (dep : α → α → Bool) (rank : α → Nat)
    (hrefl : ∀ x, dep x x = true) (hsym : ∀ x y, dep x y = dep y x) (hinj : ∀ x y, rank x = rank y → x = y) :
    ∀ (fuel : Nat) (u v : List α), TraceEq dep u v → canonAux dep rank fuel u = canonAux dep rank fuel v
  | 0, _, _, _ => rfl
  | fuel + 1, u, v, h => by
    have hset : ∀ x, x ∈ minimals dep [] u ↔ x ∈ minimals dep [] v :=
      fun x => ⟨minimals_equiv dep hrefl hsym h x, minimals_equiv dep hrefl hsym (h.symm hsym) x⟩
    have hpick := pickMin_congr rank hinj _ _ hset
    simp only [canonAux, hpick]
    split
    · rfl
    · rename_i a ha
      obtain ⟨hmem, _⟩ := pickMin_some rank _ a ha
      have hmemu := (hset a).mpr hmem
      rw [mem_minimals] at hmemu
      obtain ⟨p, s, hu, hind⟩ := hmemu
      simp only [List.nil_append] at hind
      have hnp := minimal_not_mem dep hrefl a p hind
      obtain ⟨v1, v2, hv, hnv, _, heq⟩ := TraceEq.split hrefl hsym h p a s hu hnp hind
      subst hu hv
      rw [erase_split a p s hnp, erase_split a v1 v2 hnv]
      rw [canonAux_invariant dep rank hrefl hsym hinj fuel _ _ heq]

theorem canon_invariant [DecidableEq α] (dep : α → α → Bool) (rank : α → Nat)
    (hrefl : ∀ x, dep x x = true) (hsym : ∀ x y, dep x y = dep y x) (hinj : ∀ x y, rank x = rank y → x = y)
    {u v : List α} (h : TraceEq dep u v) : canon dep rank u = canon dep rank v := by
  unfold canon
  rw [h.length_eq]
  exact canonAux_invariant dep rank hrefl hsym hinj v.length u v h

/-- Completeness: two words are equivalent iff they have the same canonical form. -/
theorem canon_complete [DecidableEq α] (dep : α → α → Bool) (rank : α → Nat)
    (hrefl : ∀ x, dep x x = true) (hsym : ∀ x y, dep x y = dep y x) (hinj : ∀ x y, rank x = rank y → x = y)
    (u v : List α) : TraceEq dep u v ↔ canon dep rank u = canon dep rank v := by
  constructor
  · exact canon_invariant dep rank hrefl hsym hinj
  · intro h
    have h1 := canon_equiv dep rank hrefl hsym u
    have h2 := canon_equiv dep rank hrefl hsym v
    rw [h] at h1
    exact .trans (h1.symm hsym) h2

/-- non-vacuity of the canonical form on the example alphabet -/
def exRank (e : Nat × Nat × Nat) : Nat := (e.1 * 1000 + e.2.1) * 1000 + e.2.2
example : canon exDep exRank [(2, 0, 6), (1, 0, 5), (2, 1, 6)] = [(1, 0, 5), (2, 0, 6), (2, 1, 6)] := by decide
example : canon exDep exRank [(2, 0, 5), (1, 0, 5)] = [(2, 0, 5), (1, 0, 5)] := by decide


/-! ### the checker's dependency relation on the labels of the mini-language -/

/-- The transliteration of `Transition::dispatch_depends` (McRef/Dep.lean) is symmetric and makes the transitions of
one actor dependent (the 400 pairs of kinds are enumerated). -/
theorem checker_dep_ok : DepOk (fun l : Label => l.aid) depLabel where
  same := by intro x y h; simp [depLabel, h]
  sym := by
    intro x y
    unfold depLabel
    by_cases h : x.aid = y.aid
    · simp [h]
    · have h' : ¬ y.aid = x.aid := fun e => h e.symm
      simp only [beq_iff_eq, h, h', if_false]
      obtain ⟨xa, xt, xk, xo, xo2, xs, xd⟩ := x
      obtain ⟨ya, yt, yk, yo, yo2, ys, yd⟩ := y
      cases xk <;> cases yk <;> simp only [depOrdered, Kind.idx] <;> (try rfl) <;> (try decide) <;>
        (first | (simp only [Bool.or_comm, BEq.comm (a := xo), BEq.comm (a := xo2)]; done) | (simp <;> omega) | skip)

/-- `are_equivalent` with the checker's key (type_, aid_) and dependency relation decides trace equivalence of two
executions of the mini-language in which every actor performs the same transitions. -/
theorem are_equivalent_on_labels (u v : List Label)
    (hp : ∀ p, proj (fun l : Label => l.aid) p u = proj (fun l : Label => l.aid) p v) :
    areEquivalent (fun l : Label => (l.kind.idx, l.aid)) depLabel u v = true ↔ TraceEq depLabel u v :=
  are_equivalent_iff_trace_equiv (fun l : Label => l.aid) (fun l : Label => (l.kind.idx, l.aid)) depLabel checker_dep_ok
    (by intro x y h; exact (Prod.mk.inj h).2) u v hp

end SgVerif.C40
